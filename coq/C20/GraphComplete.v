(* C20/GraphComplete.v -- UNBOUNDED: COMPLETENESS of findContainingNodes, and with it the closure of
   the Insert theorems: EVERY Insert preserves the full invariant, with no side hypothesis.

   findContainingNodes (Graph.find_containing) only reads the graph through the heads: it walks from
   every head (in hash order) along the ancestor edges towards the base, skipping the vote-nodes it
   has visited already.  The invariant that makes the walk complete is

     heads_cover G heads : every vote-node has a head at or below it, and that head is a vote-node.

   (The g_desc lists are not read by findContainingNodes nor by Insert's propagation; they matter
   for FindGHOST only and are not constrained here.)  It holds initially and is preserved by every
   Insert path (insert_cover).  From chain_inv, anc_wf, heads_cover and "the base is a vote-node":

     find_containing_complete : every vote-node x below h whose ancestor edge passes through h
                                (the vote-node ending it is above h) is in the returned list;
     complete_branch          : hence branch_complete, hypothesis (a) of insert_branch;
     complete_empty           : hence "returned [] => no vote-node below h", the hypothesis of
                                insert_append.

   insert_preserves_all: full_inv (chain_inv, cum_ok, anc_wf, base, votes on vote-nodes,
   heads_cover) is preserved by every Insert.  reach_all: the states reachable from the initial
   round by ANY imports (every first vote is an Insert, whatever path it takes) -- all of them are
   reach_full states, so every vote-node carries the specification's weight in both phases.

   Last part (Section Shape): the exact shape of the heads and of the g_desc lists -- heads_exact
   (every head is a vote-node with no vote-node strictly below it) and desc_ok (g_desc of x = the
   vote-nodes whose ancestor edge ends in x) -- hold initially and are preserved by every Insert
   (insert_preserves_shape), hence in every reach_all state. *)
From Coq Require Import List Arith Lia Bool NArith.
From Grandpa Require Import Tree Votes RoundSpec.
From C20 Require Import Model Graph GraphInv GraphInvAppend GraphTracker GraphReach GraphInvBranch.
Import ListNotations.

Lemma last_opt_nth {A} (l : list A) p : last_opt l = Some p -> nth_error l (length l - 1) = Some p.
Proof.
  induction l as [|x r IH]; [discriminate|]. destruct r as [|y r'].
  - cbn. intro H. injection H as ->. reflexivity.
  - intro H. change (last_opt (y :: r') = Some p) in H. specialize (IH H).
    cbn [length] in *. replace (S (S (length r')) - 1)%nat with (S (S (length r') - 1)) by lia.
    exact IH.
Qed.

Lemma nth_error_firstn_lt {A} (l : list A) n k : (k < length (firstn n l))%nat ->
  nth_error (firstn n l) k = nth_error l k.
Proof.
  intro H. transitivity (nth_error (firstn n l ++ skipn n l) k).
  - symmetry. apply nth_error_app1. exact H.
  - now rewrite firstn_skipn.
Qed.

Lemma filter_le_len p x (l : list nat) : (p <= x)%nat ->
  (length (filter (fun k => k <=? p)%nat l) <= length (filter (fun k => k <=? x)%nat l))%nat.
Proof.
  intro L. induction l as [|a r IH]; [cbn; lia|]. cbn [filter].
  destruct (Nat.leb_spec a p), (Nat.leb_spec a x); cbn [length]; lia.
Qed.

Lemma filter_lt_len p x (l : list nat) : (p < x)%nat -> In x l ->
  (length (filter (fun k => k <=? p)%nat l) < length (filter (fun k => k <=? x)%nat l))%nat.
Proof.
  intros L I. induction l as [|a r IH]; [destruct I|]. cbn [filter].
  assert (LE : (p <= x)%nat) by lia. pose proof (filter_le_len p x r LE) as Q.
  destruct I as [->|I].
  - destruct (Nat.leb_spec x p); [lia|]. destruct (Nat.leb_spec x x); [|lia]. cbn [length]. lia.
  - specialize (IH I). destruct (Nat.leb_spec a p), (Nat.leb_spec a x); cbn [length]; lia.
Qed.

Lemma filter_len_le {A} (f : A -> bool) l : (length (filter f l) <= length l)%nat.
Proof. induction l as [|a r IH]; [cbn; lia|]. cbn [filter]. destruct (f a); cbn [length]; lia. Qed.

Lemma eget_In_keys : forall (m : entries) x e, eget x m = Some e -> In x (map fst m).
Proof.
  induction m as [|[k e'] r IH]; intros x e H; [discriminate|]. cbn [eget] in H. cbn [map fst].
  destruct (Nat.eqb_spec k x) as [->|N]; [now left|right; eauto].
Qed.

Lemma prop_keys fuel G x b y :
  (exists e, eget y (propagate fuel G x b) = Some e) <-> (exists e, eget y G = Some e).
Proof.
  pose proof (propagate_g_anc fuel G x b y) as H.
  destruct (eget y (propagate fuel G x b)), (eget y G); cbn in H; try discriminate;
    split; intros [z Z]; eauto; discriminate.
Qed.

Section Cover.
Variable t : tree.
Variable lbl : block -> nat.

Lemma chain_nth_depth x k a : nth_error (chain t x) k = Some a -> (depth t a + k = depth t x)%nat.
Proof.
  intro H. pose proof (chain_skipn t x k a H) as SK.
  assert (L : (k < length (chain t x))%nat) by (apply nth_error_Some; congruence).
  assert (LEN : length (chain t a) = (length (chain t x) - k)%nat) by (rewrite <- SK; apply skipn_length).
  pose proof (chain_length_pos t a). unfold depth. lia.
Qed.

Lemma chain_nth_anc : forall x a, anc t a x -> nth_error (chain t x) (depth t x - depth t a) = Some a.
Proof.
  intro x. induction x as [|x NZ IH] using (block_ind t); intros a A.
  - apply anc_0 in A. subst. reflexivity.
  - apply anc_step in A; [|exact NZ]. destruct A as [->|A].
    + rewrite Nat.sub_diag. rewrite (chain_nz t x NZ). reflexivity.
    + pose proof (anc_depth_le t _ _ A). rewrite (depth_nz t x NZ). rewrite (chain_nz t x NZ).
      replace (S (depth t (parent t x)) - depth t a)%nat with (S (depth t (parent t x) - depth t a)) by lia.
      cbn [nth_error]. apply IH. exact A.
Qed.

Lemma anc_depth_lt a b : anc t a b -> a <> b -> (depth t a < depth t b)%nat.
Proof.
  intros A N. pose proof (anc_depth_le t a b A).
  destruct (Nat.eq_dec (depth t a) (depth t b)) as [E|]; [|lia].
  exfalso. apply N. exact (anc_depth_eq t a b A E).
Qed.

Lemma ins_sorted_In x y l : In y (ins_sorted lbl x l) <-> y = x \/ In y l.
Proof.
  induction l as [|z r IH]; cbn [ins_sorted].
  - cbn. intuition.
  - destruct (lbl x <=? lbl z)%nat; cbn [In]; [intuition|]. rewrite IH. cbn [In]. intuition.
Qed.

Lemma sort_heads_In y l : In y (sort_heads lbl l) <-> In y l.
Proof.
  induction l as [|z r IH]; [reflexivity|]. unfold sort_heads in *. cbn [fold_right].
  rewrite ins_sorted_In, IH. cbn [In]. intuition.
Qed.

(* every vote-node has a head at or below it (and the head is a vote-node) *)
Definition heads_cover (G : entries) (heads : list block) : Prop :=
  forall x e, eget x G = Some e ->
    exists hd ehd, In hd heads /\ eget hd G = Some ehd /\ anc t x hd.

(* ---------------------------------------------------------------------------------------- *)
Section Walk.
Variable G : entries.
Variable h : block.
Hypothesis CI : chain_inv t G.
Hypothesis W : anc_wf t G.
Hypothesis BASE : exists e0, eget 0%nat G = Some e0.
Hypothesis EH : eget h G = None.

Definition ida (x : block) (e : entry) : option bool := in_direct_ancestry t x e h (number t h).

(* the ancestor list of a vote-node is the segment of its chain down to the next vote-node *)
Lemma node_len x e p : eget x G = Some e -> ancestor_node e = Some p ->
  length (g_anc e) = (depth t x - depth t p)%nat /\ (depth t p < depth t x)%nat /\
  forall k, (k < length (g_anc e))%nat -> nth_error (g_anc e) k = nth_error (chain t x) (S k).
Proof.
  intros E AN. destruct (W x e E) as [n GA]. destruct (chain_head t x) as [r CH].
  unfold ancestor_node in AN. pose proof (last_opt_nth _ _ AN) as N.
  assert (LP : (0 < length (g_anc e))%nat) by (destruct (g_anc e); [discriminate|cbn; lia]).
  assert (NTH : forall k, (k < length (g_anc e))%nat -> nth_error (g_anc e) k = nth_error (chain t x) (S k)).
  { intros k K. rewrite GA in K |- *. rewrite (nth_error_firstn_lt _ _ _ K). rewrite CH. reflexivity. }
  rewrite NTH in N by lia. replace (S (length (g_anc e) - 1)) with (length (g_anc e)) in N by lia.
  apply chain_nth_depth in N. split; [lia|]. split; [lia|exact NTH].
Qed.

Lemma node_parent_node x e p : eget x G = Some e -> ancestor_node e = Some p -> p <> h.
Proof.
  intros E AN X. pose proof (CI x e E) as C. rewrite AN in C. destruct C as [[pe PE] _]. congruence.
Qed.

(* h lies strictly inside the edge of x: the inDirectAncestry test succeeds *)
Lemma ida_inside x e p : eget x G = Some e -> ancestor_node e = Some p -> anc t h x -> anc t p h ->
  ida x e = Some true.
Proof.
  intros E AN AH AP. destruct (node_len x e p E AN) as [LEN [_ NTH]].
  assert (HX : h <> x) by (intro X; subst; congruence).
  pose proof (node_parent_node x e p E AN) as PH.
  pose proof (anc_depth_lt _ _ AH HX) as D1. pose proof (anc_depth_lt _ _ AP PH) as D2.
  unfold ida, in_direct_ancestry, ancestor_block, number.
  destruct (Nat.leb_spec (depth t x) (depth t h)); [lia|].
  rewrite NTH by lia. replace (S (depth t x - depth t h - 1)) with (depth t x - depth t h)%nat by lia.
  rewrite (chain_nth_anc x h AH). now rewrite Nat.eqb_refl.
Qed.

(* h lies above the whole edge of x: the test is undecided and the walk goes on *)
Lemma ida_below x e p : eget x G = Some e -> ancestor_node e = Some p -> anc t h x -> anc t h p ->
  ida x e = None.
Proof.
  intros E AN AH AP. destruct (node_len x e p E AN) as [LEN [DP _]].
  assert (HX : h <> x) by (intro X; subst; congruence).
  pose proof (node_parent_node x e p E AN) as PH.
  assert (PH' : h <> p) by congruence.
  pose proof (anc_depth_lt _ _ AH HX) as D1. pose proof (anc_depth_lt _ _ AP PH') as D2.
  unfold ida, in_direct_ancestry, ancestor_block, number.
  destruct (Nat.leb_spec (depth t x) (depth t h)); [lia|].
  assert (Z : nth_error (g_anc e) (depth t x - depth t h - 1) = None) by (apply nth_error_None; lia).
  now rewrite Z.
Qed.

(* a vote-node below h has a vote-node above it *)
Lemma below_parent x e : eget x G = Some e -> anc t h x ->
  exists p pe, ancestor_node e = Some p /\ eget p G = Some pe /\ anc t p x /\ (p < x)%nat /\
    (forall y ey, eget y G = Some ey -> anc t y x -> y <> x -> anc t y p).
Proof.
  intros E AH. pose proof (CI x e E) as C. destruct (ancestor_node e) as [p|].
  - destruct C as [[pe PE] [A [N M]]]. exists p, pe. split; [reflexivity|]. split; [exact PE|].
    split; [exact A|]. split; [apply anc_le in A; lia|exact M].
  - exfalso. destruct BASE as [e0 E0]. pose proof (C 0%nat e0 E0 (anc_root t x)) as Z. subst x.
    apply anc_0 in AH. subst h. congruence.
Qed.

(* the vote-nodes findContainingNodes has to return *)
Definition containing (x : block) : Prop :=
  exists e p, eget x G = Some e /\ ancestor_node e = Some p /\ anc t h x /\ anc t p h.

(* what a finished walk guarantees about a visited vote-node below h *)
Definition lc (vis acc : list block) (v : block) : Prop :=
  forall e, eget v G = Some e -> anc t h v ->
    (containing v -> In v acc) /\ (forall p, ancestor_node e = Some p -> anc t h p -> In p vis).

Lemma lc_mono vis acc vis' acc' v : incl vis vis' -> incl acc acc' -> lc vis acc v -> lc vis' acc' v.
Proof.
  intros I1 I2 L e E AH. destruct (L e E AH) as [A B]. split; [intro C; apply I2; auto|].
  intros p AN AP. apply I1. eauto.
Qed.

(* fuel: the vote-nodes on a walk have strictly decreasing block indices *)
Definition cnt (x : block) : nat := length (filter (fun k => k <=? x)%nat (map fst G)).

Lemma cnt_lt p x : (p < x)%nat -> (exists e, eget x G = Some e) -> (cnt p < cnt x)%nat.
Proof. intros L [e E]. apply filter_lt_len; [exact L|]. eapply eget_In_keys; eauto. Qed.

Lemma cnt_fuel x : (cnt x < S (length G))%nat.
Proof. unfold cnt. pose proof (filter_len_le (fun k => k <=? x)%nat (map fst G)). rewrite map_length in H. lia. Qed.

Lemma walk_lc : forall fuel head vis acc vis' acc', (cnt head < fuel)%nat ->
  walk t fuel G h head vis acc = (vis', acc') ->
  incl vis vis' /\ incl acc acc' /\ ((exists e, eget head G = Some e) -> In head vis') /\
  (forall v, In v vis' -> ~ In v vis -> lc vis' acc' v).
Proof.
  induction fuel as [|f IH]; intros head vis acc vis' acc' F; [lia|]. cbn [walk].
  destruct (eget head G) as [e|] eqn:E.
  2:{ intro H. injection H as <- <-. split; [apply incl_refl|]. split; [apply incl_refl|].
      split; [intros [z Z]; discriminate|]. intros v I N. contradiction. }
  destruct (memb head vis) eqn:MV.
  { intro H. injection H as <- <-. split; [apply incl_refl|]. split; [apply incl_refl|].
    split; [intros _; now apply memb_In|]. intros v I N. contradiction. }
  fold (ida head e). destruct (ida head e) as [[|]|] eqn:IDA.
  - intro H. injection H as <- <-. split; [apply incl_tl, incl_refl|]. split; [apply incl_appl, incl_refl|].
    split; [intros _; now left|].
    intros v [<-|I] N; [|contradiction]. intros e' E' AH. rewrite E in E'. injection E' as <-.
    split; [intros _; apply in_or_app; right; now left|].
    intros p AN AP. rewrite (ida_below head e p E AN AH AP) in IDA. discriminate.
  - intro H. injection H as <- <-. split; [apply incl_tl, incl_refl|]. split; [apply incl_refl|].
    split; [intros _; now left|].
    intros v [<-|I] N; [|contradiction]. intros e' E' AH. rewrite E in E'. injection E' as <-. split.
    + intros [e2 [p2 [E2 [AN2 [_ AP]]]]]. rewrite E in E2. injection E2 as <-.
      rewrite (ida_inside head e p2 E AN2 AH AP) in IDA. discriminate.
    + intros p AN AP. rewrite (ida_below head e p E AN AH AP) in IDA. discriminate.
  - destruct (ancestor_node e) as [p|] eqn:AN.
    + pose proof (CI head e E) as C. rewrite AN in C. destruct C as [[pe PE] [A [NE _]]].
      assert (PL : (p < head)%nat) by (apply anc_le in A; lia).
      assert (F' : (cnt p < f)%nat) by (pose proof (cnt_lt p head PL (ex_intro _ e E)); lia).
      intro H. destruct (IH p (head :: vis) acc vis' acc' F' H) as [I1 [I2 [I3 I4]]].
      split; [intros z Z; apply I1; now right|]. split; [exact I2|].
      split; [intros _; apply I1; now left|].
      intros v I N. destruct (Nat.eq_dec v head) as [->|NV].
      * intros e' E' AH. rewrite E in E'. injection E' as <-. split.
        -- intros [e2 [p2 [E2 [AN2 [_ AP]]]]]. rewrite E in E2. injection E2 as <-.
           rewrite (ida_inside head e p2 E AN2 AH AP) in IDA. discriminate.
        -- intros p' AN' _. rewrite AN in AN'. injection AN' as <-. apply I3. eauto.
      * apply I4; [exact I|]. intros [X|X]; [congruence|contradiction].
    + intro H. injection H as <- <-. split; [apply incl_tl, incl_refl|]. split; [apply incl_refl|].
      split; [intros _; now left|].
      intros v [<-|I] N; [|contradiction]. intros e' E' AH. rewrite E in E'. injection E' as <-. split.
      * intros [e2 [p2 [E2 [AN2 _]]]]. rewrite E in E2. injection E2 as <-. congruence.
      * intros p AN' _. congruence.
Qed.

Definition inv (vis acc : list block) : Prop := forall v, In v vis -> lc vis acc v.

Lemma walk_inv fuel head vis acc vis' acc' : (cnt head < fuel)%nat -> inv vis acc ->
  walk t fuel G h head vis acc = (vis', acc') ->
  inv vis' acc' /\ incl vis vis' /\ ((exists e, eget head G = Some e) -> In head vis').
Proof.
  intros F I H. destruct (walk_lc fuel head vis acc vis' acc' F H) as [I1 [I2 [I3 I4]]].
  split; [|split; assumption].
  intros v IV. destruct (in_dec Nat.eq_dec v vis) as [Y|N].
  - exact (lc_mono vis acc vis' acc' v I1 I2 (I v Y)).
  - exact (I4 v IV N).
Qed.

Lemma fold_inv : forall l vis acc vis' acc', inv vis acc ->
  fold_left (fun st head => walk t (S (length G)) G h head (fst st) (snd st)) l (vis, acc) = (vis', acc') ->
  inv vis' acc' /\ incl vis vis' /\
  (forall hd, In hd l -> (exists e, eget hd G = Some e) -> In hd vis').
Proof.
  induction l as [|x r IH]; intros vis acc vis' acc' I F.
  - cbn in F. injection F as <- <-. split; [exact I|]. split; [apply incl_refl|]. intros hd [].
  - cbn [fold_left fst snd] in F. destruct (walk t (S (length G)) G h x vis acc) as [v1 a1] eqn:WK.
    destruct (walk_inv _ _ _ _ _ _ (cnt_fuel x) I WK) as [I1 [S1 H1]].
    destruct (IH v1 a1 vis' acc' I1 F) as [I2 [S2 H2]]. split; [exact I2|].
    split; [eapply incl_tran; eauto|].
    intros hd [<-|IN] N; [apply S2, H1, N|exact (H2 hd IN N)].
Qed.

(* from a visited vote-node the closure reaches every containing node above it *)
Lemma climb vis acc : inv vis acc -> forall v, In v vis -> (exists e, eget v G = Some e) ->
  forall x, containing x -> anc t x v -> In x acc.
Proof.
  intros I v. induction v as [v IHv] using lt_wf_ind. intros IV [e E] x CX AX.
  pose proof CX as [ex [px [EX [ANx [AHx APx]]]]].
  destruct (Nat.eq_dec x v) as [->|NX].
  - exact (proj1 (I v IV ex EX AHx) CX).
  - assert (AHv : anc t h v) by exact (anc_trans t h x v AHx AX).
    destruct (below_parent v e E AHv) as [p [pe [AN [PE [A [PL M]]]]]].
    pose proof (M x ex EX AX NX) as AXP.
    assert (AHP : anc t h p) by exact (anc_trans t h x p AHx AXP).
    pose proof (proj2 (I v IV e E AHv) p AN AHP) as IP.
    exact (IHv p PL IP (ex_intro _ pe PE) x CX AXP).
Qed.

Theorem find_containing_complete heads ds : heads_cover G heads ->
  find_containing t lbl G heads h = Some ds -> forall x, containing x -> In x ds.
Proof.
  intros HC FC x CX. unfold find_containing in FC. rewrite EH in FC.
  assert (FC' : snd (fold_left (fun st head => walk t (S (length G)) G h head (fst st) (snd st))
              (sort_heads lbl heads) ([], [])) = ds) by (injection FC as FC; exact FC).
  clear FC. rename FC' into FC.
  destruct (fold_left (fun st head => walk t (S (length G)) G h head (fst st) (snd st))
              (sort_heads lbl heads) ([], [])) as [vf af] eqn:F.
  cbn [snd] in FC. subst af.
  assert (I0 : inv [] []) by (intros v []).
  destruct (fold_inv _ _ _ _ _ I0 F) as [I [_ HV]].
  pose proof CX as [ex [px [EX _]]]. destruct (HC x ex EX) as [hd [ehd [IH [EHD A]]]].
  apply (climb vf ds I hd); [|eauto|exact CX|exact A].
  apply HV; [now apply sort_heads_In|eauto].
Qed.

(* (a) the completeness hypothesis of insert_branch *)
Theorem complete_branch heads ds : heads_cover G heads ->
  find_containing t lbl G heads h = Some ds -> branch_complete t G ds h.
Proof.
  intros HC FC x e E AH. destruct (below_parent x e E AH) as [p [pe [AN [PE [A _]]]]].
  destruct (anc_linear t h p x AH A) as [HP|PH]; [right; eauto|].
  left. apply (find_containing_complete heads ds HC FC). exists e, p. auto.
Qed.

(* (b) the hypothesis of insert_append *)
Theorem complete_empty heads : heads_cover G heads ->
  find_containing t lbl G heads h = Some [] -> forall y ey, eget y G = Some ey -> ~ anc t h y.
Proof.
  intros HC FC y. induction y as [y IHy] using lt_wf_ind. intros ey EY AH.
  destruct (below_parent y ey EY AH) as [p [pe [AN [PE [A [PL _]]]]]].
  destruct (anc_linear t h p y AH A) as [HP|PH]; [exact (IHy p PL pe PE HP)|].
  apply (find_containing_complete heads [] HC FC y). exists ey, p. auto.
Qed.

End Walk.

(* ---------------------------------------------------------------------------------------- *)
(* heads_cover is preserved by every Insert *)
Lemma cover_same G G' heads :
  (forall y, (exists e, eget y G' = Some e) <-> (exists e, eget y G = Some e)) ->
  heads_cover G heads -> heads_cover G' heads.
Proof.
  intros K HC x e E. destruct (proj1 (K x) (ex_intro _ e E)) as [e0 E0].
  destruct (HC x e0 E0) as [hd [ehd [I [EHD A]]]].
  destruct (proj2 (K hd) (ex_intro _ ehd EHD)) as [e2 E2]. exists hd, e2. auto.
Qed.

Lemma cover_append G heads G' heads' h a : heads_cover G heads ->
  (forall y, (exists e, eget y G' = Some e) <-> y = h \/ (exists e, eget y G = Some e)) ->
  anc t a h -> In h heads' -> (forall hd, In hd heads -> hd <> a -> In hd heads') ->
  heads_cover G' heads'.
Proof.
  intros HC K AH IH' KEEP x e E.
  destruct (proj2 (K h) (or_introl eq_refl)) as [eh EH'].
  destruct (proj1 (K x) (ex_intro _ e E)) as [->|[e0 E0]].
  - exists h, eh. split; [exact IH'|]. split; [exact EH'|apply anc_refl].
  - destruct (HC x e0 E0) as [hd [ehd [I [EHD A]]]]. destruct (Nat.eq_dec hd a) as [->|N].
    + exists h, eh. split; [exact IH'|]. split; [exact EH'|]. eapply anc_trans; eauto.
    + destruct (proj2 (K hd) (or_intror (ex_intro _ ehd EHD))) as [e2 E2].
      exists hd, e2. split; [exact (KEEP hd I N)|]. split; [exact E2|exact A].
Qed.

Lemma cover_branch G heads G' h d : heads_cover G heads ->
  (forall y, (exists e, eget y G' = Some e) <-> y = h \/ (exists e, eget y G = Some e)) ->
  (exists e, eget d G = Some e) -> anc t h d -> heads_cover G' heads.
Proof.
  intros HC K [ed ED] AD x e E.
  assert (OLD : forall x0 e0, eget x0 G = Some e0 -> forall z, anc t z x0 ->
                exists hd ehd, In hd heads /\ eget hd G' = Some ehd /\ anc t z hd).
  { intros x0 e0 E0 z AZ. destruct (HC x0 e0 E0) as [hd [ehd [I [EHD A]]]].
    destruct (proj2 (K hd) (or_intror (ex_intro _ ehd EHD))) as [e2 E2].
    exists hd, e2. split; [exact I|]. split; [exact E2|]. eapply anc_trans; eauto. }
  destruct (proj1 (K x) (ex_intro _ e E)) as [->|[e0 E0]].
  - exact (OLD d ed ED h AD).
  - exact (OLD x e0 E0 x (anc_refl t x)).
Qed.

Theorem insert_cover G heads h b : anc_wf t G -> (exists e0, eget 0%nat G = Some e0) ->
  heads_cover G heads ->
  heads_cover (fst (insert t lbl G heads h b)) (snd (insert t lbl G heads h b)).
Proof.
  intros W BASE HC. unfold insert.
  destruct (find_containing t lbl G heads h) as [[|d1 r]|] eqn:FC; cbn [fst snd].
  - (* append *)
    assert (EH : eget h G = None).
    { unfold find_containing in FC. destruct (eget h G); [discriminate|reflexivity]. }
    assert (HNZ : h <> 0%nat) by (intro X; subst h; destruct BASE; congruence).
    unfold append_node. rewrite (chain_nz t h HNZ). cbn [tl].
    destruct (first_entry_chain t G BASE (parent t h) 0) as [i [a [F [[ea EA] [AQ M]]]]].
    rewrite F, EA. cbn [fst snd].
    assert (AH : anc t a h) by (eapply anc_trans; [exact AQ|apply anc_parent]).
    apply (cover_append G heads _ _ h a HC).
    + intro y. rewrite prop_keys, !eget_eset.
      destruct (Nat.eqb_spec y h) as [->|NH]; [split; eauto|].
      destruct (Nat.eqb_spec y a) as [->|NA].
      * split; [intros _; right; eauto|eauto].
      * split; [intros X; now right|intros [X|X]; [congruence|exact X]].
    + exact AH.
    + apply in_or_app. right. now left.
    + intros hd I N. apply in_or_app. left. unfold remove_block. apply filter_In. split; [exact I|].
      apply negb_true_iff. now apply Nat.eqb_neq.
  - (* introduceBranch *)
    assert (EH : eget h G = None).
    { unfold find_containing in FC. destruct (eget h G); [discriminate|reflexivity]. }
    pose proof (find_containing_sound t lbl G heads h _ FC) as CS.
    assert (ALL : forall d, In d (d1 :: r) -> exists e, eget d G = Some e).
    { intros d I. destruct (CS d I) as [e [E _]]. eauto. }
    destruct (CS d1 (or_introl eq_refl)) as [e1 [E1 IDA1]].
    destruct (wf_ida t G d1 e1 h W E1 IDA1) as [_ [AD _]].
    destruct (branch_shape t G (d1 :: r) h d1 r e1 eq_refl EH ALL E1) as [ne [G2h [_ [_ [OLD KEEP]]]]].
    apply (cover_branch G heads _ h d1 HC); [|eauto|exact AD].
    intro y. rewrite prop_keys. split.
    + intros [e E]. destruct (Nat.eq_dec y h) as [->|N]; [now left|right].
      destruct (OLD y e N E) as [e0 [E0 _]]. eauto.
    + intros [->|[e E]]; [eauto|]. exact (KEEP y e E).
  - (* the block has a vote-node *)
    apply (cover_same G); [|exact HC]. intro y. apply prop_keys.
Qed.

Lemma init_cover : heads_cover (r_G rinit) (r_heads rinit).
Proof.
  intros x e H. cbn in H. destruct x; [|discriminate]. exists 0%nat, e.
  split; [left; reflexivity|]. split; [exact H|apply anc_refl].
Qed.

(* ---------------------------------------------------------------------------------------- *)
(* the full invariant and its preservation by EVERY Insert *)
Definition full_inv (G : entries) (heads : list block) (ins : list (block * bit)) : Prop :=
  chain_inv t G /\ cum_ok t G ins /\ anc_wf t G /\ (exists e0, eget 0%nat G = Some e0) /\
  (forall p, In p ins -> exists e, eget (fst p) G = Some e) /\ heads_cover G heads.

Lemma init_full_inv : full_inv (r_G rinit) (r_heads rinit) [].
Proof.
  destruct (init_graph_inv t) as [A [B C]]. split; [exact A|]. split; [exact B|].
  split; [apply init_anc_wf|]. split; [exact C|]. split; [intros p []|exact init_cover].
Qed.

Theorem insert_preserves_all G heads h b ins : full_inv G heads ins ->
  full_inv (fst (insert t lbl G heads h b)) (snd (insert t lbl G heads h b)) ((h, b) :: ins).
Proof.
  intros [CI [CO [W [BASE [IN HC]]]]].
  pose proof (insert_anc_wf t lbl G heads h b W) as W'.
  pose proof (insert_cover G heads h b W BASE HC) as HC'.
  destruct (eget h G) as [e0|] eqn:EH.
  - pose proof (insert_existing_node t lbl G heads h b ins e0 CI CO EH) as P.
    destruct (insert t lbl G heads h b) as [G' heads'] eqn:INS. cbn [fst snd] in *.
    destruct P as [_ [CI' [CO' [GA _]]]].
    assert (KEYS : forall y ey, eget y G = Some ey -> exists e2, eget y G' = Some e2).
    { intros y ey Y. specialize (GA y). rewrite Y in GA. destruct (eget y G'); [eauto|discriminate]. }
    split; [exact CI'|]. split; [exact CO'|]. split; [exact W'|].
    split; [destruct BASE as [z Z]; eapply KEYS; eauto|]. split; [|exact HC'].
    intros p [<-|I]; cbn [fst]; [eapply KEYS; eauto|]. destruct (IN p I) as [ep EP]. eapply KEYS; eauto.
  - destruct (find_containing t lbl G heads h) as [ds|] eqn:FC.
    2:{ unfold find_containing in FC. rewrite EH in FC. discriminate. }
    destruct ds as [|d1 r].
    + pose proof (complete_empty G h CI W BASE EH heads HC FC) as NB.
      pose proof (insert_append t lbl G heads h b ins CI CO BASE EH FC NB IN) as P.
      destruct (insert t lbl G heads h b) as [G' heads'] eqn:INS. cbn [fst snd] in *.
      destruct P as [CI' [CO' [_ [IN' KEYS]]]].
      split; [exact CI'|]. split; [exact CO'|]. split; [exact W'|].
      split; [destruct BASE as [z Z]; eapply KEYS; eauto|]. split; [exact IN'|exact HC'].
    + assert (NE : d1 :: r <> []) by discriminate.
      pose proof (complete_branch G h CI W BASE EH heads _ HC FC) as CMP.
      pose proof (insert_branch t lbl G heads h b ins _ CI CO EH FC NE
                    (branch_sound_of_wf t lbl G heads h _ W FC) CMP IN) as P.
      destruct (insert t lbl G heads h b) as [G' heads'] eqn:INS. cbn [fst snd] in *.
      destruct P as [_ [CI' [CO' [_ [IN' KEYS]]]]].
      split; [exact CI'|]. split; [exact CO'|]. split; [exact W'|].
      split; [destruct BASE as [z Z]; eapply KEYS; eauto|]. split; [exact IN'|exact HC'].
Qed.

(* the invariant holds after any sequence of Inserts from the initial graph *)
Fixpoint inserts (vs : list (block * bit)) : entries * list block :=
  match vs with
  | [] => (r_G rinit, r_heads rinit)
  | (h, b) :: r => let '(G, heads) := inserts r in insert t lbl G heads h b
  end.

Theorem inserts_full_inv vs : full_inv (fst (inserts vs)) (snd (inserts vs)) vs.
Proof.
  induction vs as [|[h b] r IH]; [exact init_full_inv|]. cbn [inserts].
  destruct (inserts r) as [G heads]. cbn [fst snd] in IH. now apply insert_preserves_all.
Qed.

(* ---------------------------------------------------------------------------------------- *)
(* [reach_all]: the states reachable by ANY imports; a voter's first vote of a phase is an Insert
   with no premise on the path it takes *)
Inductive reach_all : entries -> list block -> list bit -> (nat -> list vote) -> list (block * bit) -> Prop :=
| ra_init : reach_all (r_G rinit) (r_heads rinit) [] (fun _ => []) []
| ra_first G heads eqv S ins ph x G' heads' :
    reach_all G heads eqv S ins -> (ph < 2)%nat -> voted (S ph) (vvoter x) = false ->
    insert t lbl G heads (vblock x) (2 * vvoter x + ph) = (G', heads') ->
    reach_all G' heads' eqv (upd S ph x) ((vblock x, 2 * vvoter x + ph)%nat :: ins)
| ra_equivocation G heads eqv S ins ph x a :
    reach_all G heads eqv S ins -> (ph < 2)%nat ->
    first_vote (S ph) (vvoter x) = Some a -> same_vote a x = false ->
    reach_all G heads ((2 * vvoter x + ph)%nat :: eqv) (upd S ph x) ins
| ra_ignored G heads eqv S ins ph x :
    reach_all G heads eqv S ins -> (ph < 2)%nat ->
    (equivocates (S ph) (vvoter x) = true \/
     (equivocates (S ph) (vvoter x) = false /\
      exists a, first_vote (S ph) (vvoter x) = Some a /\ same_vote a x = true)) ->
    reach_all G heads eqv (upd S ph x) ins.

Lemma reach_all_full G heads eqv S ins : reach_all G heads eqv S ins ->
  reach_full t lbl G heads eqv S ins /\ heads_cover G heads.
Proof.
  induction 1 as [|G heads eqv S ins ph x G' heads' R IH L NV INS
                   |G heads eqv S ins ph x a R IH L FA NS
                   |G heads eqv S ins ph x R IH L H].
  - split; [apply rf_init|exact init_cover].
  - destruct IH as [RF HC].
    destruct (reach_full_invariants t lbl G heads eqv S ins RF) as [CI [CO [BASE [IN [TR W]]]]].
    split.
    + destruct (eget (vblock x) G) as [e0|] eqn:EH.
      * eapply rf_first_existing; eauto.
      * destruct (find_containing t lbl G heads (vblock x)) as [ds|] eqn:FC.
        2:{ unfold find_containing in FC. rewrite EH in FC. discriminate. }
        destruct ds as [|d1 r].
        -- eapply rf_first_append; eauto. exact (complete_empty G _ CI W BASE EH heads HC FC).
        -- eapply rf_first_branch; eauto; [discriminate|].
           exact (complete_branch G _ CI W BASE EH heads _ HC FC).
    + pose proof (insert_cover G heads (vblock x) (2 * vvoter x + ph) W BASE HC) as HC'.
      rewrite INS in HC'. exact HC'.
  - destruct IH as [RF HC]. split; [eapply rf_equivocation; eauto|exact HC].
  - destruct IH as [RF HC]. split; [eapply rf_ignored; eauto|exact HC].
Qed.

Theorem reach_all_invariants G heads eqv S ins : reach_all G heads eqv S ins ->
  full_inv G heads ins /\ (forall ph, (ph < 2)%nat -> tracker_ok t ph (S ph) eqv ins).
Proof.
  intro R. destruct (reach_all_full G heads eqv S ins R) as [RF HC].
  destruct (reach_full_invariants t lbl G heads eqv S ins RF) as [CI [CO [BASE [IN [TR W]]]]].
  split; [|exact TR]. repeat (split; [assumption|]). exact HC.
Qed.

Theorem reach_all_node_weights ws G heads eqv S ins : reach_all G heads eqv S ins ->
  forall y e ph, (ph < 2)%nat -> eget y G = Some e ->
  bits_weight ws (g_cum e) eqv ph = weight t ws (S ph) y.
Proof.
  intros R. destruct (reach_all_full G heads eqv S ins R) as [RF _].
  exact (reach_full_node_weights t lbl ws G heads eqv S ins RF).
Qed.

End Cover.

(* non-vacuity: chain 0 - 1 - 2 and a fork 0 - 3; votes for 2 (append), 1 (introduceBranch, inside
   the edge of 2), 3 (append next to it) and 2 again (existing node): no premise about the path *)
Example reach_all_example :
  let t := [0; 1; 0]%nat in
  exists G heads eqv S ins, reach_all t (fun b => b) G heads eqv S ins /\
    ins = [(2, 6); (3, 4); (1, 2); (2, 0)]%nat /\ map fst G = [0; 2; 1; 3]%nat /\ heads = [2; 3]%nat.
Proof.
  intro t.
  pose (x0 := mkVote 0 2 0). pose (x1 := mkVote 1 1 0). pose (x2 := mkVote 2 3 0). pose (x3 := mkVote 3 2 0).
  destruct (insert t (fun b => b) (r_G rinit) (r_heads rinit) 2 0) as [G1 h1] eqn:I1.
  destruct (insert t (fun b => b) G1 h1 1 2) as [G2 h2] eqn:I2.
  destruct (insert t (fun b => b) G2 h2 3 4) as [G3 h3] eqn:I3.
  destruct (insert t (fun b => b) G3 h3 2 6) as [G4 h4] eqn:I4.
  pose proof (ra_init t (fun b => b)) as R0.
  pose proof (ra_first t (fun b => b) _ _ _ _ _ 0 x0 G1 h1 R0 ltac:(lia) eq_refl I1) as R1.
  pose proof (ra_first t (fun b => b) _ _ _ _ _ 0 x1 G2 h2 R1 ltac:(lia) eq_refl I2) as R2.
  pose proof (ra_first t (fun b => b) _ _ _ _ _ 0 x2 G3 h3 R2 ltac:(lia) eq_refl I3) as R3.
  pose proof (ra_first t (fun b => b) _ _ _ _ _ 0 x3 G4 h4 R3 ltac:(lia) eq_refl I4) as R4.
  vm_compute in I1. injection I1 as <- <-. vm_compute in I2. injection I2 as <- <-.
  vm_compute in I3. injection I3 as <- <-. vm_compute in I4. injection I4 as <- <-.
  eexists _, _, _, _, _. split; [exact R4|]. repeat split; reflexivity.
Qed.

(* ---------------------------------------------------------------------------------------- *)
(* The exact shape of the heads and of the descendant lists (what FindGHOST reads):
     heads_exact G heads : every head is a vote-node with no vote-node strictly below it
                           (with heads_cover: the heads are exactly the lowest vote-nodes);
     desc_ok G           : g_desc of a vote-node x holds exactly the vote-nodes whose ancestor edge
                           ends in x.
   Both hold initially and are preserved by EVERY Insert (given full_inv). *)
Lemma propagate_g_desc : forall fuel G x b y,
  option_map g_desc (eget y (propagate fuel G x b)) = option_map g_desc (eget y G).
Proof.
  induction fuel as [|f IH]; intros G x b y; [reflexivity|]. cbn [propagate].
  destruct (eget x G) as [e|] eqn:E; [|reflexivity].
  assert (S1 : option_map g_desc (eget y (eset x (mkE (g_anc e) (g_desc e) (b :: g_cum e)) G)) =
               option_map g_desc (eget y G)).
  { rewrite eget_eset. destruct (Nat.eqb_spec y x) as [->|]; [now rewrite E|reflexivity]. }
  destruct (ancestor_node e); [now rewrite IH|exact S1].
Qed.

Section Shape.
Variable t : tree.
Variable lbl : block -> nat.

Definition par (G : entries) (d x : block) : Prop :=
  exists ed, eget d G = Some ed /\ ancestor_node ed = Some x.
Definition desc_ok (G : entries) : Prop :=
  forall x e, eget x G = Some e -> forall d, In d (g_desc e) <-> par G d x.
Definition heads_exact (G : entries) (heads : list block) : Prop :=
  forall hd, In hd heads -> (exists e, eget hd G = Some e) /\
    (forall y ey, eget y G = Some ey -> anc t hd y -> y = hd).

Lemma par_same G G' : (forall y, option_map g_anc (eget y G') = option_map g_anc (eget y G)) ->
  forall d x, par G' d x <-> par G d x.
Proof.
  intros H d x. unfold par. specialize (H d). split; intros [ed [E A]]; rewrite E in H.
  - destruct (eget d G) as [e0|] eqn:E0; [|discriminate]. cbn in H. injection H as H.
    exists e0. split; [reflexivity|]. unfold ancestor_node in *. congruence.
  - destruct (eget d G') as [e0|] eqn:E0; [|discriminate]. cbn in H. injection H as H.
    exists e0. split; [reflexivity|]. unfold ancestor_node in *. congruence.
Qed.

Lemma desc_ok_same G G' :
  (forall y, option_map g_anc (eget y G') = option_map g_anc (eget y G)) ->
  (forall y, option_map g_desc (eget y G') = option_map g_desc (eget y G)) ->
  desc_ok G -> desc_ok G'.
Proof.
  intros HA HD DO x e E d. rewrite (par_same G G' HA). specialize (HD x). rewrite E in HD.
  destruct (eget x G) as [e0|] eqn:E0; [|discriminate]. cbn in HD. injection HD as HD. rewrite HD.
  exact (DO x e0 E0 d).
Qed.

Lemma desc_ok_propagate fuel G x b : desc_ok G -> desc_ok (propagate fuel G x b).
Proof. apply desc_ok_same; intro y; [apply propagate_g_anc|apply propagate_g_desc]. Qed.

Lemma par_node G d x : chain_inv t G -> par G d x -> exists ex, eget x G = Some ex.
Proof. intros CI [ed [E A]]. pose proof (CI d ed E) as C. rewrite A in C. tauto. Qed.

(* ---- the append path, opened up ---- *)
Lemma insert_append_shape G heads h b : (exists e0, eget 0%nat G = Some e0) -> eget h G = None ->
  find_containing t lbl G heads h = Some [] ->
  exists i a ea G1 fuel, eget a G = Some ea /\ anc t a h /\ a <> h /\
    nth_error (chain t (parent t h)) i = Some a /\
    (forall y ey, eget y G = Some ey -> anc t y h -> anc t y a) /\
    (forall y, eget y G1 = if (y =? h)%nat then Some (mkE (firstn (S i) (chain t (parent t h))) [] [])
                           else if (y =? a)%nat then Some (mkE (g_anc ea) (g_desc ea ++ [h]) (g_cum ea))
                           else eget y G) /\
    insert t lbl G heads h b = (propagate fuel G1 h b, remove_block a heads ++ [h]).
Proof.
  intros BASE EH FC. unfold insert. rewrite FC.
  assert (HNZ : h <> 0%nat) by (intro X; subst h; destruct BASE; congruence).
  unfold append_node. rewrite (chain_nz t h HNZ). cbn [tl].
  destruct (first_entry_chain t G BASE (parent t h) 0) as [i [a [F [[ea EA] [AQ M]]]]].
  rewrite F, EA. destruct (first_entry_index G _ _ _ _ F) as [_ NTH]. rewrite Nat.sub_0_r in NTH.
  exists i, a, ea. eexists. eexists. split; [exact EA|].
  split; [eapply anc_trans; [exact AQ|apply anc_parent]|]. split; [intro X; subst a; congruence|].
  split; [exact NTH|]. split.
  - intros y ey Y AY. apply (M y ey Y). apply anc_parent_of; [exact AY|]. intro X. subst y. congruence.
  - split; [|reflexivity]. intro y. now rewrite !eget_eset.
Qed.

(* ---- the introduceBranch path, opened up ---- *)
Lemma fold_desc h : forall ds G0 ne0 prev0 ne prev,
  (forall d, In d ds -> exists e, eget d G0 = Some e) ->
  snd (fold_left (bstep t h) ds (G0, Some (ne0, prev0))) = Some (ne, prev) ->
  g_desc ne = g_desc ne0 ++ ds.
Proof.
  induction ds as [|d r IH]; intros G0 ne0 prev0 ne prev H F.
  - cbn in F. injection F as <- _. now rewrite app_nil_r.
  - destruct (H d (or_introl eq_refl)) as [e E]. cbn [fold_left] in F.
    rewrite (bstep_some t h G0 (Some (ne0, prev0)) d e E) in F.
    assert (H' : forall d', In d' r -> exists e0, eget d' (eset d (trunc t h d e) G0) = Some e0).
    { intros d' I. rewrite eget_eset. destruct (Nat.eqb_spec d' d); [eauto|]. apply H. now right. }
    rewrite (IH _ _ _ _ _ H' F). cbn [g_desc]. now rewrite <- app_assoc.
Qed.

Lemma insert_branch_shape G heads h b d1 r : chain_inv t G -> anc_wf t G -> eget h G = None ->
  find_containing t lbl G heads h = Some (d1 :: r) ->
  exists p1 pe1 ne G2 fuel, eget p1 G = Some pe1 /\ anc t p1 h /\ p1 <> h /\ ~ In p1 (d1 :: r) /\
    ancestor_node ne = Some p1 /\ g_desc ne = d1 :: r /\
    (forall d, In d (d1 :: r) -> exists e, eget d G = Some e /\ ancestor_node e = Some p1 /\
       ancestor_node (trunc t h d e) = Some h /\ anc t h d) /\
    (forall y, eget y G2 =
       if (y =? h)%nat then Some ne
       else if (y =? p1)%nat
            then Some (mkE (g_anc pe1) (filter (fun d => negb (memb d (d1 :: r))) (g_desc pe1) ++ [h]) (g_cum pe1))
            else match eget y G with
                 | Some e => Some (if memb y (d1 :: r) then trunc t h y e else e)
                 | None => None end) /\
    insert t lbl G heads h b = (propagate fuel G2 h b, heads).
Proof.
  intros CI W EH FC. set (ds := d1 :: r) in *.
  pose proof (branch_sound_of_wf t lbl G heads h ds W FC) as SND.
  assert (I1 : In d1 ds) by now left.
  assert (ALL : forall d, In d ds -> exists e, eget d G = Some e).
  { intros d I. destruct (SND d I) as [e [E _]]. eauto. }
  destruct (SND d1 I1) as [e1 [E1 [IDA1 [AH1 AP1]]]].
  destruct (ida_true t _ _ _ IDA1) as [LT1 NTH1].
  destruct (last_opt_some (g_anc e1)) as [p1 AN1].
  { intro X. rewrite X in NTH1. destruct (number t d1 - number t h - 1)%nat; discriminate. }
  fold (ancestor_node e1) in AN1. pose proof (AP1 p1 AN1) as AP.
  pose proof (CI d1 e1 E1) as C1. rewrite AN1 in C1. destruct C1 as [[pe1 PE1] [A1 [N1 M1]]].
  assert (NP1 : p1 <> h) by (intro X; subst p1; congruence).
  assert (NIN : ~ In p1 ds).
  { intro I. destruct (SND p1 I) as [_ [_ [_ [A _]]]]. apply NP1. now apply (anc_antisym t). }
  (* all the ds hang off p1 *)
  assert (ALLP : forall d, In d ds -> exists e, eget d G = Some e /\ ancestor_node e = Some p1 /\
                   ancestor_node (trunc t h d e) = Some h /\ anc t h d).
  { intros d I. destruct (SND d I) as [e [E [IDA [AH APd]]]].
    destruct (ida_true t _ _ _ IDA) as [LT NTH].
    destruct (last_opt_some (g_anc e)) as [p AN].
    { intro X. rewrite X in NTH. destruct (number t d - number t h - 1)%nat; discriminate. }
    fold (ancestor_node e) in AN. pose proof (APd p AN) as APH.
    pose proof (CI d e E) as C. rewrite AN in C. destruct C as [[pe PE] [A [N Md]]].
    assert (NPH : p <> h) by (intro X; subst p; congruence).
    assert (P1P : anc t p1 p).
    { apply (Md p1 pe1 PE1); [exact (anc_trans t p1 h d AP AH)|].
      intro X. subst d. apply NP1. now apply (anc_antisym t). }
    assert (PP1 : anc t p p1).
    { apply (M1 p pe PE); [exact (anc_trans t p h d1 APH AH1)|].
      intro X. subst d1. apply NPH. now apply (anc_antisym t). }
    assert (p = p1) by now apply (anc_antisym t). subst p.
    exists e. split; [exact E|]. split; [exact AN|]. split; [|exact AH].
    unfold ancestor_node, trunc. cbn [g_anc].
    replace (number t d - number t h)%nat with (S (number t d - number t h - 1)) by lia.
    exact (last_opt_firstn _ _ _ NTH). }
  unfold insert. rewrite FC. fold ds. cbv iota.
  assert (IB : exists ne G2, ancestor_node ne = Some p1 /\ g_desc ne = ds /\
    (forall y, eget y G2 =
       if (y =? h)%nat then Some ne
       else if (y =? p1)%nat
            then Some (mkE (g_anc pe1) (filter (fun d => negb (memb d ds)) (g_desc pe1) ++ [h]) (g_cum pe1))
            else match eget y G with
                 | Some e => Some (if memb y ds then trunc t h y e else e)
                 | None => None end) /\
    introduce_branch t G ds h = G2).
  { rewrite introduce_branch_eq.
    destruct (fold_left (bstep t h) ds (G, None)) as [G1 m1] eqn:F.
    assert (GE : forall y, eget y G1 =
              match eget y G with Some e => Some (if memb y ds then trunc t h y e else e) | None => None end).
    { intro y. rewrite <- (fold_fst t h ds G None ALL y). now rewrite F. }
    assert (M : exists ne, m1 = Some (ne, Some p1) /\
                g_anc ne = skipn (number t d1 - number t h) (g_anc e1) /\ g_desc ne = ds).
    { unfold ds in F. cbn [fold_left] in F. rewrite (bstep_some t h G None d1 e1 E1) in F.
      assert (ALL' : forall d, In d r -> exists e, eget d (eset d1 (trunc t h d1 e1) G) = Some e).
      { intros d' I. rewrite eget_eset. destruct (Nat.eqb_spec d' d1); [eauto|]. apply ALL. now right. }
      destruct (fold_snd t h r (eset d1 (trunc t h d1 e1) G)
                  (mkE (skipn (number t d1 - number t h) (g_anc e1)) ([] ++ [d1]) ([] ++ g_cum e1))
                  (ancestor_node e1) ALL') as [ne [S1 [GA _]]].
      pose proof (fold_desc h r _ _ _ _ _ ALL' S1) as GD.
      rewrite F in S1. cbn [snd] in S1. exists ne. rewrite AN1 in S1. split; [exact S1|].
      split; [exact GA|]. rewrite GD. reflexivity. }
    destruct M as [ne [-> [GAne GDne]]].
    assert (EP1 : eget p1 G1 = Some pe1).
    { rewrite GE, PE1. destruct (memb p1 ds) eqn:MB; [apply memb_In in MB; contradiction|reflexivity]. }
    cbv beta iota zeta. rewrite EP1. rewrite GDne.
    exists ne. eexists. split; [|split; [exact GDne|split; [|reflexivity]]].
    - unfold ancestor_node. rewrite GAne.
      replace (number t d1 - number t h)%nat with (S (number t d1 - number t h - 1)) by lia.
      apply (last_opt_skipn _ _ h p1 NTH1); [exact AN1|congruence].
    - intro y. rewrite !eget_eset. rewrite GE. reflexivity. }
  destruct IB as [ne [G2 [ANne [GDne [G2get IBE]]]]]. rewrite IBE.
  exists p1, pe1, ne, G2. eexists. split; [exact PE1|]. split; [exact AP|]. split; [exact NP1|].
  split; [exact NIN|]. split; [exact ANne|]. split; [exact GDne|]. split; [exact ALLP|].
  split; [exact G2get|]. unfold ds. reflexivity.
Qed.

(* ---- preservation ---- *)
Theorem insert_preserves_shape G heads h b ins : full_inv t G heads ins ->
  heads_exact G heads -> desc_ok G ->
  heads_exact (fst (insert t lbl G heads h b)) (snd (insert t lbl G heads h b)) /\
  desc_ok (fst (insert t lbl G heads h b)).
Proof.
  intros [CI [CO [W [BASE [IN HC]]]]] HE DO.
  destruct (eget h G) as [e0|] eqn:EH.
  - (* existing node *)
    pose proof (insert_existing_node t lbl G heads h b ins e0 CI CO EH) as P.
    destruct (insert t lbl G heads h b) as [G' heads'] eqn:INS. cbn [fst snd].
    destruct P as [-> [_ [_ [GA GD]]]]. split; [|exact (desc_ok_same G G' GA GD DO)].
    assert (K : forall y, (exists e, eget y G' = Some e) <-> (exists e, eget y G = Some e)).
    { intro y. specialize (GA y). destruct (eget y G'), (eget y G); cbn in GA; try discriminate;
        split; intros [z Z]; eauto; discriminate. }
    intros hd I. destruct (HE hd I) as [N MIN]. split; [now apply K|].
    intros y ey Y A. destruct (proj1 (K y) (ex_intro _ ey Y)) as [ey0 Y0]. exact (MIN y ey0 Y0 A).
  - destruct (find_containing t lbl G heads h) as [ds|] eqn:FC.
    2:{ unfold find_containing in FC. rewrite EH in FC. discriminate. }
    destruct ds as [|d1 r].
    + (* append *)
      pose proof (complete_empty t lbl G h CI W BASE EH heads HC FC) as NB.
      destruct (insert_append_shape G heads h b BASE EH FC)
        as [i [a [ea [G1 [fuel [EA [AH [NAH [NTH [M [G1get INS]]]]]]]]]]].
      rewrite INS. cbn [fst snd].
      set (ne := mkE (firstn (S i) (chain t (parent t h))) [] []) in *.
      set (a' := mkE (g_anc ea) (g_desc ea ++ [h]) (g_cum ea)) in *.
      assert (K : forall y, (exists e, eget y (propagate fuel G1 h b) = Some e) <->
                            y = h \/ (exists e, eget y G = Some e)).
      { intro y. rewrite prop_keys, G1get.
        destruct (Nat.eqb_spec y h) as [->|NH]; [split; eauto|].
        destruct (Nat.eqb_spec y a) as [->|NA].
        - split; [intros _; right; eauto|eauto].
        - split; [intros X; now right|intros [X|X]; [congruence|exact X]]. }
      split.
      * intros hd I. apply in_app_or in I. destruct I as [I|[<-|[]]].
        -- unfold remove_block in I. apply filter_In in I. destruct I as [I NA].
           apply negb_true_iff, Nat.eqb_neq in NA. destruct (HE hd I) as [[ehd EHD] MIN].
           split; [apply K; right; eauto|].
           intros y ey Y A. destruct (proj1 (K y) (ex_intro _ ey Y)) as [->|[ey0 Y0]].
           ++ exfalso. apply NA. symmetry. apply (MIN a ea EA). exact (M hd ehd EHD A).
           ++ exact (MIN y ey0 Y0 A).
        -- split; [apply K; now left|].
           intros y ey Y A. destruct (proj1 (K y) (ex_intro _ ey Y)) as [->|[ey0 Y0]]; [reflexivity|].
           exfalso. exact (NB y ey0 Y0 A).
      * apply desc_ok_propagate.
        assert (ANne : ancestor_node ne = Some a) by (unfold ancestor_node, ne; cbn [g_anc]; exact (last_opt_firstn _ _ _ NTH)).
        assert (PAR1 : forall d x, par G1 d x <-> (d = h /\ x = a) \/ par G d x).
        { intros d x. unfold par. rewrite G1get.
          destruct (Nat.eqb_spec d h) as [->|NH].
          - split.
            + intros [ed [E A]]. injection E as <-. left. split; [reflexivity|congruence].
            + intros [[_ ->]|[ed [E _]]]; [eauto|congruence].
          - destruct (Nat.eqb_spec d a) as [->|NA].
            + split.
              * intros [ed [E A]]. injection E as <-. right. exists ea. split; [exact EA|exact A].
              * intros [[X _]|[ed [E A]]]; [congruence|]. rewrite EA in E. injection E as <-.
                exists a'. split; [reflexivity|exact A].
            + split; [intros X; now right|intros [[X _]|X]; [congruence|exact X]]. }
        intros x e E d. rewrite PAR1. rewrite G1get in E.
        destruct (Nat.eqb_spec x h) as [->|NH].
        -- injection E as <-. cbn [g_desc ne]. split; [intros []|].
           intros [[_ X]|X]; [congruence|]. destruct (par_node G d h CI X) as [z Z]. congruence.
        -- destruct (Nat.eqb_spec x a) as [->|NA].
           ++ injection E as <-. cbn [g_desc a']. rewrite in_app_iff, (DO a ea EA d). cbn [In].
              split; [intros [X|[<-|[]]]; [now right|left; auto]|intros [[-> _]|X]; [right; now left|now left]].
           ++ rewrite (DO x e E d). split; [intro X; now right|intros [[_ X]|X]; [congruence|exact X]].
    + (* introduceBranch *)
      destruct (insert_branch_shape G heads h b d1 r CI W EH FC)
        as [p1 [pe1 [ne [G2 [fuel [PE1 [AP [NP1 [NIN [ANne [GDne [ALLP [G2get INS]]]]]]]]]]]]].
      rewrite INS. cbn [fst snd].
      assert (NODE : forall d, In d (d1 :: r) -> exists e, eget d G = Some e).
      { intros d I. destruct (ALLP d I) as [e [E _]]. eauto. }
      assert (K : forall y, (exists e, eget y (propagate fuel G2 h b) = Some e) <->
                            y = h \/ (exists e, eget y G = Some e)).
      { intro y. rewrite prop_keys, G2get.
        destruct (Nat.eqb_spec y h) as [->|NH]; [split; eauto|].
        destruct (Nat.eqb_spec y p1) as [->|NP].
        - split; [intros _; right; eauto|eauto].
        - destruct (eget y G) as [ey|].
          + split; [intros _; right; eauto|eauto].
          + split; [intros [z Z]; discriminate|intros [X|[z Z]]; [congruence|discriminate]]. }
      split.
      * intros hd I. destruct (HE hd I) as [[ehd EHD] MIN]. split; [apply K; right; eauto|].
        intros y ey Y A. destruct (proj1 (K y) (ex_intro _ ey Y)) as [->|[ey0 Y0]].
        -- exfalso. destruct (ALLP d1 (or_introl eq_refl)) as [e1 [E1 [_ [_ AH1]]]].
           pose proof (MIN d1 e1 E1 (anc_trans t hd h d1 A AH1)) as X. subst hd.
           assert (h = d1) by now apply (anc_antisym t). congruence.
        -- exact (MIN y ey0 Y0 A).
      * apply desc_ok_propagate.
        assert (PAR2 : forall d x, par G2 d x <->
                  (d = h /\ x = p1) \/ (In d (d1 :: r) /\ x = h) \/ (~ In d (d1 :: r) /\ par G d x)).
        { intros d x. unfold par. rewrite G2get.
          destruct (Nat.eqb_spec d h) as [->|NH].
          - split.
            + intros [ed [E A]]. injection E as <-. left. split; [reflexivity|congruence].
            + intros [[_ ->]|[[I _]|[_ [ed [E _]]]]]; [eauto| |congruence].
              destruct (NODE h I). congruence.
          - destruct (Nat.eqb_spec d p1) as [->|NP].
            + split.
              * intros [ed [E A]]. injection E as <-. right. right. split; [exact NIN|].
                exists pe1. split; [exact PE1|exact A].
              * intros [[X _]|[[I _]|[_ [ed [E A]]]]]; [congruence|contradiction|].
                rewrite PE1 in E. injection E as <-. eexists. split; [reflexivity|exact A].
            + destruct (eget d G) as [e|] eqn:E.
              * destruct (memb d (d1 :: r)) eqn:MB.
                -- apply memb_In in MB. destruct (ALLP d MB) as [e' [E' [_ [TR _]]]].
                   rewrite E in E'. injection E' as <-. split.
                   ++ intros [ed [X A]]. injection X as <-. right. left. split; [exact MB|congruence].
                   ++ intros [[X _]|[[_ ->]|[X _]]]; [congruence| |contradiction].
                      eexists. split; [reflexivity|exact TR].
                -- assert (NI : ~ In d (d1 :: r)) by (intro I; apply memb_In in I; congruence). split.
                   ++ intros [ed [X A]]. injection X as <-. right. right. split; [exact NI|].
                      exists e. split; [reflexivity|exact A].
                   ++ intros [[X _]|[[X _]|[_ [ed [X A]]]]]; [congruence|contradiction|].
                      injection X as <-. exists e. split; [reflexivity|exact A].
              * split; [intros [ed [X _]]; discriminate|].
                intros [[X _]|[[I _]|[_ [ed [X _]]]]]; [congruence| |discriminate].
                destruct (NODE d I). congruence. }
        intros x e E d. rewrite PAR2. rewrite G2get in E.
        destruct (Nat.eqb_spec x h) as [->|NH].
        -- injection E as <-. rewrite GDne. split; [intro I; right; left; auto|].
           intros [[_ X]|[[I _]|[_ X]]]; [congruence|exact I|].
           destruct (par_node G d h CI X) as [z Z]. congruence.
        -- destruct (Nat.eqb_spec x p1) as [->|NP].
           ++ injection E as <-.
              match goal with |- context [g_desc (mkE ?a ?b ?c)] => change (g_desc (mkE a b c)) with b end.
              rewrite in_app_iff, filter_In, (DO p1 pe1 PE1 d).
              rewrite negb_true_iff. split.
              ** intros [[X MB]|[<-|[]]]; [|left; auto]. right. right. split; [|exact X].
                 intro I. assert (MB' : memb d (d1 :: r) = false) by exact MB. apply memb_In in I. congruence.
              ** intros [[-> _]|[[_ X]|[NI X]]]; [right; now left|congruence|]. left. split; [exact X|].
                 change (memb d (d1 :: r) = false).
                 destruct (memb d (d1 :: r)) eqn:MB; [apply memb_In in MB; contradiction|reflexivity].
           ++ destruct (eget x G) as [e0|] eqn:E0; [|discriminate].
              assert (GD : g_desc e = g_desc e0) by (destruct (memb x (d1 :: r)); injection E as <-; reflexivity).
              rewrite GD, (DO x e0 E0 d). split.
              ** intro X. right. right. split; [|exact X]. intro I.
                 destruct (ALLP d I) as [ed [ED [AN _]]]. destruct X as [ed' [ED' AN']].
                 rewrite ED in ED'. injection ED' as <-. congruence.
              ** intros [[_ X]|[[_ X]|[_ X]]]; [congruence|congruence|exact X].
Qed.

Lemma init_shape : heads_exact (r_G rinit) (r_heads rinit) /\ desc_ok (r_G rinit).
Proof.
  split.
  - intros hd [<-|[]]. split; [cbn; eauto|]. intros y ey Y _. cbn in Y. destruct y; [reflexivity|discriminate].
  - intros x e E d. cbn in E. destruct x; [|discriminate]. injection E as <-. cbn [g_desc].
    split; [intros []|]. intros [ed [ED A]]. cbn in ED. destruct d; [|discriminate]. injection ED as <-.
    discriminate.
Qed.

Theorem inserts_shape vs : heads_exact (fst (inserts t lbl vs)) (snd (inserts t lbl vs)) /\
  desc_ok (fst (inserts t lbl vs)).
Proof.
  induction vs as [|[h b] r IH]; [exact init_shape|]. pose proof (inserts_full_inv t lbl r) as FI.
  cbn [inserts]. destruct (inserts t lbl r) as [G heads]. cbn [fst snd] in *. destruct IH as [HE DO].
  exact (insert_preserves_shape G heads h b r FI HE DO).
Qed.

Theorem reach_all_shape G heads eqv S ins : reach_all t lbl G heads eqv S ins ->
  heads_exact G heads /\ desc_ok G.
Proof.
  induction 1 as [|G heads eqv S ins ph x G' heads' R IH L NV INS
                   |G heads eqv S ins ph x a R IH L FA NS
                   |G heads eqv S ins ph x R IH L H]; try exact IH.
  - exact init_shape.
  - destruct IH as [HE DO]. destruct (reach_all_invariants t lbl G heads eqv S ins R) as [FI _].
    pose proof (insert_preserves_shape G heads (vblock x) (2 * vvoter x + ph) ins FI HE DO) as P.
    rewrite INS in P. exact P.
Qed.

End Shape.
