(* C20/Properties.v -- property C20: GRANDPA round state follows the protocol definitions.
   Statements only.  The specification [round_state_of] (Grandpa/RoundSpec.v) is the paper's
   definitions over an explicit block tree and two vote sets; the Go Round is compared with it
   after every import by the correspondence check (props/C20).  The theorems below are about the
   specification, for every tree, every weighted voter set and all vote sets (no bound). *)
From Coq Require Import List NArith Permutation.
From Grandpa Require Import Tree Votes RoundSpec RoundProofs.
From C20 Require Import Model Proofs ProofsPossible Graph GraphCheck GraphProofs GraphInv GraphInvAppend GraphTracker GraphReach.
Import ListNotations.
Local Open Scope N_scope.

(* The round state is a function of the two vote SETS: any import order, any repetition. *)
Theorem C20_order_free : forall t ws V V' C C',
  Permutation V V' -> Permutation C C' ->
  round_state_of t ws V C = round_state_of t ws V' C'.
Proof. exact round_state_perm. Qed.
Print Assumptions C20_order_free.

Theorem C20_duplicates_free : forall t ws V V' C C',
  (forall x, In x V <-> In x V') -> (forall x, In x C <-> In x C') ->
  round_state_of t ws V C = round_state_of t ws V' C'.
Proof. exact round_state_same. Qed.
Print Assumptions C20_duplicates_free.

(* Paper Lemma 2.3 (weighted, equivocators counted on every block): in a tolerant vote set the
   blocks with a supermajority lie on one chain. *)
Theorem C20_supermajorities_one_chain : forall t ws S a b,
  0 < total ws -> tolerant ws S = true ->
  has_supermajority t ws S a = true -> has_supermajority t ws S b = true -> same_chain t a b.
Proof. exact supermajorities_one_chain. Qed.
Print Assumptions C20_supermajorities_one_chain.

(* g(S) is THE block of highest number with a supermajority: it has one, every block with a
   supermajority is one of its ancestors (so has a smaller number), and it is the only such block *)
Theorem C20_ghost_unique : forall t ws S g,
  0 < total ws -> tolerant ws S = true -> ghost t ws S = Some g ->
  in_tree t g /\ has_supermajority t ws S g = true /\
  (forall b, in_tree t b -> has_supermajority t ws S b = true -> anc t b g /\ (depth t b <= depth t g)%nat) /\
  (forall g', in_tree t g' -> has_supermajority t ws S g' = true ->
     (forall b, in_tree t b -> has_supermajority t ws S b = true -> anc t b g') -> g' = g).
Proof.
  intros t ws S g TP TOL G. destruct (ghost_spec t ws S g TP TOL G) as [I [Sg M]].
  split; [exact I|]. split; [exact Sg|]. split.
  - intros b IB SB. split; [now apply M|]. apply anc_depth_le. now apply M.
  - intros g' I' S' M'. symmetry. exact (ghost_unique t ws S g' g TP TOL I' S' M' G).
Qed.
Print Assumptions C20_ghost_unique.

Theorem C20_ghost_defined : forall t ws S,
  (exists g, ghost t ws S = Some g) <-> threshold ws <= cur_weight ws S.
Proof. exact ghost_defined. Qed.
Print Assumptions C20_ghost_defined.

(* finalized <= estimate <= prevote ghost on one chain; the finalized block has a supermajority of
   prevotes and of precommits and is the highest such block below the ghost; the estimate is the
   highest block below the ghost that can still get a supermajority of precommits *)
Theorem C20_finalized_estimate_ghost : forall t ws V C f e g,
  finalized t ws V C = Some f -> estimate t ws V C = Some e -> ghost t ws V = Some g ->
  anc t f e /\ anc t e g.
Proof. exact finalized_estimate_ghost. Qed.
Print Assumptions C20_finalized_estimate_ghost.

Theorem C20_finalized_spec : forall t ws V C f, finalized t ws V C = Some f ->
  exists g, ghost t ws V = Some g /\ anc t f g /\ has_supermajority t ws C f = true /\
  has_supermajority t ws V f = true /\
  forall b, anc t b g -> has_supermajority t ws C b = true -> anc t b f.
Proof. exact finalized_spec. Qed.
Print Assumptions C20_finalized_spec.

Theorem C20_estimate_spec : forall t ws V C e, estimate t ws V C = Some e ->
  exists g, ghost t ws V = Some g /\ anc t e g /\
  (threshold ws <= cur_weight ws C ->
     possible t ws C e = true /\ forall b, anc t b g -> possible t ws C b = true -> anc t b e) /\
  (cur_weight ws C < threshold ws -> e = g).
Proof. exact estimate_spec. Qed.
Print Assumptions C20_estimate_spec.

Theorem C20_completable_spec : forall t ws V C, completable t ws V C = true <->
  threshold ws <= cur_weight ws C /\
  exists g e, ghost t ws V = Some g /\ estimate t ws V C = Some e /\
    (e <> g \/ forall c, In c (children t g) -> possible t ws C c = false).
Proof. exact completable_spec. Qed.
Print Assumptions C20_completable_spec.

(* "possible to have a supermajority" in the paper's counting form: the voters that vote for a
   block not >= b or equivocate weigh at most 2 * tolerance (n = 3f+1: at most 2f of them) *)
Theorem C20_possible_paper : forall t ws C b, tolerant ws C = true ->
  (possible t ws C b = true <-> against_weight t ws C b <= 2 * tolerance ws).
Proof. exact possible_tolerant_iff. Qed.
Print Assumptions C20_possible_paper.

(* with n = 3f+1 the gate "below the precommit threshold the estimate is the ghost" is the
   paper's definition: everything is still possible *)
Theorem C20_below_threshold_all_possible : forall t ws C b,
  total ws = 3 * tolerance ws + 1 -> tolerant ws C = true -> cur_weight ws C < threshold ws ->
  possible t ws C b = true.
Proof. exact below_threshold_all_possible. Qed.
Print Assumptions C20_below_threshold_all_possible.

(* monotonicity under added votes *)
Theorem C20_ghost_monotone : forall t ws S S' g, 0 < total ws ->
  (forall x, In x S -> In x S') -> tolerant ws S' = true -> ghost t ws S = Some g ->
  exists g', ghost t ws S' = Some g' /\ anc t g g'.
Proof. intros t ws S S' g TP. exact (ghost_mono t ws S S' g TP). Qed.
Print Assumptions C20_ghost_monotone.

Theorem C20_finalized_monotone : forall t ws V V' C C' f, 0 < total ws ->
  (forall x, In x V -> In x V') -> (forall x, In x C -> In x C') -> tolerant ws V' = true ->
  finalized t ws V C = Some f -> exists f', finalized t ws V' C' = Some f' /\ anc t f f'.
Proof. intros t ws V V' C C' f TP. exact (finalized_mono t ws V V' C C' f TP). Qed.
Print Assumptions C20_finalized_monotone.

Theorem C20_estimate_antimonotone : forall t ws V C C' e e',
  (forall x, In x C -> In x C') -> tolerant ws C' = true -> threshold ws <= cur_weight ws C ->
  estimate t ws V C = Some e -> estimate t ws V C' = Some e' -> anc t e' e.
Proof. exact estimate_antimono. Qed.
Print Assumptions C20_estimate_antimonotone.

(* ---- "possible to have a supermajority" against the paper's existential definition:
   whenever SOME tolerant extension of C (further votes, further equivocations within the
   tolerance) has a supermajority for b, the accounting says "possible" -- for all weights.
   (The converse holds for unit weights, C20_possible_iff_extension_unit below; with weights the
   accounting of Round.update, like the Rust original, lets fractions of a voter's weight
   equivocate; see C20_possible_paper for the exact counting form.) *)
Theorem C20_possible_of_extension : forall t ws C C' b,
  (forall x, In x C -> In x C') -> tolerant ws C' = true -> has_supermajority t ws C' b = true ->
  possible t ws C b = true.
Proof. exact possible_of_extension. Qed.
Print Assumptions C20_possible_of_extension.

(* With UNIT weights (every voter weighs 1: the Polkadot/Kusama case and lib/grandpa) the
   accounting IS the paper's definition: for a tolerant C it is possible for C to have a
   supermajority for b iff some tolerant extension of C has a supermajority for b. *)
Theorem C20_possible_iff_extension_unit : forall t n C b,
  tolerant (repeat 1 n) C = true ->
  (possible t (repeat 1 n) C b = true <->
   exists C', (forall x, In x C -> In x C') /\ tolerant (repeat 1 n) C' = true /\
              has_supermajority t (repeat 1 n) C' b = true).
Proof.
  intros t n C b TOL. split.
  - exact (possible_extension_unit t n C b TOL).
  - intros [C' [I [T S]]]. exact (possible_of_extension t (repeat 1 n) C C' b I T S).
Qed.
Print Assumptions C20_possible_iff_extension_unit.

(* non-vacuity (4 unit voters, fork 0-1, 0-2): after precommits 0:1, 1:1 block 2 is still possible
   (voters 2, 3 vote for it and one of 0, 1 equivocates), after a third precommit for block 1 it
   is not *)
Example C20_possible_unit_example :
  let C := [mkVote 0 1 0; mkVote 1 1 0]%nat in
  tolerant (repeat 1 4) C = true /\ possible [0;0]%nat (repeat 1 4) C 2%nat = true /\
  tolerant (repeat 1 4) (mkVote 2%nat 1%nat 0%nat :: C) = true /\
  possible [0;0]%nat (repeat 1 4) (mkVote 2%nat 1%nat 0%nat :: C) 2%nat = false.
Proof. vm_compute. repeat split; reflexivity. Qed.

(* ---- the part of Round.update the correspondence check replays outside the domain
   (C20.Model.round_state_go: possibleToPrecommit with Go's wrapping uint64 subtraction) IS the
   specification whenever the precommits are tolerant and the total weight fits 64 bits: the wrap
   is unobservable inside the domain of the paper definitions *)
Theorem C20_update_model_is_spec : forall t ws V C,
  total ws < 0x10000000000000000 -> tolerant ws C = true ->
  round_state_go t ws V C = round_state_of t ws V C.
Proof. intros t ws V C FIT TOL. exact (round_state_go_spec t ws FIT V C TOL). Qed.
Print Assumptions C20_update_model_is_spec.

(* outside the domain it is not: 3 unit voters (threshold 3, tolerance 0), voters 0 and 1 precommit
   both block 1 and its sibling 2, voter 2 precommits block 2: the unsigned subtraction
   tolerated - current equivocations wraps and block 1 stays "possible"; the truncated subtraction
   of the specification (which is what the Rust original computes) says it is impossible *)
Example C20_wrap_differs_outside_domain :
  let C := [mkVote 0 2 0; mkVote 0 1 0; mkVote 1 2 0; mkVote 1 1 0; mkVote 2 2 0]%nat in
  tolerant [1;1;1] C = false /\
  possible_go [0;0]%nat [1;1;1] C 1%nat = true /\ possible [0;0]%nat [1;1;1] C 1%nat = false.
Proof. vm_compute. repeat split; reflexivity. Qed.

(* ---- the gate "estimate = ghost, not completable until the precommits seen reach the threshold"
   is part of the specification (as of the reference implementation).  It is the paper's definition
   when total = 3f+1 (C20_below_threshold_all_possible); for other totals it is a convention: with 3
   unit voters (threshold 3, tolerance 0), prevotes for block 1 and two precommits for its sibling
   2, block 1 can no longer get a supermajority, but the estimate stays the ghost 1 until the third
   precommit is seen *)
Example C20_gate_is_a_convention_when_not_3f1 :
  let V := [mkVote 0 1 0; mkVote 1 1 0; mkVote 2 1 0]%nat in
  let C := [mkVote 0 2 0; mkVote 1 2 0]%nat in
  total [1;1;1] <> 3 * tolerance [1;1;1] + 1 /\
  estimate [0;0]%nat [1;1;1] V C = Some 1%nat /\ possible [0;0]%nat [1;1;1] C 1%nat = false /\
  estimate [0;0]%nat [1;1;1] V (mkVote 2%nat 2%nat 0%nat :: C) = Some 0%nat.
Proof. vm_compute. repeat split; try reflexivity. discriminate. Qed.

(* ---- Tier A mirror of Round / VoteGraph (C20/Graph.v: entries with ancestor edges, append,
   introduceBranch, findContainingNodes, Insert with cumulative-vote propagation, FindGHOST with
   ghostFindMergePoint, FindAncestor, the bitfield weights of context.go, importPrevote /
   importPrecommit / update / PrecommitGHOST with their memoised fields).  The driver replays it
   on every prefix of every history and compares the five observables and the final vote graph
   (entries, edges, descendants, cumulative votes) with the Go code.
   Proved by complete enumeration inside Coq for the scopes named in the statement (all trees with
   k blocks, all histories of len imports of 3 voters over both phases, both hash orders): after
   EVERY import every vote-node carries exactly the specification's weight in both phases, the
   edges/descendants are the canonical ones, and the memoised state is round_state_of on the
   tolerant domain (all_ok = node_weights_ok && structure_ok && state_ok, C20/GraphCheck.v).
   The unbounded refinement proof is open; outside these scopes the mirror is tied by sampling. *)
Theorem C20_graph_mirror_small_scope : forall k len ws,
  In (k, len, ws) [(4%nat, 3%nat, [1;1;1]); (3%nat, 3%nat, [2;1;1]); (2%nat, 4%nat, [1;1;1])] ->
  forall tr, In tr (trees k) -> forall h, In h (seqs len (ops_of k (length ws))) ->
  forall lbl, lbl = lbl_id \/ lbl = lbl_rev ->
  forall h1 h2, h = h1 ++ h2 -> h1 <> [] ->
  all_ok tr ws (fold_left (fun st o => step_op tr lbl ws (fst o) (snd o) st) h1 rinit) = true.
Proof. exact mirror_refines_spec_small_scope. Qed.
Print Assumptions C20_graph_mirror_small_scope.

(* ---- UNBOUNDED statements about the mirror's Insert (every tree, every graph, any number of
   votes), for the two paths that do not split an edge.  Invariants (C20/GraphInv.v):
     chain_inv t G : the ancestor edge of every vote-node ends in the nearest vote-node above it;
     cum_ok t G I  : the cumulative vote of every vote-node y holds exactly the bits of the inserted
                     votes I whose block is y or a descendant of y.
   They hold of the initial graph (C20_graph_init_inv).  The third path (introduceBranch) and the
   fact that findContainingNodes answers the empty list only when no vote-node lies below the
   block are covered by C20_graph_mirror_small_scope only. *)
Theorem C20_graph_init_inv : forall t,
  chain_inv t (r_G rinit) /\ cum_ok t (r_G rinit) [] /\ (exists e0, eget 0%nat (r_G rinit) = Some e0).
Proof. exact init_graph_inv. Qed.
Print Assumptions C20_graph_init_inv.

(* Insert of a vote whose block already has a vote-node: only the cumulative votes change, exactly
   the vote-nodes at or above the block get the bit *)
Theorem C20_graph_insert_existing_node : forall t lbl G heads h b ins e0,
  chain_inv t G -> cum_ok t G ins -> eget h G = Some e0 ->
  let '(G', heads') := insert t lbl G heads h b in
  heads' = heads /\ chain_inv t G' /\ cum_ok t G' ((h, b) :: ins) /\
  (forall y, option_map g_anc (eget y G') = option_map g_anc (eget y G)) /\
  (forall y, option_map g_desc (eget y G') = option_map g_desc (eget y G)).
Proof. exact insert_existing_node. Qed.
Print Assumptions C20_graph_insert_existing_node.

(* Insert through append: the block has no vote-node, lies in no ancestor edge, and no vote-node
   lies below it *)
Theorem C20_graph_insert_append : forall t lbl G heads h b ins,
  chain_inv t G -> cum_ok t G ins ->
  (exists e0, eget 0%nat G = Some e0) ->
  eget h G = None -> find_containing t lbl G heads h = Some [] ->
  (forall y ey, eget y G = Some ey -> ~ anc t h y) ->
  (forall p, In p ins -> exists e, eget (fst p) G = Some e) ->
  let '(G', heads') := insert t lbl G heads h b in
  chain_inv t G' /\ cum_ok t G' ((h, b) :: ins) /\
  (exists e, eget h G' = Some e) /\
  (forall p, In p ((h, b) :: ins) -> exists e, eget (fst p) G' = Some e) /\
  (forall y ey, eget y G = Some ey -> exists e2, eget y G' = Some e2).
Proof. exact insert_append. Qed.
Print Assumptions C20_graph_insert_append.

(* under cum_ok the weight context.Weight gives a vote-node is the weight of the voters with an
   inserted vote of the phase at or below the node, or an equivocation bit *)
Theorem C20_graph_node_weight : forall t ws G ins y e eqv ph,
  cum_ok t G ins -> eget y G = Some e ->
  bits_weight ws (g_cum e) eqv ph =
  wsum ws (fun v => orb (existsb (fun p => andb (Nat.eqb (snd p) (2 * v + ph)%nat) (ancb t y (fst p))) ins)
                        (memb (2 * v + ph)%nat eqv)).
Proof. exact cum_ok_weight. Qed.
Print Assumptions C20_graph_node_weight.

(* ---- the vote-tracker link (C20/GraphTracker.v, GraphReach.v; UNBOUNDED) --------------------
   tracker_ok t ph S eqv ins: the equivocation bits of the phase are the voters that equivocate in
   the imports S, and the inserted bits of the phase are the voters' FIRST votes (what
   voteTracker.addVote + importPrevote/importPrecommit do).  With cum_ok it makes the weight
   context.Weight computes on ANY vote-node the specification's Votes.weight of its block -- for
   every tree, every weighted voter set and every vote set. *)
Theorem C20_graph_node_weight_is_spec_weight : forall t ws G ins ph S eqv y e,
  cum_ok t G ins -> tracker_ok t ph S eqv ins -> eget y G = Some e ->
  bits_weight ws (g_cum e) eqv ph = weight t ws S y.
Proof. exact node_weight_is_spec_weight. Qed.
Print Assumptions C20_graph_node_weight_is_spec_weight.

(* [reach] (C20/GraphReach.v): the states of the mirror reachable from the initial round by any
   number of imports of both phases -- first votes whose Insert takes the existing-node or the
   append path, equivocations, duplicates and ignored votes (everything but introduceBranch).
   In ALL of them both invariants and the tracker relation hold, hence every vote-node carries the
   specification's weight in both phases. *)
Theorem C20_graph_reachable_node_weights : forall t lbl ws G heads eqv S ins,
  reach t lbl G heads eqv S ins ->
  forall y e ph, (ph < 2)%nat -> eget y G = Some e ->
  bits_weight ws (g_cum e) eqv ph = weight t ws (S ph) y.
Proof. exact reach_node_weights. Qed.
Print Assumptions C20_graph_reachable_node_weights.

Theorem C20_graph_reachable_invariants : forall t lbl G heads eqv S ins,
  reach t lbl G heads eqv S ins ->
  chain_inv t G /\ cum_ok t G ins /\ (exists e0, eget 0%nat G = Some e0) /\
  (forall p, In p ins -> exists e, eget (fst p) G = Some e) /\
  (forall ph, (ph < 2)%nat -> tracker_ok t ph (S ph) eqv ins).
Proof. exact reach_good. Qed.
Print Assumptions C20_graph_reachable_invariants.

(* non-vacuity: an append, an existing-node insert and an equivocation *)
Example C20_graph_reach_example :
  let t := [0; 1]%nat in
  exists G heads eqv S ins, reach t (fun b => b) G heads eqv S ins /\
    S 0%nat = [mkVote 0 2 0; mkVote 1 2 0; mkVote 1 1 0]%nat /\ eqv = [2%nat] /\
    map fst G = [0; 2]%nat.
Proof. exact reach_example. Qed.

(* ---- Insert through introduceBranch (C20/GraphInvBranch.v; UNBOUNDED) -----------------------
   The voted block h has no vote-node and findContainingNodes returned the non-empty list ds: a new
   vote-node is spliced in at h, the ancestor edges of the ds are cut at h, the new node's
   cumulative vote is the union of theirs plus the new vote.  Both invariants are preserved, for
   every tree and graph, under
     branch_sound    : every d in ds is a vote-node that passes the inDirectAncestry test for h, h is
                       above d and the vote-node ending d's edge is above h;
     branch_complete : every vote-node below h is in ds or has its nearest vote-node at or below h. *)
From C20 Require Import GraphInvBranch.

Theorem C20_graph_insert_branch : forall t lbl G heads h b ins ds,
  chain_inv t G -> cum_ok t G ins ->
  eget h G = None -> find_containing t lbl G heads h = Some ds -> ds <> nil ->
  branch_sound t G ds h -> branch_complete t G ds h ->
  (forall p, In p ins -> exists e, eget (fst p) G = Some e) ->
  let '(G', heads') := insert t lbl G heads h b in
  heads' = heads /\ chain_inv t G' /\ cum_ok t G' ((h, b) :: ins) /\
  (exists e, eget h G' = Some e) /\
  (forall p, In p ((h, b) :: ins) -> exists e, eget (fst p) G' = Some e) /\
  (forall y ey, eget y G = Some ey -> exists e2, eget y G' = Some e2).
Proof. exact insert_branch. Qed.
Print Assumptions C20_graph_insert_branch.

(* branch_sound is not an assumption about the mirror: in a graph whose ancestor lists are
   prefixes of the real ancestor chains (anc_wf) it holds for whatever findContainingNodes
   returns, and EVERY Insert (whatever path it takes) preserves anc_wf. *)
Theorem C20_graph_branch_sound : forall t lbl G heads h ds,
  anc_wf t G -> find_containing t lbl G heads h = Some ds -> branch_sound t G ds h.
Proof. exact branch_sound_of_wf. Qed.
Print Assumptions C20_graph_branch_sound.

Theorem C20_graph_insert_anc_wf : forall t lbl G heads h b,
  anc_wf t G -> anc_wf t (fst (insert t lbl G heads h b)).
Proof. exact insert_anc_wf. Qed.
Print Assumptions C20_graph_insert_anc_wf.

(* [reach_full] = [reach] + the introduceBranch step, whose only semantic premise is
   branch_complete (the completeness of the walk of findContainingNodes from the heads).  In all
   those states the invariants, the tracker relation and anc_wf hold, hence every vote-node carries
   the specification's weight in both phases. *)
Theorem C20_graph_reach_full_invariants : forall t lbl G heads eqv S ins,
  reach_full t lbl G heads eqv S ins ->
  chain_inv t G /\ cum_ok t G ins /\ (exists e0, eget 0%nat G = Some e0) /\
  (forall p, In p ins -> exists e, eget (fst p) G = Some e) /\
  (forall ph, (ph < 2)%nat -> tracker_ok t ph (S ph) eqv ins) /\
  anc_wf t G.
Proof. exact reach_full_invariants. Qed.
Print Assumptions C20_graph_reach_full_invariants.

Theorem C20_graph_reach_full_node_weights : forall t lbl ws G heads eqv S ins,
  reach_full t lbl G heads eqv S ins ->
  forall y e ph, (ph < 2)%nat -> eget y G = Some e ->
  bits_weight ws (g_cum e) eqv ph = weight t ws (S ph) y.
Proof. exact reach_full_node_weights. Qed.
Print Assumptions C20_graph_reach_full_node_weights.

Theorem C20_graph_reach_in_reach_full : forall t lbl G heads eqv S ins,
  reach t lbl G heads eqv S ins -> reach_full t lbl G heads eqv S ins.
Proof. exact reach_sub. Qed.
Print Assumptions C20_graph_reach_in_reach_full.

(* non-vacuity: an append, then a vote for a block inside the new edge (introduceBranch) *)
Example C20_graph_reach_full_example :
  let t := [0; 1]%nat in
  exists G heads eqv S ins, reach_full t (fun b => b) G heads eqv S ins /\
    S 0%nat = [mkVote 0 2 0; mkVote 1 1 0]%nat /\ ins = [(1, 2); (2, 0)]%nat /\
    map fst G = [0; 2; 1]%nat /\
    eget 1%nat G = Some (mkE [0%nat] [2%nat] [2; 0]%nat) /\
    eget 2%nat G = Some (mkE [1%nat] [] [0%nat]).
Proof. exact reach_full_example. Qed.

(* for all trees, weights and votes: a bitfield whose bits (merged with the equivocations) are the
   supporters of a block weighs Votes.weight of that block *)
Theorem C20_bitfield_weight_is_weight : forall t ws S b bits eqv ph,
  (forall v, (v < length ws)%nat ->
     orb (memb (2 * v + ph)%nat bits) (memb (2 * v + ph)%nat eqv) = supports t S v b) ->
  bits_weight ws bits eqv ph = weight t ws S b.
Proof. exact bits_weight_is_weight. Qed.
Print Assumptions C20_bitfield_weight_is_weight.

(* non-vacuity: a branch introduced in the middle of an edge and a ghost that is a merge point *)
Example C20_graph_mirror_example :
  let t := [0; 1; 1]%nat in let ws := [1; 1; 1] in
  let h := [(0, mkVote 0 2 0); (0, mkVote 1 3 0); (0, mkVote 2 3 0);
            (1, mkVote 0 2 0); (1, mkVote 1 3 0); (1, mkVote 2 1 0)]%nat in
  let s := fold_left (fun st o => step_op t lbl_id ws (fst o) (snd o) st) h rinit in
  observed s = mkRS (Some 1%nat) (Some 1%nat) (Some 1%nat) true (Some 1%nat) /\
  map fst (r_G s) = [0; 2; 3; 1]%nat /\
  run_ok t lbl_id ws h rinit = true.
Proof. exact mirror_example. Qed.

(* ---- non-vacuity: TestRound_Finalisation of the package, rebased on block C.
   tree: 0=C 1=D 2=E 3=F 4=EA 5=EB 6=EC 7=ED 8=FA 9=FB 10=FC ; Alice 4, Bob 7, Eve 3 *)
Definition ex_tree : tree := [0; 1; 2; 2; 4; 5; 6; 3; 8; 9]%nat.
Definition ex_ws : list N := [4; 7; 3].
Definition ex_V := [mkVote 0 10 0; mkVote 1 7 0; mkVote 2 4 0]%nat.
Definition ex_C1 := [mkVote 0 10 0; mkVote 1 7 0]%nat.
Definition ex_C2 := ex_C1 ++ [mkVote 2 4 0]%nat.

Example C20_nonvacuous :
  threshold ex_ws = 10 /\ tolerant ex_ws ex_V = true /\ tolerant ex_ws ex_C2 = true /\
  round_state_of ex_tree ex_ws ex_V ex_C1 = mkRS (Some 4%nat) (Some 2%nat) (Some 4%nat) false (Some 2%nat) /\
  round_state_of ex_tree ex_ws ex_V ex_C2 = mkRS (Some 4%nat) (Some 4%nat) (Some 4%nat) false (Some 4%nat).
Proof. vm_compute. repeat split; reflexivity. Qed.

(* an equivocator counts for every block: Eve votes twice, Bob once (TestRound_EquivocateDoesNotDoubleCount) *)
Example C20_nonvacuous_equivocation :
  let V := [mkVote 2 10 1; mkVote 2 7 2; mkVote 2 3 2; mkVote 1 8 1]%nat in
  tolerant ex_ws V = true /\ eq_weight ex_ws V = 3 /\ weight ex_tree ex_ws V 8%nat = 10 /\
  ghost ex_tree ex_ws V = Some 8%nat.
Proof. vm_compute. repeat split; reflexivity. Qed.

(* estimate strictly below the ghost, round completable: 4 unit voters prevote block 1, three
   precommit the base *)
Example C20_nonvacuous_completable :
  let V := [mkVote 0 1 0; mkVote 1 1 0; mkVote 2 1 0; mkVote 3 1 0]%nat in
  let C := [mkVote 0 0 0; mkVote 1 0 0; mkVote 2 0 0]%nat in
  round_state_of [0%nat] [1;1;1;1] V C = mkRS (Some 1%nat) (Some 0%nat) (Some 0%nat) true (Some 0%nat).
Proof. vm_compute. reflexivity. Qed.

(* ---- Completeness of findContainingNodes; EVERY Insert preserves the full invariant -------------
   (C20/GraphComplete.v; UNBOUNDED, closer round).  heads_cover G heads: every vote-node has a head
   at or below it that is a vote-node -- the only fact about the heads the walk of
   findContainingNodes needs (the g_desc lists are read by neither findContainingNodes nor Insert).
   With chain_inv, anc_wf and "the base is a vote-node" the walk finds EVERY vote-node whose
   ancestor edge passes through h; hence branch_complete (the hypothesis of
   C20_graph_insert_branch) and "the result [] means no vote-node lies below h" (the hypothesis of
   C20_graph_insert_append) are theorems, and full_inv is preserved by every Insert with no side
   hypothesis. *)
From C20 Require Import GraphComplete.

Theorem C20_graph_find_containing_complete : forall t lbl G h,
  chain_inv t G -> anc_wf t G -> (exists e0, eget 0%nat G = Some e0) -> eget h G = None ->
  forall heads ds, heads_cover t G heads -> find_containing t lbl G heads h = Some ds ->
  forall x, (exists e p, eget x G = Some e /\ ancestor_node e = Some p /\ anc t h x /\ anc t p h) ->
  In x ds.
Proof. exact find_containing_complete. Qed.
Print Assumptions C20_graph_find_containing_complete.

Theorem C20_graph_branch_complete : forall t lbl G h,
  chain_inv t G -> anc_wf t G -> (exists e0, eget 0%nat G = Some e0) -> eget h G = None ->
  forall heads ds, heads_cover t G heads -> find_containing t lbl G heads h = Some ds ->
  branch_complete t G ds h.
Proof. exact complete_branch. Qed.
Print Assumptions C20_graph_branch_complete.

Theorem C20_graph_empty_means_no_node_below : forall t lbl G h,
  chain_inv t G -> anc_wf t G -> (exists e0, eget 0%nat G = Some e0) -> eget h G = None ->
  forall heads, heads_cover t G heads -> find_containing t lbl G heads h = Some nil ->
  forall y ey, eget y G = Some ey -> ~ anc t h y.
Proof. exact complete_empty. Qed.
Print Assumptions C20_graph_empty_means_no_node_below.

Theorem C20_graph_insert_heads_cover : forall t lbl G heads h b,
  anc_wf t G -> (exists e0, eget 0%nat G = Some e0) -> heads_cover t G heads ->
  heads_cover t (fst (insert t lbl G heads h b)) (snd (insert t lbl G heads h b)).
Proof. exact insert_cover. Qed.
Print Assumptions C20_graph_insert_heads_cover.

(* full_inv = chain_inv /\ cum_ok /\ anc_wf /\ base is a vote-node /\ votes sit on vote-nodes /\
   heads_cover: EVERY Insert preserves it -- no hypothesis on the path taken or on what
   findContainingNodes returned *)
Theorem C20_graph_insert_preserves_all : forall t lbl G heads h b ins,
  chain_inv t G /\ cum_ok t G ins /\ anc_wf t G /\ (exists e0, eget 0%nat G = Some e0) /\
  (forall p, In p ins -> exists e, eget (fst p) G = Some e) /\ heads_cover t G heads ->
  let G' := fst (insert t lbl G heads h b) in
  let heads' := snd (insert t lbl G heads h b) in
  let ins' := ((h, b) :: ins)%list in
  chain_inv t G' /\ cum_ok t G' ins' /\ anc_wf t G' /\ (exists e0, eget 0%nat G' = Some e0) /\
  (forall p, In p ins' -> exists e, eget (fst p) G' = Some e) /\ heads_cover t G' heads'.
Proof. exact insert_preserves_all. Qed.
Print Assumptions C20_graph_insert_preserves_all.

Theorem C20_graph_init_full_inv : forall t, full_inv t (r_G rinit) (r_heads rinit) nil.
Proof. exact init_full_inv. Qed.
Print Assumptions C20_graph_init_full_inv.

(* hence after ANY sequence of Inserts from the initial graph (vs: newest first) *)
Theorem C20_graph_inserts_full_inv : forall t lbl vs,
  full_inv t (fst (inserts t lbl vs)) (snd (inserts t lbl vs)) vs.
Proof. exact inserts_full_inv. Qed.
Print Assumptions C20_graph_inserts_full_inv.

(* [reach_all]: reach_full without ANY premise on the first-vote step (just "it is an Insert").
   Every such state is a reach_full state and satisfies full_inv, so every vote-node carries the
   specification's weight in both phases in every state reachable by imports. *)
Theorem C20_graph_reach_all_in_reach_full : forall t lbl G heads eqv S ins,
  reach_all t lbl G heads eqv S ins -> reach_full t lbl G heads eqv S ins /\ heads_cover t G heads.
Proof. exact reach_all_full. Qed.
Print Assumptions C20_graph_reach_all_in_reach_full.

Theorem C20_graph_reach_all_invariants : forall t lbl G heads eqv S ins,
  reach_all t lbl G heads eqv S ins ->
  full_inv t G heads ins /\ (forall ph, (ph < 2)%nat -> tracker_ok t ph (S ph) eqv ins).
Proof. exact reach_all_invariants. Qed.
Print Assumptions C20_graph_reach_all_invariants.

Theorem C20_graph_reach_all_node_weights : forall t lbl ws G heads eqv S ins,
  reach_all t lbl G heads eqv S ins ->
  forall y e ph, (ph < 2)%nat -> eget y G = Some e ->
  bits_weight ws (g_cum e) eqv ph = weight t ws (S ph) y.
Proof. exact reach_all_node_weights. Qed.
Print Assumptions C20_graph_reach_all_node_weights.

(* non-vacuity: append, introduceBranch, append on a fork, existing node -- no path premises *)
Example C20_graph_reach_all_example :
  let t := [0; 1; 0]%nat in
  exists G heads eqv S ins, reach_all t (fun b => b) G heads eqv S ins /\
    ins = [(2, 6); (3, 4); (1, 2); (2, 0)]%nat /\ map fst G = [0; 2; 1; 3]%nat /\ heads = [2; 3]%nat.
Proof. exact reach_all_example. Qed.

(* the exact shape of the heads and of the descendant lists (what FindGHOST reads), also preserved
   by EVERY Insert: every head is a vote-node with no vote-node strictly below it (with
   heads_cover: the heads are exactly the lowest vote-nodes), and g_desc of a vote-node x holds
   exactly the vote-nodes whose ancestor edge ends in x *)
Theorem C20_graph_insert_preserves_shape : forall t lbl G heads h b ins,
  full_inv t G heads ins ->
  (forall hd, In hd heads -> (exists e, eget hd G = Some e) /\
     (forall y ey, eget y G = Some ey -> anc t hd y -> y = hd)) ->
  (forall x e, eget x G = Some e -> forall d,
     In d (g_desc e) <-> exists ed, eget d G = Some ed /\ ancestor_node ed = Some x) ->
  let G' := fst (insert t lbl G heads h b) in
  let heads' := snd (insert t lbl G heads h b) in
  (forall hd, In hd heads' -> (exists e, eget hd G' = Some e) /\
     (forall y ey, eget y G' = Some ey -> anc t hd y -> y = hd)) /\
  (forall x e, eget x G' = Some e -> forall d,
     In d (g_desc e) <-> exists ed, eget d G' = Some ed /\ ancestor_node ed = Some x).
Proof. exact insert_preserves_shape. Qed.
Print Assumptions C20_graph_insert_preserves_shape.

Theorem C20_graph_inserts_shape : forall t lbl vs,
  heads_exact t (fst (inserts t lbl vs)) (snd (inserts t lbl vs)) /\ desc_ok (fst (inserts t lbl vs)).
Proof. exact inserts_shape. Qed.
Print Assumptions C20_graph_inserts_shape.

Theorem C20_graph_reach_all_shape : forall t lbl G heads eqv S ins,
  reach_all t lbl G heads eqv S ins -> heads_exact t G heads /\ desc_ok G.
Proof. exact reach_all_shape. Qed.
Print Assumptions C20_graph_reach_all_shape.

(* ---- UNBOUNDED: the mirror's top-level import function performs exactly the abstract reach_all
   steps (C20/GraphImport.v); this is the general statement behind C20_graph_mirror_small_scope
   for the vote graph (weights + structure invariants; the memoised ghost/estimate fields are
   covered by GraphGhost.v and the small-scope theorem).
   One import (Round.importPrevote / importPrecommit, any vote, any state that is a reach_all
   state whose histories are S 0 / S 1) is one reach_all step -- or no step at all for a voter
   outside the voter set -- and appends the vote to the phase's history iff the voter is known. *)
From C20 Require Import GraphImport.

Theorem C20_graph_import_is_reach_all_step : forall t lbl ws ph x s S ins, (ph < 2)%nat ->
  reach_all t lbl (r_G s) (r_heads s) (r_eqv s) S ins -> S 0%nat = r_pv s -> S 1%nat = r_pc s ->
  let s' := import t lbl ws ph x s in
  exists S' ins',
    reach_all t lbl (r_G s') (r_heads s') (r_eqv s') S' ins' /\ S' 0%nat = r_pv s' /\ S' 1%nat = r_pc s' /\
    (forall p, S' p = if (known_voter ws x && Nat.eqb p ph)%bool then S p ++ [x] else S p).
Proof. exact import_step_flat. Qed.
Print Assumptions C20_graph_import_is_reach_all_step.

(* the vote tracker (Model.stored: what voteTracker holds for a voter) against the specification's
   predicates over the phase's history *)
Theorem C20_graph_tracker_cases : forall v h,
  match stored v h [] with
  | [] => voted h v = false
  | [a] => first_vote h v = Some a /\ equivocates h v = false
  | _ => equivocates h v = true
  end.
Proof. exact stored_cases. Qed.
Print Assumptions C20_graph_tracker_cases.

(* the votes of voters outside the voter set weigh nothing in the specification *)
Theorem C20_weight_ignores_unknown_voters : forall t ws S b,
  weight t ws (filter (known_voter ws) S) b = weight t ws S b.
Proof. exact weight_known. Qed.
Print Assumptions C20_weight_ignores_unknown_voters.

(* THE GENERAL STATEMENT.  For every tree (every list of parents is a tree; blocks outside it are
   children of the base), every hash order, every weighted voter set and EVERY history of
   (phase, vote) operations with phase tags 0/1 -- any order, duplicates, equivocations, voters
   outside the set -- folded through the mirror's step (import, then PrecommitGHOST: exactly the
   fold of C20_graph_mirror_small_scope) from the initial round:
     - the histories kept are the votes of known voters of each phase, in import order;
     - the state is a reach_all state, so full_inv (chain_inv, cum_ok, anc_wf, base, votes on
       vote-nodes, heads_cover), tracker_ok in both phases, heads_exact and desc_ok hold;
     - every vote-node carries the specification's Votes.weight of ALL the votes of the phase
       imported so far, in both phases.
   Every prefix of a history is a history, so this holds after every import. *)
Theorem C20_graph_import_run_weights : forall t lbl ws (h : list (nat * vote)),
  (forall o, In o h -> (fst o < 2)%nat) ->
  let s := fold_left (fun st o => step_op t lbl ws (fst o) (snd o) st) h rinit in
  let votes ph := map snd (filter (fun o => Nat.eqb (fst o) ph) h) in
  r_pv s = filter (known_voter ws) (votes 0%nat) /\ r_pc s = filter (known_voter ws) (votes 1%nat) /\
  (exists S ins,
     reach_all t lbl (r_G s) (r_heads s) (r_eqv s) S ins /\ S 0%nat = r_pv s /\ S 1%nat = r_pc s /\
     full_inv t (r_G s) (r_heads s) ins /\
     (forall ph, (ph < 2)%nat -> tracker_ok t ph (S ph) (r_eqv s) ins)) /\
  heads_exact t (r_G s) (r_heads s) /\ desc_ok (r_G s) /\
  (forall y e, eget y (r_G s) = Some e ->
     bits_weight ws (g_cum e) (r_eqv s) 0 = weight t ws (votes 0%nat) y /\
     bits_weight ws (g_cum e) (r_eqv s) 1 = weight t ws (votes 1%nat) y).
Proof. exact import_run_weights. Qed.
Print Assumptions C20_graph_import_run_weights.

(* non-vacuity: append, introduceBranch (split), append on a fork, duplicate, equivocation, ignored
   vote of an equivocator, voter outside the set, precommits (existing node, equivocation), and a
   vote for a block outside the listed tree *)
Example C20_graph_import_run_example :
  let t := [0; 1; 0]%nat in let ws := [2; 1; 1; 1]%N in
  let h := [(0, mkVote 0 2 0); (0, mkVote 1 1 0); (0, mkVote 2 3 0); (0, mkVote 1 1 0);
            (0, mkVote 1 2 0); (0, mkVote 1 3 0); (0, mkVote 9 2 0); (1, mkVote 0 1 0);
            (1, mkVote 3 2 0); (1, mkVote 3 3 0); (0, mkVote 3 7 0)]%nat in
  let s := run t (fun b => b) ws h in     (* run = the fold of C20_graph_import_run_weights *)
  (forall o, In o h -> (fst o < 2)%nat) /\
  map fst (r_G s) = [0; 2; 1; 3; 7]%nat /\ r_heads s = [2; 3; 7]%nat /\ r_eqv s = [7; 2]%nat /\
  length (r_pv s) = 7%nat /\ length (votes_of 0 h) = 8%nat /\ length (r_pc s) = 3%nat /\
  map (fun p => (fst p, bits_weight ws (g_cum (snd p)) (r_eqv s) 0, bits_weight ws (g_cum (snd p)) (r_eqv s) 1))
      (r_G s) = [(0%nat, 5%N, 3%N); (2%nat, 3%N, 1%N); (1%nat, 3%N, 3%N); (3%nat, 2%N, 1%N); (7%nat, 2%N, 1%N)].
Proof. exact import_run_example. Qed.

(* ---- FindGHOST of the vote-graph mirror against the specification (coq/C20/GraphGhost.v) ---- *)
From C20 Require Import GraphGhost.
Local Close Scope N_scope.
Theorem C20_graph_find_ghost_sound : forall t lbl ws G ins ph S eqv heads current b,
  cum_ok t G ins -> anc_wf t G -> tracker_ok t ph S eqv ins ->
  find_ghost t lbl G heads current (cond_ph ws eqv ph) = Some b ->
  forall a, anc t a b -> has_supermajority t ws S a = true.
Proof.
  intros t lbl ws G ins ph S eqv heads current b CO W TR H a A.
  exact (find_ghost_sound_ancestors t lbl ws G ins ph S eqv CO W TR heads current b a H A).
Qed.
Print Assumptions C20_graph_find_ghost_sound.

Theorem C20_graph_find_ghost_on_spec_ghost_chain : forall t lbl ws G ins ph S eqv heads current b,
  cum_ok t G ins -> anc_wf t G -> tracker_ok t ph S eqv ins ->
  (0 < total ws)%N -> tolerant ws S = true -> (forall x, In x S -> in_tree t (vblock x)) ->
  find_ghost t lbl G heads current (cond_ph ws eqv ph) = Some b ->
  exists g, ghost t ws S = Some g /\ anc t b g.
Proof.
  intros t lbl ws G ins ph S eqv heads current b CO W TR.
  exact (find_ghost_below_spec_ghost t lbl ws G ins ph S eqv CO W TR heads current b).
Qed.
Print Assumptions C20_graph_find_ghost_on_spec_ghost_chain.

Theorem C20_graph_find_ghost_none_iff : forall t lbl ws G ins ph S eqv heads,
  cum_ok t G ins -> tracker_ok t ph S eqv ins -> (exists e0, eget 0%nat G = Some e0) ->
  (find_ghost t lbl G heads None (cond_ph ws eqv ph) = None <-> ghost t ws S = None).
Proof.
  intros t lbl ws G ins ph S eqv heads CO TR.
  exact (find_ghost_none_iff t lbl ws G ins ph S eqv CO TR heads).
Qed.
Print Assumptions C20_graph_find_ghost_none_iff.

Theorem C20_graph_find_ghost_is_spec_ghost : forall t lbl ws G ins ph S eqv heads,
  chain_inv t G -> cum_ok t G ins -> anc_wf t G -> tracker_ok t ph S eqv ins ->
  (exists e0, eget 0%nat G = Some e0) ->
  (forall p, In p ins -> exists e, eget (fst p) G = Some e) ->
  desc_complete G -> desc_sound G ->
  (0 < total ws)%N -> tolerant ws S = true -> (forall x, In x S -> in_tree t (vblock x)) ->
  find_ghost t lbl G heads None (cond_ph ws eqv ph) = ghost t ws S.
Proof. exact find_ghost_is_spec_ghost. Qed.
Print Assumptions C20_graph_find_ghost_is_spec_ghost.

(* Insert keeps "g_desc lists exactly the child vote-nodes" on all three paths *)
Theorem C20_graph_reach_full_desc_exact : forall t lbl G heads eqv S ins,
  reach_full t lbl G heads eqv S ins -> desc_exact G.
Proof. exact reach_full_desc_exact. Qed.
Print Assumptions C20_graph_reach_full_desc_exact.

Theorem C20_graph_reach_full_find_ghost_is_spec_ghost : forall t lbl ws G heads eqv S ins ph,
  reach_full t lbl G heads eqv S ins -> (ph < 2)%nat ->
  (0 < total ws)%N -> tolerant ws (S ph) = true -> (forall x, In x (S ph) -> in_tree t (vblock x)) ->
  find_ghost t lbl G heads None (cond_ph ws eqv ph) = ghost t ws (S ph).
Proof. exact reach_full_find_ghost_is_spec_ghost. Qed.
Print Assumptions C20_graph_reach_full_find_ghost_is_spec_ghost.

Theorem C20_graph_reach_full_find_ghost_from_node : forall t lbl ws G heads eqv S ins ph c ec,
  reach_full t lbl G heads eqv S ins -> (ph < 2)%nat ->
  (0 < total ws)%N -> tolerant ws (S ph) = true -> (forall x, In x (S ph) -> in_tree t (vblock x)) ->
  eget c G = Some ec ->
  find_ghost t lbl G heads (Some c) (cond_ph ws eqv ph) =
  if has_supermajority t ws (S ph) c then ghost t ws (S ph) else None.
Proof. exact reach_full_find_ghost_from_node. Qed.
Print Assumptions C20_graph_reach_full_find_ghost_from_node.

(* the restart from the previous ghost c (any block that still has a supermajority) *)
Theorem C20_graph_reach_full_find_ghost_restart : forall t lbl ws G heads eqv S ins ph c,
  reach_full t lbl G heads eqv S ins -> (ph < 2)%nat ->
  (0 < total ws)%N -> tolerant ws (S ph) = true -> (forall x, In x (S ph) -> in_tree t (vblock x)) ->
  has_supermajority t ws (S ph) c = true ->
  find_ghost t lbl G heads (Some c) (cond_ph ws eqv ph) = ghost t ws (S ph).
Proof. exact reach_full_find_ghost_restart. Qed.
Print Assumptions C20_graph_reach_full_find_ghost_restart.

(* the memoised ghost fed back as [current] (prevoteGhost in importPrevote, precommitGhost in
   PrecommitGHOST) stays the specification's ghost *)
Theorem C20_graph_reach_full_ghost_memo_step : forall t lbl ws G heads eqv S ins ph prev V0,
  reach_full t lbl G heads eqv S ins -> (ph < 2)%nat ->
  (0 < total ws)%N -> tolerant ws (S ph) = true -> (forall x, In x (S ph) -> in_tree t (vblock x)) ->
  subset V0 (S ph) -> prev = ghost t ws V0 ->
  (if (th ws <=? cur_weight ws (S ph))%N then find_ghost t lbl G heads prev (cond_ph ws eqv ph) else prev)
  = ghost t ws (S ph).
Proof. exact reach_full_ghost_memo_step. Qed.
Print Assumptions C20_graph_reach_full_ghost_memo_step.

Theorem C20_graph_precommit_ghost_is_spec_ghost : forall t lbl ws s S ins V0,
  reach_full t lbl (r_G s) (r_heads s) (r_eqv s) S ins -> r_pc s = S 1%nat ->
  (0 < total ws)%N -> tolerant ws (r_pc s) = true -> (forall x, In x (r_pc s) -> in_tree t (vblock x)) ->
  subset V0 (r_pc s) -> r_pcg s = ghost t ws V0 ->
  r_pcg (precommit_ghost t lbl ws s) = ghost t ws (r_pc s).
Proof. exact precommit_ghost_is_spec_ghost. Qed.
Print Assumptions C20_graph_precommit_ghost_is_spec_ghost.

Local Open Scope N_scope.

(* ---- the memoised ghosts along the run (coq/C20/GraphRunGhost.v) ---- *)
From C20 Require Import GraphRunGhost.
(* THE MEMOISED GHOSTS ALONG THE RUN.  For every tree, hash order and weighted voter set with
   0 < total weight, and every history of (phase, vote) operations with phase tags 0/1 whose vote
   sets are tolerant in both phases (the equivocators weigh at most total - threshold) and in which
   the votes of voters of the voter set are for blocks of the tree: after EVERY prefix h1, folded
   through the mirror's step (import, then PrecommitGHOST) from the initial round,
     - the memoised prevote ghost (Round.prevoteGhost) is the specification's ghost g(V) of the
       prevotes imported so far,
     - the memoised precommit ghost (Round.precommitGhost, as PrecommitGHOST computes it: FindGHOST
       over the precommit weights restarted from the previous precommit ghost) is the
       specification's ghost g(C) of the precommits imported so far,
     - each is None exactly while the votes of its phase weigh less than the threshold.
   No hypothesis on the threshold gate of the Go code, on the order, on duplicates, on votes of
   unknown voters. *)
Theorem C20_graph_import_run_ghosts : forall t lbl ws, (0 < total ws)%N ->
  forall (h : list (nat * vote)),
  let votes ph l := map snd (filter (fun o : nat * vote => Nat.eqb (fst o) ph) l) in
  (forall o, In o h -> (fst o < 2)%nat) ->
  tolerant ws (votes 0%nat h) = true -> tolerant ws (votes 1%nat h) = true ->
  (forall o, In o h -> known_voter ws (snd o) = true -> in_tree t (vblock (snd o))) ->
  forall h1 h2, h = h1 ++ h2 ->
  let s := fold_left (fun st o => step_op t lbl ws (fst o) (snd o) st) h1 rinit in
  r_pvg s = ghost t ws (votes 0%nat h1) /\ r_pcg s = ghost t ws (votes 1%nat h1) /\
  (r_pvg s = None <-> cur_weight ws (votes 0%nat h1) < threshold ws) /\
  (r_pcg s = None <-> cur_weight ws (votes 1%nat h1) < threshold ws).
Proof. exact run_ghosts_prefix. Qed.
Print Assumptions C20_graph_import_run_ghosts.

(* the same without prefixes, on the histories the mirror keeps (votes of known voters only) *)
Theorem C20_graph_import_run_ghosts_known : forall t lbl ws, (0 < total ws)%N ->
  forall (h : list (nat * vote)),
  (forall o, In o h -> (fst o < 2)%nat) /\
  tolerant ws (known_votes_of ws 0 h) = true /\ tolerant ws (known_votes_of ws 1 h) = true /\
  (forall o, In o h -> known_voter ws (snd o) = true -> in_tree t (vblock (snd o))) ->
  r_pvg (run t lbl ws h) = ghost t ws (known_votes_of ws 0 h) /\
  r_pcg (run t lbl ws h) = ghost t ws (known_votes_of ws 1 h).
Proof. exact run_ghosts. Qed.
Print Assumptions C20_graph_import_run_ghosts_known.

(* the votes of voters outside the voter set change neither the ghost nor the tolerance *)
Theorem C20_ghost_ignores_unknown_voters : forall t ws S,
  ghost t ws (filter (known_voter ws) S) = ghost t ws S /\
  tolerant ws (filter (known_voter ws) S) = tolerant ws S.
Proof. exact (fun t ws S => conj (ghost_known t ws S) (tolerant_known ws S)). Qed.
Print Assumptions C20_ghost_ignores_unknown_voters.

(* non-vacuity: the prevote ghost appears at the base, moves up to block 1 (a merge point inside
   the ancestor edges of 2 and 3; block 1 never has a vote-node), stays over a duplicate, moves up
   to block 2 on an equivocation (the restart from inside the edge), stays over an ignored vote and
   a vote of an unknown voter; the precommit ghost appears at the merge point 1 and moves up to 2 *)
Example C20_graph_import_run_ghosts_example :
  let t := [0; 1; 1]%nat in let ws := [1; 1; 1; 1]%N in
  let h := [(0, mkVote 0 2 0); (0, mkVote 1 3 0); (0, mkVote 2 0 0); (0, mkVote 3 2 0); (0, mkVote 3 2 0);
            (0, mkVote 2 2 0); (0, mkVote 2 3 0); (0, mkVote 7 3 0);
            (1, mkVote 0 2 0); (1, mkVote 1 2 0); (1, mkVote 3 3 0); (1, mkVote 2 2 0)]%nat in
  (forall o, In o h -> (fst o < 2)%nat) /\ (0 < total ws)%N /\
  tolerant ws (votes_of 0 h) = true /\ tolerant ws (votes_of 1 h) = true /\
  (forall o, In o h -> known_voter ws (snd o) = true -> in_tree t (vblock (snd o))) /\
  map (fun k => let s := run t (fun b => b) ws (firstn k h) in (r_pvg s, r_pcg s)) (seq 0 13) =
    [(None, None); (None, None); (None, None); (Some 0, None); (Some 1, None); (Some 1, None);
     (Some 2, None); (Some 2, None); (Some 2, None); (Some 2, None); (Some 2, None); (Some 2, Some 1);
     (Some 2, Some 2)]%nat /\
  map (fun k => (ghost t ws (votes_of 0 (firstn k h)), ghost t ws (votes_of 1 (firstn k h)))) (seq 0 13) =
    [(None, None); (None, None); (None, None); (Some 0, None); (Some 1, None); (Some 1, None);
     (Some 2, None); (Some 2, None); (Some 2, None); (Some 2, None); (Some 2, None); (Some 2, Some 1);
     (Some 2, Some 2)]%nat /\
  map fst (r_G (run t (fun b => b) ws h)) = [0; 2; 3]%nat.
Proof. exact run_ghosts_example. Qed.

(* ------------------------------------------------------------------------------------------
   FindAncestor (Graph.find_ancestor) on reachable graphs, and ONE Round.update (closer round).
   C20_graph_find_ancestor: on a graph with the invariants of every reachable state, from a start
   block with a vote-node at or below it, for a condition on bit lists that agrees with a block
   predicate P on the exact set of bits inserted at or below a block, FindAncestor is
   Tree.find_anc P: the highest block of the chain of h (on a vote-node or inside an ancestor edge)
   that satisfies P -- sound and maximal. *)
From C20 Require Import GraphRunState.
Theorem C20_graph_find_ancestor : forall t lbl G heads ins, full_inv t G heads ins ->
  forall (cond : list bit -> bool) (P : block -> bool),
  (forall b bits, (forall bt, memb bt bits = ins_bit t ins bt b) -> cond bits = P b) ->
  forall fuel h, (depth t h < fuel)%nat -> (exists z ez, eget z G = Some ez /\ anc t h z) ->
  find_ancestor t lbl fuel G heads h cond = find_anc t P h /\
  (forall x, find_ancestor t lbl fuel G heads h cond = Some x ->
     anc t x h /\ P x = true /\ forall y, anc t y h -> P y = true -> anc t y x) /\
  (find_ancestor t lbl fuel G heads h cond = None -> forall y, anc t y h -> P y = false).
Proof. exact find_ancestor_full_inv. Qed.
Print Assumptions C20_graph_find_ancestor.

(* the two conditions of Round.update against the specification weights, in every reach_all state *)
Theorem C20_graph_find_ancestor_finalized : forall t lbl ws G heads eqv S ins,
  reach_all t lbl G heads eqv S ins ->
  forall fuel h, (depth t h < fuel)%nat -> (exists z ez, eget z G = Some ez /\ anc t h z) ->
  find_ancestor t lbl fuel G heads h (cond_ph ws eqv 1) = find_anc t (has_supermajority t ws (S 1%nat)) h.
Proof. exact reach_all_find_ancestor_supermajority. Qed.
Print Assumptions C20_graph_find_ancestor_finalized.

Theorem C20_graph_find_ancestor_estimate : forall t lbl ws G heads eqv S ins,
  reach_all t lbl G heads eqv S ins ->
  forall fuel h, (depth t h < fuel)%nat -> (exists z ez, eget z G = Some ez /\ anc t h z) ->
  total ws < 18446744073709551616 -> tolerant ws (S 1%nat) = true ->
  find_ancestor t lbl fuel G heads h (possible_bits ws eqv (cur_weight ws (S 1%nat))) =
  find_anc t (possible t ws (S 1%nat)) h.
Proof. exact reach_all_find_ancestor_possible. Qed.
Print Assumptions C20_graph_find_ancestor_estimate.

(* PARTIAL (one step, finalized and estimate only): Round.update on a state whose graph is
   reachable for the vote sets S and whose memoised prevote ghost is the specification's makes
   r_fin / r_est the specification's finalized / estimate of S, whatever earlier vote sets the old
   fields were computed for.  Open: r_compl, and the induction along the run. *)
Theorem C20_graph_update_state_partial : forall t lbl ws, 0 < total ws -> total ws < 18446744073709551616 ->
  forall s S ins V0 C0,
  rel t lbl s S ins -> tolerant ws (S 0%nat) = true -> tolerant ws (S 1%nat) = true ->
  r_pvg s = ghost t ws (S 0%nat) -> subset V0 (S 0%nat) -> subset C0 (S 1%nat) ->
  r_fin s = finalized t ws V0 C0 -> r_est s = estimate t ws V0 C0 ->
  r_fin (update t lbl ws s) = finalized t ws (S 0%nat) (S 1%nat) /\
  r_est (update t lbl ws s) = estimate t ws (S 0%nat) (S 1%nat).
Proof. exact update_fin_est. Qed.
Print Assumptions C20_graph_update_state_partial.

(* non-vacuity: finalized appears inside an ancestor edge (block 1 has no vote-node), the round
   becomes completable, then the estimate moves from block 2 down to block 1; the mirror's fields
   are the specification's after every prefix *)
Example C20_graph_run_state_example :
  let t := [0; 1; 1]%nat in let ws := [1; 1; 1; 1]%N in
  let h := [(0, mkVote 0 2 0); (0, mkVote 1 2 0); (0, mkVote 2 2 0); (0, mkVote 3 3 0);
            (1, mkVote 0 2 0); (1, mkVote 1 3 0); (1, mkVote 2 3 0); (1, mkVote 3 3 0)]%nat in
  map (fun k => let s := run t (fun b => b) ws (firstn k h) in (r_fin s, r_est s, r_compl s)) (seq 0 9) =
    [(None, None, false); (None, None, false); (None, None, false); (None, Some 2, false);
     (None, Some 2, false); (None, Some 2, false); (None, Some 2, false); (Some 1, Some 2, true);
     (Some 1, Some 1, true)]%nat /\
  map (fun k => let V := votes_of 0 (firstn k h) in let C := votes_of 1 (firstn k h) in
                (finalized t ws V C, estimate t ws V C, completable t ws V C)) (seq 0 9) =
    [(None, None, false); (None, None, false); (None, None, false); (None, Some 2, false);
     (None, Some 2, false); (None, Some 2, false); (None, Some 2, false); (Some 1, Some 2, true);
     (Some 1, Some 1, true)]%nat /\
  map fst (r_G (run t (fun b => b) ws h)) = [0; 2; 3]%nat.
Proof. exact run_state_example. Qed.

(* ---------------------------------------------------------------------------------------- *)
From C20 Require Import GraphRunFinEst.

(* THE INDUCTION ALONG THE RUN for finalized / estimate: after EVERY prefix of every history folded
   through step_op from rinit (phase tags 0/1, both phases tolerant, known-voter votes for blocks of
   the tree, 0 < total ws < 2^64) r_fin and r_est are the specification's finalized / estimate of
   ALL the votes of the prefix.  Recorded-only imports (duplicate, third vote) and voters outside
   the voter set included.  Open: r_compl. *)
Theorem C20_graph_import_run_fin_est : forall t lbl ws h,
  0 < total ws -> total ws < 18446744073709551616 ->
  (forall o, In o h -> (fst o < 2)%nat) ->
  tolerant ws (votes_of 0 h) = true -> tolerant ws (votes_of 1 h) = true ->
  (forall o, In o h -> known_voter ws (snd o) = true -> in_tree t (vblock (snd o))) ->
  forall h1 h2, h = h1 ++ h2 ->
  let s := run t lbl ws h1 in
  r_fin s = finalized t ws (votes_of 0 h1) (votes_of 1 h1) /\
  r_est s = estimate t ws (votes_of 0 h1) (votes_of 1 h1).
Proof. exact run_fin_est_prefix. Qed.
Print Assumptions C20_graph_import_run_fin_est.

(* the form over the votes of known voters, for one history satisfying GraphRunGhost.good *)
Theorem C20_graph_import_run_fin_est_known : forall t lbl ws, 0 < total ws -> total ws < 18446744073709551616 ->
  forall h, good t ws h ->
  r_fin (run t lbl ws h) = finalized t ws (known_votes_of ws 0 h) (known_votes_of ws 1 h) /\
  r_est (run t lbl ws h) = estimate t ws (known_votes_of ws 0 h) (known_votes_of ws 1 h).
Proof. exact run_fin_est. Qed.
Print Assumptions C20_graph_import_run_fin_est_known.

(* a recorded-only import does not change the weight of the votes seen *)
Theorem C20_cur_weight_recorded_only : forall ws S x, voted S (vvoter x) = true ->
  cur_weight ws (S ++ [x]) = cur_weight ws S.
Proof. exact cur_weight_app_voted. Qed.
Print Assumptions C20_cur_weight_recorded_only.

(* non-vacuity: all hypotheses hold on a history with a duplicate prevote, a duplicate precommit, a
   voter outside the voter set, a precommit equivocation and its third vote; finalized / estimate
   become Some and agree after every prefix *)
Example C20_graph_run_fin_est_example :
  let t := [0; 1; 1]%nat in let ws := [1; 1; 1; 1]%N in
  let h := [(0, mkVote 0 2 0); (0, mkVote 1 2 0); (0, mkVote 2 2 0); (0, mkVote 3 3 0); (0, mkVote 0 2 0);
            (1, mkVote 0 2 0); (1, mkVote 1 3 0); (1, mkVote 1 3 0); (0, mkVote 7 3 0); (1, mkVote 2 3 0);
            (1, mkVote 3 3 0); (1, mkVote 3 2 0); (1, mkVote 3 1 0)]%nat in
  (forall o, In o h -> (fst o < 2)%nat) /\ (0 < total ws)%N /\ (total ws < 18446744073709551616)%N /\
  tolerant ws (votes_of 0 h) = true /\ tolerant ws (votes_of 1 h) = true /\
  (forall o, In o h -> known_voter ws (snd o) = true -> in_tree t (vblock (snd o))) /\
  map (fun k => let s := run t (fun b => b) ws (firstn k h) in (r_fin s, r_est s)) (seq 0 14) =
    [(None, None); (None, None); (None, None); (None, Some 2); (None, Some 2); (None, Some 2);
     (None, Some 2); (None, Some 2); (None, Some 2); (None, Some 2); (Some 1, Some 2); (Some 1, Some 1);
     (Some 1, Some 1); (Some 1, Some 1)]%nat /\
  map (fun k => let V := votes_of 0 (firstn k h) in let C := votes_of 1 (firstn k h) in
                (finalized t ws V C, estimate t ws V C)) (seq 0 14) =
    [(None, None); (None, None); (None, None); (None, Some 2); (None, Some 2); (None, Some 2);
     (None, Some 2); (None, Some 2); (None, Some 2); (None, Some 2); (Some 1, Some 2); (Some 1, Some 1);
     (Some 1, Some 1); (Some 1, Some 1)]%nat.
Proof. exact run_fin_est_example. Qed.

(* ---------------------------------------------------------------------------------------- *)
(* closer-c20h: the completable field of the mirror (GraphRunCompl.v) *)
From C20 Require Import GraphRunCompl.

(* FindGHOST restarted from a block g, for ANY condition that agrees with a block predicate P on exact
   cumulative bits, is monotone towards bit lists under a block, fails on the empty list (P closed
   under ancestors): it answers g (or nothing) exactly when no child of g satisfies P.  (Sv / the
   tolerance hypothesis only feed borrowed GraphGhost lemmas.) *)
Theorem C20_graph_find_ghost_compl :
  forall (t : tree) (lbl : block -> nat) (ws : list N) (G : entries) (ins : list (block * bit)) (Sv : list vote),
  cum_ok t G ins -> anc_wf t G -> chain_inv t G ->
  (forall p, In p ins -> exists e, eget (fst p) G = Some e) ->
  (forall p, In p ins -> in_tree t (fst p)) ->
  desc_complete G -> desc_sound G -> (0 < total ws)%N -> tolerant ws Sv = true ->
  forall (cond : list bit -> bool) (P : block -> bool),
  (forall b bits, (forall bt, memb bt bits = ins_bit t ins bt b) -> cond bits = P b) ->
  (forall b v v', under t ins b v' -> (forall bt, memb bt v = true -> memb bt v' = true) ->
     cond v = true -> cond v' = true) ->
  cond nil = false ->
  (forall a b, anc t a b -> P b = true -> P a = true) ->
  (exists e0, eget 0%nat G = Some e0) ->
  forall heads, heads_cover t G heads ->
  forall g, P g = true -> (exists z ez, eget z G = Some ez /\ anc t g z) ->
  (match find_ghost t lbl G heads (Some g) cond with None => true | Some x => Nat.eqb x g end) =
  negb (existsb P (children t g)).
Proof. exact find_ghost_compl. Qed.
Print Assumptions C20_graph_find_ghost_compl.

(* the instance of Round.update: the wrapping possibleToPrecommit condition on a reachable graph, once
   the precommits seen reach the threshold *)
Theorem C20_graph_find_ghost_possible_compl :
  forall (t : tree) (lbl : block -> nat) (ws : list N),
  (0 < total ws)%N -> (total ws < 18446744073709551616)%N ->
  forall G heads eqv (S : nat -> list vote) ins,
  reach_all t lbl G heads eqv S ins -> tolerant ws (S 1%nat) = true ->
  (threshold ws <= cur_weight ws (S 1%nat))%N ->
  (forall p x, In x (S p) -> in_tree t (vblock x)) ->
  forall g, possible t ws (S 1%nat) g = true -> (exists z ez, eget z G = Some ez /\ anc t g z) ->
  (match find_ghost t lbl G heads (Some g) (possible_bits ws eqv (cur_weight ws (S 1%nat))) with
   | None => true | Some x => Nat.eqb x g end) =
  negb (existsb (possible t ws (S 1%nat)) (children t g)).
Proof. exact reach_all_find_ghost_compl. Qed.
Print Assumptions C20_graph_find_ghost_possible_compl.

(* ONE Round.update: completable becomes the specification's *)
Theorem C20_graph_update_compl :
  forall (t : tree) (lbl : block -> nat) (ws : list N),
  (0 < total ws)%N -> (total ws < 18446744073709551616)%N ->
  forall s (S : nat -> list vote) ins V0 C0,
  rel t lbl s S ins -> tolerant ws (S 0%nat) = true -> tolerant ws (S 1%nat) = true ->
  (forall p x, In x (S p) -> in_tree t (vblock x)) ->
  r_pvg s = ghost t ws (S 0%nat) -> subset V0 (S 0%nat) -> subset C0 (S 1%nat) ->
  r_compl s = completable t ws V0 C0 ->
  r_compl (update t lbl ws s) = completable t ws (S 0%nat) (S 1%nat).
Proof. exact update_compl. Qed.
Print Assumptions C20_graph_update_compl.

(* ALONG THE RUN: after every prefix of every history (hypotheses of C20_graph_import_run_fin_est) the
   completable field of the mirror is the specification's *)
Theorem C20_graph_import_run_compl :
  forall (t : tree) (lbl : block -> nat) (ws : list N) (h : list (nat * vote)),
  (0 < total ws)%N -> (total ws < 18446744073709551616)%N ->
  (forall o, In o h -> (fst o < 2)%nat) ->
  tolerant ws (votes_of 0 h) = true -> tolerant ws (votes_of 1 h) = true ->
  (forall o, In o h -> known_voter ws (snd o) = true -> in_tree t (vblock (snd o))) ->
  forall h1 h2, h = h1 ++ h2 ->
  r_compl (run t lbl ws h1) = completable t ws (votes_of 0 h1) (votes_of 1 h1).
Proof. exact run_compl_prefix. Qed.
Print Assumptions C20_graph_import_run_compl.

(* non-vacuity: all hypotheses hold; estimate = ghost = block 1 with the threshold of precommits
   reached: not completable while child 2 is possible (FindGHOST answers below 1), completable once no
   child is (FindGHOST answers 1); duplicate, outside voter, equivocation, third vote included *)
Example C20_graph_run_compl_example :
  let t := [0; 1; 1]%nat in let ws := [1; 1; 1; 1]%N in
  let h := [(0, mkVote 0 2 0); (0, mkVote 1 2 0); (0, mkVote 2 3 0); (0, mkVote 3 3 0);
            (1, mkVote 0 2 0); (1, mkVote 1 1 0); (1, mkVote 2 1 0); (1, mkVote 2 1 0); (0, mkVote 7 3 0);
            (1, mkVote 3 1 0); (1, mkVote 3 3 0); (1, mkVote 3 2 0)]%nat in
  (forall o, In o h -> (fst o < 2)%nat) /\ (0 < total ws)%N /\ (total ws < 18446744073709551616)%N /\
  tolerant ws (votes_of 0 h) = true /\ tolerant ws (votes_of 1 h) = true /\
  (forall o, In o h -> known_voter ws (snd o) = true -> in_tree t (vblock (snd o))) /\
  map (fun k => let s := run t (fun b => b) ws (firstn k h) in (r_pvg s, r_est s, r_compl s)) (seq 0 13) =
    [(None, None, false); (None, None, false); (None, None, false); (Some 1, Some 1, false);
     (Some 1, Some 1, false); (Some 1, Some 1, false); (Some 1, Some 1, false); (Some 1, Some 1, false);
     (Some 1, Some 1, false); (Some 1, Some 1, false); (Some 1, Some 1, true); (Some 1, Some 1, true);
     (Some 1, Some 1, true)]%nat /\
  map (fun k => completable t ws (votes_of 0 (firstn k h)) (votes_of 1 (firstn k h))) (seq 0 13) =
    [false; false; false; false; false; false; false; false; false; false; true; true; true].
Proof. exact run_compl_example. Qed.
