(* C20/GraphInvBranch.v -- UNBOUNDED: Insert through introduceBranch (the voted block h has no
   vote-node but lies strictly inside the ancestor edge of the vote-nodes ds returned by
   findContainingNodes) preserves chain_inv and cum_ok.  A new vote-node is spliced in at h: the
   ancestor edge of every d in ds is cut at h, the new node inherits the upper part of the edge of
   the first d, and its cumulative vote is the union of the cumulative votes of the ds (plus the
   new vote, by the propagation).

   Exact hypotheses of insert_branch (what "findContainingNodes returned ds" means in a canonical
   graph; that implication itself -- soundness/completeness of the walk from the heads -- is
   covered by the small-scope theorem only, as for the append path):
     sound    : every d in ds is a vote-node whose ancestor edge holds h at h's number
                (in_direct_ancestry = Some true, what the walk tests), h is above d, and the
                vote-node that ends d's edge is above h;
     complete : every vote-node below h is in ds or has its nearest vote-node at or below h
                (i.e. ds are ALL the vote-nodes whose edge passes through h);
     votes of ins sit on vote-nodes.
   No hypothesis on repetitions in ds, on the g_desc lists or on the heads.

   Second part: [sound] is derived, not assumed.  walk_sound / find_containing_sound: whatever
   findContainingNodes returns are vote-nodes that passed the inDirectAncestry test; anc_wf (every
   ancestor list is a prefix of the block's real ancestor chain) is preserved by EVERY Insert
   (insert_anc_wf, no hypothesis on the path) and turns that test into the ancestry facts
   (branch_sound_of_wf).  [reach_full] extends GraphReach.reach by the introduceBranch step with
   the completeness of findContainingNodes as its only semantic premise; reach_full_invariants /
   reach_full_node_weights are the counterparts of reach_good / reach_node_weights. *)
From Coq Require Import List Arith Lia Bool NArith.
From Grandpa Require Import Tree Votes RoundSpec.
From C20 Require Import Model Graph GraphInv GraphInvAppend GraphTracker GraphReach.
Import ListNotations.

Lemma last_opt_some {A} (l : list A) : l <> [] -> exists p, last_opt l = Some p.
Proof.
  induction l as [|a r IH]; [congruence|]. intros _. destruct r as [|a' r']; [exists a; reflexivity|].
  destruct IH as [p P]; [discriminate|]. exists p. exact P.
Qed.

Lemma last_opt_skipn {A} (l : list A) : forall k a p, nth_error l k = Some a -> last_opt l = Some p ->
  a <> p -> last_opt (skipn (S k) l) = Some p.
Proof.
  induction l as [|x r IH]; intros k a p N L NE; [destruct k; discriminate|].
  destruct k as [|k].
  - cbn in N. injection N as ->. cbn [skipn]. destruct r as [|y r']; [cbn in L; congruence|exact L].
  - cbn [nth_error] in N. destruct r as [|y r']; [destruct k; discriminate|].
    change (last_opt (skipn (S k) (y :: r')) = Some p). apply (IH k a p N); [exact L|exact NE].
Qed.

Lemma existsb_ext' {A} (f g : A -> bool) l : (forall x, f x = g x) -> existsb f l = existsb g l.
Proof. intro H. induction l as [|a r IH]; [reflexivity|]. cbn. now rewrite H, IH. Qed.

Lemma memb_app x l1 l2 : memb x (l1 ++ l2) = memb x l1 || memb x l2.
Proof. unfold memb. apply existsb_app. Qed.

Lemma memb_In x l : memb x l = true <-> In x l.
Proof.
  unfold memb. rewrite existsb_exists. split.
  - intros [y [I E]]. apply Nat.eqb_eq in E. now subst.
  - intro I. exists x. split; [exact I|apply Nat.eqb_refl].
Qed.

Section Branch.
Variable t : tree.

(* the entry of a containing node after the cut at h *)
Definition trunc (h d : block) (e : entry) : entry :=
  mkE (firstn (number t d - number t h) (g_anc e)) (g_desc e) (g_cum e).

Lemma trunc_idem h d e : trunc h d (trunc h d e) = trunc h d e.
Proof. unfold trunc. cbn [g_anc g_desc g_cum]. now rewrite firstn_firstn, Nat.min_id. Qed.

(* the loop body of introduceBranch (the local [step] of Graph.introduce_branch) *)
Definition bstep (h : block) (st : entries * option (entry * option block)) (d : block) :=
  let '(G, maybe) := st in
  match eget d G with
  | None => st
  | Some e =>
    let offset := number t d - number t h in
    let G := eset d (mkE (firstn offset (g_anc e)) (g_desc e) (g_cum e)) G in
    let '(ne, prev) := match maybe with
                       | Some x => x
                       | None => (mkE (skipn offset (g_anc e)) [] [], ancestor_node e)
                       end in
    (G, Some (mkE (g_anc ne) (g_desc ne ++ [d]) (g_cum ne ++ g_cum e), prev))
  end.

Lemma introduce_branch_eq G ds h :
  introduce_branch t G ds h =
  match fold_left (bstep h) ds (G, None) with
  | (G, None) => G
  | (G, Some (ne, prev)) =>
    let G := match prev with
             | Some p => match eget p G with
                         | Some pe => eset p (mkE (g_anc pe)
                                        (filter (fun d => negb (memb d (g_desc ne))) (g_desc pe) ++ [h])
                                        (g_cum pe)) G
                         | None => G end
             | None => G end in
    eset h ne G
  end.
Proof. reflexivity. Qed.

Definition cumof (G : entries) (b : bit) (d : block) : bool :=
  match eget d G with Some e => memb b (g_cum e) | None => false end.

Lemma cumof_eset h G d e b d' : eget d G = Some e -> cumof (eset d (trunc h d e) G) b d' = cumof G b d'.
Proof.
  intro E. unfold cumof. rewrite eget_eset. destruct (Nat.eqb_spec d' d) as [->|N]; [|reflexivity].
  now rewrite E.
Qed.

Lemma bstep_some h G0 m d e : eget d G0 = Some e ->
  bstep h (G0, m) d =
  (eset d (trunc h d e) G0,
   Some (match m with
         | Some (ne0, prev0) => (mkE (g_anc ne0) (g_desc ne0 ++ [d]) (g_cum ne0 ++ g_cum e), prev0)
         | None => (mkE (skipn (number t d - number t h) (g_anc e)) ([] ++ [d]) ([] ++ g_cum e),
                    ancestor_node e)
         end)).
Proof. intro E. unfold bstep. rewrite E. destruct m as [[ne0 prev0]|]; reflexivity. Qed.

(* the graph after the loop: exactly the ds are cut *)
Lemma fold_fst h : forall ds G0 m, (forall d, In d ds -> exists e, eget d G0 = Some e) ->
  forall y, eget y (fst (fold_left (bstep h) ds (G0, m))) =
    match eget y G0 with Some e => Some (if memb y ds then trunc h y e else e) | None => None end.
Proof.
  induction ds as [|d r IH]; intros G0 m H y.
  - cbn. destruct (eget y G0); reflexivity.
  - destruct (H d (or_introl eq_refl)) as [e E]. cbn [fold_left]. rewrite (bstep_some h G0 m d e E).
    rewrite IH.
    + rewrite eget_eset. destruct (Nat.eqb_spec y d) as [->|N].
      * rewrite E. unfold memb at 2. cbn [existsb]. rewrite Nat.eqb_refl. cbn [orb]. f_equal.
        destruct (memb d r); [apply trunc_idem|reflexivity].
      * destruct (eget y G0); [|reflexivity]. unfold memb at 2. cbn [existsb].
        rewrite (proj2 (Nat.eqb_neq y d) N). reflexivity.
    + intros d' I. rewrite eget_eset. destruct (Nat.eqb_spec d' d); [eauto|]. apply H. now right.
Qed.

(* the new node accumulated by the loop *)
Lemma fold_snd h : forall ds G0 ne0 prev0, (forall d, In d ds -> exists e, eget d G0 = Some e) ->
  exists ne, snd (fold_left (bstep h) ds (G0, Some (ne0, prev0))) = Some (ne, prev0) /\
    g_anc ne = g_anc ne0 /\
    (forall b, memb b (g_cum ne) = memb b (g_cum ne0) || existsb (cumof G0 b) ds).
Proof.
  induction ds as [|d r IH]; intros G0 ne0 prev0 H.
  - exists ne0. cbn. split; [reflexivity|]. split; [reflexivity|]. intro b. now rewrite orb_false_r.
  - destruct (H d (or_introl eq_refl)) as [e E]. cbn [fold_left].
    rewrite (bstep_some h G0 (Some (ne0, prev0)) d e E).
    destruct (IH (eset d (trunc h d e) G0) (mkE (g_anc ne0) (g_desc ne0 ++ [d]) (g_cum ne0 ++ g_cum e)) prev0)
      as [ne [F [GA GC]]].
    + intros d' I. rewrite eget_eset. destruct (Nat.eqb_spec d' d); [eauto|]. apply H. now right.
    + exists ne. split; [exact F|]. split; [exact GA|]. intro b. rewrite GC. cbn [g_cum existsb].
      rewrite memb_app. rewrite (existsb_ext' _ (cumof G0 b) r (fun d' => cumof_eset h G0 d e b d' E)).
      unfold cumof at 2. rewrite E. now rewrite orb_assoc.
Qed.

Lemma ida_true d e h : in_direct_ancestry t d e h (number t h) = Some true ->
  (number t h < number t d)%nat /\ nth_error (g_anc e) (number t d - number t h - 1) = Some h.
Proof.
  unfold in_direct_ancestry, ancestor_block.
  destruct (Nat.leb_spec (number t d) (number t h)) as [L|L]; [discriminate|].
  destruct (nth_error (g_anc e) (number t d - number t h - 1)) as [x|]; [|discriminate].
  intro H. injection H as H. apply Nat.eqb_eq in H. subst x. split; [exact L|reflexivity].
Qed.

(* the shape of the graph introduceBranch returns *)
Lemma branch_shape G ds h d1 r e1 : ds = d1 :: r -> eget h G = None ->
  (forall d, In d ds -> exists e, eget d G = Some e) -> eget d1 G = Some e1 ->
  exists ne, eget h (introduce_branch t G ds h) = Some ne /\
    g_anc ne = skipn (number t d1 - number t h) (g_anc e1) /\
    (forall b', memb b' (g_cum ne) = existsb (cumof G b') ds) /\
    (forall y ey, y <> h -> eget y (introduce_branch t G ds h) = Some ey ->
       exists ey0, eget y G = Some ey0 /\ g_cum ey = g_cum ey0 /\
         g_anc ey = if memb y ds then firstn (number t y - number t h) (g_anc ey0) else g_anc ey0) /\
    (forall y ey0, eget y G = Some ey0 -> exists ey, eget y (introduce_branch t G ds h) = Some ey).
Proof.
  intros DS EH ALL E1. rewrite introduce_branch_eq.
  destruct (fold_left (bstep h) ds (G, None)) as [G1 m1] eqn:F.
  assert (GE : forall y, eget y G1 =
            match eget y G with Some e => Some (if memb y ds then trunc h y e else e) | None => None end).
  { intro y. rewrite <- (fold_fst h ds G None ALL y). now rewrite F. }
  assert (M : exists ne, m1 = Some (ne, ancestor_node e1) /\
              g_anc ne = skipn (number t d1 - number t h) (g_anc e1) /\
              forall b', memb b' (g_cum ne) = existsb (cumof G b') ds).
  { rewrite DS in F. cbn [fold_left] in F. rewrite (bstep_some h G None d1 e1 E1) in F.
    destruct (fold_snd h r (eset d1 (trunc h d1 e1) G)
                (mkE (skipn (number t d1 - number t h) (g_anc e1)) ([] ++ [d1]) ([] ++ g_cum e1))
                (ancestor_node e1)) as [ne [S1 [GA GC]]].
    { intros d' I. rewrite eget_eset. destruct (Nat.eqb_spec d' d1); [eauto|]. apply ALL. rewrite DS. now right. }
    rewrite F in S1. cbn [snd] in S1. exists ne. split; [exact S1|]. split; [exact GA|].
    intro b'. rewrite GC. rewrite DS. cbn [g_cum app existsb].
    rewrite (existsb_ext' _ (cumof G b') r (fun d' => cumof_eset h G d1 e1 b' d' E1)).
    unfold cumof at 2. now rewrite E1. }
  destruct M as [ne [-> [GAne GCne]]].
  (* the parent's descendant list is rewired: irrelevant for both invariants *)
  set (G1' := match ancestor_node e1 with
              | Some p => match eget p G1 with
                          | Some pe => eset p (mkE (g_anc pe)
                                         (filter (fun d => negb (memb d (g_desc ne))) (g_desc pe) ++ [h]) (g_cum pe)) G1
                          | None => G1 end
              | None => G1 end).
  cbv beta iota zeta. fold G1'.
  assert (SAME : forall y, option_map g_anc (eget y G1') = option_map g_anc (eget y G1) /\
                           option_map g_cum (eget y G1') = option_map g_cum (eget y G1)).
  { intro y. unfold G1'. destruct (ancestor_node e1) as [p1|]; [|split; reflexivity].
    destruct (eget p1 G1) as [pe|] eqn:EP; [|split; reflexivity].
    rewrite eget_eset. destruct (Nat.eqb_spec y p1) as [->|]; [|split; reflexivity].
    rewrite EP. split; reflexivity. }
  exists ne. split; [now rewrite eget_eset, Nat.eqb_refl|]. split; [exact GAne|]. split; [exact GCne|]. split.
  - intros y ey N H. rewrite eget_eset in H.
    destruct (Nat.eqb_spec y h); [congruence|]. destruct (SAME y) as [SA SC]. rewrite H in SA, SC.
    rewrite GE in SA, SC. destruct (eget y G) as [ey0|]; [|discriminate]. exists ey0. split; [reflexivity|].
    cbn [option_map] in SA, SC. injection SA as SA. injection SC as SC.
    destruct (memb y ds); cbn [trunc g_anc g_cum] in SA, SC; auto.
  - intros y ey0 H. rewrite eget_eset. destruct (Nat.eqb_spec y h); [eauto|].
    destruct (SAME y) as [SA _]. rewrite GE, H in SA. destruct (eget y G1'); [eauto|discriminate].
Qed.

Definition branch_sound (G : entries) (ds : list block) (h : block) : Prop :=
  forall d, In d ds -> exists e, eget d G = Some e /\
    in_direct_ancestry t d e h (number t h) = Some true /\ anc t h d /\
    (forall p, ancestor_node e = Some p -> anc t p h).
Definition branch_complete (G : entries) (ds : list block) (h : block) : Prop :=
  forall x e, eget x G = Some e -> anc t h x ->
    In x ds \/ exists p, ancestor_node e = Some p /\ anc t h p.

Variable lbl : block -> nat.

Theorem insert_branch G heads h b ins ds :
  chain_inv t G -> cum_ok t G ins ->
  eget h G = None -> find_containing t lbl G heads h = Some ds -> ds <> [] ->  (* the split path *)
  branch_sound G ds h -> branch_complete G ds h ->
  (forall p, In p ins -> exists e, eget (fst p) G = Some e) ->        (* votes sit on vote-nodes *)
  let '(G', heads') := insert t lbl G heads h b in
  heads' = heads /\ chain_inv t G' /\ cum_ok t G' ((h, b) :: ins) /\
  (exists e, eget h G' = Some e) /\
  (forall p, In p ((h, b) :: ins) -> exists e, eget (fst p) G' = Some e) /\
  (forall y ey, eget y G = Some ey -> exists e2, eget y G' = Some e2).
Proof.
  intros CI CO EH FC NE SND CMP IN. unfold insert. rewrite FC.
  destruct ds as [|d1 r] eqn:DS; [congruence|]. cbv iota. rewrite <- DS in *. clear NE.
  assert (I1 : In d1 ds) by (rewrite DS; now left).
  assert (ALL : forall d, In d ds -> exists e, eget d G = Some e).
  { intros d I. destruct (SND d I) as [e [E _]]. eauto. }
  destruct (SND d1 I1) as [e1 [E1 [IDA1 [AH1 AP1]]]].
  destruct (branch_shape G ds h d1 r e1 DS EH ALL E1) as [ne [G2h [GAne [GCne [OLD KEEP]]]]].
  set (G2 := introduce_branch t G ds h) in *.
  destruct (ida_true _ _ _ IDA1) as [LT1 NTH1].
  destruct (last_opt_some (g_anc e1)) as [p1 AN1].
  { intro X. rewrite X in NTH1. destruct (number t d1 - number t h - 1)%nat; discriminate. }
  fold (ancestor_node e1) in AN1. pose proof (AP1 p1 AN1) as AP.
  pose proof (CI d1 e1 E1) as C1. rewrite AN1 in C1. destruct C1 as [[pe1 PE1] [A1 [N1 M1]]].
  assert (NP1 : p1 <> h) by (intro X; subst p1; congruence).
  assert (ANne : ancestor_node ne = Some p1).
  { unfold ancestor_node. rewrite GAne.
    replace (number t d1 - number t h)%nat with (S (number t d1 - number t h - 1)) by lia.
    apply (last_opt_skipn _ _ h p1 NTH1); [exact AN1|congruence]. }
  (* every vote-node below h is at or below one of the ds *)
  assert (BELOW : forall x ex, eget x G = Some ex -> anc t h x -> exists d, In d ds /\ anc t d x).
  { induction x as [x IHx] using lt_wf_ind. intros ex EX AX.
    destruct (CMP x ex EX AX) as [I|[p [AN AHP]]]; [exists x; split; [exact I|apply anc_refl]|].
    pose proof (CI x ex EX) as C. rewrite AN in C. destruct C as [[pe PE] [A [N _]]].
    assert (LT : (p < x)%nat) by (apply anc_le in A; lia).
    destruct (IHx p LT pe PE AHP) as [d [I AD]]. exists d. split; [exact I|]. eapply anc_trans; eauto. }
  (* chain_inv G2 *)
  assert (CI2 : chain_inv t G2).
  { intros x e H. destruct (Nat.eq_dec x h) as [->|NX].
    - rewrite G2h in H. injection H as <-. rewrite ANne.
      split; [eapply KEEP; eauto|]. split; [exact AP|]. split; [exact NP1|].
      intros y ey Y AY NY. destruct (OLD y ey NY Y) as [ey0 [Y0 _]].
      apply (M1 y ey0 Y0); [eapply anc_trans; eauto|].
      intro X. subst y. apply NY. now apply (anc_antisym t).
    - destruct (OLD x e NX H) as [e0 [X0 [_ GAx]]]. destruct (memb x ds) eqn:MX.
      + apply memb_In in MX. destruct (SND x MX) as [e' [E' [IDA [AH APx]]]].
        rewrite X0 in E'. injection E' as <-. destruct (ida_true _ _ _ IDA) as [LT NTH].
        unfold ancestor_node. rewrite GAx.
        replace (number t x - number t h)%nat with (S (number t x - number t h - 1)) by lia.
        rewrite (last_opt_firstn _ _ _ NTH).
        split; [eauto|]. split; [exact AH|]. split; [congruence|].
        intros y ey Y AY NY. destruct (Nat.eq_dec y h) as [->|NYH]; [apply anc_refl|].
        destruct (OLD y ey NYH Y) as [ey0 [Y0 _]].
        destruct (last_opt_some (g_anc e0)) as [px ANx].
        { intro X. rewrite X in NTH. destruct (number t x - number t h - 1)%nat; discriminate. }
        fold (ancestor_node e0) in ANx. pose proof (CI x e0 X0) as C. rewrite ANx in C.
        destruct C as [_ [_ [_ MM]]]. eapply anc_trans; [exact (MM y ey0 Y0 AY NY)|exact (APx px ANx)].
      + assert (NI : ~ In x ds) by (intro I; apply memb_In in I; congruence).
        assert (AE : ancestor_node e = ancestor_node e0) by (unfold ancestor_node; now rewrite GAx).
        rewrite AE. pose proof (CI x e0 X0) as C. destruct (ancestor_node e0) as [p|] eqn:AN.
        * destruct C as [[pe PE] [A [N MM]]]. split; [eapply KEEP; eauto|]. split; [exact A|]. split; [exact N|].
          intros y ey Y AY NY. destruct (Nat.eq_dec y h) as [->|NYH].
          -- destruct (CMP x e0 X0 AY) as [I|[p' [AN' AHP]]]; [contradiction|]. congruence.
          -- destruct (OLD y ey NYH Y) as [ey0 [Y0 _]]. exact (MM y ey0 Y0 AY NY).
        * intros y ey Y AY. destruct (Nat.eq_dec y h) as [->|NYH].
          -- destruct (CMP x e0 X0 AY) as [I|[p' [AN' AHP]]]; [contradiction|]. congruence.
          -- destruct (OLD y ey NYH Y) as [ey0 [Y0 _]]. exact (C y ey0 Y0 AY). }
  (* cum_ok G2 ins *)
  assert (CO2 : cum_ok t G2 ins).
  { intros y e H b'. destruct (Nat.eq_dec y h) as [->|NY].
    - rewrite G2h in H. injection H as <-. rewrite GCne. apply eq_iff_eq_true.
      rewrite !existsb_exists. split.
      + intros [d [ID CD]]. destruct (SND d ID) as [e [E [_ [AH _]]]]. unfold cumof in CD. rewrite E in CD.
        rewrite (CO d e E b') in CD. apply existsb_exists in CD. destruct CD as [p [IP P]].
        apply andb_true_iff in P. destruct P as [PB PA]. exists p. split; [exact IP|].
        apply andb_true_iff. split; [exact PB|]. apply ancb_spec. apply ancb_spec in PA. eapply anc_trans; eauto.
      + intros [p [IP P]]. apply andb_true_iff in P. destruct P as [PB PA]. apply ancb_spec in PA.
        destruct (IN p IP) as [eq EQ]. destruct (BELOW _ eq EQ PA) as [d [ID AD]].
        exists d. split; [exact ID|]. destruct (SND d ID) as [e [E _]]. unfold cumof. rewrite E.
        rewrite (CO d e E b'). apply existsb_exists. exists p. split; [exact IP|].
        apply andb_true_iff. split; [exact PB|]. now apply ancb_spec.
    - destruct (OLD y e NY H) as [e0 [Y0 [GCy _]]]. rewrite GCy. exact (CO y e0 Y0 b'). }
  assert (L : (h < S (h + length G2))%nat) by lia.
  assert (EX : exists e, eget h G2 = Some e) by eauto.
  split; [reflexivity|]. split; [now apply propagate_chain_inv|]. split; [now apply propagate_cum_ok|].
  assert (KEYS : forall y ey, eget y G2 = Some ey -> exists e2, eget y (propagate (S (h + length G2)) G2 h b) = Some e2).
  { intros y ey Y. rewrite (propagate_spec t _ G2 h b CI2 L EX y), Y. eauto. }
  split; [destruct EX as [e E]; eapply KEYS; eauto|].
  split.
  - intros p [<-|I]; cbn [fst].
    + destruct EX as [e E]. eapply KEYS; eauto.
    + destruct (IN p I) as [ep EP]. destruct (KEEP _ _ EP) as [e1' E1']. eapply KEYS; eauto.
  - intros y ey Y. destruct (KEEP _ _ Y) as [e1' E1']. eapply KEYS; eauto.
Qed.

End Branch.

(* ---------------------------------------------------------------------------------------- *)
(* The soundness half of the hypotheses is a THEOREM about the mirror: findContainingNodes only
   returns vote-nodes it tested with inDirectAncestry (walk_sound), and in a graph whose ancestor
   lists are segments of the real ancestor chains (anc_wf, preserved by every Insert:
   insert_anc_wf) that test implies the two ancestry facts of branch_sound. *)
Lemma nth_error_firstn_some {A} (l : list A) : forall n k a, nth_error (firstn n l) k = Some a -> nth_error l k = Some a.
Proof.
  induction l as [|x r IH]; intros n k a H.
  - rewrite firstn_nil in H. destruct k; discriminate.
  - destruct n as [|n]; [destruct k; discriminate|]. destruct k as [|k]; [exact H|].
    cbn [firstn nth_error] in *. eapply IH; eauto.
Qed.

Lemma in_firstn {A} (l : list A) : forall n x, In x (firstn n l) -> In x l.
Proof.
  induction l as [|y r IH]; intros n x H.
  - now rewrite firstn_nil in H.
  - destruct n as [|n]; [destruct H|]. cbn [firstn] in H. destruct H as [->|H]; [now left|right; eauto].
Qed.

Lemma last_opt_In {A} (l : list A) p : last_opt l = Some p -> In p l.
Proof.
  induction l as [|x r IH]; [discriminate|]. destruct r as [|y r'].
  - cbn. intro H. injection H as ->. now left.
  - intro H. right. apply IH. exact H.
Qed.

Lemma last_in_skipn {A} (l : list A) : forall k a p, nth_error l k = Some a -> last_opt l = Some p ->
  In p (skipn k l).
Proof.
  induction l as [|x r IH]; intros k a p N L; [destruct k; discriminate|].
  destruct k as [|k]; [cbn [skipn]; now apply last_opt_In|].
  cbn [nth_error] in N. cbn [skipn]. destruct r as [|y r']; [destruct k; discriminate|].
  apply (IH k a p N). exact L.
Qed.

Lemma skipn_S_tl {A} (l : list A) : forall n, skipn (S n) l = tl (skipn n l).
Proof.
  induction l as [|x r IH]; intro n; [destruct n; reflexivity|].
  destruct n as [|n]; [reflexivity|]. cbn [skipn] in *. apply IH.
Qed.

Section Wf.
Variable t : tree.

Lemma chain_skipn : forall x k a, nth_error (chain t x) k = Some a -> skipn k (chain t x) = chain t a.
Proof.
  intro x. induction x as [|x NZ IH] using (block_ind t); intros k a H.
  - rewrite chain_0 in *. destruct k as [|k]; [cbn in H; injection H as <-; now rewrite chain_0|].
    destruct k; discriminate.
  - rewrite (chain_nz t x NZ) in *. destruct k as [|k].
    + cbn in H. injection H as <-. now rewrite (chain_nz t x NZ).
    + cbn [nth_error skipn] in *. now apply IH.
Qed.

Definition anc_wf (G : entries) : Prop :=
  forall x e, eget x G = Some e -> exists n, g_anc e = firstn n (tl (chain t x)).

Lemma anc_wf_same G G' : (forall y, option_map g_anc (eget y G') = option_map g_anc (eget y G)) ->
  anc_wf G -> anc_wf G'.
Proof.
  intros H W x e E. specialize (H x). rewrite E in H. destruct (eget x G) as [e0|] eqn:E0; [|discriminate].
  cbn in H. injection H as H. rewrite H. exact (W x e0 E0).
Qed.

Lemma propagate_g_anc : forall fuel G x b y,
  option_map g_anc (eget y (propagate fuel G x b)) = option_map g_anc (eget y G).
Proof.
  induction fuel as [|f IH]; intros G x b y; [reflexivity|]. cbn [propagate].
  destruct (eget x G) as [e|] eqn:E; [|reflexivity].
  assert (S1 : option_map g_anc (eget y (eset x (mkE (g_anc e) (g_desc e) (b :: g_cum e)) G)) =
               option_map g_anc (eget y G)).
  { rewrite eget_eset. destruct (Nat.eqb_spec y x) as [->|]; [now rewrite E|reflexivity]. }
  destruct (ancestor_node e); [now rewrite IH|exact S1].
Qed.

(* in a well-formed graph the inDirectAncestry test gives the ancestry facts *)
Lemma wf_ida G d e h : anc_wf G -> eget d G = Some e ->
  in_direct_ancestry t d e h (number t h) = Some true ->
  nth_error (chain t d) (S (number t d - number t h - 1)) = Some h /\ anc t h d /\
  (forall p, ancestor_node e = Some p -> anc t p h).
Proof.
  intros W E IDA. destruct (ida_true t _ _ _ IDA) as [LT NTH]. destruct (W d e E) as [n GA].
  destruct (chain_head t d) as [r CH].
  assert (N1 : nth_error (chain t d) (S (number t d - number t h - 1)) = Some h).
  { rewrite GA in NTH. apply nth_error_firstn_some in NTH. rewrite CH in *. exact NTH. }
  split; [exact N1|]. split; [exact (nth_error_In _ _ N1)|].
  intros p AN. unfold ancestor_node in AN. pose proof (last_in_skipn _ _ _ _ NTH AN) as I.
  rewrite GA, skipn_firstn_comm in I. apply in_firstn in I.
  unfold anc. rewrite <- (chain_skipn d _ h N1). rewrite CH in *. exact I.
Qed.

Variable lbl : block -> nat.

Definition contains (G : entries) (h d : block) : Prop :=
  exists e, eget d G = Some e /\ in_direct_ancestry t d e h (number t h) = Some true.

Lemma walk_sound G h : forall fuel head visited acc,
  (forall d, In d acc -> contains G h d) ->
  forall d, In d (snd (walk t fuel G h head visited acc)) -> contains G h d.
Proof.
  induction fuel as [|f IH]; intros head visited acc H d; [exact (H d)|]. cbn [walk].
  destruct (eget head G) as [e|] eqn:E; [|exact (H d)].
  destruct (memb head visited); [exact (H d)|].
  destruct (in_direct_ancestry t head e h (number t h)) as [[|]|] eqn:IDA.
  - cbn [snd]. intro I. apply in_app_or in I. destruct I as [I|[<-|[]]]; [exact (H d I)|].
    exists e. split; assumption.
  - exact (H d).
  - destruct (ancestor_node e) as [p|]; [|exact (H d)]. apply IH. exact H.
Qed.

Lemma find_containing_sound G heads h ds : find_containing t lbl G heads h = Some ds ->
  forall d, In d ds -> contains G h d.
Proof.
  unfold find_containing. destruct (eget h G); [discriminate|]. intro H. injection H as <-.
  assert (GEN : forall l st, (forall d, In d (snd st) -> contains G h d) ->
    forall d, In d (snd (fold_left (fun st head => walk t (S (length G)) G h head (fst st) (snd st)) l st)) ->
      contains G h d).
  { induction l as [|x r IH]; intros st H; [exact H|]. cbn [fold_left]. apply IH.
    apply walk_sound. exact H. }
  apply GEN. intros d [].
Qed.

(* the soundness hypothesis of insert_branch follows *)
Lemma branch_sound_of_wf G heads h ds : anc_wf G -> find_containing t lbl G heads h = Some ds ->
  branch_sound t G ds h.
Proof.
  intros W FC d I. destruct (find_containing_sound G heads h ds FC d I) as [e [E IDA]].
  destruct (wf_ida G d e h W E IDA) as [_ [A P]]. exists e. auto.
Qed.

(* every Insert keeps the ancestor lists well-formed (no hypothesis on the path taken) *)
Theorem insert_anc_wf G heads h b : anc_wf G -> anc_wf (fst (insert t lbl G heads h b)).
Proof.
  intro W. unfold insert.
  destruct (find_containing t lbl G heads h) as [[|d1 r]|] eqn:FC; cbn [fst].
  - (* append *)
    unfold append_node. destruct (first_entry G (tl (chain t h)) 0) as [[i a]|]; cbn [fst].
    + apply (anc_wf_same _ _ (propagate_g_anc _ _ h b)).
      intros x e E. rewrite eget_eset in E. destruct (Nat.eqb_spec x h) as [->|N].
      * injection E as <-. cbn [g_anc]. exists (S i). reflexivity.
      * destruct (eget a G) as [ea|] eqn:EA; [|exact (W x e E)].
        rewrite eget_eset in E. destruct (Nat.eqb_spec x a) as [->|]; [|exact (W x e E)].
        injection E as <-. cbn [g_anc]. exact (W a ea EA).
    + apply (anc_wf_same _ _ (propagate_g_anc _ _ h b)). exact W.
  - (* introduceBranch *)
    apply (anc_wf_same _ _ (propagate_g_anc _ _ h b)).
    assert (EH : eget h G = None).
    { unfold find_containing in FC. destruct (eget h G); [discriminate|reflexivity]. }
    pose proof (find_containing_sound G heads h _ FC) as CS.
    assert (ALL : forall d, In d (d1 :: r) -> exists e, eget d G = Some e).
    { intros d I. destruct (CS d I) as [e [E _]]. eauto. }
    destruct (CS d1 (or_introl eq_refl)) as [e1 [E1 IDA1]].
    destruct (branch_shape t G (d1 :: r) h d1 r e1 eq_refl EH ALL E1) as [ne [G2h [GAne [_ [OLD _]]]]].
    intros x e E. destruct (Nat.eq_dec x h) as [->|N].
    + rewrite G2h in E. injection E as <-. rewrite GAne.
      destruct (ida_true t _ _ _ IDA1) as [LT _].
      destruct (wf_ida G d1 e1 h W E1 IDA1) as [N1 _]. destruct (W d1 e1 E1) as [n GA].
      rewrite GA, skipn_firstn_comm. eexists. f_equal.
      replace (number t d1 - number t h)%nat with (S (number t d1 - number t h - 1)) by lia.
      destruct (chain_head t d1) as [r1 CH].
      rewrite <- (chain_skipn d1 _ h N1). rewrite skipn_S_tl. rewrite CH. reflexivity.
    + destruct (OLD x e N E) as [e0 [X0 [_ GAx]]]. destruct (W x e0 X0) as [n GA]. rewrite GAx.
      destruct (memb x (d1 :: r)); [|eauto]. rewrite GA, firstn_firstn. eauto.
  - (* the block has a vote-node *)
    apply (anc_wf_same _ _ (propagate_g_anc _ _ h b)). exact W.
Qed.

Lemma init_anc_wf : anc_wf (r_G rinit).
Proof.
  intros x e H. cbn in H. destruct x; [|discriminate]. injection H as <-. exists 0%nat. reflexivity.
Qed.

(* ---------------------------------------------------------------------------------------- *)
(* [reach_full]: the reachable states of GraphReach.reach extended by the introduceBranch step.
   The only semantic premise left on that step is the completeness of findContainingNodes
   (branch_complete); its soundness is derived. *)
Inductive reach_full : entries -> list block -> list bit -> (nat -> list vote) -> list (block * bit) -> Prop :=
| rf_init : reach_full (r_G rinit) (r_heads rinit) [] (fun _ => []) []
| rf_first_existing G heads eqv S ins ph x e G' heads' :
    reach_full G heads eqv S ins -> (ph < 2)%nat -> voted (S ph) (vvoter x) = false ->
    eget (vblock x) G = Some e ->
    insert t lbl G heads (vblock x) (2 * vvoter x + ph) = (G', heads') ->
    reach_full G' heads' eqv (upd S ph x) ((vblock x, 2 * vvoter x + ph)%nat :: ins)
| rf_first_append G heads eqv S ins ph x G' heads' :
    reach_full G heads eqv S ins -> (ph < 2)%nat -> voted (S ph) (vvoter x) = false ->
    eget (vblock x) G = None -> find_containing t lbl G heads (vblock x) = Some [] ->
    (forall y ey, eget y G = Some ey -> ~ anc t (vblock x) y) ->
    insert t lbl G heads (vblock x) (2 * vvoter x + ph) = (G', heads') ->
    reach_full G' heads' eqv (upd S ph x) ((vblock x, 2 * vvoter x + ph)%nat :: ins)
(* ... for a block inside the ancestor edge of the vote-nodes ds (introduceBranch) *)
| rf_first_branch G heads eqv S ins ph x ds G' heads' :
    reach_full G heads eqv S ins -> (ph < 2)%nat -> voted (S ph) (vvoter x) = false ->
    eget (vblock x) G = None -> find_containing t lbl G heads (vblock x) = Some ds -> ds <> [] ->
    branch_complete t G ds (vblock x) ->
    insert t lbl G heads (vblock x) (2 * vvoter x + ph) = (G', heads') ->
    reach_full G' heads' eqv (upd S ph x) ((vblock x, 2 * vvoter x + ph)%nat :: ins)
| rf_equivocation G heads eqv S ins ph x a :
    reach_full G heads eqv S ins -> (ph < 2)%nat ->
    first_vote (S ph) (vvoter x) = Some a -> same_vote a x = false ->
    reach_full G heads ((2 * vvoter x + ph)%nat :: eqv) (upd S ph x) ins
| rf_ignored G heads eqv S ins ph x :
    reach_full G heads eqv S ins -> (ph < 2)%nat ->
    (equivocates (S ph) (vvoter x) = true \/
     (equivocates (S ph) (vvoter x) = false /\
      exists a, first_vote (S ph) (vvoter x) = Some a /\ same_vote a x = true)) ->
    reach_full G heads eqv (upd S ph x) ins.

Lemma reach_sub G heads eqv S ins : reach t lbl G heads eqv S ins -> reach_full G heads eqv S ins.
Proof.
  induction 1; [apply rf_init|eapply rf_first_existing; eauto|eapply rf_first_append; eauto
               |eapply rf_equivocation; eauto|eapply rf_ignored; eauto].
Qed.

(* a voter's first vote of a phase: the graph part of [good] is what the Insert theorems give *)
Lemma good_first_step G eqv S ins ph x G' : good t G eqv S ins -> (ph < 2)%nat ->
  voted (S ph) (vvoter x) = false ->
  chain_inv t G' -> cum_ok t G' ((vblock x, 2 * vvoter x + ph)%nat :: ins) ->
  (forall p, In p ((vblock x, 2 * vvoter x + ph)%nat :: ins) -> exists e, eget (fst p) G' = Some e) ->
  (forall y ey, eget y G = Some ey -> exists e2, eget y G' = Some e2) ->
  good t G' eqv (upd S ph x) ((vblock x, 2 * vvoter x + ph)%nat :: ins).
Proof.
  intros [CI [CO [BASE [IN TR]]]] L NV CI' CO' IN' KEYS.
  split; [exact CI'|]. split; [exact CO'|]. split; [destruct BASE as [e0 E0]; eapply KEYS; eauto|].
  split; [exact IN'|].
  intros ph' L'. destruct (Nat.eq_dec ph' ph) as [->|N].
  - rewrite upd_same. apply first_vote_step; [exact NV|now apply TR].
  - rewrite (upd_other S ph x ph' N). apply other_phase_ins; auto.
Qed.

Lemma reach_full_good G heads eqv S ins : reach_full G heads eqv S ins ->
  good t G eqv S ins /\ anc_wf G.
Proof.
  induction 1 as [|G heads eqv S ins ph x e G' heads' R IH L NV EX INS
                   |G heads eqv S ins ph x G' heads' R IH L NV EN FC NB INS
                   |G heads eqv S ins ph x ds G' heads' R IH L NV EN FC NE CMP INS
                   |G heads eqv S ins ph x a R IH L FA NS
                   |G heads eqv S ins ph x R IH L H].
  - split; [|exact init_anc_wf].
    destruct (init_graph_inv t) as [A [B C]]. split; [exact A|]. split; [exact B|]. split; [exact C|].
    split; [intros p []|]. intros ph _. apply tracker_ok_init.
  - destruct IH as [GD W]. split.
    + pose proof GD as [CI [CO [BASE [IN TR]]]].
      pose proof (insert_existing_node t lbl G heads (vblock x) (2 * vvoter x + ph) ins e CI CO EX) as P.
      rewrite INS in P. destruct P as [_ [CI' [CO' [GA _]]]].
      assert (KEYS : forall y ey, eget y G = Some ey -> exists e2, eget y G' = Some e2).
      { intros y ey Y. specialize (GA y). rewrite Y in GA. destruct (eget y G'); [eauto|discriminate]. }
      apply (good_first_step G eqv S ins ph x G' GD L NV CI' CO'); [|exact KEYS].
      intros p [<-|I]; cbn [fst]; [eapply KEYS; eauto|]. destruct (IN p I) as [ep EP]. eapply KEYS; eauto.
    + pose proof (insert_anc_wf G heads (vblock x) (2 * vvoter x + ph) W) as W'. now rewrite INS in W'.
  - destruct IH as [GD W]. split.
    + pose proof GD as [CI [CO [BASE [IN TR]]]].
      pose proof (insert_append t lbl G heads (vblock x) (2 * vvoter x + ph) ins CI CO BASE EN FC NB IN) as P.
      rewrite INS in P. destruct P as [CI' [CO' [EH [IN' KEYS]]]].
      exact (good_first_step G eqv S ins ph x G' GD L NV CI' CO' IN' KEYS).
    + pose proof (insert_anc_wf G heads (vblock x) (2 * vvoter x + ph) W) as W'. now rewrite INS in W'.
  - destruct IH as [GD W]. split.
    + pose proof GD as [CI [CO [BASE [IN TR]]]].
      pose proof (insert_branch t lbl G heads (vblock x) (2 * vvoter x + ph) ins ds CI CO EN FC NE
                    (branch_sound_of_wf G heads _ ds W FC) CMP IN) as P.
      rewrite INS in P. destruct P as [_ [CI' [CO' [EH [IN' KEYS]]]]].
      exact (good_first_step G eqv S ins ph x G' GD L NV CI' CO' IN' KEYS).
    + pose proof (insert_anc_wf G heads (vblock x) (2 * vvoter x + ph) W) as W'. now rewrite INS in W'.
  - destruct IH as [[CI [CO [BASE [IN TR]]]] W]. split; [|exact W].
    split; [exact CI|]. split; [exact CO|]. split; [exact BASE|]. split; [exact IN|].
    intros ph' L'. destruct (Nat.eq_dec ph' ph) as [->|N].
    + rewrite upd_same. eapply equivocation_step; eauto.
    + rewrite (upd_other S ph x ph' N). apply other_phase_eqv; auto.
  - destruct IH as [[CI [CO [BASE [IN TR]]]] W]. split; [|exact W].
    split; [exact CI|]. split; [exact CO|]. split; [exact BASE|]. split; [exact IN|].
    intros ph' L'. destruct (Nat.eq_dec ph' ph) as [->|N].
    + rewrite upd_same. apply ignored_step; [exact H|now apply TR].
    + rewrite (upd_other S ph x ph' N). now apply TR.
Qed.

Theorem reach_full_invariants G heads eqv S ins : reach_full G heads eqv S ins ->
  chain_inv t G /\ cum_ok t G ins /\ (exists e0, eget 0%nat G = Some e0) /\
  (forall p, In p ins -> exists e, eget (fst p) G = Some e) /\
  (forall ph, (ph < 2)%nat -> tracker_ok t ph (S ph) eqv ins) /\
  anc_wf G.
Proof.
  intro R. destruct (reach_full_good G heads eqv S ins R) as [[A [B [C [D E]]]] W]. auto 10.
Qed.

Theorem reach_full_node_weights ws G heads eqv S ins : reach_full G heads eqv S ins ->
  forall y e ph, (ph < 2)%nat -> eget y G = Some e ->
  bits_weight ws (g_cum e) eqv ph = weight t ws (S ph) y.
Proof.
  intros R y e ph L E. destruct (reach_full_good G heads eqv S ins R) as [[_ [CO [_ [_ TR]]]] _].
  exact (node_weight_is_spec_weight t ws G ins ph (S ph) eqv y e CO (TR ph L) E).
Qed.

End Wf.

(* non-vacuity: chain 0 - 1 - 2; voter 0 prevotes block 2 (append), then voter 1 prevotes block 1,
   which lies inside the ancestor edge of vote-node 2 (introduceBranch with ds = [2]) *)
Example reach_full_example :
  let t := [0; 1]%nat in
  exists G heads eqv S ins, reach_full t (fun b => b) G heads eqv S ins /\
    S 0%nat = [mkVote 0 2 0; mkVote 1 1 0] /\ ins = [(1, 2); (2, 0)]%nat /\
    map fst G = [0; 2; 1]%nat /\
    eget 1%nat G = Some (mkE [0%nat] [2%nat] [2; 0]%nat) /\
    eget 2%nat G = Some (mkE [1%nat] [] [0%nat]).
Proof.
  intro t.
  pose (x0 := mkVote 0 2 0). pose (x1 := mkVote 1 1 0).
  destruct (insert t (fun b => b) (r_G rinit) (r_heads rinit) 2 0) as [G1 h1] eqn:I1.
  destruct (insert t (fun b => b) G1 h1 1 2) as [G2 h2] eqn:I2.
  assert (R1 : reach_full t (fun b => b) G1 h1 [] (upd (fun _ => []) 0 x0) [(2, 0)%nat]).
  { apply (rf_first_append t (fun b => b) (r_G rinit) (r_heads rinit) [] (fun _ => []) [] 0 x0 G1 h1);
      [apply rf_init|lia|reflexivity|reflexivity|reflexivity| |exact I1].
    intros y ey H A. cbn in H. destruct y; [|discriminate]. apply anc_0 in A. discriminate. }
  vm_compute in I1. injection I1 as <- <-.
  assert (R2 : reach_full t (fun b => b) G2 h2 [] (upd (upd (fun _ => []) 0 x0) 0 x1) [(1, 2); (2, 0)]%nat).
  { apply (rf_first_branch t (fun b => b) _ _ [] _ _ 0 x1 [2%nat] G2 h2 R1);
      [lia|reflexivity|reflexivity|reflexivity|discriminate| |exact I2].
    intros y e H A. destruct y as [|[|[|y]]]; try discriminate.
    - apply anc_0 in A. discriminate.
    - left. now left. }
  vm_compute in I2. injection I2 as <- <-.
  eexists _, _, _, _, _. split; [exact R2|]. repeat split; reflexivity.
Qed.
