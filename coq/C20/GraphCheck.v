(* C20/GraphCheck.v -- the Tier A mirror of Round / VoteGraph (Graph.v) against the specification,
   by complete enumeration of a small scope inside Coq (vm_compute over a finite domain whose bound
   is part of the statement, turned into a universally quantified theorem with forallb_forall).

   After EVERY import of EVERY history of the scope:
     - every vote-node of the graph carries exactly the specification's weight (both phases):
         Weight(cumulativeVote merged with the equivocations) = Votes.weight of the node's block;
     - the ancestor edge of every vote-node is the segment of the block's chain up to the next
       vote-node, no block strictly inside an edge is a vote-node, the descendants of a node are
       exactly the nodes whose edge ends in it;
     - the memoised round state is the specification's round state whenever both vote sets are
       tolerant (mirror refines round_state_of), and Model.round_state_go's finalized / estimate
       whenever the prevotes are tolerant. *)
From Coq Require Import List Arith Bool NArith.
From Grandpa Require Import Tree Votes RoundSpec.
From C20 Require Import Model Graph.
Import ListNotations.

Section Check.
Variable t : tree.
Variable lbl : block -> nat.
Variable ws : list N.

Definition node_weights_ok (s : rstate) : bool :=
  forallb (fun p => (bits_weight ws (g_cum (snd p)) (r_eqv s) 0 =? weight t ws (r_pv s) (fst p))%N &&
                    (bits_weight ws (g_cum (snd p)) (r_eqv s) 1 =? weight t ws (r_pc s) (fst p))%N) (r_G s).

Fixpoint list_eqb (a b : list nat) : bool :=
  match a, b with
  | [], [] => true
  | x :: r, y :: r' => (x =? y) && list_eqb r r'
  | _, _ => false
  end.

(* the edge of b: its proper ancestors up to and including the first one that is a vote-node *)
Fixpoint edge_to_node (G : entries) (l : list block) : list block :=
  match l with
  | [] => []
  | a :: r => match eget a G with Some _ => [a] | None => a :: edge_to_node G r end
  end.

Definition structure_ok (s : rstate) : bool :=
  forallb (fun p =>
    let b := fst p in let e := snd p in
    list_eqb (g_anc e) (edge_to_node (r_G s) (tl (chain t b))) &&
    forallb (fun d => match eget d (r_G s) with
                      | Some de => match ancestor_node de with Some a => a =? b | None => false end
                      | None => false end) (g_desc e) &&
    forallb (fun q => match ancestor_node (snd q) with
                      | Some a => negb (a =? b) || memb (fst q) (g_desc e)
                      | None => true end) (r_G s)) (r_G s).

Definition state_ok (s : rstate) : bool :=
  let V := r_pv s in let C := r_pc s in
  let o := observed s in
  (if tolerant ws V && tolerant ws C then rs_eqb o (round_state_of t ws V C) else true) &&
  (if tolerant ws V then
     let g := round_state_go t ws V C in
     opt_eqb (rs_ghost o) (rs_ghost g) && opt_eqb (rs_finalized o) (rs_finalized g) &&
     opt_eqb (rs_estimate o) (rs_estimate g)
   else true).

Definition all_ok (s : rstate) : bool := node_weights_ok s && structure_ok s && state_ok s.

(* run a history (phase, vote), checking after every import *)
Fixpoint run_ok (h : list (nat * vote)) (s : rstate) : bool :=
  match h with
  | [] => true
  | (ph, x) :: r => let s' := step_op t lbl ws ph x s in all_ok s' && run_ok r s'
  end.

End Check.

(* ---- the scope ---- *)
Definition ops_of (k nv : nat) : list (nat * vote) :=
  flat_map (fun ph => flat_map (fun v => map (fun b => (ph, mkVote v b 0)) (seq 0 k)) (seq 0 nv)) [0; 1].

Fixpoint seqs {A} (n : nat) (ops : list A) : list (list A) :=
  match n with
  | O => [[]]
  | S m => flat_map (fun o => map (cons o) (seqs m ops)) ops
  end.

(* all trees with k blocks: parent of block i+1 among 0..i *)
Fixpoint trees (k : nat) : list tree :=
  match k with
  | O => [[]]
  | S O => [[]]
  | S m => flat_map (fun tr => map (fun p => tr ++ [p]) (seq 0 m)) (trees m)
  end.

Definition lbl_id (b : block) : nat := b.
Definition lbl_rev (b : block) : nat := 100 - b.

Definition scope_ok (k len : nat) (ws : list N) : bool :=
  forallb (fun tr =>
    forallb (fun h => run_ok tr lbl_id ws h (rinit) && run_ok tr lbl_rev ws h (rinit))
            (seqs len (ops_of k (length ws))))
    (trees k).
