(* C20/GraphReach.v -- UNBOUNDED: in every state of the mirror reachable by imports whose graph
   insertions take the existing-node or the append path (never introduceBranch), every vote-node
   carries exactly the specification's weight in both phases.  [reach] describes those states:
   the vote graph, its heads, the equivocation bits, the imports of the two phases (S 0 prevotes,
   S 1 precommits, oldest first) and the inserted (block, bit) pairs. *)
From Coq Require Import List Arith Lia Bool NArith.
From Grandpa Require Import Tree Votes RoundSpec.
From C20 Require Import Model Graph GraphInv GraphInvAppend GraphTracker.
Import ListNotations.

Definition upd (S : nat -> list vote) (ph : nat) (x : vote) : nat -> list vote :=
  fun p => if (p =? ph)%nat then S p ++ [x] else S p.

Section Reach.
Variable t : tree.
Variable lbl : block -> nat.

Inductive reach : entries -> list block -> list bit -> (nat -> list vote) -> list (block * bit) -> Prop :=
| reach_init : reach (r_G rinit) (r_heads rinit) [] (fun _ => []) []
(* a voter's first vote of the phase, for a block that has a vote-node *)
| reach_first_existing G heads eqv S ins ph x e G' heads' :
    reach G heads eqv S ins -> (ph < 2)%nat -> voted (S ph) (vvoter x) = false ->
    eget (vblock x) G = Some e ->
    insert t lbl G heads (vblock x) (2 * vvoter x + ph) = (G', heads') ->
    reach G' heads' eqv (upd S ph x) ((vblock x, 2 * vvoter x + ph)%nat :: ins)
(* ... for a block without a vote-node, below which there is no vote-node (append) *)
| reach_first_append G heads eqv S ins ph x G' heads' :
    reach G heads eqv S ins -> (ph < 2)%nat -> voted (S ph) (vvoter x) = false ->
    eget (vblock x) G = None -> find_containing t lbl G heads (vblock x) = Some [] ->
    (forall y ey, eget y G = Some ey -> ~ anc t (vblock x) y) ->
    insert t lbl G heads (vblock x) (2 * vvoter x + ph) = (G', heads') ->
    reach G' heads' eqv (upd S ph x) ((vblock x, 2 * vvoter x + ph)%nat :: ins)
(* the voter's second, different vote *)
| reach_equivocation G heads eqv S ins ph x a :
    reach G heads eqv S ins -> (ph < 2)%nat ->
    first_vote (S ph) (vvoter x) = Some a -> same_vote a x = false ->
    reach G heads ((2 * vvoter x + ph)%nat :: eqv) (upd S ph x) ins
(* duplicates and further votes of an equivocator *)
| reach_ignored G heads eqv S ins ph x :
    reach G heads eqv S ins -> (ph < 2)%nat ->
    (equivocates (S ph) (vvoter x) = true \/
     (equivocates (S ph) (vvoter x) = false /\
      exists a, first_vote (S ph) (vvoter x) = Some a /\ same_vote a x = true)) ->
    reach G heads eqv (upd S ph x) ins.

Definition good (G : entries) (eqv : list bit) (S : nat -> list vote) (ins : list (block * bit)) : Prop :=
  chain_inv t G /\ cum_ok t G ins /\ (exists e0, eget 0%nat G = Some e0) /\
  (forall p, In p ins -> exists e, eget (fst p) G = Some e) /\
  (forall ph, (ph < 2)%nat -> tracker_ok t ph (S ph) eqv ins).

Lemma upd_same S ph x : upd S ph x ph = S ph ++ [x].
Proof. unfold upd. now rewrite Nat.eqb_refl. Qed.
Lemma upd_other S ph x p : p <> ph -> upd S ph x p = S p.
Proof. intro N. unfold upd. destruct (Nat.eqb_spec p ph); [congruence|reflexivity]. Qed.

Lemma reach_good G heads eqv S ins : reach G heads eqv S ins -> good G eqv S ins.
Proof.
  induction 1 as [|G heads eqv S ins ph x e G' heads' R IH L NV EX INS
                   |G heads eqv S ins ph x G' heads' R IH L NV EN FC NB INS
                   |G heads eqv S ins ph x a R IH L FA NS
                   |G heads eqv S ins ph x R IH L H].
  - destruct (init_graph_inv t) as [A [B C]]. split; [exact A|]. split; [exact B|]. split; [exact C|].
    split; [intros p []|]. intros ph _. apply tracker_ok_init.
  - destruct IH as [CI [CO [BASE [IN TR]]]].
    pose proof (insert_existing_node t lbl G heads (vblock x) (2 * vvoter x + ph) ins e CI CO EX) as P.
    rewrite INS in P. destruct P as [_ [CI' [CO' [GA _]]]].
    assert (KEYS : forall y ey, eget y G = Some ey -> exists e2, eget y G' = Some e2).
    { intros y ey Y. specialize (GA y). rewrite Y in GA. destruct (eget y G'); [eauto|discriminate]. }
    split; [exact CI'|]. split; [exact CO'|]. split; [destruct BASE as [e0 E0]; eapply KEYS; eauto|].
    split.
    + intros p [<-|I]; cbn [fst]; [eapply KEYS; eauto|]. destruct (IN p I) as [ep EP]. eapply KEYS; eauto.
    + intros ph' L'. destruct (Nat.eq_dec ph' ph) as [->|N].
      * rewrite upd_same. apply first_vote_step; [exact NV|now apply TR].
      * rewrite (upd_other S ph x ph' N). apply other_phase_ins; auto.
  - destruct IH as [CI [CO [BASE [IN TR]]]].
    pose proof (insert_append t lbl G heads (vblock x) (2 * vvoter x + ph) ins CI CO BASE EN FC NB IN) as P.
    rewrite INS in P. destruct P as [CI' [CO' [EH [IN' KEYS]]]].
    split; [exact CI'|]. split; [exact CO'|]. split; [destruct BASE as [e0 E0]; eapply KEYS; eauto|].
    split; [exact IN'|].
    intros ph' L'. destruct (Nat.eq_dec ph' ph) as [->|N].
    + rewrite upd_same. apply first_vote_step; [exact NV|now apply TR].
    + rewrite (upd_other S ph x ph' N). apply other_phase_ins; auto.
  - destruct IH as [CI [CO [BASE [IN TR]]]].
    split; [exact CI|]. split; [exact CO|]. split; [exact BASE|]. split; [exact IN|].
    intros ph' L'. destruct (Nat.eq_dec ph' ph) as [->|N].
    + rewrite upd_same. eapply equivocation_step; eauto.
    + rewrite (upd_other S ph x ph' N). apply other_phase_eqv; auto.
  - destruct IH as [CI [CO [BASE [IN TR]]]].
    split; [exact CI|]. split; [exact CO|]. split; [exact BASE|]. split; [exact IN|].
    intros ph' L'. destruct (Nat.eq_dec ph' ph) as [->|N].
    + rewrite upd_same. apply ignored_step; [exact H|now apply TR].
    + rewrite (upd_other S ph x ph' N). now apply TR.
Qed.

(* the weight every vote-node carries is the specification's weight of its block, in both phases *)
Theorem reach_node_weights ws G heads eqv S ins : reach G heads eqv S ins ->
  forall y e ph, (ph < 2)%nat -> eget y G = Some e ->
  bits_weight ws (g_cum e) eqv ph = weight t ws (S ph) y.
Proof.
  intros R y e ph L E. destruct (reach_good G heads eqv S ins R) as [_ [CO [_ [_ TR]]]].
  exact (node_weight_is_spec_weight t ws G ins ph (S ph) eqv y e CO (TR ph L) E).
Qed.

End Reach.

(* non-vacuity: chain 0 - 1 - 2; voter 0 prevotes block 2 (append), voter 1 prevotes block 2
   (existing node), voter 1 prevotes block 1 as well (equivocation) *)
Example reach_example :
  let t := [0; 1]%nat in
  exists G heads eqv S ins, reach t (fun b => b) G heads eqv S ins /\
    S 0%nat = [mkVote 0 2 0; mkVote 1 2 0; mkVote 1 1 0] /\ eqv = [2%nat] /\
    map fst G = [0; 2]%nat.
Proof.
  intro t.
  pose (x0 := mkVote 0 2 0). pose (x1 := mkVote 1 2 0). pose (x2 := mkVote 1 1 0).
  destruct (insert t (fun b => b) (r_G rinit) (r_heads rinit) 2 0) as [G1 h1] eqn:I1.
  destruct (insert t (fun b => b) G1 h1 2 2) as [G2 h2] eqn:I2.
  assert (R1 : reach t (fun b => b) G1 h1 [] (upd (fun _ => []) 0 x0) [(2, 0)%nat]).
  { apply (reach_first_append t (fun b => b) (r_G rinit) (r_heads rinit) [] (fun _ => []) [] 0 x0 G1 h1);
      [apply reach_init|lia|reflexivity|reflexivity|reflexivity| |exact I1].
    intros y ey H A. cbn in H. destruct y; [|discriminate]. apply anc_0 in A. discriminate. }
  vm_compute in I1. injection I1 as <- <-.
  assert (R2 : reach t (fun b => b) G2 h2 [] (upd (upd (fun _ => []) 0 x0) 0 x1) [(2, 2); (2, 0)]%nat).
  { eapply (reach_first_existing t (fun b => b) _ _ [] _ _ 0 x1); [exact R1|lia|reflexivity|reflexivity|exact I2]. }
  vm_compute in I2. injection I2 as <- <-.
  eexists _, _, _, _, _. split.
  - eapply (reach_equivocation t (fun b => b) _ _ _ _ _ 0 x2 x1); [exact R2|lia|reflexivity|reflexivity].
  - split; [reflexivity|]. split; reflexivity.
Qed.
