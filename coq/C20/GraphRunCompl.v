(* C20/GraphRunCompl.v -- UNBOUNDED: the completable field of the mirror (Graph.update / run).

   Round.update computes completable from the estimate e and the prevote ghost g: e <> g, or
   FindGHOST over the precommit graph with the wrapping "possible to precommit" condition
   (Graph.possible_bits), restarted from e = g, answers g again (or nothing).

   find_ghost_compl   for ANY condition [cond] on bit lists that (EXT) agrees with a block predicate P
                      on the exact cumulative bits of a block, (MONO) is monotone in the bit list
                      towards bit lists inserted at or below some block, (NIL) fails on the empty list,
                      with P closed under ancestors (PA): on a graph with the invariants of a
                      reachable state, FindGHOST restarted from a block g with P g (g a vote-node or
                      inside an ancestor edge -- the [force] constraint) answers g exactly when no
                      child of g in the tree satisfies P.  (merge_loop_compl: the merge loop walks the
                      edge to g, then stops at g iff no child passes; the descent leaves g iff a
                      vote-node below passes.)
   reach_all_find_ghost_compl   the instance cond = possible_bits, P = RoundSpec.possible, once the
                      precommits seen reach the threshold (inside the domain the wrapping arithmetic
                      does not wrap on bit lists under a block: possible_bits_real).
   update_compl       ONE Round.update gives r_compl = RoundSpec.completable.
   run_compl / run_compl_prefix   after every prefix of every good history (same hypotheses as
                      run_fin_est_prefix), by the same induction, incl. recorded-only imports. *)
From Coq Require Import List Arith Lia Bool NArith.
From Grandpa Require Import Tree Votes RoundSpec RoundProofs.
From C20 Require Import Model Proofs ProofsPossible Graph GraphInv GraphInvAppend GraphProofs GraphTracker GraphReach
  GraphInvBranch GraphComplete GraphGhost GraphImport GraphRunGhost GraphRunState GraphRunFinEst.
Import ListNotations.

Lemma exact_list t b : forall ins, exists bits, forall bt, memb bt bits = ins_bit t ins bt b.
Proof.
  induction ins as [|p r [bits E]]; [exists []; reflexivity|].
  exists (if ancb t b (fst p) then snd p :: bits else bits). intro bt. unfold ins_bit in *. cbn [existsb].
  destruct (ancb t b _).
  - unfold memb in *. cbn [existsb]. rewrite andb_true_r, (Nat.eqb_sym bt). f_equal. apply E.
  - rewrite andb_false_r. cbn [orb]. apply E.
Qed.

Lemma depth_root t : depth t 0 = 0%nat.
Proof. unfold depth. now rewrite chain_0. Qed.

Section Gen.
Variable t : tree.
Variable lbl : block -> nat.
Variable ws : list N.
Variable G : entries.
Variable ins : list (block * bit).
Variable Sv : list vote.
Hypothesis CO : cum_ok t G ins.
Hypothesis W : anc_wf t G.
Hypothesis CI : chain_inv t G.
Hypothesis IN : forall p, In p ins -> exists e, eget (fst p) G = Some e.
Hypothesis INT : forall p, In p ins -> in_tree t (fst p).
Hypothesis DC : desc_complete G.
Hypothesis DS : desc_sound G.
Hypothesis TP : (0 < total ws)%N.
Hypothesis TOL : tolerant ws Sv = true.
Variable cond : list bit -> bool.
Variable P : block -> bool.
Hypothesis EXT : forall b bits, (forall bt, memb bt bits = ins_bit t ins bt b) -> cond bits = P b.
Hypothesis MONO : forall b v v', under t ins b v' -> (forall bt, memb bt v = true -> memb bt v' = true) ->
  cond v = true -> cond v' = true.
Hypothesis NIL : cond [] = false.
Hypothesis PA : forall a b, anc t a b -> P b = true -> P a = true.

Lemma under_cond b v : under t ins b v -> cond v = true -> P b = true.
Proof.
  intros U C. destruct (exact_list t b ins) as [bits EX]. rewrite <- (EXT b bits EX).
  apply (MONO b v bits); [|intros bt M; rewrite EX; now apply U|exact C].
  intros bt M. now rewrite <- EX.
Qed.

Lemma node_cond y e : eget y G = Some e -> cond (g_cum e) = P y.
Proof. intro E. apply EXT. intro bt. exact (CO y e E bt). Qed.

Definition blocks_under (bl : list (block * list bit)) : Prop := forall db v, In (db, v) bl -> under t ins db v.

Lemma acc_under bl db : blocks_under bl -> under t ins db (acc bl db).
Proof.
  intros BL. unfold acc. destruct (find (fun p => (fst p =? db)%nat) bl) as [[k v]|] eqn:F.
  - apply find_some in F. destruct F as [I K]. cbn [fst] in K. apply Nat.eqb_eq in K. subst k. exact (BL db v I).
  - intros bt M. discriminate.
Qed.

Lemma merge_round_sound_g num : forall ds bl nb, ds_ok G ds -> blocks_under bl ->
  merge_round t cond num ds bl = Some nb -> exists v, under t ins nb v /\ cond v = true.
Proof.
  induction ds as [|[d e] r IH]; intros bl nb DSO BL H; [discriminate|]. cbn [merge_round] in H.
  assert (DSr : ds_ok G r) by (intros d' e' I; apply DSO; now right).
  assert (ED : eget d G = Some e) by (apply DSO; now left).
  destruct (ancestor_block t d e num) as [db|] eqn:AB; [|exact (IH bl nb DSr BL H)].
  pose proof (ancestor_block_anc t G W d e num db ED AB) as A.
  assert (UD : under t ins db (g_cum e)) by (apply (under_anc t ins db d); [exact A|exact (under_node t G ins CO d e ED)]).
  destruct (find (fun p => (fst p =? db)%nat) bl) as [[k v]|] eqn:F.
  - apply find_some in F. destruct F as [I K]. cbn [fst] in K. apply Nat.eqb_eq in K. subst k.
    assert (UV : under t ins db (v ++ g_cum e)) by (apply under_app; [exact (BL db v I)|exact UD]).
    destruct (cond (v ++ g_cum e)) eqn:C.
    + injection H as <-. exists (v ++ g_cum e). split; assumption.
    + apply (IH _ nb DSr) in H; [exact H|]. intros x w I'. apply in_map_iff in I'.
      destruct I' as [[k0 v0] [E0 I0]]. cbn [fst] in E0. destruct (k0 =? db)%nat.
      * injection E0 as <- <-. exact UV.
      * injection E0 as <- <-. exact (BL k0 v0 I0).
  - apply (IH _ nb DSr) in H; [exact H|]. intros x w I'. apply in_app_or in I'.
    destruct I' as [I'|[E0|[]]]; [exact (BL x w I')|]. injection E0 as <- <-. exact UD.
Qed.

Lemma merge_round_none_u num : forall ds bl, ds_ok G ds -> blocks_under bl ->
  (forall d de, In (d, de) ds -> cond (g_cum de) = false) ->
  (forall db, cond (acc bl db) = false) ->
  merge_round t cond num ds bl = None ->
  forall db, exists v, cond v = false /\ under t ins db v /\
    (forall bt, memb bt (acc bl db) = true -> memb bt v = true) /\
    (forall d de, In (d, de) ds -> ancestor_block t d de num = Some db ->
       forall bt, memb bt (g_cum de) = true -> memb bt v = true).
Proof.
  induction ds as [|[d e] r IH]; intros bl DSO BL DSF BLF H db.
  - exists (acc bl db). split; [apply BLF|]. split; [now apply acc_under|]. split; [auto|]. intros d de [].
  - cbn [merge_round] in H.
    assert (DSr : forall d' de, In (d', de) r -> cond (g_cum de) = false) by (intros d' de I; apply (DSF d'); now right).
    assert (DSOr : ds_ok G r) by (intros d' e' I; apply DSO; now right).
    assert (ED : eget d G = Some e) by (apply DSO; now left).
    destruct (ancestor_block t d e num) as [db0|] eqn:AB.
    + assert (UD : under t ins db0 (g_cum e)).
      { apply (under_anc t ins db0 d); [exact (ancestor_block_anc t G W d e num db0 ED AB)|exact (under_node t G ins CO d e ED)]. }
      destruct (find (fun p => (fst p =? db0)%nat) bl) as [[k v]|] eqn:F.
      * destruct (cond (v ++ g_cum e)) eqn:C; [discriminate|].
        set (bl' := map (fun p => if (fst p =? db0)%nat then (db0, v ++ g_cum e) else p) bl) in H.
        assert (ACC : forall x, acc bl' x = if (x =? db0)%nat then v ++ g_cum e else acc bl x).
        { intro x. unfold acc, bl'. rewrite find_upd, F. now destruct (x =? db0)%nat. }
        assert (AV : acc bl db0 = v) by (unfold acc; now rewrite F).
        assert (BLF' : forall x, cond (acc bl' x) = false).
        { intro x. rewrite ACC. destruct (x =? db0)%nat; [exact C|apply BLF]. }
        assert (BL' : blocks_under bl').
        { pose proof (find_some _ _ F) as [I K]. cbn [fst] in K. apply Nat.eqb_eq in K. subst k.
          intros x w I'. apply in_map_iff in I'.
          destruct I' as [[k0 v0] [E0 I0]]. cbn [fst] in E0. destruct (k0 =? db0)%nat.
          - injection E0 as <- <-. apply under_app; [exact (BL db0 v I)|exact UD].
          - injection E0 as <- <-. exact (BL k0 v0 I0). }
        destruct (IH bl' DSOr BL' DSr BLF' H db) as [v1 [C1 [U1 [A1 D1]]]]. exists v1. split; [exact C1|]. split; [exact U1|]. split.
        -- intros bt M. apply A1. rewrite ACC. destruct (Nat.eqb_spec db db0) as [->|N]; [|exact M].
           rewrite AV in M. rewrite memb_app, M. reflexivity.
        -- intros d' de [E|I] AB' bt M; [|exact (D1 d' de I AB' bt M)].
           injection E as <- <-. rewrite AB in AB'. injection AB' as <-. apply A1. rewrite ACC, Nat.eqb_refl.
           rewrite memb_app, M. apply orb_true_r.
      * set (bl' := bl ++ [(db0, g_cum e)]) in H.
        assert (A0 : acc bl db0 = []) by (unfold acc; now rewrite F).
        assert (ACC : forall x, acc bl' x = if (x =? db0)%nat then g_cum e else acc bl x).
        { intro x. unfold acc, bl'. rewrite find_app. cbn [find fst].
          destruct (Nat.eqb_spec x db0) as [->|N].
          - rewrite F, Nat.eqb_refl. reflexivity.
          - destruct (find (fun p => (fst p =? x)%nat) bl) as [[? ?]|]; [reflexivity|].
            destruct (Nat.eqb_spec db0 x); [congruence|reflexivity]. }
        assert (BLF' : forall x, cond (acc bl' x) = false).
        { intro x. rewrite ACC. destruct (x =? db0)%nat; [apply (DSF d); now left|apply BLF]. }
        assert (BL' : blocks_under bl').
        { intros x w I'. apply in_app_or in I'.
          destruct I' as [I'|[E0|[]]]; [exact (BL x w I')|]. injection E0 as <- <-. exact UD. }
        destruct (IH bl' DSOr BL' DSr BLF' H db) as [v1 [C1 [U1 [A1 D1]]]]. exists v1. split; [exact C1|]. split; [exact U1|]. split.
        -- intros bt M. apply A1. rewrite ACC. destruct (Nat.eqb_spec db db0) as [->|N]; [|exact M].
           rewrite A0 in M. discriminate.
        -- intros d' de [E|I] AB' bt M; [|exact (D1 d' de I AB' bt M)].
           injection E as <- <-. rewrite AB in AB'. injection AB' as <-. apply A1. now rewrite ACC, Nat.eqb_refl.
    + destruct (IH bl DSOr BL DSr BLF H db) as [v1 [C1 [U1 [A1 D1]]]]. exists v1. split; [exact C1|]. split; [exact U1|]. split; [exact A1|].
      intros d' de [E|I] AB' bt M; [|exact (D1 d' de I AB' bt M)].
      injection E as <- <-. congruence.
Qed.

Lemma no_blocks : blocks_under [].
Proof. intros x w []. Qed.

Lemma filter_ds_ok (f : block * entry -> bool) ds : ds_ok G ds -> ds_ok G (filter f ds).
Proof. intros DSO d e I. apply filter_In in I. apply DSO. exact (proj1 I). Qed.

Lemma merge_loop_number : forall fuel num ds best, ds_ok G ds -> number t best = num ->
  (num <= number t (merge_loop t fuel cond num ds best))%nat.
Proof.
  induction fuel as [|f IH]; intros num ds best DSO NB; cbn [merge_loop]; [lia|].
  destruct (merge_round t cond (S num) ds []) as [nb|] eqn:MR; [|lia].
  destruct (merge_round_some_in t cond (S num) ds [] nb MR) as [d [de [I AB]]].
  pose proof (ancestor_block_number t lbl ws G Sv W TP TOL d de (S num) nb (DSO d de I) AB) as NN.
  match goal with |- context [merge_loop t f cond (S num) ?l nb] =>
    pose proof (IH (S num) l nb (filter_ds_ok _ ds DSO) NN) end. lia.
Qed.

Lemma constrained_in force l d de :
  In (d, de) (flat_map (fun d => match constrained t G force d with Some x => [x] | None => [] end) l) -> In d l.
Proof.
  intro I. apply in_flat_map in I. destruct I as [x [IX I]]. unfold constrained in I.
  destruct (eget x G) as [ex|]; [|destruct I]. destruct force as [c|].
  - destruct (in_direct_ancestry t x ex c (number t c)) as [[|]|]; cbn [In] in I; try contradiction.
    destruct I as [I|[]]. injection I as -> _. exact IX.
  - destruct I as [I|[]]. injection I as -> _. exact IX.
Qed.

Lemma descend_number : forall fuel k e f k' e' f', eget k G = Some e ->
  descend t fuel G cond k e f = (k', e', f') -> eget k' G = Some e' /\ (number t k <= number t k')%nat.
Proof.
  induction fuel as [|fu IH]; intros k e f k' e' f' E H; cbn [descend] in H.
  - injection H as <- <- <-. split; [exact E|lia].
  - destruct (find _ _) as [[d de]|] eqn:F.
    + pose proof (find_some _ _ F) as [I _].
      pose proof (constrained_ds_ok t G f (g_desc e) d de I) as ED.
      pose proof (constrained_in f _ d de I) as ID.
      pose proof (DS k e d de E ID ED) as AN.
      pose proof (CI d de ED) as CH. rewrite AN in CH. destruct CH as [_ [A _]].
      destruct (IH d de None k' e' f' ED H) as [E' L]. split; [exact E'|].
      apply anc_depth_le in A. unfold number in *. lia.
    + injection H as <- <- <-. split; [exact E|lia].
Qed.

(* ---- the restart from g: a = g when g has a vote-node, else the vote-node above g ---- *)
Section Target.
Variable a : block.
Variable ea : entry.
Variable g : block.
Hypothesis EA : eget a G = Some ea.
Hypothesis AG : anc t a g.
Hypothesis PG : P g = true.
Hypothesis NB : forall y ey, eget y G = Some ey -> anc t y g -> anc t y a.

Lemma child_not_above d de : eget d G = Some de -> ancestor_node de = Some a -> ~ anc t d g.
Proof.
  intros ED AN X. pose proof (NB d de ED X) as DA.
  pose proof (CI d de ED) as CH. rewrite AN in CH. destruct CH as [_ [A [N _]]].
  apply N. now apply (anc_antisym t).
Qed.

Lemma child_below z : In z ins -> anc t g (fst z) -> a <> fst z ->
  exists d de, eget d G = Some de /\ ancestor_node de = Some a /\ anc t d (fst z) /\ anc t g d /\ g <> d.
Proof.
  intros IZ GZ NA. destruct (IN z IZ) as [ez EZ].
  destruct (nearest_child t lbl ws G Sv CI TP TOL a (ex_intro _ ea EA) (fst z) ez EZ (anc_trans t a g (fst z) AG GZ) NA)
    as [d [de [ED [AN DZ]]]].
  exists d, de. split; [exact ED|]. split; [exact AN|]. split; [exact DZ|]. split.
  - destruct (anc_linear t g d (fst z) GZ DZ) as [X|X]; [exact X|]. exfalso. exact (child_not_above d de ED AN X).
  - intro E. subst d. exact (child_not_above g de ED AN (anc_refl t g)).
Qed.

Lemma cum_has z bt d de : In z ins -> (snd z =? bt)%nat = true -> eget d G = Some de -> anc t d (fst z) ->
  memb bt (g_cum de) = true.
Proof.
  intros IZ HB ED DZ. rewrite (CO d de ED). unfold ins_bit. apply existsb_exists. exists z. split; [exact IZ|].
  apply andb_true_iff. split; [exact HB|now apply ancb_spec].
Qed.

Lemma merge_loop_compl : forall fuel num ds best,
  (size t < fuel + num)%nat -> number t best = num -> anc t a best -> anc t best g ->
  ds_ok G ds -> (forall d de, In (d, de) ds -> cond (g_cum de) = false) ->
  (forall d de, In (d, de) ds -> ancestor_node de = Some a /\ anc t g d /\ g <> d) ->
  (forall d de, eget d G = Some de -> ancestor_node de = Some a -> anc t g d -> g <> d -> In (d, de) ds) ->
  (merge_loop t fuel cond num ds best =? g)%nat = negb (existsb P (children t g)).
Proof.
  induction fuel as [|f IH]; intros num ds best FU NBE KB BG DSO FALSE SND CMP.
  - exfalso. pose proof (depth_le_size t best). unfold number in NBE. lia.
  - cbn [merge_loop]. destruct (Nat.eq_dec best g) as [->|NE].
    + destruct (merge_round t cond (S num) ds []) as [nb|] eqn:MR.
      * destruct (merge_round_sound_g (S num) ds [] nb DSO no_blocks MR) as [v [UV CV]].
        pose proof (under_cond nb v UV CV) as PN.
        destruct (merge_round_some_in t cond (S num) ds [] nb MR) as [d [de [I AB]]].
        pose proof (ancestor_block_number t lbl ws G Sv W TP TOL d de (S num) nb (DSO d de I) AB) as NN.
        pose proof (ancestor_block_anc t G W d de (S num) nb (DSO d de I) AB) as ND.
        destruct (SND d de I) as [AN [GD NGD]].
        assert (GN : anc t g nb).
        { destruct (anc_linear t g nb d GD ND) as [X|X]; [exact X|]. apply anc_depth_le in X. unfold number in *. lia. }
        assert (NG : g <> nb) by (intro E; subst nb; unfold number in *; lia).
        match goal with |- context [merge_loop t f cond (S num) ?l nb] =>
          pose proof (merge_loop_number f (S num) l nb (filter_ds_ok _ ds DSO) NN) as RES;
          set (res := merge_loop t f cond (S num) l nb) in * end.
        assert (RF : (res =? g)%nat = false).
        { apply Nat.eqb_neq. intro E. rewrite E in RES. unfold number in *. lia. }
        rewrite RF. symmetry. apply negb_false_iff. apply existsb_exists. exists nb. split; [|exact PN].
        apply in_children.
        assert (NZ : nb <> 0%nat).
        { intro E. subst nb. unfold number in NN. rewrite depth_root in NN. lia. }
        split; [|split; [exact NZ|]].
        -- destruct v as [|bt v']; [rewrite NIL in CV; discriminate|].
           assert (M : memb bt (bt :: v') = true) by (unfold memb; cbn [existsb]; now rewrite Nat.eqb_refl).
           specialize (UV bt M). unfold ins_bit in UV. apply existsb_exists in UV. destruct UV as [p [IP HP]].
           apply andb_true_iff in HP. destruct HP as [_ HA]. apply ancb_spec in HA.
           exact (anc_in_tree t nb (fst p) HA (INT p IP)).
        -- pose proof (anc_parent_of t g nb GN NG) as X. pose proof (depth_nz t nb NZ) as DN.
           symmetry. apply (anc_depth_eq t g (parent t nb) X). unfold number in *. lia.
      * rewrite Nat.eqb_refl. symmetry. apply negb_true_iff.
        destruct (existsb P (children t g)) eqn:X; [exfalso|reflexivity].
        apply existsb_exists in X. destruct X as [c [IC PC]]. apply in_children in IC. destruct IC as [_ [CNZ PCG]].
        assert (GC : anc t g c) by (rewrite <- PCG; apply anc_parent).
        assert (DCg : depth t c = S (depth t g)) by (rewrite <- PCG; apply depth_nz; exact CNZ).
        destruct (merge_round_none_u (S num) ds [] DSO no_blocks FALSE (fun _ => NIL) MR c) as [v [CV [UV [_ COV]]]].
        assert (CT : cond v = true); [|congruence].
        destruct (exact_list t c ins) as [bits EX]. apply (MONO c bits v UV); [|rewrite (EXT c bits EX); exact PC].
        intros bt M. rewrite EX in M. unfold ins_bit in M. apply existsb_exists in M. destruct M as [p [IP HP]].
        apply andb_true_iff in HP. destruct HP as [HB HA]. apply ancb_spec in HA.
        assert (GP : anc t g (fst p)) by (eapply anc_trans; eauto).
        assert (NAP : a <> fst p).
        { intro E. rewrite <- E in HA. pose proof (anc_depth_le t c g (anc_trans t c a g HA AG)). lia. }
        destruct (child_below p IP GP NAP) as [d [de [ED [AN [DP [GD NGD]]]]]].
        pose proof (cum_has p bt d de IP HB ED DP) as MB.
        assert (LT : (depth t g < depth t d)%nat).
        { pose proof (anc_depth_le t g d GD). destruct (Nat.eq_dec (depth t g) (depth t d)) as [E|]; [|lia].
          exfalso. apply NGD. exact (anc_depth_eq t g d GD E). }
        assert (CD : anc t c d).
        { destruct (anc_linear t c d (fst p) HA DP) as [Y|Y]; [exact Y|].
          assert (d = c) by (apply (anc_depth_eq t d c Y); pose proof (anc_depth_le t d c Y); lia).
          subst d. apply anc_refl. }
        destruct (Nat.eq_dec c d) as [->|NCD].
        -- exfalso. rewrite <- (node_cond d de ED) in PC. rewrite (FALSE d de (CMP d de ED AN GD NGD)) in PC. discriminate.
        -- apply (COV d de (CMP d de ED AN GD NGD)); [|exact MB].
           assert (NC : number t c = S num) by (unfold number in *; lia). rewrite <- NC.
           apply (ancestor_block_complete t lbl ws G Sv W TP TOL a d de c ED AN); [exact (anc_trans t a g c AG GC)| |exact CD|exact NCD].
           intro E. subst c. pose proof (anc_depth_le t a g AG). lia.
    + destruct (child_on_path t best g BG NE) as [c' [BC [C'G DC']]].
      assert (NC : number t c' = S num) by (unfold number in *; lia).
      assert (AC' : anc t a c') by (eapply anc_trans; eauto).
      assert (NAC' : a <> c') by (intro E; subst c'; pose proof (anc_depth_le t a best KB); unfold number in *; lia).
      assert (NAG : a <> g). { intro E. subst g. apply NE. now apply (anc_antisym t). }
      assert (AB' : forall d de, In (d, de) ds -> ancestor_block t d de (S num) = Some c').
      { intros d de I. destruct (SND d de I) as [AN [GD NGD]]. rewrite <- NC.
        apply (ancestor_block_complete t lbl ws G Sv W TP TOL a d de c' (DSO d de I) AN AC' NAC'); [eapply anc_trans; eauto|].
        intro E. subst d. apply NGD. now apply (anc_antisym t). }
      destruct (merge_round t cond (S num) ds []) as [nb|] eqn:MR.
      * destruct (merge_round_some_in t cond (S num) ds [] nb MR) as [d [de [I AB]]].
        rewrite (AB' d de I) in AB. injection AB as <-.
        apply IH; [lia|exact NC|exact AC'|exact C'G|now apply filter_ds_ok| | |].
        -- intros d' de' I'. apply filter_In in I'. apply (FALSE d' de'). exact (proj1 I').
        -- intros d' de' I'. apply filter_In in I'. apply (SND d' de'). exact (proj1 I').
        -- intros d' de' ED AN GD NGD. apply filter_In. split; [now apply CMP|]. cbn [fst snd].
           unfold in_direct_ancestry. rewrite (AB' d' de' (CMP d' de' ED AN GD NGD)). now rewrite Nat.eqb_refl.
      * exfalso.
        destruct (merge_round_none_u (S num) ds [] DSO no_blocks FALSE (fun _ => NIL) MR c') as [v [CV [UV [_ COV]]]].
        assert (CT : cond v = true); [|congruence].
        destruct (exact_list t g ins) as [bits EX]. apply (MONO c' bits v UV); [|rewrite (EXT g bits EX); exact PG].
        intros bt M. rewrite EX in M. unfold ins_bit in M. apply existsb_exists in M. destruct M as [p [IP HP]].
        apply andb_true_iff in HP. destruct HP as [HB HA]. apply ancb_spec in HA.
        assert (NAP : a <> fst p).
        { intro E. rewrite <- E in HA. apply NAG. now apply (anc_antisym t). }
        destruct (child_below p IP HA NAP) as [d [de [ED [AN [DP [GD NGD]]]]]].
        pose proof (cum_has p bt d de IP HB ED DP) as MB.
        exact (COV d de (CMP d de ED AN GD NGD) (AB' d de (CMP d de ED AN GD NGD)) bt MB).
Qed.

End Target.

Lemma constrained_ida c l d de :
  In (d, de) (flat_map (fun d => match constrained t G (Some c) d with Some x => [x] | None => [] end) l) ->
  in_direct_ancestry t d de c (number t c) = Some true.
Proof.
  intro I. apply in_flat_map in I. destruct I as [x [IX I]]. unfold constrained in I.
  destruct (eget x G) as [ex|] eqn:EX; [|destruct I].
  destruct (in_direct_ancestry t x ex c (number t c)) as [[|]|] eqn:IDA; cbn [In] in I; try contradiction.
  destruct I as [I|[]]. injection I as <- <-. exact IDA.
Qed.

Lemma ida_below d de c : eget d G = Some de -> in_direct_ancestry t d de c (number t c) = Some true ->
  anc t c d /\ (depth t c < depth t d)%nat.
Proof.
  intros ED H. unfold in_direct_ancestry in H.
  destruct (ancestor_block t d de (number t c)) as [x|] eqn:AB; [|discriminate].
  injection H as H. apply Nat.eqb_eq in H. subst x. split; [exact (ancestor_block_anc t G W d de _ c ED AB)|].
  unfold ancestor_block in AB. destruct (Nat.leb_spec (number t d) (number t c)) as [L|L]; [discriminate|]. exact L.
Qed.

(* a vote-node strictly below g that meets the condition: a child of g is possible *)
Lemma found_child g d de : eget d G = Some de -> cond (g_cum de) = true -> anc t g d -> (depth t g < depth t d)%nat ->
  existsb P (children t g) = true.
Proof.
  intros ED CD GD LT.
  assert (NGD : g <> d) by (intro E; subst d; lia).
  destruct (child_on_path t g d GD NGD) as [c [GC [CDD DCc]]].
  apply existsb_exists. exists c. split.
  - apply in_children.
    assert (NZ : c <> 0%nat) by (intro E; subst c; rewrite depth_root in DCc; lia).
    split; [|split; [exact NZ|]].
    + pose proof (under_node t G ins CO d de ED) as UV.
      destruct (g_cum de) as [|bt v']; [rewrite NIL in CD; discriminate|].
      assert (M : memb bt (bt :: v') = true) by (unfold memb; cbn [existsb]; now rewrite Nat.eqb_refl).
      specialize (UV bt M). unfold ins_bit in UV. apply existsb_exists in UV. destruct UV as [p [IP HP]].
      apply andb_true_iff in HP. destruct HP as [_ HA]. apply ancb_spec in HA.
      exact (anc_in_tree t c (fst p) (anc_trans t c d (fst p) CDD HA) (INT p IP)).
    + assert (NGC : g <> c) by (intro E; subst c; lia).
      pose proof (anc_parent_of t g c GC NGC) as X. pose proof (depth_nz t c NZ) as DN.
      symmetry. apply (anc_depth_eq t g (parent t c) X). lia.
  - apply (PA c d CDD). rewrite <- (node_cond d de ED). exact CD.
Qed.

Lemma merge_point_number k e f : eget k G = Some e -> (number t k <= number t (merge_point t G k e f cond))%nat.
Proof. intro E. unfold merge_point. apply merge_loop_number; [apply constrained_ds_ok|reflexivity]. Qed.

Definition compl_of (r : option block) (g : block) : bool :=
  match r with None => true | Some x => (x =? g)%nat end.

Hypothesis BASE : exists e0, eget 0%nat G = Some e0.
Variable heads : list block.
Hypothesis HC : heads_cover t G heads.

(* FindGHOST restarted from g (a block that meets the condition and has a vote-node at or below it):
   it answers g exactly when no child of g meets the condition *)
Theorem find_ghost_compl g : P g = true -> (exists z ez, eget z G = Some ez /\ anc t g z) ->
  compl_of (find_ghost t lbl G heads (Some g) cond) g = negb (existsb P (children t g)).
Proof.
  intros PG [z [ez [EZ GZ]]]. unfold find_ghost.
  destruct (find_containing t lbl G heads g) as [cs|] eqn:FC.
  - assert (EG : eget g G = None).
    { unfold find_containing in FC. destruct (eget g G); [discriminate|reflexivity]. }
    destruct cs as [|d l].
    { exfalso. exact (complete_empty t lbl G g CI W BASE EG heads HC FC z ez EZ GZ). }
    destruct (branch_sound_of_wf t lbl G heads g (d :: l) W FC d (or_introl eq_refl)) as [de [ED [_ [GD AP]]]].
    rewrite ED. pose proof (CI d de ED) as CH.
    destruct (ancestor_node de) as [a|] eqn:AN.
    + pose proof (AP a eq_refl) as AG. destruct CH as [[ea EA] [AD [NAD M]]]. rewrite EA.
      assert (NAG : a <> g) by (intro E; subst g; congruence).
      assert (NGD0 : g <> d) by (intro E; subst g; congruence).
      assert (CA : cond (g_cum ea) = true) by (rewrite (node_cond a ea EA); exact (PA a g AG PG)).
      rewrite CA. cbn [negb]. cbn [descend].
      set (ds := flat_map (fun d => match constrained t G (Some g) d with Some x => [x] | None => [] end) (g_desc ea)).
      destruct (find (fun p => cond (g_cum (snd p))) ds) as [[d' de']|] eqn:F.
      * pose proof (find_some _ _ F) as [I CD]. cbn [snd] in CD.
        pose proof (constrained_ds_ok t G (Some g) (g_desc ea) d' de' I) as ED'.
        destruct (ida_below d' de' g ED' (constrained_ida g _ d' de' I)) as [GD' LT].
        rewrite (found_child g d' de' ED' CD GD' LT). cbn [negb].
        destruct (descend t (length G) G cond d' de' None) as [[k e] f] eqn:D.
        destruct (descend_number _ _ _ _ _ _ _ ED' D) as [EK L].
        pose proof (merge_point_number k e f EK) as L2. unfold compl_of.
        apply Nat.eqb_neq. intro E. rewrite E in L2. unfold number in *. lia.
      * unfold compl_of, merge_point. fold ds.
        apply (merge_loop_compl a ea g EA AG PG).
        -- intros y ey EY YG. apply (M y ey EY); [exact (anc_trans t y g d YG GD)|].
           intro E. subst y. apply NGD0. now apply (anc_antisym t).
        -- lia.
        -- reflexivity.
        -- apply anc_refl.
        -- exact AG.
        -- apply constrained_ds_ok.
        -- intros d' de' I. exact (find_none _ _ F (d', de') I).
        -- intros d' de' I. pose proof (constrained_ds_ok t G (Some g) (g_desc ea) d' de' I) as ED'.
           destruct (ida_below d' de' g ED' (constrained_ida g _ d' de' I)) as [GD' LT].
           split; [exact (DS a ea d' de' EA (constrained_in (Some g) _ d' de' I) ED')|]. split; [exact GD'|].
           intro E. subst d'. lia.
        -- intros d' de' ED' AN' GD' NGD'. unfold ds. apply in_flat_map. exists d'.
           split; [exact (DC a ea d' de' EA ED' AN')|]. unfold constrained. rewrite ED'. unfold in_direct_ancestry.
           rewrite (ancestor_block_complete t lbl ws G Sv W TP TOL a d' de' g ED' AN' AG NAG GD' NGD').
           rewrite Nat.eqb_refl. now left.
    + exfalso. destruct BASE as [e0 E0]. pose proof (CH 0%nat e0 E0 (anc_root t d)) as X. subst d.
      assert (g = 0%nat) by (apply (anc_antisym t); [exact GD|apply anc_root]). subst g. congruence.
  - destruct (eget g G) as [eg|] eqn:EG.
    2:{ unfold find_containing in FC. rewrite EG in FC. discriminate. }
    assert (CA : cond (g_cum eg) = true) by (rewrite (node_cond g eg EG); exact PG).
    rewrite CA. cbn [negb]. cbn [descend].
    set (ds := flat_map (fun d => match constrained t G None d with Some x => [x] | None => [] end) (g_desc eg)).
    assert (SNDds : forall d' de', In (d', de') ds -> eget d' G = Some de' /\ ancestor_node de' = Some g /\ anc t g d' /\ g <> d').
    { intros d' de' I. pose proof (constrained_ds_ok t G None (g_desc eg) d' de' I) as ED'.
      pose proof (DS g eg d' de' EG (constrained_in None _ d' de' I) ED') as AN'.
      pose proof (CI d' de' ED') as CH. rewrite AN' in CH. destruct CH as [_ [A [N _]]]. auto. }
    destruct (find (fun p => cond (g_cum (snd p))) ds) as [[d' de']|] eqn:F.
    + pose proof (find_some _ _ F) as [I CD]. cbn [snd] in CD.
      destruct (SNDds d' de' I) as [ED' [AN' [GD' NGD']]].
      assert (LT : (depth t g < depth t d')%nat).
      { pose proof (anc_depth_le t g d' GD'). destruct (Nat.eq_dec (depth t g) (depth t d')) as [E|]; [|lia].
        exfalso. apply NGD'. exact (anc_depth_eq t g d' GD' E). }
      rewrite (found_child g d' de' ED' CD GD' LT). cbn [negb].
      destruct (descend t (length G) G cond d' de' None) as [[k e] f] eqn:D.
      destruct (descend_number _ _ _ _ _ _ _ ED' D) as [EK L].
      pose proof (merge_point_number k e f EK) as L2. unfold compl_of.
      apply Nat.eqb_neq. intro E. rewrite E in L2. unfold number in *. lia.
    + unfold compl_of, merge_point. fold ds.
      apply (merge_loop_compl g eg g EG (anc_refl t g) PG (fun y ey _ X => X)).
      * lia.
      * reflexivity.
      * apply anc_refl.
      * apply anc_refl.
      * apply constrained_ds_ok.
      * intros d' de' I. exact (find_none _ _ F (d', de') I).
      * intros d' de' I. destruct (SNDds d' de' I) as [_ H]. exact H.
      * intros d' de' ED' AN' _ _. exact (ds0_complete t G DC g eg EG d' de' ED' AN').
Qed.

End Gen.

(* ---------------------------------------------------------------------------------------- *)
(* the instance: the wrapping "possible to precommit" condition *)
Lemma upd_in S ph x p y : In y (S p) -> In y (upd S ph x p).
Proof. intro I. unfold upd. destruct (p =? ph)%nat; [apply in_or_app; now left|exact I]. Qed.

Lemma reach_all_ins_tree t lbl G heads eqv S ins : reach_all t lbl G heads eqv S ins ->
  (forall p x, In x (S p) -> in_tree t (vblock x)) -> forall z, In z ins -> in_tree t (fst z).
Proof.
  induction 1 as [|G heads eqv S ins ph x G' heads' R IH L NV INS
                   |G heads eqv S ins ph x a R IH L FA NS
                   |G heads eqv S ins ph x R IH L H]; intros IT z IZ.
  - destruct IZ.
  - destruct IZ as [<-|IZ].
    + cbn [fst]. apply (IT ph). unfold upd. rewrite Nat.eqb_refl. apply in_or_app. right. now left.
    + apply IH; [|exact IZ]. intros p y I. apply (IT p). now apply upd_in.
  - apply IH; [|exact IZ]. intros p y I. apply (IT p). now apply upd_in.
  - apply IH; [|exact IZ]. intros p y I. apply (IT p). now apply upd_in.
Qed.

Section PossInst.
Variable t : tree.
Variable lbl : block -> nat.
Variable ws : list N.
Hypothesis TP : (0 < total ws)%N.
Hypothesis T64 : (total ws < 18446744073709551616)%N.

Lemma possible_bits_real eqv cur bits :
  (bits_weight ws [] eqv 1 <= total ws - threshold ws)%N -> (cur <= total ws)%N ->
  (bits_weight ws bits eqv 1 <= cur)%N ->
  possible_bits ws eqv cur bits =
  (threshold ws <=? bits_weight ws bits eqv 1 + (total ws - cur) +
     N.min (cur - bits_weight ws bits eqv 1) (total ws - threshold ws - bits_weight ws [] eqv 1))%N.
Proof.
  intros LE LC LP. unfold possible_bits, th.
  pose proof (threshold_le_total ws) as TT.
  set (n := total ws) in *. set (th := threshold ws) in *. set (E := bits_weight ws [] eqv 1) in *.
  set (pf := bits_weight ws bits eqv 1) in *.
  rewrite (sub64_small n th) by lia.
  rewrite (sub64_small (n - th) E) by lia.
  rewrite (sub64_small n cur) by lia.
  rewrite (sub64_small cur pf) by lia.
  assert (M : (if (cur - pf <=? n - th - E)%N then (cur - pf)%N else (n - th - E)%N) = N.min (cur - pf) (n - th - E)).
  { destruct (N.leb_spec (cur - pf) (n - th - E)); lia. }
  rewrite M.
  rewrite (add64_small pf (n - cur)) by lia.
  rewrite add64_small by lia. reflexivity.
Qed.

Variable G : entries.
Variable heads : list block.
Variable eqv : list bit.
Variable S : nat -> list vote.
Variable ins : list (block * bit).
Hypothesis R : reach_all t lbl G heads eqv S ins.
Hypothesis T1 : tolerant ws (S 1%nat) = true.
Hypothesis TH : (threshold ws <= cur_weight ws (S 1%nat))%N.
Hypothesis IT : forall p x, In x (S p) -> in_tree t (vblock x).

Theorem reach_all_find_ghost_compl g : possible t ws (S 1%nat) g = true ->
  (exists z ez, eget z G = Some ez /\ anc t g z) ->
  compl_of (find_ghost t lbl G heads (Some g) (possible_bits ws eqv (cur_weight ws (S 1%nat)))) g =
  negb (existsb (possible t ws (S 1%nat)) (children t g)).
Proof.
  intros PG Z.
  destruct (reach_all_invariants t lbl G heads eqv S ins R) as [[CI [CO [W [BASE [IN HC]]]]] TR].
  destruct (reach_all_full t lbl _ _ _ _ _ R) as [RF _].
  pose proof (reach_full_desc_exact t lbl G heads eqv S ins RF) as DE.
  pose proof (desc_exact_complete G DE) as DC. pose proof (desc_exact_sound G DE) as DS.
  pose proof (reach_all_ins_tree t lbl G heads eqv S ins R IT) as INT.
  pose proof (TR 1%nat Nat.lt_1_2) as TR1.
  pose proof (nil_weight t ws ins 1 (S 1%nat) eqv TR1) as NW.
  assert (LE : (bits_weight ws [] eqv 1 <= total ws - threshold ws)%N).
  { rewrite NW. unfold tolerant, tolerance in T1. apply N.leb_le in T1. exact T1. }
  assert (LC : (cur_weight ws (S 1%nat) <= total ws)%N) by (unfold cur_weight; apply wsum_le_total).
  assert (UW : forall b v, under t ins b v -> (bits_weight ws v eqv 1 <= cur_weight ws (S 1%nat))%N).
  { intros b v U. pose proof (under_weight t ws ins 1 (S 1%nat) eqv TR1 b v U).
    pose proof (weight_le_cur t ws (S 1%nat) b). lia. }
  set (cond := possible_bits ws eqv (cur_weight ws (S 1%nat))).
  assert (EXT : forall b bits, (forall bt, memb bt bits = ins_bit t ins bt b) -> cond bits = possible t ws (S 1%nat) b).
  { intros b bits EX. rewrite <- (possible_go_spec t ws T64 (S 1%nat) b T1).
    assert (WE : bits_weight ws bits eqv 1 = weight t ws (S 1%nat) b) by (eapply exact_weight; [exact TR1|exact EX]).
    unfold cond, possible_bits, possible_go, th. rewrite WE. now rewrite NW. }
  assert (MONO : forall b v v', under t ins b v' -> (forall bt, memb bt v = true -> memb bt v' = true) ->
            cond v = true -> cond v' = true).
  { intros b v v' U SUB C.
    assert (PV : (bits_weight ws v eqv 1 <= bits_weight ws v' eqv 1)%N).
    { unfold bits_weight. apply wsum_mono. intros x H. apply orb_prop in H.
      destruct H as [H|H]; [rewrite (SUB _ H); reflexivity|rewrite H; apply orb_true_r]. }
    pose proof (UW b v' U) as L'.
    unfold cond in *. rewrite (possible_bits_real eqv _ v LE LC) in C by lia.
    rewrite (possible_bits_real eqv _ v' LE LC L'). apply N.leb_le in C. apply N.leb_le. lia. }
  assert (NIL : cond [] = false).
  { assert (U0 : under t ins 0%nat []) by (intros bt M; discriminate).
    pose proof (UW 0%nat [] U0) as L0. unfold cond. rewrite (possible_bits_real eqv _ [] LE LC L0).
    apply N.leb_gt. pose proof (three_threshold ws TP). pose proof (threshold_le_total ws). lia. }
  exact (find_ghost_compl t lbl ws G ins (S 1%nat) CO W CI IN INT DC DS TP T1 cond (possible t ws (S 1%nat))
           EXT MONO NIL (possible_anc t ws (S 1%nat)) BASE heads HC g PG Z).
Qed.

End PossInst.

(* ---------------------------------------------------------------------------------------- *)
Section UpdCompl.
Variable t : tree.
Variable lbl : block -> nat.
Variable ws : list N.
Hypothesis TP : (0 < total ws)%N.
Hypothesis T64 : (total ws < 18446744073709551616)%N.

(* ONE Round.update on a reachable state whose memoised prevote ghost is the specification's:
   completable becomes the specification's *)
Theorem update_compl s S ins V0 C0 :
  rel t lbl s S ins -> tolerant ws (S 0%nat) = true -> tolerant ws (S 1%nat) = true ->
  (forall p x, In x (S p) -> in_tree t (vblock x)) ->
  r_pvg s = ghost t ws (S 0%nat) -> subset V0 (S 0%nat) -> subset C0 (S 1%nat) ->
  r_compl s = completable t ws V0 C0 ->
  r_compl (update t lbl ws s) = completable t ws (S 0%nat) (S 1%nat).
Proof.
  intros [R [E0 E1]] T0 T1 IT PVG SV SC CMPL.
  unfold update, completable. rewrite <- E0, <- E1, PVG.
  destruct (ghost t ws (S 0%nat)) as [g|] eqn:GH.
  - assert (LE : (threshold ws <= cur_weight ws (S 0%nat))%N) by (apply (ghost_defined t ws (S 0%nat)); eauto).
    assert (LT : (cur_weight ws (S 0%nat) <? th ws)%N = false) by (apply N.ltb_ge; exact LE).
    rewrite LT. unfold th. destruct (threshold ws <=? cur_weight ws (S 1%nat))%N eqn:TH.
    + cbv zeta. cbn [r_compl r_G r_heads r_eqv].
      destruct (reach_all_invariants t lbl _ _ _ _ _ R) as [[_ [_ [_ [_ [IN _]]]]] TR].
      destruct (ghost_spec t ws (S 0%nat) g TP T0 GH) as [_ [SG _]].
      pose proof (sm_node_below t lbl ws (r_G s) ins 0 (S 0%nat) (r_eqv s) g (TR 0%nat ltac:(lia)) IN TP T0 SG) as Z.
      assert (F : (depth t g < fuelG t s)%nat) by (unfold fuelG; pose proof (depth_le_size t g); lia).
      rewrite (reach_all_find_ancestor_possible t lbl ws _ _ _ S ins R _ g F Z T64 T1).
      destruct (find_anc t (possible t ws (S 1%nat)) g) as [e|] eqn:FA; [|reflexivity].
      destruct (Nat.eqb_spec e g) as [->|NE]; cbn [negb orb]; [|reflexivity].
      destruct (find_anc_some t _ g g FA) as [_ [PG _]].
      apply N.leb_le in TH.
      exact (reach_all_find_ghost_compl t lbl ws TP T64 _ _ _ S ins R T1 TH IT g PG Z).
    + cbn [r_compl]. rewrite CMPL. unfold completable.
      assert (H : (threshold ws <=? cur_weight ws C0)%N = false).
      { apply N.leb_gt. apply N.leb_gt in TH. pose proof (cur_weight_mono ws C0 (S 1%nat) SC). lia. }
      rewrite H. destruct (ghost t ws V0); reflexivity.
  - pose proof (ghost_none_mono t lbl ws TP T64 V0 (S 0%nat) SV GH) as GN0.
    assert (A : r_compl s = false) by (rewrite CMPL; unfold completable; now rewrite GN0).
    destruct (cur_weight ws (S 0%nat) <? th ws)%N; exact A.
Qed.
End UpdCompl.

(* ---------------------------------------------------------------------------------------- *)
(* completable ALONG THE RUN *)
Section RunCompl.
Variable t : tree.
Variable lbl : block -> nat.
Variable ws : list N.

Lemma precommit_ghost_compl s : r_compl (precommit_ghost t lbl ws s) = r_compl s.
Proof. unfold precommit_ghost. destruct (th ws <=? cur_weight ws (r_pc s))%N; reflexivity. Qed.

Lemma import_compl_cases ph x s :
  let s1 := import t lbl ws ph x s in
  (exists s0, s1 = update t lbl ws s0 /\ r_compl s0 = r_compl s) \/
  (r_compl s1 = r_compl s /\
   r_G s1 = r_G s /\ r_heads s1 = r_heads s /\ r_eqv s1 = r_eqv s /\
   (known_voter ws x = false \/ voted (if (ph =? 0)%nat then r_pv s else r_pc s) (vvoter x) = true)).
Proof.
  cbv zeta. unfold import. destruct (known_voter ws x); cbn [negb]; [|right; repeat split; auto].
  pose proof (stored_voted (vvoter x) (if (ph =? 0)%nat then r_pv s else r_pc s)) as SV.
  destruct (stored (vvoter x) (if (ph =? 0)%nat then r_pv s else r_pc s) []) as [|a [|b l]].
  - destruct (insert t lbl (r_G s) (r_heads s) (vblock x) (2 * vvoter x + ph)) as [G' heads'].
    left. eexists. split; [reflexivity|].
    destruct (ph =? 0)%nat; [destruct (th ws <=? _)%N|]; reflexivity.
  - destruct (same_vote a x).
    + right. assert (V : voted (if (ph =? 0)%nat then r_pv s else r_pc s) (vvoter x) = true) by (apply SV; discriminate).
      destruct (ph =? 0)%nat; repeat split; auto.
    + left. eexists. split; [reflexivity|].
      destruct (ph =? 0)%nat; [destruct (th ws <=? _)%N|]; reflexivity.
  - right. assert (V : voted (if (ph =? 0)%nat then r_pv s else r_pc s) (vvoter x) = true) by (apply SV; discriminate).
    destruct (ph =? 0)%nat; repeat split; auto.
Qed.

Hypothesis TP : (0 < total ws)%N.
Hypothesis T64 : (total ws < 18446744073709551616)%N.

Lemma same_core_same_compl G heads eqv S ins S' ins' :
  reach_all t lbl G heads eqv S ins -> reach_all t lbl G heads eqv S' ins' ->
  tolerant ws (S 0%nat) = true -> tolerant ws (S' 0%nat) = true ->
  tolerant ws (S 1%nat) = true -> tolerant ws (S' 1%nat) = true ->
  (forall p x, In x (S p) -> in_tree t (vblock x)) -> (forall p x, In x (S' p) -> in_tree t (vblock x)) ->
  cur_weight ws (S' 1%nat) = cur_weight ws (S 1%nat) ->
  completable t ws (S 0%nat) (S 1%nat) = completable t ws (S' 0%nat) (S' 1%nat).
Proof.
  intros R R' T0 T0' T1 T1' IT IT' CW.
  pose proof (same_core_same_ghost t lbl ws G heads eqv S ins S' ins' 0%nat R R' Nat.lt_0_2 TP T0 T0' (IT 0%nat) (IT' 0%nat)) as GH0.
  unfold completable. rewrite <- GH0, CW.
  destruct (ghost t ws (S 0%nat)) as [g|] eqn:GH; [|reflexivity].
  destruct (threshold ws <=? cur_weight ws (S 1%nat))%N eqn:TH; [|reflexivity].
  destruct (reach_all_invariants t lbl _ _ _ _ _ R) as [[_ [_ [_ [_ [IN _]]]]] TR].
  destruct (ghost_spec t ws (S 0%nat) g TP T0 GH) as [_ [SG _]].
  pose proof (sm_node_below t lbl ws G ins 0 (S 0%nat) eqv g (TR 0%nat ltac:(lia)) IN TP T0 SG) as Z.
  assert (F : (depth t g < Datatypes.S (size t))%nat) by (pose proof (depth_le_size t g); lia).
  assert (EQ : find_anc t (possible t ws (S 1%nat)) g = find_anc t (possible t ws (S' 1%nat)) g).
  { rewrite <- (reach_all_find_ancestor_possible t lbl ws G heads eqv S ins R _ g F Z T64 T1).
    rewrite <- (reach_all_find_ancestor_possible t lbl ws G heads eqv S' ins' R' _ g F Z T64 T1').
    now rewrite CW. }
  rewrite <- EQ. destruct (find_anc t (possible t ws (S 1%nat)) g) as [e|] eqn:FA; [|reflexivity].
  destruct (Nat.eqb_spec e g) as [->|NE]; cbn [negb orb]; [|reflexivity].
  destruct (find_anc_some t _ g g FA) as [_ [PG _]]. symmetry in EQ.
  destruct (find_anc_some t _ g g EQ) as [_ [PG' _]].
  apply N.leb_le in TH. assert (TH' : (threshold ws <= cur_weight ws (S' 1%nat))%N) by now rewrite CW.
  rewrite <- (reach_all_find_ghost_compl t lbl ws TP T64 G heads eqv S ins R T1 TH IT g PG Z).
  rewrite <- (reach_all_find_ghost_compl t lbl ws TP T64 G heads eqv S' ins' R' T1' TH' IT' g PG' Z).
  now rewrite CW.
Qed.

Theorem run_compl h : good t ws h ->
  r_compl (run t lbl ws h) = completable t ws (known_votes_of ws 0 h) (known_votes_of ws 1 h).
Proof.
  induction h as [|o h IH] using rev_ind; intro GD.
  - destruct (run_ghosts t lbl ws TP [] GD) as [PV _]. unfold completable. rewrite <- PV. reflexivity.
  - pose proof (good_prefix t ws h [o] GD) as GDh. pose proof (IH GDh) as CMP.
    destruct (run_ghosts t lbl ws TP (h ++ [o]) GD) as [PV1 _].
    destruct GD as [PH [T0 [T1 IT]]].
    assert (GD : good t ws (h ++ [o])) by (split; [exact PH|split; [exact T0|split; [exact T1|exact IT]]]).
    destruct GDh as [PHh [T0h [T1h ITh]]].
    destruct (run_reach t lbl ws h PHh) as [S [ins [[R [E0 E1]] ES]]].
    assert (L : (fst o < 2)%nat) by (apply PH, in_or_app; right; now left).
    revert PV1. unfold run. rewrite fold_left_app. cbn [fold_left]. fold (run t lbl ws h).
    set (s := run t lbl ws h) in *. unfold step_op. set (s1 := import t lbl ws (fst o) (snd o) s).
    rewrite precommit_ghost_pvg. intro PV1.
    rewrite (precommit_ghost_compl s1).
    destruct (import_step t lbl ws (fst o) (snd o) s S ins L (conj R (conj E0 E1))) as [S' [ins' [[R1 [F0 F1]] U]]].
    fold s1 in R1, F0, F1.
    assert (ES' : forall p, S' p = known_votes_of ws p (h ++ [o])).
    { intro p. rewrite U, known_votes_of_app, ES. reflexivity. }
    assert (SUB : forall p, subset (S p) (S' p)).
    { intro p. rewrite ES, ES'. apply known_votes_of_subset. }
    assert (IT' : forall p x, In x (S' p) -> in_tree t (vblock x)).
    { intros p x I. rewrite ES' in I. exact (good_in_tree t ws _ p x GD I). }
    assert (ITS : forall p x, In x (S p) -> in_tree t (vblock x)).
    { intros p x I. apply (IT' p), SUB, I. }
    rewrite <- (ES' 0%nat), <- (ES' 1%nat). rewrite <- (ES 0%nat), <- (ES 1%nat) in CMP.
    rewrite <- (ES 0%nat) in T0h. rewrite <- (ES 1%nat) in T1h.
    rewrite <- (ES' 0%nat) in T0, PV1. rewrite <- (ES' 1%nat) in T1.
    pose proof (import_compl_cases (fst o) (snd o) s) as CS. cbv zeta in CS. fold s1 in CS.
    destruct CS as [[s0 [EU A]]|[A [EG [EH [EE V]]]]].
    + rewrite EU. rewrite EU in PV1, R1, F0, F1.
      destruct (update_fields t lbl ws s0) as [_ [_ [_ [_ [_ [E6 _]]]]]].
      apply (update_compl t lbl ws TP T64 s0 S' ins' (S 0%nat) (S 1%nat));
        [|exact T0|exact T1|exact IT'|now rewrite <- E6|apply SUB|apply SUB|now rewrite A].
      apply (rel_core t lbl (update t lbl ws s0) s0 S' ins'); [symmetry; apply core_update|].
      split; [exact R1|split; assumption].
    + rewrite A, CMP. rewrite EG, EH, EE in R1.
      apply (same_core_same_compl (r_G s) (r_heads s) (r_eqv s) S ins S' ins' R R1 T0h T0 T1h T1 ITS IT').
      rewrite U. destruct V as [K|V]; [now rewrite K|].
      destruct (known_voter ws (snd o)); cbn [andb]; [|reflexivity].
      destruct (1 =? fst o)%nat eqn:PE; [|reflexivity]. apply Nat.eqb_eq in PE. rewrite <- PE in V. cbn [Nat.eqb] in V.
      rewrite <- E1 in V. now apply cur_weight_app_voted.
Qed.

End RunCompl.

Lemma completable_known t ws V C :
  completable t ws (filter (known_voter ws) V) (filter (known_voter ws) C) = completable t ws V C.
Proof.
  unfold completable. rewrite ghost_known, cur_weight_known. destruct (ghost t ws V) as [g|]; [|reflexivity].
  destruct (threshold ws <=? cur_weight ws C)%N; [|reflexivity].
  assert (FE : find_anc t (possible t ws (filter (known_voter ws) C)) g = find_anc t (possible t ws C) g)
    by (apply find_anc_ext; intro x; apply possible_known).
  rewrite FE. destruct (find_anc t (possible t ws C) g); [|reflexivity]. f_equal. f_equal.
  generalize (children t g) as l. induction l as [|c l IH]; [reflexivity|]. cbn [existsb].
  now rewrite possible_known, IH.
Qed.

(* after EVERY prefix, against all the votes of the prefix *)
Theorem run_compl_prefix t lbl ws h :
  (0 < total ws)%N -> (total ws < 18446744073709551616)%N ->
  (forall o, In o h -> (fst o < 2)%nat) ->
  tolerant ws (votes_of 0 h) = true -> tolerant ws (votes_of 1 h) = true ->
  (forall o, In o h -> known_voter ws (snd o) = true -> in_tree t (vblock (snd o))) ->
  forall h1 h2, h = h1 ++ h2 ->
  r_compl (run t lbl ws h1) = completable t ws (votes_of 0 h1) (votes_of 1 h1).
Proof.
  intros TP T64 PH T0 T1 IT h1 h2 E.
  assert (GD : good t ws h).
  { split; [exact PH|]. unfold known_votes_of. rewrite !tolerant_known. auto. }
  rewrite E in GD. apply good_prefix in GD. pose proof (run_compl t lbl ws TP T64 h1 GD) as F.
  unfold known_votes_of in F. now rewrite completable_known in F.
Qed.

(* non-vacuity: tree 0 - 1, 1 - 2, 1 - 3; four voters of weight 1 (threshold 3).  Prevotes 0:2, 1:2, 2:3,
   3:3: the ghost is block 1 (a fork point, its vote-node comes from introduceBranch / the precommits).
   Precommits 0:2, 1:1, 2:1: the threshold is reached, estimate = ghost = 1 and the child 2 is still
   possible: not completable (FindGHOST answers below 1); a duplicate precommit and a prevote of
   voter 7 (outside the voter set) are recorded only; 3:1: no child of 1 is possible any more: completable
   (FindGHOST answers 1); then an equivocation 3:3 and its third vote 3:2. *)
Example run_compl_example :
  let t := [0; 1; 1]%nat in let ws := [1; 1; 1; 1]%N in
  let h := [(0, mkVote 0 2 0); (0, mkVote 1 2 0); (0, mkVote 2 3 0); (0, mkVote 3 3 0);
            (1, mkVote 0 2 0); (1, mkVote 1 1 0); (1, mkVote 2 1 0); (1, mkVote 2 1 0); (0, mkVote 7 3 0);
            (1, mkVote 3 1 0); (1, mkVote 3 3 0); (1, mkVote 3 2 0)]%nat in
  (forall o, In o h -> (fst o < 2)%nat) /\ (0 < total ws)%N /\ (total ws < 18446744073709551616)%N /\
  tolerant ws (votes_of 0 h) = true /\ tolerant ws (votes_of 1 h) = true /\
  (forall o, In o h -> known_voter ws (snd o) = true -> in_tree t (vblock (snd o))) /\
  map (fun k => let s := run t (fun b => b) ws (firstn k h) in (r_pvg s, r_est s, r_compl s)) (seq 0 13) =
    [(None, None, false); (None, None, false); (None, None, false); (Some 1, Some 1, false);
     (Some 1, Some 1, false); (Some 1, Some 1, false); (Some 1, Some 1, false); (Some 1, Some 1, false);
     (Some 1, Some 1, false); (Some 1, Some 1, false); (Some 1, Some 1, true); (Some 1, Some 1, true);
     (Some 1, Some 1, true)]%nat /\
  map (fun k => completable t ws (votes_of 0 (firstn k h)) (votes_of 1 (firstn k h))) (seq 0 13) =
    [false; false; false; false; false; false; false; false; false; false; true; true; true].
Proof.
  intros t ws h. split.
  { intros o I. cbn in I. repeat (destruct I as [<-|I]; [cbn; lia|]). destruct I. }
  split; [reflexivity|]. split; [reflexivity|]. split; [reflexivity|]. split; [reflexivity|]. split.
  { intros o I K. cbn in I. unfold in_tree, size, t.
    repeat (destruct I as [<-|I]; [first [cbn; lia|discriminate K]|]). destruct I. }
  vm_compute. repeat split; reflexivity.
Qed.
