(* C20/GraphScope.v -- the complete enumerations behind GraphProofs.v (vm_compute; about 2-4
   minutes of compilation, done once). *)
From Coq Require Import List Arith Bool NArith.
From Grandpa Require Import Tree Votes RoundSpec.
From C20 Require Import Model Graph GraphCheck.
Import ListNotations.

Lemma scope_4_3 : scope_ok 4 3 [1;1;1]%N = true.
Proof. vm_compute. reflexivity. Qed.
Lemma scope_3_3w : scope_ok 3 3 [2;1;1]%N = true.
Proof. vm_compute. reflexivity. Qed.
Lemma scope_2_4 : scope_ok 2 4 [1;1;1]%N = true.
Proof. vm_compute. reflexivity. Qed.

