(* C28/ProofsFree.v — Deallocate preserves the invariant and satisfies the specification. *)
From Coq Require Import NArith List Bool Lia ZifyN ZifyBool.
From C28 Require Import Model ProofsMem ProofsTiles ProofsInv ProofsEnv ProofsBump ProofsAlloc.
Import ListNotations.
Local Open Scope N_scope.

Lemma chain_in f link l hp : chain f link l -> In hp l -> rd8 f hp < two32.
Proof.
  revert link. induction l as [|q l IH]; cbn [chain In]; intros link C H; [contradiction|].
  destruct C as (_ & A & C). destruct H as [->|H]; [exact A|exact (IH _ C H)].
Qed.

Lemma live_bytes_ge a B e lv b sz : tiles a B e -> In b B -> lv (fst b) = Some sz -> bsize b <= live_bytes B lv.
Proof.
  intros T Hb Hl. pose proof (live_bytes_set _ _ _ lv b None T Hb) as E. rewrite Hl in E. lia.
Qed.

Lemma is_live_ptr_spec live p : is_live_ptr live p = true <-> exists sz, In (p, sz) live.
Proof.
  unfold is_live_ptr. rewrite existsb_exists. split.
  - intros ((q & sz) & Hin & E). cbn [fst] in E. apply N.eqb_eq in E. subst. now exists sz.
  - intros (sz & Hin). exists (p, sz). split; [exact Hin|apply N.eqb_refl].
Qed.

Lemma remove_live_spec live p q sz : In (q, sz) (remove_live live p) <-> In (q, sz) live /\ q <> p.
Proof.
  unfold remove_live. rewrite filter_In. cbn [fst]. split.
  - intros (A & B). split; [exact A|]. intros ->. now rewrite N.eqb_refl in B.
  - intros (A & B). split; [exact A|]. apply N.eqb_neq in B. now rewrite B.
Qed.

(* a live block goes back to the free list of its order *)
Lemma Struct_free s m g B lv b sz s' m' g' :
  Struct s m g B lv -> In b B -> lv (fst b) = Some sz ->
  let hp := fst b in let o := snd b in
  s_hb s' = s_hb s -> s_bumper s' = s_bumper s ->
  s_heads s' = set_head (s_heads s) o (Some hp) ->
  s_ba s' = s_ba s - (osize o + header_size) ->
  m_data m' = wr8 (m_data m) hp (raw_of_link (s_heads s o)) -> m_pages m' = m_pages m ->
  (forall q t, In (q, t) (g_live g') <-> In (q, t) (g_live g) /\ q <> hp + 8) -> g_written g' = g_written g ->
  Struct s' m' g' B (lv_set lv hp None).
Proof.
  intros S Hb Hlv hp o E1 E2 E3 E4 E5 E6 E7 E8.
  pose proof S as [h1 h2 h3 h4 h5 h6 h7 h8 h9 h10 h11].
  destruct (tiles_in _ _ _ _ h2 Hb) as (T1 & T2 & Oo & T4). fold o in Oo. fold hp in T1, T2, T4.
  assert (Bb : b = (hp, o)) by (destruct b; reflexivity).
  assert (DIS : forall c, In c B -> c <> b -> fst c + 8 <= hp \/ hp + 8 <= fst c).
  { intros c Hc Ne. destruct (tiles_disjoint _ _ _ _ _ h2 Hc Hb) as [X|[X|X]]; [congruence| |];
      pose proof (bsize_ge c); pose proof (bsize_ge b); fold hp in X; lia. }
  assert (HPlt : hp < two32).
  { pose proof (tiles_le _ _ _ h2). pose proof (bsize_ge b). lia. }
  assert (PrevOK : forall q, s_heads s o = Some q -> q < two32 /\ q <> nil_marker).
  { intros q Hq. destruct (h8 o Oo) as (l & C & _ & IFF). rewrite Hq in C. destruct l as [|q0 l]; cbn [chain] in C; [discriminate|].
    destruct C as ([= <-] & _). destruct (proj1 (IFF q) (or_introl eq_refl)) as (Hqb & _).
    destruct (tiles_in _ _ _ _ h2 Hqb) as (_ & X & _ & Y). cbn [fst] in *. pose proof (bsize_ge (q, o)).
    pose proof (tiles_le _ _ _ h2). split; [lia|]. intros ->. unfold nil_marker in *. rewrite h1 in Y. cbv in Y. discriminate. }
  assert (RAW : raw_of_link (s_heads s o) < two32).
  { destruct (s_heads s o) as [q|] eqn:Hq; cbn [raw_of_link]; [now destruct (PrevOK q eq_refl)|unfold nil_marker, two32; lia]. }
  assert (RT : link_of_raw (raw_of_link (s_heads s o)) = s_heads s o).
  { apply link_raw_roundtrip. destruct (s_heads s o) as [q|] eqn:Hq; [|discriminate].
    intros [= ->]. now destruct (PrevOK _ eq_refl). }
  assert (V64 : raw_of_link (s_heads s o) < two64) by (unfold two32, two64 in *; lia).
  constructor.
  - now rewrite E1.
  - now rewrite E1, E2.
  - now rewrite E2.
  - intros c Hc. unfold msize. rewrite E6. now apply h4.
  - intros p t. rewrite E7, h5. split.
    + intros ((c & Hc & Hl & ->) & Ne). exists c. split; [exact Hc|]. split; [|reflexivity].
      unfold lv_set. destruct (fst c =? hp) eqn:X; [|exact Hl]. apply N.eqb_eq in X. rewrite X in Ne. contradiction.
    + intros (c & Hc & Hl & ->). unfold lv_set in Hl. destruct (fst c =? hp) eqn:X; [discriminate|].
      apply N.eqb_neq in X. split; [exists c; auto|lia].
  - intros c t Hc Hl. unfold lv_set in Hl. destruct (fst c =? hp); [discriminate|]. now apply h6.
  - intros c t Hc Hl. unfold lv_set in Hl. destruct (fst c =? hp) eqn:X; [discriminate|]. apply N.eqb_neq in X.
    rewrite E5, rd8_wr8_other; [now apply (h7 c t)|].
    assert (Ne : c <> b) by (intros ->; now apply X). destruct (DIS c Hc Ne); lia.
  - intros o' Ho'. rewrite E3, E5. unfold set_head. destruct (o' =? o) eqn:X.
    + apply N.eqb_eq in X. subst o'. destruct (h8 o Oo) as (l & C & ND & IFF). exists (hp :: l).
      assert (NIN : ~ In hp l) by (intros Hin; apply IFF in Hin as (_ & Y); unfold hp in Y; congruence).
      split; [|split].
      * cbn [chain]. split; [reflexivity|]. rewrite rd8_wr8_same by exact V64. split; [exact RAW|].
        rewrite RT. eapply chain_ext; [|exact C]. intros q Hq. apply rd8_wr8_other.
        assert (Hq' : In (q, o) B) by (apply IFF; exact Hq).
        assert (Ne : (q, o) <> b) by (intros Y; rewrite Bb in Y; injection Y as ->; contradiction).
        destruct (DIS _ Hq' Ne); cbn [fst] in *; lia.
      * constructor; assumption.
      * intros q. cbn [In]. rewrite IFF. unfold lv_set. split.
        -- intros [<-|(A & B0)].
           ++ rewrite N.eqb_refl. split; [now rewrite <- Bb|reflexivity].
           ++ split; [exact A|]. destruct (q =? hp); [reflexivity|exact B0].
        -- intros (A & B0). destruct (q =? hp) eqn:Y; [left; apply N.eqb_eq in Y; congruence|right; auto].
    + apply N.eqb_neq in X. destruct (h8 o' Ho') as (l & C & ND & IFF). exists l. split; [|split; [exact ND|]].
      * eapply chain_ext; [|exact C]. intros q Hq. apply rd8_wr8_other.
        assert (Hq' : In (q, o') B) by (apply IFF; exact Hq).
        assert (Ne : (q, o') <> b) by (intros Y; rewrite Bb in Y; injection Y as _ ->; now apply X).
        destruct (DIS _ Hq' Ne); cbn [fst] in *; lia.
      * intros q. rewrite IFF. unfold lv_set. destruct (q =? hp) eqn:Y; [|reflexivity].
        apply N.eqb_eq in Y. subst q. split.
        -- intros (A & _). exfalso. apply X. assert ((hp, o') = b) by (apply (tiles_same_hp _ _ _ _ _ h2 A Hb); reflexivity).
           rewrite Bb in H. congruence.
        -- intros (A & _). exfalso. apply X. assert ((hp, o') = b) by (apply (tiles_same_hp _ _ _ _ _ h2 A Hb); reflexivity).
           rewrite Bb in H. congruence.
  - intros a Ha NH NW. rewrite E1 in Ha. rewrite E8 in NW. rewrite E5, wr8_out.
    + now apply h9.
    + specialize (NH _ Hb). fold hp in NH. lia.
  - intros a Ha. rewrite E8 in Ha. now apply h10.
  - rewrite E4, h11. pose proof (live_bytes_set _ _ _ lv b None h2 Hb) as LB. rewrite Hlv in LB. fold hp in LB.
    unfold bsize in LB. fold o in LB. lia.
Qed.
