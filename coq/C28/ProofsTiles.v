(* C28/ProofsTiles.v — orders and the contiguous tiling of [heap base, bumper) by blocks. *)
From Coq Require Import NArith List Bool Lia ZifyN ZifyBool.
From C28 Require Import Model ProofsMem.
Import ListNotations.
Local Open Scope N_scope.

Lemma osize_pos o : 8 <= osize o.
Proof. unfold osize, min_alloc. pose proof (N.pow_nonzero 2 o ltac:(discriminate)). lia. Qed.
Lemma osize_mod8 o : osize o mod 8 = 0.
Proof. unfold osize, min_alloc. rewrite N.mul_comm. apply N.mod_mul. discriminate. Qed.
Lemma osize_le_max o : o < num_orders -> osize o <= max_alloc.
Proof.
  unfold osize, min_alloc, num_orders, max_alloc. intros H.
  assert (2 ^ o <= 2 ^ 22) by (apply N.pow_le_mono_r; lia). change (2 ^ 22) with 4194304 in *. lia.
Qed.

Lemma order_of_size_spec s : s <= max_alloc ->
  order_of_size s < num_orders /\ s <= osize (order_of_size s).
Proof.
  intros H. unfold order_of_size, osize, min_alloc, num_orders, max_alloc in *.
  set (a := N.max s 8). assert (A8 : 8 <= a) by (unfold a; lia). assert (AM : a <= 2 ^ 25) by (change (2 ^ 25) with 33554432; unfold a; lia).
  assert (L3 : 3 <= N.log2_up a).
  { change 3 with (N.log2_up 8). apply N.log2_up_le_mono. exact A8. }
  assert (L25 : N.log2_up a <= 25) by (apply N.log2_up_le_pow2; lia).
  assert (SP : a <= 2 ^ N.log2_up a) by (apply N.log2_up_spec; lia).
  split; [lia|].
  replace (8 * 2 ^ (N.log2_up a - 3)) with (2 ^ N.log2_up a).
  - eapply N.le_trans; [|exact SP]. unfold a. lia.
  - change 8 with (2 ^ 3). rewrite <- N.pow_add_r. f_equal. lia.
Qed.

(* ---- tiling ---- *)
Definition block := (N * N)%type.       (* header address, order *)
Definition bsize (b : block) : N := header_size + osize (snd b).

Fixpoint tiles (a : N) (B : list block) (e : N) : Prop :=
  match B with
  | [] => a = e
  | b :: r => fst b = a /\ snd b < num_orders /\ tiles (a + bsize b) r e
  end.

Lemma bsize_mod8 b : bsize b mod 8 = 0.
Proof.
  unfold bsize, header_size. pose proof (osize_mod8 (snd b)).
  rewrite N.add_mod by discriminate. rewrite H. reflexivity.
Qed.
Lemma bsize_ge b : 16 <= bsize b.
Proof. unfold bsize, header_size. pose proof (osize_pos (snd b)). lia. Qed.

Lemma tiles_le a B e : tiles a B e -> a <= e.
Proof.
  revert a. induction B as [|b r IH]; cbn [tiles In app map]; intros a H; [lia|].
  destruct H as (_ & _ & H). specialize (IH _ H). pose proof (bsize_ge b). lia.
Qed.

Lemma tiles_app a B b e : tiles a B e -> fst b = e -> snd b < num_orders -> tiles a (B ++ [b]) (e + bsize b).
Proof.
  revert a. induction B as [|x r IH]; cbn [tiles In app map]; intros a H F O.
  - subst. repeat split; auto.
  - destruct H as (H1 & H2 & H3). repeat split; auto.
Qed.

Lemma tiles_in a B e b : tiles a B e -> In b B ->
  a <= fst b /\ fst b + bsize b <= e /\ snd b < num_orders /\ (fst b) mod 8 = a mod 8.
Proof.
  revert a. induction B as [|x r IH]; cbn [tiles In app map]; intros a H Hin; [contradiction|].
  destruct H as (H1 & H2 & H3). destruct Hin as [->|Hin].
  - pose proof (tiles_le _ _ _ H3). subst a. repeat split; auto; lia.
  - specialize (IH _ H3 Hin). destruct IH as (A & B' & C & D). pose proof (bsize_ge x).
    split; [lia|]. split; [exact B'|]. split; [exact C|].
    rewrite D. rewrite (N.add_mod a (bsize x) 8) by discriminate. rewrite (bsize_mod8 x), N.add_0_r. now rewrite N.mod_mod by discriminate.
Qed.

(* two blocks of a tiling are equal or disjoint *)
Lemma tiles_disjoint a B e b1 b2 : tiles a B e -> In b1 B -> In b2 B ->
  b1 = b2 \/ fst b1 + bsize b1 <= fst b2 \/ fst b2 + bsize b2 <= fst b1.
Proof.
  revert a. induction B as [|x r IH]; cbn [tiles In app map]; intros a H I1 I2; [contradiction|].
  destruct H as (H1 & H2 & H3).
  destruct I1 as [->|I1]; destruct I2 as [->|I2].
  - now left.
  - right. left. destruct (tiles_in _ _ _ _ H3 I2) as (A & _). lia.
  - right. right. destruct (tiles_in _ _ _ _ H3 I1) as (A & _). lia.
  - exact (IH _ H3 I1 I2).
Qed.

Lemma tiles_same_hp a B e b1 b2 : tiles a B e -> In b1 B -> In b2 B -> fst b1 = fst b2 -> b1 = b2.
Proof.
  intros T I1 I2 E. destruct (tiles_disjoint _ _ _ _ _ T I1 I2) as [H|[H|H]]; [exact H| |];
    pose proof (bsize_ge b1); pose proof (bsize_ge b2); lia.
Qed.

Lemma tiles_nodup a B e : tiles a B e -> NoDup (map fst B).
Proof.
  revert a. induction B as [|x r IH]; cbn [tiles In app map]; intros a H; [constructor|].
  destruct H as (H1 & H2 & H3). constructor; [|exact (IH _ H3)].
  intros Hin. apply in_map_iff in Hin as (y & E & Hy). destruct (tiles_in _ _ _ _ H3 Hy) as (A & _).
  pose proof (bsize_ge x). lia.
Qed.

(* an aligned word inside the tiled range is a header or lies wholly inside one payload *)
Lemma tiles_word a B e w : tiles a B e -> a mod 8 = 0 -> w mod 8 = 0 -> a <= w < e ->
  exists b, In b B /\ (w = fst b \/ (fst b + 8 <= w /\ w + 8 <= fst b + bsize b)).
Proof.
  revert a. induction B as [|x r IH]; cbn [tiles In app map]; intros a H A W R; [lia|].
  destruct H as (H1 & H2 & H3).
  destruct (N.lt_ge_cases w (a + bsize x)) as [Lt|Ge].
  - exists x. split; [now left|]. destruct (N.eq_dec w a) as [->|NE]; [left; congruence|right].
    pose proof (bsize_mod8 x). subst a.
    assert (fst x + 8 <= w) by (apply N.le_ngt; intros X; assert (w = fst x) by lia; congruence || lia).
    split; [assumption|]. lia.
  - destruct (IH (a + bsize x) H3) as (b & Hb & P); auto.
    + rewrite N.add_mod by discriminate. rewrite A, (bsize_mod8 x). reflexivity.
    + lia.
    + exists b. split; [now right|exact P].
Qed.
