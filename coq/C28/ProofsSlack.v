(* C28/ProofsSlack.v — the slack of a rounded-up block.  A request of [size] bytes is served with a
   block of [rsz size] = 8 * 2^order bytes.  Allocate looks at the requested size only through the
   32 MiB test and the order, and both are the same for [size] and for [rsz size]: the allocator
   cannot tell a request of [size] from a request of the whole block.  Therefore a guest that also
   uses the slack (the bytes between the requested size and the block size) is, to the allocator,
   a guest that requested the whole block — and C28_spec, which quantifies over all operation
   lists, already speaks about that guest: [round_up] rewrites every request to its block size, in
   the rounded run the observer's live range of an allocation is the whole block, so stores and
   loads anywhere in the block are performed, checked for preservation, and no-overlap is about
   the whole rounded-up block (as disjoint_blocks always was). *)
From Coq Require Import NArith List Bool Lia ZifyN ZifyBool.
From C28 Require Import Model ProofsTiles ProofsRun.
Import ListNotations.
Local Open Scope N_scope.

Definition round_size (s : N) : N := if s <=? max_alloc then rsz s else s.
Definition round_up (ops : list op) : list op :=
  map (fun o => match o with OAlloc s => OAlloc (round_size s) | _ => o end) ops.

Lemma rsz_le_max s : s <= max_alloc -> rsz s <= max_alloc.
Proof. intros H. unfold rsz. apply osize_le_max. now apply order_of_size_spec. Qed.

Lemma order_of_size_osize o : o < num_orders -> order_of_size (osize o) = o.
Proof.
  intros H. unfold order_of_size, osize, min_alloc.
  assert (E : 8 * 2 ^ o = 2 ^ (o + 3)) by (rewrite N.pow_add_r; change (2 ^ 3) with 8; lia).
  rewrite E. assert (M : N.max (2 ^ (o + 3)) 8 = 2 ^ (o + 3)).
  { apply N.max_l. change 8 with (2 ^ 3). apply N.pow_le_mono_r; lia. }
  rewrite M, N.log2_up_pow2 by lia. lia.
Qed.

Lemma order_of_size_rsz s : s <= max_alloc -> order_of_size (rsz s) = order_of_size s.
Proof. intros H. unfold rsz. apply order_of_size_osize. now apply order_of_size_spec. Qed.

(* the allocator cannot tell the requested size from the block size *)
Lemma alloc_round_up v s m size : size <= max_alloc -> alloc v s m (rsz size) = alloc v s m size.
Proof.
  intros H. unfold alloc. rewrite (order_of_size_rsz size H).
  assert ((max_alloc <? rsz size) = false) as -> by (apply N.ltb_ge; now apply rsz_le_max).
  assert ((max_alloc <? size) = false) as -> by (apply N.ltb_ge; exact H). reflexivity.
Qed.
Lemma alloc_round_size v s m size :
  fst (fst (alloc v s m (round_size size))) = fst (fst (alloc v s m size)) /\
  snd (fst (alloc v s m (round_size size))) = snd (fst (alloc v s m size)) /\
  snd (alloc v s m (round_size size)) = snd (alloc v s m size).
Proof.
  unfold round_size. destruct (size <=? max_alloc) eqn:E; [|repeat split].
  apply N.leb_le in E. now rewrite alloc_round_up.
Qed.

(* the rounded request asks for exactly its block: the whole block is the observer's live range *)
Lemma rsz_round_size s : s <= max_alloc -> rsz (round_size s) = round_size s.
Proof.
  intros H. unfold round_size. assert ((s <=? max_alloc) = true) as -> by now apply N.leb_le.
  unfold rsz at 1. now rewrite order_of_size_rsz.
Qed.

(* C28_spec for the guest that uses the whole block *)
Lemma check_run_rounded c init ops :
  c_pages c <= max_wasm_pages -> (forall a, align_up (c_hb c) <= a -> init a = 0) ->
  check c (run fixed c init (round_up ops)) = true.
Proof. intros. now apply check_run. Qed.
