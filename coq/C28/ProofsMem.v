(* C28/ProofsMem.v — bytes, 64-bit little-endian words, header encoding. *)
From Coq Require Import NArith List Bool Lia ZifyN ZifyBool.
From C28 Require Import Model.
Import ListNotations.
Local Open Scope N_scope.

Definition two64 : N := 18446744073709551616.

Lemma wr8_out f p v a : a < p \/ p + 8 <= a -> wr8 f p v a = f a.
Proof.
  intros H. unfold wr8. destruct (p <=? a) eqn:A; destruct (a <? p + 8) eqn:B; cbn; try reflexivity.
  apply N.leb_le in A. apply N.ltb_lt in B. lia.
Qed.
Lemma wr8_in f p v i : i < 8 -> wr8 f p v (p + i) = (v / 256 ^ i) mod 256.
Proof.
  intros H. unfold wr8. assert ((p <=? p + i) = true) as -> by (apply N.leb_le; lia).
  assert ((p + i <? p + 8) = true) as -> by (apply N.ltb_lt; lia). cbn. now replace (p + i - p) with i by lia.
Qed.

Lemma rd8_ext f g p : (forall i, i < 8 -> f (p + i) = g (p + i)) -> rd8 f p = rd8 g p.
Proof.
  intros H. unfold rd8.
  rewrite <- (N.add_0_r p) at 1. rewrite (H 0) by lia. rewrite N.add_0_r.
  rewrite (H 1), (H 2), (H 3), (H 4), (H 5), (H 6), (H 7) by lia. reflexivity.
Qed.

(* a word is the sum of its eight base-256 digits *)
Lemma digits8 v : v < two64 ->
  v = (v / 256 ^ 0) mod 256 + 256 * ((v / 256 ^ 1) mod 256 + 256 * ((v / 256 ^ 2) mod 256
      + 256 * ((v / 256 ^ 3) mod 256 + 256 * ((v / 256 ^ 4) mod 256 + 256 * ((v / 256 ^ 5) mod 256
      + 256 * ((v / 256 ^ 6) mod 256 + 256 * ((v / 256 ^ 7) mod 256))))))).
Proof.
  intros H. unfold two64 in H.
  change (256 ^ 0) with 1. change (256 ^ 1) with 256. change (256 ^ 2) with (256 * 256).
  change (256 ^ 3) with (256 * 256 * 256). change (256 ^ 4) with (256 * 256 * 256 * 256).
  change (256 ^ 5) with (256 * 256 * 256 * 256 * 256). change (256 ^ 6) with (256 * 256 * 256 * 256 * 256 * 256).
  change (256 ^ 7) with (256 * 256 * 256 * 256 * 256 * 256 * 256).
  rewrite <- !N.div_div by (cbv; discriminate). rewrite N.div_1_r.
  assert (B1 : v / 256 < 72057594037927936) by (apply N.div_lt_upper_bound; [discriminate|lia]).
  assert (B2 : v / 256 / 256 < 281474976710656) by (apply N.div_lt_upper_bound; [discriminate|lia]).
  assert (B3 : v / 256 / 256 / 256 < 1099511627776) by (apply N.div_lt_upper_bound; [discriminate|lia]).
  assert (B4 : v / 256 / 256 / 256 / 256 < 4294967296) by (apply N.div_lt_upper_bound; [discriminate|lia]).
  assert (B5 : v / 256 / 256 / 256 / 256 / 256 < 16777216) by (apply N.div_lt_upper_bound; [discriminate|lia]).
  assert (B6 : v / 256 / 256 / 256 / 256 / 256 / 256 < 65536) by (apply N.div_lt_upper_bound; [discriminate|lia]).
  assert (B7 : v / 256 / 256 / 256 / 256 / 256 / 256 / 256 < 256) by (apply N.div_lt_upper_bound; [discriminate|lia]).
  assert (Hs : v / 256 / 256 / 256 / 256 / 256 / 256 / 256 / 256 = 0) by (apply N.div_small; exact B7).
  clear B1 B2 B3 B4 B5 B6 B7.
  pose proof (N.div_mod v 256 ltac:(discriminate)) as E0. remember (v / 256) as a1.
  pose proof (N.div_mod a1 256 ltac:(discriminate)) as E1. remember (a1 / 256) as a2.
  pose proof (N.div_mod a2 256 ltac:(discriminate)) as E2. remember (a2 / 256) as a3.
  pose proof (N.div_mod a3 256 ltac:(discriminate)) as E3. remember (a3 / 256) as a4.
  pose proof (N.div_mod a4 256 ltac:(discriminate)) as E4. remember (a4 / 256) as a5.
  pose proof (N.div_mod a5 256 ltac:(discriminate)) as E5. remember (a5 / 256) as a6.
  pose proof (N.div_mod a6 256 ltac:(discriminate)) as E6. remember (a6 / 256) as a7.
  pose proof (N.div_mod a7 256 ltac:(discriminate)) as E7. rewrite Hs in E7.
  clear Heqa1 Heqa2 Heqa3 Heqa4 Heqa5 Heqa6 Heqa7 Hs H.
  generalize dependent (v mod 256). generalize dependent (a1 mod 256). generalize dependent (a2 mod 256).
  generalize dependent (a3 mod 256). generalize dependent (a4 mod 256). generalize dependent (a5 mod 256).
  generalize dependent (a6 mod 256). generalize dependent (a7 mod 256). intros. lia.
Qed.

Lemma rd8_wr8_same f p v : v < two64 -> rd8 (wr8 f p v) p = v.
Proof.
  intros H. unfold rd8.
  assert (E0 : wr8 f p v p = (v / 256 ^ 0) mod 256).
  { rewrite <- (wr8_in f p v 0) by lia. now rewrite N.add_0_r. }
  rewrite E0. rewrite !wr8_in by lia. symmetry. now apply digits8.
Qed.
Lemma rd8_wr8_other f p v q : q + 8 <= p \/ p + 8 <= q -> rd8 (wr8 f p v) q = rd8 f q.
Proof. intros H. apply rd8_ext. intros i Hi. apply wr8_out. lia. Qed.
Lemma rd8_wr1_other f a v q : a < q \/ q + 8 <= a -> rd8 (wr1 f a v) q = rd8 f q.
Proof.
  intros H. apply rd8_ext. intros i Hi. unfold wr1. destruct (q + i =? a) eqn:E; [|reflexivity].
  apply N.eqb_eq in E. lia.
Qed.
Lemma rd8_zero f p : (forall i, i < 8 -> f (p + i) = 0) -> rd8 f p = 0.
Proof.
  intros H. unfold rd8. pose proof (H 0 ltac:(lia)) as H0. rewrite N.add_0_r in H0. rewrite H0.
  rewrite (H 1), (H 2), (H 3), (H 4), (H 5), (H 6), (H 7) by lia. reflexivity.
Qed.

(* headers *)
Lemma decode_free raw : raw < two32 -> decode_header raw = inl (HFree (link_of_raw raw)).
Proof.
  intros H. unfold decode_header. rewrite N.mod_small by exact H.
  assert (N.testbit raw 32 = false) as ->; [|reflexivity].
  destruct (N.eq_dec raw 0) as [->|NZ]; [reflexivity|].
  apply N.bits_above_log2. apply N.log2_lt_pow2; [lia|]. exact H.
Qed.
Lemma decode_occ o : o < num_orders -> decode_header (o + occ_mask) = inl (HOcc o).
Proof.
  intros H. unfold decode_header, occ_mask, num_orders, two32 in *.
  assert (T : N.testbit (o + 4294967296) 32 = true).
  { replace (o + 4294967296) with (o + 1 * 2 ^ 32) by reflexivity.
    rewrite N.add_comm. rewrite N.mul_comm. rewrite N.testbit_eqb.
    replace (2 ^ 32 * 1 + o) with (o + 1 * 2 ^ 32) by lia.
    rewrite N.div_add by discriminate. rewrite (N.div_small o) by (cbn; lia). reflexivity. }
  rewrite T. replace (o + 4294967296) with (o + 1 * 4294967296) by lia.
  rewrite N.mod_add by discriminate. rewrite N.mod_small by lia.
  assert ((o <? 23) = true) as -> by (apply N.ltb_lt; exact H). reflexivity.
Qed.
Lemma link_raw_roundtrip l : l <> Some nil_marker -> link_of_raw (raw_of_link l) = l.
Proof.
  intros H. destruct l as [q|]; cbn.
  - unfold link_of_raw. destruct (q =? nil_marker) eqn:E; [|reflexivity]. apply N.eqb_eq in E. congruence.
  - reflexivity.
Qed.
