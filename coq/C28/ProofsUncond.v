(* C28/ProofsUncond.v — the unconditional part of the property (Model.check_uncond): facts about
   Allocate / Deallocate that need no invariant and therefore hold from every state, on every
   memory (any contents, any page maximum), for both variants of the model. *)
From Coq Require Import NArith List Bool Lia ZifyN ZifyBool.
From C28 Require Import Model.
Import ListNotations.
Local Open Scope N_scope.

Lemma pages_of_msize m cur : pages_from_size (msize m) = Some cur -> cur = m_pages m.
Proof.
  unfold pages_from_size, msize, page_size.
  replace (m_pages m * 65536 + 65536 - 1) with (65535 + m_pages m * 65536) by lia.
  rewrite N.div_add by discriminate. change (65535 / 65536) with 0. rewrite N.add_0_l.
  destruct (max_u32 <? m_pages m); [discriminate|]. now intros [= <-].
Qed.

(* bump never shrinks the memory and never grows it past 65536 pages, whatever the memory's own
   maximum is: the page arithmetic of the Go code (min(2*current, MaxWasmPages), required pages
   checked against MaxWasmPages) is what bounds it *)
Lemma bump_pages v bumper size m hp b' m' :
  bump v bumper size m = inl (hp, b', m') ->
  m_pages m <= m_pages m' /\ (m_pages m <= max_wasm_pages -> m_pages m' <= max_wasm_pages).
Proof.
  unfold bump. destruct (v_fix_wrap v && (max_u32 <? bumper + size)); [discriminate|].
  destruct (msize m <? bumper + size).
  - destruct (pages_from_size (bumper + size)) as [rp|]; [|discriminate].
    destruct (pages_from_size (msize m)) as [cur|] eqn:CP; [|discriminate].
    apply pages_of_msize in CP. subst cur.
    destruct (max_wasm_pages <=? m_pages m) eqn:C1; [discriminate|].
    destruct (max_wasm_pages <? rp) eqn:C2; [discriminate|].
    destruct (grow m (N.max (N.min (m_pages m * 2) max_wasm_pages) rp - m_pages m)) as [m1|] eqn:GR; [|discriminate].
    intros [= <- <- <-]. unfold grow in GR.
    destruct (m_pages m + (N.max (N.min (m_pages m * 2) max_wasm_pages) rp - m_pages m) <=? m_max m); [|discriminate].
    injection GR as <-. cbn [m_pages]. unfold max_wasm_pages in *. lia.
  - intros [= <- <- <-]. split; [lia|auto].
Qed.

Lemma write_header_pages m hp h m' : write_header m hp h = Some m' -> m_pages m' = m_pages m.
Proof.
  unfold write_header, write_u64. destruct (hp + 8 <=? msize m); [|discriminate]. now intros [= <-].
Qed.

(* Allocate: the answer is a pointer or an error; the memory is never shrunk, never grown past
   4 GiB; an error poisons; a poisoned allocator and an oversized request fail *)
Lemma alloc_uncond v s m size r s' m' :
  alloc v s m size = (r, s', m') ->
  (exists p, r = RPtr p) \/ (exists e, r = RErr e) /\ s_poisoned s' = true.
Proof.
  unfold alloc. destruct (s_poisoned s) eqn:P; [intros [= <- <- <-]; right; split; [eexists; reflexivity|exact P]|].
  destruct (msize m <? s_last s); [intros [= <- <- <-]; right; split; [eexists|]; reflexivity|].
  destruct (max_alloc <? size); [intros [= <- <- <-]; right; split; [eexists|]; reflexivity|].
  cbn [with_last s_heads s_hb s_bumper s_last s_ba s_poisoned].
  destruct (s_heads s (order_of_size size)) as [hp|].
  - destruct (msize m <? hp + osize (order_of_size size) + header_size); [intros [= <- <- <-]; right; split; [eexists|]; reflexivity|].
    destruct (read_header m hp) as [[l|o']|e]; try (intros [= <- <- <-]; right; split; [eexists|]; reflexivity).
    destruct (write_header m hp (HOcc (order_of_size size))); intros [= <- <- <-];
      [left; eexists; reflexivity|right; split; [eexists|]; reflexivity].
  - destruct (bump v (s_bumper s) (osize (order_of_size size) + header_size) m) as [[[hp b'] m1]|e];
      [|intros [= <- <- <-]; right; split; [eexists|]; reflexivity].
    destruct (write_header m1 hp (HOcc (order_of_size size))); intros [= <- <- <-];
      [left; eexists; reflexivity|right; split; [eexists|]; reflexivity].
Qed.

Lemma alloc_pages v s m size r s' m' :
  alloc v s m size = (r, s', m') ->
  m_pages m <= m_pages m' /\ (m_pages m <= max_wasm_pages -> m_pages m' <= max_wasm_pages).
Proof.
  assert (SAME : m_pages m <= m_pages m /\ (m_pages m <= max_wasm_pages -> m_pages m <= max_wasm_pages)) by (split; [lia|auto]).
  unfold alloc. destruct (s_poisoned s); [intros [= <- <- <-]; exact SAME|].
  destruct (msize m <? s_last s); [intros [= <- <- <-]; exact SAME|].
  destruct (max_alloc <? size); [intros [= <- <- <-]; exact SAME|].
  cbn [with_last s_heads s_hb s_bumper s_last s_ba s_poisoned].
  destruct (s_heads s (order_of_size size)) as [hp|].
  - destruct (msize m <? hp + osize (order_of_size size) + header_size); [intros [= <- <- <-]; exact SAME|].
    destruct (read_header m hp) as [[l|o']|e]; try (intros [= <- <- <-]; exact SAME).
    destruct (write_header m hp (HOcc (order_of_size size))) as [m2|] eqn:W; intros [= <- <- <-]; [|exact SAME].
    rewrite (write_header_pages _ _ _ _ W). exact SAME.
  - destruct (bump v (s_bumper s) (osize (order_of_size size) + header_size) m) as [[[hp b'] m1]|e] eqn:BU;
      [|intros [= <- <- <-]; exact SAME].
    pose proof (bump_pages _ _ _ _ _ _ _ BU) as BP.
    destruct (write_header m1 hp (HOcc (order_of_size size))) as [m2|] eqn:W; intros [= <- <- <-]; [|exact BP].
    rewrite (write_header_pages _ _ _ _ W). exact BP.
Qed.

Lemma alloc_poisoned v s m size : s_poisoned s = true -> alloc v s m size = (RErr EPoisoned, s, m).
Proof. intros H. unfold alloc. now rewrite H. Qed.
Lemma alloc_oversized v s m size r s' m' :
  max_alloc < size -> alloc v s m size = (r, s', m') -> exists e, r = RErr e.
Proof.
  intros H. unfold alloc. destruct (s_poisoned s); [intros [= <- <- <-]; eexists; reflexivity|].
  destruct (msize m <? s_last s); [intros [= <- <- <-]; eexists; reflexivity|].
  assert ((max_alloc <? size) = true) as -> by (apply N.ltb_lt; exact H). intros [= <- <- <-]. eexists; reflexivity.
Qed.

(* Deallocate: ok or an error; the memory size is untouched; an error poisons *)
Lemma dealloc_uncond v s m ptr r s' m' :
  dealloc v s m ptr = (r, s', m') ->
  (r = ROk \/ (exists e, r = RErr e) /\ s_poisoned s' = true) /\ m_pages m' = m_pages m.
Proof.
  unfold dealloc. destruct (s_poisoned s) eqn:P; [intros [= <- <- <-]; split; [right; split; [eexists; reflexivity|exact P]|reflexivity]|].
  destruct (msize m <? s_last s); [intros [= <- <- <-]; split; [right; split; [eexists|]; reflexivity|reflexivity]|].
  destruct (v_fix_align v && negb (ptr mod 8 =? 0)); [intros [= <- <- <-]; split; [right; split; [eexists|]; reflexivity|reflexivity]|].
  destruct (ptr <? header_size); [intros [= <- <- <-]; split; [right; split; [eexists|]; reflexivity|reflexivity]|].
  destruct (read_header m (ptr - header_size)) as [[l|o]|e];
    try (intros [= <- <- <-]; split; [right; split; [eexists|]; reflexivity|reflexivity]).
  destruct (write_header m (ptr - header_size) (HFree (s_heads (with_last s (msize m)) o))) as [m1|] eqn:W;
    [|intros [= <- <- <-]; split; [right; split; [eexists|]; reflexivity|reflexivity]].
  pose proof (write_header_pages _ _ _ _ W) as PG.
  cbn [s_ba with_last]. destruct (s_ba s <? osize o + header_size); intros [= <- <- <-].
  - split; [right; split; [eexists|]; reflexivity|exact PG].
  - split; [left; reflexivity|exact PG].
Qed.
Lemma dealloc_poisoned v s m ptr : s_poisoned s = true -> dealloc v s m ptr = (RErr EPoisoned, s, m).
Proof. intros H. unfold dealloc. now rewrite H. Qed.

(* ---- every run passes the unconditional checker ---- *)
Lemma uncond_run v : forall ops s m g dead pg,
  (dead = true -> s_poisoned s = true) -> pg = m_pages m ->
  uncond_from dead pg (run_from v (s, m, g) ops) = true.
Proof.
  induction ops as [|o ops IH]; intros s m g dead pg D ->; cbn [run_from uncond_from]; [reflexivity|].
  destruct o; cbn [step].
  - (* Allocate *)
    destruct (alloc v s m size) as [[r s'] m'] eqn:A. cbn [uncond_from o_res o_pages is_call andb].
    destruct (alloc_pages _ _ _ _ _ _ _ A) as (P1 & P2).
    apply andb_true_iff. split.
    + unfold uncond_ok. cbn [o_res o_pages]. apply andb_true_iff. split; [apply andb_true_iff; split|].
      * destruct dead.
        -- rewrite (alloc_poisoned v s m size (D eq_refl)) in A. injection A as <- _ _. reflexivity.
        -- destruct (alloc_uncond _ _ _ _ _ _ _ A) as [(p & ->)|((e & ->) & _)]; [|reflexivity].
           cbn [negb andb]. apply N.leb_le. destruct (N.le_gt_cases size max_alloc) as [L|G]; [exact L|].
           destruct (alloc_oversized _ _ _ _ _ _ _ G A) as (e & E). discriminate.
      * apply N.leb_le. exact P1.
      * destruct (max_wasm_pages <? m_pages m) eqn:C; [reflexivity|]. apply N.ltb_ge in C.
        cbn [orb]. apply N.leb_le. now apply P2.
    + apply IH; [|reflexivity]. intros Hd. apply orb_true_iff in Hd as [Hd|Hd].
      * rewrite (alloc_poisoned v s m size (D Hd)) in A. injection A as _ <- _. exact (D Hd).
      * destruct (alloc_uncond _ _ _ _ _ _ _ A) as [(p & ->)|(_ & P)]; [discriminate|exact P].
  - (* Deallocate *)
    destruct (dealloc v s m ptr) as [[r s'] m'] eqn:A. cbn [uncond_from o_res o_pages is_call andb].
    destruct (dealloc_uncond _ _ _ _ _ _ _ A) as (R & PG).
    apply andb_true_iff. split.
    + unfold uncond_ok. cbn [o_res o_pages]. apply andb_true_iff. split; [|apply N.eqb_eq; exact PG].
      destruct dead.
      * rewrite (dealloc_poisoned v s m ptr (D eq_refl)) in A. injection A as <- _ _. reflexivity.
      * destruct R as [->|((e & ->) & _)]; reflexivity.
    + apply IH; [|reflexivity]. intros Hd. apply orb_true_iff in Hd as [Hd|Hd].
      * rewrite (dealloc_poisoned v s m ptr (D Hd)) in A. injection A as _ <- _. exact (D Hd).
      * destruct R as [->|(_ & P)]; [discriminate|exact P].
  - destruct (in_live (g_live g) addr); cbn [uncond_from uncond_ok is_call andb o_pages m_pages];
      rewrite orb_false_r; (apply IH; [exact D|reflexivity]).
  - destruct (in_live (g_live g) addr); cbn [uncond_from uncond_ok is_call andb o_pages m_pages];
      rewrite orb_false_r; (apply IH; [exact D|reflexivity]).
  - destruct (grow m pages) as [m1|]; cbn [uncond_from uncond_ok is_call andb o_pages m_pages];
      rewrite orb_false_r; (apply IH; [exact D|reflexivity]).
  - cbn [uncond_from uncond_ok is_call andb o_pages m_pages]. rewrite orb_false_r. apply IH; [exact D|reflexivity].
Qed.

Theorem check_uncond_run v c init ops : check_uncond c (run v c init ops) = true.
Proof. unfold check_uncond, run. apply (uncond_run v ops _ (init_mem c init)); [discriminate|reflexivity]. Qed.
