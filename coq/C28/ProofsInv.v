(* C28/ProofsInv.v — the invariant tying the allocator state, the memory, the observer's ghost
   state and a ghost list of blocks (every block ever carved out of [heap base, bumper), with its
   order; a map says which of them are live and with what requested size). *)
From Coq Require Import NArith List Bool Lia ZifyN ZifyBool.
From C28 Require Import Model ProofsMem ProofsTiles.
Import ListNotations.
Local Open Scope N_scope.

Definition lvmap := N -> option N.
Definition lv_set (lv : lvmap) (hp : N) (x : option N) : lvmap := fun q => if q =? hp then x else lv q.

Fixpoint chain (f : N -> N) (link : option N) (l : list N) : Prop :=
  match l with
  | [] => link = None
  | hp :: l' => link = Some hp /\ rd8 f hp < two32 /\ chain f (link_of_raw (rd8 f hp)) l'
  end.

Fixpoint live_bytes (B : list block) (lv : lvmap) : N :=
  match B with
  | [] => 0
  | b :: r => (match lv (fst b) with Some _ => bsize b | None => 0 end) + live_bytes r lv
  end.

Record Struct (s : st) (m : mem) (g : ghost) (B : list block) (lv : lvmap) : Prop := mkStruct {
  st_hb8 : s_hb s mod 8 = 0;
  st_tiles : tiles (s_hb s) B (s_bumper s);
  st_bump : s_bumper s < two32;
  st_mem : forall b, In b B -> fst b + bsize b <= msize m;
  st_live : forall p sz, In (p, sz) (g_live g) <-> exists b, In b B /\ lv (fst b) = Some sz /\ p = fst b + 8;
  st_lo : forall b sz, In b B -> lv (fst b) = Some sz -> snd b = order_of_size sz /\ sz <= max_alloc;
  st_hl : forall b sz, In b B -> lv (fst b) = Some sz -> rd8 (m_data m) (fst b) = snd b + occ_mask;
  st_fl : forall o, o < num_orders -> exists l, chain (m_data m) (s_heads s o) l /\ NoDup l /\
            forall hp, In hp l <-> (In (hp, o) B /\ lv hp = None);
  st_zero : forall a, s_hb s <= a -> (forall b, In b B -> ~ (fst b <= a < fst b + 8)) ->
                      ~ In a (g_written g) -> m_data m a = 0;
  st_wr : forall a, In a (g_written g) -> exists b, In b B /\ fst b + 8 <= a < fst b + bsize b;
  st_ba : s_ba s = live_bytes B lv
}.

Definition shadow_ok (m : mem) (g : ghost) : Prop :=
  forall a v, lookup (g_shadow g) a = Some v -> m_data m a = v.

Record Inv (s : st) (m : mem) (g : ghost) : Prop := mkInv {
  i_shadow : shadow_ok m g;
  i_shw : forall a v, lookup (g_shadow g) a = Some v -> In a (g_written g);
  i_wlow : forall a, In a (g_written g) -> s_hb s + header_size <= a;
  i_llow : forall p sz, In (p, sz) (g_live g) -> s_hb s + header_size <= p;
  i_dead : g_dead g = s_poisoned s;
  i_pages : m_pages m <= max_wasm_pages;
  i_gpages : g_pages g = m_pages m;
  i_struct : s_poisoned s = false -> exists B lv, Struct s m g B lv
}.

(* ---- chains ---- *)
Lemma chain_ext f f' link l : (forall hp, In hp l -> rd8 f' hp = rd8 f hp) -> chain f link l -> chain f' link l.
Proof.
  revert link. induction l as [|hp l IH]; cbn [chain]; intros link E H; [exact H|].
  destruct H as (A & B & C). rewrite (E hp) by now left. repeat split; auto.
  apply IH; auto. intros q Hq. apply E. now right.
Qed.

(* ---- live bytes ---- *)
Lemma live_bytes_ext B lv lv' : (forall b, In b B -> lv' (fst b) = lv (fst b)) -> live_bytes B lv' = live_bytes B lv.
Proof.
  induction B as [|b r IH]; cbn [live_bytes]; intros E; [reflexivity|].
  rewrite (E b) by now left. f_equal. apply IH. intros c Hc. apply E. now right.
Qed.

Lemma live_bytes_set a B e lv b x : tiles a B e -> In b B ->
  live_bytes B (lv_set lv (fst b) x) + (match lv (fst b) with Some _ => bsize b | None => 0 end)
  = live_bytes B lv + (match x with Some _ => bsize b | None => 0 end).
Proof.
  revert a. induction B as [|c r IH]; cbn [tiles In live_bytes]; intros a T Hin; [contradiction|].
  destruct T as (T1 & T2 & T3). destruct Hin as [->|Hin].
  - unfold lv_set at 1. rewrite N.eqb_refl.
    rewrite (live_bytes_ext r lv (lv_set lv (fst b) x)).
    + destruct x, (lv (fst b)); lia.
    + intros d Hd. unfold lv_set. destruct (fst d =? fst b) eqn:E; [|reflexivity].
      apply N.eqb_eq in E. destruct (tiles_in _ _ _ _ T3 Hd) as (A & _). pose proof (bsize_ge b). lia.
  - specialize (IH _ T3 Hin). unfold lv_set at 1.
    destruct (fst c =? fst b) eqn:E.
    + apply N.eqb_eq in E. destruct (tiles_in _ _ _ _ T3 Hin) as (A & _). pose proof (bsize_ge c). lia.
    + lia.
Qed.

Lemma live_bytes_le a B e lv : tiles a B e -> live_bytes B lv + a <= e.
Proof.
  revert a. induction B as [|c r IH]; cbn [tiles live_bytes]; intros a T; [lia|].
  destruct T as (T1 & T2 & T3). specialize (IH _ T3). destruct (lv (fst c)); lia.
Qed.

Lemma live_bytes_app B lv b : live_bytes (B ++ [b]) lv = live_bytes B lv + (match lv (fst b) with Some _ => bsize b | None => 0 end).
Proof. induction B as [|c r IH]; cbn [app live_bytes]; [lia|]. rewrite IH. lia. Qed.
