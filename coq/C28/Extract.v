From Coq Require Import Extraction ExtrOcamlBasic.
From Common Require Import Bytes Drv.
From C28 Require Import Model.
Extraction "model.ml" drv_b2n drv_n2b drv_z_of_n drv_n_of_z drv_nat_of_n drv_n_of_nat
  fixed prefix mkCfg run check step_ok track ghost0 align_up zero_mem rsz order_of_size exempt is_live_ptr
  check_uncond uncond_ok is_call is_err max_wasm_pages
  nil_marker header_size num_orders min_alloc max_alloc page_size encode_header occ_mask.
