(* C28/Model.v — executable model of lib/runtime/allocator/freeing_bump.go (definitions only).

   Mirrors, branch for branch: NewFreeingBumpHeapAllocator, Allocate, Deallocate, bump,
   pagesFromSize, checkedSub, orderFromSize, orderFromRaw, readHeaderFromMemory, writeHeaderInto,
   the 23 free-list heads, the poisoning `defer`, lastObservedMemorySize and stats.bytesAllocated
   (it decides an error return).  uint32 / uint64 wraps are written out.

   Linear memory is a byte map with a size in pages (a fake runtime.Memory on the Go side):
   ReadUint64Le / WriteUint64Le succeed iff offset + 8 <= Size(), Grow succeeds iff the page
   maximum is respected.

   Two variants are kept side by side:
     [fixed]  — the repaired code (fixes/C28-*.patch): bump refuses to move the bumper to 2^32,
                Deallocate rejects pointers that are not 8-byte aligned;
     [prefix] — the pinned tree before the fixes (used only by the _refuted theorems).

   The second half of the file is the *specification checker* [check]: the property C28 as an
   executable predicate over a trace of operations and observed results.  The driver applies it
   to the observables of the Go implementation, the theorems are about it applied to the model. *)
From Coq Require Import NArith List Bool.
Import ListNotations.
Local Open Scope N_scope.

(* ---- constants (tied to the Go source through Gen.v, see Proofs.v) ---- *)
Definition two32 : N := 4294967296.
Definition page_size : N := 65536.
Definition max_wasm_pages : N := 65536.
Definition num_orders : N := 23.
Definition min_alloc : N := 8.
Definition max_alloc : N := 33554432.
Definition header_size : N := 8.
Definition nil_marker : N := 4294967295.     (* math.MaxUint32 *)
Definition occ_mask : N := 4294967296.       (* 0x00000001_00000000 *)
Definition max_u32 : N := 4294967295.

(* ---- linear memory ---- *)
Record mem := mkMem { m_pages : N; m_max : N; m_data : N -> N }.
Definition msize (m : mem) : N := m_pages m * page_size.

(* little-endian 64-bit word at byte address p *)
Definition rd8 (f : N -> N) (p : N) : N :=
  f p + 256 * (f (p + 1) + 256 * (f (p + 2) + 256 * (f (p + 3) + 256 * (f (p + 4)
      + 256 * (f (p + 5) + 256 * (f (p + 6) + 256 * f (p + 7))))))).
Definition wr8 (f : N -> N) (p v : N) : N -> N :=
  fun a => if (p <=? a) && (a <? p + 8) then (v / 256 ^ (a - p)) mod 256 else f a.
Definition wr1 (f : N -> N) (p v : N) : N -> N :=
  fun a => if a =? p then v mod 256 else f a.

Definition read_u64 (m : mem) (p : N) : option N :=
  if p + 8 <=? msize m then Some (rd8 (m_data m) p) else None.
Definition write_u64 (m : mem) (p v : N) : option mem :=
  if p + 8 <=? msize m then Some (mkMem (m_pages m) (m_max m) (wr8 (m_data m) p v)) else None.
Definition grow (m : mem) (delta : N) : option mem :=
  if m_pages m + delta <=? m_max m then Some (mkMem (m_pages m + delta) (m_max m) (m_data m)) else None.

(* ---- orders, links, headers ---- *)
Definition osize (o : N) : N := min_alloc * 2 ^ o.        (* MinPossibleAllocations << order *)

(* orderFromSize for size <= MaxPossibleAllocations: clamp to 8, round up to a power of two
   (nextPowerOf2GT8), count trailing zeros, subtract 3 *)
Definition order_of_size (s : N) : N := N.log2_up (N.max s min_alloc) - 3.

(* the same, as the Go code computes it: nextPowerOf2GT8 (the bit-smearing trick on uint32, wraps
   written out) followed by bits.TrailingZeros32 of the resulting power of two (= its binary
   logarithm) minus 3.  ProofsPow2.v proves it equal to [order_of_size] up to 32 MiB. *)
Definition smear_step (x k : N) : N := N.lor x (N.shiftr x k).
Definition next_pow2_gt8 (v : N) : N :=
  if v <? 8 then 8 else
  let x := (v + 4294967295) mod two32 in            (* v-- *)
  let x := smear_step x 1 in let x := smear_step x 2 in let x := smear_step x 4 in
  let x := smear_step x 8 in let x := smear_step x 16 in
  (x + 1) mod two32.                                 (* v++ *)
Definition order_from_size_go (size : N) : N :=
  let size := if size <? min_alloc then min_alloc else size in
  N.log2 (next_pow2_gt8 size) - 3.

Inductive err :=
| EPoisoned | EShrunk | ETooLarge | EHdrPtr | EReadHdr | EInvalidOrder | EOccInFree
| EOOS | EGrow | EWriteHdr | EInvalidPtr | EEmptyHdr | EUnderflow | EPanic.

Inductive header := HFree (link : option N) | HOcc (o : N).

Definition link_of_raw (r : N) : option N := if r =? nil_marker then None else Some r.
Definition raw_of_link (l : option N) : N := match l with None => nil_marker | Some p => p end.

Definition decode_header (raw : N) : header + err :=
  let data := raw mod two32 in
  if N.testbit raw 32 then
    (if data <? num_orders then inl (HOcc data) else inr EInvalidOrder)
  else inl (HFree (link_of_raw data)).
Definition encode_header (h : header) : N :=
  match h with HOcc o => o + occ_mask | HFree l => raw_of_link l end.

Definition read_header (m : mem) (p : N) : header + err :=
  match read_u64 m p with None => inr EReadHdr | Some raw => decode_header raw end.
Definition write_header (m : mem) (p : N) (h : header) : option mem := write_u64 m p (encode_header h).

(* ---- allocator state ---- *)
Record st := mkSt {
  s_hb : N;                    (* originalHeapBase (aligned) *)
  s_bumper : N;
  s_heads : N -> option N;     (* freeLists.heads, orders 0..22 *)
  s_poisoned : bool;
  s_last : N;                  (* lastObservedMemorySize *)
  s_ba : N                     (* stats.bytesAllocated *)
}.

Definition align_up (hb : N) : N := ((hb + 7) mod two32) / 8 * 8.
Definition init_st (heap_base : N) : st :=
  mkSt (align_up heap_base) (align_up heap_base) (fun _ => None) false 0 0.

Definition set_head (h : N -> option N) (o : N) (l : option N) : N -> option N :=
  fun x => if x =? o then l else h x.

Record variant := mkVar { v_fix_wrap : bool; v_fix_align : bool }.
Definition fixed : variant := mkVar true true.
Definition prefix : variant := mkVar false false.

Definition pages_from_size (size : N) : option N :=
  let v := (size + page_size - 1) / page_size in if max_u32 <? v then None else Some v.

(* bump(&bumper, size, mem) *)
Definition bump (v : variant) (bumper size : N) (m : mem) : (N * N * mem) + err :=
  let required := bumper + size in
  if v_fix_wrap v && (max_u32 <? required) then inr EOOS else
  let grown :=
    if msize m <? required then
      match pages_from_size required with
      | None => inr EOOS
      | Some required_pages =>
        match pages_from_size (msize m) with
        | None => inr EPanic
        | Some current_pages =>
          if max_wasm_pages <=? current_pages then inr EOOS
          else if max_wasm_pages <? required_pages then inr EOOS
          else
            let next_pages := N.max (N.min (current_pages * 2) max_wasm_pages) required_pages in
            match grow m (next_pages - current_pages) with
            | None => inr EGrow
            | Some m' => inl m'
            end
        end
      end
    else inl m in
  match grown with
  | inr e => inr e
  | inl m' => inl (bumper, (bumper + size) mod two32, m')
  end.

Inductive res := RPtr (p : N) | RErr (e : err) | ROk | RVal (v : N) | RSkip.

Definition poison (s : st) : st :=
  mkSt (s_hb s) (s_bumper s) (s_heads s) true (s_last s) (s_ba s).
Definition with_last (s : st) (l : N) : st :=
  mkSt (s_hb s) (s_bumper s) (s_heads s) (s_poisoned s) l (s_ba s).

(* Allocate(mem, size) *)
Definition alloc (v : variant) (s : st) (m : mem) (size : N) : res * st * mem :=
  if s_poisoned s then (RErr EPoisoned, s, m) else
  if msize m <? s_last s then (RErr EShrunk, poison s, m) else
  let s := with_last s (msize m) in
  if max_alloc <? size then (RErr ETooLarge, poison s, m) else
  let o := order_of_size size in
  let got : (N * st * mem) + err :=
    match s_heads s o with
    | Some hp =>
      if msize m <? hp + osize o + header_size then inr EHdrPtr else
      match read_header m hp with
      | inr e => inr e
      | inl (HOcc _) => inr EOccInFree
      | inl (HFree next) =>
        inl (hp, mkSt (s_hb s) (s_bumper s) (set_head (s_heads s) o next) false (s_last s) (s_ba s), m)
      end
    | None =>
      match bump v (s_bumper s) (osize o + header_size) m with
      | inr e => inr e
      | inl (hp, b', m') => inl (hp, mkSt (s_hb s) b' (s_heads s) false (s_last s) (s_ba s), m')
      end
    end in
  match got with
  | inr e => (RErr e, poison s, m)
  | inl (hp, s1, m1) =>
    match write_header m1 hp (HOcc o) with
    | None => (RErr EWriteHdr, poison s1, m1)
    | Some m2 =>
      let s2 := mkSt (s_hb s1) (s_bumper s1) (s_heads s1) false (s_last s1)
                     ((s_ba s1 + (osize o + header_size)) mod two32) in
      (RPtr ((hp + header_size) mod two32), s2, m2)
    end
  end.

(* Deallocate(mem, ptr) *)
Definition dealloc (v : variant) (s : st) (m : mem) (ptr : N) : res * st * mem :=
  if s_poisoned s then (RErr EPoisoned, s, m) else
  if msize m <? s_last s then (RErr EShrunk, poison s, m) else
  let s := with_last s (msize m) in
  if v_fix_align v && negb (ptr mod 8 =? 0) then (RErr EInvalidPtr, poison s, m) else
  if ptr <? header_size then (RErr EInvalidPtr, poison s, m) else
  let hp := ptr - header_size in
  match read_header m hp with
  | inr e => (RErr e, poison s, m)
  | inl (HFree _) => (RErr EEmptyHdr, poison s, m)
  | inl (HOcc o) =>
    let prev := s_heads s o in
    let s1 := mkSt (s_hb s) (s_bumper s) (set_head (s_heads s) o (Some hp)) false (s_last s) (s_ba s) in
    match write_header m hp (HFree prev) with
    | None => (RErr EWriteHdr, poison s1, m)
    | Some m1 =>
      if s_ba s1 <? osize o + header_size then (RErr EUnderflow, poison s1, m1)
      else (ROk, mkSt (s_hb s1) (s_bumper s1) (s_heads s1) false (s_last s1)
                       (s_ba s1 - (osize o + header_size)), m1)
    end
  end.

(* ================= traces and the specification checker ================= *)

Inductive op :=
| OAlloc (size : N)
| OFree (ptr : N)
| OWrite (addr val : N)     (* the guest stores one byte *)
| ORead (addr : N)          (* the guest loads one byte *)
| OGrow (pages : N)         (* the guest executes memory.grow *)
| OSetPages (pages : N).    (* the embedder swaps the memory object (may shrink) *)

Record obs := mkObs { o_res : res; o_pages : N }.

(* ghost state of the checker: what an observer of the calls knows *)
Record ghost := mkGhost {
  g_live : list (N * N);        (* (pointer, requested size) of the live allocations *)
  g_shadow : list (N * N);      (* (address, value) stored by the guest, latest first *)
  g_written : list N;           (* every address the guest has ever stored to *)
  g_dead : bool;                (* an allocator call has failed: the allocator must be poisoned *)
  g_void : bool;                (* an assumption was broken (forged header, shrunk memory) *)
  g_pages : N                   (* memory size in pages after the last operation *)
}.
Definition ghost0 (pages : N) : ghost := mkGhost [] [] [] false false pages.

Definition rsz (size : N) : N := osize (order_of_size size).     (* the rounded-up block *)

Definition in_live (live : list (N * N)) (a : N) : bool :=
  existsb (fun ps => (fst ps <=? a) && (a <? fst ps + snd ps)) live.
Definition is_live_ptr (live : list (N * N)) (p : N) : bool :=
  existsb (fun ps => fst ps =? p) live.
Definition remove_live (live : list (N * N)) (p : N) : list (N * N) :=
  filter (fun ps => negb (fst ps =? p)) live.
Fixpoint lookup (sh : list (N * N)) (a : N) : option N :=
  match sh with
  | [] => None
  | (a', v) :: r => if a' =? a then Some v else lookup r a
  end.
Definition clear_range (sh : list (N * N)) (lo hi : N) : list (N * N) :=
  filter (fun av => negb ((lo <=? fst av) && (fst av <? hi))) sh.

(* blocks [p-8, p+rsz s) and [q-8, q+rsz t) do not intersect *)
Definition disjoint_blocks (p s q t : N) : bool :=
  (p + rsz s <=? q - header_size) || (q + rsz t <=? p - header_size).

(* the would-be header of ptr lies (partly) in memory the allocator does not control:
   below the heap base, or in bytes the guest has stored to *)
Definition wexempt (written : list N) (ptr : N) : bool :=
  existsb (fun a => (ptr - header_size <=? a) && (a <? ptr)) written.
Definition exempt (hb : N) (written : list N) (ptr : N) : bool :=
  (ptr <? hb + header_size) || wexempt written ptr.

Definition is_err (r : res) : bool := match r with RErr _ => true | _ => false end.

(* bookkeeping of the observer (the Go harness keeps exactly this): which allocations are live,
   what the guest stored, whether a call failed, whether an assumption was broken *)
Definition track (hb : N) (g : ghost) (o : op) (ob : obs) : ghost :=
  let pg := o_pages ob in
  match o with
  | OAlloc size =>
    match o_res ob with
    | RPtr p => mkGhost ((p, size) :: g_live g) (clear_range (g_shadow g) p (p + size))
                        (g_written g) (g_dead g) (g_void g) pg
    | RErr _ => mkGhost (g_live g) (g_shadow g) (g_written g) true (g_void g) pg
    | _ => g
    end
  | OFree ptr =>
    if is_live_ptr (g_live g) ptr then
      match o_res ob with
      | ROk => mkGhost (remove_live (g_live g) ptr) (g_shadow g) (g_written g) (g_dead g) (g_void g) pg
      | RErr _ => mkGhost (g_live g) (g_shadow g) (g_written g) true (g_void g) pg
      | _ => g
      end
    else if wexempt (g_written g) ptr then
      (* the guest passed a pointer whose would-be header lies in bytes it stored itself *)
      mkGhost (g_live g) (g_shadow g) (g_written g) (g_dead g) true pg
    else
      match o_res ob with
      | RErr _ => mkGhost (g_live g) (g_shadow g) (g_written g) true (g_void g) pg
      | ROk => if ptr <? hb + header_size
               then mkGhost (g_live g) (g_shadow g) (g_written g) (g_dead g) true pg   (* header below the heap *)
               else g
      | _ => g
      end
  | OWrite a v =>
    if in_live (g_live g) a
    then mkGhost (g_live g) ((a, v mod 256) :: g_shadow g) (a :: g_written g) (g_dead g) (g_void g) pg
    else g
  | ORead _ => g
  | OGrow _ =>       (* environment assumption: the guest / embedder never makes the memory larger than 4 GiB *)
    mkGhost (g_live g) (g_shadow g) (g_written g) (g_dead g) (g_void g || (max_wasm_pages <? pg)) pg
  | OSetPages _ =>   (* environment assumption: memory never shrinks (nor exceeds 4 GiB) *)
    mkGhost (g_live g) (g_shadow g) (g_written g) (g_dead g)
            (g_void g || (pg <? g_pages g) || (max_wasm_pages <? pg)) pg
  end.

(* the property, one observation at a time.  [hb] is the aligned heap base. *)
Definition step_ok (hb : N) (g : ghost) (o : op) (ob : obs) : bool :=
  g_void g ||
  ((match o with
    | OGrow _ | OSetPages _ => true      (* the size the guest / embedder gives the memory is theirs *)
    | _ => o_pages ob <=? max_wasm_pages                          (* never past 4 GiB *)
    end) &&
  match o with
  | OAlloc size =>
    match o_res ob with
    | RErr _ => true
    | RPtr p =>
      negb (g_dead g) &&                                          (* poisoned allocators fail *)
      (size <=? max_alloc) &&                                     (* > 32 MiB fails *)
      (p mod 8 =? 0) &&                                           (* alignment *)
      (hb + header_size <=? p) &&                                 (* above the heap base *)
      (p + rsz size <=? o_pages ob * page_size) &&               (* whole block in memory *)
      forallb (fun qt => disjoint_blocks p size (fst qt) (snd qt)) (g_live g)  (* no overlap *)
    | _ => false
    end
  | OFree ptr =>
    match o_res ob with
    | RErr _ => true
    | ROk => negb (g_dead g) &&
             (is_live_ptr (g_live g) ptr || exempt hb (g_written g) ptr)  (* invalid free fails *)
    | _ => false
    end
  | OWrite a v =>
    match o_res ob with
    | ROk => in_live (g_live g) a
    | RSkip => negb (in_live (g_live g) a)
    | _ => false
    end
  | ORead a =>
    match o_res ob with
    | RVal v => in_live (g_live g) a &&
                match lookup (g_shadow g) a with Some w => v =? w | None => true end  (* data preserved *)
    | RSkip => negb (in_live (g_live g) a)
    | _ => false
    end
  | OGrow _ => true
  | OSetPages _ => true
  end).

Fixpoint check_from (hb : N) (g : ghost) (tr : list (op * obs)) : bool :=
  match tr with
  | [] => true
  | (o, ob) :: r => step_ok hb g o ob && check_from hb (track hb g o ob) r
  end.

Record cfg := mkCfg { c_hb : N; c_pages : N; c_max : N }.

Definition check (c : cfg) (tr : list (op * obs)) : bool :=
  check_from (align_up (c_hb c)) (ghost0 (c_pages c)) tr.

(* ================= running the model on a list of operations ================= *)

(* The guest may only touch live allocations: stores and loads elsewhere are skipped. The live
   set used for that is the observer's, exactly as the Go harness keeps it. *)
Definition step (v : variant) (x : st * mem * ghost) (o : op) : obs * (st * mem * ghost) :=
  let '(s, m, g) := x in
  let fin (r : res) (s' : st) (m' : mem) :=
    let ob := mkObs r (m_pages m') in (ob, (s', m', track (s_hb s) g o ob)) in
  match o with
  | OAlloc size => let '(r, s', m') := alloc v s m size in fin r s' m'
  | OFree ptr => let '(r, s', m') := dealloc v s m ptr in fin r s' m'
  | OWrite a val =>
    if in_live (g_live g) a
    then fin ROk s (mkMem (m_pages m) (m_max m) (wr1 (m_data m) a val))
    else fin RSkip s m
  | ORead a =>
    if in_live (g_live g) a then fin (RVal (m_data m a)) s m else fin RSkip s m
  | OGrow n =>
    match grow m n with Some m' => fin ROk s m' | None => fin (RErr EGrow) s m end
  | OSetPages n => fin ROk s (mkMem (N.min n (m_max m)) (m_max m) (m_data m))
  end.

Fixpoint run_from (v : variant) (x : st * mem * ghost) (ops : list op) : list (op * obs) :=
  match ops with
  | [] => []
  | o :: r => let '(ob, x') := step v x o in (o, ob) :: run_from v x' r
  end.

Definition init_mem (c : cfg) (init : N -> N) : mem := mkMem (c_pages c) (c_max c) init.

Definition run (v : variant) (c : cfg) (init : N -> N) (ops : list op) : list (op * obs) :=
  run_from v (init_st (c_hb c), init_mem c init, ghost0 (c_pages c)) ops.

Definition zero_mem : N -> N := fun _ => 0.

(* ================= the unconditional part of the property =================
   What holds of every run whatever the guest and the embedder do — no guest discipline, no
   zero-initialised heap, no bound on the memory's own maximum, forged headers and shrunk
   memories included (the parts of [check] that survive [g_void]):
     - Allocate answers with a pointer or an error, Deallocate with ok or an error;
     - once an allocator call has failed, every later call fails (poisoning);
     - requests above 32 MiB fail;
     - Deallocate never changes the memory size, Allocate never shrinks it and never grows it
       past 65536 pages (4 GiB) — even when the memory object itself would allow more. *)
Definition is_call (o : op) : bool := match o with OAlloc _ | OFree _ => true | _ => false end.

(* [dead]: an allocator call has failed earlier; [pg]: the memory size in pages before the call *)
Definition uncond_ok (dead : bool) (pg : N) (o : op) (ob : obs) : bool :=
  match o with
  | OAlloc size =>
    match o_res ob with
    | RErr _ => true
    | RPtr _ => negb dead && (size <=? max_alloc)
    | _ => false
    end && (pg <=? o_pages ob) && ((max_wasm_pages <? pg) || (o_pages ob <=? max_wasm_pages))
  | OFree _ =>
    match o_res ob with
    | RErr _ => true
    | ROk => negb dead
    | _ => false
    end && (o_pages ob =? pg)
  | _ => true
  end.

Fixpoint uncond_from (dead : bool) (pg : N) (tr : list (op * obs)) : bool :=
  match tr with
  | [] => true
  | (o, ob) :: r =>
    uncond_ok dead pg o ob && uncond_from (dead || (is_call o && is_err (o_res ob))) (o_pages ob) r
  end.

Definition check_uncond (c : cfg) (tr : list (op * obs)) : bool := uncond_from false (c_pages c) tr.

(* ================= boolean equality of observations (driver, vm_compute cross-check) ========= *)
Definition err_code (e : err) : N :=
  match e with
  | EPoisoned => 0 | EShrunk => 1 | ETooLarge => 2 | EHdrPtr => 3 | EReadHdr => 4 | EInvalidOrder => 5
  | EOccInFree => 6 | EOOS => 7 | EGrow => 8 | EWriteHdr => 9 | EInvalidPtr => 10 | EEmptyHdr => 11
  | EUnderflow => 12 | EPanic => 13
  end.
Definition res_eqb (a b : res) : bool :=
  match a, b with
  | RPtr p, RPtr q => p =? q
  | RErr e, RErr f => err_code e =? err_code f
  | ROk, ROk => true
  | RVal v, RVal w => v =? w
  | RSkip, RSkip => true
  | _, _ => false
  end.
Definition obs_eqb (a b : obs) : bool := res_eqb (o_res a) (o_res b) && (o_pages a =? o_pages b).
Fixpoint obs_list_eqb (a b : list obs) : bool :=
  match a, b with
  | [], [] => true
  | x :: a', y :: b' => obs_eqb x y && obs_list_eqb a' b'
  | _, _ => false
  end.

(* one traced case re-evaluated inside Coq: the model's observations equal the implementation's *)
Definition vm_case (c : cfg) (ops : list op) (impl : list obs) : bool :=
  obs_list_eqb (map snd (run fixed c zero_mem ops)) impl.
