(* C28/ProofsGen.v — the constants of the model are those of the Go source (Gen.v is regenerated
   from lib/runtime/allocator/freeing_bump.go on every check run). *)
From Coq Require Import NArith ZArith.
From C28 Require Import Model Gen.

Example gen_aligment : Gen.aligment = 8%Z. Proof. reflexivity. Qed.
Example gen_header_size : Z.to_N Gen.header_size = Model.header_size. Proof. reflexivity. Qed.
Example gen_num_orders : Z.to_N Gen.num_orders = Model.num_orders. Proof. reflexivity. Qed.
Example gen_min_alloc : Z.to_N Gen.min_possible_allocations = min_alloc. Proof. reflexivity. Qed.
Example gen_max_alloc : Z.to_N Gen.max_possible_allocations = max_alloc. Proof. reflexivity. Qed.
Example gen_page_size : Z.to_N Gen.page_size = Model.page_size. Proof. reflexivity. Qed.
Example gen_max_wasm_pages : Z.to_N Gen.max_wasm_pages = Model.max_wasm_pages. Proof. reflexivity. Qed.
