(* C28/ProofsGen.v — the constants of the model are those of the Go source (Gen.v is regenerated
   from lib/runtime/allocator/freeing_bump.go on every check run). *)
From Coq Require Import NArith ZArith.
From C28 Require Import Model Gen.

Example gen_aligment : Gen.aligment = 8%Z. Proof. reflexivity. Qed.
Example gen_header_size : Z.to_N Gen.header_size = Model.header_size. Proof. reflexivity. Qed.
Example gen_num_orders : Z.to_N Gen.num_orders = Model.num_orders. Proof. reflexivity. Qed.
Example gen_min_alloc : Z.to_N Gen.min_possible_allocations = min_alloc. Proof. reflexivity. Qed.
Example gen_max_alloc : Z.to_N Gen.max_possible_allocations = max_alloc. Proof. reflexivity. Qed.
Example gen_page_size : Z.to_N Gen.page_size = Model.page_size. Proof. reflexivity. Qed.
Example gen_max_wasm_pages : Z.to_N Gen.max_wasm_pages = Model.max_wasm_pages. Proof. reflexivity. Qed.

(* the occupied-bit mask is a literal in readHeaderFromMemory / writeHeaderInto (0x00000001_00000000),
   not a named constant, so Gen.v cannot carry it; the model's mask is bit 32 exactly, and the `cst`
   case of the harness compares the raw header words found in memory with [encode_header] *)
Example occ_mask_is_bit32 : occ_mask = (2 ^ 32)%N /\ N.testbit occ_mask 32 = true /\ (occ_mask mod two32 = 0)%N.
Proof. repeat split. Qed.
Example nil_marker_is_max_u32 : nil_marker = (2 ^ 32 - 1)%N. Proof. reflexivity. Qed.
