(* C28/ProofsFree2.v — Deallocate: soundness of every call. *)
From Coq Require Import NArith List Bool Lia ZifyN ZifyBool.
From C28 Require Import Model ProofsMem ProofsTiles ProofsInv ProofsEnv ProofsBump ProofsAlloc ProofsFree.
Import ListNotations.
Local Open Scope N_scope.

(* whatever Deallocate answers, it is ok or an error, and the memory size and heap base stay *)
Lemma dealloc_shape s m ptr r s' m' :
  dealloc fixed s m ptr = (r, s', m') ->
  (r = ROk /\ s_poisoned s = false \/ exists e, r = RErr e) /\ m_pages m' = m_pages m /\ s_hb s' = s_hb s.
Proof.
  unfold dealloc. destruct (s_poisoned s); [intros [= <- <- <-]; split; [right; eauto|split; reflexivity]|].
  destruct (msize m <? s_last s); [intros [= <- <- <-]; split; [right; eauto|split; reflexivity]|].
  destruct (v_fix_align fixed && negb (ptr mod 8 =? 0)); [intros [= <- <- <-]; split; [right; eauto|split; reflexivity]|].
  destruct (ptr <? header_size); [intros [= <- <- <-]; split; [right; eauto|split; reflexivity]|].
  destruct (read_header m (ptr - header_size)) as [[l|o]|e].
  - intros [= <- <- <-]; split; [right; eauto|split; reflexivity].
  - unfold write_header, write_u64. destruct (ptr - header_size + 8 <=? msize m).
    + cbn [s_ba]. destruct (s_ba (with_last s (msize m)) <? osize o + header_size);
        intros [= <- <- <-]; (split; [|split; reflexivity]); [right; eauto|left; auto].
    + intros [= <- <- <-]; split; [right; eauto|split; reflexivity].
  - intros [= <- <- <-]; split; [right; eauto|split; reflexivity].
Qed.

(* a word all of whose bytes are unwritten heap bytes outside every header is zero *)
Lemma zero_word s m g B lv w :
  Struct s m g B lv -> s_hb s <= w ->
  (forall i, i < 8 -> forall c, In c B -> ~ (fst c <= w + i < fst c + 8)) ->
  (forall i, i < 8 -> ~ In (w + i) (g_written g)) ->
  rd8 (m_data m) w = 0.
Proof.
  intros S Hw NH NW. apply rd8_zero. intros i Hi. apply (st_zero _ _ _ _ _ S); [lia|now apply NH|now apply NW].
Qed.

Lemma not_exempt_spec hb written ptr : exempt hb written ptr = false ->
  hb + header_size <= ptr /\ forall a, In a written -> ~ (ptr - header_size <= a < ptr).
Proof.
  unfold exempt, wexempt. intros H. apply orb_false_iff in H as (A & B). apply N.ltb_ge in A. split; [exact A|].
  intros a Ha X. assert (E : existsb (fun a => (ptr - header_size <=? a) && (a <? ptr)) written = true).
  { apply existsb_exists. exists a. split; [exact Ha|]. apply andb_true_iff. split; [apply N.leb_le|apply N.ltb_lt]; lia. }
  congruence.
Qed.

(* the would-be header of an invalid pointer never decodes as occupied *)
Lemma invalid_header_not_occupied s m g B lv ptr :
  Struct s m g B lv -> ptr mod 8 = 0 -> is_live_ptr (g_live g) ptr = false ->
  exempt (s_hb s) (g_written g) ptr = false ->
  match read_header m (ptr - header_size) with inl (HOcc _) => False | _ => True end.
Proof.
  intros S A8 NL NE. destruct (not_exempt_spec _ _ _ NE) as (Hb & NWr). unfold header_size in *.
  set (hp := ptr - 8). assert (HP : ptr = hp + 8) by (unfold hp; lia).
  assert (HP8 : hp mod 8 = 0).
  { unfold hp. pose proof (N.div_mod ptr 8 ltac:(discriminate)). rewrite A8 in H.
    replace (ptr - 8) with (8 * (ptr / 8 - 1)) by lia. rewrite N.mul_comm. apply N.mod_mul. discriminate. }
  unfold read_header, read_u64. destruct (hp + 8 <=? msize m) eqn:RD; [|exact I]. apply N.leb_le in RD.
  pose proof S as [h1 h2 h3 h4 h5 h6 h7 h8 h9 h10 h11].
  assert (ZERO : (forall i, i < 8 -> forall c, In c B -> ~ (fst c <= hp + i < fst c + 8)) -> rd8 (m_data m) hp = 0).
  { intros NH. apply (zero_word s m g B lv hp S); [lia|exact NH|].
    intros i Hi Hin. apply (NWr _ Hin). lia. }
  assert (FREEOK : rd8 (m_data m) hp < two32 -> match decode_header (rd8 (m_data m) hp) with inl (HOcc _) => False | _ => True end).
  { intros X. now rewrite decode_free. }
  destruct (N.lt_ge_cases hp (s_bumper s)) as [Lt|Ge].
  - destruct (tiles_word _ _ _ hp h2 h1 HP8 ltac:(lia)) as (c & Hc & [E|(E1 & E2)]).
    + destruct (lv (fst c)) as [sz|] eqn:Hl.
      * exfalso. assert (In (ptr, sz) (g_live g)).
        { apply h5. exists c. split; [exact Hc|]. split; [exact Hl|]. rewrite <- E. exact HP. }
        assert (is_live_ptr (g_live g) ptr = true) by (apply is_live_ptr_spec; eauto). congruence.
      * apply FREEOK. destruct (tiles_in _ _ _ _ h2 Hc) as (_ & _ & Oc & _).
        destruct (h8 (snd c) Oc) as (l & C & _ & IFF). rewrite E. apply (chain_in _ _ _ _ C).
        apply IFF. split; [now destruct c|exact Hl].
    + rewrite ZERO; [exact I|]. intros i Hi d Hd.
      assert (X : fst c + 8 <= hp + i < fst c + bsize c) by lia.
      destruct (payload_not_header _ _ _ _ d _ h2 Hc Hd X); lia.
  - rewrite ZERO; [exact I|]. intros i Hi d Hd.
    destruct (tiles_in _ _ _ _ h2 Hd) as (_ & X & _). pose proof (bsize_ge d). lia.
Qed.

(* Deallocate touches the memory at most in the eight bytes before the pointer *)
Lemma dealloc_mem s m ptr r s' m' :
  dealloc fixed s m ptr = (r, s', m') -> forall a, a < ptr - header_size \/ ptr <= a -> m_data m' a = m_data m a.
Proof.
  unfold dealloc. destruct (s_poisoned s); [intros [= <- <- <-]; reflexivity|].
  destruct (msize m <? s_last s); [intros [= <- <- <-]; reflexivity|].
  destruct (v_fix_align fixed && negb (ptr mod 8 =? 0)); [intros [= <- <- <-]; reflexivity|].
  destruct (ptr <? header_size) eqn:L; [intros [= <- <- <-]; reflexivity|]. apply N.ltb_ge in L.
  destruct (read_header m (ptr - header_size)) as [[l|o]|e]; try (intros [= <- <- <-]; reflexivity).
  unfold write_header, write_u64. destruct (ptr - header_size + 8 <=? msize m); [|intros [= <- <- <-]; reflexivity].
  cbn [s_ba]. destruct (s_ba (with_last s (msize m)) <? osize o + header_size);
    intros [= <- <- <-] a Ha; cbn [m_data]; apply wr8_out; unfold header_size in *; lia.
Qed.

Lemma dealloc_err_poisons s m ptr e s' m' : dealloc fixed s m ptr = (RErr e, s', m') -> s_poisoned s' = true.
Proof.
  unfold dealloc. destruct (s_poisoned s) eqn:P; [intros [= <- <- <-]; exact P|].
  destruct (msize m <? s_last s); [intros [= <- <- <-]; reflexivity|].
  destruct (v_fix_align fixed && negb (ptr mod 8 =? 0)); [intros [= <- <- <-]; reflexivity|].
  destruct (ptr <? header_size); [intros [= <- <- <-]; reflexivity|].
  destruct (read_header m (ptr - header_size)) as [[l|o]|e']; try (intros [= <- <- <-]; reflexivity).
  destruct (write_header m (ptr - header_size) (HFree (s_heads (with_last s (msize m)) o))); [|intros [= <- <- <-]; reflexivity].
  cbn [s_ba with_last]. destruct (s_ba s <? osize o + header_size); [intros [= <- <- <-]; reflexivity|discriminate].
Qed.

Lemma dealloc_max s m ptr r s' m' : dealloc fixed s m ptr = (r, s', m') -> m_max m' = m_max m.
Proof.
  unfold dealloc. destruct (s_poisoned s); [intros [= <- <- <-]; reflexivity|].
  destruct (msize m <? s_last s); [intros [= <- <- <-]; reflexivity|].
  destruct (v_fix_align fixed && negb (ptr mod 8 =? 0)); [intros [= <- <- <-]; reflexivity|].
  destruct (ptr <? header_size); [intros [= <- <- <-]; reflexivity|].
  destruct (read_header m (ptr - header_size)) as [[l|o]|e]; try (intros [= <- <- <-]; reflexivity).
  unfold write_header, write_u64. destruct (ptr - header_size + 8 <=? msize m); [|intros [= <- <- <-]; reflexivity].
  cbn [s_ba]. destruct (s_ba (with_last s (msize m)) <? osize o + header_size); intros [= <- <- <-]; reflexivity.
Qed.

Definition free_ghost (g : ghost) (ptr pages : N) : ghost :=
  mkGhost (remove_live (g_live g) ptr) (g_shadow g) (g_written g) (g_dead g) (g_void g) pages.

Theorem dealloc_sound s m g ptr :
  Inv s m g -> g_void g = false ->
  forall r s' m', dealloc fixed s m ptr = (r, s', m') ->
  let ob := mkObs r (m_pages m') in
  step_ok (s_hb s) g (OFree ptr) ob = true /\
  (g_void (track (s_hb s) g (OFree ptr) ob) = true \/ Inv s' m' (track (s_hb s) g (OFree ptr) ob)) /\
  s_hb s' = s_hb s.
Proof.
  intros HI NV r s' m' A. cbn zeta.
  pose proof HI as [i1 iw il1 il2 i2 i3 i4 i5]. pose proof i3 as Pg1.
  destruct (dealloc_shape _ _ _ _ _ _ A) as (SH & PG & HB). rewrite PG.
  assert (PGOK : (m_pages m <=? max_wasm_pages) = true) by (apply N.leb_le; lia).
  split; [|split; [|exact HB]].
  - (* the specification predicate *)
    unfold step_ok. rewrite NV. cbn [orb o_pages o_res]. rewrite PGOK. cbn [andb].
    destruct SH as [(-> & PO)|(e & ->)]; [|reflexivity].
    assert (ND : g_dead g = false) by congruence. rewrite ND. cbn [negb andb].
    destruct (is_live_ptr (g_live g) ptr) eqn:LP; [reflexivity|]. cbn [orb].
    destruct (exempt (s_hb s) (g_written g) ptr) eqn:EX; [reflexivity|]. exfalso.
    (* an invalid free cannot succeed *)
    destruct (i5 PO) as (B & lv & S). unfold dealloc in A. rewrite PO in A.
    destruct (msize m <? s_last s); [discriminate|].
    cbn [v_fix_align fixed andb] in A. destruct (ptr mod 8 =? 0) eqn:AL; cbn [negb] in A; [|discriminate].
    apply N.eqb_eq in AL. destruct (ptr <? header_size); [discriminate|].
    pose proof (invalid_header_not_occupied s m g B lv ptr S AL LP EX) as X.
    destruct (read_header m (ptr - header_size)) as [[l|o]|e]; try discriminate. contradiction.
  - (* the invariant *)
    assert (DEADG : forall e, r = RErr e ->
              (is_live_ptr (g_live g) ptr = true \/ wexempt (g_written g) ptr = false) ->
              track (s_hb s) g (OFree ptr) (mkObs r (m_pages m)) =
              mkGhost (g_live g) (g_shadow g) (g_written g) true (g_void g) (m_pages m)).
    { intros e -> [L|W]; cbn [track o_res o_pages].
      - now rewrite L.
      - destruct (is_live_ptr (g_live g) ptr); [reflexivity|]. now rewrite W. }
    destruct (is_live_ptr (g_live g) ptr) eqn:LP.
    + (* a live pointer *)
      assert (FAIL : forall e s1, s_poisoned s1 = true -> s_hb s1 = s_hb s -> (r, s', m') = (RErr e, s1, m) ->
                g_void (track (s_hb s) g (OFree ptr) (mkObs r (m_pages m))) = true \/
                Inv s' m' (track (s_hb s) g (OFree ptr) (mkObs r (m_pages m)))).
      { intros e s1 P1 Hb E. injection E as E1 E2 E3. subst s' m'. right.
        apply (Inv_fail s m g s1 m); auto; try lia. apply (DEADG e E1). now left. }
      destruct (s_poisoned s) eqn:PO.
      { unfold dealloc in A. rewrite PO in A. symmetry in A. apply (FAIL EPoisoned s); auto. }
      destruct (i5 eq_refl) as (B & lv & S).
      apply is_live_ptr_spec in LP as (sz & LP).
      destruct (proj1 (st_live _ _ _ _ _ S ptr sz) LP) as (b & Hb & Hl & EP).
      destruct (tiles_in _ _ _ _ (st_tiles _ _ _ _ _ S) Hb) as (T1 & T2 & Oo & T4).
      pose proof (st_hb8 _ _ _ _ _ S) as H8. rewrite H8 in T4.
      pose proof (st_mem _ _ _ _ _ S b Hb) as BM. pose proof (bsize_ge b) as BG.
      unfold dealloc in A. rewrite PO in A.
      destruct (msize m <? s_last s) eqn:SHR. { symmetry in A. apply (FAIL EShrunk (poison s)); auto. }
      cbn [v_fix_align fixed andb] in A.
      assert (AL : (ptr mod 8 =? 0) = true).
      { apply N.eqb_eq. rewrite EP, N.add_mod by discriminate. rewrite T4. reflexivity. }
      rewrite AL in A. cbn [negb] in A.
      assert ((ptr <? header_size) = false) as X1 by (apply N.ltb_ge; unfold header_size; lia). rewrite X1 in A.
      assert (HPE : ptr - header_size = fst b) by (unfold header_size; lia). rewrite HPE in A.
      assert (RH : read_header m (fst b) = inl (HOcc (snd b))).
      { unfold read_header, read_u64. assert ((fst b + 8 <=? msize m) = true) as -> by (apply N.leb_le; lia).
        rewrite (st_hl _ _ _ _ _ S b sz Hb Hl). now apply decode_occ. }
      rewrite RH in A. rewrite write_header_ok in A by lia.
      cbn [with_last s_hb s_bumper s_heads s_last s_ba s_poisoned encode_header] in A.
      pose proof (live_bytes_ge _ _ _ lv b sz (st_tiles _ _ _ _ _ S) Hb Hl) as LG.
      rewrite <- (st_ba _ _ _ _ _ S) in LG. unfold bsize in LG.
      assert ((s_ba s <? osize (snd b) + header_size) = false) as X2 by (apply N.ltb_ge; lia). rewrite X2 in A.
      injection A as <- <- <-. right.
      set (s2 := mkSt (s_hb s) (s_bumper s) (set_head (s_heads s) (snd b) (Some (fst b))) false (msize m)
                      (s_ba s - (osize (snd b) + header_size))).
      set (m2 := mkMem (m_pages m) (m_max m) (wr8 (m_data m) (fst b) (raw_of_link (s_heads s (snd b))))).
      assert (LPT : is_live_ptr (g_live g) ptr = true).
      { apply is_live_ptr_spec. exists sz. apply (st_live _ _ _ _ _ S). exists b. auto. }
      assert (TR : track (s_hb s) g (OFree ptr) (mkObs ROk (m_pages m)) = free_ghost g ptr (m_pages m)).
      { cbn [track o_res o_pages]. rewrite LPT. reflexivity. }
      rewrite TR.
      assert (S2 : Struct s2 m2 (free_ghost g ptr (m_pages m)) B (lv_set lv (fst b) None)).
      { apply (Struct_free s m g B lv b sz s2 m2 _ S Hb Hl); try reflexivity.
        intros q t. cbn [free_ghost g_live]. rewrite remove_live_spec, EP. reflexivity. }
      constructor.
      * intros a v Hs. cbn [free_ghost g_shadow] in Hs. cbn [m2 m_data]. rewrite wr8_out; [now apply i1|].
        destruct (st_wr _ _ _ _ _ S a (iw a v Hs)) as (c & Hc & X).
        destruct (payload_not_header _ _ _ _ b _ (st_tiles _ _ _ _ _ S) Hc Hb X); lia.
      * intros a v Hs. exact (iw a v Hs).
      * intros a Ha. exact (il1 a Ha).
      * intros q t Hq. cbn [free_ghost g_live] in Hq. apply remove_live_spec in Hq as (Hq & _). exact (il2 q t Hq).
      * cbn [free_ghost g_dead s2 s_poisoned]. exact i2.
      * cbn [m2 m_pages]. exact Pg1.
      * reflexivity.
      * intros _. exists B, (lv_set lv (fst b) None). exact S2.
    + destruct (wexempt (g_written g) ptr) eqn:WX.
      { left. cbn [track]. rewrite LP, WX. reflexivity. }
      destruct SH as [(-> & PO)|(e & ->)].
      * (* the call succeeded: the pointer lay below the heap (nothing is demanded any more);
           otherwise it would be an accepted invalid free, excluded above *)
        destruct (ptr <? s_hb s + header_size) eqn:BL.
        -- left. cbn [track o_res]. rewrite LP, WX, BL. reflexivity.
        -- exfalso. destruct (i5 PO) as (B & lv & S). unfold dealloc in A. rewrite PO in A.
           destruct (msize m <? s_last s); [discriminate|].
           cbn [v_fix_align fixed andb] in A. destruct (ptr mod 8 =? 0) eqn:AL; cbn [negb] in A; [|discriminate].
           apply N.eqb_eq in AL. destruct (ptr <? header_size); [discriminate|].
           assert (EX : exempt (s_hb s) (g_written g) ptr = false) by (unfold exempt; now rewrite BL, WX).
           pose proof (invalid_header_not_occupied s m g B lv ptr S AL LP EX) as X.
           destruct (read_header m (ptr - header_size)) as [[l|o]|e]; try discriminate. contradiction.
      * (* the call failed: the allocator is poisoned and no guest byte was touched *)
        right. apply (Inv_fail s m g s' m'); auto.
        -- exact (dealloc_err_poisons _ _ _ _ _ _ A).
        -- intros a Ha. destruct (N.lt_ge_cases a (ptr - header_size)) as [L|G]; [apply (dealloc_mem _ _ _ _ _ _ A); now left|].
           destruct (N.le_gt_cases ptr a) as [L2|G2]; [apply (dealloc_mem _ _ _ _ _ _ A); now right|].
           exfalso. assert (W : wexempt (g_written g) ptr = true).
           { unfold wexempt. apply existsb_exists. exists a. split; [exact Ha|].
             apply andb_true_iff. split; [apply N.leb_le|apply N.ltb_lt]; assumption. }
           congruence.
        -- exact (dealloc_max _ _ _ _ _ _ A).
        -- rewrite PG. lia.
        -- rewrite PG. apply (DEADG e eq_refl). now right.
Qed.
