(* C28/ProofsStore.v — multi-byte guest accesses.  Linear memory is byte-addressed: a store of
   several bytes is the sequence of its single-byte stores (no atomicity is involved, the allocator
   never runs in between), so the operation lists quantified over by C28_spec already contain every
   multi-byte store / load anywhere inside the requested size of a live allocation.  The harness
   ops W / R are expanded by the driver exactly as [store_bytes] / [load_bytes] do. *)
From Coq Require Import NArith List Bool.
From C28 Require Import Model ProofsRun.
Import ListNotations.
Local Open Scope N_scope.

Fixpoint store_bytes (a : N) (vals : list N) : list op :=
  match vals with [] => [] | v :: r => OWrite a v :: store_bytes (a + 1) r end.
Fixpoint load_bytes (a : N) (n : nat) : list op :=
  match n with O => [] | S n' => ORead a :: load_bytes (a + 1) n' end.

(* the specification holds of runs with multi-byte accesses in arbitrary positions *)
Lemma check_run_multibyte c init pre a vals mid b n post :
  c_pages c <= max_wasm_pages -> (forall x, align_up (c_hb c) <= x -> init x = 0) ->
  check c (run fixed c init (pre ++ store_bytes a vals ++ mid ++ load_bytes b n ++ post)) = true.
Proof. intros. now apply check_run. Qed.
