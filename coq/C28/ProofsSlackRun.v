(* C28/ProofsSlackRun.v — rounding every request up to its block size is unobservable to the
   allocator, at the level of whole runs.

   [run ops] and [run (round_up ops)] are executed side by side.  The two guests differ: in the
   rounded run the observer's live range of an allocation is the whole block, so stores into the
   slack are performed there and skipped in the original run; the two memories therefore differ,
   but only at addresses the rounded guest has stored to ([g_written]).  The allocator reads the
   memory only at block headers (free-list heads, the 8 bytes before a freed pointer), and as long
   as the rounded guest keeps its discipline ([g_void] stays false: no free through bytes it stored
   itself, no shrunk or oversized memory) no header is ever a stored-to address (invariant [Inv] of
   ProofsInv.v, kept by the rounded run by ProofsRun.step_sound).  Hence, by induction over the
   operation list: every allocator-facing observation (result of Allocate / Deallocate / memory.grow
   / memory swap, and the memory size after every operation), the allocator state, and every header
   word are the same in both runs.

   The hypothesis [g_void = false] cannot be dropped: a rounded guest that stores a forged occupied
   header into the slack and frees the pointer behind it has that free accepted, while in the
   original run the store is skipped and the free fails.  (That guest is outside C28_spec too.)
   Requests above 32 MiB are left alone by [round_up] ([round_size s = s]); both runs fail
   identically there. *)
From Coq Require Import NArith List Bool Lia ZifyN ZifyBool.
From C28 Require Import Model ProofsMem ProofsTiles ProofsInv ProofsRun ProofsSlack.
Import ListNotations.
Local Open Scope N_scope.

Definition round_op (o : op) : op := match o with OAlloc s => OAlloc (round_size s) | _ => o end.
Lemma round_up_map ops : round_up ops = map round_op ops.
Proof. reflexivity. Qed.

Lemma size_le_round_size s : s <= round_size s.
Proof.
  unfold round_size. destruct (s <=? max_alloc) eqn:E; [|lia].
  apply N.leb_le in E. unfold rsz. now apply order_of_size_spec.
Qed.

Lemma alloc_round_size_eq v s m size : alloc v s m (round_size size) = alloc v s m size.
Proof.
  unfold round_size. destruct (size <=? max_alloc) eqn:E; [|reflexivity].
  apply N.leb_le in E. now apply alloc_round_up.
Qed.

(* ---- the allocator functions on two memories of the same size ---- *)

Lemma bump_sim v b sz p x d1 d2 :
  match bump v b sz (mkMem p x d1), bump v b sz (mkMem p x d2) with
  | inl (h1, b1, m1), inl (h2, b2, m2) =>
      h1 = h2 /\ b1 = b2 /\ exists p', m1 = mkMem p' x d1 /\ m2 = mkMem p' x d2
  | inr e1, inr e2 => e1 = e2
  | _, _ => False
  end.
Proof.
  unfold bump, grow, msize. cbn [m_pages m_max m_data].
  repeat (match goal with
          | |- context [match pages_from_size ?a with _ => _ end] => destruct (pages_from_size a)
          | |- context [if ?c then _ else _] => destruct c
          end); eauto.
Qed.

Definition mem_step (d1 d2 : N -> N) (m1 m2 : mem) : Prop :=
  m_pages m1 = m_pages m2 /\ m_max m1 = m_max m2 /\
  forall a, d1 a = d2 a -> m_data m1 a = m_data m2 a.

Lemma wr8_pres d1 d2 p v a : d1 a = d2 a -> wr8 d1 p v a = wr8 d2 p v a.
Proof. intros E. unfold wr8. now rewrite E. Qed.

Lemma alloc_sim v s p x d1 d2 size :
  (s_poisoned s = false -> size <= max_alloc ->
   forall hp, s_heads s (order_of_size size) = Some hp -> rd8 d1 hp = rd8 d2 hp) ->
  fst (fst (alloc v s (mkMem p x d1) size)) = fst (fst (alloc v s (mkMem p x d2) size)) /\
  snd (fst (alloc v s (mkMem p x d1) size)) = snd (fst (alloc v s (mkMem p x d2) size)) /\
  mem_step d1 d2 (snd (alloc v s (mkMem p x d1) size)) (snd (alloc v s (mkMem p x d2) size)).
Proof.
  intros H. unfold alloc, mem_step. change (msize (mkMem p x d1)) with (p * page_size).
  change (msize (mkMem p x d2)) with (p * page_size).
  destruct (s_poisoned s) eqn:P; [cbn [fst snd m_pages m_max m_data]; auto|].
  destruct (p * page_size <? s_last s); [cbn [fst snd m_pages m_max m_data]; auto|].
  destruct (max_alloc <? size) eqn:ML; [cbn [fst snd m_pages m_max m_data]; auto|].
  apply N.ltb_ge in ML. specialize (H eq_refl ML).
  cbn [with_last s_heads s_hb s_bumper s_last s_ba s_poisoned].
  set (o := order_of_size size) in *.
  destruct (s_heads s o) as [hp|] eqn:HD.
  - destruct (p * page_size <? hp + osize o + header_size); [cbn [fst snd m_pages m_max m_data]; auto|].
    unfold read_header, read_u64, msize. cbn [m_pages m_max m_data]. rewrite (H hp eq_refl).
    destruct (hp + 8 <=? p * page_size); [|cbn [fst snd m_pages m_max m_data]; auto].
    destruct (decode_header (rd8 d2 hp)) as [[l|o']|e]; try (cbn [fst snd m_pages m_max m_data]; now auto).
    unfold write_header, write_u64, msize. cbn [m_pages m_max m_data].
    destruct (hp + 8 <=? p * page_size); cbn [fst snd m_pages m_max m_data]; auto.
    repeat split; auto. intros a E. now apply wr8_pres.
  - pose proof (bump_sim v (s_bumper s) (osize o + header_size) p x d1 d2) as BS.
    destruct (bump v (s_bumper s) (osize o + header_size) (mkMem p x d1)) as [[[h1 b1] m1]|e1];
      destruct (bump v (s_bumper s) (osize o + header_size) (mkMem p x d2)) as [[[h2 b2] m2]|e2];
      try contradiction.
    + destruct BS as (-> & -> & p' & -> & ->).
      unfold write_header, write_u64, msize. cbn [m_pages m_max m_data].
      destruct (h2 + 8 <=? p' * page_size); cbn [fst snd m_pages m_max m_data]; auto.
      repeat split; auto. intros a E. now apply wr8_pres.
    + subst e2. cbn [fst snd m_pages m_max m_data]; auto.
Qed.

Lemma dealloc_sim v s p x d1 d2 ptr :
  (s_poisoned s = false -> header_size <= ptr ->
   rd8 d1 (ptr - header_size) = rd8 d2 (ptr - header_size)) ->
  fst (fst (dealloc v s (mkMem p x d1) ptr)) = fst (fst (dealloc v s (mkMem p x d2) ptr)) /\
  snd (fst (dealloc v s (mkMem p x d1) ptr)) = snd (fst (dealloc v s (mkMem p x d2) ptr)) /\
  mem_step d1 d2 (snd (dealloc v s (mkMem p x d1) ptr)) (snd (dealloc v s (mkMem p x d2) ptr)).
Proof.
  intros H. unfold dealloc, mem_step. change (msize (mkMem p x d1)) with (p * page_size).
  change (msize (mkMem p x d2)) with (p * page_size).
  destruct (s_poisoned s) eqn:P; [cbn [fst snd m_pages m_max m_data]; auto|].
  destruct (p * page_size <? s_last s); [cbn [fst snd m_pages m_max m_data]; auto|].
  destruct (v_fix_align v && negb (ptr mod 8 =? 0)); [cbn [fst snd m_pages m_max m_data]; auto|].
  destruct (ptr <? header_size) eqn:PL; [cbn [fst snd m_pages m_max m_data]; auto|].
  apply N.ltb_ge in PL. specialize (H eq_refl PL).
  cbn [with_last s_heads s_hb s_bumper s_last s_ba s_poisoned].
  unfold read_header, read_u64, msize. cbn [m_pages m_max m_data]. rewrite H.
  destruct (ptr - header_size + 8 <=? p * page_size); [|cbn [fst snd m_pages m_max m_data]; auto].
  destruct (decode_header (rd8 d2 (ptr - header_size))) as [[l|o']|e]; try (cbn [fst snd m_pages m_max m_data]; now auto).
  unfold write_header, write_u64, msize. cbn [m_pages m_max m_data].
  destruct (ptr - header_size + 8 <=? p * page_size); [|cbn [fst snd m_pages m_max m_data]; now auto].
  cbn [s_ba s_heads s_hb s_bumper s_last].
  destruct (s_ba s <? osize o' + header_size); cbn [fst snd m_pages m_max m_data];
    (repeat split; auto; intros a E; now apply wr8_pres).
Qed.

(* ---- the two observers ---- *)
Definition live_rel (l1 l2 : list (N * N)) : Prop :=
  Forall2 (fun x y => fst x = fst y /\ snd x <= snd y) l1 l2.

Lemma live_rel_is_live_ptr l1 l2 p : live_rel l1 l2 -> is_live_ptr l1 p = is_live_ptr l2 p.
Proof.
  induction 1 as [|x y l1 l2 (E & _) _ IH]; [reflexivity|].
  unfold is_live_ptr in *. cbn [existsb]. now rewrite E, IH.
Qed.
Lemma live_rel_in_live l1 l2 a : live_rel l1 l2 -> in_live l1 a = true -> in_live l2 a = true.
Proof.
  induction 1 as [|x y l1 l2 (E & L) _ IH]; [auto|].
  unfold in_live in *. cbn [existsb]. intros H. apply orb_true_iff in H as [H|H].
  - apply orb_true_iff. left. lia.
  - apply orb_true_iff. right. auto.
Qed.
Lemma live_rel_remove l1 l2 p : live_rel l1 l2 -> live_rel (remove_live l1 p) (remove_live l2 p).
Proof.
  induction 1 as [|x y l1 l2 (E & L) _ IH]; [constructor|].
  unfold remove_live in *. cbn [filter]. rewrite E.
  destruct (negb (fst y =? p)); [constructor; auto|exact IH].
Qed.

(* what relates the original run (1) and the rounded run (2): memories of the same size that agree
   wherever the rounded guest has not stored, and the same live pointers, the rounded observer's
   ranges being at least as long *)
Record Sim (m1 : mem) (g1 : ghost) (m2 : mem) (g2 : ghost) : Prop := mkSim {
  sim_pages : m_pages m1 = m_pages m2;
  sim_max : m_max m1 = m_max m2;
  sim_data : forall a, ~ In a (g_written g2) -> m_data m1 a = m_data m2 a;
  sim_live : live_rel (g_live g1) (g_live g2)
}.

Lemma track_alloc_written hb g sz ob : g_written (track hb g (OAlloc sz) ob) = g_written g.
Proof. cbn [track]. destruct (o_res ob); reflexivity. Qed.
Lemma track_free_written hb g ptr ob : g_written (track hb g (OFree ptr) ob) = g_written g.
Proof.
  cbn [track]. destruct (is_live_ptr (g_live g) ptr); [destruct (o_res ob); reflexivity|].
  destruct (wexempt (g_written g) ptr); [reflexivity|]. destruct (o_res ob); try reflexivity.
  destruct (ptr <? hb + header_size); reflexivity.
Qed.
Lemma track_alloc_live hb g1 g2 s1 s2 r pg1 pg2 :
  live_rel (g_live g1) (g_live g2) -> s1 <= s2 ->
  live_rel (g_live (track hb g1 (OAlloc s1) (mkObs r pg1))) (g_live (track hb g2 (OAlloc s2) (mkObs r pg2))).
Proof.
  intros L S. cbn [track o_res o_pages]. destruct r; cbn [g_live]; auto.
  constructor; auto.
Qed.
Lemma track_free_live hb g1 g2 ptr r pg1 pg2 :
  live_rel (g_live g1) (g_live g2) ->
  live_rel (g_live (track hb g1 (OFree ptr) (mkObs r pg1))) (g_live (track hb g2 (OFree ptr) (mkObs r pg2))).
Proof.
  intros L. cbn [track o_res o_pages]. rewrite (live_rel_is_live_ptr _ _ ptr L).
  destruct (is_live_ptr (g_live g2) ptr).
  - destruct r; cbn [g_live]; auto. now apply live_rel_remove.
  - destruct (wexempt (g_written g1) ptr), (wexempt (g_written g2) ptr); cbn [g_live]; auto;
      destruct r; cbn [g_live]; auto; destruct (ptr <? hb + header_size); cbn [g_live]; auto.
Qed.

(* in the rounded run no header byte of any block has been stored to by the guest *)
Lemma header_unwritten s m g B lv b i :
  Struct s m g B lv -> In b B -> i < 8 -> ~ In (fst b + i) (g_written g).
Proof.
  intros S Hb Hi Hin. destruct (st_wr _ _ _ _ _ S _ Hin) as (b' & Hb' & R).
  pose proof (bsize_ge b). pose proof (bsize_ge b').
  destruct (tiles_disjoint _ _ _ _ _ (st_tiles _ _ _ _ _ S) Hb Hb') as [E|[E|E]]; [subst b'|..]; lia.
Qed.

Definition is_guest (o : op) : bool := match o with OWrite _ _ | ORead _ => true | _ => false end.

Lemma step_ghost v s m g o :
  snd (snd (step v (s, m, g) o)) = track (s_hb s) g o (fst (step v (s, m, g) o)).
Proof.
  unfold step. destruct o.
  - destruct (alloc v s m size) as [[r s1] m1]. reflexivity.
  - destruct (dealloc v s m ptr) as [[r s1] m1]. reflexivity.
  - destruct (in_live (g_live g) addr); reflexivity.
  - destruct (in_live (g_live g) addr); reflexivity.
  - destruct (grow m pages); reflexivity.
  - reflexivity.
Qed.

Lemma step_sim s m1 g1 m2 g2 o :
  Sim m1 g1 m2 g2 -> Inv s m2 g2 ->
  g_void (snd (snd (step fixed (s, m2, g2) (round_op o)))) = false ->
  fst (fst (snd (step fixed (s, m1, g1) o))) = fst (fst (snd (step fixed (s, m2, g2) (round_op o)))) /\
  Sim (snd (fst (snd (step fixed (s, m1, g1) o)))) (snd (snd (step fixed (s, m1, g1) o)))
      (snd (fst (snd (step fixed (s, m2, g2) (round_op o))))) (snd (snd (step fixed (s, m2, g2) (round_op o)))) /\
  o_pages (fst (step fixed (s, m1, g1) o)) = o_pages (fst (step fixed (s, m2, g2) (round_op o))) /\
  (is_guest o = false -> fst (step fixed (s, m1, g1) o) = fst (step fixed (s, m2, g2) (round_op o))).
Proof.
  intros [SP SM SD SL] HI.
  destruct m1 as [p1 x1 d1], m2 as [p x d2]. cbn [m_pages m_max m_data] in SP, SM, SD. subst p1 x1.
  destruct o; cbn [round_op is_guest].
  - (* Allocate *)
    unfold step. rewrite alloc_round_size_eq.
    assert (HYP : s_poisoned s = false -> size <= max_alloc ->
                  forall hp, s_heads s (order_of_size size) = Some hp -> rd8 d1 hp = rd8 d2 hp).
    { intros P ML hp HD. destruct (i_struct _ _ _ HI P) as (B & lv & S).
      destruct (st_fl _ _ _ _ _ S _ (proj1 (order_of_size_spec size ML))) as (l & CH & _ & IFF).
      rewrite HD in CH. destruct l as [|hp' l']; cbn [chain] in CH; [discriminate|].
      destruct CH as (E & _). injection E as <-.
      assert (Hb : In (hp, order_of_size size) B) by (apply IFF; now left).
      apply rd8_ext. intros i Hi. apply SD. exact (header_unwritten _ _ _ _ _ _ i S Hb Hi). }
    destruct (alloc_sim fixed s p x d1 d2 size HYP) as (A1 & A2 & A3 & A4 & A5).
    destruct (alloc fixed s (mkMem p x d1) size) as [[r1 s1] m1'].
    destruct (alloc fixed s (mkMem p x d2) size) as [[r2 s2] m2'].
    cbn [fst snd] in *. subst r2 s2. intros _.
    split; [reflexivity|]. split; [|split; [exact A3|intros _; now rewrite A3]].
    constructor; auto.
    + rewrite track_alloc_written. intros a Ha. apply A5. now apply SD.
    + apply track_alloc_live; auto. apply size_le_round_size.
  - (* Deallocate *)
    unfold step.
    destruct (dealloc fixed s (mkMem p x d2) ptr) as [[r2 s2] m2'] eqn:D2. cbn [fst snd]. intros NV.
    assert (HYP : s_poisoned s = false -> header_size <= ptr ->
                  rd8 d1 (ptr - header_size) = rd8 d2 (ptr - header_size)).
    { intros P PL. unfold header_size in *. apply rd8_ext. intros i Hi. apply SD.
      cbn [track o_res o_pages] in NV.
      destruct (is_live_ptr (g_live g2) ptr) eqn:LP.
      - destruct (i_struct _ _ _ HI P) as (B & lv & S).
        unfold is_live_ptr in LP. apply existsb_exists in LP as ([q sz] & Hq & E).
        cbn [fst] in E. apply N.eqb_eq in E. subst q.
        apply (st_live _ _ _ _ _ S) in Hq as (b & Hb & _ & E).
        replace (ptr - 8 + i) with (fst b + i) by lia. exact (header_unwritten _ _ _ _ _ _ i S Hb Hi).
      - destruct (wexempt (g_written g2) ptr) eqn:WE; [cbn [g_void] in NV; discriminate|].
        intros Hin. unfold wexempt in WE.
        assert (X : existsb (fun a => (ptr - header_size <=? a) && (a <? ptr)) (g_written g2) = true).
        { apply existsb_exists. exists (ptr - 8 + i). split; [exact Hin|]. unfold header_size. lia. }
        congruence. }
    destruct (dealloc_sim fixed s p x d1 d2 ptr HYP) as (A1 & A2 & A3 & A4 & A5). rewrite D2 in *.
    destruct (dealloc fixed s (mkMem p x d1) ptr) as [[r1 s1] m1'].
    cbn [fst snd] in *. subst r1 s1.
    split; [reflexivity|]. split; [|split; [exact A3|intros _; now rewrite A3]].
    constructor; auto.
    + rewrite track_free_written. intros a Ha. apply A5. now apply SD.
    + now apply track_free_live.
  - (* guest store *)
    unfold step. intros _.
    destruct (in_live (g_live g1) addr) eqn:L1.
    + rewrite (live_rel_in_live _ _ _ SL L1). cbn [fst snd o_pages m_pages].
      split; [reflexivity|]. split; [|split; [reflexivity|discriminate]].
      cbn [track o_pages]. rewrite L1, (live_rel_in_live _ _ _ SL L1).
      constructor; cbn [m_pages m_max m_data g_written g_live]; auto.
      intros a Ha. unfold wr1. destruct (a =? addr); [reflexivity|]. apply SD. intros X. apply Ha. now right.
    + destruct (in_live (g_live g2) addr) eqn:L2; cbn [fst snd o_pages m_pages].
      * split; [reflexivity|]. split; [|split; [reflexivity|discriminate]].
        cbn [track o_pages]. rewrite L1, L2.
        constructor; cbn [m_pages m_max m_data g_written g_live]; auto.
        intros a Ha. unfold wr1. destruct (a =? addr) eqn:E.
        -- apply N.eqb_eq in E. subst a. exfalso. apply Ha. now left.
        -- apply SD. intros X. apply Ha. now right.
      * split; [reflexivity|]. split; [|split; [reflexivity|discriminate]].
        cbn [track o_pages]. rewrite L1, L2. constructor; auto.
  - (* guest load *)
    unfold step. intros _.
    destruct (in_live (g_live g1) addr), (in_live (g_live g2) addr); cbn [fst snd o_pages m_pages track];
      (split; [reflexivity|]; split; [constructor; auto|split; [reflexivity|discriminate]]).
  - (* memory.grow *)
    unfold step, grow. cbn [m_pages m_max m_data]. intros _.
    destruct (p + pages <=? x); cbn [fst snd o_pages m_pages track g_written g_live];
      (split; [reflexivity|]; split; [constructor; auto|split; [reflexivity|reflexivity]]).
  - (* memory swap *)
    unfold step. cbn [m_pages m_max m_data fst snd o_pages track g_written g_live]. intros _.
    split; [reflexivity|]. split; [constructor; auto|split; reflexivity].
Qed.

(* ---- whole runs ---- *)
Fixpoint final_from (v : variant) (x : st * mem * ghost) (ops : list op) : st * mem * ghost :=
  match ops with
  | [] => x
  | o :: r => final_from v (snd (step v x o)) r
  end.
Definition final (v : variant) (c : cfg) (init : N -> N) (ops : list op) : st * mem * ghost :=
  final_from v (init_st (c_hb c), init_mem c init, ghost0 (c_pages c)) ops.

(* the observer's ghost state after a trace, computed from the trace alone *)
Fixpoint ghost_after (hb : N) (g : ghost) (tr : list (op * obs)) : ghost :=
  match tr with
  | [] => g
  | (o, ob) :: r => ghost_after hb (track hb g o ob) r
  end.
(* the observer has seen the guest / embedder break an environment assumption of [check] *)
Definition trace_void (c : cfg) (tr : list (op * obs)) : bool :=
  g_void (ghost_after (align_up (c_hb c)) (ghost0 (c_pages c)) tr).

Lemma ghost_after_run : forall ops s m g,
  ghost_after (s_hb s) g (run_from fixed (s, m, g) ops) = snd (final_from fixed (s, m, g) ops).
Proof.
  induction ops as [|o ops IH]; intros s m g; cbn [run_from final_from ghost_after]; [reflexivity|].
  pose proof (step_ghost fixed s m g o) as SG. pose proof (step_hb s m g o) as HB.
  destruct (step fixed (s, m, g) o) as [ob [[s' m'] g']]. cbn [fst snd] in *. cbn [ghost_after].
  subst g'. rewrite <- HB. apply IH.
Qed.

Lemma final_void : forall ops s m g,
  g_void g = true -> g_void (snd (final_from fixed (s, m, g) ops)) = true.
Proof.
  induction ops as [|o ops IH]; intros s m g V; cbn [final_from]; [exact V|].
  pose proof (step_ghost fixed s m g o) as SG.
  destruct (step fixed (s, m, g) o) as [ob [[s' m'] g']]. cbn [fst snd] in *.
  apply IH. subst g'. now apply track_void.
Qed.

(* what is claimed of one pair of trace entries: same operation up to rounding, same memory size
   afterwards, and — unless it is a guest load / store — the same result *)
Definition same_call (x y : op * obs) : Prop :=
  fst y = round_op (fst x) /\ o_pages (snd x) = o_pages (snd y) /\
  (is_guest (fst x) = false -> snd x = snd y).

Lemma run_sim : forall ops s m1 g1 m2 g2,
  Sim m1 g1 m2 g2 -> Inv' s m2 g2 ->
  g_void (snd (final_from fixed (s, m2, g2) (map round_op ops))) = false ->
  Forall2 same_call (run_from fixed (s, m1, g1) ops) (run_from fixed (s, m2, g2) (map round_op ops)) /\
  fst (fst (final_from fixed (s, m1, g1) ops)) = fst (fst (final_from fixed (s, m2, g2) (map round_op ops))) /\
  Sim (snd (fst (final_from fixed (s, m1, g1) ops))) (snd (final_from fixed (s, m1, g1) ops))
      (snd (fst (final_from fixed (s, m2, g2) (map round_op ops)))) (snd (final_from fixed (s, m2, g2) (map round_op ops))) /\
  Inv' (fst (fst (final_from fixed (s, m2, g2) (map round_op ops))))
       (snd (fst (final_from fixed (s, m2, g2) (map round_op ops)))) (snd (final_from fixed (s, m2, g2) (map round_op ops))).
Proof.
  induction ops as [|o ops IH]; intros s m1 g1 m2 g2 SIM HI' NV; cbn [map run_from final_from] in *.
  { cbn [fst snd]. split; [constructor|]. split; [reflexivity|]. split; assumption. }
  assert (NV0 : g_void g2 = false).
  { destruct (g_void g2) eqn:V; [|reflexivity].
    pose proof (final_void (round_op o :: map round_op ops) s m2 g2 V) as X. cbn [final_from] in X. congruence. }
  destruct HI' as [V|HI]; [congruence|].
  pose proof (step_sim s m1 g1 m2 g2 o SIM HI) as SS.
  pose proof (step_sound s m2 g2 (round_op o) (or_intror HI)) as SO.
  destruct (step fixed (s, m2, g2) (round_op o)) as [ob2 [[s2 m2'] g2']].
  destruct (step fixed (s, m1, g1) o) as [ob1 [[s1 m1'] g1']]. cbn [fst snd] in *.
  assert (NV1 : g_void g2' = false).
  { destruct (g_void g2') eqn:V; [|reflexivity].
    pose proof (final_void (map round_op ops) s2 m2' g2' V). congruence. }
  destruct (SS NV1) as (-> & SIM' & PG & OB). destruct SO as (_ & HI2 & _).
  destruct (IH s2 m1' g1' m2' g2' SIM' HI2 NV) as (F & FIN).
  split; [|exact FIN]. constructor; [|exact F]. unfold same_call. cbn [fst snd]. auto.
Qed.

(* every header word of every block carved so far is the same in both memories *)
Lemma sim_headers s m1 g1 m2 g2 :
  Sim m1 g1 m2 g2 -> Inv' s m2 g2 -> g_void g2 = false -> s_poisoned s = false ->
  exists B lv, Struct s m2 g2 B lv /\ forall b, In b B -> rd8 (m_data m1) (fst b) = rd8 (m_data m2) (fst b).
Proof.
  intros SIM [V|HI] NV P; [congruence|]. destruct (i_struct _ _ _ HI P) as (B & lv & S).
  exists B, lv. split; [exact S|]. intros b Hb. apply rd8_ext. intros i Hi.
  apply (sim_data _ _ _ _ SIM). exact (header_unwritten _ _ _ _ _ _ i S Hb Hi).
Qed.

Definition final_agree (x1 x2 : st * mem * ghost) : Prop :=
  let '(s1, m1, g1) := x1 in let '(s2, m2, g2) := x2 in
  s1 = s2 /\ Sim m1 g1 m2 g2 /\
  (s_poisoned s2 = false ->
   exists B lv, Struct s2 m2 g2 B lv /\ forall b, In b B -> rd8 (m_data m1) (fst b) = rd8 (m_data m2) (fst b)).

Theorem round_up_unobservable c init ops :
  c_pages c <= max_wasm_pages ->
  (forall a, align_up (c_hb c) <= a -> init a = 0) ->
  trace_void c (run fixed c init (round_up ops)) = false ->
  Forall2 same_call (run fixed c init ops) (run fixed c init (round_up ops)) /\
  final_agree (final fixed c init ops) (final fixed c init (round_up ops)).
Proof.
  intros P1 Z NV. unfold trace_void, run in NV.
  change (align_up (c_hb c)) with (s_hb (init_st (c_hb c))) in NV. rewrite ghost_after_run in NV.
  rewrite round_up_map in *.
  assert (SIM0 : Sim (init_mem c init) (ghost0 (c_pages c)) (init_mem c init) (ghost0 (c_pages c))).
  { constructor; auto. constructor. }
  destruct (run_sim ops _ _ _ _ _ SIM0 (or_intror (Inv_init c init P1 Z)) NV) as (F & E & SIM & HI).
  split; [exact F|]. unfold final_agree, final.
  destruct (final_from fixed (init_st (c_hb c), init_mem c init, ghost0 (c_pages c)) ops) as [[s1 m1] g1].
  destruct (final_from fixed (init_st (c_hb c), init_mem c init, ghost0 (c_pages c)) (map round_op ops)) as [[s2 m2] g2].
  cbn [fst snd] in *. split; [exact E|]. split; [exact SIM|].
  intros P. exact (sim_headers _ _ _ _ _ SIM HI NV P).
Qed.

(* C28_whole_block transfers to the original operation list: the allocator-facing observations of
   the original run are those of a trace that passes the whole-block checker *)
Corollary whole_block_transfer c init ops :
  c_pages c <= max_wasm_pages ->
  (forall a, align_up (c_hb c) <= a -> init a = 0) ->
  trace_void c (run fixed c init (round_up ops)) = false ->
  exists tr, check c tr = true /\ Forall2 same_call (run fixed c init ops) tr.
Proof.
  intros P1 Z NV. exists (run fixed c init (round_up ops)). split; [now apply check_run_rounded|].
  now apply round_up_unobservable.
Qed.

(* the hypothesis is needed: the rounded guest forges an occupied header in the slack of its first
   block and frees the pointer behind it — accepted; in the original run the stores are skipped
   and the same free fails *)
Definition forge_cfg : cfg := mkCfg 0 1 16.
Definition forge_ops : list op := [OAlloc 17; OWrite 32 0; OWrite 36 1; OFree 40].
Lemma round_up_observable_when_void :
  trace_void forge_cfg (run fixed forge_cfg zero_mem (round_up forge_ops)) = true /\
  map (fun x => o_res (snd x)) (run fixed forge_cfg zero_mem (round_up forge_ops)) = [RPtr 8; ROk; ROk; ROk] /\
  map (fun x => o_res (snd x)) (run fixed forge_cfg zero_mem forge_ops) = [RPtr 8; RSkip; RSkip; RErr EEmptyHdr].
Proof. repeat split; vm_compute; reflexivity. Qed.
