(* C28/ProofsAlloc.v — Allocate preserves the invariant and satisfies the specification. *)
From Coq Require Import NArith List Bool Lia ZifyN ZifyBool.
From C28 Require Import Model ProofsMem ProofsTiles ProofsInv ProofsEnv ProofsBump.
Import ListNotations.
Local Open Scope N_scope.

Definition alloc_obs (r : res) (m' : mem) : obs := mkObs r (m_pages m').

Lemma pages_le_max m : m_pages m <= m_max m -> m_max m <= max_wasm_pages -> (m_pages m <=? max_wasm_pages) = true.
Proof. intros. apply N.leb_le. lia. Qed.

(* an allocator call that fails: everything the observer needs is untouched *)
Lemma Inv_fail s m g s' m' g' :
  Inv s m g -> s_poisoned s' = true -> s_hb s' = s_hb s ->
  (forall a, In a (g_written g) -> m_data m' a = m_data m a) -> m_max m' = m_max m ->
  m_pages m <= m_pages m' <= max_wasm_pages ->
  g' = mkGhost (g_live g) (g_shadow g) (g_written g) true (g_void g) (m_pages m') ->
  Inv s' m' g'.
Proof.
  intros [i1 iw il1 il2 i2 i3 i4 i5] P Hb D Mx Pg ->. constructor; cbn [g_shadow g_written g_live g_dead g_pages]; auto.
  - intros a v H. rewrite D; [now apply i1|now apply (iw a v)].
  - intros a Ha. rewrite Hb. now apply il1.
  - intros p sz Hp. rewrite Hb. now apply (il2 p sz).
  - lia.
  - intros X. congruence.
Qed.

Lemma lookup_clear sh lo hi x :
  lookup (clear_range sh lo hi) x = if (lo <=? x) && (x <? hi) then None else lookup sh x.
Proof.
  induction sh as [|(a & v) sh IH]; cbn [clear_range filter lookup fst].
  - now destruct ((lo <=? x) && (x <? hi)).
  - destruct ((lo <=? a) && (a <? hi)) eqn:R; cbn [negb].
    + fold (clear_range sh lo hi). rewrite IH. destruct (a =? x) eqn:E; [|reflexivity].
      apply N.eqb_eq in E. subst. now rewrite R.
    + cbn [lookup]. fold (clear_range sh lo hi). rewrite IH. destruct (a =? x) eqn:E; [|reflexivity].
      apply N.eqb_eq in E. subst. now rewrite R.
Qed.

(* reuse of the head of a free list *)
Lemma Struct_alloc_free s m g B lv size hp s' m' g' :
  Struct s m g B lv -> size <= max_alloc -> s_heads s (order_of_size size) = Some hp ->
  let o := order_of_size size in
  s_hb s' = s_hb s -> s_bumper s' = s_bumper s ->
  s_heads s' = set_head (s_heads s) o (link_of_raw (rd8 (m_data m) hp)) ->
  s_ba s' = (s_ba s + (osize o + header_size)) mod two32 ->
  m_data m' = wr8 (m_data m) hp (o + occ_mask) -> m_pages m' = m_pages m ->
  g_live g' = (hp + 8, size) :: g_live g -> g_written g' = g_written g ->
  In (hp, o) B /\ lv hp = None /\ rd8 (m_data m) hp < two32 /\ hp + header_size + osize o <= msize m /\
  Struct s' m' g' B (lv_set lv hp (Some size)).
Proof.
  intros S Hs Hh o E1 E2 E3 E4 E5 E6 E7 E8.
  pose proof S as [h1 h2 h3 h4 h5 h6 h7 h8 h9 h10 h11].
  destruct (order_of_size_spec size Hs) as (Oo & Ole). fold o in Oo, Ole.
  destruct (h8 o Oo) as (l & C & ND & IFF). assert (Hh' : s_heads s o = Some hp) by exact Hh. rewrite Hh' in C.
  destruct l as [|hp0 l']; cbn [chain] in C; [discriminate|]. destruct C as (C1 & C2 & C3). injection C1 as <-.
  destruct (proj1 (IFF hp) (or_introl eq_refl)) as (Hb & Hlv).
  pose proof (h4 _ Hb) as Hm. unfold bsize in Hm. cbn [fst snd] in Hm.
  split; [exact Hb|]. split; [exact Hlv|]. split; [exact C2|]. split; [lia|].
  assert (DIS : forall c, In c B -> c <> (hp, o) -> fst c + 8 <= hp \/ hp + 8 <= fst c).
  { intros c Hc Ne. destruct (tiles_disjoint _ _ _ _ _ h2 Hc Hb) as [X|[X|X]]; [congruence| |];
      pose proof (bsize_ge c); pose proof (bsize_ge (hp, o)); cbn [fst] in *; lia. }
  assert (V64 : o + occ_mask < two64) by (unfold occ_mask, two64, num_orders in *; lia).
  inversion ND as [|? ? NI ND']; subst.
  constructor.
  - now rewrite E1.
  - now rewrite E1, E2.
  - now rewrite E2.
  - intros c Hc. unfold msize. rewrite E6. now apply h4.
  - intros p sz. rewrite E7. cbn [In]. rewrite h5. split.
    + intros [[= <- <-]|(c & Hc & Hl & ->)].
      * exists (hp, o). cbn [fst]. split; [exact Hb|]. split; [|reflexivity]. unfold lv_set. now rewrite N.eqb_refl.
      * exists c. split; [exact Hc|]. split; [|reflexivity]. unfold lv_set.
        destruct (fst c =? hp) eqn:X; [|exact Hl]. apply N.eqb_eq in X. congruence.
    + intros (c & Hc & Hl & ->). unfold lv_set in Hl. destruct (fst c =? hp) eqn:X.
      * apply N.eqb_eq in X. injection Hl as <-. left. now rewrite X.
      * right. exists c. auto.
  - intros c sz Hc Hl. unfold lv_set in Hl. destruct (fst c =? hp) eqn:X.
    + apply N.eqb_eq in X. injection Hl as <-.
      assert (c = (hp, o)) as -> by (apply (tiles_same_hp _ _ _ _ _ h2 Hc Hb); exact X). cbn [snd]. split; [reflexivity|exact Hs].
    + now apply h6.
  - intros c sz Hc Hl. rewrite E5. unfold lv_set in Hl. destruct (fst c =? hp) eqn:X.
    + apply N.eqb_eq in X.
      assert (c = (hp, o)) as -> by (apply (tiles_same_hp _ _ _ _ _ h2 Hc Hb); exact X). cbn [fst snd].
      now apply rd8_wr8_same.
    + apply N.eqb_neq in X. rewrite rd8_wr8_other.
      * now apply (h7 c sz).
      * assert (Ne : c <> (hp, o)) by (intros ->; now apply X). destruct (DIS c Hc Ne); lia.
  - intros o' Ho'. rewrite E3, E5. unfold set_head. destruct (o' =? o) eqn:X.
    + apply N.eqb_eq in X. subst o'. exists l'. split; [|split; [exact ND'|]].
      * eapply chain_ext; [|exact C3]. intros q Hq. apply rd8_wr8_other.
        assert (Hq' : In (q, o) B) by (apply IFF; now right).
        assert (Ne : (q, o) <> (hp, o)) by (intros [= ->]; contradiction).
        destruct (DIS _ Hq' Ne); cbn [fst] in *; lia.
      * intros q. unfold lv_set. split.
        -- intros Hq. assert (Hq' := proj1 (IFF q) (or_intror Hq)). destruct Hq' as (A & B0).
           split; [exact A|]. destruct (q =? hp) eqn:Y; [|exact B0]. apply N.eqb_eq in Y. subst q. contradiction.
        -- intros (A & B0). destruct (q =? hp) eqn:Y; [discriminate|]. apply N.eqb_neq in Y.
           destruct (proj2 (IFF q) (conj A B0)) as [->|Hq]; [congruence|exact Hq].
    + apply N.eqb_neq in X. destruct (h8 o' Ho') as (l0 & C0 & ND0 & IFF0). exists l0. split; [|split; [exact ND0|]].
      * eapply chain_ext; [|exact C0]. intros q Hq. apply rd8_wr8_other.
        assert (Hq' : In (q, o') B) by (apply IFF0; exact Hq).
        assert (Ne : (q, o') <> (hp, o)) by (intros [= _ ->]; now apply X).
        destruct (DIS _ Hq' Ne); cbn [fst] in *; lia.
      * intros q. rewrite IFF0. unfold lv_set. destruct (q =? hp) eqn:Y; [|reflexivity].
        apply N.eqb_eq in Y. subst q. split.
        -- intros (A & _). exfalso. apply X. assert ((hp, o') = (hp, o)) by (apply (tiles_same_hp _ _ _ _ _ h2 A Hb); reflexivity). congruence.
        -- intros (_ & A). discriminate.
  - intros a Ha NH NW. rewrite E1 in Ha. rewrite E8 in NW. rewrite E5, wr8_out.
    + now apply h9.
    + specialize (NH _ Hb). cbn [fst] in NH. lia.
  - intros a Ha. rewrite E8 in Ha. now apply h10.
  - rewrite E4, h11. pose proof (live_bytes_set _ _ _ lv (hp, o) (Some size) h2 Hb) as LB. cbn [fst] in LB.
    rewrite Hlv in LB. pose proof (live_bytes_le _ _ _ (lv_set lv hp (Some size)) h2) as LE.
    unfold bsize in LB. cbn [snd] in LB. rewrite N.mod_small; [lia|]. unfold two32 in *. lia.
Qed.

(* a fresh block at the bumper *)
Lemma Struct_alloc_bump s m g B lv size s' m' g' :
  Struct s m g B lv -> size <= max_alloc ->
  let o := order_of_size size in
  let hp := s_bumper s in
  s_hb s' = s_hb s -> s_bumper s' = hp + (osize o + header_size) -> s_bumper s' <= max_u32 ->
  s_heads s' = s_heads s ->
  s_ba s' = (s_ba s + (osize o + header_size)) mod two32 ->
  m_data m' = wr8 (m_data m) hp (o + occ_mask) -> m_pages m <= m_pages m' -> s_bumper s' <= msize m' ->
  g_live g' = (hp + 8, size) :: g_live g -> g_written g' = g_written g ->
  Struct s' m' g' (B ++ [(hp, o)]) (lv_set lv hp (Some size)).
Proof.
  intros S Hs o hp E1 E2 E2' E3 E4 E5 E6 E6' E7 E8.
  pose proof S as [h1 h2 h3 h4 h5 h6 h7 h8 h9 h10 h11].
  destruct (order_of_size_spec size Hs) as (Oo & Ole). fold o in Oo, Ole.
  assert (OLD : forall c, In c B -> fst c + bsize c <= hp) by (intros c Hc; now destruct (tiles_in _ _ _ _ h2 Hc) as (_ & A & _)).
  assert (OLDne : forall c, In c B -> (fst c =? hp) = false).
  { intros c Hc. apply N.eqb_neq. specialize (OLD c Hc). pose proof (bsize_ge c). lia. }
  assert (V64 : o + occ_mask < two64) by (unfold occ_mask, two64, num_orders in *; lia).
  assert (BS : bsize (hp, o) = osize o + header_size) by (unfold bsize; cbn [snd]; lia).
  constructor.
  - now rewrite E1.
  - rewrite E1, E2, <- BS. apply tiles_app; auto.
  - unfold two32, max_u32 in *. lia.
  - intros c Hc. apply in_app_or in Hc as [Hc|[<-|[]]].
    + specialize (h4 c Hc). unfold msize, page_size in *. nia.
    + cbn [fst]. rewrite BS. lia.
  - intros p sz. rewrite E7. cbn [In]. rewrite h5. split.
    + intros [[= <- <-]|(c & Hc & Hl & ->)].
      * exists (hp, o). cbn [fst]. split; [apply in_or_app; right; now left|]. split; [|reflexivity]. unfold lv_set. now rewrite N.eqb_refl.
      * exists c. split; [apply in_or_app; now left|]. split; [|reflexivity]. unfold lv_set. now rewrite (OLDne c Hc).
    + intros (c & Hc & Hl & ->). apply in_app_or in Hc as [Hc|[<-|[]]].
      * right. exists c. unfold lv_set in Hl. rewrite (OLDne c Hc) in Hl. auto.
      * cbn [fst] in *. unfold lv_set in Hl. rewrite N.eqb_refl in Hl. injection Hl as <-. now left.
  - intros c sz Hc Hl. apply in_app_or in Hc as [Hc|[<-|[]]].
    + unfold lv_set in Hl. rewrite (OLDne c Hc) in Hl. now apply h6.
    + cbn [fst snd] in *. unfold lv_set in Hl. rewrite N.eqb_refl in Hl. injection Hl as <-. split; [reflexivity|exact Hs].
  - intros c sz Hc Hl. rewrite E5. apply in_app_or in Hc as [Hc|[<-|[]]].
    + unfold lv_set in Hl. rewrite (OLDne c Hc) in Hl. rewrite rd8_wr8_other.
      * now apply (h7 c sz).
      * specialize (OLD c Hc). pose proof (bsize_ge c). unfold bsize, header_size in *. lia.
    + cbn [fst snd]. now apply rd8_wr8_same.
  - intros o' Ho'. rewrite E3, E5. destruct (h8 o' Ho') as (l & C & ND & IFF). exists l. split; [|split; [exact ND|]].
    + eapply chain_ext; [|exact C]. intros q Hq. apply rd8_wr8_other.
      assert (Hq' : In (q, o') B) by (apply IFF; exact Hq). specialize (OLD _ Hq'). pose proof (bsize_ge (q, o')). cbn [fst] in *. lia.
    + intros q. rewrite IFF. split.
      * intros (A & B0). split; [apply in_or_app; now left|]. unfold lv_set. pose proof (OLDne _ A) as X. cbn [fst] in X. now rewrite X.
      * intros (A & B0). apply in_app_or in A as [A|[[= <- <-]|[]]].
        -- split; [exact A|]. unfold lv_set in B0. pose proof (OLDne _ A) as X. cbn [fst] in X. now rewrite X in B0.
        -- unfold lv_set in B0. rewrite N.eqb_refl in B0. discriminate.
  - intros a Ha NH NW. rewrite E1 in Ha. rewrite E8 in NW. rewrite E5, wr8_out.
    + apply h9; auto. intros c Hc. apply NH. apply in_or_app. now left.
    + specialize (NH (hp, o)). cbn [fst] in NH. assert (~ (hp <= a < hp + 8)) by (apply NH; apply in_or_app; right; now left). lia.
  - intros a Ha. rewrite E8 in Ha. destruct (h10 a Ha) as (c & Hc & X). exists c. split; [apply in_or_app; now left|exact X].
  - rewrite E4, h11, live_bytes_app. cbn [fst]. unfold lv_set at 2. rewrite N.eqb_refl.
    rewrite (live_bytes_ext B lv (lv_set lv hp (Some size))).
    + pose proof (live_bytes_le _ _ _ lv h2) as LE. rewrite BS. rewrite N.mod_small; [lia|]. unfold two32, max_u32 in *. lia.
    + intros c Hc. unfold lv_set. now rewrite (OLDne c Hc).
Qed.

Lemma tiles_end_mod8 a B e : tiles a B e -> a mod 8 = 0 -> e mod 8 = 0.
Proof.
  revert a. induction B as [|c r IH]; cbn [tiles]; intros a T H8.
  - now subst.
  - destruct T as (_ & _ & T). apply (IH _ T). rewrite N.add_mod by discriminate. rewrite H8, (bsize_mod8 c). reflexivity.
Qed.

Lemma read_header_free m hp : hp + 8 <= msize m -> rd8 (m_data m) hp < two32 ->
  read_header m hp = inl (HFree (link_of_raw (rd8 (m_data m) hp))).
Proof.
  intros A B. unfold read_header, read_u64. assert ((hp + 8 <=? msize m) = true) as -> by (apply N.leb_le; exact A).
  now apply decode_free.
Qed.
Lemma write_header_ok m hp h : hp + 8 <= msize m ->
  write_header m hp h = Some (mkMem (m_pages m) (m_max m) (wr8 (m_data m) hp (encode_header h))).
Proof.
  intros A. unfold write_header, write_u64. now assert ((hp + 8 <=? msize m) = true) as -> by (apply N.leb_le; exact A).
Qed.

Lemma rsz_order t : rsz t = osize (order_of_size t). Proof. reflexivity. Qed.

Definition alloc_ghost (g : ghost) (p size pages : N) : ghost :=
  mkGhost ((p, size) :: g_live g) (clear_range (g_shadow g) p (p + size)) (g_written g) (g_dead g) (g_void g) pages.

Lemma Inv_alloc_ok s m g s' m' B' lv' p size :
  Inv s m g -> s_poisoned s = false -> s_poisoned s' = false -> s_hb s' = s_hb s -> s_hb s + header_size <= p ->
  Struct s' m' (alloc_ghost g p size (m_pages m')) B' lv' ->
  (forall a, In a (g_written g) -> m_data m' a = m_data m a) ->
  m_max m' = m_max m -> m_pages m <= m_pages m' <= max_wasm_pages ->
  Inv s' m' (alloc_ghost g p size (m_pages m')).
Proof.
  intros [i1 iw il1 il2 i2 i3 i4 i5] P P' Hb Lo S D Mx Pg. constructor; cbn [alloc_ghost g_shadow g_written g_live g_dead g_pages]; auto.
  - intros a v. cbn [alloc_ghost g_shadow]. rewrite lookup_clear. destruct ((p <=? a) && (a <? p + size)); [discriminate|].
    intros H. rewrite D; [now apply i1|]. now apply (iw a v).
  - intros a v. rewrite lookup_clear. destruct ((p <=? a) && (a <? p + size)); [discriminate|]. apply iw.
  - intros a Ha. rewrite Hb. now apply il1.
  - intros q sz [[= <- <-]|Hq]; rewrite Hb; [exact Lo|now apply (il2 q sz)].
  - congruence.
  - lia.
  - intros _. exists B', lv'. exact S.
Qed.

Lemma step_ok_err hb g o e pages : pages <= max_wasm_pages ->
  match o with OAlloc _ | OFree _ => True | _ => False end -> step_ok hb g o (mkObs (RErr e) pages) = true.
Proof.
  intros P Ho. unfold step_ok. cbn [o_pages o_res]. apply orb_true_iff. right.
  assert ((pages <=? max_wasm_pages) = true) as -> by (apply N.leb_le; exact P). cbn [andb].
  destruct o; try contradiction; reflexivity.
Qed.

Lemma forallb_live_disjoint s m g B lv p size :
  Struct s m g B lv ->
  (forall c sz, In c B -> lv (fst c) = Some sz ->
     p + rsz size <= fst c \/ fst c + bsize c <= p - header_size) ->
  forallb (fun qt => disjoint_blocks p size (fst qt) (snd qt)) (g_live g) = true.
Proof.
  intros S H. apply forallb_forall. intros (q & t) Hin. cbn [fst snd].
  apply (st_live _ _ _ _ _ S) in Hin as (c & Hc & Hl & ->).
  destruct (st_lo _ _ _ _ _ S c t Hc Hl) as (Ho & _).
  unfold disjoint_blocks. apply orb_true_iff. rewrite (rsz_order t), <- Ho.
  destruct (H c t Hc Hl) as [X|X]; [left|right]; apply N.leb_le; unfold bsize, header_size in *; lia.
Qed.

Theorem alloc_sound s m g size :
  Inv s m g -> g_void g = false ->
  forall r s' m', alloc fixed s m size = (r, s', m') ->
  let ob := mkObs r (m_pages m') in
  step_ok (s_hb s) g (OAlloc size) ob = true /\ Inv s' m' (track (s_hb s) g (OAlloc size) ob) /\ s_hb s' = s_hb s.
Proof.
  intros HI NV r s' m' A. cbn zeta.
  pose proof HI as [i1 iw il1 il2 i2 i3 i4 i5]. pose proof i3 as Pg1.
  assert (FAIL : forall e s1, s_poisoned s1 = true -> s_hb s1 = s_hb s -> (r, s', m') = (RErr e, s1, m) ->
            step_ok (s_hb s) g (OAlloc size) (mkObs r (m_pages m')) = true /\
            Inv s' m' (track (s_hb s) g (OAlloc size) (mkObs r (m_pages m'))) /\ s_hb s' = s_hb s).
  { intros e s1 P1 Hb [= -> -> ->]. split; [apply step_ok_err; [lia|exact I]|]. split; [|exact Hb].
    apply (Inv_fail s m g s1 m); auto; try lia. }
  unfold alloc in A.
  destruct (s_poisoned s) eqn:PO.
  { symmetry in A. apply (FAIL EPoisoned s); auto. }
  destruct (msize m <? s_last s) eqn:SH.
  { symmetry in A. apply (FAIL EShrunk (poison s)); auto. }
  destruct (max_alloc <? size) eqn:TL.
  { symmetry in A. apply (FAIL ETooLarge (poison (with_last s (msize m)))); auto. }
  apply N.ltb_ge in TL.
  destruct (i5 eq_refl) as (B & lv & S).
  set (o := order_of_size size) in *.
  destruct (order_of_size_spec size TL) as (Oo & Ole). fold o in Oo, Ole.
  assert (ND : g_dead g = false) by congruence.
  cbn [with_last s_heads s_hb s_bumper s_last s_ba s_poisoned] in A.
  destruct (s_heads s o) as [hp|] eqn:HD.
  - (* the head of the free list of this order *)
    set (s2 := mkSt (s_hb s) (s_bumper s) (set_head (s_heads s) o (link_of_raw (rd8 (m_data m) hp))) false (msize m)
                    ((s_ba s + (osize o + header_size)) mod two32)).
    set (m2 := mkMem (m_pages m) (m_max m) (wr8 (m_data m) hp (o + occ_mask))).
    set (g2 := alloc_ghost g (hp + 8) size (m_pages m)).
    destruct (Struct_alloc_free s m g B lv size hp s2 m2 g2 S TL HD) as (Hb & Hlv & Raw & Bd & S2);
      try reflexivity.
    fold o in Hb, Bd, S2.
    assert ((msize m <? hp + osize o + header_size) = false) as X1 by (apply N.ltb_ge; unfold header_size in *; lia).
    rewrite X1 in A. unfold header_size in Bd.
    rewrite (read_header_free m hp) in A by (try exact Raw; lia).
    rewrite write_header_ok in A by (cbn [msize m_pages]; unfold msize in *; lia).
    cbn [encode_header s_hb s_bumper s_heads s_last s_ba] in A.
    assert (HP8 : (hp + header_size) mod two32 = hp + 8).
    { unfold header_size. apply N.mod_small. pose proof (osize_pos o). unfold msize, page_size, max_wasm_pages, two32 in *. nia. }
    rewrite HP8 in A. injection A as <- <- <-. fold s2 m2.
    destruct (tiles_in _ _ _ _ (st_tiles _ _ _ _ _ S) Hb) as (T1 & T2 & _ & T4). cbn [fst] in *.
    pose proof (st_hb8 _ _ _ _ _ S) as H8. rewrite H8 in T4.
    assert (TR : track (s_hb s) g (OAlloc size) (mkObs (RPtr (hp + 8)) (m_pages m2)) = g2) by reflexivity.
    rewrite TR. split; [|split; [|reflexivity]].
    + unfold step_ok. rewrite NV. cbn [orb o_pages o_res m_pages m2]. rewrite ND. cbn [negb andb].
      assert ((m_pages m <=? max_wasm_pages) = true) as -> by (apply N.leb_le; lia).
      assert ((size <=? max_alloc) = true) as -> by (apply N.leb_le; exact TL).
      assert (((hp + 8) mod 8 =? 0) = true) as ->.
      { apply N.eqb_eq. rewrite N.add_mod by discriminate. rewrite T4. reflexivity. }
      assert ((s_hb s + header_size <=? hp + 8) = true) as -> by (apply N.leb_le; unfold header_size; lia).
      assert ((hp + 8 + rsz size <=? m_pages m * page_size) = true) as -> by (apply N.leb_le; rewrite rsz_order; fold o; unfold msize in Bd; lia).
      cbn [andb]. apply (forallb_live_disjoint s m g B lv); [exact S|].
      intros c sz Hc Hl. rewrite rsz_order. fold o.
      assert (NE : c <> (hp, o)) by (intros ->; cbn [fst] in Hl; congruence).
      destruct (tiles_disjoint _ _ _ _ _ (st_tiles _ _ _ _ _ S) Hc Hb) as [X|[X|X]]; [contradiction| |];
        unfold bsize, header_size in *; cbn [fst snd] in *; lia.
    + apply (Inv_alloc_ok s m g s2 m2 B (lv_set lv hp (Some size)) (hp + 8) size HI PO eq_refl eq_refl ltac:(unfold header_size; lia) S2).
      * intros a Ha. cbn [m2 m_data]. apply wr8_out.
        destruct (st_wr _ _ _ _ _ S a Ha) as (c & Hc & X).
        destruct (payload_not_header _ _ _ _ (hp, o) _ (st_tiles _ _ _ _ _ S) Hc Hb X); cbn [fst] in *; lia.
      * reflexivity.
      * cbn [m2 m_pages]. lia.
  - (* a fresh block *)
    destruct (bump fixed (s_bumper s) (osize o + header_size) m) as [[[hp b'] m1]|e] eqn:BU.
    2:{ symmetry in A. apply (FAIL e (poison (with_last s (msize m)))); auto. }
    destruct (bump_ok _ _ _ _ _ _ Pg1 BU) as (-> & -> & W & G & D1 & Mx1 & Pg).
    rewrite write_header_ok in A by (pose proof (osize_pos o); unfold header_size in *; lia).
    cbn [encode_header s_hb s_bumper s_heads s_last s_ba] in A.
    set (hp := s_bumper s) in *.
    assert (HP8 : (hp + header_size) mod two32 = hp + 8).
    { unfold header_size in *. apply N.mod_small. pose proof (osize_pos o). unfold max_u32, two32 in *. lia. }
    rewrite HP8 in A. injection A as <- <- <-.
    set (s2 := mkSt (s_hb s) (hp + (osize o + header_size)) (s_heads s) false (msize m) ((s_ba s + (osize o + header_size)) mod two32)).
    set (m2 := mkMem (m_pages m1) (m_max m1) (wr8 (m_data m1) hp (o + occ_mask))).
    set (g2 := alloc_ghost g (hp + 8) size (m_pages m1)).
    assert (S2 : Struct s2 m2 g2 (B ++ [(hp, o)]) (lv_set lv hp (Some size))).
    { apply (Struct_alloc_bump s m g B lv size s2 m2 g2 S TL); try reflexivity.
      - exact W.
      - cbn [m2 m_data]. now rewrite D1.
      - cbn [m2 m_pages]. lia.
      - cbn [s2 s_bumper m2]. unfold msize in *. cbn [m_pages]. exact G. }
    pose proof (tiles_le _ _ _ (st_tiles _ _ _ _ _ S)) as T1. fold hp in T1.
    assert (T4 : hp mod 8 = 0) by (apply (tiles_end_mod8 _ _ _ (st_tiles _ _ _ _ _ S) (st_hb8 _ _ _ _ _ S))).
    assert (TR : track (s_hb s) g (OAlloc size) (mkObs (RPtr (hp + 8)) (m_pages m2)) = g2) by reflexivity.
    rewrite TR. split; [|split; [|reflexivity]].
    + unfold step_ok. rewrite NV. cbn [orb o_pages o_res m_pages m2]. rewrite ND. cbn [negb andb].
      assert ((m_pages m1 <=? max_wasm_pages) = true) as -> by (apply N.leb_le; lia).
      assert ((size <=? max_alloc) = true) as -> by (apply N.leb_le; exact TL).
      assert (((hp + 8) mod 8 =? 0) = true) as ->.
      { apply N.eqb_eq. rewrite N.add_mod by discriminate. rewrite T4. reflexivity. }
      assert ((s_hb s + header_size <=? hp + 8) = true) as -> by (apply N.leb_le; unfold header_size; lia).
      assert ((hp + 8 + rsz size <=? m_pages m1 * page_size) = true) as ->.
      { apply N.leb_le. rewrite rsz_order. fold o. unfold msize, header_size in *. lia. }
      cbn [andb]. apply (forallb_live_disjoint s m g B lv); [exact S|].
      intros c sz Hc Hl. right. destruct (tiles_in _ _ _ _ (st_tiles _ _ _ _ _ S) Hc) as (_ & X & _).
      fold hp in X. unfold header_size. lia.
    + apply (Inv_alloc_ok s m g s2 m2 (B ++ [(hp, o)]) (lv_set lv hp (Some size)) (hp + 8) size HI PO eq_refl eq_refl ltac:(unfold header_size; lia) S2).
      * intros a Ha. cbn [m2 m_data]. rewrite D1. apply wr8_out.
        destruct (st_wr _ _ _ _ _ S a Ha) as (c & Hc & X).
        destruct (tiles_in _ _ _ _ (st_tiles _ _ _ _ _ S) Hc) as (_ & Y & _). fold hp in Y. lia.
      * cbn [m2 m_max]. exact Mx1.
      * cbn [m2 m_pages]. lia.
Qed.
