(* C28/ProofsEnv.v — the invariant under the guest's and the embedder's operations:
   stores and loads inside live allocations, memory.grow, swapping the memory object. *)
From Coq Require Import NArith List Bool Lia ZifyN ZifyBool.
From C28 Require Import Model ProofsMem ProofsTiles ProofsInv.
Import ListNotations.
Local Open Scope N_scope.

Lemma Struct_ghost s m g g' B lv :
  g_live g' = g_live g -> g_written g' = g_written g -> Struct s m g B lv -> Struct s m g' B lv.
Proof.
  intros E1 E2 [h1 h2 h3 h4 h5 h6 h7 h8 h9 h10 h11]. constructor; auto.
  - now rewrite E1.
  - now rewrite E2.
  - now rewrite E2.
Qed.

Lemma Struct_grow s m B lv g pages' :
  m_pages m <= pages' -> Struct s m g B lv -> Struct s (mkMem pages' (m_max m) (m_data m)) g B lv.
Proof.
  intros Hp [h1 h2 h3 h4 h5 h6 h7 h8 h9 h10 h11]. constructor; auto.
  intros b Hb. specialize (h4 b Hb). unfold msize in *. cbn [m_pages]. unfold page_size in *. nia.
Qed.

Lemma in_live_spec live a : in_live live a = true <-> exists p sz, In (p, sz) live /\ p <= a < p + sz.
Proof.
  unfold in_live. rewrite existsb_exists. split.
  - intros ((p & sz) & Hin & H). cbn [fst snd] in H. exists p, sz. split; [exact Hin|lia].
  - intros (p & sz & Hin & H). exists (p, sz). split; [exact Hin|]. cbn [fst snd]. lia.
Qed.

(* an address inside a live allocation lies in the payload of its block *)
Lemma live_addr_block s m g B lv a :
  Struct s m g B lv -> in_live (g_live g) a = true ->
  exists b, In b B /\ fst b + 8 <= a < fst b + bsize b.
Proof.
  intros S H. apply in_live_spec in H as (p & sz & Hin & Ha).
  apply (st_live _ _ _ _ _ S) in Hin as (b & Hb & Hl & ->).
  destruct (st_lo _ _ _ _ _ S b sz Hb Hl) as (Ho & Hs).
  destruct (order_of_size_spec sz Hs) as (_ & Hle).
  exists b. split; [exact Hb|]. unfold bsize, header_size. rewrite Ho. lia.
Qed.

Lemma payload_not_header a B e b c x :
  tiles a B e -> In b B -> In c B -> fst b + 8 <= x < fst b + bsize b -> x < fst c \/ fst c + 8 <= x.
Proof.
  intros T Hb Hc Hx. destruct (tiles_disjoint _ _ _ _ _ T Hb Hc) as [->|[H|H]].
  - lia.
  - lia.
  - pose proof (bsize_ge c). unfold bsize, header_size in *. lia.
Qed.

Lemma lookup_cons a v sh x : lookup ((a, v) :: sh) x = if a =? x then Some v else lookup sh x.
Proof. reflexivity. Qed.

Lemma Inv_write s m g a v :
  Inv s m g -> in_live (g_live g) a = true ->
  Inv s (mkMem (m_pages m) (m_max m) (wr1 (m_data m) a v))
      (mkGhost (g_live g) ((a, v mod 256) :: g_shadow g) (a :: g_written g) (g_dead g) (g_void g) (m_pages m)).
Proof.
  intros [i1 iw il1 il2 i2 i3 i4 i5] Hin. constructor; cbn [m_pages m_max m_data g_shadow g_dead g_pages]; auto.
  - intros x w. cbn [g_shadow m_data]. rewrite lookup_cons. unfold wr1. rewrite (N.eqb_sym a x).
    destruct (x =? a); [intros [= E]; exact E|]. apply i1.
  - intros x w. cbn [g_shadow g_written]. rewrite lookup_cons. destruct (a =? x) eqn:E.
    + apply N.eqb_eq in E. intros _. now left.
    + intros H. right. now apply (iw x w).
  - intros x [<-|Hx]; [|now apply il1]. apply in_live_spec in Hin as (p & sz & Hp & Ha).
    specialize (il2 p sz Hp). lia.
  - intros P. destruct (i5 P) as (B & lv & S). exists B, lv.
    destruct (live_addr_block _ _ _ _ _ _ S Hin) as (b & Hb & Ha).
    pose proof S as [h1 h2 h3 h4 h5 h6 h7 h8 h9 h10 h11].
    assert (NH : forall c, In c B -> a < fst c \/ fst c + 8 <= a) by (intros c Hc; exact (payload_not_header _ _ _ _ _ _ h2 Hb Hc Ha)).
    constructor; cbn [g_live g_written m_data]; auto.
    + intros c sz Hc Hl. rewrite rd8_wr1_other by (apply NH; exact Hc). now apply (h7 c sz).
    + intros o Ho. destruct (h8 o Ho) as (l & C & ND & IFF). exists l. split; [|split; assumption].
      eapply chain_ext; [|exact C]. intros hp Hhp. apply rd8_wr1_other.
      apply IFF in Hhp as (Hb' & _). exact (NH _ Hb').
    + intros x Hx NHx NW. unfold wr1. destruct (x =? a) eqn:E.
      * apply N.eqb_eq in E. subst x. exfalso. apply NW. now left.
      * apply h9; auto. intros W. apply NW. now right.
    + intros x [<-|Hx]; [exists b; split; assumption|now apply h10].
Qed.

Lemma Inv_read s m g a w :
  Inv s m g -> lookup (g_shadow g) a = Some w -> m_data m a = w.
Proof. intros [i1 _ _ _ _ _ _ _] H. now apply i1. Qed.

Lemma Inv_pages s m g pages' g' :
  Inv s m g -> m_pages m <= pages' <= max_wasm_pages ->
  g_live g' = g_live g -> g_written g' = g_written g -> g_shadow g' = g_shadow g -> g_dead g' = g_dead g ->
  g_pages g' = pages' ->
  Inv s (mkMem pages' (m_max m) (m_data m)) g'.
Proof.
  intros [i1 iw il1 il2 i2 i3 i4 i5] Hp E1 E2 E3 E4 E5. constructor; cbn [m_pages m_max m_data]; auto.
  - intros x w. rewrite E3. apply i1.
  - intros x w. rewrite E3, E2. apply iw.
  - intros x. rewrite E2. apply il1.
  - intros p sz. rewrite E1. apply il2.
  - now rewrite E4.
  - lia.
  - intros P. destruct (i5 P) as (B & lv & S). exists B, lv.
    apply (Struct_ghost _ _ g g'); auto. apply Struct_grow; [lia|exact S].
Qed.
