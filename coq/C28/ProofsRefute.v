(* C28/ProofsRefute.v — witnesses against the pinned tree before the fixes (variant [prefix]). *)
From Coq Require Import NArith List Bool.
From C28 Require Import Model.
Import ListNotations.
Local Open Scope N_scope.

(* Deallocate(20) after Allocate(5) = 8 and Allocate(9) = 24 reads the zero tail of the first
   block and the low word of the second header as an occupied header of order 0: the invalid,
   unaligned free succeeds, and the next Allocate(8) returns 20 — unaligned and inside block 24 *)
Definition unaligned_cfg : cfg := mkCfg 0 1 16.
Definition unaligned_ops : list op := [OAlloc 5; OAlloc 9; OFree 20; OAlloc 8].
Lemma unaligned_free_prefix :
  map (fun x => o_res (snd x)) (run prefix unaligned_cfg zero_mem unaligned_ops) = [RPtr 8; RPtr 24; ROk; RPtr 20]
  /\ check unaligned_cfg (run prefix unaligned_cfg zero_mem unaligned_ops) = false.
Proof. split; vm_compute; reflexivity. Qed.

(* with the heap base at 4 GiB - 16 the first block ends exactly at 4 GiB: the uint32 bumper
   wraps to 0 and the second allocation comes from the bottom of the memory *)
Definition wrap_cfg : cfg := mkCfg 4294967280 1 65536.
Definition wrap_ops : list op := [OAlloc 8; OAlloc 8].
Lemma bumper_wrap_prefix :
  map (fun x => o_res (snd x)) (run prefix wrap_cfg zero_mem wrap_ops) = [RPtr 4294967288; RPtr 8]
  /\ check wrap_cfg (run prefix wrap_cfg zero_mem wrap_ops) = false.
Proof. split; vm_compute; reflexivity. Qed.

(* the repaired code on the same inputs *)
Lemma witnesses_fixed :
  check unaligned_cfg (run fixed unaligned_cfg zero_mem unaligned_ops) = true /\
  check wrap_cfg (run fixed wrap_cfg zero_mem wrap_ops) = true.
Proof. split; vm_compute; reflexivity. Qed.
