(* C28/ProofsBump.v — bump: growing the memory and advancing the bumper. *)
From Coq Require Import NArith List Bool Lia ZifyN ZifyBool.
From C28 Require Import Model ProofsMem ProofsTiles ProofsInv.
Import ListNotations.
Local Open Scope N_scope.

Lemma pages_from_msize m : m_pages m <= max_u32 -> pages_from_size (msize m) = Some (m_pages m).
Proof.
  intros H. unfold pages_from_size, msize, page_size, max_u32 in *.
  assert (E : (m_pages m * 65536 + 65536 - 1) / 65536 = m_pages m).
  { replace (m_pages m * 65536 + 65536 - 1) with (65535 + m_pages m * 65536) by lia.
    rewrite N.div_add by discriminate. reflexivity. }
  rewrite E. assert ((4294967295 <? m_pages m) = false) as -> by (apply N.ltb_ge; lia). reflexivity.
Qed.

Lemma pages_cover r : ((r + page_size - 1) / page_size) * page_size >= r.
Proof.
  unfold page_size. pose proof (N.div_mod (r + 65536 - 1) 65536 ltac:(discriminate)).
  pose proof (N.mod_lt (r + 65536 - 1) 65536 ltac:(discriminate)). lia.
Qed.

(* the result of bump, when it succeeds *)
Lemma bump_ok bumper size m hp b' m' :
  m_pages m <= max_wasm_pages ->
  bump fixed bumper size m = inl (hp, b', m') ->
  hp = bumper /\ b' = bumper + size /\ bumper + size <= max_u32 /\ bumper + size <= msize m' /\
  m_data m' = m_data m /\ m_max m' = m_max m /\ m_pages m <= m_pages m' <= max_wasm_pages.
Proof.
  intros P1. unfold bump. cbn [v_fix_wrap fixed andb].
  destruct (max_u32 <? bumper + size) eqn:W; [discriminate|]. apply N.ltb_ge in W.
  destruct (msize m <? bumper + size) eqn:G.
  - apply N.ltb_lt in G.
    destruct (pages_from_size (bumper + size)) as [rp|] eqn:RP; [|discriminate].
    rewrite pages_from_msize by (unfold max_wasm_pages, max_u32 in *; lia).
    destruct (max_wasm_pages <=? m_pages m) eqn:C1; [discriminate|].
    destruct (max_wasm_pages <? rp) eqn:C2; [discriminate|].
    destruct (grow m (N.max (N.min (m_pages m * 2) max_wasm_pages) rp - m_pages m)) as [m1|] eqn:GR; [|discriminate].
    intros [= <- <- <-]. unfold grow in GR.
    destruct (m_pages m + (N.max (N.min (m_pages m * 2) max_wasm_pages) rp - m_pages m) <=? m_max m) eqn:LE; [|discriminate].
    injection GR as <-. apply N.leb_le in LE. apply N.leb_gt in C1. apply N.ltb_ge in C2.
    unfold pages_from_size in RP. destruct (max_u32 <? (bumper + size + page_size - 1) / page_size); [discriminate|].
    injection RP as <-. pose proof (pages_cover (bumper + size)) as PC.
    cbn [m_data m_max m_pages msize]. unfold msize. cbn [m_pages].
    split; [reflexivity|]. split; [rewrite N.mod_small; [reflexivity|unfold two32, max_u32 in *; lia]|].
    split; [exact W|]. split; [|split; [reflexivity|split; [reflexivity|unfold max_wasm_pages in *; lia]]].
    unfold page_size in *. nia.
  - apply N.ltb_ge in G. intros [= <- <- <-].
    split; [reflexivity|]. split; [rewrite N.mod_small; [reflexivity|unfold two32, max_u32 in *; lia]|].
    split; [exact W|]. split; [exact G|]. split; [reflexivity|]. split; [reflexivity|lia].
Qed.
