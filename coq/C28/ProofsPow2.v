(* C28/ProofsPow2.v — nextPowerOf2GT8 (the bit-smearing trick on uint32) and
   bits.TrailingZeros32(p) - 3 compute order_of_size. *)
From Coq Require Import NArith List Bool Lia ZifyN ZifyBool.
From C28 Require Import Model ProofsMem ProofsTiles.
Local Open Scope N_scope.

(* the top [w] bits below position k are set *)
Definition top_set (k w x : N) : Prop := x < 2 ^ k /\ forall i, i < k -> k <= i + w -> N.testbit x i = true.

Lemma lt_pow2_bits x k : x < 2 ^ k -> forall i, k <= i -> N.testbit x i = false.
Proof.
  intros H i Hi. destruct (N.eq_dec x 0) as [->|NZ]; [apply N.bits_0|].
  apply N.bits_above_log2. apply N.lt_le_trans with k; [|exact Hi]. apply N.log2_lt_pow2; lia.
Qed.
Lemma bits_lt_pow2 x k : (forall i, k <= i -> N.testbit x i = false) -> x < 2 ^ k.
Proof.
  intros H. destruct (N.eq_dec x 0) as [->|NZ]; [apply N.neq_0_lt_0, N.pow_nonzero; discriminate|].
  apply N.log2_lt_pow2; [lia|]. apply N.lt_nge. intros Hle.
  pose proof (N.bit_log2 x NZ) as B. rewrite (H _ Hle) in B. discriminate.
Qed.

Lemma smear_step_top k w x : 0 < w -> top_set k w x -> top_set k (2 * w) (smear_step x w).
Proof.
  intros Hw (Hlt & Hb). split.
  - apply bits_lt_pow2. intros i Hi. unfold smear_step. rewrite N.lor_spec, N.shiftr_spec by lia.
    rewrite (lt_pow2_bits x k Hlt i Hi), (lt_pow2_bits x k Hlt (i + w)) by lia. reflexivity.
  - intros i Hi Hk. unfold smear_step. rewrite N.lor_spec, N.shiftr_spec by lia.
    destruct (N.le_gt_cases k (i + w)) as [A|A].
    + rewrite (Hb i Hi A). reflexivity.
    + rewrite (Hb (i + w)) by lia. apply orb_true_r.
Qed.

Lemma top_set_all k x : k <= 32 -> top_set k 32 x -> x = N.ones k.
Proof.
  intros Hk (Hlt & Hb). apply N.bits_inj. intros i. destruct (N.lt_ge_cases i k) as [A|A].
  - rewrite N.ones_spec_low by exact A. apply Hb; lia.
  - rewrite N.ones_spec_high by exact A. now apply lt_pow2_bits with k.
Qed.

Lemma next_pow2_gt8_spec v : 8 <= v -> v <= max_alloc -> next_pow2_gt8 v = 2 ^ N.log2_up v.
Proof.
  intros H8 HM. unfold next_pow2_gt8, max_alloc, two32 in *.
  assert ((v <? 8) = false) as -> by (apply N.ltb_ge; exact H8).
  replace ((v + 4294967295) mod 4294967296) with (v - 1).
  2:{ replace (v + 4294967295) with (v - 1 + 1 * 4294967296) by lia. rewrite N.mod_add by discriminate.
      symmetry. apply N.mod_small. lia. }
  set (k := N.log2_up v).
  assert (K1 : 2 ^ N.pred k < v <= 2 ^ k) by (apply N.log2_up_spec; lia).
  assert (K3 : 3 <= k) by (change 3 with (N.log2_up 8); apply N.log2_up_le_mono; exact H8).
  assert (K25 : k <= 25) by (apply N.log2_up_le_pow2; [lia|]; change (2 ^ 25) with 33554432; lia).
  assert (T0 : top_set k 1 (v - 1)).
  { split; [lia|]. intros i Hi Hk. assert (i = N.pred k) as -> by lia.
    replace (v - 1) with ((v - 1 - 2 ^ N.pred k) + 1 * 2 ^ N.pred k) by lia.
    rewrite N.testbit_eqb. rewrite N.div_add by (apply N.pow_nonzero; discriminate).
    assert (S : v - 1 - 2 ^ N.pred k < 2 ^ N.pred k).
    { assert (2 ^ k = 2 * 2 ^ N.pred k). { replace k with (N.succ (N.pred k)) at 1 by lia. apply N.pow_succ_r'. } lia. }
    rewrite (N.div_small _ _ S). reflexivity. }
  pose proof (smear_step_top k 1 _ ltac:(lia) T0) as T1.
  pose proof (smear_step_top k 2 _ ltac:(lia) T1) as T2.
  pose proof (smear_step_top k 4 _ ltac:(lia) T2) as T3.
  pose proof (smear_step_top k 8 _ ltac:(lia) T3) as T4.
  pose proof (smear_step_top k 16 _ ltac:(lia) T4) as T5.
  change (2 * 1) with 2 in *. change (2 * 2) with 4 in *. change (2 * 4) with 8 in *. change (2 * 8) with 16 in *.
  change (2 * 16) with 32 in *.
  rewrite (top_set_all k _ ltac:(lia) T5). rewrite N.ones_equiv.
  assert (P : 2 ^ k <= 2 ^ 25) by (apply N.pow_le_mono_r; lia). change (2 ^ 25) with 33554432 in P.
  assert (Q : 0 < 2 ^ k) by (apply N.neq_0_lt_0, N.pow_nonzero; discriminate).
  replace (N.pred (2 ^ k) + 1) with (2 ^ k) by lia. apply N.mod_small. lia.
Qed.

(* orderFromSize, as written in Go, is the model's order_of_size *)
Lemma order_from_size_go_spec size : size <= max_alloc -> order_from_size_go size = order_of_size size.
Proof.
  intros H. unfold order_from_size_go, order_of_size, min_alloc.
  assert (E : (if size <? 8 then 8 else size) = N.max size 8).
  { destruct (size <? 8) eqn:L; [apply N.ltb_lt in L|apply N.ltb_ge in L]; lia. }
  rewrite E. rewrite next_pow2_gt8_spec by (unfold max_alloc in *; lia).
  now rewrite N.log2_pow2 by apply N.le_0_l.
Qed.
