(* C28/Properties.v — property C28: the Wasm heap allocator never hands out overlapping memory.
   Statements only; proofs are in the Proofs*.v files.

   Model.v mirrors lib/runtime/allocator/freeing_bump.go (as repaired by the fix commits
   "allocator rejects deallocation of unaligned pointers" and "allocator bumper no longer wraps
   around at 4GiB") over a byte-addressed linear memory with a size in 64 KiB pages.
   [run fixed c init ops] executes a list of operations — Allocate, Deallocate of arbitrary
   pointers, guest stores/loads (performed only inside the requested size of live allocations),
   memory.grow, swapping the memory object — and returns the trace of results; [check c trace] is
   the property as an executable predicate over such a trace; the driver evaluates the same
   [check] on the traces of the Go implementation. *)
From Coq Require Import NArith List Bool.
From C28 Require Import Model ProofsRefute ProofsRun ProofsPow2 ProofsUncond ProofsStore ProofsSlack.
Import ListNotations.
Local Open Scope N_scope.

(* For every heap base, every initial memory of at most 65536 pages that is zero from the (aligned)
   heap base on, every page maximum of the memory object (also one above 65536: it is the
   allocator's own arithmetic, not the memory's limit, that keeps the size within 4 GiB) and
   every sequence of operations, the trace passes the checker:
   each returned pointer is 8-byte aligned, lies above the heap base, its whole rounded-up block
   (next power of two, at least 8) lies inside the current memory and is disjoint (headers
   included) from every live allocation; bytes stored in a live allocation are read back
   unchanged whatever allocations and frees happen in between; Deallocate of a pointer that is
   not live fails, except that a pointer whose 8 preceding bytes lie below the heap base or
   contain bytes the guest itself stored (a forged header) may be accepted — nothing is demanded
   of the rest of a run after such an acceptance, nor after any free through guest-stored
   bytes; after any failed call every later call fails (the allocator is poisoned); requests
   above 32 MiB fail; no allocator call leaves the memory larger than 65536 pages (4 GiB).
   Environment assumptions inside [check] (they set g_void, after which nothing more is
   demanded by [check] — [check_uncond] below still is): the guest stores only inside the
   requested size of live allocations, the memory object never shrinks, and the guest / the
   embedder never make it larger than 65536 pages themselves. *)
Theorem C28_spec : forall c init ops,
  c_pages c <= max_wasm_pages ->
  (forall a, align_up (c_hb c) <= a -> init a = 0) ->
  check c (run fixed c init ops) = true.
Proof. exact check_run. Qed.
Print Assumptions C28_spec.

(* The unconditional part of the property: NO hypothesis on the configuration, the initial memory
   contents, the memory's page maximum or the guest's behaviour (forged headers, stores anywhere
   through OWrite's live-only filter aside, shrunk memories — everything [check] gives up on
   after g_void).  For every run of either variant: Allocate answers a pointer or an error,
   Deallocate ok or an error; once a call has failed every later call fails; a request above
   32 MiB fails; Deallocate leaves the memory size alone; Allocate never shrinks the memory and,
   started at <= 65536 pages, never leaves it above 65536 pages — whatever maximum the memory
   object itself has.  The driver evaluates [check_uncond] on every Go trace, void or not. *)
Theorem C28_unconditional : forall v c init ops, check_uncond c (run v c init ops) = true.
Proof. exact check_uncond_run. Qed.
Print Assumptions C28_unconditional.

(* requests above 32 MiB fail; an error poisons; a poisoned allocator fails for ever *)
Theorem C28_max_request_and_poisoning : forall s m x,
     (max_alloc < x -> exists e, fst (fst (alloc fixed s m x)) = RErr e)
  /\ (forall e, fst (fst (alloc fixed s m x)) = RErr e -> s_poisoned (snd (fst (alloc fixed s m x))) = true)
  /\ (forall e, fst (fst (dealloc fixed s m x)) = RErr e -> s_poisoned (snd (fst (dealloc fixed s m x))) = true)
  /\ (s_poisoned s = true -> alloc fixed s m x = (RErr EPoisoned, s, m) /\ dealloc fixed s m x = (RErr EPoisoned, s, m)).
Proof. exact max_request_and_poisoning. Qed.
Print Assumptions C28_max_request_and_poisoning.

(* orderFromSize as the Go code computes it (bit-smearing next power of two on uint32, trailing
   zeros) is the order the model uses *)
Theorem C28_order_from_size : forall size, size <= max_alloc -> order_from_size_go size = order_of_size size.
Proof. exact order_from_size_go_spec. Qed.
Print Assumptions C28_order_from_size.

(* non-vacuity: blocks of several orders, free-list reuse in LIFO order, data read back across
   other allocations and frees, a double free, poisoning *)
Example C28_nonvacuous :
  let c := mkCfg 1 1 65536 in
  let ops := [OAlloc 5; OAlloc 9; OWrite 16 170; OAlloc 70000; OFree 32; OAlloc 16; ORead 16; OFree 16; OFree 16; OAlloc 1] in
  map (fun x => (o_res (snd x), o_pages (snd x))) (run fixed c zero_mem ops)
  = [(RPtr 16, 1); (RPtr 32, 1); (ROk, 1); (RPtr 56, 3); (ROk, 3); (RPtr 32, 3); (RVal 170, 3); (ROk, 3);
     (RErr EEmptyHdr, 3); (RErr EPoisoned, 3)]
  /\ check c (run fixed c zero_mem ops) = true.
Proof. split; vm_compute; reflexivity. Qed.

(* multi-byte guest accesses are sequences of byte accesses ([store_bytes] / [load_bytes], the
   expansion the driver applies to the harness ops W / R), so C28_spec covers them; non-vacuity:
   three allocations filled over their whole requested size (33, 7 and 5 bytes), a free, two
   further allocations (one reuses the freed block), then the first and third read back whole *)
Example C28_nonvacuous_multibyte :
  let c := mkCfg 0 1 65536 in
  let ops := [OAlloc 33; OAlloc 7; OAlloc 5] ++ store_bytes 8 (map N.of_nat (seq 1 33)) ++ store_bytes 80 [200; 201; 202; 203; 204; 205; 206]
             ++ store_bytes 96 [9; 8; 7; 6; 5] ++ [OFree 80; OAlloc 3; OAlloc 64] ++ load_bytes 8 33 ++ load_bytes 96 5 in
  map (fun x => o_res (snd x)) (run fixed c zero_mem ops)
  = [RPtr 8; RPtr 80; RPtr 96] ++ repeat ROk 45 ++ [ROk; RPtr 80; RPtr 112]
    ++ map (fun k => RVal (N.of_nat k)) (seq 1 33) ++ [RVal 9; RVal 8; RVal 7; RVal 6; RVal 5]
  /\ check c (run fixed c zero_mem ops) = true.
Proof. split; vm_compute; reflexivity. Qed.

(* The slack of a rounded-up block (the bytes between the requested size and the block size
   8 * 2^order).  Allocate looks at the requested size only through the 32 MiB test and the order,
   which are the same for [size] and [rsz size]: the allocator cannot tell the two requests apart
   (first theorem).  So a guest that also uses the slack is, for the allocator, a guest that asked
   for the whole block, and C28_spec about the operation list with every request rounded up to its
   block size ([round_up]) is the statement about that guest (second theorem): there the observer's
   live range of an allocation is the whole block ([rsz (round_size s) = round_size s]), stores and
   loads anywhere in the block are performed and checked for preservation, and no-overlap is about
   the whole rounded-up blocks.  The driver evaluates `check` in this form on the harness cases
   `sqr`, whose Go side calls Allocate with the original sizes and lets the guest use whole blocks. *)
Theorem C28_request_size_irrelevant : forall v s m size, size <= max_alloc ->
  alloc v s m (rsz size) = alloc v s m size /\ rsz (round_size size) = round_size size.
Proof. intros v s m size H. split; [now apply alloc_round_up|now apply rsz_round_size]. Qed.
Print Assumptions C28_request_size_irrelevant.

Theorem C28_whole_block : forall c init ops,
  c_pages c <= max_wasm_pages ->
  (forall a, align_up (c_hb c) <= a -> init a = 0) ->
  check c (run fixed c init (round_up ops)) = true.
Proof. exact check_run_rounded. Qed.
Print Assumptions C28_whole_block.

(* non-vacuity: requests of 5 and 9 bytes get blocks of 8 and 16; the guest stores into the last
   byte of each block (slack), another allocation, a free and a reuse happen, the bytes read back;
   with the requests as given the same stores are outside the observer's live ranges (skipped) *)
Example C28_nonvacuous_slack :
  let c := mkCfg 0 1 16 in
  let ops := [OAlloc 5; OAlloc 9; OWrite 15 77; OWrite 39 88; OAlloc 100; ORead 39; OFree 24; OAlloc 3; ORead 15] in
  map (fun x => o_res (snd x)) (run fixed c zero_mem (round_up ops))
  = [RPtr 8; RPtr 24; ROk; ROk; RPtr 48; RVal 88; ROk; RPtr 184; RVal 77]
  /\ check c (run fixed c zero_mem (round_up ops)) = true
  /\ map (fun x => o_res (snd x)) (run fixed c zero_mem ops)
  = [RPtr 8; RPtr 24; RSkip; RSkip; RPtr 48; RSkip; ROk; RPtr 184; RSkip].
Proof. repeat split; vm_compute; reflexivity. Qed.

(* non-vacuity of the 4 GiB clause: a memory object that would allow 131072 pages; the heap base
   sits at the end of the 40000 pages present, so the first Allocate has to grow: doubling would
   give 80000 pages, the allocator stops at 65536 *)
Example C28_nonvacuous_4GiB :
  let c := mkCfg 2621440000 40000 131072 in
  let ops := [OAlloc 8; OAlloc 33554432] in
  map (fun x => (o_res (snd x), o_pages (snd x))) (run fixed c zero_mem ops)
  = [(RPtr 2621440008, 65536); (RPtr 2621440024, 65536)]
  /\ check c (run fixed c zero_mem ops) = true /\ check_uncond c (run fixed c zero_mem ops) = true.
Proof. split; [|split]; vm_compute; reflexivity. Qed.

(* non-vacuity of the unconditional checker on a run that [check] has given up on: a forged
   occupied header (order 3) inside a live payload is freed and accepted, the next request of
   that order is served from inside the live block (g_void: the guest broke its discipline),
   then a double free fails and poisons — which [check_uncond] still demands *)
Example C28_nonvacuous_uncond :
  let c := mkCfg 0 1 16 in
  let ops := [OAlloc 200; OWrite 16 3; OWrite 20 1; OFree 24; OAlloc 64; OFree 8; OFree 8; OAlloc 1] in
  map (fun x => o_res (snd x)) (run fixed c zero_mem ops)
  = [RPtr 8; ROk; ROk; ROk; RPtr 24; ROk; RErr EEmptyHdr; RErr EPoisoned]
  /\ check_uncond c (run fixed c zero_mem ops) = true.
Proof. split; vm_compute; reflexivity. Qed.

(* the pinned tree before the fixes: an unaligned invalid free was accepted and led to an
   unaligned pointer inside a live block *)
Theorem C28_unaligned_free_prefix_refuted :
  exists c ops, check c (run prefix c zero_mem ops) = false /\
                map (fun x => o_res (snd x)) (run prefix c zero_mem ops) = [RPtr 8; RPtr 24; ROk; RPtr 20].
Proof. exists unaligned_cfg, unaligned_ops. destruct unaligned_free_prefix as (A & B). now split. Qed.
Print Assumptions C28_unaligned_free_prefix_refuted.

(* ... and the bumper wrapped around at 4 GiB *)
Theorem C28_bumper_wrap_prefix_refuted :
  exists c ops, check c (run prefix c zero_mem ops) = false /\
                map (fun x => o_res (snd x)) (run prefix c zero_mem ops) = [RPtr 4294967288; RPtr 8].
Proof. exists wrap_cfg, wrap_ops. destruct bumper_wrap_prefix as (A & B). now split. Qed.
Print Assumptions C28_bumper_wrap_prefix_refuted.

(* Rounding every request up to its block size is unobservable to the allocator, at the level of
   whole runs (ProofsSlackRun.v).  [run ops] and [run (round_up ops)] side by side, entry by entry
   ([same_call]): the same operation up to rounding, the same memory size after it, and for every
   operation other than a guest load / store (Allocate, Deallocate, memory.grow, memory swap) the
   same result — pointer, error or ok.  At the end ([final_agree]): the same allocator state
   (bumper, free-list heads, poison flag, bytesAllocated, last observed size), memories of the same
   size that agree at every address the rounded guest has not stored to, the same live pointers
   (the rounded observer's ranges at least as long), and, unless poisoned, every header word of
   every block carved so far equal in both memories.  Requests above 32 MiB are left alone by
   [round_up] and fail identically.  Hypothesis besides those of C28_spec: the observer of the
   rounded run never sees an environment assumption of [check] broken ([trace_void], computed from
   the trace alone by folding [track]: no free through bytes the guest stored itself, no shrunk or
   oversized memory).  It cannot be dropped (C28_round_up_observable_when_void: a header forged in
   the slack is accepted by the rounded run; the original run skips the stores and the free fails). *)
From C28 Require Import ProofsSlackRun.
Theorem C28_round_up_unobservable : forall c init ops,
  c_pages c <= max_wasm_pages ->
  (forall a, align_up (c_hb c) <= a -> init a = 0) ->
  trace_void c (run fixed c init (round_up ops)) = false ->
  Forall2 same_call (run fixed c init ops) (run fixed c init (round_up ops)) /\
  final_agree (final fixed c init ops) (final fixed c init (round_up ops)).
Proof. exact round_up_unobservable. Qed.
Print Assumptions C28_round_up_unobservable.

(* hence C28_whole_block speaks about the original operation list: the allocator-facing
   observations of [run ops] are, entry by entry, those of a trace that passes the whole-block
   checker (the trace of the rounded run) *)
Theorem C28_whole_block_transfer : forall c init ops,
  c_pages c <= max_wasm_pages ->
  (forall a, align_up (c_hb c) <= a -> init a = 0) ->
  trace_void c (run fixed c init (round_up ops)) = false ->
  exists tr, check c tr = true /\ Forall2 same_call (run fixed c init ops) tr.
Proof. exact whole_block_transfer. Qed.
Print Assumptions C28_whole_block_transfer.

Theorem C28_round_up_observable_when_void :
  trace_void forge_cfg (run fixed forge_cfg zero_mem (round_up forge_ops)) = true /\
  map (fun x => o_res (snd x)) (run fixed forge_cfg zero_mem (round_up forge_ops)) = [RPtr 8; ROk; ROk; ROk] /\
  map (fun x => o_res (snd x)) (run fixed forge_cfg zero_mem forge_ops) = [RPtr 8; RSkip; RSkip; RErr EEmptyHdr].
Proof. exact round_up_observable_when_void. Qed.
Print Assumptions C28_round_up_observable_when_void.

(* non-vacuity: the run of C28_nonvacuous_slack (stores into the slack, a free, a reuse) meets the
   hypothesis, and the allocator calls of the two runs answer alike *)
Example C28_nonvacuous_unobservable :
  let c := mkCfg 0 1 16 in
  let ops := [OAlloc 5; OAlloc 9; OWrite 15 77; OWrite 39 88; OAlloc 100; ORead 39; OFree 24; OAlloc 3; ORead 15] in
  trace_void c (run fixed c zero_mem (round_up ops)) = false
  /\ map (fun x => o_res (snd x)) (filter (fun x => negb (is_guest (fst x))) (run fixed c zero_mem ops))
     = [RPtr 8; RPtr 24; RPtr 48; ROk; RPtr 184]
  /\ map (fun x => o_res (snd x)) (filter (fun x => negb (is_guest (fst x))) (run fixed c zero_mem (round_up ops)))
     = [RPtr 8; RPtr 24; RPtr 48; ROk; RPtr 184].
Proof. repeat split; vm_compute; reflexivity. Qed.
