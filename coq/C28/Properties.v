(* C28/Properties.v — property C28: the Wasm heap allocator never hands out overlapping memory.
   Statements only; proofs are in the Proofs*.v files.

   Model.v mirrors lib/runtime/allocator/freeing_bump.go (as repaired by the fix commits
   "allocator rejects deallocation of unaligned pointers" and "allocator bumper no longer wraps
   around at 4GiB") over a byte-addressed linear memory with a size in 64 KiB pages.
   [run fixed c init ops] executes a list of operations — Allocate, Deallocate of arbitrary
   pointers, guest stores/loads (performed only inside the requested size of live allocations),
   memory.grow, swapping the memory object — and returns the trace of results; [check c trace] is
   the property as an executable predicate over such a trace; the driver evaluates the same
   [check] on the traces of the Go implementation. *)
From Coq Require Import NArith List Bool.
From C28 Require Import Model ProofsRefute ProofsRun ProofsPow2.
Import ListNotations.
Local Open Scope N_scope.

(* For every heap base, every initial memory that is zero from the (aligned) heap base on, every
   page maximum up to 65536 and every sequence of operations, the trace passes the checker:
   each returned pointer is 8-byte aligned, lies above the heap base, its whole rounded-up block
   (next power of two, at least 8) lies inside the current memory and is disjoint (headers
   included) from every live allocation; bytes stored in a live allocation are read back
   unchanged whatever allocations and frees happen in between; Deallocate of a pointer that is
   not live fails, except that a pointer whose 8 preceding bytes lie below the heap base or
   contain bytes the guest itself stored (a forged header) may be accepted — nothing is demanded
   of the rest of a run after such an acceptance, nor after any free through guest-stored
   bytes; after any failed call every later call fails (the allocator is poisoned); requests
   above 32 MiB fail; the memory never exceeds 65536 pages (4 GiB). *)
Theorem C28_spec : forall c init ops,
  c_pages c <= c_max c -> c_max c <= max_wasm_pages ->
  (forall a, align_up (c_hb c) <= a -> init a = 0) ->
  check c (run fixed c init ops) = true.
Proof. exact check_run. Qed.
Print Assumptions C28_spec.

(* requests above 32 MiB fail; an error poisons; a poisoned allocator fails for ever *)
Theorem C28_max_request_and_poisoning : forall s m x,
     (max_alloc < x -> exists e, fst (fst (alloc fixed s m x)) = RErr e)
  /\ (forall e, fst (fst (alloc fixed s m x)) = RErr e -> s_poisoned (snd (fst (alloc fixed s m x))) = true)
  /\ (forall e, fst (fst (dealloc fixed s m x)) = RErr e -> s_poisoned (snd (fst (dealloc fixed s m x))) = true)
  /\ (s_poisoned s = true -> alloc fixed s m x = (RErr EPoisoned, s, m) /\ dealloc fixed s m x = (RErr EPoisoned, s, m)).
Proof.
  intros s m x. split; [apply alloc_too_large|]. split; [apply error_poisons_alloc|].
  split; [apply error_poisons_dealloc|apply poisoned_forever].
Qed.
Print Assumptions C28_max_request_and_poisoning.

(* orderFromSize as the Go code computes it (bit-smearing next power of two on uint32, trailing
   zeros) is the order the model uses *)
Theorem C28_order_from_size : forall size, size <= max_alloc -> order_from_size_go size = order_of_size size.
Proof. exact order_from_size_go_spec. Qed.
Print Assumptions C28_order_from_size.

(* non-vacuity: blocks of several orders, free-list reuse in LIFO order, data read back across
   other allocations and frees, a double free, poisoning *)
Example C28_nonvacuous :
  let c := mkCfg 1 1 65536 in
  let ops := [OAlloc 5; OAlloc 9; OWrite 16 170; OAlloc 70000; OFree 32; OAlloc 16; ORead 16; OFree 16; OFree 16; OAlloc 1] in
  map (fun x => (o_res (snd x), o_pages (snd x))) (run fixed c zero_mem ops)
  = [(RPtr 16, 1); (RPtr 32, 1); (ROk, 1); (RPtr 56, 3); (ROk, 3); (RPtr 32, 3); (RVal 170, 3); (ROk, 3);
     (RErr EEmptyHdr, 3); (RErr EPoisoned, 3)]
  /\ check c (run fixed c zero_mem ops) = true.
Proof. split; vm_compute; reflexivity. Qed.

(* the pinned tree before the fixes: an unaligned invalid free was accepted and led to an
   unaligned pointer inside a live block *)
Theorem C28_unaligned_free_prefix_refuted :
  exists c ops, check c (run prefix c zero_mem ops) = false /\
                map (fun x => o_res (snd x)) (run prefix c zero_mem ops) = [RPtr 8; RPtr 24; ROk; RPtr 20].
Proof. exists unaligned_cfg, unaligned_ops. destruct unaligned_free_prefix as (A & B). now split. Qed.
Print Assumptions C28_unaligned_free_prefix_refuted.

(* ... and the bumper wrapped around at 4 GiB *)
Theorem C28_bumper_wrap_prefix_refuted :
  exists c ops, check c (run prefix c zero_mem ops) = false /\
                map (fun x => o_res (snd x)) (run prefix c zero_mem ops) = [RPtr 4294967288; RPtr 8].
Proof. exists wrap_cfg, wrap_ops. destruct bumper_wrap_prefix as (A & B). now split. Qed.
Print Assumptions C28_bumper_wrap_prefix_refuted.
