(* C28/Properties.v — property C28: the Wasm heap allocator never hands out overlapping memory.
   Statements only; proofs are in the Proofs*.v files. *)
From Coq Require Import NArith List Bool.
From C28 Require Import Model ProofsRefute.
Import ListNotations.
Local Open Scope N_scope.

(* the pinned tree before the fixes: an unaligned invalid free was accepted and led to an
   unaligned pointer inside a live block *)
Theorem C28_unaligned_free_prefix_refuted :
  exists c ops, check c (run prefix c zero_mem ops) = false /\
                map (fun x => o_res (snd x)) (run prefix c zero_mem ops) = [RPtr 8; RPtr 24; ROk; RPtr 20].
Proof. exists unaligned_cfg, unaligned_ops. destruct unaligned_free_prefix as (A & B). now split. Qed.
Print Assumptions C28_unaligned_free_prefix_refuted.

(* ... and the bumper wrapped around at 4 GiB *)
Theorem C28_bumper_wrap_prefix_refuted :
  exists c ops, check c (run prefix c zero_mem ops) = false /\
                map (fun x => o_res (snd x)) (run prefix c zero_mem ops) = [RPtr 4294967288; RPtr 8].
Proof. exists wrap_cfg, wrap_ops. destruct bumper_wrap_prefix as (A & B). now split. Qed.
Print Assumptions C28_bumper_wrap_prefix_refuted.
