(* C28/ProofsRun.v — every run of the repaired model satisfies the specification checker. *)
From Coq Require Import NArith List Bool Lia ZifyN ZifyBool.
From C28 Require Import Model ProofsMem ProofsTiles ProofsInv ProofsEnv ProofsBump ProofsAlloc ProofsFree ProofsFree2.
Import ListNotations.
Local Open Scope N_scope.

Definition Inv' (s : st) (m : mem) (g : ghost) : Prop := g_void g = true \/ Inv s m g.

Lemma track_void hb g o ob : g_void g = true -> g_void (track hb g o ob) = true.
Proof.
  intros V. destruct o; cbn [track].
  - destruct (o_res ob); cbn [g_void]; auto.
  - destruct (is_live_ptr (g_live g) ptr); [destruct (o_res ob); cbn [g_void]; auto|].
    destruct (wexempt (g_written g) ptr); [reflexivity|]. destruct (o_res ob); cbn [g_void]; auto.
    destruct (ptr <? hb + header_size); [reflexivity|exact V].
  - destruct (in_live (g_live g) addr); cbn [g_void]; auto.
  - exact V.
  - cbn [g_void]. now rewrite V.
  - cbn [g_void]. now rewrite V.
Qed.

Lemma step_ok_void hb g o ob : g_void g = true -> step_ok hb g o ob = true.
Proof. intros V. unfold step_ok. now rewrite V. Qed.

Lemma alloc_hb s m size : s_hb (snd (fst (alloc fixed s m size))) = s_hb s.
Proof.
  unfold alloc. destruct (s_poisoned s); [reflexivity|]. destruct (msize m <? s_last s); [reflexivity|].
  destruct (max_alloc <? size); [reflexivity|]. cbn [with_last s_heads s_hb s_bumper s_last s_ba s_poisoned].
  destruct (s_heads s (order_of_size size)) as [hp|].
  - destruct (msize m <? hp + osize (order_of_size size) + header_size); [reflexivity|].
    destruct (read_header m hp) as [[l|o']|e]; try reflexivity.
    destruct (write_header m hp (HOcc (order_of_size size))); reflexivity.
  - destruct (bump fixed (s_bumper s) (osize (order_of_size size) + header_size) m) as [[[hp b'] m1]|e]; [|reflexivity].
    destruct (write_header m1 hp (HOcc (order_of_size size))); reflexivity.
Qed.

Lemma step_hb s m g o : s_hb (fst (fst (snd (step fixed (s, m, g) o)))) = s_hb s.
Proof.
  unfold step. destruct o.
  - pose proof (alloc_hb s m size) as X. destruct (alloc fixed s m size) as [[r s'] m']. exact X.
  - destruct (dealloc fixed s m ptr) as [[r s'] m'] eqn:A. cbn [snd fst].
    now destruct (dealloc_shape _ _ _ _ _ _ A) as (_ & _ & X).
  - destruct (in_live (g_live g) addr); reflexivity.
  - destruct (in_live (g_live g) addr); reflexivity.
  - destruct (grow m pages); reflexivity.
  - reflexivity.
Qed.

Lemma pages_ok s m g : Inv s m g -> (m_pages m <=? max_wasm_pages) = true.
Proof. intros [_ _ _ _ _ A _ _]. apply N.leb_le. exact A. Qed.

Theorem step_sound s m g o :
  Inv' s m g ->
  let '(ob, (s', m', g')) := step fixed (s, m, g) o in
  step_ok (s_hb s) g o ob = true /\ Inv' s' m' g' /\ g' = track (s_hb s) g o ob.
Proof.
  intros [V|HI].
  { (* an assumption was broken earlier: nothing is demanded any more *)
    destruct (step fixed (s, m, g) o) as [ob [[s' m'] g']] eqn:E.
    assert (G' : g' = track (s_hb s) g o ob).
    { unfold step in E. destruct o.
      - destruct (alloc fixed s m size) as [[r s1] m1]. now injection E as <- <- <- <-.
      - destruct (dealloc fixed s m ptr) as [[r s1] m1]. now injection E as <- <- <- <-.
      - destruct (in_live (g_live g) addr); now injection E as <- <- <- <-.
      - destruct (in_live (g_live g) addr); now injection E as <- <- <- <-.
      - destruct (grow m pages); now injection E as <- <- <- <-.
      - now injection E as <- <- <- <-. }
    split; [now apply step_ok_void|]. split; [|exact G']. left. rewrite G'. now apply track_void. }
  destruct (g_void g) eqn:NV.
  { destruct (step fixed (s, m, g) o) as [ob [[s' m'] g']] eqn:E.
    assert (G' : g' = track (s_hb s) g o ob).
    { unfold step in E. destruct o.
      - destruct (alloc fixed s m size) as [[r s1] m1]. now injection E as <- <- <- <-.
      - destruct (dealloc fixed s m ptr) as [[r s1] m1]. now injection E as <- <- <- <-.
      - destruct (in_live (g_live g) addr); now injection E as <- <- <- <-.
      - destruct (in_live (g_live g) addr); now injection E as <- <- <- <-.
      - destruct (grow m pages); now injection E as <- <- <- <-.
      - now injection E as <- <- <- <-. }
    split; [now apply step_ok_void|]. split; [|exact G']. left. rewrite G'. now apply track_void. }
  pose proof (pages_ok _ _ _ HI) as PGOK.
  unfold step. destruct o.
  - destruct (alloc fixed s m size) as [[r s'] m'] eqn:A.
    destruct (alloc_sound s m g size HI NV r s' m' A) as (X1 & X2 & _).
    split; [exact X1|]. split; [right; exact X2|reflexivity].
  - destruct (dealloc fixed s m ptr) as [[r s'] m'] eqn:A.
    destruct (dealloc_sound s m g ptr HI NV r s' m' A) as (X1 & X2 & _).
    split; [exact X1|]. split; [exact X2|reflexivity].
  - destruct (in_live (g_live g) addr) eqn:IL.
    + split; [|split; [|reflexivity]].
      * unfold step_ok. rewrite NV. cbn [orb o_pages o_res m_pages]. rewrite PGOK, IL. reflexivity.
      * right. cbn [track o_pages m_pages]. rewrite IL. exact (Inv_write s m g addr val HI IL).
    + split; [|split; [|reflexivity]].
      * unfold step_ok. rewrite NV. cbn [orb o_pages o_res m_pages]. rewrite PGOK, IL. reflexivity.
      * right. cbn [track]. rewrite IL. exact HI.
  - destruct (in_live (g_live g) addr) eqn:IL.
    + split; [|split; [|reflexivity]].
      * unfold step_ok. rewrite NV. cbn [orb o_pages o_res m_pages]. rewrite PGOK, IL. cbn [andb].
        destruct (lookup (g_shadow g) addr) as [w|] eqn:LK; [|reflexivity].
        apply N.eqb_eq. exact (Inv_read s m g addr w HI LK).
      * right. exact HI.
    + split; [|split; [|reflexivity]].
      * unfold step_ok. rewrite NV. cbn [orb o_pages o_res m_pages]. rewrite PGOK, IL. reflexivity.
      * right. exact HI.
  - (* memory.grow by the guest: nothing is demanded of this step itself (the size of the memory
       is the environment's business); growing past 4 GiB voids the rest of the run *)
    pose proof HI as [_ _ _ _ _ P1 P3 _].
    destruct (grow m pages) as [m1|] eqn:GR.
    + unfold grow in GR. destruct (m_pages m + pages <=? m_max m) eqn:LE; [|discriminate]. injection GR as <-.
      split; [|split; [|reflexivity]].
      * unfold step_ok. rewrite NV. reflexivity.
      * cbn [track o_pages m_pages]. rewrite NV. cbn [orb].
        destruct (max_wasm_pages <? m_pages m + pages) eqn:BIG; [left; reflexivity|right].
        apply N.ltb_ge in BIG. apply (Inv_pages s m g); auto. lia.
    + split; [|split; [|reflexivity]].
      * unfold step_ok. rewrite NV. reflexivity.
      * cbn [track o_pages]. rewrite NV. cbn [orb].
        assert ((max_wasm_pages <? m_pages m) = false) as -> by (apply N.ltb_ge; exact P1). right.
        destruct m as [pg mx dt]. apply (Inv_pages s (mkMem pg mx dt) g pg); auto. cbn [m_pages m_max] in *. lia.
  - pose proof HI as [_ _ _ _ _ P1 P3 _]. split; [|split; [|reflexivity]].
    + unfold step_ok. rewrite NV. reflexivity.
    + cbn [track o_pages m_pages]. rewrite NV. cbn [orb].
      destruct (N.min pages (m_max m) <? g_pages g) eqn:SHR; [left; reflexivity|]. cbn [orb].
      destruct (max_wasm_pages <? N.min pages (m_max m)) eqn:BIG; [left; reflexivity|right].
      apply N.ltb_ge in SHR. apply N.ltb_ge in BIG. apply (Inv_pages s m g); auto. lia.
Qed.

Theorem run_sound : forall ops s m g,
  Inv' s m g -> check_from (s_hb s) g (run_from fixed (s, m, g) ops) = true.
Proof.
  induction ops as [|o ops IH]; intros s m g HI; cbn [run_from check_from]; [reflexivity|].
  pose proof (step_sound s m g o HI) as X. pose proof (step_hb s m g o) as HB.
  destruct (step fixed (s, m, g) o) as [ob [[s' m'] g']]. cbn [fst snd] in HB.
  destruct X as (X1 & X2 & ->). cbn [check_from]. rewrite X1. cbn [andb].
  pose proof (IH s' m' _ X2) as Y. rewrite HB in Y. exact Y.
Qed.

Lemma align_up_mod8 hb : align_up hb mod 8 = 0.
Proof. unfold align_up. apply N.mod_mul. discriminate. Qed.
Lemma align_up_lt hb : align_up hb < two32.
Proof.
  unfold align_up. pose proof (N.mod_lt (hb + 7) two32 ltac:(discriminate)).
  pose proof (N.mul_div_le ((hb + 7) mod two32) 8 ltac:(discriminate)). lia.
Qed.

Lemma Inv_init c init :
  c_pages c <= max_wasm_pages ->
  (forall a, align_up (c_hb c) <= a -> init a = 0) ->
  Inv (init_st (c_hb c)) (init_mem c init) (ghost0 (c_pages c)).
Proof.
  intros P1 Z. constructor; cbn [init_st init_mem ghost0 g_shadow g_written g_dead g_pages s_poisoned m_pages m_max]; auto.
  - intros a v H. discriminate.
  - intros a v H. discriminate.
  - intros a [].
  - intros p sz [].
  - intros _. exists [], (fun _ => None). constructor; cbn [init_st init_mem ghost0 s_hb s_bumper s_heads s_ba g_live g_written m_data tiles live_bytes In]; auto.
    + apply align_up_mod8.
    + apply align_up_lt.
    + intros b [].
    + intros p sz. split; [intros []|intros (b & [] & _)].
    + intros b sz [].
    + intros b sz [].
    + intros o _. exists []. cbn [chain In]. split; [reflexivity|]. split; [constructor|]. intros hp. split; [intros []|intros ([] & _)].
    + intros a [].
Qed.

Theorem check_run c init ops :
  c_pages c <= max_wasm_pages ->
  (forall a, align_up (c_hb c) <= a -> init a = 0) ->
  check c (run fixed c init ops) = true.
Proof.
  intros P1 Z. unfold check, run.
  change (align_up (c_hb c)) with (s_hb (init_st (c_hb c))). apply run_sound. right. now apply Inv_init.
Qed.

(* direct facts about the mirrored functions *)
Lemma alloc_too_large v s m size : max_alloc < size -> exists e, fst (fst (alloc v s m size)) = RErr e.
Proof.
  intros H. unfold alloc. destruct (s_poisoned s); [eexists; reflexivity|].
  destruct (msize m <? s_last s); [eexists; reflexivity|].
  assert ((max_alloc <? size) = true) as -> by (apply N.ltb_lt; exact H). eexists; reflexivity.
Qed.

Lemma poisoned_forever v s m x : s_poisoned s = true ->
  alloc v s m x = (RErr EPoisoned, s, m) /\ dealloc v s m x = (RErr EPoisoned, s, m).
Proof. intros H. unfold alloc, dealloc. rewrite H. split; reflexivity. Qed.

Lemma error_poisons_alloc v s m size e : fst (fst (alloc v s m size)) = RErr e -> s_poisoned (snd (fst (alloc v s m size))) = true.
Proof.
  unfold alloc. destruct (s_poisoned s) eqn:P; [intros _; exact P|]. destruct (msize m <? s_last s); [reflexivity|].
  destruct (max_alloc <? size); [reflexivity|]. cbn [with_last s_heads s_hb s_bumper s_last s_ba s_poisoned].
  destruct (s_heads s (order_of_size size)) as [hp|].
  - destruct (msize m <? hp + osize (order_of_size size) + header_size); [reflexivity|].
    destruct (read_header m hp) as [[l|o']|e']; try reflexivity.
    destruct (write_header m hp (HOcc (order_of_size size))); [discriminate|reflexivity].
  - destruct (bump v (s_bumper s) (osize (order_of_size size) + header_size) m) as [[[hp b'] m1]|e']; [|reflexivity].
    destruct (write_header m1 hp (HOcc (order_of_size size))); [discriminate|reflexivity].
Qed.

Lemma error_poisons_dealloc v s m ptr e : fst (fst (dealloc v s m ptr)) = RErr e -> s_poisoned (snd (fst (dealloc v s m ptr))) = true.
Proof.
  unfold dealloc. destruct (s_poisoned s) eqn:P; [intros _; exact P|]. destruct (msize m <? s_last s); [reflexivity|].
  destruct (v_fix_align v && negb (ptr mod 8 =? 0)); [reflexivity|]. destruct (ptr <? header_size); [reflexivity|].
  destruct (read_header m (ptr - header_size)) as [[l|o]|e']; try reflexivity.
  destruct (write_header m (ptr - header_size) (HFree (s_heads (with_last s (msize m)) o))); [|reflexivity].
  cbn [s_ba with_last]. destruct (s_ba s <? osize o + header_size); [reflexivity|discriminate].
Qed.

Lemma max_request_and_poisoning s m x :
     (max_alloc < x -> exists e, fst (fst (alloc fixed s m x)) = RErr e)
  /\ (forall e, fst (fst (alloc fixed s m x)) = RErr e -> s_poisoned (snd (fst (alloc fixed s m x))) = true)
  /\ (forall e, fst (fst (dealloc fixed s m x)) = RErr e -> s_poisoned (snd (fst (dealloc fixed s m x))) = true)
  /\ (s_poisoned s = true -> alloc fixed s m x = (RErr EPoisoned, s, m) /\ dealloc fixed s m x = (RErr EPoisoned, s, m)).
Proof.
  split; [apply alloc_too_large|]. split; [apply error_poisons_alloc|].
  split; [apply error_poisons_dealloc|apply poisoned_forever].
Qed.
