(* Grandpa/Votes.v -- votes, equivocation and vote weights (GRANDPA paper, section 2.2/2.3).

   Voters are indices into a list of weights.  A vote is (voter, target block, signature);
   a set of votes is a list (order and repetition are irrelevant: every notion below is defined
   through [existsb], see [Perm]).  A voter equivocates in S when S holds two different
   votes of it (different target or different signature); an equivocator's weight counts for
   every block.  [weight t ws S b] is the total weight of the voters whose vote is for b or a
   descendant of b, or who equivocate. *)
From Coq Require Import List Arith Lia Bool NArith Permutation ZifyN ZifyNat ZifyBool.
From Grandpa Require Import Tree.
Import ListNotations.
Local Open Scope N_scope.

Record vote := mkVote { vvoter : nat; vblock : block; vsig : nat }.

Definition same_vote (x y : vote) : bool :=
  (vblock x =? vblock y)%nat && (vsig x =? vsig y)%nat.
Definition by_voter (v : nat) (x : vote) : bool := (vvoter x =? v)%nat.

Definition voted (S : list vote) (v : nat) : bool := existsb (by_voter v) S.
Definition equivocates (S : list vote) (v : nat) : bool :=
  existsb (fun x => by_voter v x && existsb (fun y => by_voter v y && negb (same_vote x y)) S) S.
Definition votes_for (t : tree) (S : list vote) (v : nat) (b : block) : bool :=
  existsb (fun x => by_voter v x && ancb t b (vblock x)) S.
Definition supports (t : tree) (S : list vote) (v : nat) (b : block) : bool :=
  equivocates S v || votes_for t S v b.

(* ---- weighted sums over voters ---- *)
Fixpoint wsum_from (i : nat) (ws : list N) (p : nat -> bool) : N :=
  match ws with
  | [] => 0
  | w :: r => (if p i then w else 0) + wsum_from (S i) r p
  end.
Definition wsum (ws : list N) (p : nat -> bool) : N := wsum_from 0 ws p.
Definition total (ws : list N) : N := wsum ws (fun _ => true).

(* supermajority threshold of pkg/finality-grandpa: total - floor((total-1)/3) *)
Definition threshold (ws : list N) : N := total ws - (total ws - 1) / 3.
(* weight that may be faulty / equivocate *)
Definition tolerance (ws : list N) : N := total ws - threshold ws.

Definition weight (t : tree) (ws : list N) (S : list vote) (b : block) : N :=
  wsum ws (fun v => supports t S v b).
Definition cur_weight (ws : list N) (S : list vote) : N := wsum ws (voted S).
Definition eq_weight (ws : list N) (S : list vote) : N := wsum ws (equivocates S).

Definition has_supermajority (t : tree) (ws : list N) (S : list vote) (b : block) : bool :=
  threshold ws <=? weight t ws S b.
(* S is tolerant: the equivocators weigh at most the tolerance *)
Definition tolerant (ws : list N) (S : list vote) : bool := eq_weight ws S <=? tolerance ws.

Lemma existsb_ext_in {A} (f g : A -> bool) l : (forall x, In x l -> f x = g x) -> existsb f l = existsb g l.
Proof.
  induction l as [|a l IH]; intro E; cbn [existsb]; [reflexivity|].
  rewrite (E a (or_introl eq_refl)), IH; [reflexivity|]. intros x I. apply E. now right.
Qed.

(* ---- wsum lemmas ---- *)
Lemma wsum_from_ext i ws p q : (forall v, p v = q v) -> wsum_from i ws p = wsum_from i ws q.
Proof. intro E. revert i. induction ws as [|w r IH]; intro i; cbn [wsum_from]; [reflexivity|]. now rewrite E, IH. Qed.

Lemma wsum_ext ws p q : (forall v, p v = q v) -> wsum ws p = wsum ws q.
Proof. apply wsum_from_ext. Qed.

Lemma wsum_from_mono i ws p q : (forall v, p v = true -> q v = true) -> wsum_from i ws p <= wsum_from i ws q.
Proof.
  intro E. revert i. induction ws as [|w r IH]; intro i; cbn [wsum_from]; [lia|].
  specialize (IH (S i)). destruct (p i) eqn:P; [rewrite (E _ P); lia|]. destruct (q i); lia.
Qed.

Lemma wsum_mono ws p q : (forall v, p v = true -> q v = true) -> wsum ws p <= wsum ws q.
Proof. apply wsum_from_mono. Qed.

Lemma wsum_le_total ws p : wsum ws p <= total ws.
Proof. apply wsum_mono. reflexivity. Qed.

(* inclusion-exclusion *)
Lemma wsum_from_incl_excl i ws p q :
  wsum_from i ws (fun v => p v || q v) + wsum_from i ws (fun v => p v && q v)
  = wsum_from i ws p + wsum_from i ws q.
Proof.
  revert i. induction ws as [|w r IH]; intro i; cbn [wsum_from]; [reflexivity|].
  specialize (IH (S i)). destruct (p i), (q i); cbn [orb andb]; lia.
Qed.

Lemma wsum_incl_excl ws p q :
  wsum ws (fun v => p v || q v) + wsum ws (fun v => p v && q v) = wsum ws p + wsum ws q.
Proof. apply wsum_from_incl_excl. Qed.

Lemma wsum_from_false i ws p : (forall v, p v = false) -> wsum_from i ws p = 0.
Proof. intro E. revert i. induction ws as [|w r IH]; intro i; cbn [wsum_from]; [reflexivity|]. now rewrite E, IH. Qed.

Lemma wsum_split ws p q :
  wsum ws p = wsum ws (fun v => p v && q v) + wsum ws (fun v => p v && negb (q v)).
Proof.
  unfold wsum. generalize 0%nat. induction ws as [|w r IH]; intro i; cbn [wsum_from]; [reflexivity|].
  rewrite (IH (S i)). destruct (p i), (q i); cbn [andb negb]; lia.
Qed.

(* ---- threshold arithmetic ---- *)
Lemma threshold_le_total ws : threshold ws <= total ws.
Proof. unfold threshold. apply N.le_sub_l. Qed.

Lemma three_threshold ws : 0 < total ws -> 2 * total ws < 3 * threshold ws.
Proof.
  intro H. unfold threshold. set (n := total ws) in *.
  pose proof (N.div_mod (n - 1) 3 ltac:(lia)) as D.
  pose proof (N.mod_lt (n - 1) 3 ltac:(lia)) as M.
  assert ((n - 1) / 3 <= n - 1) by (apply N.div_le_upper_bound; lia).
  lia.
Qed.

Lemma tolerance_lt_third ws : 0 < total ws -> 3 * tolerance ws < total ws.
Proof.
  intro H. unfold tolerance. pose proof (three_threshold ws H). pose proof (threshold_le_total ws). lia.
Qed.

(* ---- votes: characterisations ---- *)
Lemma voted_spec S v : voted S v = true <-> exists x, In x S /\ vvoter x = v.
Proof.
  unfold voted, by_voter. rewrite existsb_exists. split; intros [x [I E]]; exists x; split; auto.
  - now apply Nat.eqb_eq. - now apply Nat.eqb_eq.
Qed.

Lemma same_vote_spec x y : same_vote x y = true <-> vblock x = vblock y /\ vsig x = vsig y.
Proof. unfold same_vote. now rewrite andb_true_iff, !Nat.eqb_eq. Qed.

Lemma equivocates_spec S v : equivocates S v = true <->
  exists x y, In x S /\ In y S /\ vvoter x = v /\ vvoter y = v /\ same_vote x y = false.
Proof.
  unfold equivocates, by_voter. rewrite existsb_exists. split.
  - intros [x [Ix H]]. apply andb_true_iff in H. destruct H as [Vx H].
    apply existsb_exists in H. destruct H as [y [Iy H]]. apply andb_true_iff in H. destruct H as [Vy N].
    apply Nat.eqb_eq in Vx, Vy. apply negb_true_iff in N. exists x, y. auto.
  - intros [x [y [Ix [Iy [Vx [Vy N]]]]]]. exists x. split; [assumption|].
    apply andb_true_iff. split; [now apply Nat.eqb_eq|].
    apply existsb_exists. exists y. split; [assumption|].
    apply andb_true_iff. split; [now apply Nat.eqb_eq|]. now apply negb_true_iff.
Qed.

Lemma votes_for_spec t S v b : votes_for t S v b = true <->
  exists x, In x S /\ vvoter x = v /\ anc t b (vblock x).
Proof.
  unfold votes_for, by_voter. rewrite existsb_exists. split.
  - intros [x [I H]]. apply andb_true_iff in H. destruct H as [V A].
    apply Nat.eqb_eq in V. apply ancb_spec in A. eauto.
  - intros [x [I [V A]]]. exists x. split; [assumption|]. apply andb_true_iff.
    split; [now apply Nat.eqb_eq|now apply ancb_spec].
Qed.

Lemma equivocates_voted S v : equivocates S v = true -> voted S v = true.
Proof. rewrite equivocates_spec, voted_spec. intros [x [y [Ix [_ [Vx _]]]]]. eauto. Qed.

Lemma votes_for_voted t S v b : votes_for t S v b = true -> voted S v = true.
Proof. rewrite votes_for_spec, voted_spec. intros [x [I [V _]]]. eauto. Qed.

Lemma supports_voted t S v b : supports t S v b = true -> voted S v = true.
Proof.
  unfold supports. intro H. apply orb_prop in H. destruct H.
  - now apply equivocates_voted. - eapply votes_for_voted; eauto.
Qed.

(* a vote for a block is a vote for all its ancestors *)
Lemma votes_for_anc t S v a b : anc t a b -> votes_for t S v b = true -> votes_for t S v a = true.
Proof.
  rewrite !votes_for_spec. intros A [x [I [V B]]]. exists x. repeat split; auto.
  eapply anc_trans; eauto.
Qed.

Lemma supports_anc t S v a b : anc t a b -> supports t S v b = true -> supports t S v a = true.
Proof.
  unfold supports. intros A H. apply orb_prop in H. destruct H as [H|H].
  - now rewrite H. - rewrite (votes_for_anc t S v a b A H). apply orb_true_r.
Qed.

Lemma weight_anc t ws S a b : anc t a b -> weight t ws S b <= weight t ws S a.
Proof. intro A. apply wsum_mono. intro v. now apply supports_anc. Qed.

Lemma weight_le_cur t ws S b : weight t ws S b <= cur_weight ws S.
Proof. apply wsum_mono. intro v. apply supports_voted. Qed.

Lemma eq_weight_le_weight t ws S b : eq_weight ws S <= weight t ws S b.
Proof. apply wsum_mono. intros v H. unfold supports. now rewrite H. Qed.

(* every vote is for the base *)
Lemma votes_for_root t S v : votes_for t S v 0%nat = voted S v.
Proof.
  unfold votes_for, voted. apply existsb_ext_in. intros x _.
  replace (ancb t 0%nat (vblock x)) with true; [apply andb_true_r|].
  symmetry. apply ancb_spec. apply anc_root.
Qed.

Lemma weight_root t ws S : weight t ws S 0%nat = cur_weight ws S.
Proof.
  apply wsum_ext. intro v. unfold supports. rewrite votes_for_root.
  destruct (equivocates S v) eqn:E; [|reflexivity].
  symmetry. now apply equivocates_voted.
Qed.

(* a voter who does not equivocate votes only on one chain *)
Lemma nonequivocator_one_chain t S v a b :
  equivocates S v = false -> votes_for t S v a = true -> votes_for t S v b = true ->
  same_chain t a b.
Proof.
  intros NE A B. apply votes_for_spec in A, B.
  destruct A as [x [Ix [Vx Ax]]], B as [y [Iy [Vy Ay]]].
  destruct (same_vote x y) eqn:SV.
  - apply same_vote_spec in SV. destruct SV as [E _]. rewrite <- E in Ay.
    exact (anc_linear t a b _ Ax Ay).
  - exfalso. assert (equivocates S v = true); [|congruence].
    apply equivocates_spec. exists x, y. auto.
Qed.

(* ---- the key fact of the paper (Lemma 2.3, weighted): in a tolerant set, blocks with a
   supermajority lie on one chain ---- *)
Lemma supermajorities_one_chain t ws S a b :
  0 < total ws -> tolerant ws S = true ->
  has_supermajority t ws S a = true -> has_supermajority t ws S b = true ->
  same_chain t a b.
Proof.
  intros TP TOL SA SB.
  destruct (ancb t a b) eqn:AB; [left; now apply ancb_spec|].
  destruct (ancb t b a) eqn:BA; [right; now apply ancb_spec|].
  exfalso. apply ancb_false in AB, BA.
  unfold has_supermajority in SA, SB. apply N.leb_le in SA, SB.
  unfold tolerant in TOL. apply N.leb_le in TOL.
  unfold weight in SA, SB.
  pose proof (wsum_incl_excl ws (fun v => supports t S v a) (fun v => supports t S v b)) as IE.
  assert (I : wsum ws (fun v => supports t S v a && supports t S v b) <= eq_weight ws S).
  { apply wsum_mono. intros v H. apply andb_true_iff in H. destruct H as [Ha Hb].
    destruct (equivocates S v) eqn:E; [reflexivity|exfalso].
    unfold supports in Ha, Hb. rewrite E in Ha, Hb. cbn [orb] in Ha, Hb.
    destruct (nonequivocator_one_chain t S v a b E Ha Hb); contradiction. }
  pose proof (wsum_le_total ws (fun v => supports t S v a || supports t S v b)) as U.
  pose proof (three_threshold ws TP). unfold tolerance in TOL.
  pose proof (threshold_le_total ws). lia.
Qed.

(* ---- order and repetition of votes are irrelevant ---- *)
Lemma existsb_perm {A} (f : A -> bool) l l' : Permutation l l' -> existsb f l = existsb f l'.
Proof.
  intro P. induction P as [|x l l' P IH|x y l|l l' l'' P1 IH1 P2 IH2]; cbn [existsb].
  - reflexivity.
  - now rewrite IH.
  - destruct (f x), (f y); reflexivity.
  - congruence.
Qed.

Lemma voted_perm S S' v : Permutation S S' -> voted S v = voted S' v.
Proof. apply existsb_perm. Qed.

Lemma equivocates_perm S S' v : Permutation S S' -> equivocates S v = equivocates S' v.
Proof.
  intro P. unfold equivocates. rewrite (existsb_perm _ S S' P).
  apply existsb_ext_in. intros x _. f_equal. now apply existsb_perm.
Qed.

Lemma votes_for_perm t S S' v b : Permutation S S' -> votes_for t S v b = votes_for t S' v b.
Proof. apply existsb_perm. Qed.

Lemma supports_perm t S S' v b : Permutation S S' -> supports t S v b = supports t S' v b.
Proof. intro P. unfold supports. now rewrite (equivocates_perm S S' v P), (votes_for_perm t S S' v b P). Qed.

Lemma weight_perm t ws S S' b : Permutation S S' -> weight t ws S b = weight t ws S' b.
Proof. intro P. apply wsum_ext. intro v. now apply supports_perm. Qed.

Lemma cur_weight_perm ws S S' : Permutation S S' -> cur_weight ws S = cur_weight ws S'.
Proof. intro P. apply wsum_ext. intro v. now apply voted_perm. Qed.

Lemma eq_weight_perm ws S S' : Permutation S S' -> eq_weight ws S = eq_weight ws S'.
Proof. intro P. apply wsum_ext. intro v. now apply equivocates_perm. Qed.

(* the same holds for any two lists with the same elements (duplicates are irrelevant) *)
Lemma existsb_equiv {A} (f : A -> bool) l l' : (forall x, In x l <-> In x l') -> existsb f l = existsb f l'.
Proof.
  intro E. destruct (existsb f l) eqn:H.
  - symmetry. apply existsb_exists in H. destruct H as [x [I F]]. apply existsb_exists. exists x.
    split; [now apply E|assumption].
  - symmetry. destruct (existsb f l') eqn:H'; [|reflexivity].
    apply existsb_exists in H'. destruct H' as [x [I F]].
    assert (existsb f l = true) by (apply existsb_exists; exists x; split; [now apply E|assumption]).
    congruence.
Qed.

(* ---- adding votes only adds weight ---- *)
Definition subset (S S' : list vote) : Prop := forall x, In x S -> In x S'.

Lemma voted_mono S S' v : subset S S' -> voted S v = true -> voted S' v = true.
Proof. rewrite !voted_spec. intros I [x [Ix V]]. exists x. auto. Qed.

Lemma equivocates_mono S S' v : subset S S' -> equivocates S v = true -> equivocates S' v = true.
Proof.
  rewrite !equivocates_spec. intros I [x [y [Ix [Iy H]]]]. exists x, y. auto.
Qed.

Lemma votes_for_mono t S S' v b : subset S S' -> votes_for t S v b = true -> votes_for t S' v b = true.
Proof. rewrite !votes_for_spec. intros I [x [Ix H]]. exists x. auto. Qed.

Lemma supports_mono t S S' v b : subset S S' -> supports t S v b = true -> supports t S' v b = true.
Proof.
  unfold supports. intros I H. apply orb_prop in H. destruct H as [H|H].
  - now rewrite (equivocates_mono S S' v I H).
  - rewrite (votes_for_mono t S S' v b I H). apply orb_true_r.
Qed.

Lemma weight_mono t ws S S' b : subset S S' -> weight t ws S b <= weight t ws S' b.
Proof. intro I. apply wsum_mono. intro v. now apply supports_mono. Qed.

Lemma cur_weight_mono ws S S' : subset S S' -> cur_weight ws S <= cur_weight ws S'.
Proof. intro I. apply wsum_mono. intro v. now apply voted_mono. Qed.

Lemma eq_weight_mono ws S S' : subset S S' -> eq_weight ws S <= eq_weight ws S'.
Proof. intro I. apply wsum_mono. intro v. now apply equivocates_mono. Qed.

Lemma tolerant_subset ws S S' : subset S S' -> tolerant ws S' = true -> tolerant ws S = true.
Proof.
  unfold tolerant. intros I H. apply N.leb_le in H. apply N.leb_le.
  pose proof (eq_weight_mono ws S S' I). lia.
Qed.

Lemma has_supermajority_mono t ws S S' b :
  subset S S' -> has_supermajority t ws S b = true -> has_supermajority t ws S' b = true.
Proof.
  unfold has_supermajority. intros I H. apply N.leb_le in H. apply N.leb_le.
  pose proof (weight_mono t ws S S' b I). lia.
Qed.

Lemma has_supermajority_anc t ws S a b :
  anc t a b -> has_supermajority t ws S b = true -> has_supermajority t ws S a = true.
Proof.
  unfold has_supermajority. intros A H. apply N.leb_le in H. apply N.leb_le.
  pose proof (weight_anc t ws S a b A). lia.
Qed.
