(* Grandpa/RoundSpec.v -- the GRANDPA round state as a function of the block tree, the voter
   weights and the two vote sets (definitions only; executable; extracted for C20).

   Paper (Stewart, Kokoris-Kogia: "GRANDPA: a Byzantine finality gadget", section 2/4):
     g(S)        the block of highest number for which S has a supermajority  [ghost]
     E_{r,v}     the last block on the chain of g(V_{r,v}) for which it is possible for C_{r,v} to
                 have a supermajority                                            [estimate]
     completable E_{r,v} < g(V_{r,v}), or it is impossible for C_{r,v} to have a supermajority for
                 any child of g(V_{r,v})
     finalized   the last block on the chain of g(V) for which C has a supermajority
   "possible to have a supermajority for B": some extension of C by the votes of voters that have
   not voted yet and by further equivocations, with equivocating weight within the tolerance,
   has a supermajority for B.  With weights:
        weight C B + (total - cur_weight C) + min(cur_weight C - weight C B, tolerance -' eq_weight C)
          >= threshold
   (-' is truncated subtraction).  As in the reference implementation the estimate is the ghost
   and the round is not completable until the precommits seen reach the threshold. *)
From Coq Require Import List Arith Bool NArith.
From Grandpa Require Import Tree Votes.
Import ListNotations.
Local Open Scope N_scope.

Section Round.
Variable t : tree.
Variable ws : list N.

(* g(S): the supermajority block of largest index; under tolerance the supermajority blocks form
   a chain, so this is the one of highest number (RoundProofs.ghost_spec) *)
Definition ghost (S : list vote) : option block :=
  find (has_supermajority t ws S) (rev (blocks t)).

Definition possible (C : list vote) (b : block) : bool :=
  let n := total ws in
  let th := threshold ws in
  let add_eq := (n - th) - eq_weight ws C in
  let cur := cur_weight ws C in
  let pf := weight t ws C b in
  th <=? pf + (n - cur) + N.min (cur - pf) add_eq.

Record round_state := mkRS {
  rs_ghost : option block;        (* Round.State().PrevoteGHOST *)
  rs_finalized : option block;    (* Round.State().Finalized *)
  rs_estimate : option block;     (* Round.State().Estimate *)
  rs_completable : bool;          (* Round.State().Completable *)
  rs_pc_ghost : option block      (* Round.PrecommitGHOST() *)
}.

Definition finalized (V C : list vote) : option block :=
  match ghost V with
  | None => None
  | Some g => if threshold ws <=? cur_weight ws C
              then find_anc t (has_supermajority t ws C) g else None
  end.

Definition estimate (V C : list vote) : option block :=
  match ghost V with
  | None => None
  | Some g => if threshold ws <=? cur_weight ws C
              then find_anc t (possible C) g else Some g
  end.

Definition completable (V C : list vote) : bool :=
  match ghost V with
  | None => false
  | Some g =>
    if threshold ws <=? cur_weight ws C then
      match find_anc t (possible C) g with
      | None => false
      | Some e => negb (e =? g)%nat || negb (existsb (possible C) (children t g))
      end
    else false
  end.

Definition round_state_of (V C : list vote) : round_state :=
  mkRS (ghost V) (finalized V C) (estimate V C) (completable V C) (ghost C).

End Round.

(* the votes of voters outside the voter set are ignored (Round.importPrevote: info == nil) *)
Definition known_voter (ws : list N) (x : vote) : bool := (vvoter x <? length ws)%nat.
