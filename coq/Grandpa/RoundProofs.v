(* Grandpa/RoundProofs.v -- theorems about the round specification (used by C20 and C22). *)
From Coq Require Import List Arith Lia Bool NArith Permutation ZifyN ZifyNat ZifyBool.
From Grandpa Require Import Tree Votes RoundSpec.
Import ListNotations.
Local Open Scope N_scope.

(* ---- find over the blocks in decreasing index order ---- *)
Lemma find_ext {A} (p q : A -> bool) l : (forall x, In x l -> p x = q x) -> find p l = find q l.
Proof.
  induction l as [|a l IH]; intro E; cbn [find]; [reflexivity|].
  rewrite (E a (or_introl eq_refl)). destruct (q a); [reflexivity|].
  apply IH. intros x I. apply E. now right.
Qed.

Lemma find_rev_seq_some p n g : find p (rev (seq 0 n)) = Some g ->
  p g = true /\ (g < n)%nat /\ forall b, (b < n)%nat -> p b = true -> (b <= g)%nat.
Proof.
  induction n as [|n IH].
  - cbn. discriminate.
  - rewrite seq_S, rev_app_distr. cbn [rev app find Nat.add].
    destruct (p n) eqn:P.
    + intro E; injection E as <-. split; [assumption|]. split; [lia|]. intros b B _. lia.
    + intro E. destruct (IH E) as [Pg [G M]]. split; [assumption|]. split; [lia|].
      intros b B Pb. destruct (Nat.eq_dec b n) as [->|N]; [congruence|]. apply M; [lia|assumption].
Qed.

Lemma find_rev_seq_none p n : find p (rev (seq 0 n)) = None -> forall b, (b < n)%nat -> p b = false.
Proof.
  intros H b B. apply (find_none _ _ H). apply in_rev. rewrite rev_involutive. apply in_seq. lia.
Qed.

Section Round.
Variable t : tree.
Variable ws : list N.

(* ================= g(S) ================= *)
(* Paper, Lemma 2.3 + definition of g: for a tolerant S the blocks with a supermajority form a
   chain and g(S) is its head *)
Lemma ghost_spec S g : 0 < total ws -> tolerant ws S = true -> ghost t ws S = Some g ->
  in_tree t g /\ has_supermajority t ws S g = true /\
  forall b, in_tree t b -> has_supermajority t ws S b = true -> anc t b g.
Proof.
  intros total_pos TOL G. unfold ghost, blocks in G. apply find_rev_seq_some in G.
  destruct G as [SG [IG MG]]. split; [exact IG|]. split; [exact SG|].
  intros b IB SB. specialize (MG b IB SB).
  destruct (supermajorities_one_chain t ws S b g total_pos TOL SB SG) as [A|A]; [exact A|].
  apply anc_le in A. assert (b = g) by lia. subst. apply anc_refl.
Qed.

Lemma ghost_highest S g b : 0 < total ws -> tolerant ws S = true -> ghost t ws S = Some g ->
  in_tree t b -> has_supermajority t ws S b = true -> (depth t b <= depth t g)%nat.
Proof. intros TP TOL G IB SB. apply anc_depth_le. eapply ghost_spec; eauto. Qed.

Lemma ghost_unique S g g' : 0 < total ws -> tolerant ws S = true ->
  in_tree t g -> has_supermajority t ws S g = true ->
  (forall b, in_tree t b -> has_supermajority t ws S b = true -> anc t b g) ->
  ghost t ws S = Some g' -> g' = g.
Proof.
  intros TP TOL IG SG MG G'. destruct (ghost_spec S g' TP TOL G') as [IG' [SG' MG']].
  apply (anc_antisym t); auto.
Qed.

Lemma ghost_none S : ghost t ws S = None -> forall b, in_tree t b -> has_supermajority t ws S b = false.
Proof. intros G b IB. unfold ghost, blocks in G. apply (find_rev_seq_none _ _ G b IB). Qed.

Lemma ghost_some_of S b : in_tree t b -> has_supermajority t ws S b = true -> exists g, ghost t ws S = Some g.
Proof.
  intros IB SB. destruct (ghost t ws S) as [g|] eqn:G; [eauto|].
  rewrite (ghost_none S G b IB) in SB. discriminate.
Qed.

(* the ghost exists exactly when the votes seen reach the threshold (all votes are for the base) *)
Lemma ghost_defined S : (exists g, ghost t ws S = Some g) <-> threshold ws <= cur_weight ws S.
Proof.
  split.
  - intros [g G]. unfold ghost, blocks in G. apply find_rev_seq_some in G. destruct G as [SG _].
    unfold has_supermajority in SG. apply N.leb_le in SG.
    pose proof (weight_le_cur t ws S g). lia.
  - intro H. apply (ghost_some_of S 0%nat); [unfold in_tree, size; lia|].
    unfold has_supermajority. rewrite weight_root. now apply N.leb_le.
Qed.

(* monotonicity: more votes move the ghost down its own chain *)
Lemma ghost_mono S S' g : 0 < total ws -> subset S S' -> tolerant ws S' = true -> ghost t ws S = Some g ->
  exists g', ghost t ws S' = Some g' /\ anc t g g'.
Proof.
  intros TP I TOL G.
  unfold ghost, blocks in G. apply find_rev_seq_some in G. destruct G as [SG [IG _]].
  pose proof (has_supermajority_mono t ws S S' g I SG) as SG'.
  destruct (ghost_some_of S' g IG SG') as [g' G']. exists g'. split; [exact G'|].
  eapply ghost_spec; eauto.
Qed.

(* ================= possible ================= *)
(* voters that have voted and either equivocate or do not vote for b *)
Definition against (C : list vote) (b : block) (v : nat) : bool :=
  voted C v && (equivocates C v || negb (votes_for t C v b)).
Definition against_weight (C : list vote) (b : block) : N := wsum ws (against C b).

Lemma cur_split C b :
  cur_weight ws C = weight t ws C b + wsum ws (fun v => voted C v && negb (supports t C v b)).
Proof.
  unfold cur_weight, weight. rewrite (wsum_split ws (voted C) (fun v => supports t C v b)).
  f_equal. apply wsum_ext. intro v.
  destruct (supports t C v b) eqn:Sp; [|now rewrite andb_false_r].
  rewrite andb_true_r. now apply supports_voted in Sp.
Qed.

Lemma against_weight_split C b :
  against_weight C b = eq_weight ws C + wsum ws (fun v => voted C v && negb (supports t C v b)).
Proof.
  unfold against_weight, eq_weight.
  rewrite (wsum_split ws (against C b) (equivocates C)). f_equal; apply wsum_ext; intro v; unfold against, supports.
  - destruct (equivocates C v) eqn:E; [|now rewrite !andb_false_r].
    apply equivocates_voted in E. now rewrite E.
  - destruct (equivocates C v); cbn [orb negb andb]; [now rewrite !andb_false_r|].
    now rewrite andb_true_r.
Qed.

(* the paper's counting form: for a tolerant C it is possible for C to have a supermajority for b
   iff the voters that vote for a block not >= b or equivocate weigh at most 2 * tolerance
   (n = 3f+1: fewer than 2f+1 of them) *)
Lemma possible_tolerant_iff C b : tolerant ws C = true ->
  (possible t ws C b = true <-> against_weight C b <= 2 * tolerance ws).
Proof.
  intro TOL. unfold tolerant in TOL. apply N.leb_le in TOL.
  unfold possible. rewrite N.leb_le. rewrite against_weight_split.
  pose proof (cur_split C b) as CS.
  pose proof (wsum_le_total ws (voted C)) as CT. fold (cur_weight ws C) in CT.
  pose proof (threshold_le_total ws) as TT.
  unfold tolerance in *.
  set (n := total ws) in *. set (th := threshold ws) in *. set (E := eq_weight ws C) in *.
  set (cur := cur_weight ws C) in *. set (pf := weight t ws C b) in *.
  set (A := wsum ws (fun v => voted C v && negb (supports t C v b))) in *.
  lia.
Qed.

Lemma has_supermajority_possible C b : has_supermajority t ws C b = true -> possible t ws C b = true.
Proof.
  unfold has_supermajority, possible. rewrite !N.leb_le. lia.
Qed.

Lemma against_mono C C' b v : subset C C' -> against C b v = true -> against C' b v = true.
Proof.
  intros I H. unfold against in *. apply andb_true_iff in H. destruct H as [V H].
  rewrite (voted_mono C C' v I V). cbn [andb].
  destruct (equivocates C' v) eqn:E'; [reflexivity|]. cbn [orb].
  apply orb_prop in H. destruct H as [E|NV].
  - rewrite (equivocates_mono C C' v I E) in E'. discriminate.
  - apply negb_true_iff in NV. apply negb_true_iff.
    destruct (votes_for t C' v b) eqn:VF'; [exfalso|reflexivity].
    (* v has a vote x in C (not for b) and a vote y in C' for b: two different votes in C' *)
    apply voted_spec in V. destruct V as [x [Ix Vx]].
    apply votes_for_spec in VF'. destruct VF' as [y [Iy [Vy Ay]]].
    destruct (same_vote x y) eqn:SV.
    + apply same_vote_spec in SV. destruct SV as [EB _].
      assert (votes_for t C v b = true); [|congruence].
      apply votes_for_spec. exists x. rewrite EB. auto.
    + assert (equivocates C' v = true); [|congruence].
      apply equivocates_spec. exists x, y. auto.
Qed.

(* once a block is impossible it stays impossible (the estimate can only move up) *)
Lemma possible_antimono C C' b : subset C C' -> tolerant ws C' = true ->
  possible t ws C' b = true -> possible t ws C b = true.
Proof.
  intros I TOL' P'. pose proof (tolerant_subset ws C C' I TOL') as TOL.
  apply (possible_tolerant_iff C' b TOL') in P'. apply (possible_tolerant_iff C b TOL).
  assert (against_weight C b <= against_weight C' b); [|lia].
  apply wsum_mono. intro v. now apply against_mono.
Qed.

Lemma possible_anc C a b : anc t a b -> possible t ws C b = true -> possible t ws C a = true.
Proof.
  intros A. unfold possible. rewrite !N.leb_le.
  pose proof (weight_anc t ws C a b A). pose proof (weight_le_cur t ws C a).
  pose proof (weight_le_cur t ws C b). lia.
Qed.

Lemma possible_root C : possible t ws C 0%nat = true.
Proof.
  unfold possible. rewrite N.leb_le, weight_root.
  pose proof (wsum_le_total ws (voted C)). fold (cur_weight ws C) in *.
  pose proof (threshold_le_total ws). lia.
Qed.

(* with n = 3f+1 every block is possible until the precommits seen reach the threshold: the
   gate "estimate = ghost, not completable below the threshold" of the reference implementation
   is then the paper's definition *)
Lemma below_threshold_all_possible C b :
  total ws = 3 * tolerance ws + 1 -> tolerant ws C = true -> cur_weight ws C < threshold ws ->
  possible t ws C b = true.
Proof.
  intros N31 TOL CUR. apply (possible_tolerant_iff C b TOL).
  assert (against_weight C b <= cur_weight ws C).
  { apply wsum_mono. intros v H. unfold against in H. now apply andb_true_iff in H. }
  unfold tolerance in *. pose proof (threshold_le_total ws). lia.
Qed.

(* ================= finalized / estimate / completable ================= *)
Lemma finalized_spec V C f : finalized t ws V C = Some f ->
  exists g, ghost t ws V = Some g /\ anc t f g /\ has_supermajority t ws C f = true /\
  has_supermajority t ws V f = true /\
  forall b, anc t b g -> has_supermajority t ws C b = true -> anc t b f.
Proof.
  unfold finalized. destruct (ghost t ws V) as [g|] eqn:G; [|discriminate].
  destruct (threshold ws <=? cur_weight ws C); [|discriminate].
  intro F. apply find_anc_some in F. destruct F as [A [SF M]].
  exists g. repeat split; auto.
  unfold ghost, blocks in G. apply find_rev_seq_some in G. destruct G as [SG _].
  eapply has_supermajority_anc; eauto.
Qed.

Lemma estimate_spec V C e : estimate t ws V C = Some e ->
  exists g, ghost t ws V = Some g /\ anc t e g /\
  (threshold ws <= cur_weight ws C ->
     possible t ws C e = true /\ forall b, anc t b g -> possible t ws C b = true -> anc t b e) /\
  (cur_weight ws C < threshold ws -> e = g).
Proof.
  unfold estimate. destruct (ghost t ws V) as [g|] eqn:G; [|discriminate].
  destruct (N.leb_spec (threshold ws) (cur_weight ws C)) as [L|L].
  - intro F. apply find_anc_some in F. destruct F as [A [P M]].
    exists g. repeat split; auto. lia.
  - intro F. injection F as <-. exists g. repeat split; try apply anc_refl; lia.
Qed.

(* the estimate is defined whenever the prevote ghost is *)
Lemma estimate_defined V C g : ghost t ws V = Some g -> exists e, estimate t ws V C = Some e.
Proof.
  intro G. unfold estimate. rewrite G. destruct (threshold ws <=? cur_weight ws C); [|eauto].
  destruct (find_anc t (possible t ws C) g) as [e|] eqn:F; [eauto|].
  pose proof (find_anc_none t _ g F 0%nat (anc_root t g)) as P0. rewrite possible_root in P0. discriminate.
Qed.

(* finalized <= estimate <= ghost, all on one chain *)
Lemma finalized_estimate_ghost V C f e g :
  finalized t ws V C = Some f -> estimate t ws V C = Some e -> ghost t ws V = Some g ->
  anc t f e /\ anc t e g.
Proof.
  intros F E G. unfold finalized, estimate in *. rewrite G in *.
  destruct (threshold ws <=? cur_weight ws C); [|discriminate].
  split.
  - eapply (find_anc_mono t (has_supermajority t ws C) (possible t ws C)); eauto.
    intro z. apply has_supermajority_possible.
  - apply find_anc_some in E. tauto.
Qed.

(* once the threshold of precommits is in, further precommits can only move the estimate up *)
Lemma estimate_antimono V C C' e e' : subset C C' -> tolerant ws C' = true ->
  threshold ws <= cur_weight ws C ->
  estimate t ws V C = Some e -> estimate t ws V C' = Some e' -> anc t e' e.
Proof.
  intros I TOL CUR E E'. unfold estimate in *. destruct (ghost t ws V) as [g|]; [|discriminate].
  pose proof (cur_weight_mono ws C C' I) as CM.
  destruct (N.leb_spec (threshold ws) (cur_weight ws C)); [|lia].
  destruct (N.leb_spec (threshold ws) (cur_weight ws C')); [|lia].
  eapply (find_anc_mono t (possible t ws C') (possible t ws C)); eauto.
  intro z. now apply possible_antimono.
Qed.

(* the finalized block only moves down its chain as votes arrive *)
Lemma finalized_mono V V' C C' f : 0 < total ws -> subset V V' -> subset C C' -> tolerant ws V' = true ->
  finalized t ws V C = Some f -> exists f', finalized t ws V' C' = Some f' /\ anc t f f'.
Proof.
  intros TP IV IC TOL F. destruct (finalized_spec V C f F) as [g [G [A [SC [SV M]]]]].
  destruct (ghost_mono V V' g TP IV TOL G) as [g' [G' AG]].
  unfold finalized in *. rewrite G in F. rewrite G'.
  pose proof (cur_weight_mono ws C C' IC) as CM.
  destruct (N.leb_spec (threshold ws) (cur_weight ws C)); [|discriminate].
  destruct (N.leb_spec (threshold ws) (cur_weight ws C')); [|lia].
  pose proof (has_supermajority_mono t ws C C' f IC SC) as SC'.
  destruct (find_anc t (has_supermajority t ws C') g') as [f'|] eqn:F'.
  - exists f'. split; [reflexivity|]. apply find_anc_some in F'. destruct F' as [_ [_ M']].
    apply M'; [|assumption]. eapply anc_trans; eauto.
  - pose proof (find_anc_none t _ g' F' f (anc_trans t f g g' A AG)). congruence.
Qed.

Lemma completable_spec V C : completable t ws V C = true <->
  threshold ws <= cur_weight ws C /\
  exists g e, ghost t ws V = Some g /\ estimate t ws V C = Some e /\
    (e <> g \/ forall c, In c (children t g) -> possible t ws C c = false).
Proof.
  unfold completable, estimate. destruct (ghost t ws V) as [g|].
  2:{ split; [discriminate|]. intros [_ [g [e [H _]]]]. discriminate. }
  destruct (N.leb_spec (threshold ws) (cur_weight ws C)) as [L|L].
  2:{ split; [discriminate|]. intros [H _]. lia. }
  destruct (find_anc t (possible t ws C) g) as [e|].
  2:{ split; [discriminate|]. intros [_ [g' [e [_ [H _]]]]]. discriminate. }
  rewrite orb_true_iff, !negb_true_iff, Nat.eqb_neq. split.
  - intros H. split; [exact L|]. exists g, e. split; [reflexivity|]. split; [reflexivity|].
    destruct H as [H|H]; [left; exact H|right].
    intros c I. destruct (possible t ws C c) eqn:P; [|reflexivity].
    assert (existsb (possible t ws C) (children t g) = true) by (apply existsb_exists; eauto). congruence.
  - intros [_ [g' [e' [G [E H]]]]]. injection G as <-. injection E as <-.
    destruct H as [H|H]; [left; exact H|right].
    destruct (existsb (possible t ws C) (children t g)) eqn:X; [|reflexivity].
    apply existsb_exists in X. destruct X as [c [I P]]. rewrite (H c I) in P. discriminate.
Qed.

(* ================= order / repetition independence ================= *)
Definition same_votes (S S' : list vote) : Prop := forall x, In x S <-> In x S'.

Lemma same_votes_sub S S' : same_votes S S' -> subset S S' /\ subset S' S.
Proof. intro H. split; intros x I; now apply H. Qed.

Lemma wsum_antisym p q : (forall v, p v = true -> q v = true) -> (forall v, q v = true -> p v = true) ->
  wsum ws p = wsum ws q.
Proof.
  intros A B. apply wsum_ext. intro v. destruct (p v) eqn:P, (q v) eqn:Q; auto.
  - apply A in P. congruence. - apply B in Q. congruence.
Qed.

Lemma weight_same S S' b : same_votes S S' -> weight t ws S b = weight t ws S' b.
Proof. intro H. destruct (same_votes_sub S S' H). apply wsum_antisym; intro v; now apply supports_mono. Qed.
Lemma cur_weight_same S S' : same_votes S S' -> cur_weight ws S = cur_weight ws S'.
Proof. intro H. destruct (same_votes_sub S S' H). apply wsum_antisym; intro v; now apply voted_mono. Qed.
Lemma eq_weight_same S S' : same_votes S S' -> eq_weight ws S = eq_weight ws S'.
Proof. intro H. destruct (same_votes_sub S S' H). apply wsum_antisym; intro v; now apply equivocates_mono. Qed.

Lemma has_supermajority_same S S' b : same_votes S S' -> has_supermajority t ws S b = has_supermajority t ws S' b.
Proof. intro H. unfold has_supermajority. now rewrite (weight_same S S' b H). Qed.

Lemma possible_same S S' b : same_votes S S' -> possible t ws S b = possible t ws S' b.
Proof.
  intro H. unfold possible.
  now rewrite (weight_same S S' b H), (cur_weight_same S S' H), (eq_weight_same S S' H).
Qed.

Lemma ghost_same S S' : same_votes S S' -> ghost t ws S = ghost t ws S'.
Proof. intro H. unfold ghost. apply find_ext. intros x _. now apply has_supermajority_same. Qed.

Lemma find_anc_ext p q g : (forall x, p x = q x) -> find_anc t p g = find_anc t q g.
Proof. intro E. unfold find_anc. apply find_ext. intros x _. apply E. Qed.

(* the round state is a function of the two vote SETS: import order and repetitions are
   irrelevant *)
Lemma round_state_same V V' C C' : same_votes V V' -> same_votes C C' ->
  round_state_of t ws V C = round_state_of t ws V' C'.
Proof.
  intros HV HC. unfold round_state_of, finalized, estimate, completable.
  rewrite (ghost_same V V' HV), (ghost_same C C' HC), (cur_weight_same C C' HC).
  assert (P : forall x, possible t ws C x = possible t ws C' x) by (intro x; now apply possible_same).
  assert (Sm : forall x, has_supermajority t ws C x = has_supermajority t ws C' x)
    by (intro x; now apply has_supermajority_same).
  destruct (ghost t ws V') as [g|]; [|reflexivity].
  rewrite (find_anc_ext _ _ g P), (find_anc_ext _ _ g Sm).
  replace (existsb (possible t ws C) (children t g)) with (existsb (possible t ws C') (children t g))
    by (apply existsb_ext_in; intros x _; symmetry; apply P).
  reflexivity.
Qed.

Lemma perm_same_votes S S' : Permutation S S' -> same_votes S S'.
Proof. intros P x. split; apply Permutation_in; [assumption|now apply Permutation_sym]. Qed.

Lemma round_state_perm V V' C C' : Permutation V V' -> Permutation C C' ->
  round_state_of t ws V C = round_state_of t ws V' C'.
Proof. intros PV PC. apply round_state_same; now apply perm_same_votes. Qed.

End Round.
