(* Grandpa/Tree.v -- explicit block trees for the GRANDPA specifications (C20, C21, C22).

   A tree over blocks 0..k is a list of parents: block 0 is the base (root), the parent of block
   S i is [nth i t 0], clipped to be <= i, so that every list denotes a tree (no well-formedness
   side condition) and ancestors always have smaller indices than their descendants.
   [chain t b] is the list b, parent b, ..., 0.  [anc t a b]: a is b or an ancestor of b. *)
From Coq Require Import List Arith Lia Bool.
Import ListNotations.

Definition block := nat.
Definition tree := list nat.

Definition parent (t : tree) (b : block) : block :=
  match b with O => O | S i => Nat.min i (nth i t O) end.

Lemma parent_lt t b : b <> 0 -> parent t b < b.
Proof. destruct b; [congruence|]. cbn [parent]. lia. Qed.

Lemma parent_le t b : parent t b <= b.
Proof. destruct b; cbn [parent]; lia. Qed.

Fixpoint up (t : tree) (fuel : nat) (b : block) : list block :=
  match fuel with
  | O => [b]
  | S f => match b with O => [O] | S _ => b :: up t f (parent t b) end
  end.

Definition chain (t : tree) (b : block) : list block := up t b b.

Lemma up_fuel2 t : forall f1 f2 b, b <= f1 -> b <= f2 -> up t f1 b = up t f2 b.
Proof.
  induction f1 as [|f1 IH]; intros f2 b H1 H2.
  - assert (b = 0) by lia. subst. destruct f2; reflexivity.
  - destruct b as [|i]; [destruct f2; reflexivity|].
    destruct f2 as [|f2]; [lia|].
    cbn [up]. f_equal.
    assert (P : parent t (S i) <= i) by (pose proof (parent_lt t (S i)); lia).
    apply IH; lia.
Qed.

Lemma up_fuel t f b : b <= f -> up t f b = up t b b.
Proof. intro H. apply up_fuel2; lia. Qed.

Lemma chain_0 t : chain t 0 = [0].
Proof. reflexivity. Qed.

Lemma chain_S t i : chain t (S i) = S i :: chain t (parent t (S i)).
Proof.
  unfold chain. cbn [up]. f_equal. apply up_fuel.
  pose proof (parent_lt t (S i)). lia.
Qed.

Lemma chain_nz t b : b <> 0 -> chain t b = b :: chain t (parent t b).
Proof. destruct b; [congruence|]. intros _. apply chain_S. Qed.

Lemma chain_head t b : exists r, chain t b = b :: r.
Proof. destruct b; [exists []; reflexivity|]. rewrite chain_S. eauto. Qed.

(* strong induction on blocks along the parent function *)
Lemma block_ind (t : tree) (P : block -> Prop) :
  P 0 -> (forall b, b <> 0 -> P (parent t b) -> P b) -> forall b, P b.
Proof.
  intros H0 HS b. induction b as [b IH] using lt_wf_ind.
  destruct b as [|i]; [exact H0|].
  apply HS; [congruence|]. apply IH. apply parent_lt. congruence.
Qed.

Definition anc (t : tree) (a b : block) : Prop := In a (chain t b).
Definition ancb (t : tree) (a b : block) : bool := existsb (Nat.eqb a) (chain t b).

Lemma ancb_spec t a b : ancb t a b = true <-> anc t a b.
Proof.
  unfold ancb, anc. rewrite existsb_exists. split.
  - intros [x [Hin E]]. apply Nat.eqb_eq in E. now subst.
  - intro H. exists a. split; [exact H|apply Nat.eqb_refl].
Qed.

Lemma ancb_false t a b : ancb t a b = false <-> ~ anc t a b.
Proof. rewrite <- ancb_spec. destruct (ancb t a b); split; congruence. Qed.

Lemma anc_refl t b : anc t b b.
Proof. unfold anc. destruct (chain_head t b) as [r ->]. now left. Qed.

Lemma anc_0 t a : anc t a 0 <-> a = 0.
Proof. unfold anc. rewrite chain_0. cbn. intuition. Qed.

Lemma anc_step t a b : b <> 0 -> (anc t a b <-> a = b \/ anc t a (parent t b)).
Proof. intro H. unfold anc. rewrite (chain_nz t b H). cbn. intuition. Qed.

Lemma anc_parent t b : anc t (parent t b) b.
Proof.
  destruct (Nat.eq_dec b 0) as [->|H]; [apply anc_refl|].
  apply anc_step; [exact H|]. right. apply anc_refl.
Qed.

Lemma anc_root t b : anc t 0 b.
Proof.
  induction b using (block_ind t); [apply anc_refl|].
  apply anc_step; auto.
Qed.

Lemma anc_le t a b : anc t a b -> a <= b.
Proof.
  induction b using (block_ind t); intro A.
  - apply anc_0 in A. lia.
  - apply anc_step in A; [|assumption]. destruct A as [->|A]; [lia|].
    specialize (IHb A). pose proof (parent_le t b). lia.
Qed.

Lemma anc_antisym t a b : anc t a b -> anc t b a -> a = b.
Proof. intros A B. apply anc_le in A, B. lia. Qed.

Lemma anc_trans t a b c : anc t a b -> anc t b c -> anc t a c.
Proof.
  intro AB. induction c using (block_ind t); intro BC.
  - apply anc_0 in BC. now subst.
  - apply anc_step in BC; [|assumption]. destruct BC as [->|BC]; [exact AB|].
    apply anc_step; [assumption|]. right. auto.
Qed.

(* the ancestors of a block form a chain *)
Lemma anc_linear t a b c : anc t a c -> anc t b c -> anc t a b \/ anc t b a.
Proof.
  induction c using (block_ind t); intros A B.
  - apply anc_0 in A, B. subst. left. apply anc_refl.
  - apply anc_step in A, B; try assumption.
    destruct A as [->|A], B as [->|B].
    + left. apply anc_refl.
    + right. apply anc_step; auto.
    + left. apply anc_step; auto.
    + auto.
Qed.

Lemma anc_parent_of t a b : anc t a b -> a <> b -> anc t a (parent t b).
Proof.
  intros A N. destruct (Nat.eq_dec b 0) as [->|H].
  - apply anc_0 in A. congruence.
  - apply anc_step in A; [|exact H]. destruct A; [congruence|assumption].
Qed.

(* two blocks are on one chain when one is an ancestor of the other *)
Definition same_chain (t : tree) (a b : block) : Prop := anc t a b \/ anc t b a.

(* number of a block relative to the base *)
Definition depth (t : tree) (b : block) : nat := pred (length (chain t b)).

Lemma depth_0 t : depth t 0 = 0.
Proof. reflexivity. Qed.

Lemma chain_length_pos t b : 0 < length (chain t b).
Proof. destruct (chain_head t b) as [r ->]. cbn. lia. Qed.

Lemma depth_nz t b : b <> 0 -> depth t b = S (depth t (parent t b)).
Proof.
  intro H. unfold depth. rewrite (chain_nz t b H). cbn [length pred].
  pose proof (chain_length_pos t (parent t b)). lia.
Qed.

Lemma anc_depth_le t a b : anc t a b -> depth t a <= depth t b.
Proof.
  induction b using (block_ind t); intro A.
  - apply anc_0 in A. subst. lia.
  - apply anc_step in A; [|assumption]. destruct A as [->|A]; [lia|].
    rewrite (depth_nz t b) by assumption. specialize (IHb A). lia.
Qed.

Lemma anc_depth_eq t a b : anc t a b -> depth t a = depth t b -> a = b.
Proof.
  induction b using (block_ind t); intros A D.
  - now apply anc_0 in A.
  - apply anc_step in A; [|assumption]. destruct A as [->|A]; [reflexivity|].
    apply anc_depth_le in A. rewrite (depth_nz t b) in D by assumption. lia.
Qed.

(* all blocks of the tree (block ids beyond the list hang below the base and carry no votes) *)
Definition size (t : tree) : nat := S (length t).
Definition blocks (t : tree) : list block := seq 0 (size t).
Definition in_tree (t : tree) (b : block) : Prop := b < size t.

Lemma in_blocks t b : In b (blocks t) <-> in_tree t b.
Proof. unfold blocks, in_tree. rewrite in_seq. lia. Qed.

Lemma anc_in_tree t a b : anc t a b -> in_tree t b -> in_tree t a.
Proof. unfold in_tree. intros A B. apply anc_le in A. lia. Qed.

Definition children (t : tree) (b : block) : list block :=
  filter (fun c => negb (c =? 0) && (parent t c =? b)) (blocks t).

Lemma in_children t b c : In c (children t b) <-> in_tree t c /\ c <> 0 /\ parent t c = b.
Proof.
  unfold children. rewrite filter_In, in_blocks, andb_true_iff, negb_true_iff, Nat.eqb_neq, Nat.eqb_eq.
  tauto.
Qed.

(* the first element of the chain from b down to the base that satisfies p: the highest
   block <= b with p (Go: VoteGraph.FindAncestor) *)
Definition find_anc (t : tree) (p : block -> bool) (b : block) : option block :=
  find p (chain t b).

Lemma find_anc_0 t p : find_anc t p 0 = if p 0 then Some 0 else None.
Proof. reflexivity. Qed.

Lemma find_anc_nz t p b : b <> 0 ->
  find_anc t p b = if p b then Some b else find_anc t p (parent t b).
Proof. intro H. unfold find_anc. rewrite (chain_nz t b H). reflexivity. Qed.

Lemma find_anc_some t p b x : find_anc t p b = Some x ->
  anc t x b /\ p x = true /\ forall y, anc t y b -> p y = true -> anc t y x.
Proof.
  induction b using (block_ind t).
  - rewrite find_anc_0. destruct (p 0) eqn:P0; [|discriminate].
    intro H; injection H as <-. split; [apply anc_refl|]. split; [assumption|].
    intros y Y _. exact Y.
  - rewrite (find_anc_nz t p b) by assumption.
    destruct (p b) eqn:Pb.
    + intro E; injection E as <-. split; [apply anc_refl|]. split; [assumption|].
      intros y Y _. exact Y.
    + intro E. destruct (IHb E) as [A [Px M]].
      split; [apply anc_step; auto|]. split; [assumption|].
      intros y Y Py. apply anc_step in Y; [|assumption].
      destruct Y as [->|Y]; [congruence|]. auto.
Qed.

Lemma find_anc_none t p b : find_anc t p b = None -> forall y, anc t y b -> p y = false.
Proof.
  unfold find_anc, anc. intros H y Y.
  apply (find_none _ _ H y Y).
Qed.

Lemma find_anc_mono t (p q : block -> bool) b x y :
  (forall z, p z = true -> q z = true) ->
  find_anc t p b = Some x -> find_anc t q b = Some y -> anc t x y.
Proof.
  intros PQ Hx Hy. apply find_anc_some in Hx, Hy.
  destruct Hx as [Ax [Px _]], Hy as [_ [_ My]]. apply My; auto.
Qed.
