(* C30/ProofsInv.v — the state invariant G of the peer set and the elementary transitions that
   preserve it. *)
From Coq Require Import NArith ZArith List Bool Lia.
From C30 Require Import Model ModelSpec ProofsArith ProofsLists.
Import ListNotations.
Local Open Scope Z_scope.

Definition conn (s : pset) (p : N) : bool :=
  match find_node (nodes s) p with Some n => is_connected (n_st n) | None => false end.

Definition f_in (res : list N) (q : N) (n : node) : bool := mstate_eqb (n_st n) Ingoing && negb (memN q res).
Definition f_out (res : list N) (q : N) (n : node) : bool := mstate_eqb (n_st n) Outgoing && negb (memN q res).

Lemma count_in_cnt s : count_in s = N.of_nat (cnt (f_in (reserved s)) (nodes s)).
Proof. reflexivity. Qed.
Lemma count_out_cnt s : count_out s = N.of_nat (cnt (f_out (reserved s)) (nodes s)).
Proof. reflexivity. Qed.

Record G (c0 : list N) (s : pset) : Prop := mkG {
  g_lk : lk s = Unlocked;
  g_nodup : NoDup (keys (nodes s));
  g_sets : forall p, memN p (noslot s) = memN p (reserved s);
  g_in : num_in s = wrap32u (count_in s);
  g_out : num_out s = wrap32u (count_out s);
  g_ban : forall p n, find_node (nodes s) p = Some n -> is_connected (n_st n) = true -> banned_threshold <= n_rep n;
  g_rng : forall p n, find_node (nodes s) p = Some n -> in32 (n_rep n);
  g_ro : ronly s = true -> forall p, conn s p = true -> memN p (reserved s) = true;
  g_view : exists v, replay c0 (rev (msgs s)) = Some v /\ forall p, memN p v = conn s p
}.

(* ---- replay ---- *)
Lemma replay_app c a b : replay c (a ++ b) = match replay c a with Some v => replay v b | None => None end.
Proof.
  revert c. induction a as [|[st p] a IH]; intros c; cbn [app replay]; [reflexivity|].
  destruct st; try (destruct (memN p c)); auto.
Qed.

Definition view (c0 : list N) (ms : list msg) (cf : N -> bool) : Prop :=
  exists v, replay c0 (rev ms) = Some v /\ forall p, memN p v = cf p.

Lemma view_ext c0 ms cf cg : (forall p, cf p = cg p) -> view c0 ms cf -> view c0 ms cg.
Proof. intros H (v & A & B). exists v. split; [exact A|]. intros p. now rewrite B. Qed.

Lemma view_connect c0 ms cf p st : st = MConnect \/ st = MAccept -> cf p = false -> view c0 ms cf ->
  view c0 ((st, p) :: ms) (fun q => if N.eqb q p then true else cf q).
Proof.
  intros Hst Hp (v & A & B). exists (p :: v). cbn [rev]. rewrite replay_app, A. split.
  - cbn [replay]. rewrite B, Hp. destruct Hst as [-> | ->]; reflexivity.
  - intros q. rewrite memN_cons, B. destruct (N.eqb q p); reflexivity.
Qed.
Lemma view_drop c0 ms cf p : cf p = true -> view c0 ms cf ->
  view c0 ((MDrop, p) :: ms) (fun q => if N.eqb q p then false else cf q).
Proof.
  intros Hp (v & A & B). exists (removeN p v). cbn [rev]. rewrite replay_app, A. split.
  - cbn [replay]. rewrite B, Hp. reflexivity.
  - intros q. rewrite memN_removeN, B. rewrite (N.eqb_sym p q). destruct (N.eqb q p); reflexivity.
Qed.
Lemma view_reject c0 ms cf p : view c0 ms cf -> view c0 ((MReject, p) :: ms) cf.
Proof.
  intros (v & A & B). exists v. cbn [rev]. rewrite replay_app, A. split; [reflexivity|exact B].
Qed.

(* ---- uint32 counter arithmetic ---- *)
Lemma u32_dec_wrap (c : N) : (1 <= c)%N -> u32_dec (wrap32u c) = wrap32u (c - 1).
Proof.
  intros H. unfold u32_dec, wrap32u.
  rewrite N.add_mod_idemp_l by discriminate.
  replace (c + 4294967295)%N with ((c - 1) + 1 * 4294967296)%N by lia.
  now rewrite N.mod_add by discriminate.
Qed.
Lemma u32_inc_wrap (c : N) : u32_inc (wrap32u c) = wrap32u (c + 1).
Proof. unfold u32_inc, wrap32u. now rewrite N.add_mod_idemp_l by discriminate. Qed.

(* ---- the general node update ---- *)
Lemma G_node_change c0 s p n' ni no ms' :
  G c0 s ->
  ni = wrap32u (N.of_nat (cnt (f_in (reserved s)) (set_node (nodes s) p n'))) ->
  no = wrap32u (N.of_nat (cnt (f_out (reserved s)) (set_node (nodes s) p n'))) ->
  in32 (n_rep n') ->
  (is_connected (n_st n') = true -> banned_threshold <= n_rep n') ->
  (ronly s = true -> is_connected (n_st n') = true -> memN p (reserved s) = true) ->
  view c0 ms' (fun q => if N.eqb q p then is_connected (n_st n') else conn s q) ->
  G c0 (mkPS (set_node (nodes s) p n') ni no (max_in s) (max_out s) (noslot s) Unlocked
             (reserved s) (ronly s) (pending s) ms').
Proof.
  intros [gl gn gs gi go gb gr gro gv] Hi Ho Hr Hb Hro Hv.
  constructor; cbn [lk nodes noslot reserved num_in num_out ronly msgs].
  - reflexivity.
  - now apply nodup_set.
  - exact gs.
  - rewrite Hi. reflexivity.
  - rewrite Ho. reflexivity.
  - intros q n. rewrite find_set. destruct (N.eqb q p); [intros [= <-]; exact Hb|apply gb].
  - intros q n. rewrite find_set. destruct (N.eqb q p); [intros [= <-]; exact Hr|apply gr].
  - intros R q. unfold conn. cbn [nodes]. rewrite find_set. destruct (N.eqb q p) eqn:E.
    + apply N.eqb_eq in E. subst q. intros C. now apply Hro.
    + intros C. apply gro; [exact R|exact C].
  - eapply view_ext; [|exact Hv]. intros q. unfold conn. cbn [nodes]. rewrite find_set.
    destruct (N.eqb q p); reflexivity.
Qed.

(* ---- how the counts react to a node update ---- *)
Lemma cnt_same_state f l p n n' :
  find_node l p = Some n -> f p n = f p n' -> cnt f (set_node l p n') = cnt f l.
Proof. intros F E. pose proof (cnt_set_present f l p n' n F) as H. rewrite E in H. lia. Qed.

Lemma f_in_state res q n n' : n_st n = n_st n' -> f_in res q n = f_in res q n'.
Proof. unfold f_in. now intros ->. Qed.
Lemma f_out_state res q n n' : n_st n = n_st n' -> f_out res q n = f_out res q n'.
Proof. unfold f_out. now intros ->. Qed.

Lemma record_eta s : mkPS (nodes s) (num_in s) (num_out s) (max_in s) (max_out s) (noslot s) (lk s)
                          (reserved s) (ronly s) (pending s) (msgs s) = s.
Proof. destruct s; reflexivity. Qed.

Lemma conn_find s p n : find_node (nodes s) p = Some n -> conn s p = is_connected (n_st n).
Proof. unfold conn. now intros ->. Qed.
Lemma conn_none s p : find_node (nodes s) p = None -> conn s p = false.
Proof. unfold conn. now intros ->. Qed.

Lemma G_view_conn c0 s : G c0 s -> view c0 (msgs s) (conn s).
Proof. intros H. exact (g_view _ _ H). Qed.

(* T1: a node keeps its membership state; reputation / lastConnected change *)
Lemma G_set_rep c0 s p n r o :
  G c0 s -> find_node (nodes s) p = Some n -> in32 r ->
  (is_connected (n_st n) = true -> banned_threshold <= r) ->
  G c0 (with_nodes s (set_node (nodes s) p (mkNode (n_st n) r o))).
Proof.
  intros HG F Hr Hb. pose proof HG as [gl gn gs gi go gb gr gro gv].
  unfold with_nodes. rewrite gl.
  apply G_node_change; cbn [n_st n_rep]; auto.
  - rewrite gi, count_in_cnt. f_equal. f_equal. symmetry. eapply cnt_same_state; [exact F|]. now apply f_in_state.
  - rewrite go, count_out_cnt. f_equal. f_equal. symmetry. eapply cnt_same_state; [exact F|]. now apply f_out_state.
  - intros R C. apply gro; [exact R|]. now rewrite (conn_find s p n F).
  - eapply view_ext; [|exact gv]. intros q. destruct (N.eqb q p) eqn:E; [|reflexivity].
    apply N.eqb_eq in E. subst q. now rewrite (conn_find s p n F).
Qed.

(* T2: insertPeer *)
Lemma G_insert c0 s p : G c0 s -> G c0 (insert_node s p).
Proof.
  intros HG. unfold insert_node. destruct (find_node (nodes s) p) eqn:F; [exact HG|].
  pose proof HG as [gl gn gs gi go gb gr gro gv]. unfold with_nodes. rewrite gl.
  apply G_node_change; cbn [n_st n_rep new_node is_connected]; auto; try discriminate.
  - rewrite gi, count_in_cnt. rewrite cnt_set_absent by exact F. cbn. f_equal. lia.
  - rewrite go, count_out_cnt. rewrite cnt_set_absent by exact F. cbn. f_equal. lia.
  - unfold in32, min32, max32. lia.
  - eapply view_ext; [|exact gv]. intros q. destruct (N.eqb q p) eqn:E; [|reflexivity].
    apply N.eqb_eq in E. subst q. now rewrite (conn_none s p F).
Qed.

Lemma insert_node_find s p q :
  find_node (nodes (insert_node s p)) q =
  if N.eqb q p then Some (match find_node (nodes s) p with Some n => n | None => new_node end)
  else find_node (nodes s) q.
Proof.
  unfold insert_node. destruct (find_node (nodes s) p) eqn:F.
  - destruct (N.eqb q p) eqn:E; [|reflexivity]. apply N.eqb_eq in E. now subst.
  - cbn [with_nodes nodes]. now rewrite find_set.
Qed.

(* T3: tryOutgoing succeeded and the Connect message was sent *)
Lemma try_outgoing_cases p s n :
  find_node (nodes s) p = Some n ->
  try_outgoing_pure p s = (Some ErrOutgoingSlotsUnavailable, s) \/
  ((has_free_out s = true \/ memN p (noslot s) = true) /\
   try_outgoing_pure p s =
   (None, mkPS (set_node (nodes s) p (mkNode Outgoing (n_rep n) (n_old n))) (num_in s)
               (if memN p (noslot s) then num_out s else u32_inc (num_out s))
               (max_in s) (max_out s) (noslot s) (lk s) (reserved s) (ronly s) (pending s) (msgs s))).
Proof.
  intros F. unfold try_outgoing_pure. rewrite F.
  destruct (has_free_out s) eqn:H; destruct (memN p (noslot s)) eqn:M; cbn [negb andb]; auto;
    right; (split; [auto|]); destruct s; reflexivity.
Qed.

Lemma G_connect_out c0 s p n :
  G c0 s -> find_node (nodes s) p = Some n -> is_connected (n_st n) = false ->
  banned_threshold <= n_rep n -> (ronly s = true -> memN p (reserved s) = true) ->
  G c0 (mkPS (set_node (nodes s) p (mkNode Outgoing (n_rep n) (n_old n))) (num_in s)
             (if memN p (noslot s) then num_out s else u32_inc (num_out s))
             (max_in s) (max_out s) (noslot s) (lk s) (reserved s) (ronly s) (pending s)
             ((MConnect, p) :: msgs s)).
Proof.
  intros HG F C B R. pose proof HG as [gl gn gs gi go gb gr gro gv]. rewrite gl.
  assert (NI : f_in (reserved s) p n = false) by (unfold f_in; destruct (n_st n); try discriminate; reflexivity).
  assert (NO : f_out (reserved s) p n = false) by (unfold f_out; destruct (n_st n); try discriminate; reflexivity).
  apply G_node_change; cbn [n_st n_rep is_connected]; auto.
  - rewrite gi, count_in_cnt. f_equal. f_equal. symmetry. eapply cnt_same_state; [exact F|]. now rewrite NI.
  - pose proof (cnt_set_present (f_out (reserved s)) (nodes s) p (mkNode Outgoing (n_rep n) (n_old n)) n F) as E.
    rewrite NO in E.
    assert (V : f_out (reserved s) p (mkNode Outgoing (n_rep n) (n_old n)) = negb (memN p (reserved s))) by reflexivity.
    rewrite V in E. rewrite gs. destruct (memN p (reserved s)); cbn [negb b2n] in E.
    + rewrite go, count_out_cnt. f_equal. f_equal. lia.
    + rewrite go, u32_inc_wrap, count_out_cnt. f_equal. lia.
  - eapply gr; eauto.
  - apply (view_connect c0 (msgs s) (conn s) p MConnect); auto. now rewrite (conn_find s p n F).
Qed.

(* T4: tryAcceptIncoming succeeded and the Accept message was sent *)
Lemma try_accept_cases p s n :
  find_node (nodes s) p = Some n ->
  try_accept_incoming_pure p s = (Some ErrIncomingSlotsUnavailable, s) \/
  ((has_free_in s = true \/ memN p (noslot s) = true) /\
   try_accept_incoming_pure p s =
   (None, mkPS (set_node (nodes s) p (mkNode Ingoing (n_rep n) (n_old n)))
               (if memN p (noslot s) then num_in s else u32_inc (num_in s)) (num_out s)
               (max_in s) (max_out s) (noslot s) (lk s) (reserved s) (ronly s) (pending s) (msgs s))).
Proof.
  intros F. unfold try_accept_incoming_pure. rewrite F.
  destruct (has_free_in s) eqn:H; destruct (memN p (noslot s)) eqn:M; cbn [negb andb]; auto;
    right; (split; [auto|]); destruct s; reflexivity.
Qed.

Lemma G_accept_in c0 s p n :
  G c0 s -> find_node (nodes s) p = Some n -> is_connected (n_st n) = false ->
  banned_threshold <= n_rep n -> (ronly s = true -> memN p (reserved s) = true) ->
  G c0 (mkPS (set_node (nodes s) p (mkNode Ingoing (n_rep n) (n_old n)))
             (if memN p (noslot s) then num_in s else u32_inc (num_in s)) (num_out s)
             (max_in s) (max_out s) (noslot s) (lk s) (reserved s) (ronly s) (pending s)
             ((MAccept, p) :: msgs s)).
Proof.
  intros HG F C B R. pose proof HG as [gl gn gs gi go gb gr gro gv]. rewrite gl.
  assert (NI : f_in (reserved s) p n = false) by (unfold f_in; destruct (n_st n); try discriminate; reflexivity).
  assert (NO : f_out (reserved s) p n = false) by (unfold f_out; destruct (n_st n); try discriminate; reflexivity).
  apply G_node_change; cbn [n_st n_rep is_connected]; auto.
  - pose proof (cnt_set_present (f_in (reserved s)) (nodes s) p (mkNode Ingoing (n_rep n) (n_old n)) n F) as E.
    rewrite NI in E.
    assert (V : f_in (reserved s) p (mkNode Ingoing (n_rep n) (n_old n)) = negb (memN p (reserved s))) by reflexivity.
    rewrite V in E. rewrite gs. destruct (memN p (reserved s)); cbn [negb b2n] in E.
    + rewrite gi, count_in_cnt. f_equal. f_equal. lia.
    + rewrite gi, u32_inc_wrap, count_in_cnt. f_equal. lia.
  - rewrite go, count_out_cnt. f_equal. f_equal. symmetry. eapply cnt_same_state; [exact F|]. now rewrite NO.
  - eapply gr; eauto.
  - apply (view_connect c0 (msgs s) (conn s) p MAccept); auto. now rewrite (conn_find s p n F).
Qed.

(* T5: a connected peer is disconnected and the Drop message sent (in either order) *)
Definition disconnected (s : pset) (p : N) (n : node) (ms : list msg) : pset :=
  mkPS (set_node (nodes s) p (mkNode NotConnected (n_rep n) false))
       (if memN p (noslot s) then num_in s else match n_st n with Ingoing => u32_dec (num_in s) | _ => num_in s end)
       (if memN p (noslot s) then num_out s else match n_st n with Outgoing => u32_dec (num_out s) | _ => num_out s end)
       (max_in s) (max_out s) (noslot s) (lk s) (reserved s) (ronly s) (pending s) ms.

Lemma ps_disconnect_connected p s n :
  find_node (nodes s) p = Some n -> is_connected (n_st n) = true ->
  ps_disconnect_pure p s = (None, disconnected s p n (msgs s)).
Proof.
  intros F C. unfold ps_disconnect_pure, disconnected. rewrite F.
  destruct (memN p (noslot s)); [destruct s; reflexivity|].
  destruct (n_st n); try discriminate; destruct s; reflexivity.
Qed.

Lemma G_disconnect c0 s p n :
  G c0 s -> find_node (nodes s) p = Some n -> is_connected (n_st n) = true ->
  G c0 (disconnected s p n ((MDrop, p) :: msgs s)).
Proof.
  intros HG F C. pose proof HG as [gl gn gs gi go gb gr gro gv]. unfold disconnected. rewrite gl.
  pose proof (cnt_set_present (f_in (reserved s)) (nodes s) p (mkNode NotConnected (n_rep n) false) n F) as EI.
  pose proof (cnt_set_present (f_out (reserved s)) (nodes s) p (mkNode NotConnected (n_rep n) false) n F) as EO.
  assert (VI : f_in (reserved s) p (mkNode NotConnected (n_rep n) false) = false) by reflexivity.
  assert (VO : f_out (reserved s) p (mkNode NotConnected (n_rep n) false) = false) by reflexivity.
  rewrite VI in EI. rewrite VO in EO. unfold f_in in EI at 2. unfold f_out in EO at 2.
  apply G_node_change; cbn [n_st n_rep is_connected]; auto; try discriminate.
  - rewrite gs. destruct (memN p (reserved s)) eqn:M; cbn [negb andb b2n] in *.
    + rewrite andb_false_r in EI. rewrite gi, count_in_cnt. f_equal. f_equal. cbn [b2n] in EI. lia.
    + rewrite andb_true_r in EI. destruct (n_st n); try discriminate; cbn [mstate_eqb b2n] in EI.
      * rewrite gi, count_in_cnt, u32_dec_wrap by lia. f_equal. lia.
      * rewrite gi, count_in_cnt. f_equal. f_equal. lia.
  - rewrite gs. destruct (memN p (reserved s)) eqn:M; cbn [negb andb b2n] in *.
    + rewrite andb_false_r in EO. rewrite go, count_out_cnt. f_equal. f_equal. cbn [b2n] in EO. lia.
    + rewrite andb_true_r in EO. destruct (n_st n); try discriminate; cbn [mstate_eqb b2n] in EO.
      * rewrite go, count_out_cnt. f_equal. f_equal. lia.
      * rewrite go, count_out_cnt, u32_dec_wrap by lia. f_equal. lia.
  - eapply gr; eauto.
  - apply (view_drop c0 (msgs s) (conn s) p); auto. now rewrite (conn_find s p n F).
Qed.

(* T6: forgetPeer on a peer that is not connected *)
Lemma G_forget c0 s p n :
  G c0 s -> find_node (nodes s) p = Some n -> is_connected (n_st n) = false ->
  G c0 (snd (forget_peer_pure p s)) /\ fst (forget_peer_pure p s) = None.
Proof.
  intros HG F C. pose proof HG as [gl gn gs gi go gb gr gro gv].
  assert (NI : f_in (reserved s) p n = false) by (unfold f_in; destruct (n_st n); try discriminate; reflexivity).
  assert (NO : f_out (reserved s) p n = false) by (unfold f_out; destruct (n_st n); try discriminate; reflexivity).
  unfold forget_peer_pure. rewrite F. destruct (negb (n_rep n =? 0)); cbn [fst snd]; (split; [|reflexivity]).
  - unfold with_nodes. rewrite gl. apply G_node_change; cbn [n_st n_rep is_connected]; auto; try discriminate.
    + rewrite gi, count_in_cnt. f_equal. f_equal. symmetry. eapply cnt_same_state; [exact F|]. now rewrite NI.
    + rewrite go, count_out_cnt. f_equal. f_equal. symmetry. eapply cnt_same_state; [exact F|]. now rewrite NO.
    + eapply gr; eauto.
    + eapply view_ext; [|exact gv]. intros q. destruct (N.eqb q p) eqn:E; [|reflexivity].
      apply N.eqb_eq in E. subst q. now rewrite (conn_find s p n F).
  - constructor; cbn [with_nodes lk nodes noslot reserved num_in num_out ronly msgs]; auto.
    + now apply nodup_del.
    + rewrite gi. unfold count_in at 2. cbn [nodes reserved with_nodes].
      change (length (filter (slot_in (with_nodes s (del_node (nodes s) p))) (del_node (nodes s) p)))
        with (cnt (f_in (reserved s)) (del_node (nodes s) p)).
      pose proof (cnt_del (f_in (reserved s)) (nodes s) p n gn F) as E. rewrite NI in E.
      rewrite count_in_cnt. f_equal. f_equal. cbn [b2n] in E. lia.
    + rewrite go. unfold count_out at 2. cbn [nodes reserved with_nodes].
      change (length (filter (slot_out (with_nodes s (del_node (nodes s) p))) (del_node (nodes s) p)))
        with (cnt (f_out (reserved s)) (del_node (nodes s) p)).
      pose proof (cnt_del (f_out (reserved s)) (nodes s) p n gn F) as E. rewrite NO in E.
      rewrite count_out_cnt. f_equal. f_equal. cbn [b2n] in E. lia.
    + intros q m. rewrite find_del. destruct (N.eqb q p); [discriminate|apply gb].
    + intros q m. rewrite find_del. destruct (N.eqb q p); [discriminate|apply gr].
    + intros R q. unfold conn. cbn [nodes with_nodes]. rewrite find_del. destruct (N.eqb q p); [discriminate|].
      intros H. apply gro; auto.
    + destruct gv as (v & A & B). exists v. split; [exact A|]. intros q. rewrite B. unfold conn. cbn [nodes with_nodes].
      rewrite find_del. destruct (N.eqb q p) eqn:E; [|reflexivity]. apply N.eqb_eq in E. subst q. now rewrite F.
Qed.

(* T9: a Reject message *)
Lemma G_reject c0 s p : G c0 s -> G c0 (with_msgs s ((MReject, p) :: msgs s)).
Proof.
  intros [gl gn gs gi go gb gr gro gv]. constructor; auto.
  apply (view_reject c0 (msgs s) (conn s) p). exact gv.
Qed.

(* T7: a peer becomes reserved (reservedNode and noSlotNodes) *)
Definition reserve (s : pset) (p : N) : pset :=
  snd (add_noslot_pure p (with_reserved s (p :: reserved s))).

Lemma f_in_other res res' q n : memN q res = memN q res' -> f_in res q n = f_in res' q n.
Proof. unfold f_in. now intros ->. Qed.
Lemma f_out_other res res' q n : memN q res = memN q res' -> f_out res q n = f_out res' q n.
Proof. unfold f_out. now intros ->. Qed.

Lemma G_res_change c0 s res' ns' ni no :
  G c0 s -> (forall q, memN q ns' = memN q res') ->
  ni = wrap32u (N.of_nat (cnt (f_in res') (nodes s))) ->
  no = wrap32u (N.of_nat (cnt (f_out res') (nodes s))) ->
  (ronly s = true -> forall q, conn s q = true -> memN q res' = true) ->
  G c0 (mkPS (nodes s) ni no (max_in s) (max_out s) ns' Unlocked res' (ronly s) (pending s) (msgs s)).
Proof.
  intros [gl gn gs gi go gb gr gro gv] Hs Hi Ho Hro. constructor; cbn [lk nodes noslot reserved num_in num_out ronly msgs]; auto.
Qed.

Lemma G_reserve c0 s p n :
  G c0 s -> memN p (reserved s) = false -> find_node (nodes s) p = Some n ->
  G c0 (reserve s p) /\ fst (add_noslot_pure p (with_reserved s (p :: reserved s))) = None.
Proof.
  intros HG M F. pose proof HG as [gl gn gs gi go gb gr gro gv].
  assert (MN : memN p (noslot s) = false) by now rewrite gs.
  pose proof (cnt_ext_present (f_in (reserved s)) (f_in (p :: reserved s)) (nodes s) p n) as EI.
  pose proof (cnt_ext_present (f_out (reserved s)) (f_out (p :: reserved s)) (nodes s) p n) as EO.
  assert (XI : forall q m, q <> p -> f_in (reserved s) q m = f_in (p :: reserved s) q m).
  { intros q m Hq. apply f_in_other. rewrite memN_cons. apply N.eqb_neq in Hq. now rewrite Hq. }
  assert (XO : forall q m, q <> p -> f_out (reserved s) q m = f_out (p :: reserved s) q m).
  { intros q m Hq. apply f_out_other. rewrite memN_cons. apply N.eqb_neq in Hq. now rewrite Hq. }
  specialize (EI XI gn F). specialize (EO XO gn F).
  assert (VI : f_in (p :: reserved s) p n = false) by (unfold f_in; rewrite memN_cons, N.eqb_refl; cbn; apply andb_false_r).
  assert (VO : f_out (p :: reserved s) p n = false) by (unfold f_out; rewrite memN_cons, N.eqb_refl; cbn; apply andb_false_r).
  assert (WI : f_in (reserved s) p n = mstate_eqb (n_st n) Ingoing) by (unfold f_in; rewrite M; apply andb_true_r).
  assert (WO : f_out (reserved s) p n = mstate_eqb (n_st n) Outgoing) by (unfold f_out; rewrite M; apply andb_true_r).
  rewrite VI, WI in EI. rewrite VO, WO in EO.
  assert (SETS : forall q, memN q (p :: noslot s) = memN q (p :: reserved s)).
  { intros q. rewrite !memN_cons. now rewrite gs. }
  assert (RO : ronly s = true -> forall q, conn s q = true -> memN q (p :: reserved s) = true).
  { intros R q C. rewrite memN_cons. rewrite (gro R q C). apply orb_true_r. }
  unfold reserve, add_noslot_pure. cbn [noslot with_reserved with_noslot nodes]. rewrite MN, F.
  destruct (n_st n) eqn:ST; cbn [mstate_eqb b2n] in EI, EO; cbn [fst snd]; (split; [|reflexivity]);
    unfold with_in, with_out, with_noslot, with_reserved;
    cbn [lk nodes noslot reserved num_in num_out ronly msgs max_in max_out pending];
    rewrite gl; apply G_res_change; auto.
  all: try (rewrite gi, count_in_cnt); try (rewrite go, count_out_cnt).
  all: try (rewrite u32_dec_wrap by lia).
  all: f_equal; lia.
Qed.

(* T8: a reserved peer becomes an ordinary one *)
Definition unreserve (s : pset) (p : N) : pset :=
  snd (remove_noslot_pure p (with_reserved s (removeN p (reserved s)))).

Lemma G_unreserve c0 s p :
  G c0 s -> memN p (reserved s) = true -> (ronly s = true -> conn s p = false) ->
  G c0 (unreserve s p).
Proof.
  intros HG M RC. pose proof HG as [gl gn gs gi go gb gr gro gv].
  assert (MN : memN p (noslot s) = true) by now rewrite gs.
  assert (XI : forall q m, q <> p -> f_in (reserved s) q m = f_in (removeN p (reserved s)) q m).
  { intros q m Hq. apply f_in_other. rewrite memN_removeN. apply N.eqb_neq in Hq. rewrite N.eqb_sym, Hq. reflexivity. }
  assert (XO : forall q m, q <> p -> f_out (reserved s) q m = f_out (removeN p (reserved s)) q m).
  { intros q m Hq. apply f_out_other. rewrite memN_removeN. apply N.eqb_neq in Hq. rewrite N.eqb_sym, Hq. reflexivity. }
  assert (SETS : forall q, memN q (removeN p (noslot s)) = memN q (removeN p (reserved s))).
  { intros q. rewrite !memN_removeN. now rewrite gs. }
  assert (RO : ronly s = true -> forall q, conn s q = true -> memN q (removeN p (reserved s)) = true).
  { intros R q C. rewrite memN_removeN. rewrite (gro R q C), andb_true_r.
    destruct (N.eqb p q) eqn:E; [|reflexivity]. apply N.eqb_eq in E. subst q. rewrite (RC R) in C. discriminate. }
  unfold unreserve, remove_noslot_pure. cbn [noslot with_reserved with_noslot nodes]. rewrite MN. cbn [negb].
  destruct (find_node (nodes s) p) as [n|] eqn:F.
  - pose proof (cnt_ext_present (f_in (reserved s)) (f_in (removeN p (reserved s))) (nodes s) p n XI gn F) as EI.
    pose proof (cnt_ext_present (f_out (reserved s)) (f_out (removeN p (reserved s))) (nodes s) p n XO gn F) as EO.
    assert (VI : f_in (reserved s) p n = false) by (unfold f_in; rewrite M; apply andb_false_r).
    assert (VO : f_out (reserved s) p n = false) by (unfold f_out; rewrite M; apply andb_false_r).
    assert (WI : f_in (removeN p (reserved s)) p n = mstate_eqb (n_st n) Ingoing)
      by (unfold f_in; rewrite memN_removeN, N.eqb_refl; apply andb_true_r).
    assert (WO : f_out (removeN p (reserved s)) p n = mstate_eqb (n_st n) Outgoing)
      by (unfold f_out; rewrite memN_removeN, N.eqb_refl; apply andb_true_r).
    rewrite VI, WI in EI. rewrite VO, WO in EO.
    destruct (n_st n) eqn:ST; cbn [mstate_eqb b2n] in EI, EO; cbn [snd];
      unfold with_in, with_out, with_noslot, with_reserved;
      cbn [lk nodes noslot reserved num_in num_out ronly msgs max_in max_out pending];
      rewrite gl; apply G_res_change; auto.
    all: try (rewrite gi, count_in_cnt); try (rewrite go, count_out_cnt).
    all: try (rewrite u32_inc_wrap).
    all: f_equal; lia.
  - cbn [snd]. unfold with_noslot, with_reserved.
    cbn [lk nodes noslot reserved num_in num_out ronly msgs max_in max_out pending].
    rewrite gl. apply G_res_change; auto.
    + rewrite gi, count_in_cnt. f_equal. f_equal. apply cnt_ext_absent with (p := p); auto.
    + rewrite go, count_out_cnt. f_equal. f_equal. apply cnt_ext_absent with (p := p); auto.
Qed.

(* frame facts about the elementary transitions *)
Lemma u32_dec_inc x : (x < 4294967296)%N -> u32_dec (u32_inc x) = x.
Proof.
  intros H. unfold u32_dec, u32_inc, wrap32u. rewrite N.add_mod_idemp_l by discriminate.
  replace (x + 1 + 4294967295)%N with (x + 1 * 4294967296)%N by lia.
  rewrite N.mod_add by discriminate. now apply N.mod_small.
Qed.
Lemma wrap32u_lt x : (wrap32u x < 4294967296)%N.
Proof. unfold wrap32u. now apply N.mod_lt. Qed.
