(* C30/ProofsOps.v — every handler of the peer set preserves the invariant. *)
From Coq Require Import NArith ZArith List Bool Lia.
From C30 Require Import Model ModelSpec ProofsArith ProofsLists ProofsInv ProofsFrame ProofsWp ProofsPrim ProofsTime ProofsAlloc.
Import ListNotations.
Local Open Scope Z_scope.

Definition F0 (s s' : pset) : Prop :=
  max_in s' = max_in s /\ max_out s' = max_out s /\ ronly s' = ronly s.
Lemma F0_refl s : F0 s s. Proof. repeat split. Qed.
Lemma F0_trans a b c : F0 a b -> F0 b c -> F0 a c.
Proof. intros (A1 & A2 & A3) (B1 & B2 & B3). repeat split; congruence. Qed.
Lemma F_F0 s s' : F s s' -> F0 s s'.
Proof. intros (A & B & C & _). now repeat split. Qed.

Definition op_post (b : bool) (c0 : list N) (s s' : pset) : Prop := H b c0 s' /\ F0 s s'.

Lemma op_post_trans b c0 s1 s2 s3 : op_post b c0 s1 s2 -> op_post b c0 s2 s3 -> op_post b c0 s1 s3.
Proof. intros (_ & A) (B & C). split; [exact B|exact (F0_trans _ _ _ A C)]. Qed.

(* ---- the `ag` pseudo-operation of the harness ---- *)
Lemma H_age_one b c0 s p : H b c0 s -> H b c0 (age_one s p) /\ F0 s (age_one s p).
Proof.
  intros HH. unfold age_one. destruct (find_node (nodes s) p) as [n|] eqn:Fd; [|split; [exact HH|apply F0_refl]].
  split; [|repeat split]. pose proof (H_G _ _ _ HH) as HG.
  apply H_set_rep; auto.
  - exact (g_rng _ _ HG p n Fd).
  - intros C. exact (g_ban _ _ HG p n Fd C).
Qed.

Lemma wp_age b c0 ps : forall s, H b c0 s -> wp (age_peers ps) (fun _ s' => op_post b c0 s s') s.
Proof.
  intros s HH. unfold age_peers. apply wp_bind. apply (wp_modify (fun s => fold_left age_one ps s)). apply wp_ret.
  revert s HH. induction ps as [|p ps IH]; intros s HH; cbn [fold_left].
  - split; [exact HH|apply F0_refl].
  - destruct (H_age_one b c0 s p HH) as (H1 & F1). eapply op_post_trans; [split; [exact H1|exact F1]|]. now apply IH.
Qed.

(* ---- allocSlots as an operation (the ticker) ---- *)
Lemma wp_alloc_slots_op b c0 s : H b c0 s -> wp alloc_slots (fun e s' => e = None /\ op_post b c0 s s') s.
Proof.
  intros HH. eapply wp_conseq. apply (wp_alloc_slots b c0 s HH).
  intros e s' (-> & H1 & F1 & _). split; [reflexivity|]. split; [exact H1|now apply F_F0].
Qed.

(* ---- addPeer ---- *)
(* the postconditions with the returned error: [noerr c] = the loop did not leave with an error *)
Definition noerr (c : ctl) : Prop := ctl_err c = None.
Definition op_post_e (b : bool) (c0 : list N) (s : pset) (e : option err) (s' : pset) : Prop :=
  e = None /\ op_post b c0 s s'.

Lemma wp_add_peer_e b c0 ps s : H b c0 s -> wp (add_peer ps) (op_post_e b c0 s) s.
Proof.
  intros HH. unfold add_peer.
  apply (wp_seq _ _ (fun c s' => noerr c /\ op_post b c0 s s')); [|intros c s' (N & P); apply wp_ret; split; [exact N|exact P]].
  apply (wp_for_each ps _ (fun s' => op_post b c0 s s') (fun c s' => noerr c /\ op_post b c0 s s')).
  - intros s' P. split; [reflexivity|exact P].
  - intros p _ s1 (H1 & F1). pose proof (g_lk _ _ (H_G _ _ _ H1)) as U.
    apply wp_bind. apply wp_peer_status; [exact U|].
    destruct (pstatus_eqb (status_of s1 p) SUnknown); cbn [negb]; [|apply wp_ret; split; [reflexivity|split; assumption]].
    apply wp_bind. apply wp_insert_peer; [exact U|].
    apply wp_bind. eapply wp_conseq. apply (wp_alloc_slots_op b c0 (insert_node s1 p)). now apply H_insert.
    intros e s2 (-> & H2 & F2). apply wp_ret. cbn [opt_ctl]. split; [exact H2|].
    destruct (insert_frame s1 p) as (Fi & _). exact (F0_trans _ _ _ F1 (F0_trans _ _ _ (F_F0 _ _ Fi) F2)).
  - split; [exact HH|apply F0_refl].
Qed.
Lemma wp_add_peer b c0 ps s : H b c0 s -> wp (add_peer ps) (fun _ s' => op_post b c0 s s') s.
Proof. intros HH. eapply wp_conseq; [apply (wp_add_peer_e b c0 ps s HH)|]. intros e s' (_ & P). exact P. Qed.

(* ---- removePeer ---- *)
Lemma status_connected s p : status_of s p = SConnected ->
  exists n, find_node (nodes s) p = Some n /\ is_connected (n_st n) = true.
Proof.
  unfold status_of. destruct (find_node (nodes s) p) as [n|]; [|discriminate].
  destruct (n_st n) eqn:E; try discriminate; intros _; exists n; rewrite E; split; reflexivity.
Qed.
Lemma status_notconnected s p : status_of s p = SNotConnected ->
  exists n, find_node (nodes s) p = Some n /\ n_st n = NotConnected.
Proof.
  unfold status_of. destruct (find_node (nodes s) p) as [n|]; [|discriminate].
  destruct (n_st n) eqn:E; try discriminate; intros _; exists n; split; [reflexivity|exact E].
Qed.

Lemma H_disconnect b c0 s p n :
  H b c0 s -> find_node (nodes s) p = Some n -> is_connected (n_st n) = true ->
  H b c0 (disconnected s p n ((MDrop, p) :: msgs s)).
Proof.
  intros (HG & C & HL) Fd Cn. split; [now apply G_disconnect|]. split; [exact C|].
  intros Hb. apply L_disconnect; auto.
Qed.

Lemma disconnected_with_msgs s p n m ms : disconnected (with_msgs s m) p n ms = disconnected s p n ms.
Proof. destruct s; reflexivity. Qed.

Lemma disconnected_frame s p n ms :
  F (s) (disconnected s p n ms) /\ pending (disconnected s p n ms) = pending s /\ lk (disconnected s p n ms) = lk s
  /\ find_node (nodes (disconnected s p n ms)) p = Some (mkNode NotConnected (n_rep n) false)
  /\ (forall q, q <> p -> find_node (nodes (disconnected s p n ms)) q = find_node (nodes s) q).
Proof.
  unfold disconnected. cbn [nodes pending lk]. split; [repeat split|]. split; [reflexivity|]. split; [reflexivity|].
  split; [apply find_set_same|]. intros q Hq. now apply find_set_other.
Qed.

Lemma wp_remove_peer_e b c0 ps s : H b c0 s -> wp (remove_peer ps) (op_post_e b c0 s) s.
Proof.
  intros HH. unfold remove_peer.
  apply (wp_seq _ _ (fun c s' => noerr c /\ op_post b c0 s s')); [|intros c s' (N & P); apply wp_ret; split; [exact N|exact P]].
  apply (wp_for_each ps _ (fun s' => op_post b c0 s s') (fun c s' => noerr c /\ op_post b c0 s s')).
  - intros s' P. split; [reflexivity|exact P].
  - intros p _ s1 (H1 & F1). pose proof (g_lk _ _ (H_G _ _ _ H1)) as U.
    apply wp_bind. apply wp_get.
    destruct (memN p (reserved s1)); [apply wp_ret; split; [reflexivity|split; assumption]|].
    apply wp_bind. apply wp_peer_status; [exact U|].
    destruct (status_of s1 p) eqn:ST.
    + destruct (status_connected s1 p ST) as (n & Fd & Cn).
      apply wp_bind. apply wp_emit. apply wp_bind.
      apply wp_ps_disconnect; [exact U|].
      rewrite (ps_disconnect_connected p (with_msgs s1 ((MDrop, p) :: msgs s1)) n Fd Cn). cbn [fst snd msgs with_msgs].
      rewrite disconnected_with_msgs.
      set (D := disconnected s1 p n ((MDrop, p) :: msgs s1)).
      pose proof (H_disconnect b c0 s1 p n H1 Fd Cn) as HD. fold D in HD.
      destruct (disconnected_frame s1 p n ((MDrop, p) :: msgs s1)) as (FD & _ & LD & FdD & _). fold D in FD, LD, FdD.
      apply wp_bind. apply wp_forget_peer; [rewrite LD; exact U|].
      destruct (H_forget b c0 D p _ HD FdD eq_refl) as (H2 & ->). apply wp_ret. cbn [opt_ctl].
      split; [exact H2|]. destruct (forget_frame p D) as (F2 & _).
      exact (F0_trans _ _ _ F1 (F0_trans _ _ _ (F_F0 _ _ FD) (F_F0 _ _ F2))).
    + destruct (status_notconnected s1 p ST) as (n & Fd & Sn).
      apply wp_bind. apply wp_forget_peer; [exact U|].
      assert (NC : is_connected (n_st n) = false) by now rewrite Sn.
      destruct (H_forget b c0 s1 p n H1 Fd NC) as (H2 & ->). apply wp_ret. cbn [opt_ctl].
      split; [exact H2|]. destruct (forget_frame p s1) as (F2 & _). exact (F0_trans _ _ _ F1 (F_F0 _ _ F2)).
    + apply wp_ret. split; assumption.
  - split; [exact HH|apply F0_refl].
Qed.
Lemma wp_remove_peer b c0 ps s : H b c0 s -> wp (remove_peer ps) (fun _ s' => op_post b c0 s s') s.
Proof. intros HH. eapply wp_conseq; [apply (wp_remove_peer_e b c0 ps s HH)|]. intros e s' (_ & P). exact P. Qed.

(* ---- incoming ---- *)
Lemma H_reject b c0 s p : H b c0 s -> H b c0 (with_msgs s ((MReject, p) :: msgs s)).
Proof.
  intros (HG & C & HL). split; [now apply G_reject|]. split; [exact C|]. exact HL.
Qed.

Lemma wp_accept b c0 s p n (Q : ctl -> pset -> Prop) :
  H b c0 s -> find_node (nodes s) p = Some n -> is_connected (n_st n) = false ->
  banned_threshold <= n_rep n -> (ronly s = true -> memN p (reserved s) = true) ->
  (forall s', H b c0 s' -> F0 s s' -> Q Next s') ->
  wp (e <- try_accept_incoming p ;;
      match e with
      | Some _ => emit MReject p ;;; ret Next
      | None => emit MAccept p ;;; ret Next
      end) Q s.
Proof.
  intros HH Fd NC B R QN. pose proof (H_G _ _ _ HH) as HG. pose proof (g_lk _ _ HG) as U.
  apply wp_bind. apply wp_try_accept; [exact U|].
  destruct (try_accept_cases p s n Fd) as [E|(Free & E)]; rewrite E; cbn [fst snd].
  - apply wp_bind. apply wp_emit. apply wp_ret. apply QN; [now apply H_reject|repeat split].
  - apply wp_bind. apply wp_emit. apply wp_ret. unfold with_msgs.
    cbn [nodes num_in num_out max_in max_out noslot lk reserved ronly pending msgs].
    apply QN; [|repeat split]. destruct HH as (_ & C & HL). split; [|split].
    + now apply G_accept_in.
    + exact C.
    + intros Hb. apply (L_accept_in c0); auto.
Qed.

Lemma wp_incoming_e b c0 ps s : H b c0 s -> wp (incoming ps) (op_post_e b c0 s) s.
Proof.
  intros HH. unfold incoming.
  apply (wp_seq _ _ (fun e s' => e = None /\ ut_post b c0 s s')); [now apply wp_update_time|].
  intros e s0 (-> & H0 & F0s & _). apply F_F0 in F0s.
  apply (wp_seq _ _ (fun c s' => noerr c /\ op_post b c0 s s')); [|intros c s' (N & P); apply wp_ret; split; [exact N|exact P]].
  apply (wp_for_each ps _ (fun s' => op_post b c0 s s') (fun c s' => noerr c /\ op_post b c0 s s')).
  - intros s' P. split; [reflexivity|exact P].
  - intros p _ s1 (H1 & F1). pose proof (H_G _ _ _ H1) as G1. pose proof (g_lk _ _ G1) as U.
    apply wp_bind. apply wp_get.
    destruct (ronly s1 && negb (memN p (reserved s1))) eqn:RO.
    { apply wp_bind. apply wp_emit. apply wp_ret. split; [now apply H_reject|exact F1]. }
    assert (RR : ronly s1 = true -> memN p (reserved s1) = true).
    { intros R. rewrite R in RO. cbn in RO. now destruct (memN p (reserved s1)). }
    apply wp_bind. apply wp_peer_status; [exact U|].
    destruct (status_of s1 p) eqn:ST.
    + apply wp_ret. split; assumption.
    + (* notConnectedPeer: lastConnected = now *)
      destruct (status_notconnected s1 p ST) as (n & Fd & Sn).
      apply wp_bind. apply wp_bind. apply wp_get. rewrite Fd.
      apply (wp_modify (fun s => with_nodes s (set_node (nodes s) p (mkNode (n_st n) (n_rep n) false)))).
      set (s2 := with_nodes s1 (set_node (nodes s1) p (mkNode (n_st n) (n_rep n) false))).
      assert (H2 : H b c0 s2).
      { apply H_set_rep; auto. exact (g_rng _ _ G1 p n Fd). intros C. exact (g_ban _ _ G1 p n Fd C). }
      assert (Fd2 : find_node (nodes s2) p = Some (mkNode (n_st n) (n_rep n) false)) by apply find_set_same.
      apply wp_bind. apply wp_get_node; [exact U|]. rewrite Fd2. cbn [n_rep].
      destruct (n_rep n <? banned_threshold) eqn:BN.
      { apply wp_bind. apply wp_emit. apply wp_ret. split; [now apply H_reject|exact F1]. }
      apply Z.ltb_ge in BN.
      apply (wp_accept b c0 s2 p _ _ H2 Fd2); cbn [n_st n_rep]; auto.
      * now rewrite Sn.
      * intros s' H' F'. split; [exact H'|]. exact (F0_trans _ _ _ F1 F').
    + (* unknownPeer: insertPeer *)
      apply wp_bind. apply wp_insert_peer; [exact U|].
      set (s2 := insert_node s1 p).
      assert (H2 : H b c0 s2) by now apply H_insert.
      destruct (insert_frame s1 p) as (Fi & _ & Li). fold s2 in Fi, Li.
      assert (Fd2 : find_node (nodes s2) p = Some (match find_node (nodes s1) p with Some n => n | None => new_node end)).
      { unfold s2. rewrite insert_node_find, N.eqb_refl. reflexivity. }
      set (n := match find_node (nodes s1) p with Some n => n | None => new_node end) in *.
      assert (NC : is_connected (n_st n) = false).
      { pose proof (status_not_connected s1 p) as X. rewrite ST in X. specialize (X ltac:(discriminate)).
        unfold n. destruct (find_node (nodes s1) p); [exact X|reflexivity]. }
      apply wp_bind. apply wp_get_node; [rewrite Li; exact U|]. rewrite Fd2.
      destruct (n_rep n <? banned_threshold) eqn:BN.
      { apply wp_bind. apply wp_emit. apply wp_ret. split; [now apply H_reject|].
        exact (F0_trans _ _ _ F1 (F_F0 _ _ Fi)). }
      apply Z.ltb_ge in BN.
      apply (wp_accept b c0 s2 p n _ H2 Fd2 NC BN).
      * destruct Fi as (_ & _ & -> & ->). exact RR.
      * intros s' H' F'. split; [exact H'|]. exact (F0_trans _ _ _ F1 (F0_trans _ _ _ (F_F0 _ _ Fi) F')).
  - split; [exact H0|exact F0s].
Qed.
Lemma wp_incoming b c0 ps s : H b c0 s -> wp (incoming ps) (fun _ s' => op_post b c0 s s') s.
Proof. intros HH. eapply wp_conseq; [apply (wp_incoming_e b c0 ps s HH)|]. intros e s' (_ & P). exact P. Qed.

(* ---- disconnect ---- *)
(* reputation change and disconnection of a connected peer, in the order the code does them,
   equal the disconnection followed by the reputation change *)
Lemma disconnect_after_rep s p n r ms :
  find_node (nodes s) p = Some n ->
  disconnected (with_nodes s (set_node (nodes s) p (mkNode (n_st n) r (n_old n)))) p (mkNode (n_st n) r (n_old n)) ms
  = with_nodes (disconnected s p n ms)
      (set_node (nodes (disconnected s p n ms)) p (mkNode NotConnected r false)).
Proof.
  intros Fd. unfold disconnected, with_nodes.
  cbn [nodes num_in num_out max_in max_out noslot lk reserved ronly pending msgs n_st n_rep].
  rewrite !set_node_twice. reflexivity.
Qed.

Lemma H_rep_disconnect b c0 s p n r :
  H b c0 s -> find_node (nodes s) p = Some n -> is_connected (n_st n) = true -> in32 r ->
  H b c0 (disconnected (with_nodes s (set_node (nodes s) p (mkNode (n_st n) r (n_old n)))) p
            (mkNode (n_st n) r (n_old n)) ((MDrop, p) :: msgs s)).
Proof.
  intros HH Fd Cn Rr. rewrite (disconnect_after_rep s p n r _ Fd).
  pose proof (H_disconnect b c0 s p n HH Fd Cn) as HD.
  destruct (disconnected_frame s p n ((MDrop, p) :: msgs s)) as (_ & _ & _ & FdD & _).
  apply (H_set_rep b c0 _ p (mkNode NotConnected (n_rep n) false) r false HD FdD Rr).
  cbn [n_st is_connected]. discriminate.
Qed.

Lemma in32_disconnect_change : in32 disconnect_change.
Proof. unfold in32, disconnect_change, min32, max32. lia. Qed.

Definition err_dc (e : option err) : Prop := e = None \/ e = Some ErrDisconnectNonConnected.
Lemma wp_disconnect_e b c0 refused ps s :
  H b c0 s -> wp (disconnect refused ps) (fun e s' => err_dc e /\ op_post b c0 s s') s.
Proof.
  intros HH. unfold disconnect.
  apply (wp_seq _ _ (fun e s' => e = None /\ ut_post b c0 s s')); [now apply wp_update_time|].
  intros e s0 (-> & H0 & F0s & _). apply F_F0 in F0s.
  apply (wp_seq _ _ (fun c s' => err_dc (ctl_err c) /\ op_post b c0 s s')).
  - apply (wp_for_each ps _ (fun s' => op_post b c0 s s') (fun c s' => err_dc (ctl_err c) /\ op_post b c0 s s')).
    + intros s' P. split; [now left|exact P].
    + intros p _ s1 (H1 & F1). pose proof (H_G _ _ _ H1) as G1. pose proof (g_lk _ _ G1) as U.
      apply wp_bind. apply wp_peer_status; [exact U|].
      destruct (pstatus_eqb (status_of s1 p) SConnected) eqn:ST; cbn [negb]; [|apply wp_ret; split; [now right|split; assumption]].
      assert (ST' : status_of s1 p = SConnected) by (destruct (status_of s1 p); try discriminate; reflexivity).
      destruct (status_connected s1 p ST') as (n & Fd & Cn).
      apply wp_bind. apply wp_get. rewrite Fd. apply wp_bind.
      apply (wp_modify (fun s => with_nodes s (set_node (nodes s) p (mkNode (n_st n) (rep_add (n_rep n) disconnect_change) (n_old n))))).
      set (r := rep_add (n_rep n) disconnect_change).
      set (s2 := with_nodes s1 (set_node (nodes s1) p (mkNode (n_st n) r (n_old n)))).
      assert (Fd2 : find_node (nodes s2) p = Some (mkNode (n_st n) r (n_old n))) by apply find_set_same.
      apply wp_bind. apply wp_ps_disconnect; [exact U|].
      rewrite (ps_disconnect_connected p s2 _ Fd2 Cn). cbn [fst snd].
      apply wp_bind. apply wp_emit.
      assert (EQ : with_msgs (disconnected s2 p (mkNode (n_st n) r (n_old n)) (msgs s2))
                     ((MDrop, p) :: msgs (disconnected s2 p (mkNode (n_st n) r (n_old n)) (msgs s2)))
                   = disconnected s2 p (mkNode (n_st n) r (n_old n)) ((MDrop, p) :: msgs s1)) by reflexivity.
      rewrite EQ.
      assert (Rr : in32 r) by (apply rep_add_range; [exact (g_rng _ _ G1 p n Fd)|exact in32_disconnect_change]).
      pose proof (H_rep_disconnect b c0 s1 p n r H1 Fd Cn Rr) as H3. fold s2 in H3.
      set (s3 := disconnected s2 p (mkNode (n_st n) r (n_old n)) ((MDrop, p) :: msgs s1)) in *.
      assert (F3 : F0 s1 s3) by (repeat split).
      destruct refused.
      * apply (wp_seq _ _ (op_post_e b c0 s3)); [now apply wp_remove_peer_e|].
        intros e s4 (-> & H4 & F4). apply wp_ret. cbn [opt_ctl].
        split; [exact H4|exact (F0_trans _ _ _ F1 (F0_trans _ _ _ F3 F4))].
      * apply wp_ret. split; [exact H3|exact (F0_trans _ _ _ F1 F3)].
    + split; [exact H0|exact F0s].
  - intros c s1 (N & H1 & F1). destruct c.
    + eapply wp_conseq. apply (wp_alloc_slots_op b c0 s1 H1).
      intros e s2 (-> & H2 & F2). split; [now left|]. split; [exact H2|exact (F0_trans _ _ _ F1 F2)].
    + eapply wp_conseq. apply (wp_alloc_slots_op b c0 s1 H1).
      intros e s2 (-> & H2 & F2). split; [now left|]. split; [exact H2|exact (F0_trans _ _ _ F1 F2)].
    + apply wp_ret. split; [exact N|split; assumption].
Qed.
Lemma wp_disconnect b c0 refused ps s : H b c0 s -> wp (disconnect refused ps) (fun _ s' => op_post b c0 s s') s.
Proof. intros HH. eapply wp_conseq; [apply (wp_disconnect_e b c0 refused ps s HH)|]. intros e s' (_ & P). exact P. Qed.

(* ---- addReservedPeers ---- *)
Lemma H_reserve b c0 s p n :
  H b c0 s -> memN p (reserved s) = false -> find_node (nodes s) p = Some n ->
  H b c0 (reserve s p) /\ fst (add_noslot_pure p (with_reserved s (p :: reserved s))) = None /\ F0 s (reserve s p).
Proof.
  intros (HG & C & HL) M Fd. destruct (G_reserve c0 s p n HG M Fd) as (G1 & E).
  destruct (reserve_fields s p) as (_ & _ & E3 & E4 & E5 & _).
  split; [|split; [exact E|repeat split; assumption]].
  split; [exact G1|]. split.
  - destruct C as (C1 & C2). unfold cfg_ok. rewrite E3, E4. now split.
  - intros Hb. apply L_reserve; auto. exact (g_nodup _ _ HG).
Qed.

Lemma wp_add_reserved_e b c0 ps s : H b c0 s -> wp (add_reserved_peers ps) (op_post_e b c0 s) s.
Proof.
  intros HH. unfold add_reserved_peers.
  apply (wp_seq _ _ (fun c s' => noerr c /\ op_post b c0 s s')); [|intros c s' (N & P); apply wp_ret; split; [exact N|exact P]].
  apply (wp_for_each ps _ (fun s' => op_post b c0 s s') (fun c s' => noerr c /\ op_post b c0 s s')).
  - intros s' P. split; [reflexivity|exact P].
  - intros p _ s1 (H1 & F1). pose proof (H_G _ _ _ H1) as G1. pose proof (g_lk _ _ G1) as U.
    apply wp_bind. apply wp_get.
    destruct (memN p (reserved s1)) eqn:MR; [apply wp_ret; split; [reflexivity|split; assumption]|].
    apply wp_bind. apply wp_insert_peer; [exact U|].
    set (s2 := insert_node s1 p).
    assert (H2 : H b c0 s2) by now apply H_insert.
    destruct (insert_frame s1 p) as (Fi & _ & Li). fold s2 in Fi, Li.
    assert (Fd2 : find_node (nodes s2) p = Some (match find_node (nodes s1) p with Some n => n | None => new_node end)).
    { unfold s2. rewrite insert_node_find, N.eqb_refl. reflexivity. }
    assert (MR2 : memN p (reserved s2) = false) by (destruct Fi as (_ & _ & _ & ->); exact MR).
    apply wp_bind. apply (wp_modify (fun s => with_reserved s (p :: reserved s))).
    apply wp_bind. apply wp_add_noslot; [cbn [with_reserved lk]; rewrite Li; exact U|].
    destruct (H_reserve b c0 s2 p _ H2 MR2 Fd2) as (H3 & E3 & F3). rewrite E3.
    change (snd (add_noslot_pure p (with_reserved s2 (p :: reserved s2)))) with (reserve s2 p).
    apply wp_bind. eapply wp_conseq. apply (wp_alloc_slots_op b c0 (reserve s2 p) H3).
    intros e s4 (-> & H4 & F4). apply wp_ret. cbn [opt_ctl]. split; [exact H4|].
    exact (F0_trans _ _ _ F1 (F0_trans _ _ _ (F_F0 _ _ Fi) (F0_trans _ _ _ F3 F4))).
  - split; [exact HH|apply F0_refl].
Qed.
Lemma wp_add_reserved b c0 ps s : H b c0 s -> wp (add_reserved_peers ps) (fun _ s' => op_post b c0 s s') s.
Proof. intros HH. eapply wp_conseq; [apply (wp_add_reserved_e b c0 ps s HH)|]. intros e s' (_ & P). exact P. Qed.

(* ---- removeReservedPeers ---- *)
Lemma H_unreserve b c0 s p :
  H b c0 s -> memN p (reserved s) = true -> (ronly s = true -> conn s p = false) ->
  (b = true -> at_capacity s p = false) ->
  H b c0 (unreserve s p) /\ F0 s (unreserve s p).
Proof.
  intros (HG & C & HL) M RC CAP. destruct (unreserve_fields s p) as (_ & _ & E3 & E4 & E5 & _).
  split; [|repeat split; assumption]. split; [now apply G_unreserve|]. split.
  - destruct C as (C1 & C2). unfold cfg_ok. rewrite E3, E4. now split.
  - intros Hb. apply (L_unreserve c0); auto.
Qed.

Lemma unreserve_result s p :
  memN p (noslot s) = true ->
  fst (remove_noslot_pure p (with_reserved s (removeN p (reserved s)))) =
  match find_node (nodes s) p with Some _ => None | None => Some ErrPeerDoesNotExist end.
Proof.
  intros M. unfold remove_noslot_pure. cbn [noslot with_reserved with_noslot nodes]. rewrite M. cbn [negb].
  destruct (find_node (nodes s) p) as [n|]; [|reflexivity]. destruct (n_st n); reflexivity.
Qed.

Lemma at_capacity_not_connected s p : conn s p = false -> at_capacity s p = false.
Proof.
  unfold conn, at_capacity. destruct (find_node (nodes s) p) as [n|]; [|reflexivity].
  destruct (n_st n); try discriminate; reflexivity.
Qed.

(* un-reserving a connected peer and dropping it = dropping it (it holds no slot), then
   un-reserving the disconnected peer *)
Lemma unreserve_then_disconnect s p n ms :
  find_node (nodes s) p = Some n -> is_connected (n_st n) = true -> memN p (noslot s) = true ->
  (num_in s < 4294967296)%N -> (num_out s < 4294967296)%N ->
  disconnected (unreserve s p) p n ms = unreserve (disconnected s p n ms) p.
Proof.
  intros Fd Cn M BI BO. unfold unreserve, remove_noslot_pure, disconnected.
  cbn [noslot with_reserved with_noslot nodes reserved]. rewrite M. cbn [negb].
  rewrite Fd, find_set_same. cbn [n_st].
  assert (MR : memN p (removeN p (noslot s)) = false) by (rewrite memN_removeN, N.eqb_refl; reflexivity).
  destruct (n_st n) eqn:ST; try discriminate; cbn [snd with_in with_out with_noslot with_reserved
     nodes num_in num_out max_in max_out noslot lk reserved ronly pending msgs];
    rewrite MR, ?u32_dec_inc by assumption; reflexivity.
Qed.

Definition err_ne (e : option err) : Prop := e = None \/ e = Some ErrPeerDoesNotExist.
Ltac solve_ne := unfold err_ne; cbn [ctl_err]; auto.

Lemma wp_unreserve_body b c0 s1 p :
  H b c0 s1 -> (b = true -> ronly s1 = false -> memN p (reserved s1) = true -> at_capacity s1 p = false) ->
  wp (s <- get ;;
      if negb (memN p (reserved s)) then ret (Retn None) else
      modify (fun s => with_reserved s (removeN p (reserved s))) ;;;
      e <- remove_noslot p ;;
      match e with
      | Some e => ret (Retn (Some e))
      | None =>
        s <- get ;;
        if negb (ronly s) then ret (Retn None) else
        st <- peer_status p ;;
        match st with
        | SConnected =>
          e <- ps_disconnect p ;;
          match e with
          | Some e => ret (Retn (Some e))
          | None => emit MDrop p ;;; ret Next
          end
        | _ => ret Next
        end
      end)
     (fun c s' => (op_post b c0 s1 s' /\ (ronly s1 = false -> c <> Next)) /\ err_ne (ctl_err c)) s1.
Proof.
  intros H1 CAP. pose proof (H_G _ _ _ H1) as G1. pose proof (g_lk _ _ G1) as U.
  apply wp_bind. apply wp_get.
  destruct (memN p (reserved s1)) eqn:MR; cbn [negb].
  2:{ apply wp_ret. split; [split; [split; [exact H1|apply F0_refl]|discriminate]|solve_ne]. }
  assert (MN : memN p (noslot s1) = true) by (rewrite (g_sets _ _ G1); exact MR).
  apply wp_bind. apply (wp_modify (fun s => with_reserved s (removeN p (reserved s)))).
  apply wp_bind. apply wp_remove_noslot; [exact U|].
  rewrite (unreserve_result s1 p MN).
  change (snd (remove_noslot_pure p (with_reserved s1 (removeN p (reserved s1))))) with (unreserve s1 p).
  destruct (unreserve_fields s1 p) as (EN & ER & _ & _ & ERO & _).
  destruct (find_node (nodes s1) p) as [n|] eqn:Fd.
  - apply wp_bind. apply wp_get. rewrite ERO.
    destruct (ronly s1) eqn:RO; cbn [negb].
    + (* reserved-only mode: a connected peer is dropped *)
      assert (UU : lk (unreserve s1 p) = Unlocked).
      { unfold unreserve, remove_noslot_pure. cbn [noslot with_reserved with_noslot nodes]. rewrite MN, Fd. cbn [negb].
        destruct (n_st n); exact U. }
      apply wp_bind. apply wp_peer_status; [exact UU|].
      assert (STU : status_of (unreserve s1 p) p = status_of s1 p) by (unfold status_of; now rewrite EN).
      rewrite STU. destruct (status_of s1 p) eqn:ST.
      * destruct (status_connected s1 p ST) as (n' & Fd' & Cn). rewrite Fd in Fd'. injection Fd' as <-.
        apply wp_bind. apply wp_ps_disconnect; [exact UU|].
        assert (FdU : find_node (nodes (unreserve s1 p)) p = Some n) by now rewrite EN.
        rewrite (ps_disconnect_connected p (unreserve s1 p) n FdU Cn). cbn [fst snd].
        apply wp_bind. apply wp_emit. apply wp_ret.
        assert (EQ : with_msgs (disconnected (unreserve s1 p) p n (msgs (unreserve s1 p)))
                       ((MDrop, p) :: msgs (disconnected (unreserve s1 p) p n (msgs (unreserve s1 p))))
                     = disconnected (unreserve s1 p) p n ((MDrop, p) :: msgs (unreserve s1 p))) by reflexivity.
        rewrite EQ.
        assert (EM : msgs (unreserve s1 p) = msgs s1) by (destruct (unreserve_fields s1 p) as (_ & _ & _ & _ & _ & _ & X); exact X).
        rewrite EM.
        rewrite (unreserve_then_disconnect s1 p n _ Fd Cn MN).
        2:{ rewrite (g_in _ _ G1). apply wrap32u_lt. }
        2:{ rewrite (g_out _ _ G1). apply wrap32u_lt. }
        set (D := disconnected s1 p n ((MDrop, p) :: msgs s1)).
        pose proof (H_disconnect b c0 s1 p n H1 Fd Cn) as HD. fold D in HD.
        destruct (disconnected_frame s1 p n ((MDrop, p) :: msgs s1)) as (FD & _ & _ & FdD & _). fold D in FD, FdD.
        assert (CD : conn D p = false) by (unfold conn; rewrite FdD; reflexivity).
        destruct (H_unreserve b c0 D p HD) as (H2 & F2).
        { destruct FD as (_ & _ & _ & ->). exact MR. }
        { intros _. exact CD. }
        { intros _. now apply at_capacity_not_connected. }
        split; [|solve_ne]. split; [|discriminate]. split; [exact H2|exact (F0_trans _ _ _ (F_F0 _ _ FD) F2)].
      * apply wp_ret. destruct (status_notconnected s1 p ST) as (n' & Fd' & Sn). rewrite Fd in Fd'. injection Fd' as <-.
        assert (CN : conn s1 p = false) by (unfold conn; rewrite Fd, Sn; reflexivity).
        destruct (H_unreserve b c0 s1 p H1 MR (fun _ => CN) (fun _ => at_capacity_not_connected _ _ CN)) as (H2 & F2).
        split; [split; [split; assumption|discriminate]|solve_ne].
      * apply wp_ret.
        assert (CN : conn s1 p = false).
        { pose proof (status_not_connected s1 p) as X. rewrite ST in X. specialize (X ltac:(discriminate)).
          rewrite Fd in X. unfold conn. now rewrite Fd. }
        destruct (H_unreserve b c0 s1 p H1 MR (fun _ => CN) (fun _ => at_capacity_not_connected _ _ CN)) as (H2 & F2).
        split; [split; [split; assumption|discriminate]|solve_ne].
    + apply wp_ret.
      destruct (H_unreserve b c0 s1 p H1 MR) as (H2 & F2); [intros X; rewrite RO in X; discriminate X|intros Hb; now apply CAP|].
      split; [split; [split; assumption|discriminate]|solve_ne].
  - apply wp_ret.
    assert (CN : conn s1 p = false) by (unfold conn; now rewrite Fd).
    destruct (H_unreserve b c0 s1 p H1 MR (fun _ => CN) (fun _ => at_capacity_not_connected _ _ CN)) as (H2 & F2).
    split; [split; [split; assumption|discriminate]|solve_ne].
Qed.

Lemma wp_remove_reserved_e b c0 ps s :
  H b c0 s ->
  (b = true -> ronly s = false ->
   match ps with p :: _ => memN p (reserved s) = true -> at_capacity s p = false | [] => True end) ->
  wp (remove_reserved_peers ps) (fun e s' => err_ne e /\ op_post b c0 s s') s.
Proof.
  intros HH CAP. unfold remove_reserved_peers.
  apply (wp_seq _ _ (fun c s' => err_ne (ctl_err c) /\ op_post b c0 s s')); [|intros c s' P; apply wp_ret; exact P].
  destruct (ronly s) eqn:RO.
  - apply (wp_for_each ps _ (fun s' => op_post b c0 s s') (fun c s' => err_ne (ctl_err c) /\ op_post b c0 s s')).
    + intros s' P. split; [solve_ne|exact P].
    + intros p _ s1 (H1 & F1). eapply wp_conseq. apply (wp_unreserve_body b c0 s1 p H1).
      * intros _ X. destruct F1 as (_ & _ & F1). rewrite F1, RO in X. discriminate.
      * intros c s2 (((H2 & F2) & _) & NE). destruct c; [split; [exact H2|exact (F0_trans _ _ _ F1 F2)]| |];
          (split; [exact NE|split; [exact H2|exact (F0_trans _ _ _ F1 F2)]]).
    + split; [exact HH|apply F0_refl].
  - destruct ps as [|p rest]; cbn [for_each].
    + apply wp_ret. split; [solve_ne|split; [exact HH|apply F0_refl]].
    + eapply wp_seq. apply (wp_unreserve_body b c0 s p HH).
      * intros Hb _ MR. now apply (CAP Hb eq_refl).
      * intros c s1 ((P1 & NN) & NE). specialize (NN RO). destruct c; [congruence| |]; apply wp_ret; (split; [exact NE|exact P1]).
Qed.
Lemma wp_remove_reserved b c0 ps s :
  H b c0 s ->
  (b = true -> ronly s = false ->
   match ps with p :: _ => memN p (reserved s) = true -> at_capacity s p = false | [] => True end) ->
  wp (remove_reserved_peers ps) (fun _ s' => op_post b c0 s s') s.
Proof. intros HH CAP. eapply wp_conseq; [apply (wp_remove_reserved_e b c0 ps s HH CAP)|]. intros e s' (_ & P). exact P. Qed.

(* ---- setReservedPeer ---- *)
Lemma wp_set_reserved_e b c0 ps s :
  H b c0 s ->
  (b = true -> ronly s = false ->
   forall s1, In (Ret None s1) (add_reserved_peers (filter (fun p => negb (memN p (reserved s))) ps) s) ->
   forall q, In q (filter (fun p => negb (memN p ps)) (reserved s)) ->
   memN q (reserved s1) = true -> at_capacity s1 q = false) ->
  wp (set_reserved_peer ps) (fun e s' => err_ne e /\ op_post b c0 s s') s.
Proof.
  intros HH CAP. unfold set_reserved_peer. apply wp_bind. apply wp_get.
  apply wp_bind. apply wp_choose. intros to_remove Hrem.
  eapply wp_seq. apply wp_in. apply (wp_add_reserved_e b c0 _ s HH).
  intros e s1 ((-> & H1 & F1) & IN).
  eapply wp_conseq. apply (wp_remove_reserved_e b c0 to_remove s1 H1).
  - intros Hb RO1. destruct to_remove as [|p rest]; [exact I|]. intros MR.
    destruct F1 as (_ & _ & F1). rewrite F1 in RO1.
    apply (CAP Hb RO1 s1 IN p); [|exact MR]. apply (perms_in _ _ Hrem). now left.
  - intros e s2 (NE & H2 & F2). split; [exact NE|]. split; [exact H2|exact (F0_trans _ _ _ F1 F2)].
Qed.
Lemma wp_set_reserved b c0 ps s :
  H b c0 s ->
  (b = true -> ronly s = false ->
   forall s1, In (Ret None s1) (add_reserved_peers (filter (fun p => negb (memN p (reserved s))) ps) s) ->
   forall q, In q (filter (fun p => negb (memN p ps)) (reserved s)) ->
   memN q (reserved s1) = true -> at_capacity s1 q = false) ->
  wp (set_reserved_peer ps) (fun _ s' => op_post b c0 s s') s.
Proof. intros HH CAP. eapply wp_conseq; [apply (wp_set_reserved_e b c0 ps s HH CAP)|]. intros e s' (_ & P). exact P. Qed.

(* ---- reportPeer ---- *)
Lemma insert_node_blind s p l : insert_node (with_lk s l) p = with_lk (insert_node s p) l.
Proof. destruct s. unfold insert_node, with_lk, with_nodes. cbn. destruct (find_node nodes p); reflexivity. Qed.
Lemma add_rep_node_blind s p d l :
  add_rep_node (with_lk s l) p d = (fst (add_rep_node s p d), with_lk (snd (add_rep_node s p d)) l).
Proof. destruct s. unfold add_rep_node, with_lk, with_nodes. cbn. destruct (find_node nodes p); reflexivity. Qed.

Lemma wp_add_reputation s p d (Q : Z -> pset -> Prop) :
  lk s = Unlocked ->
  Q (fst (add_rep_node (insert_node s p) p d)) (snd (add_rep_node (insert_node s p) p d)) ->
  wp (add_reputation fixed p d) Q s.
Proof.
  intros U HQ r Hr. unfold add_reputation in Hr. rewrite with_w_unlocked in Hr by exact U. revert r Hr.
  match goal with |- forall r, In r (?m ?s0) -> _ => change (wp m Q s0) end.
  apply wp_bind. apply wp_bind. apply wp_get.
  assert (FE : find_node (nodes (with_lk s WLocked)) p = find_node (nodes s) p) by (destruct s; reflexivity).
  rewrite FE. cbn [v_addrep_inline fixed].
  assert (K : wp (pure (fun s0 => add_rep_node s0 p d))
               (fun a s' => wp (bind (modify (fun s'0 => with_lk s'0 Unlocked)) (fun _ => ret a)) Q s')
               (with_lk (insert_node s p) WLocked)).
  { apply wp_pure. rewrite add_rep_node_blind. cbn [fst snd].
    apply wp_bind. apply (wp_modify (fun s' => with_lk s' Unlocked)). apply wp_ret.
    rewrite with_lk_twice.
    assert (LK : lk (snd (add_rep_node (insert_node s p) p d)) = Unlocked).
    { unfold add_rep_node, insert_node. destruct (find_node (nodes s) p) eqn:E; [rewrite E; exact U|].
      cbn [with_nodes nodes]. rewrite find_set_same. exact U. }
    rewrite <- LK, with_lk_same. exact HQ. }
  destruct (find_node (nodes s) p) eqn:E.
  - apply wp_bind. apply wp_ret.
    assert (IS : insert_node s p = s) by (unfold insert_node; now rewrite E). rewrite IS in K. exact K.
  - apply wp_bind. apply (wp_modify (fun s0 => insert_node s0 p)). rewrite insert_node_blind. exact K.
Qed.

Lemma occurrences_app q a b : occurrences q (a ++ b) = (occurrences q a + occurrences q b)%nat.
Proof. unfold occurrences. now rewrite filter_app, app_length. Qed.

Definition report_post (b : bool) (c0 : list N) (d : Z) (ps : list N) (s s' : pset) : Prop :=
  op_post b c0 s s' /\
  forall q, rep_of s' q = iter (occurrences q ps) (fun r => sat_add r d)
                            (iter (N.to_nat (pending s)) spec_tick (rep_of s q)).

Lemma wp_report_e b c0 d ps s :
  H b c0 s -> in32 d -> wp (report_peer fixed d ps) (fun e s' => e = None /\ report_post b c0 d ps s s') s.
Proof.
  intros HH Dd. unfold report_peer.
  apply (wp_seq _ _ (fun e s' => e = None /\ ut_post b c0 s s')); [now apply wp_update_time|].
  intros e s0 (-> & H0 & F0s & P0 & R0). apply F_F0 in F0s.
  set (J := fun (pre : list N) (s' : pset) =>
    H b c0 s' /\ F0 s s' /\ pending s' = 0%N /\
    forall q, rep_of s' q = iter (occurrences q pre) (fun r => sat_add r d) (rep_of s0 q)).
  apply (wp_seq _ _ (fun c s' => noerr c /\ J ps s')).
  - apply (wp_for_each_ix _ J (fun c s' => noerr c /\ J ps s') ps).
    + intros s' P. split; [reflexivity|exact P].
    + intros pre p rest E s1 (H1 & F1 & P1 & R1).
      (* whatever happens to p in this iteration, a Retn is impossible: show Next with J (pre ++ [p]) *)
      pose proof (H_G _ _ _ H1) as G1. pose proof (g_lk _ _ G1) as U.
      apply wp_bind. apply wp_add_reputation; [exact U|].
      set (s2 := insert_node s1 p).
      assert (H2 : H b c0 s2) by now apply H_insert.
      destruct (insert_frame s1 p) as (Fi & Pi & Li). fold s2 in Fi, Pi, Li.
      assert (Fd2 : find_node (nodes s2) p = Some (match find_node (nodes s1) p with Some n => n | None => new_node end)).
      { unfold s2. rewrite insert_node_find, N.eqb_refl. reflexivity. }
      set (n := match find_node (nodes s1) p with Some n => n | None => new_node end) in *.
      unfold add_rep_node. rewrite Fd2. cbn [fst snd].
      set (r := rep_add (n_rep n) d).
      pose proof (H_G _ _ _ H2) as G2.
      assert (Rn : in32 (n_rep n)) by exact (g_rng _ _ G2 p n Fd2).
      assert (Rr : in32 r) by now apply rep_add_range.
      assert (RS : r = sat_add (rep_of s1 p) d).
      { unfold r. rewrite rep_add_sat by assumption. f_equal.
        transitivity (rep_of s2 p); [unfold rep_of; now rewrite Fd2|]. unfold s2. apply rep_of_insert. }
      set (s3 := with_nodes s2 (set_node (nodes s2) p (mkNode (n_st n) r (n_old n)))).
      assert (R3 : forall q, rep_of s3 q = iter (occurrences q (pre ++ [p])) (fun r => sat_add r d) (rep_of s0 q)).
      { intros q. unfold s3. rewrite rep_of_set. cbn [n_rep]. rewrite occurrences_app.
        unfold occurrences at 2. cbn [filter]. destruct (N.eqb q p) eqn:Q.
        - apply N.eqb_eq in Q. subst q. cbn [length]. rewrite Nat.add_1_r, iter_S, <- R1. exact RS.
        - cbn [length]. rewrite Nat.add_0_r. unfold s2. rewrite rep_of_insert. apply R1. }
      assert (F3 : F0 s s3) by exact (F0_trans _ _ _ F1 (F_F0 _ _ Fi)).
      assert (P3 : pending s3 = 0%N) by (cbn [s3 with_nodes pending]; congruence).
      destruct (banned_threshold <=? r) eqn:BN.
      * apply Z.leb_le in BN. apply wp_ret. cbn [v_report_continue fixed].
        split; [apply H_set_rep; auto|]. split; [exact F3|]. split; [exact P3|exact R3].
      * apply Z.leb_gt in BN.
        assert (U3 : lk s3 = Unlocked) by (cbn [s3 with_nodes lk]; rewrite Li; exact U).
        apply wp_bind. apply wp_peer_status; [exact U3|].
        assert (Fd3 : find_node (nodes s3) p = Some (mkNode (n_st n) r (n_old n))) by apply find_set_same.
        destruct (status_of s3 p) eqn:ST.
        -- destruct (status_connected s3 p ST) as (n3 & Fd3' & Cn). rewrite Fd3 in Fd3'. injection Fd3' as <-.
           cbn [n_st] in Cn.
           apply wp_bind. apply wp_ps_disconnect; [exact U3|].
           rewrite (ps_disconnect_connected p s3 _ Fd3 Cn). cbn [fst snd].
           apply wp_bind. apply wp_emit.
           assert (EQ : with_msgs (disconnected s3 p (mkNode (n_st n) r (n_old n)) (msgs s3))
                          ((MDrop, p) :: msgs (disconnected s3 p (mkNode (n_st n) r (n_old n)) (msgs s3)))
                        = disconnected s3 p (mkNode (n_st n) r (n_old n)) ((MDrop, p) :: msgs s2)) by reflexivity.
           rewrite EQ.
           pose proof (H_rep_disconnect b c0 s2 p n r H2 Fd2 Cn Rr) as H4. fold s3 in H4.
           set (s4 := disconnected s3 p (mkNode (n_st n) r (n_old n)) ((MDrop, p) :: msgs s2)) in *.
           assert (R4 : forall q, rep_of s4 q = rep_of s3 q).
           { intros q. apply (rep_of_set_same s3 s4 p (mkNode (n_st n) r (n_old n)) NotConnected false Fd3). reflexivity. }
           assert (P4 : pending s4 = 0%N) by exact P3.
           apply wp_bind. eapply wp_conseq. apply (wp_alloc_slots b c0 s4 H4).
           intros e s5 (-> & H5 & F5 & P5 & R5). apply wp_ret. cbn [opt_ctl].
           split; [exact H5|]. split; [exact (F0_trans _ _ _ F3 (F_F0 _ _ F5))|]. split; [exact P5|].
           intros q. rewrite R5, P4. cbn [N.to_nat iter]. rewrite R4. apply R3.
        -- apply wp_ret. split; [apply H_set_rep; auto|].
           ++ intros C. exfalso. unfold status_of in ST. rewrite Fd3 in ST. cbn [n_st] in ST.
              destruct (n_st n); discriminate.
           ++ split; [exact F3|]. split; [exact P3|exact R3].
        -- apply wp_ret. split; [apply H_set_rep; auto|].
           ++ intros C. exfalso. unfold status_of in ST. rewrite Fd3 in ST. cbn [n_st] in ST.
              destruct (n_st n); discriminate.
           ++ split; [exact F3|]. split; [exact P3|exact R3].
    + split; [exact H0|]. split; [exact F0s|]. split; [exact P0|]. intros q. reflexivity.
  - intros c s' (N & H1 & F1 & _ & R1). apply wp_ret. split; [exact N|]. split; [split; assumption|].
    intros q. rewrite R1, R0. reflexivity.
Qed.
Lemma wp_report b c0 d ps s :
  H b c0 s -> in32 d -> wp (report_peer fixed d ps) (fun _ s' => report_post b c0 d ps s s') s.
Proof. intros HH Dd. eapply wp_conseq; [apply (wp_report_e b c0 d ps s HH Dd)|]. intros e s' (_ & P). exact P. Qed.
