(* C30/ProofsReserved.v — the reserved-peer loop of allocSlots and Go's map iteration order.
   The Go code ranges over the map ps.reservedNode in an unspecified order; connected peers are
   skipped and the loop breaks at the first peer that is not connected and below the ban threshold.
   Model.alloc_orders enumerates the orders in reduced form (only the not-connected peers, cut
   after the first breaking peer).  Here: from an unlocked state one visit is a function of the
   state that touches only the visited peer's entry, and the loop over ANY duplicate-free
   permutation of the reserved set returns exactly the result list of the loop over its reduced
   form, which is a member of alloc_orders — so the enumeration loses no behaviour. *)
From Coq Require Import NArith ZArith List Bool Lia Permutation.
From C30 Require Import Model ProofsLists ProofsWp ProofsPrim ProofsOrder.
Import ListNotations.
Local Open Scope Z_scope.

(* ---- one visit as a function ---- *)
Definition rb_fun (p : N) (s : pset) : ctl * pset :=
  match status_of s p with
  | SConnected => (Next, s)
  | st =>
    let s1 := match st with SUnknown => insert_node s p | _ => s end in
    match find_node (nodes s1) p with
    | None => (Retn (Some ErrPeerDoesNotExist), s1)
    | Some n =>
      if n_rep n <? banned_threshold then (Brk, s1) else
      match fst (try_outgoing_pure p s1) with
      | Some e => (Retn (Some e), snd (try_outgoing_pure p s1))
      | None => (Next, with_msgs (snd (try_outgoing_pure p s1)) ((MConnect, p) :: msgs (snd (try_outgoing_pure p s1))))
      end
    end
  end.

Lemma insert_node_lk s p : lk (insert_node s p) = lk s.
Proof. unfold insert_node. destruct (find_node (nodes s) p); reflexivity. Qed.
Lemma try_outgoing_lk p s : lk (snd (try_outgoing_pure p s)) = lk s.
Proof. exact (lk_blind_lk _ s (blind_try_outgoing p)). Qed.

Lemma reserved_body_eq p s : lk s = Unlocked ->
  reserved_body p s = [Ret (fst (rb_fun p s)) (snd (rb_fun p s))].
Proof.
  intros U. unfold reserved_body, rb_fun.
  rewrite (bind_single _ _ s _ _ (with_r_pure_eq _ s U (blind_peer_status p))).
  unfold peer_status_pure. cbn [fst snd].
  assert (REST : forall s1, lk s1 = Unlocked ->
    (n <- get_node p ;;
     match n with
     | None => ret (Retn (Some ErrPeerDoesNotExist))
     | Some n => if n_rep n <? banned_threshold then ret Brk else
                 e <- try_outgoing p ;; match e with Some e => ret (Retn (Some e)) | None => emit MConnect p ;;; ret Next end
     end) s1 =
    [Ret (fst (match find_node (nodes s1) p with
               | None => (Retn (Some ErrPeerDoesNotExist), s1)
               | Some n => if n_rep n <? banned_threshold then (Brk, s1) else
                   match fst (try_outgoing_pure p s1) with
                   | Some e => (Retn (Some e), snd (try_outgoing_pure p s1))
                   | None => (Next, with_msgs (snd (try_outgoing_pure p s1)) ((MConnect, p) :: msgs (snd (try_outgoing_pure p s1))))
                   end end))
         (snd (match find_node (nodes s1) p with
               | None => (Retn (Some ErrPeerDoesNotExist), s1)
               | Some n => if n_rep n <? banned_threshold then (Brk, s1) else
                   match fst (try_outgoing_pure p s1) with
                   | Some e => (Retn (Some e), snd (try_outgoing_pure p s1))
                   | None => (Next, with_msgs (snd (try_outgoing_pure p s1)) ((MConnect, p) :: msgs (snd (try_outgoing_pure p s1))))
                   end end))]).
  { intros s1 U1.
    rewrite (bind_single _ _ s1 _ _ (with_r_pure_eq _ s1 U1 (blind_get_node p))).
    unfold get_node_pure. cbn [fst snd].
    destruct (find_node (nodes s1) p) as [n|]; [|reflexivity].
    destruct (n_rep n <? banned_threshold); [reflexivity|].
    rewrite (bind_single _ _ s1 _ _ (with_w_pure_eq _ s1 U1 (blind_try_outgoing p))).
    destruct (fst (try_outgoing_pure p s1)); [reflexivity|].
    unfold emit. rewrite (bind_single _ _ _ tt (with_msgs (snd (try_outgoing_pure p s1)) ((MConnect, p) :: msgs (snd (try_outgoing_pure p s1))))) by reflexivity.
    reflexivity. }
  destruct (status_of s p).
  - reflexivity.
  - rewrite (bind_single _ _ s tt s) by reflexivity. exact (REST s U).
  - rewrite (bind_single _ _ s _ _ (with_w_pure_eq _ s U (blind_insert p))).
    unfold insert_peer_pure. cbn [fst snd]. apply REST. now rewrite insert_node_lk.
Qed.

Lemma rb_fun_lk p s : lk (snd (rb_fun p s)) = lk s.
Proof.
  unfold rb_fun. destruct (status_of s p); [reflexivity| |].
  - destruct (find_node (nodes s) p) as [n|]; [|reflexivity].
    destruct (n_rep n <? banned_threshold); [reflexivity|].
    destruct (fst (try_outgoing_pure p s)); cbn [snd]; [apply try_outgoing_lk|].
    change (lk (with_msgs ?x ?m)) with (lk x). apply try_outgoing_lk.
  - destruct (find_node (nodes (insert_node s p)) p) as [n|]; cbn [snd]; [|apply insert_node_lk].
    destruct (n_rep n <? banned_threshold); cbn [snd]; [apply insert_node_lk|].
    destruct (fst (try_outgoing_pure p (insert_node s p))); cbn [snd].
    + rewrite try_outgoing_lk. apply insert_node_lk.
    + change (lk (with_msgs ?x ?m)) with (lk x). rewrite try_outgoing_lk. apply insert_node_lk.
Qed.

Lemma insert_node_find_other s p q : q <> p -> find_node (nodes (insert_node s p)) q = find_node (nodes s) q.
Proof.
  intros Hq. unfold insert_node. destruct (find_node (nodes s) p); [reflexivity|].
  cbn [with_nodes nodes]. now apply find_set_other.
Qed.
Lemma try_outgoing_find_other s p q : q <> p ->
  find_node (nodes (snd (try_outgoing_pure p s))) q = find_node (nodes s) q.
Proof.
  intros Hq. unfold try_outgoing_pure. destruct (negb (has_free_out s) && negb (memN p (noslot s))); [reflexivity|].
  destruct (find_node (nodes s) p) as [n|]; [|reflexivity]. cbn [snd].
  destruct (memN p (noslot s)); cbn [with_out with_nodes nodes]; now apply find_set_other.
Qed.

Lemma rb_fun_find_other p s q : q <> p -> find_node (nodes (snd (rb_fun p s))) q = find_node (nodes s) q.
Proof.
  intros Hq. unfold rb_fun. destruct (status_of s p); [reflexivity| |].
  - destruct (find_node (nodes s) p) as [n|]; [|reflexivity].
    destruct (n_rep n <? banned_threshold); [reflexivity|].
    destruct (fst (try_outgoing_pure p s)); cbn [snd]; [now apply try_outgoing_find_other|].
    change (nodes (with_msgs ?x ?m)) with (nodes x). now apply try_outgoing_find_other.
  - destruct (find_node (nodes (insert_node s p)) p) as [n|]; cbn [snd]; [|now apply insert_node_find_other].
    destruct (n_rep n <? banned_threshold); cbn [snd]; [now apply insert_node_find_other|].
    destruct (fst (try_outgoing_pure p (insert_node s p))); cbn [snd].
    + rewrite try_outgoing_find_other by exact Hq. now apply insert_node_find_other.
    + change (nodes (with_msgs ?x ?m)) with (nodes x). rewrite try_outgoing_find_other by exact Hq. now apply insert_node_find_other.
Qed.

(* what a visit does depends on the visited peer's entry only *)
Lemma status_of_find s s' p : find_node (nodes s') p = find_node (nodes s) p -> status_of s' p = status_of s p.
Proof. intros E. unfold status_of. now rewrite E. Qed.
Lemma breaker_find s s' p : find_node (nodes s') p = find_node (nodes s) p -> breaker s' p = breaker s p.
Proof. intros E. unfold breaker. now rewrite E. Qed.

Lemma rb_fun_connected p s : status_of s p = SConnected -> rb_fun p s = (Next, s).
Proof. intros E. unfold rb_fun. now rewrite E. Qed.

Lemma rb_fun_breaker p s : breaker s p = true -> rb_fun p s = (Brk, s).
Proof.
  unfold breaker, rb_fun, status_of. destruct (find_node (nodes s) p) as [n|] eqn:Fd; [|discriminate].
  intros B. apply andb_true_iff in B as (NC & BN).
  assert (IN : insert_node s p = s) by (unfold insert_node; now rewrite Fd).
  destruct (n_st n); try discriminate NC; rewrite ?IN, ?Fd, BN; reflexivity.
Qed.

(* ---- the loop: any order = its reduced form ---- *)
Definition notconn (s : pset) (p : N) : bool := negb (pstatus_eqb (status_of s p) SConnected).

Lemma for_each_cons_eq (p : N) l s c s' :
  reserved_body p s = [Ret c s'] ->
  for_each (p :: l) reserved_body s = match c with Next => for_each l reserved_body s' | _ => [Ret c s'] end.
Proof. intros E. cbn [for_each]. rewrite (bind_single _ _ s _ _ E). destruct c; reflexivity. Qed.

Lemma loop_reduced s0 : forall l s,
  lk s = Unlocked -> NoDup l ->
  (forall p, In p l -> find_node (nodes s) p = find_node (nodes s0) p) ->
  for_each l reserved_body s = for_each (order_prefix s0 (filter (notconn s0) l)) reserved_body s.
Proof.
  induction l as [|p l IH]; intros s U ND SAME; [reflexivity|].
  inversion ND as [|? ? NI ND']; subst.
  assert (Ep : find_node (nodes s) p = find_node (nodes s0) p) by (apply SAME; now left).
  assert (SAME' : forall q, In q l -> find_node (nodes s) q = find_node (nodes s0) q) by (intros q Hq; apply SAME; now right).
  pose proof (reserved_body_eq p s U) as RB.
  cbn [filter]. unfold notconn at 1. rewrite <- (status_of_find s0 s p Ep).
  destruct (status_of s p) eqn:ST; cbn [pstatus_eqb negb].
  - (* connected: skipped by both *)
    rewrite (for_each_cons_eq p l s _ _ RB). rewrite (rb_fun_connected p s ST). cbn [fst snd].
    now apply IH.
  - cbn [order_prefix]. rewrite <- (breaker_find s0 s p Ep). destruct (breaker s p) eqn:BR.
    + rewrite (for_each_cons_eq p l s _ _ RB), (for_each_cons_eq p [] s _ _ RB).
      rewrite (rb_fun_breaker p s BR). reflexivity.
    + rewrite (for_each_cons_eq p l s _ _ RB), (for_each_cons_eq p _ s _ _ RB).
      destruct (fst (rb_fun p s)); try reflexivity.
      apply IH; [now rewrite rb_fun_lk|exact ND'|].
      intros q Hq. rewrite rb_fun_find_other; [now apply SAME'|]. intros ->. contradiction.
  - cbn [order_prefix]. rewrite <- (breaker_find s0 s p Ep). destruct (breaker s p) eqn:BR.
    + rewrite (for_each_cons_eq p l s _ _ RB), (for_each_cons_eq p [] s _ _ RB).
      rewrite (rb_fun_breaker p s BR). reflexivity.
    + rewrite (for_each_cons_eq p l s _ _ RB), (for_each_cons_eq p _ s _ _ RB).
      destruct (fst (rb_fun p s)); try reflexivity.
      apply IH; [now rewrite rb_fun_lk|exact ND'|].
      intros q Hq. rewrite rb_fun_find_other; [now apply SAME'|]. intros ->. contradiction.
Qed.

(* ---- perms enumerates every permutation ---- *)
Lemma insert_all_mid {A} (x : A) l1 l2 : In (l1 ++ x :: l2) (insert_all x (l1 ++ l2)).
Proof.
  induction l1 as [|y l1 IH]; cbn [app insert_all].
  - destruct l2; cbn [insert_all]; now left.
  - right. apply in_map. exact IH.
Qed.
Lemma perms_complete {A} (l : list A) : forall l', Permutation l l' -> In l' (perms l).
Proof.
  induction l as [|x r IH]; intros l' HP; cbn [perms].
  - apply Permutation_nil in HP. subst. now left.
  - assert (Hx : In x l') by (eapply Permutation_in; [exact HP|now left]).
    apply in_split in Hx as (l1 & l2 & ->). apply Permutation_cons_app_inv in HP.
    apply in_flat_map. exists (l1 ++ l2). split; [now apply IH|apply insert_all_mid].
Qed.
Lemma filter_perm {A} (f : A -> bool) l l' : Permutation l l' -> Permutation (filter f l) (filter f l').
Proof.
  induction 1 as [|x l l' HP IH|x y l|l l' l'' H1 IH1 H2 IH2]; cbn [filter].
  - constructor.
  - destruct (f x); [now constructor|exact IH].
  - destruct (f x), (f y); try reflexivity. apply perm_swap.
  - now transitivity (filter f l').
Qed.

(* every iteration order of the reserved set behaves as one of the enumerated reduced orders *)
Theorem alloc_orders_complete s pi :
  lk s = Unlocked -> NoDup pi -> Permutation pi (reserved s) ->
  exists o, In o (alloc_orders s) /\ for_each pi reserved_body s = for_each o reserved_body s.
Proof.
  intros U ND HP. exists (order_prefix s (filter (notconn s) pi)). split.
  - unfold alloc_orders. apply nodup_In. apply in_map. apply perms_complete.
    apply filter_perm. now apply Permutation_sym.
  - apply loop_reduced; auto.
Qed.
