(* C30/ProofsFrame.v — the slot limits (on the true counts) and the reputations under the
   elementary transitions of ProofsInv.v. *)
From Coq Require Import NArith ZArith List Bool Lia.
From C30 Require Import Model ModelSpec ProofsArith ProofsLists ProofsInv.
Import ListNotations.
Local Open Scope Z_scope.

Definition L (s : pset) : Prop := (count_in s <= max_in s)%N /\ (count_out s <= max_out s)%N.
Definition cfg_ok (s : pset) : Prop := (max_in s < 4294967296)%N /\ (max_out s < 4294967296)%N.
Definition H (b : bool) (c0 : list N) (s : pset) : Prop := G c0 s /\ cfg_ok s /\ (b = true -> L s).

Lemma H_G b c0 s : H b c0 s -> G c0 s. Proof. now intros (A & _). Qed.

(* with the limits in force the counters do not wrap *)
Lemma L_num_in c0 s : G c0 s -> cfg_ok s -> L s -> num_in s = count_in s.
Proof. intros HG (A & _) (B & _). rewrite (g_in _ _ HG). unfold wrap32u. apply N.mod_small. lia. Qed.
Lemma L_num_out c0 s : G c0 s -> cfg_ok s -> L s -> num_out s = count_out s.
Proof. intros HG (_ & A) (_ & B). rewrite (g_out _ _ HG). unfold wrap32u. apply N.mod_small. lia. Qed.
Lemma L_limits_ok c0 s : G c0 s -> cfg_ok s -> L s -> limits_ok s = true.
Proof.
  intros HG C HL. unfold limits_ok. rewrite (L_num_in c0 s HG C HL), (L_num_out c0 s HG C HL).
  destruct HL as (A & B). apply andb_true_iff. split; now apply N.leb_le.
Qed.

(* counts of an updated node map *)
Lemma count_in_upd s p n' ni no lk' pd ms :
  count_in (mkPS (set_node (nodes s) p n') ni no (max_in s) (max_out s) (noslot s) lk' (reserved s) (ronly s) pd ms)
  = N.of_nat (cnt (f_in (reserved s)) (set_node (nodes s) p n')).
Proof. reflexivity. Qed.
Lemma count_out_upd s p n' ni no lk' pd ms :
  count_out (mkPS (set_node (nodes s) p n') ni no (max_in s) (max_out s) (noslot s) lk' (reserved s) (ronly s) pd ms)
  = N.of_nat (cnt (f_out (reserved s)) (set_node (nodes s) p n')).
Proof. reflexivity. Qed.

Lemma nc_f_in res p n : is_connected (n_st n) = false -> f_in res p n = false.
Proof. unfold f_in. destruct (n_st n); try discriminate; reflexivity. Qed.
Lemma nc_f_out res p n : is_connected (n_st n) = false -> f_out res p n = false.
Proof. unfold f_out. destruct (n_st n); try discriminate; reflexivity. Qed.

Lemma L_set_rep s p n r o :
  L s -> find_node (nodes s) p = Some n -> L (with_nodes s (set_node (nodes s) p (mkNode (n_st n) r o))).
Proof.
  intros (A & B) F. unfold L, with_nodes. rewrite count_in_upd, count_out_upd. cbn [max_in max_out].
  rewrite (cnt_same_state (f_in (reserved s)) (nodes s) p n _ F) by now apply f_in_state.
  rewrite (cnt_same_state (f_out (reserved s)) (nodes s) p n _ F) by now apply f_out_state.
  split; assumption.
Qed.

Lemma L_insert s p : L s -> L (insert_node s p).
Proof.
  intros HL. unfold insert_node. destruct (find_node (nodes s) p) eqn:F; [exact HL|].
  destruct HL as (A & B). unfold L, with_nodes. rewrite count_in_upd, count_out_upd. cbn [max_in max_out].
  rewrite !cnt_set_absent by exact F. cbn. rewrite !Nat.add_0_r. split; assumption.
Qed.

Lemma L_connect_out c0 s p n :
  G c0 s -> cfg_ok s -> L s -> find_node (nodes s) p = Some n -> is_connected (n_st n) = false ->
  (has_free_out s = true \/ memN p (noslot s) = true) ->
  L (mkPS (set_node (nodes s) p (mkNode Outgoing (n_rep n) (n_old n))) (num_in s)
          (if memN p (noslot s) then num_out s else u32_inc (num_out s))
          (max_in s) (max_out s) (noslot s) (lk s) (reserved s) (ronly s) (pending s)
          ((MConnect, p) :: msgs s)).
Proof.
  intros HG C HL F NC Free. pose proof (L_num_out c0 s HG C HL) as NO. destruct HL as (A & B).
  unfold L. rewrite count_in_upd, count_out_upd. cbn [max_in max_out].
  rewrite (cnt_same_state (f_in (reserved s)) (nodes s) p n _ F) by (rewrite (nc_f_in _ _ _ NC); reflexivity).
  split; [exact A|].
  pose proof (cnt_set_present (f_out (reserved s)) (nodes s) p (mkNode Outgoing (n_rep n) (n_old n)) n F) as E.
  rewrite (nc_f_out _ _ _ NC) in E.
  assert (V : f_out (reserved s) p (mkNode Outgoing (n_rep n) (n_old n)) = negb (memN p (reserved s))) by reflexivity.
  rewrite V in E. rewrite (g_sets _ _ HG) in Free.
  destruct (memN p (reserved s)); cbn [negb b2n] in E.
  - rewrite count_out_cnt in B. lia.
  - destruct Free as [Fr|Fr]; [|discriminate]. unfold has_free_out in Fr. apply N.ltb_lt in Fr.
    rewrite NO, count_out_cnt in Fr. lia.
Qed.

Lemma L_accept_in c0 s p n :
  G c0 s -> cfg_ok s -> L s -> find_node (nodes s) p = Some n -> is_connected (n_st n) = false ->
  (has_free_in s = true \/ memN p (noslot s) = true) ->
  L (mkPS (set_node (nodes s) p (mkNode Ingoing (n_rep n) (n_old n)))
          (if memN p (noslot s) then num_in s else u32_inc (num_in s)) (num_out s)
          (max_in s) (max_out s) (noslot s) (lk s) (reserved s) (ronly s) (pending s)
          ((MAccept, p) :: msgs s)).
Proof.
  intros HG C HL F NC Free. pose proof (L_num_in c0 s HG C HL) as NI. destruct HL as (A & B).
  unfold L. rewrite count_in_upd, count_out_upd. cbn [max_in max_out].
  rewrite (cnt_same_state (f_out (reserved s)) (nodes s) p n _ F) by (rewrite (nc_f_out _ _ _ NC); reflexivity).
  split; [|exact B].
  pose proof (cnt_set_present (f_in (reserved s)) (nodes s) p (mkNode Ingoing (n_rep n) (n_old n)) n F) as E.
  rewrite (nc_f_in _ _ _ NC) in E.
  assert (V : f_in (reserved s) p (mkNode Ingoing (n_rep n) (n_old n)) = negb (memN p (reserved s))) by reflexivity.
  rewrite V in E. rewrite (g_sets _ _ HG) in Free.
  destruct (memN p (reserved s)); cbn [negb b2n] in E.
  - rewrite count_in_cnt in A. lia.
  - destruct Free as [Fr|Fr]; [|discriminate]. unfold has_free_in in Fr. apply N.ltb_lt in Fr.
    rewrite NI, count_in_cnt in Fr. lia.
Qed.

Lemma L_disconnect s p n ms :
  L s -> find_node (nodes s) p = Some n -> L (disconnected s p n ms).
Proof.
  intros (A & B) F. unfold L, disconnected. rewrite count_in_upd, count_out_upd. cbn [max_in max_out].
  pose proof (cnt_set_present (f_in (reserved s)) (nodes s) p (mkNode NotConnected (n_rep n) false) n F) as EI.
  pose proof (cnt_set_present (f_out (reserved s)) (nodes s) p (mkNode NotConnected (n_rep n) false) n F) as EO.
  assert (VI : f_in (reserved s) p (mkNode NotConnected (n_rep n) false) = false) by reflexivity.
  assert (VO : f_out (reserved s) p (mkNode NotConnected (n_rep n) false) = false) by reflexivity.
  rewrite VI in EI. rewrite VO in EO. rewrite count_in_cnt in A. rewrite count_out_cnt in B. cbn [b2n] in *. lia.
Qed.

Lemma L_forget s p n :
  NoDup (keys (nodes s)) -> L s -> find_node (nodes s) p = Some n -> is_connected (n_st n) = false ->
  L (snd (forget_peer_pure p s)).
Proof.
  intros ND (A & B) F NC. unfold forget_peer_pure. rewrite F. destruct (negb (n_rep n =? 0)); cbn [snd].
  - unfold L, with_nodes. rewrite count_in_upd, count_out_upd. cbn [max_in max_out].
    rewrite (cnt_same_state (f_in (reserved s)) (nodes s) p n _ F) by (rewrite (nc_f_in _ _ _ NC); reflexivity).
    rewrite (cnt_same_state (f_out (reserved s)) (nodes s) p n _ F) by (rewrite (nc_f_out _ _ _ NC); reflexivity).
    split; assumption.
  - unfold L. change (count_in (with_nodes s (del_node (nodes s) p))) with (N.of_nat (cnt (f_in (reserved s)) (del_node (nodes s) p))).
    change (count_out (with_nodes s (del_node (nodes s) p))) with (N.of_nat (cnt (f_out (reserved s)) (del_node (nodes s) p))).
    pose proof (cnt_del (f_in (reserved s)) (nodes s) p n ND F) as EI.
    pose proof (cnt_del (f_out (reserved s)) (nodes s) p n ND F) as EO.
    rewrite (nc_f_in _ _ _ NC) in EI. rewrite (nc_f_out _ _ _ NC) in EO.
    rewrite count_in_cnt in A. rewrite count_out_cnt in B. cbn [with_nodes max_in max_out b2n] in *. lia.
Qed.

(* reputations *)
Lemma rep_of_set s p n' q :
  rep_of (with_nodes s (set_node (nodes s) p n')) q = if N.eqb q p then n_rep n' else rep_of s q.
Proof. unfold rep_of. cbn [with_nodes nodes]. rewrite find_set. now destruct (N.eqb q p). Qed.
Lemma rep_of_insert s p q : rep_of (insert_node s p) q = rep_of s q.
Proof.
  unfold rep_of. rewrite insert_node_find. destruct (N.eqb q p) eqn:E; [|reflexivity].
  apply N.eqb_eq in E. subst q. now destruct (find_node (nodes s) p).
Qed.
Lemma rep_of_forget s p q : rep_of (snd (forget_peer_pure p s)) q = rep_of s q.
Proof.
  unfold forget_peer_pure. destruct (find_node (nodes s) p) as [n|] eqn:F; [|reflexivity].
  destruct (n_rep n =? 0) eqn:Z0; cbn [negb snd].
  - unfold rep_of. cbn [with_nodes nodes]. rewrite find_del. destruct (N.eqb q p) eqn:E; [|reflexivity].
    apply N.eqb_eq in E. subst q. rewrite F. apply Z.eqb_eq in Z0. now rewrite Z0.
  - rewrite rep_of_set. cbn [n_rep]. destruct (N.eqb q p) eqn:E; [|reflexivity].
    apply N.eqb_eq in E. subst q. unfold rep_of. now rewrite F.
Qed.

Lemma set_node_twice l p a b : set_node (set_node l p a) p b = set_node l p b.
Proof.
  induction l as [|[q m] l IH]; cbn [set_node].
  - now rewrite N.eqb_refl.
  - destruct (N.eqb q p) eqn:E; cbn [set_node]; rewrite E; [reflexivity|now rewrite IH].
Qed.

Lemma count_in_res s res' ns' ni no lk' pd ms :
  count_in (mkPS (nodes s) ni no (max_in s) (max_out s) ns' lk' res' (ronly s) pd ms)
  = N.of_nat (cnt (f_in res') (nodes s)).
Proof. reflexivity. Qed.
Lemma count_out_res s res' ns' ni no lk' pd ms :
  count_out (mkPS (nodes s) ni no (max_in s) (max_out s) ns' lk' res' (ronly s) pd ms)
  = N.of_nat (cnt (f_out res') (nodes s)).
Proof. reflexivity. Qed.

(* reserving a peer can only lower the counts *)
Lemma cnt_reserve_le_in s p : NoDup (keys (nodes s)) ->
  (cnt (f_in (p :: reserved s)) (nodes s) <= cnt (f_in (reserved s)) (nodes s))%nat.
Proof.
  intros ND.
  assert (X : forall q m, q <> p -> f_in (reserved s) q m = f_in (p :: reserved s) q m).
  { intros q m Hq. apply f_in_other. rewrite memN_cons. apply N.eqb_neq in Hq. now rewrite Hq. }
  destruct (find_node (nodes s) p) as [n|] eqn:Fd.
  - pose proof (cnt_ext_present _ _ (nodes s) p n X ND Fd) as E.
    assert (V : f_in (p :: reserved s) p n = false) by (unfold f_in; rewrite memN_cons, N.eqb_refl; apply andb_false_r).
    rewrite V in E. cbn [b2n] in E. lia.
  - rewrite (cnt_ext_absent _ _ (nodes s) p X Fd). lia.
Qed.
Lemma cnt_reserve_le_out s p : NoDup (keys (nodes s)) ->
  (cnt (f_out (p :: reserved s)) (nodes s) <= cnt (f_out (reserved s)) (nodes s))%nat.
Proof.
  intros ND.
  assert (X : forall q m, q <> p -> f_out (reserved s) q m = f_out (p :: reserved s) q m).
  { intros q m Hq. apply f_out_other. rewrite memN_cons. apply N.eqb_neq in Hq. now rewrite Hq. }
  destruct (find_node (nodes s) p) as [n|] eqn:Fd.
  - pose proof (cnt_ext_present _ _ (nodes s) p n X ND Fd) as E.
    assert (V : f_out (p :: reserved s) p n = false) by (unfold f_out; rewrite memN_cons, N.eqb_refl; apply andb_false_r).
    rewrite V in E. cbn [b2n] in E. lia.
  - rewrite (cnt_ext_absent _ _ (nodes s) p X Fd). lia.
Qed.

Lemma reserve_fields s p :
  nodes (reserve s p) = nodes s /\ reserved (reserve s p) = p :: reserved s /\
  max_in (reserve s p) = max_in s /\ max_out (reserve s p) = max_out s /\ ronly (reserve s p) = ronly s /\
  pending (reserve s p) = pending s /\ msgs (reserve s p) = msgs s.
Proof.
  destruct s. unfold reserve, add_noslot_pure, with_reserved, with_noslot, with_in, with_out. cbn.
  repeat match goal with |- context [match ?x with _ => _ end] => destruct x; cbn end; repeat split.
Qed.

Lemma L_reserve s p : NoDup (keys (nodes s)) -> L s -> L (reserve s p).
Proof.
  intros ND (A & B). destruct (reserve_fields s p) as (E1 & E2 & E3 & E4 & _).
  unfold L, count_in, count_out. rewrite E1, E3, E4.
  change (length (filter (slot_in (reserve s p)) (nodes s))) with (cnt (fun q n => slot_in (reserve s p) (q, n)) (nodes s)).
  change (length (filter (slot_out (reserve s p)) (nodes s))) with (cnt (fun q n => slot_out (reserve s p) (q, n)) (nodes s)).
  rewrite (cnt_ext (fun q n => slot_in (reserve s p) (q, n)) (f_in (p :: reserved s))) by (intros; unfold slot_in, f_in; cbn [fst snd]; now rewrite E2).
  rewrite (cnt_ext (fun q n => slot_out (reserve s p) (q, n)) (f_out (p :: reserved s))) by (intros; unfold slot_out, f_out; cbn [fst snd]; now rewrite E2).
  pose proof (cnt_reserve_le_in s p ND). pose proof (cnt_reserve_le_out s p ND).
  rewrite count_in_cnt in A. rewrite count_out_cnt in B. lia.
Qed.

Lemma unreserve_fields s p :
  nodes (unreserve s p) = nodes s /\ reserved (unreserve s p) = removeN p (reserved s) /\
  max_in (unreserve s p) = max_in s /\ max_out (unreserve s p) = max_out s /\ ronly (unreserve s p) = ronly s /\
  pending (unreserve s p) = pending s /\ msgs (unreserve s p) = msgs s.
Proof.
  destruct s. unfold unreserve, remove_noslot_pure, with_reserved, with_noslot, with_in, with_out. cbn.
  repeat match goal with |- context [match ?x with _ => _ end] => destruct x; cbn end; repeat split.
Qed.

(* un-reserving raises a count only for a connected peer, by one *)
Lemma L_unreserve c0 s p :
  G c0 s -> cfg_ok s -> L s -> memN p (reserved s) = true -> at_capacity s p = false -> L (unreserve s p).
Proof.
  intros HG C HL M CAP. pose proof (g_nodup _ _ HG) as ND.
  pose proof (L_num_in c0 s HG C HL) as NI. pose proof (L_num_out c0 s HG C HL) as NO.
  destruct HL as (A & B). destruct (unreserve_fields s p) as (E1 & E2 & E3 & E4 & _).
  unfold L, count_in, count_out. rewrite E1, E3, E4.
  change (length (filter (slot_in (unreserve s p)) (nodes s))) with (cnt (fun q n => slot_in (unreserve s p) (q, n)) (nodes s)).
  change (length (filter (slot_out (unreserve s p)) (nodes s))) with (cnt (fun q n => slot_out (unreserve s p) (q, n)) (nodes s)).
  rewrite (cnt_ext (fun q n => slot_in (unreserve s p) (q, n)) (f_in (removeN p (reserved s)))) by (intros; unfold slot_in, f_in; cbn [fst snd]; now rewrite E2).
  rewrite (cnt_ext (fun q n => slot_out (unreserve s p) (q, n)) (f_out (removeN p (reserved s)))) by (intros; unfold slot_out, f_out; cbn [fst snd]; now rewrite E2).
  assert (XI : forall q m, q <> p -> f_in (reserved s) q m = f_in (removeN p (reserved s)) q m).
  { intros q m Hq. apply f_in_other. rewrite memN_removeN. apply N.eqb_neq in Hq. rewrite N.eqb_sym, Hq. reflexivity. }
  assert (XO : forall q m, q <> p -> f_out (reserved s) q m = f_out (removeN p (reserved s)) q m).
  { intros q m Hq. apply f_out_other. rewrite memN_removeN. apply N.eqb_neq in Hq. rewrite N.eqb_sym, Hq. reflexivity. }
  rewrite count_in_cnt in A, NI. rewrite count_out_cnt in B, NO.
  destruct (find_node (nodes s) p) as [n|] eqn:Fd.
  - pose proof (cnt_ext_present _ _ (nodes s) p n XI ND Fd) as EI.
    pose proof (cnt_ext_present _ _ (nodes s) p n XO ND Fd) as EO.
    assert (VI : f_in (reserved s) p n = false) by (unfold f_in; rewrite M; apply andb_false_r).
    assert (VO : f_out (reserved s) p n = false) by (unfold f_out; rewrite M; apply andb_false_r).
    assert (WI : f_in (removeN p (reserved s)) p n = mstate_eqb (n_st n) Ingoing)
      by (unfold f_in; rewrite memN_removeN, N.eqb_refl; apply andb_true_r).
    assert (WO : f_out (removeN p (reserved s)) p n = mstate_eqb (n_st n) Outgoing)
      by (unfold f_out; rewrite memN_removeN, N.eqb_refl; apply andb_true_r).
    rewrite VI, WI in EI. rewrite VO, WO in EO.
    unfold at_capacity in CAP. rewrite Fd in CAP.
    destruct (n_st n); cbn [mstate_eqb b2n] in EI, EO.
    + lia.
    + apply N.leb_gt in CAP. lia.
    + apply N.leb_gt in CAP. lia.
    + lia.
  - rewrite <- (cnt_ext_absent _ _ (nodes s) p XI Fd). rewrite <- (cnt_ext_absent _ _ (nodes s) p XO Fd). lia.
Qed.
