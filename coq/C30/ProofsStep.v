(* C30/ProofsStep.v — from the handlers to whole histories: every step of the repaired model
   returns normally, keeps the invariant and satisfies the specification predicates. *)
From Coq Require Import NArith ZArith List Bool Lia.
From C30 Require Import Model ModelSpec ProofsArith ProofsLists ProofsInv ProofsFrame ProofsWp ProofsPrim ProofsTime ProofsAlloc ProofsOps.
Import ListNotations.
Local Open Scope Z_scope.

(* the invariant between operations (the message view is re-based at every step) *)
Definition Inv (b : bool) (s : pset) : Prop := exists c0, H b c0 s.

Definition op_wf (o : op) : Prop := match o with OReport d _ => in32 d | _ => True end.

Lemma memN_connected_set s p : NoDup (keys (nodes s)) -> memN p (connected_set s) = conn s p.
Proof.
  intros ND. unfold connected_set, conn. destruct (find_node (nodes s) p) as [n|] eqn:Fd.
  - destruct (is_connected (n_st n)) eqn:C.
    + apply memN_true. apply in_map_iff. exists (p, n). split; [reflexivity|].
      apply filter_In. split; [now apply find_node_In|exact C].
    + apply memN_false. intros Hin. apply in_map_iff in Hin as ((q & m) & E & Hin). cbn in E. subst q.
      apply filter_In in Hin as (Hin & C'). cbn in C'.
      rewrite (In_find_node _ _ _ ND Hin) in Fd. injection Fd as ->. congruence.
  - apply memN_false. intros Hin. apply in_map_iff in Hin as ((q & m) & E & Hin). cbn in E. subst q.
    apply filter_In in Hin as (Hin & _). apply find_node_none in Fd. apply Fd. apply in_map_iff. now exists (p, m).
Qed.


Lemma H_start b c0 s k : H b c0 s -> H b (connected_set s) (start s k).
Proof.
  intros (HG & C & HL). destruct HG as [gl gn gs gi go gb gr gro gv]. split; [|split; [exact C|exact HL]].
  constructor; auto. exists (connected_set s). split; [reflexivity|]. intros p.
  change (conn (start s k) p) with (conn s p). now apply memN_connected_set.
Qed.

Lemma existsb_false_filter {A} (f : A -> bool) l : existsb f l = false -> filter f l = [].
Proof.
  induction l as [|a l IH]; cbn; [reflexivity|]. destruct (f a); cbn; [discriminate|exact IH].
Qed.

(* every handler from a good state *)
Lemma wp_run_op b o s k :
  Inv b s -> op_wf o -> (b = true -> guard_unreserve s k o = false) ->
  wp (run_op fixed o)
     (fun _ s' => H b (connected_set s) s' /\ F0 s s' /\
                  match o with
                  | OReport d ps => forall q, rep_of s' q = iter (occurrences q ps) (fun r => sat_add r d)
                                                             (iter (N.to_nat k) spec_tick (rep_of s q))
                  | _ => True
                  end)
     (start s k).
Proof.
  intros (c0 & HH) WF GU. pose proof (H_start b c0 s k HH) as HS.
  assert (FS : F0 s (start s k)) by repeat split.
  assert (GEN : forall (m : M (option err)),
            wp m (fun _ s' => op_post b (connected_set s) (start s k) s') (start s k) ->
            wp m (fun _ s' => H b (connected_set s) s' /\ F0 s s' /\ True) (start s k)).
  { intros m W. eapply wp_conseq; [exact W|]. intros e s' (H1 & F1). split; [exact H1|]. split; [|exact I].
    exact (F0_trans _ _ _ FS F1). }
  destruct o; cbn [run_op].
  - apply GEN. now apply wp_add_reserved.
  - apply GEN. apply wp_remove_reserved; [exact HS|].
    intros Hb RO. specialize (GU Hb). destruct ps as [|p rest]; [exact I|]. intros MR.
    unfold guard_unreserve in GU. change (ronly (start s k)) with (ronly s) in RO. rewrite RO in GU.
    change (reserved (start s k)) with (reserved s) in MR. rewrite MR in GU. cbn in GU. exact GU.
  - apply GEN. apply wp_set_reserved; [exact HS|].
    intros Hb RO s1 IN q Hq MR. specialize (GU Hb). unfold guard_unreserve in GU.
    change (ronly (start s k)) with (ronly s) in RO. rewrite RO in GU. cbv zeta in GU. cbn [negb andb] in GU.
    change (reserved (start s k)) with (reserved s) in IN, Hq.
    destruct (at_capacity s1 q) eqn:AC; [|reflexivity]. exfalso.
    assert (X : existsb (fun r => match r with
                      | Ret None s1 => existsb (fun q => memN q (reserved s1) && at_capacity s1 q)
                                         (filter (fun p => negb (memN p ps)) (reserved s))
                      | _ => false end)
                  (add_reserved_peers (filter (fun p => negb (memN p (reserved s))) ps) (start s k)) = true).
    { apply existsb_exists. exists (Ret None s1). split; [exact IN|].
      apply existsb_exists. exists q. split; [exact Hq|]. now rewrite MR, AC. }
    congruence.
  - eapply wp_conseq. apply (wp_report b (connected_set s) delta ps (start s k) HS WF).
    intros e s' ((H1 & F1) & R1). split; [exact H1|]. split; [exact (F0_trans _ _ _ FS F1)|].
    intros q. rewrite R1. reflexivity.
  - apply GEN. now apply wp_add_peer.
  - apply GEN. now apply wp_remove_peer.
  - apply GEN. now apply wp_incoming.
  - apply GEN. now apply wp_disconnect.
  - apply GEN. eapply wp_conseq. apply (wp_alloc_slots_op b _ _ HS). intros e s' (_ & P). exact P.
  - apply GEN. now apply wp_age.
Qed.

(* from the invariant to the boolean specification predicates *)
Lemma G_check_core s k o s' :
  G (connected_set s) s' ->
  match o with
  | OReport d ps => forall q, rep_of s' q = iter (occurrences q ps) (fun r => sat_add r d)
                                             (iter (N.to_nat k) spec_tick (rep_of s q))
  | _ => True
  end ->
  check_core s k o s' = true.
Proof.
  intros [gl gn gs gi go gb gr gro gv] RP. unfold check_core.
  assert (FN : forall p n, In (p, n) (nodes s') -> find_node (nodes s') p = Some n) by (intros; now apply In_find_node).
  assert (C1 : counters_ok s' = true).
  { unfold counters_ok. rewrite <- gi, <- go, !N.eqb_refl. reflexivity. }
  assert (C2 : no_banned_ok s' = true).
  { unfold no_banned_ok. apply forallb_forall. intros (p & n) Hin. cbn [fst snd].
    destruct (is_connected (n_st n)) eqn:C; cbn [negb orb]; [|reflexivity].
    apply orb_true_iff. right. apply Z.leb_le. exact (gb p n (FN p n Hin) C). }
  assert (C3 : ronly_ok s' = true).
  { unfold ronly_ok. destruct (ronly s') eqn:RO; cbn [negb orb]; [|reflexivity].
    apply forallb_forall. intros (p & n) Hin. cbn [fst snd].
    destruct (is_connected (n_st n)) eqn:C; cbn [negb orb]; [|reflexivity].
    apply gro; [reflexivity|]. unfold conn. now rewrite (FN p n Hin). }
  assert (C4 : reps_ok s' = true).
  { unfold reps_ok. apply forallb_forall. intros (p & n) Hin. cbn [snd]. apply in_range32_iff. exact (gr p n (FN p n Hin)). }
  assert (C5 : view_ok s s' = true).
  { unfold view_ok. destruct gv as (v & A & B). rewrite A.
    apply andb_true_iff. split; apply forallb_forall; intros p Hp.
    + rewrite memN_connected_set by exact gn. rewrite <- B. now apply memN_true.
    + rewrite B. rewrite <- memN_connected_set by exact gn. now apply memN_true. }
  rewrite C1, C2, C3, C4, C5. cbn [andb].
  destruct o; try reflexivity. unfold report_ok. apply forallb_forall. intros q _. apply Z.eqb_eq. apply RP.
Qed.

Theorem step_sound b s k o :
  Inv b s -> op_wf o -> (b = true -> guard_unreserve s k o = false) ->
  forall r, In r (step fixed s k o) ->
  exists e s', r = Ret e s' /\ Inv b s' /\ check_core s k o s' = true /\
               max_in s' = max_in s /\ max_out s' = max_out s /\ ronly s' = ronly s /\
               (b = true -> limits_ok s' = true).
Proof.
  intros HI WF GU r Hr. pose proof (wp_run_op b o s k HI WF GU r Hr) as W.
  destruct r as [e s'| | |]; try contradiction. destruct W as (H1 & (E1 & E2 & E3) & RP).
  exists e, s'. split; [reflexivity|]. split; [exists (connected_set s); exact H1|].
  split; [apply G_check_core; [exact (H_G _ _ _ H1)|exact RP]|].
  split; [exact E1|]. split; [exact E2|]. split; [exact E3|].
  intros Hb. destruct H1 as (G1 & C1 & L1). exact (L_limits_ok _ _ G1 C1 (L1 Hb)).
Qed.

(* which errors the handlers can return *)
Lemma wp_run_op_err o s k :
  Inv false s -> op_wf o ->
  wp (run_op fixed o) (fun e _ => err_class_ok o e = true) (start s k).
Proof.
  intros (c0 & HH) WF. pose proof (H_start false c0 s k HH) as HS.
  destruct o; cbn [run_op].
  - eapply wp_conseq; [apply (wp_add_reserved_e false _ ps _ HS)|]. intros e s' (-> & _). reflexivity.
  - eapply wp_conseq; [apply (wp_remove_reserved_e false _ ps _ HS); discriminate|].
    intros e s' ([->| ->] & _); reflexivity.
  - eapply wp_conseq; [apply (wp_set_reserved_e false _ ps _ HS); discriminate|].
    intros e s' ([->| ->] & _); reflexivity.
  - eapply wp_conseq; [apply (wp_report_e false _ delta ps _ HS WF)|]. intros e s' (-> & _). reflexivity.
  - eapply wp_conseq; [apply (wp_add_peer_e false _ ps _ HS)|]. intros e s' (-> & _). reflexivity.
  - eapply wp_conseq; [apply (wp_remove_peer_e false _ ps _ HS)|]. intros e s' (-> & _). reflexivity.
  - eapply wp_conseq; [apply (wp_incoming_e false _ ps _ HS)|]. intros e s' (-> & _). reflexivity.
  - eapply wp_conseq; [apply (wp_disconnect_e false _ refused ps _ HS)|]. intros e s' ([->| ->] & _); reflexivity.
  - eapply wp_conseq; [apply (wp_alloc_slots_op false _ _ HS)|]. intros e s' (-> & _). reflexivity.
  - unfold age_peers. apply wp_bind. apply (wp_modify (fun s => fold_left age_one ps s)). apply wp_ret. reflexivity.
Qed.

(* the empty peer set *)
Lemma Inv_init b mi mo ro : (mi < 4294967296)%N -> (mo < 4294967296)%N -> Inv b (init_pset mi mo ro).
Proof.
  intros A B. exists []. split; [|split].
  - constructor; cbn; auto; try discriminate.
    + constructor.
    + exists []. split; reflexivity.
  - split; assumption.
  - intros _. split; cbn; lia.
Qed.

(* histories *)
Definition hist_wf (h : list (N * op)) : Prop := forall k o, In (k, o) h -> op_wf o.

Lemma reachable_inv_false mi mo ro h s :
  (mi < 4294967296)%N -> (mo < 4294967296)%N -> hist_wf h ->
  reachable fixed (init_pset mi mo ro) h s -> Inv false s /\ max_in s = mi /\ max_out s = mo /\ ronly s = ro.
Proof.
  intros A B WF R. induction R as [|h s k o e s' R IH St].
  - split; [now apply Inv_init|]. repeat split.
  - assert (WF' : hist_wf h) by (intros k' o' Hin; apply (WF k' o'); apply in_or_app; now left).
    destruct (IH WF') as (I1 & E1 & E2 & E3).
    assert (WO : op_wf o) by (apply (WF k o); apply in_or_app; right; now left).
    destruct (step_sound false s k o I1 WO ltac:(discriminate) _ St) as (e' & s'' & EQ & I2 & _ & F1 & F2 & F3 & _).
    injection EQ as <- <-. split; [exact I2|]. repeat split; congruence.
Qed.

Lemma reachable_inv_true mi mo ro h s :
  (mi < 4294967296)%N -> (mo < 4294967296)%N -> hist_wf h ->
  unguarded fixed (init_pset mi mo ro) h ->
  reachable fixed (init_pset mi mo ro) h s -> Inv true s.
Proof.
  intros A B WF UG R. revert UG. induction R as [|h s k o e s' R IH St]; intros UG.
  - now apply Inv_init.
  - assert (WF' : hist_wf h) by (intros k' o' Hin; apply (WF k' o'); apply in_or_app; now left).
    assert (WO : op_wf o) by (apply (WF k o); apply in_or_app; right; now left).
    inversion UG as [E|h' k' o' UG' GU E]; [destruct h; discriminate|].
    apply app_inj_tail in E as (-> & [= -> ->]).
    specialize (IH WF' UG').
    destruct (step_sound true s k o IH WO (fun _ => GU s R) _ St) as (e' & s'' & EQ & I2 & _).
    injection EQ as <- <-. exact I2.
Qed.

Lemma Inv_limits s : Inv true s -> limits_ok s = true.
Proof. intros (c0 & G1 & C1 & L1). exact (L_limits_ok _ _ G1 C1 (L1 eq_refl)). Qed.

Lemma Inv_facts b s : Inv b s ->
  counters_ok s = true /\ lk s = Unlocked /\
  (forall p n, In (p, n) (nodes s) -> is_connected (n_st n) = true -> banned_threshold <= n_rep n) /\
  (forall p n, In (p, n) (nodes s) -> in32 (n_rep n)) /\
  (ronly s = true -> forall p n, In (p, n) (nodes s) -> is_connected (n_st n) = true -> In p (reserved s)).
Proof.
  intros (c0 & [gl gn gs gi go gb gr gro gv] & _).
  assert (FN : forall p n, In (p, n) (nodes s) -> find_node (nodes s) p = Some n) by (intros; now apply In_find_node).
  split; [unfold counters_ok; rewrite <- gi, <- go, !N.eqb_refl; reflexivity|]. split; [exact gl|].
  split; [intros p n Hin; exact (gb p n (FN p n Hin))|]. split; [intros p n Hin; exact (gr p n (FN p n Hin))|].
  intros RO p n Hin C. apply memN_true. apply gro; [exact RO|]. unfold conn. now rewrite (FN p n Hin).
Qed.

Lemma step_errors mi mo ro h s k o r :
  (mi < 4294967296)%N -> (mo < 4294967296)%N -> hist_wf (h ++ [(k, o)]) ->
  reachable fixed (init_pset mi mo ro) h s -> In r (step fixed s k o) ->
  exists e s', r = Ret e s' /\ err_class_ok o e = true.
Proof.
  intros A B WF R Hr.
  assert (WF' : hist_wf h) by (intros k' o' Hin; apply (WF k' o'); apply in_or_app; now left).
  assert (WO : op_wf o) by (apply (WF k o); apply in_or_app; right; now left).
  destruct (reachable_inv_false mi mo ro h s A B WF' R) as (I1 & _).
  pose proof (wp_run_op_err o s k I1 WO r Hr) as W.
  destruct r as [e s'| | |]; try contradiction. now exists e, s'.
Qed.

