(* C30/ProofsArith.v — reputation arithmetic: the int32 code saturates and never wraps. *)
From Coq Require Import NArith ZArith List Bool Lia.
From C30 Require Import Model ModelSpec.
Local Open Scope Z_scope.

Definition in32 (z : Z) : Prop := min32 <= z <= max32.

Lemma wrap32_id z : in32 z -> wrap32 z = z.
Proof.
  unfold in32, wrap32, min32, max32, two32. intros H.
  rewrite Z.mod_small by lia. lia.
Qed.

Lemma wrap32_range z : in32 (wrap32 z).
Proof.
  unfold in32, wrap32, min32, max32, two32.
  pose proof (Z.mod_pos_bound (z + 2147483648) 4294967296 ltac:(lia)). lia.
Qed.

Lemma clamp32_range z : in32 (clamp32 z).
Proof. unfold in32, clamp32, min32, max32. lia. Qed.

Lemma in_range32_iff z : in_range32 z = true <-> in32 z.
Proof. unfold in_range32, in32. rewrite andb_true_iff, !Z.leb_le. tauto. Qed.

(* Reputation.add is saturating addition *)
Lemma rep_add_sat r d : in32 r -> in32 d -> rep_add r d = sat_add r d.
Proof.
  unfold in32, rep_add, sat_add, clamp32, min32, max32. intros Hr Hd.
  destruct (0 <? d) eqn:E.
  - apply Z.ltb_lt in E. rewrite (wrap32_id (2147483647 - d)) by (unfold in32, min32, max32; lia).
    destruct (2147483647 - d <? r) eqn:F.
    + apply Z.ltb_lt in F. lia.
    + apply Z.ltb_ge in F. rewrite wrap32_id by (unfold in32, min32, max32; lia). lia.
  - apply Z.ltb_ge in E. rewrite (wrap32_id (-2147483648 - d)) by (unfold in32, min32, max32; lia).
    destruct (r <? -2147483648 - d) eqn:F.
    + apply Z.ltb_lt in F. lia.
    + apply Z.ltb_ge in F. rewrite wrap32_id by (unfold in32, min32, max32; lia). lia.
Qed.

(* Reputation.sub is saturating subtraction *)
Lemma rep_sub_sat r d : in32 r -> in32 d -> rep_sub r d = clamp32 (r - d).
Proof.
  unfold in32, rep_sub, clamp32, min32, max32. intros Hr Hd.
  destruct (d <? 0) eqn:E.
  - apply Z.ltb_lt in E. rewrite (wrap32_id (2147483647 + d)) by (unfold in32, min32, max32; lia).
    destruct (2147483647 + d <? r) eqn:F.
    + apply Z.ltb_lt in F. lia.
    + apply Z.ltb_ge in F. rewrite wrap32_id by (unfold in32, min32, max32; lia). lia.
  - apply Z.ltb_ge in E. rewrite (wrap32_id (-2147483648 + d)) by (unfold in32, min32, max32; lia).
    destruct (r <? -2147483648 + d) eqn:F.
    + apply Z.ltb_lt in F. lia.
    + apply Z.ltb_ge in F. rewrite wrap32_id by (unfold in32, min32, max32; lia). lia.
Qed.

Lemma rep_add_range r d : in32 r -> in32 d -> in32 (rep_add r d).
Proof. intros. rewrite rep_add_sat by assumption. apply clamp32_range. Qed.

Lemma quot50_bounds r : in32 r -> in32 (Z.quot r 50) /\ (0 <= r -> 0 <= Z.quot r 50 <= r) /\ (r <= 0 -> r <= Z.quot r 50 <= 0).
Proof.
  unfold in32, min32, max32. intros H.
  assert (A : 0 <= r -> 0 <= Z.quot r 50 <= r).
  { intros Hp. rewrite Z.quot_div_nonneg by lia. split. apply Z.div_pos; lia.
    apply Z.div_le_upper_bound; lia. }
  assert (B : r <= 0 -> r <= Z.quot r 50 <= 0).
  { intros Hn. replace r with (- (- r)) by lia. rewrite Z.quot_opp_l by lia.
    rewrite Z.quot_div_nonneg by lia.
    assert (0 <= (- r) / 50 <= - r). { split. apply Z.div_pos; lia. apply Z.div_le_upper_bound; lia. }
    lia. }
  destruct (Z.le_ge_cases 0 r); split; try split; try tauto; lia.
Qed.

(* reputationTick is the specified decay and never wraps *)
Lemma rep_tick_spec r : in32 r -> rep_tick r = spec_tick r.
Proof.
  intros H. pose proof (quot50_bounds r H) as (Q1 & Q2 & Q3).
  unfold rep_tick, spec_tick.
  destruct (r =? 0) eqn:R0.
  - apply Z.eqb_eq in R0. subst r. reflexivity.
  - apply Z.eqb_neq in R0.
    destruct (Z.quot r 50 =? 0) eqn:Q0; cbn [andb].
    + apply Z.eqb_eq in Q0.
      destruct (r <? 0) eqn:N.
      * apply Z.ltb_lt in N. rewrite rep_sub_sat by (unfold in32, min32, max32 in *; lia).
        rewrite Z.sgn_neg by lia. unfold clamp32, in32, min32, max32 in *. lia.
      * apply Z.ltb_ge in N. assert (0 <? r = true) as -> by (apply Z.ltb_lt; lia).
        rewrite rep_sub_sat by (unfold in32, min32, max32 in *; lia).
        rewrite Z.sgn_pos by lia. unfold clamp32, in32, min32, max32 in *. lia.
    + apply Z.eqb_neq in Q0. rewrite rep_sub_sat by assumption.
      unfold clamp32, in32, min32, max32 in *.
      destruct (Z.le_ge_cases 0 r); [specialize (Q2 ltac:(lia))|specialize (Q3 ltac:(lia))]; lia.
Qed.

(* the decay moves towards zero and never crosses it *)
Lemma spec_tick_towards_zero r : in32 r ->
  (0 < r -> 0 <= spec_tick r < r) /\ (r < 0 -> r < spec_tick r <= 0) /\ (r = 0 -> spec_tick r = 0).
Proof.
  intros H. pose proof (quot50_bounds r H) as (Q1 & Q2 & Q3). unfold spec_tick.
  destruct (r =? 0) eqn:R0.
  - apply Z.eqb_eq in R0. lia.
  - apply Z.eqb_neq in R0. destruct (Z.quot r 50 =? 0) eqn:Q0.
    + apply Z.eqb_eq in Q0. repeat split; intros; try lia.
      all: try (rewrite Z.sgn_pos by lia; lia); try (rewrite Z.sgn_neg by lia; lia).
    + apply Z.eqb_neq in Q0. repeat split; intros; try lia.
      all: try (specialize (Q2 ltac:(lia));
                assert (Z.quot r 50 <= r / 1) by (rewrite Z.quot_div_nonneg by lia; rewrite Z.div_1_r; apply Z.div_le_upper_bound; lia);
                rewrite Z.div_1_r in *; lia).
      all: specialize (Q3 ltac:(lia)); lia.
Qed.

Lemma spec_tick_range r : in32 r -> in32 (spec_tick r).
Proof.
  intros H. pose proof (spec_tick_towards_zero r H) as (A & B & C).
  unfold in32, min32, max32 in *.
  destruct (Z.lt_trichotomy r 0) as [L|[E|G]]; [specialize (B L)|specialize (C E)|specialize (A G)]; lia.
Qed.

Lemma rep_tick_range r : in32 r -> in32 (rep_tick r).
Proof. intros. rewrite rep_tick_spec by assumption. now apply spec_tick_range. Qed.

(* decay never takes a reputation below the ban threshold *)
Lemma rep_tick_not_banned r : in32 r -> banned_threshold <= r -> banned_threshold <= rep_tick r.
Proof.
  intros H B. rewrite rep_tick_spec by assumption.
  pose proof (spec_tick_towards_zero r H) as (P & Q & Z0). unfold banned_threshold in *.
  destruct (Z.lt_trichotomy r 0) as [L|[E|G]]; [specialize (Q L)|specialize (Z0 E)|specialize (P G)]; lia.
Qed.
