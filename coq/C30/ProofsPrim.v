(* C30/ProofsPrim.v — the locked PeersState primitives: none of their bodies touches the lock
   word, so from an unlocked state each returns exactly the result of its pure body. *)
From Coq Require Import NArith ZArith List Bool Lia.
From C30 Require Import Model ModelSpec ProofsWp.
Import ListNotations.

Ltac blind f :=
  intros s l; destruct s; unfold f, insert_node, has_free_out, has_free_in, with_lk, with_nodes, with_in, with_out, with_noslot; cbn;
  repeat match goal with
         | |- context [match ?x with _ => _ end] => destruct x; cbn
         end; reflexivity.

Lemma blind_get_node p : lk_blind (get_node_pure p). Proof. blind get_node_pure. Qed.
Lemma blind_peer_status p : lk_blind (peer_status_pure p).
Proof. intros s l. destruct s. reflexivity. Qed.
Lemma blind_peers : lk_blind peers_pure. Proof. intros s l. destruct s. reflexivity. Qed.
Lemma blind_connected_count : lk_blind connected_count_pure. Proof. intros s l. destruct s. reflexivity. Qed.
Lemma blind_tick p : lk_blind (update_reputation_by_tick_pure p). Proof. blind update_reputation_by_tick_pure. Qed.
Lemma blind_insert p : lk_blind (insert_peer_pure p). Proof. blind insert_peer_pure. Qed.
Lemma blind_add_noslot p : lk_blind (add_noslot_pure p). Proof. blind add_noslot_pure. Qed.
Lemma blind_remove_noslot p : lk_blind (remove_noslot_pure p). Proof. blind remove_noslot_pure. Qed.
Lemma blind_disconnect p : lk_blind (ps_disconnect_pure p). Proof. blind ps_disconnect_pure. Qed.
Lemma blind_last_old p : lk_blind (last_connected_old_pure p). Proof. blind last_connected_old_pure. Qed.
Lemma blind_forget p : lk_blind (forget_peer_pure p). Proof. blind forget_peer_pure. Qed.
Lemma blind_try_outgoing p : lk_blind (try_outgoing_pure p). Proof. blind try_outgoing_pure. Qed.
Lemma blind_try_accept p : lk_blind (try_accept_incoming_pure p). Proof. blind try_accept_incoming_pure. Qed.

Section Prims.
  Variable s : pset.
  Hypothesis U : lk s = Unlocked.

  Lemma wp_get_node p (Q : option node -> pset -> Prop) :
    Q (find_node (nodes s) p) s -> wp (get_node p) Q s.
  Proof. intros H. apply wp_with_r_pure; auto using blind_get_node. Qed.
  Lemma wp_peer_status p (Q : pstatus -> pset -> Prop) : Q (status_of s p) s -> wp (peer_status p) Q s.
  Proof. intros H. apply wp_with_r_pure; auto using blind_peer_status. Qed.
  Lemma wp_peers (Q : list N -> pset -> Prop) : Q (map fst (nodes s)) s -> wp peers Q s.
  Proof. intros H. apply wp_with_r_pure; auto using blind_peers. Qed.
  Lemma wp_connected_count (Q : nat -> pset -> Prop) : (forall n, Q n s) -> wp connected_count Q s.
  Proof. intros H. apply wp_with_r_pure; auto using blind_connected_count. Qed.
  Lemma wp_tick p (Q : option Z -> pset -> Prop) :
    Q (fst (update_reputation_by_tick_pure p s)) (snd (update_reputation_by_tick_pure p s)) ->
    wp (update_reputation_by_tick p) Q s.
  Proof. intros H. apply wp_with_w_pure; auto using blind_tick. Qed.
  Lemma wp_insert_peer p (Q : unit -> pset -> Prop) : Q tt (insert_node s p) -> wp (insert_peer p) Q s.
  Proof. intros H. apply wp_with_w_pure; auto using blind_insert. Qed.
  Lemma wp_add_noslot p (Q : option err -> pset -> Prop) :
    Q (fst (add_noslot_pure p s)) (snd (add_noslot_pure p s)) -> wp (add_noslot p) Q s.
  Proof. intros H. apply wp_with_w_pure; auto using blind_add_noslot. Qed.
  Lemma wp_remove_noslot p (Q : option err -> pset -> Prop) :
    Q (fst (remove_noslot_pure p s)) (snd (remove_noslot_pure p s)) -> wp (remove_noslot p) Q s.
  Proof. intros H. apply wp_with_w_pure; auto using blind_remove_noslot. Qed.
  Lemma wp_ps_disconnect p (Q : option err -> pset -> Prop) :
    Q (fst (ps_disconnect_pure p s)) (snd (ps_disconnect_pure p s)) -> wp (ps_disconnect p) Q s.
  Proof. intros H. apply wp_with_w_pure; auto using blind_disconnect. Qed.
  Lemma wp_last_old p (Q : option bool -> pset -> Prop) :
    Q (fst (last_connected_old_pure p s)) s -> wp (last_connected_old p) Q s.
  Proof.
    intros H. apply wp_with_r_pure; auto using blind_last_old.
    unfold last_connected_old_pure in *. destruct (find_node (nodes s) p); exact H.
  Qed.
  Lemma wp_forget_peer p (Q : option err -> pset -> Prop) :
    Q (fst (forget_peer_pure p s)) (snd (forget_peer_pure p s)) -> wp (forget_peer p) Q s.
  Proof. intros H. apply wp_with_w_pure; auto using blind_forget. Qed.
  Lemma wp_try_outgoing p (Q : option err -> pset -> Prop) :
    Q (fst (try_outgoing_pure p s)) (snd (try_outgoing_pure p s)) -> wp (try_outgoing p) Q s.
  Proof. intros H. apply wp_with_w_pure; auto using blind_try_outgoing. Qed.
  Lemma wp_try_accept p (Q : option err -> pset -> Prop) :
    Q (fst (try_accept_incoming_pure p s)) (snd (try_accept_incoming_pure p s)) -> wp (try_accept_incoming p) Q s.
  Proof. intros H. apply wp_with_w_pure; auto using blind_try_accept. Qed.
End Prims.
