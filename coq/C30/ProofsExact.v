(* C30/ProofsExact.v — the guard of the known finding unreserve-over-limit is exact: from a state
   that satisfies the invariant and the limits, whenever ModelSpec.guard_unreserve holds of the
   operation, some resolution of the map-iteration choices ends in a state whose counter exceeds
   its maximum.  (C30_slots_partial is the other direction: no guarded operation, no excess.) *)
From Coq Require Import NArith ZArith List Bool Lia Permutation.
From C30 Require Import Model ModelSpec ProofsArith ProofsLists ProofsInv ProofsFrame ProofsWp ProofsPrim
  ProofsTime ProofsAlloc ProofsOps ProofsStep ProofsOrder ProofsReserved.
Import ListNotations.

Lemma in_bind {A B} (m : M A) (f : A -> M B) s a s1 r :
  In (Ret a s1) (m s) -> In r (f a s1) -> In r (bind m f s).
Proof. intros H1 H2. rewrite bind_flat. apply in_flat_map. exists (Ret a s1). split; assumption. Qed.

Lemma remove_noslot_ronly q s : ronly (snd (remove_noslot_pure q s)) = ronly s.
Proof.
  unfold remove_noslot_pure. destruct (negb (memN q (noslot s))); [reflexivity|].
  cbn [with_noslot nodes]. destruct (find_node (nodes s) q) as [n|]; [|reflexivity].
  destruct (n_st n); reflexivity.
Qed.

(* un-reserving, outside reserved-only mode, a peer that is reserved, connected and whose
   direction is full: the call returns nil and leaves a counter above its maximum *)
Lemma unreserve_first_exceeds c0 s q rest :
  H true c0 s -> ronly s = false -> (max_in s + 1 < 4294967296)%N -> (max_out s + 1 < 4294967296)%N ->
  memN q (reserved s) = true -> at_capacity s q = true ->
  exists s', remove_reserved_peers (q :: rest) s = [Ret None s'] /\ limits_ok s' = false.
Proof.
  intros (HG & C & HL) RO MI MO MR AC. specialize (HL eq_refl).
  pose proof (g_lk _ _ HG) as U. pose proof (L_limits_ok c0 s HG C HL) as LIM.
  assert (NS : memN q (noslot s) = true) by (rewrite (g_sets _ _ HG); exact MR).
  unfold at_capacity in AC. destruct (find_node (nodes s) q) as [n|] eqn:Fd; [|discriminate].
  unfold limits_ok in LIM. apply andb_true_iff in LIM as (LI & LO). apply N.leb_le in LI, LO.
  set (s1 := with_reserved s (removeN q (reserved s))).
  assert (U1 : lk s1 = Unlocked) by exact U.
  assert (STEP : forall s2, snd (remove_noslot_pure q s1) = s2 -> fst (remove_noslot_pure q s1) = None ->
            remove_reserved_peers (q :: rest) s = [Ret None s2]).
  { intros s2 E2 E1. unfold remove_reserved_peers. cbn [for_each].
    rewrite (bind_single _ _ s (Retn None) s2); [reflexivity|].
    rewrite (bind_single _ _ s (Retn None) s2); [reflexivity|].
    rewrite (bind_single _ _ s s s) by reflexivity. rewrite MR. cbn [negb].
    rewrite (bind_single _ _ s tt s1) by reflexivity.
    rewrite (bind_single _ _ s1 _ _ (with_w_pure_eq _ s1 U1 (blind_remove_noslot q))).
    rewrite E1, E2. rewrite (bind_single _ _ s2 s2 s2) by reflexivity.
    assert (ronly s2 = false) as ->; [|reflexivity].
    rewrite <- E2, remove_noslot_ronly. exact RO. }
  unfold remove_noslot_pure, s1 in STEP. cbn [with_reserved with_noslot noslot nodes] in STEP. rewrite NS, Fd in STEP. cbn [negb] in STEP.
  destruct (n_st n) eqn:ST; try discriminate AC; apply N.leb_le in AC; cbn [fst snd] in STEP.
  - eexists. split; [apply STEP; reflexivity|]. unfold limits_ok. cbn [num_in max_in with_in with_noslot with_reserved].
    assert (E : u32_inc (num_in s) = (num_in s + 1)%N).
    { unfold u32_inc, wrap32u. apply N.mod_small. lia. }
    rewrite E. apply andb_false_iff. left. apply N.leb_gt. lia.
  - eexists. split; [apply STEP; reflexivity|]. unfold limits_ok. cbn [num_in num_out max_in max_out with_out with_noslot with_reserved].
    assert (E : u32_inc (num_out s) = (num_out s + 1)%N).
    { unfold u32_inc, wrap32u. apply N.mod_small. lia. }
    rewrite E. apply andb_false_iff. right. apply N.leb_gt. lia.
Qed.

Theorem guard_exact s k o :
  Inv true s -> (max_in s + 1 < 4294967296)%N -> (max_out s + 1 < 4294967296)%N ->
  guard_unreserve s k o = true ->
  exists e s', In (Ret e s') (step fixed s k o) /\ limits_ok s' = false.
Proof.
  intros (c0 & HH) MI MO GU. pose proof (H_start true c0 s k HH) as HS.
  unfold guard_unreserve in GU. apply andb_true_iff in GU as (RO & GU).
  apply negb_true_iff in RO. unfold step. fold (start s k).
  destruct o; try discriminate GU; cbn [run_op].
  - (* removeReservedPeers *)
    destruct ps as [|p rest]; [discriminate GU|]. apply andb_true_iff in GU as (MR & AC).
    destruct (unreserve_first_exceeds _ (start s k) p rest HS RO MI MO MR AC) as (s' & E & LIM).
    exists None, s'. split; [rewrite E; now left|exact LIM].
  - (* setReservedPeer *)
    cbv zeta in GU. apply existsb_exists in GU as (r & IN & GU).
    destruct r as [[e|] s1| | |]; try discriminate GU.
    apply existsb_exists in GU as (q & Hq & GU). apply andb_true_iff in GU as (MR & AC).
    pose proof (wp_add_reserved true _ _ (start s k) HS _ IN) as (H1 & (F1 & F2 & F3)).
    cbn beta in H1.
    apply in_split in Hq as (l1 & l2 & EQ).
    assert (PM : In (q :: l1 ++ l2) (perms (filter (fun p => negb (memN p ps)) (reserved s)))).
    { apply perms_complete. rewrite EQ. apply Permutation_sym. apply Permutation_middle. }
    destruct (unreserve_first_exceeds _ s1 q (l1 ++ l2) H1) as (s' & E & LIM); auto; try congruence.
    { change (ronly (start s k)) with (ronly s) in F3. congruence. }
    { change (max_in (start s k)) with (max_in s) in F1. congruence. }
    { change (max_out (start s k)) with (max_out s) in F2. congruence. }
    exists None, s'. split; [|exact LIM].
    unfold set_reserved_peer.
    apply (in_bind _ _ _ (start s k) (start s k)); [now left|].
    change (reserved (start s k)) with (reserved s).
    apply (in_bind _ _ _ (q :: l1 ++ l2) (start s k)).
    { unfold choose. apply in_map_iff. exists (q :: l1 ++ l2). split; [reflexivity|exact PM]. }
    apply (in_bind _ _ _ None s1); [exact IN|]. rewrite E. now left.
Qed.

Corollary guard_exact_reachable mi mo ro h s k o :
  (mi + 1 < 4294967296)%N -> (mo + 1 < 4294967296)%N -> hist_wf h ->
  unguarded fixed (init_pset mi mo ro) h -> reachable fixed (init_pset mi mo ro) h s ->
  guard_unreserve s k o = true ->
  exists e s', In (Ret e s') (step fixed s k o) /\ limits_ok s' = false.
Proof.
  intros A B WF UG R GU.
  assert (A' : (mi < 4294967296)%N) by lia. assert (B' : (mo < 4294967296)%N) by lia.
  destruct (reachable_inv_false mi mo ro h s A' B' WF R) as (_ & E1 & E2 & _).
  apply guard_exact; [exact (reachable_inv_true mi mo ro h s A' B' WF UG R)|rewrite E1; exact A|rewrite E2; exact B|exact GU].
Qed.
