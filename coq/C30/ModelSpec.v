(* C30/ModelSpec.v — the property C30 as an executable predicate over one observed step
   (state before, seconds elapsed, operation, state after with the emitted messages).
   The driver applies [check_core] / [limits_step] to the observables of the Go implementation;
   the theorems in Properties.v are about the same predicates applied to the model. *)
From Coq Require Import NArith ZArith List Bool.
From C30 Require Import Model.
Import ListNotations.
Local Open Scope Z_scope.

Definition slot_in (s : pset) (qn : N * node) : bool :=
  mstate_eqb (n_st (snd qn)) Ingoing && negb (memN (fst qn) (reserved s)).
Definition slot_out (s : pset) (qn : N * node) : bool :=
  mstate_eqb (n_st (snd qn)) Outgoing && negb (memN (fst qn) (reserved s)).
Definition count_in (s : pset) : N := N.of_nat (length (filter (slot_in s) (nodes s))).
Definition count_out (s : pset) : N := N.of_nat (length (filter (slot_out s) (nodes s))).

(* the counters equal the number of connected non-reserved peers in each direction *)
Definition counters_ok (s : pset) : bool :=
  (num_in s =? wrap32u (count_in s))%N && (num_out s =? wrap32u (count_out s))%N.

(* ... and never exceed the configured maxima *)
Definition limits_ok (s : pset) : bool :=
  (num_in s <=? max_in s)%N && (num_out s <=? max_out s)%N.

(* no non-reserved peer below the ban threshold is connected *)
Definition no_banned_ok (s : pset) : bool :=
  forallb (fun qn => negb (is_connected (n_st (snd qn))) || memN (fst qn) (reserved s)
                     || (banned_threshold <=? n_rep (snd qn))) (nodes s).

(* reserved-only mode: only reserved peers are connected *)
Definition ronly_ok (s : pset) : bool :=
  negb (ronly s) ||
  forallb (fun qn => negb (is_connected (n_st (snd qn))) || memN (fst qn) (reserved s)) (nodes s).

Definition in_range32 (z : Z) : bool := (min32 <=? z) && (z <=? max32).
Definition reps_ok (s : pset) : bool := forallb (fun qn => in_range32 (n_rep (snd qn))) (nodes s).

(* the emitted Connect/Accept/Drop messages, replayed on the set of connected peers before the
   operation, give the set of connected peers after it *)
Definition connected_set (s : pset) : list N :=
  map fst (filter (fun qn => is_connected (n_st (snd qn))) (nodes s)).
Fixpoint replay (view : list N) (ms : list msg) : option (list N) :=
  match ms with
  | [] => Some view
  | (st, p) :: r =>
    match st with
    | MConnect | MAccept => if memN p view then None else replay (p :: view) r
    | MDrop => if memN p view then replay (removeN p view) r else None
    | MReject => replay view r
    end
  end.
Definition subsetN (a b : list N) : bool := forallb (fun x => memN x b) a.
Definition view_ok (s0 s : pset) : bool :=
  match replay (connected_set s0) (rev (msgs s)) with
  | None => false
  | Some v => subsetN v (connected_set s) && subsetN (connected_set s) v
  end.

(* reputation arithmetic: the saturating specification *)
Definition clamp32 (z : Z) : Z := Z.max min32 (Z.min max32 z).
Definition sat_add (r d : Z) : Z := clamp32 (r + d).
Definition spec_tick (r : Z) : Z :=      (* one second: move towards zero by max(1, |r|/50) *)
  if r =? 0 then 0 else
  let q := Z.quot r 50 in r - (if q =? 0 then Z.sgn r else q).
Fixpoint iter {A} (k : nat) (f : A -> A) (x : A) : A :=
  match k with O => x | S k' => iter k' f (f x) end.
Definition rep_of (s : pset) (p : N) : Z :=
  match find_node (nodes s) p with Some n => n_rep n | None => 0 end.
Definition occurrences (p : N) (ps : list N) : nat := length (filter (N.eqb p) ps).

(* a change reported for several peers applies to each of them (once per occurrence), on top of
   the decay of the elapsed seconds; everybody else only decays *)
Definition report_ok (s0 : pset) (k : N) (d : Z) (ps : list N) (s : pset) : bool :=
  forallb (fun p => rep_of s p =? iter (occurrences p ps) (fun r => sat_add r d)
                                     (iter (N.to_nat k) spec_tick (rep_of s0 p)))
          (map fst (nodes s0) ++ map fst (nodes s) ++ ps).

Definition check_core (s0 : pset) (k : N) (o : op) (s : pset) : bool :=
  counters_ok s && no_banned_ok s && ronly_ok s && reps_ok s && view_ok s0 s &&
  match o with OReport d ps => report_ok s0 k d ps s | _ => true end.

(* the maxima, as an inductive step: an operation started within the limits ends within them *)
Definition limits_step (s0 s : pset) : bool := negb (limits_ok s0) || limits_ok s.

(* known finding "unreserve-over-limit": outside reserved-only mode, a reserved peer that is
   connected (it occupies no slot) is turned into an ordinary peer while the slots of its
   direction are all taken — removeNoSlotNode then counts it in, beyond the maximum. *)
Definition at_capacity (s : pset) (p : N) : bool :=
  match find_node (nodes s) p with
  | Some n => match n_st n with
              | Ingoing => (max_in s <=? num_in s)%N
              | Outgoing => (max_out s <=? num_out s)%N
              | _ => false
              end
  | None => false
  end.
(* the state a handler starts from: k seconds pending, no messages yet (Model.step) *)
Definition start (s : pset) (k : N) : pset := with_msgs (with_pending s k) [].

(* The guard is the condition under which the un-reservation itself counts a peer in beyond the
   maximum: at the moment it happens, the peer being un-reserved is (still) reserved, connected, and
   the slots of its direction are all taken.  For removeReservedPeers that moment is the start of
   the call (outside reserved-only mode only the first listed peer is processed).  For
   setReservedPeer it comes after the add phase (addReservedPeers of the new peers, whose
   allocSlots may connect peers — also the very peer that is un-reserved afterwards — and fill the
   slots): the guard runs that phase of the model and looks at every state it can end in and at
   every peer that can come first in the iteration over the peers to remove. *)
Definition guard_unreserve (s0 : pset) (k : N) (o : op) : bool :=
  negb (ronly s0) &&
  match o with
  | ORemoveReserved (p :: _) => memN p (reserved s0) && at_capacity s0 p
  | OSetReserved ps =>
    let to_remove := filter (fun p => negb (memN p ps)) (reserved s0) in
    let to_insert := filter (fun p => negb (memN p (reserved s0))) ps in
    existsb (fun r => match r with
                      | Ret None s1 => existsb (fun q => memN q (reserved s1) && at_capacity s1 q) to_remove
                      | _ => false
                      end) (add_reserved_peers to_insert (start s0 k))
  | _ => false
  end.

(* which errors a handler can return: nil; disconnect also ErrDisconnectReceivedForNonConnectedPeer;
   removeReservedPeers / setReservedPeer also ErrPeerDoesNotExist (removeNoSlotNode of a reserved peer
   whose node updateTime has forgotten).  ErrPeerDisconnected, ErrOutgoingSlotsUnavailable and
   ErrIncomingSlotsUnavailable never leave a handler. *)
Definition err_class_ok (o : op) (e : option err) : bool :=
  match e with
  | None => true
  | Some ErrDisconnectNonConnected => match o with ODisconnect _ _ => true | _ => false end
  | Some ErrPeerDoesNotExist => match o with ORemoveReserved _ | OSetReserved _ => true | _ => false end
  | Some _ => false
  end.

(* membership of an observed result among the model's possible results *)
Definition node_eqb (a b : node) : bool :=
  mstate_eqb (n_st a) (n_st b) && (n_rep a =? n_rep b) && Bool.eqb (n_old a) (n_old b).
Definition nodes_sub (a b : list (N * node)) : bool :=
  forallb (fun qn => match find_node b (fst qn) with Some m => node_eqb (snd qn) m | None => false end) a.
Definition msg_eqb (a b : msg) : bool :=
  (match fst a, fst b with
   | MConnect, MConnect | MDrop, MDrop | MAccept, MAccept | MReject, MReject => true
   | _, _ => false end) && N.eqb (snd a) (snd b).
Fixpoint msgs_eqb (a b : list msg) : bool :=
  match a, b with
  | [], [] => true
  | x :: a', y :: b' => msg_eqb x y && msgs_eqb a' b'
  | _, _ => false
  end.
Definition same_state (a b : pset) : bool :=
  nodes_sub (nodes a) (nodes b) && nodes_sub (nodes b) (nodes a) &&
  (num_in a =? num_in b)%N && (num_out a =? num_out b)%N &&
  subsetN (noslot a) (noslot b) && subsetN (noslot b) (noslot a) &&
  subsetN (reserved a) (reserved b) && subsetN (reserved b) (reserved a) &&
  msgs_eqb (msgs a) (msgs b).

(* the answer of the sortedPeers action (the model mirrors only its length): exactly the connected
   peers, each once, by non-increasing reputation (ties in any order: sort.Slice is not stable and
   the input order is a map iteration) *)
Fixpoint nodupN (l : list N) : bool :=
  match l with [] => true | x :: r => negb (memN x r) && nodupN r end.
Fixpoint nonincreasing (l : list Z) : bool :=
  match l with
  | x :: ((y :: _) as r) => (y <=? x) && nonincreasing r
  | _ => true
  end.
Definition sorted_ok (s : pset) (l : list N) : bool :=
  nodupN l && subsetN l (connected_set s) && subsetN (connected_set s) l &&
  nonincreasing (map (rep_of s) l).

(* one observed step re-evaluated (vm_compute cross-check of the extraction, and the driver's
   membership test): the observed error (None = not observable, handler harness) and state are
   among the model's possible results *)
Definition err_code (e : option err) : N :=
  match e with
  | None => 0 | Some ErrPeerDoesNotExist => 1 | Some ErrPeerDisconnected => 2
  | Some ErrOutgoingSlotsUnavailable => 3 | Some ErrIncomingSlotsUnavailable => 4
  | Some ErrDisconnectNonConnected => 5
  end%N.
Definition vm_step (s0 : pset) (k : N) (o : op) (e : option (option err)) (s1 : pset) : bool :=
  existsb (fun r => match r with
                    | Ret e' s' => (match e with None => true | Some e0 => N.eqb (err_code e') (err_code e0) end)
                                   && same_state s' s1
                    | _ => false
                    end) (step fixed s0 k o).

(* ---------------------------------------------------------------- histories *)
(* [reachable v s0 h s]: s is a possible state after the operations h (each with the seconds
   elapsed before it), for some resolution of the map-iteration choices *)
Inductive reachable (v : variant) (s0 : pset) : list (N * op) -> pset -> Prop :=
| reach_nil : reachable v s0 [] s0
| reach_step h s k o e s' :
    reachable v s0 h s -> In (Ret e s') (step v s k o) -> reachable v s0 (h ++ [(k, o)]) s'.

(* no operation of the history lies in the guard of the known finding *)
Inductive unguarded (v : variant) (s0 : pset) : list (N * op) -> Prop :=
| ung_nil : unguarded v s0 []
| ung_step h k o :
    unguarded v s0 h ->
    (forall s, reachable v s0 h s -> guard_unreserve s k o = false) ->
    unguarded v s0 (h ++ [(k, o)]).
