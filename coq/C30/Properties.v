(* C30/Properties.v — property C30: the peer set never exceeds its slots and never connects
   banned peers.  Statements only; proofs are in the Proofs*.v files.

   Model: C30/Model.v mirrors dot/peerset (peerstate.go, peerset.go) as repaired by the fix
   commits "peerset reportPeer applies the change to every reported peer" and "peerset
   addReputation no longer deadlocks on an unknown peer"; [step fixed s k o] is the list of all
   possible results of handler o from state s after k elapsed seconds (Go map iteration order is
   nondeterminism).  [reachable fixed s0 h s]: s is a possible state after the history h. *)
From Coq Require Import NArith ZArith List Bool.
From Coq Require Import Permutation.
From C30 Require Import Model ModelSpec ProofsArith ProofsRefute ProofsStep ProofsOrder ProofsSorted ProofsReserved ProofsExact.
Import ListNotations.
Local Open Scope Z_scope.

(* For every history of additions, removals, reservations, reports, incoming connections,
   disconnections and time ticks (over any peer population, any limits that fit uint32, reserved-
   only on or off, every resolution of the map-iteration choices), every further handler call
   - returns normally (no deadlock on the PeersState lock, no nil dereference, loops terminate);
   - leaves numIn / numOut equal to the number of connected non-reserved peers per direction;
   - leaves no peer (reserved or not) connected with a reputation below the ban threshold;
   - in reserved-only mode leaves only reserved peers connected;
   - keeps every reputation inside int32 (the arithmetic saturates, see C30_saturation);
   - emits Connect/Accept/Drop messages that, replayed on the set of connected peers before the
     call, give exactly the set of connected peers after it;
   - for reportPeer: applies the saturating change to each reported peer, once per occurrence, on
     top of the decay of the elapsed seconds, and only decays everybody else.
   All of this is the executable predicate [check_core] that the driver evaluates on the Go
   implementation's observables. *)
Theorem C30_core : forall mi mo ro h s k o r,
  (mi < 4294967296)%N -> (mo < 4294967296)%N ->
  hist_wf (h ++ [(k, o)]) ->
  reachable fixed (init_pset mi mo ro) h s ->
  In r (step fixed s k o) ->
  exists e s', r = Ret e s' /\ check_core s k o s' = true.
Proof.
  intros mi mo ro h s k o r A B WF R Hr.
  assert (WF' : hist_wf h) by (intros k' o' Hin; apply (WF k' o'); apply in_or_app; now left).
  assert (WO : op_wf o) by (apply (WF k o); apply in_or_app; right; now left).
  destruct (reachable_inv_false mi mo ro h s A B WF' R) as (I1 & _).
  destruct (step_sound false s k o I1 WO ltac:(discriminate) r Hr) as (e & s' & E & _ & C & _).
  exists e, s'. now split.
Qed.
Print Assumptions C30_core.

(* Which errors the handlers can return, for every reachable state, every elapsed time and every
   resolution of the map orders: nil — except that disconnect may return
   ErrDisconnectReceivedForNonConnectedPeer, and removeReservedPeers / setReservedPeer may return
   ErrPeerDoesNotExist (from removeNoSlotNode: updateTime forgets a reserved peer that was banned,
   dropped and has decayed to 0, although it stays in reservedNode).  ErrPeerDisconnected,
   ErrOutgoingSlotsUnavailable and ErrIncomingSlotsUnavailable never leave a handler. *)
Theorem C30_error_classes : forall mi mo ro h s k o r,
  (mi < 4294967296)%N -> (mo < 4294967296)%N ->
  hist_wf (h ++ [(k, o)]) ->
  reachable fixed (init_pset mi mo ro) h s ->
  In r (step fixed s k o) ->
  exists e s', r = Ret e s' /\ err_class_ok o e = true.
Proof. exact step_errors. Qed.
Print Assumptions C30_error_classes.

(* non-vacuity: both non-nil classes occur.  a is reserved, banned and dropped, marked old; 3000
   seconds later it has decayed to 0 and is forgotten; un-reserving it returns ErrPeerDoesNotExist.
   Disconnecting a peer twice returns ErrDisconnectNonConnected. *)
Example C30_error_classes_nonvacuous :
  (exists s, first_outcomes fixed (init_pset 1 1 false)
               [(0%N, OAddReserved [0%N]); (0%N, OReport (-2147483648) [0%N]); (0%N, OAge [0%N]); (3000%N, OIncoming [])] = Some s /\
             exists s', In (Ret (Some ErrPeerDoesNotExist) s') (step fixed s 0 (ORemoveReserved [0%N]))) /\
  (exists s', In (Ret (Some ErrDisconnectNonConnected) s') (step fixed (init_pset 1 1 false) 0 (ODisconnect false [0%N]))).
Proof.
  split.
  - eexists. split; [vm_compute; reflexivity|]. eexists. vm_compute. left. reflexivity.
  - eexists. vm_compute. left. reflexivity.
Qed.

(* the same facts as state invariants of every reachable state *)
Theorem C30_invariant : forall mi mo ro h s,
  (mi < 4294967296)%N -> (mo < 4294967296)%N -> hist_wf h ->
  reachable fixed (init_pset mi mo ro) h s ->
     counters_ok s = true /\ lk s = Unlocked
  /\ (forall p n, In (p, n) (nodes s) -> is_connected (n_st n) = true -> banned_threshold <= n_rep n)
  /\ (forall p n, In (p, n) (nodes s) -> in32 (n_rep n))
  /\ (ronly s = true -> forall p n, In (p, n) (nodes s) -> is_connected (n_st n) = true -> In p (reserved s)).
Proof.
  intros mi mo ro h s A B WF R. destruct (reachable_inv_false mi mo ro h s A B WF R) as (I1 & _).
  exact (Inv_facts false s I1).
Qed.
Print Assumptions C30_invariant.

(* the maxima: numIn <= maxIn and numOut <= maxOut in every reachable state of a history none of
   whose operations lies in the guard of the known finding unreserve-over-limit.  The guard
   (ModelSpec.guard_unreserve s k o) says: outside reserved-only mode, at the moment the
   un-reservation happens the peer being un-reserved is reserved, connected, and the slots of its
   direction are all taken — for removeReservedPeers that is the start of the call and its first
   peer; for setReservedPeer it is any state the add phase (addReservedPeers of the new peers,
   run by the guard on the model) can end in and any peer that can come first among those to
   remove.  C30_guard_exact below: whenever the guard holds the maximum really is exceeded. *)
Theorem C30_slots_partial : forall mi mo ro h s,
  (mi < 4294967296)%N -> (mo < 4294967296)%N -> hist_wf h ->
  unguarded fixed (init_pset mi mo ro) h ->
  reachable fixed (init_pset mi mo ro) h s ->
  limits_ok s = true /\ counters_ok s = true.
Proof.
  intros mi mo ro h s A B WF UG R.
  pose proof (reachable_inv_true mi mo ro h s A B WF UG R) as I1.
  split; [exact (Inv_limits s I1)|]. exact (proj1 (Inv_facts true s I1)).
Qed.
Print Assumptions C30_slots_partial.

(* the guard is exact: in a reachable state of an unguarded history (so the limits hold), an
   operation inside the guard has an outcome — a resolution of the map-iteration choices — that
   returns normally with a counter above its maximum (maxima below 2^32 - 1, so that the uint32
   counter cannot wrap to 0 instead) *)
Theorem C30_guard_exact : forall mi mo ro h s k o,
  (mi + 1 < 4294967296)%N -> (mo + 1 < 4294967296)%N -> hist_wf h ->
  unguarded fixed (init_pset mi mo ro) h -> reachable fixed (init_pset mi mo ro) h s ->
  guard_unreserve s k o = true ->
  exists e s', In (Ret e s') (step fixed s k o) /\ limits_ok s' = false.
Proof. exact guard_exact_reachable. Qed.
Print Assumptions C30_guard_exact.

(* non-vacuity of the setReservedPeer part of the guard: maxOut = 1; a is reserved, was banned and
   dropped, and has a good reputation again (not connected: nothing re-runs allocSlots); b holds
   the only outgoing slot.  setReservedPeer [] only un-reserves the unconnected a: not guarded, the
   limits hold.  setReservedPeer [c] first reserves c, whose allocSlots connects a (no slot), then
   un-reserves a: guarded, and numOut becomes 2 *)
Example C30_guard_set_reserved_nonvacuous :
  let h := [(0%N, OAddReserved [0%N]); (0%N, OAddPeer [1%N]); (0%N, OReport (-2147483648) [0%N]); (0%N, OReport 2147483647 [0%N])] in
  exists s, first_outcomes fixed (init_pset 1 1 false) h = Some s /\
            guard_unreserve s 0 (OSetReserved []) = false /\
            guard_unreserve s 0 (OSetReserved [2%N]) = true /\
            existsb (fun r => match r with Ret None s' => (num_out s' =? 2)%N | _ => false end)
                    (step fixed s 0 (OSetReserved [2%N])) = true.
Proof. eexists. split; [vm_compute; reflexivity|]. repeat split; vm_compute; reflexivity. Qed.

(* inside the guard the maxima can indeed be exceeded (repaired code included): the finding *)
Theorem C30_limits_refuted :
  exists s, reachable fixed (init_pset 1 1 false) finding_history s /\ limits_ok s = false /\
            num_in s = 2%N /\ max_in s = 1%N.
Proof. exact limits_finding_witness. Qed.
Print Assumptions C30_limits_refuted.

(* reputation arithmetic saturates: the int32 code (wraps written out) computes the clamped
   mathematical result; the decay moves towards zero and never crosses the ban threshold *)
Theorem C30_saturation : forall r d, in32 r -> in32 d ->
     rep_add r d = sat_add r d
  /\ rep_sub r d = clamp32 (r - d)
  /\ rep_tick r = spec_tick r /\ in32 (rep_tick r)
  /\ (banned_threshold <= r -> banned_threshold <= rep_tick r).
Proof.
  intros r d Hr Hd. split; [now apply rep_add_sat|]. split; [now apply rep_sub_sat|].
  split; [now apply rep_tick_spec|]. split; [now apply rep_tick_range|]. now apply rep_tick_not_banned.
Qed.
Print Assumptions C30_saturation.

(* Map-iteration order inside updateTime.  Each elapsed second the Go code visits
   maps.Keys(ps.nodes) in an unspecified order; the model visits the peers in the order of its
   association list.  From every state in which the PeersState lock is free and every peer has one
   entry (both are invariants: C30_invariant gives lk = Unlocked in every reachable state, a Go
   map has one entry per key), the loop over ANY permutation of the peers returns exactly the
   result list of the loop over the model's order — one visit touches only the visited peer's
   entry, and visits of different peers commute.  So the model's fixed order loses no behaviour. *)
Theorem C30_decay_order_independent : forall s l,
  lk s = Unlocked -> NoDup (map fst (nodes s)) -> Permutation (map fst (nodes s)) l ->
  for_each l tick_peer s = for_each (map fst (nodes s)) tick_peer s.
Proof. exact decay_order_irrelevant_peers. Qed.
Print Assumptions C30_decay_order_independent.

(* non-vacuity: three peers, one of them decays to 0 while old and not connected and is forgotten;
   the reverse order gives the same single result, which differs from the state before *)
Example C30_decay_order_nonvacuous :
  let s := mkPS [(0%N, mkNode NotConnected (-1) true); (1%N, mkNode Ingoing 100 false); (2%N, mkNode NotConnected (-2000) false)]
                1 0 2 2 [] Unlocked [] false 0 [] in
  for_each [2%N; 1%N; 0%N] tick_peer s = for_each [0%N; 1%N; 2%N] tick_peer s /\
  for_each [0%N; 1%N; 2%N] tick_peer s =
    [Ret Next (mkPS [(1%N, mkNode Ingoing 98 false); (2%N, mkNode NotConnected (-1960) false)] 1 0 2 2 [] Unlocked [] false 0 [])].
Proof. split; vm_compute; reflexivity. Qed.

(* Map-iteration order inside allocSlots.  The Go code ranges over the map ps.reservedNode; the
   model enumerates the orders in reduced form (Model.alloc_orders: the not-connected reserved
   peers, cut after the first one below the ban threshold).  From every state with the lock free,
   the loop over ANY duplicate-free permutation of the reserved set returns exactly the result list
   of the loop over one of the enumerated orders: the enumeration loses no behaviour. *)
Theorem C30_alloc_orders_complete : forall s pi,
  lk s = Unlocked -> NoDup pi -> Permutation pi (reserved s) ->
  exists o, In o (alloc_orders s) /\ for_each pi reserved_body s = for_each o reserved_body s.
Proof. exact alloc_orders_complete. Qed.
Print Assumptions C30_alloc_orders_complete.

(* The sortedPeers action.  allocSlots uses only the length of its answer (mirrored in Model.v);
   the answer itself is specified by ModelSpec.sorted_ok — exactly the connected peers, each once,
   by non-increasing reputation — which the driver evaluates on the answers of the Go action loop
   (handler harness).  The specification is met by a reference implementation in every state whose
   node map has one entry per peer. *)
Theorem C30_sorted_peers_spec : forall s,
  NoDup (map fst (nodes s)) -> sorted_ok s (sorted_peers s) = true.
Proof. exact sorted_peers_ok. Qed.
Print Assumptions C30_sorted_peers_spec.

(* the pinned tree before the fixes violated "a reputation change reported for several peers
   applies to each of them" ... *)
Theorem C30_report_each_prefix_refuted :
  exists e s', In (Ret e s') (step prefix two_peers 0 (OReport 16 [0%N; 1%N])) /\
               rep_of s' 1%N = 0 /\ check_core two_peers 0 (OReport 16 [0%N; 1%N]) s' = false.
Proof. exact report_prefix_witness. Qed.
Print Assumptions C30_report_each_prefix_refuted.

(* ... and deadlocked when an unknown peer was reported *)
Theorem C30_report_unknown_prefix_refuted :
  In Deadlock (step prefix (init_pset 1 1 false) 0 (OReport 16 [0%N])).
Proof. exact deadlock_prefix_witness. Qed.
Print Assumptions C30_report_unknown_prefix_refuted.

(* non-vacuity: a history that connects, bans, drops and re-allocates; the states exist, the
   hypotheses of the theorems hold of it *)
Example C30_nonvacuous :
  let h := [(0%N, OAddPeer [0%N; 1%N; 2%N]); (0%N, OIncoming [3%N]); (5%N, OReport (-2000000000) [0%N; 3%N]);
            (0%N, OAddReserved [4%N]); (1%N, ODisconnect false [1%N])] in
  hist_wf h /\
  exists s, first_outcomes fixed (init_pset 1 2 false) h = Some s /\
            num_in s = 0%N /\ num_out s = 2%N /\ length (nodes s) = 5%nat /\ reserved s = [4%N].
Proof.
  split.
  - intros k o Hin. cbn in Hin.
    repeat (destruct Hin as [E|Hin]; [injection E as <- <-; cbn; try exact I; unfold in32, min32, max32; split; discriminate|]).
    destruct Hin.
  - eexists. split; [vm_compute; reflexivity|]. repeat split.
Qed.
