(* C30/ProofsRefute.v — concrete witnesses: the two defects of the pinned tree (variant
   [prefix]) and the recorded finding, all by evaluation of the model. *)
From Coq Require Import NArith ZArith List Bool.
From C30 Require Import Model ModelSpec.
Import ListNotations.
Local Open Scope Z_scope.

(* two known peers with reputation 0 *)
Definition two_peers : pset :=
  mkPS [(0%N, mkNode NotConnected 0 false); (1%N, mkNode NotConnected 0 false)]
       0 0 0 0 [] Unlocked [] false 0 [].

(* before the fix, reportPeer(+16, a, b) left b unchanged *)
Lemma report_prefix_witness :
  exists e s', In (Ret e s') (step prefix two_peers 0 (OReport 16 [0%N; 1%N])) /\
               rep_of s' 1%N = 0 /\ check_core two_peers 0 (OReport 16 [0%N; 1%N]) s' = false.
Proof. eexists. eexists. split; [left; reflexivity|]. split; vm_compute; reflexivity. Qed.

(* before the fix, reporting an unknown peer deadlocked *)
Lemma deadlock_prefix_witness :
  In Deadlock (step prefix (init_pset 1 1 false) 0 (OReport 16 [0%N])).
Proof. left. reflexivity. Qed.

(* the recorded finding: an accepted peer becomes reserved (its slot is released), a second peer
   takes the only incoming slot, then the first one is un-reserved: numIn = 2 > maxIn = 1 *)
Definition finding_history : list (N * op) :=
  [(0%N, OIncoming [0%N]); (0%N, OAddReserved [0%N]); (0%N, OIncoming [1%N]); (0%N, ORemoveReserved [0%N])].

Fixpoint first_outcomes (v : variant) (s : pset) (h : list (N * op)) : option pset :=
  match h with
  | [] => Some s
  | (k, o) :: r => match step v s k o with
                   | Ret _ s' :: _ => first_outcomes v s' r
                   | _ => None
                   end
  end.

Lemma first_outcomes_reachable v s0 : forall h1 h s s',
  reachable v s0 h1 s -> first_outcomes v s h = Some s' -> reachable v s0 (h1 ++ h) s'.
Proof.
  intros h1 h. revert h1. induction h as [|[k o] h IH]; intros h1 s s' R E; cbn [first_outcomes] in E.
  - injection E as <-. now rewrite app_nil_r.
  - destruct (step v s k o) as [|[e s1| | |] rest] eqn:St; try discriminate.
    replace (h1 ++ (k, o) :: h) with ((h1 ++ [(k, o)]) ++ h) by (rewrite <- app_assoc; reflexivity).
    apply (IH _ s1 s'); [|exact E]. eapply reach_step; [exact R|]. rewrite St. now left.
Qed.

Lemma limits_finding_witness :
  exists s, reachable fixed (init_pset 1 1 false) finding_history s /\ limits_ok s = false /\
            num_in s = 2%N /\ max_in s = 1%N.
Proof.
  destruct (first_outcomes fixed (init_pset 1 1 false) finding_history) as [s|] eqn:E; [|vm_compute in E; discriminate].
  exists s. split.
  - apply (first_outcomes_reachable fixed (init_pset 1 1 false) [] finding_history _ s (reach_nil _ _) E).
  - vm_compute in E. injection E as <-. split; [reflexivity|]. split; reflexivity.
Qed.
