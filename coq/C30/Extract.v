From Coq Require Import Extraction ExtrOcamlBasic.
From Common Require Import Bytes Drv.
From C30 Require Import Model ModelSpec ProofsSorted.
Extraction "model.ml" drv_b2n drv_n2b drv_z_of_n drv_n_of_z drv_nat_of_n drv_n_of_nat
  fixed prefix mkPS mkNode step check_core limits_step limits_ok counters_ok no_banned_ok ronly_ok reps_ok view_ok
  report_ok guard_unreserve err_class_ok same_state init_pset sorted_ok vm_step sorted_peers banned_threshold disconnect_change.
