(* C30/ProofsWp.v — weakest-precondition calculus for the nondeterministic state monad of
   Model.v: [wp m Q s] = every possible result of m from s is a normal return satisfying Q
   (in particular: no Deadlock, no panic, no exhausted fuel). *)
From Coq Require Import NArith ZArith List Bool Lia.
From C30 Require Import Model.
Import ListNotations.

Definition wp {A} (m : M A) (Q : A -> pset -> Prop) (s : pset) : Prop :=
  forall r, In r (m s) -> match r with Ret a s' => Q a s' | _ => False end.

Lemma wp_ret {A} (a : A) (Q : A -> pset -> Prop) s : Q a s -> wp (ret a) Q s.
Proof. intros H r [<-|[]]. exact H. Qed.

Lemma bind_flat {A B} (m : M A) (f : A -> M B) s :
  bind m f s = flat_map (fun r => match r with
                                  | Ret a s' => f a s'
                                  | Deadlock => [Deadlock] | Panicked => [Panicked] | OutOfFuel => [OutOfFuel]
                                  end) (m s).
Proof.
  unfold bind. destruct (m s) as [|r [|r' l]]; [reflexivity| |destruct r; reflexivity].
  destruct r; cbn [flat_map]; try reflexivity. now rewrite app_nil_r.
Qed.

Lemma wp_bind {A B} (m : M A) (f : A -> M B) (Q : B -> pset -> Prop) s :
  wp m (fun a s' => wp (f a) Q s') s -> wp (bind m f) Q s.
Proof.
  intros H r Hr. rewrite bind_flat in Hr. apply in_flat_map in Hr as (r0 & H0 & H1).
  specialize (H r0 H0). destruct r0; try contradiction. exact (H r H1).
Qed.

Lemma wp_conseq {A} (m : M A) (Q Q' : A -> pset -> Prop) s :
  wp m Q s -> (forall a s', Q a s' -> Q' a s') -> wp m Q' s.
Proof. intros H HQ r Hr. specialize (H r Hr). destruct r; auto. Qed.

Lemma wp_in {A} (m : M A) (Q : A -> pset -> Prop) s :
  wp m Q s -> wp m (fun a s' => Q a s' /\ In (Ret a s') (m s)) s.
Proof. intros H r Hr. specialize (H r Hr). destruct r; auto. Qed.

Lemma wp_get (Q : pset -> pset -> Prop) s : Q s s -> wp get Q s.
Proof. intros H r [<-|[]]. exact H. Qed.

Lemma wp_modify f (Q : unit -> pset -> Prop) s : Q tt (f s) -> wp (modify f) Q s.
Proof. intros H r [<-|[]]. exact H. Qed.

Lemma wp_choose {A} (l : list A) (Q : A -> pset -> Prop) s : (forall a, In a l -> Q a s) -> wp (choose l) Q s.
Proof. intros H r Hr. unfold choose in Hr. apply in_map_iff in Hr as (a & <- & Ha). auto. Qed.

Lemma wp_pure {A} (f : pset -> A * pset) (Q : A -> pset -> Prop) s : Q (fst (f s)) (snd (f s)) -> wp (pure f) Q s.
Proof. unfold pure. intros H r Hr. destruct (f s). destruct Hr as [<-|[]]. exact H. Qed.

Lemma wp_emit st p (Q : unit -> pset -> Prop) s : Q tt (with_msgs s ((st, p) :: msgs s)) -> wp (emit st p) Q s.
Proof. intros H. unfold emit. apply (wp_modify (fun s => with_msgs s ((st, p) :: msgs s))). exact H. Qed.

(* a pure body that neither reads nor writes the lock word *)
Definition lk_blind {A} (f : pset -> A * pset) : Prop :=
  forall s l, f (with_lk s l) = (fst (f s), with_lk (snd (f s)) l).

Lemma with_lk_same s : with_lk s (lk s) = s.
Proof. destruct s; reflexivity. Qed.
Lemma with_lk_twice s a b : with_lk (with_lk s a) b = with_lk s b.
Proof. destruct s; reflexivity. Qed.

Lemma with_w_unlocked {A} (m : M A) s : lk s = Unlocked ->
  with_w m s = bind m (fun a => bind (modify (fun s' => with_lk s' Unlocked)) (fun _ => ret a)) (with_lk s WLocked).
Proof. intros H. unfold with_w. rewrite H. reflexivity. Qed.
Lemma with_r_unlocked {A} (m : M A) s : lk s = Unlocked ->
  with_r m s = bind m (fun a => bind (modify (fun s' => with_lk s' Unlocked)) (fun _ => ret a)) (with_lk s (RLocked 1)).
Proof. intros H. unfold with_r. rewrite H. reflexivity. Qed.

Lemma lk_blind_lk {A} (f : pset -> A * pset) s : lk_blind f -> lk (snd (f s)) = lk s.
Proof.
  intros Hb. pose proof (Hb s (lk s)) as H. rewrite with_lk_same in H.
  assert (E : snd (f s) = with_lk (snd (f s)) (lk s)) by (rewrite H at 1; reflexivity).
  rewrite E. destruct (snd (f s)); reflexivity.
Qed.

Lemma wp_locked_pure {A} (f : pset -> A * pset) (Q : A -> pset -> Prop) s l :
  lk s = Unlocked -> lk_blind f -> Q (fst (f s)) (snd (f s)) ->
  wp (bind (pure f) (fun a => bind (modify (fun s' => with_lk s' Unlocked)) (fun _ => ret a))) Q (with_lk s l).
Proof.
  intros Hl Hb HQ.
  apply wp_bind. apply wp_pure. rewrite !Hb. cbn [fst snd].
  apply wp_bind. apply (wp_modify (fun s' => with_lk s' Unlocked)). apply wp_ret.
  rewrite with_lk_twice. rewrite <- Hl. rewrite <- (lk_blind_lk f s Hb), with_lk_same. exact HQ.
Qed.

Lemma wp_with_w_pure {A} (f : pset -> A * pset) (Q : A -> pset -> Prop) s :
  lk s = Unlocked -> lk_blind f -> Q (fst (f s)) (snd (f s)) -> wp (with_w (pure f)) Q s.
Proof.
  intros Hl Hb HQ r Hr. rewrite with_w_unlocked in Hr by exact Hl.
  exact (wp_locked_pure f Q s WLocked Hl Hb HQ r Hr).
Qed.

Lemma wp_with_r_pure {A} (f : pset -> A * pset) (Q : A -> pset -> Prop) s :
  lk s = Unlocked -> lk_blind f -> Q (fst (f s)) (snd (f s)) -> wp (with_r (pure f)) Q s.
Proof.
  intros Hl Hb HQ r Hr. rewrite with_r_unlocked in Hr by exact Hl.
  exact (wp_locked_pure f Q s (RLocked 1) Hl Hb HQ r Hr).
Qed.

(* for _, x := range l { body } with an invariant *)
Lemma wp_for_each {A} (l : list A) (body : A -> M ctl) (I : pset -> Prop) (Q : ctl -> pset -> Prop) :
  (forall s, I s -> Q Next s) ->
  (forall x, In x l -> forall s, I s ->
     wp (body x) (fun c s' => match c with Next => I s' | _ => Q c s' end) s) ->
  forall s, I s -> wp (for_each l body) Q s.
Proof.
  intros HN. induction l as [|x l IH]; intros HB s HI; cbn [for_each].
  - apply wp_ret. auto.
  - apply wp_bind. eapply wp_conseq. apply HB; [left; reflexivity|exact HI].
    intros c s' Hc. destruct c.
    + apply IH; auto. intros y Hy. apply HB. right. exact Hy.
    + apply wp_ret. exact Hc.
    + apply wp_ret. exact Hc.
Qed.

(* the same with an invariant indexed by the elements already processed *)
Lemma wp_for_each_ix {A} (body : A -> M ctl) (I : list A -> pset -> Prop) (Q : ctl -> pset -> Prop) (l : list A) :
  (forall s, I l s -> Q Next s) ->
  (forall pre x rest, l = pre ++ x :: rest -> forall s, I pre s ->
     wp (body x) (fun c s' => match c with Next => I (pre ++ [x]) s' | _ => Q c s' end) s) ->
  forall s, I [] s -> wp (for_each l body) Q s.
Proof.
  intros HN HB.
  assert (K : forall rest pre, l = pre ++ rest -> forall s, I pre s -> wp (for_each rest body) Q s).
  { induction rest as [|x rest IH]; intros pre E s HI; cbn [for_each].
    - apply wp_ret. apply HN. rewrite E, app_nil_r. exact HI.
    - apply wp_bind. eapply wp_conseq. apply (HB pre x rest E s HI).
      intros c s' Hc. destruct c.
      + apply (IH (pre ++ [x])); [|exact Hc]. rewrite <- app_assoc. exact E.
      + apply wp_ret. exact Hc.
      + apply wp_ret. exact Hc. }
  intros s HI. apply (K l []); [reflexivity|exact HI].
Qed.

Lemma wp_seq {A B} (m : M A) (f : A -> M B) (Q' : A -> pset -> Prop) (Q : B -> pset -> Prop) s :
  wp m Q' s -> (forall a s', Q' a s' -> wp (f a) Q s') -> wp (bind m f) Q s.
Proof. intros Hm Hf. apply wp_bind. eapply wp_conseq; [exact Hm|exact Hf]. Qed.
