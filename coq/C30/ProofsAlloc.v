(* C30/ProofsAlloc.v — allocSlots: the reserved loop and the slot-filling loop. *)
From Coq Require Import NArith ZArith List Bool Lia.
From C30 Require Import Model ModelSpec ProofsArith ProofsLists ProofsInv ProofsFrame ProofsWp ProofsPrim ProofsTime.
Import ListNotations.
Local Open Scope Z_scope.

(* invariant of everything that runs after the first updateTime of an operation *)
Definition inv_as (b : bool) (c0 : list N) (s s' : pset) : Prop :=
  H b c0 s' /\ F s s' /\ pending s' = 0%N /\ (forall q, rep_of s' q = rep_of s q).

Lemma inv_as_refl b c0 s : H b c0 s -> pending s = 0%N -> inv_as b c0 s s.
Proof. intros HH P. split; [exact HH|]. split; [apply F_refl|]. split; [exact P|]. reflexivity. Qed.
Lemma inv_as_trans b c0 s1 s2 s3 : inv_as b c0 s1 s2 -> inv_as b c0 s2 s3 -> inv_as b c0 s1 s3.
Proof.
  intros (_ & F1 & _ & R1) (H2 & F2 & P2 & R2). split; [exact H2|]. split; [exact (F_trans _ _ _ F1 F2)|].
  split; [exact P2|]. intros q. now rewrite R2, R1.
Qed.

Lemma rep_of_nodes s s' : nodes s' = nodes s -> forall q, rep_of s' q = rep_of s q.
Proof. intros E q. unfold rep_of. now rewrite E. Qed.

Lemma rep_of_set_same s s' p n st o :
  find_node (nodes s) p = Some n -> nodes s' = set_node (nodes s) p (mkNode st (n_rep n) o) ->
  forall q, rep_of s' q = rep_of s q.
Proof.
  intros Fd E q. unfold rep_of. rewrite E, find_set. destruct (N.eqb q p) eqn:Q; [|reflexivity].
  apply N.eqb_eq in Q. subst q. now rewrite Fd.
Qed.

(* H across the elementary transitions *)
Lemma H_insert b c0 s p : H b c0 s -> H b c0 (insert_node s p).
Proof.
  intros (HG & C & HL). split; [now apply G_insert|]. split.
  - unfold insert_node. destruct (find_node (nodes s) p); exact C.
  - intros Hb. apply L_insert. auto.
Qed.
Lemma insert_frame s p : F s (insert_node s p) /\ pending (insert_node s p) = pending s /\ lk (insert_node s p) = lk s.
Proof. unfold insert_node. destruct (find_node (nodes s) p); repeat split. Qed.

Lemma status_not_connected s p :
  status_of s p <> SConnected ->
  match find_node (nodes s) p with Some n => is_connected (n_st n) = false | None => True end.
Proof.
  unfold status_of. destruct (find_node (nodes s) p) as [n|]; [|auto].
  destruct (n_st n); intros Hs; try reflexivity; exfalso; apply Hs; reflexivity.
Qed.

Lemma wp_connect_out b c0 s0 s p n (Q : ctl -> pset -> Prop) :
  inv_as b c0 s0 s -> find_node (nodes s) p = Some n -> is_connected (n_st n) = false ->
  banned_threshold <= n_rep n -> (ronly s = true -> memN p (reserved s) = true) ->
  (inv_as b c0 s0 s -> Q Brk s) ->
  (forall s', inv_as b c0 s0 s' -> nodes s' = set_node (nodes s) p (mkNode Outgoing (n_rep n) (n_old n)) -> Q Next s') ->
  wp (e <- try_outgoing p ;; match e with
                             | Some e => ret Brk
                             | None => emit MConnect p ;;; ret Next
                             end) Q s.
Proof.
  intros IA Fd NC B R QB QN. destruct IA as (HH & F1 & P1 & R1).
  pose proof (H_G _ _ _ HH) as HG. pose proof (g_lk _ _ HG) as U.
  apply wp_bind. apply wp_try_outgoing; [exact U|].
  destruct (try_outgoing_cases p s n Fd) as [E|(Free & E)]; rewrite E; cbn [fst snd].
  - apply wp_ret. apply QB. split; [exact HH|]. split; [exact F1|]. split; [exact P1|exact R1].
  - apply wp_bind. apply wp_emit. apply wp_ret. unfold with_msgs. cbn [nodes num_in num_out max_in max_out noslot lk reserved ronly pending msgs].
    apply QN; [|reflexivity]. destruct HH as (_ & C & HL).
    split; [split; [|split]|].
    + now apply G_connect_out.
    + exact C.
    + intros Hb. apply (L_connect_out c0); auto.
    + split; [exact F1|]. split; [exact P1|]. intros q. rewrite <- R1.
      apply (rep_of_set_same s _ p n Outgoing (n_old n)); auto.
Qed.

(* one iteration of the loop over the reserved peers *)
Lemma wp_reserved_body b c0 s0 s p :
  inv_as b c0 s0 s -> memN p (reserved s) = true ->
  wp (reserved_body p) (fun c s' => (c = Next \/ c = Brk) /\ inv_as b c0 s0 s') s.
Proof.
  intros IA MR. pose proof IA as (HH & F1 & P1 & R1).
  pose proof (H_G _ _ _ HH) as HG. pose proof (g_lk _ _ HG) as U.
  unfold reserved_body. apply wp_bind. apply wp_peer_status; [exact U|].
  destruct (status_of s p) eqn:ST.
  - apply wp_ret. split; [now left|exact IA].
  - (* notConnectedPeer *)
    apply wp_bind. apply wp_ret. apply wp_bind. apply wp_get_node; [exact U|].
    pose proof (status_not_connected s p) as NC. rewrite ST in NC. specialize (NC ltac:(discriminate)).
    destruct (find_node (nodes s) p) as [n|] eqn:Fd.
    2:{ unfold status_of in ST. rewrite Fd in ST. discriminate. }
    destruct (n_rep n <? banned_threshold) eqn:BN.
    + apply wp_ret. split; [now right|exact IA].
    + apply Z.ltb_ge in BN.
      assert (W := wp_connect_out b c0 s0 s p n (fun c s' => (c = Next \/ c = Brk) /\ inv_as b c0 s0 s') IA Fd NC BN (fun _ => MR)).
      eapply wp_conseq.
      * apply wp_bind. pose proof (g_sets _ _ HG p) as GS. rewrite MR in GS.
        apply wp_try_outgoing; [exact U|].
        destruct (try_outgoing_cases p s n Fd) as [E|(Free & E)].
        { exfalso. unfold try_outgoing_pure in E. rewrite GS in E. rewrite andb_false_r, Fd in E. discriminate. }
        rewrite E. cbn [fst snd]. apply wp_bind. apply wp_emit. apply wp_ret. unfold with_msgs.
        cbn [nodes num_in num_out max_in max_out noslot lk reserved ronly pending msgs].
        instantiate (1 := fun c s' => c = Next /\ inv_as b c0 s0 s'). cbn beta. split; [reflexivity|].
        destruct HH as (_ & C & HL). split; [split; [|split]|].
        -- apply G_connect_out; auto.
        -- exact C.
        -- intros Hb. apply (L_connect_out c0); auto.
        -- split; [exact F1|]. split; [exact P1|]. intros q. rewrite <- R1.
           apply (rep_of_set_same s _ p n Outgoing (n_old n)); auto.
      * intros c s' (-> & I'). split; [now left|exact I'].
  - (* unknownPeer: insertPeer first *)
    apply wp_bind. apply wp_insert_peer; [exact U|].
    set (s1 := insert_node s p).
    destruct (insert_frame s p) as (Fi & Pi & Li). fold s1 in Fi, Pi, Li.
    assert (IA1 : inv_as b c0 s0 s1).
    { split; [now apply H_insert|]. split; [exact (F_trans _ _ _ F1 Fi)|]. split; [congruence|].
      intros q. unfold s1. rewrite rep_of_insert. apply R1. }
    pose proof IA1 as (HH1 & _). pose proof (H_G _ _ _ HH1) as HG1. pose proof (g_lk _ _ HG1) as U1.
    apply wp_bind. apply wp_get_node; [exact U1|].
    assert (Fd1 : find_node (nodes s1) p = Some (match find_node (nodes s) p with Some n => n | None => new_node end)).
    { unfold s1. rewrite insert_node_find, N.eqb_refl. reflexivity. }
    rewrite Fd1. set (n := match find_node (nodes s) p with Some n => n | None => new_node end) in *.
    assert (NC : is_connected (n_st n) = false).
    { pose proof (status_not_connected s p) as X. rewrite ST in X. specialize (X ltac:(discriminate)).
      unfold n. destruct (find_node (nodes s) p); [exact X|reflexivity]. }
    assert (MR1 : memN p (reserved s1) = true) by (destruct Fi as (_ & _ & _ & ->); exact MR).
    destruct (n_rep n <? banned_threshold) eqn:BN.
    + apply wp_ret. split; [now right|exact IA1].
    + apply Z.ltb_ge in BN.
      apply wp_bind. pose proof (g_sets _ _ HG1 p) as GS. rewrite MR1 in GS.
      apply wp_try_outgoing; [exact U1|].
      destruct (try_outgoing_cases p s1 n Fd1) as [E|(Free & E)].
      { exfalso. unfold try_outgoing_pure in E. rewrite GS in E. rewrite andb_false_r, Fd1 in E. discriminate. }
      rewrite E. cbn [fst snd]. apply wp_bind. apply wp_emit. apply wp_ret. unfold with_msgs.
      cbn [nodes num_in num_out max_in max_out noslot lk reserved ronly pending msgs].
      split; [now left|]. destruct IA1 as (_ & F2 & P2 & R2).
      destruct HH1 as (_ & C & HL). split; [split; [|split]|].
      * apply G_connect_out; auto.
      * exact C.
      * intros Hb. apply (L_connect_out c0); auto.
      * split; [exact F2|]. split; [exact P2|]. intros q. rewrite <- R2.
        apply (rep_of_set_same s1 _ p n Outgoing (n_old n)); auto.
Qed.

Lemma with_lk_unlocked s l : lk s = Unlocked -> with_lk (with_lk s l) Unlocked = s.
Proof. intros U. rewrite with_lk_twice. rewrite <- U. apply with_lk_same. Qed.

Lemma wp_highest s (Q : option N -> pset -> Prop) :
  lk s = Unlocked ->
  (highest_candidates s = [] -> Q None s) ->
  (forall p, In p (highest_candidates s) -> Q (Some p) s) ->
  wp highest_not_connected Q s.
Proof.
  intros U QN QS r Hr. unfold highest_not_connected in Hr. rewrite with_r_unlocked in Hr by exact U.
  revert r Hr. change (wp (bind (s0 <- get ;; match highest_candidates s0 with
                                            | [] => ret None
                                            | c => p <- choose c ;; ret (Some p)
                                            end)
                                (fun a => bind (modify (fun s' => with_lk s' Unlocked)) (fun _ => ret a))) Q (with_lk s (RLocked 1))).
  apply wp_bind. apply wp_bind. apply wp_get.
  assert (E : highest_candidates (with_lk s (RLocked 1)) = highest_candidates s) by (destruct s; reflexivity).
  rewrite E. destruct (highest_candidates s) as [|c cs] eqn:HC.
  - apply wp_ret. apply wp_bind. apply (wp_modify (fun s' => with_lk s' Unlocked)). apply wp_ret.
    rewrite with_lk_unlocked by exact U. now apply QN.
  - apply wp_bind. apply wp_choose. intros p Hp. apply wp_ret.
    apply wp_bind. apply (wp_modify (fun s' => with_lk s' Unlocked)). apply wp_ret.
    rewrite with_lk_unlocked by exact U. now apply QS.
Qed.

Lemma candidate_not_connected s p :
  NoDup (keys (nodes s)) -> In p (highest_candidates s) ->
  exists n, find_node (nodes s) p = Some n /\ n_st n = NotConnected.
Proof.
  intros ND Hin. unfold highest_candidates, not_connected_peers in Hin.
  apply in_map_iff in Hin as ((q & n) & <- & Hin). apply filter_In in Hin as (Hin & _).
  apply filter_In in Hin as (Hin & ST). cbn [fst snd] in *. exists n. split.
  - now apply In_find_node.
  - destruct (n_st n); try discriminate; reflexivity.
Qed.

(* the number of peers that are known but not connected bounds the slot-filling loop *)
Definition ncount (s : pset) : nat := cnt (fun _ n => mstate_eqb (n_st n) NotConnected) (nodes s).

Lemma ncount_le s : (ncount s <= length (nodes s))%nat.
Proof.
  unfold ncount, cnt. induction (nodes s) as [|a l IH]; cbn; [lia|].
  destruct (mstate_eqb (n_st (snd a)) NotConnected); cbn; lia.
Qed.

Lemma wp_fill_slots b c0 s0 : forall fuel s,
  inv_as b c0 s0 s -> ronly s = false -> (ncount s < fuel)%nat ->
  wp (fill_slots fuel) (fun _ s' => inv_as b c0 s0 s') s.
Proof.
  induction fuel as [|fuel IH]; intros s IA RO NCt; [lia|].
  pose proof IA as (HH & F1 & P1 & R1).
  pose proof (H_G _ _ _ HH) as HG. pose proof (g_lk _ _ HG) as U.
  cbn [fill_slots]. apply wp_bind. apply wp_get.
  destruct (has_free_out s) eqn:FREE; cbn [negb]; [|apply wp_ret; exact IA].
  apply wp_bind. apply wp_highest; [exact U| |].
  - intros _. apply wp_ret. exact IA.
  - intros p Hp. destruct (candidate_not_connected s p (g_nodup _ _ HG) Hp) as (n & Fd & ST).
    apply wp_bind. apply wp_get. rewrite Fd.
    destruct (n_rep n <? banned_threshold) eqn:BN.
    + apply wp_bind. apply wp_connected_count; [exact U|]. intros _. apply wp_ret. exact IA.
    + apply Z.ltb_ge in BN.
      assert (NC : is_connected (n_st n) = false) by now rewrite ST.
      apply wp_bind. apply wp_try_outgoing; [exact U|].
      destruct (try_outgoing_cases p s n Fd) as [E|(Free & E)]; rewrite E; cbn [fst snd].
      * apply wp_ret. exact IA.
      * apply wp_bind. apply wp_emit. unfold with_msgs.
        cbn [nodes num_in num_out max_in max_out noslot lk reserved ronly pending msgs].
        apply IH.
        -- destruct HH as (_ & C & HL). split; [split; [|split]|].
           ++ apply G_connect_out; auto. intros X. congruence.
           ++ exact C.
           ++ intros Hb. apply (L_connect_out c0); auto.
           ++ split; [exact F1|]. split; [exact P1|]. intros q. rewrite <- R1.
              apply (rep_of_set_same s _ p n Outgoing (n_old n)); auto.
        -- exact RO.
        -- unfold ncount in *. cbn [nodes].
           pose proof (cnt_set_present (fun _ n => mstate_eqb (n_st n) NotConnected) (nodes s) p
                         (mkNode Outgoing (n_rep n) (n_old n)) n Fd) as E'.
           cbn [n_st mstate_eqb b2n] in E'. rewrite ST in E'. cbn [mstate_eqb b2n] in E'. lia.
Qed.

Lemma insert_all_in {A} (x : A) l o : In o (insert_all x l) -> forall y, In y o -> y = x \/ In y l.
Proof.
  revert o. induction l as [|a l IH]; intros o Ho y Hy; cbn [insert_all] in Ho.
  - destruct Ho as [<-|[]]. destruct Hy as [<-|[]]. now left.
  - destruct Ho as [<-|Ho].
    + destruct Hy as [<-|Hy]; [now left|right; exact Hy].
    + apply in_map_iff in Ho as (o' & <- & Ho'). destruct Hy as [<-|Hy]; [right; now left|].
      destruct (IH o' Ho' y Hy) as [->|H]; [now left|right; now right].
Qed.
Lemma perms_in {A} (l o : list A) : In o (perms l) -> forall y, In y o -> In y l.
Proof.
  revert o. induction l as [|a l IH]; intros o Ho y Hy; cbn [perms] in Ho.
  - destruct Ho as [<-|[]]. destruct Hy.
  - apply in_flat_map in Ho as (o' & Ho' & Ho). destruct (insert_all_in a o' o Ho y Hy) as [->|H]; [now left|].
    right. exact (IH o' Ho' y H).
Qed.

Lemma order_prefix_in s l x : In x (order_prefix s l) -> In x l.
Proof.
  induction l as [|p r IH]; cbn [order_prefix]; [auto|]. destruct (breaker s p).
  - intros [<-|[]]. now left.
  - intros [<-|H]; [now left|right; auto].
Qed.
Lemma alloc_orders_in s o : In o (alloc_orders s) -> forall x, In x o -> In x (reserved s).
Proof.
  unfold alloc_orders. intros Ho x Hx. apply nodup_In in Ho. apply in_map_iff in Ho as (l & <- & Hl).
  apply order_prefix_in in Hx. pose proof (perms_in _ _ Hl x Hx) as Hf. apply filter_In in Hf. tauto.
Qed.

Definition as_post (b : bool) (c0 : list N) (s s' : pset) : Prop :=
  H b c0 s' /\ F s s' /\ pending s' = 0%N /\
  (forall q, rep_of s' q = iter (N.to_nat (pending s)) spec_tick (rep_of s q)).

Lemma wp_alloc_slots b c0 s :
  H b c0 s -> wp alloc_slots (fun e s' => e = None /\ as_post b c0 s s') s.
Proof.
  intros HH. unfold alloc_slots. apply wp_bind. eapply wp_conseq. apply (wp_update_time b c0 s HH).
  intros e s1 (-> & H1 & F1 & P1 & R1).
  assert (IA1 : inv_as b c0 s1 s1) by now apply inv_as_refl.
  apply wp_bind. apply wp_get. apply wp_bind. apply wp_choose. intros order Hord.
  apply wp_bind.
  assert (LOOP : wp (for_each order reserved_body) (fun c s' => (c = Next \/ c = Brk) /\ inv_as b c0 s1 s') s1).
  { apply (wp_for_each order reserved_body (fun s' => inv_as b c0 s1 s')).
    - intros s' I'. split; [now left|exact I'].
    - intros x Hx s' I'. eapply wp_conseq. apply (wp_reserved_body b c0 s1 s' x I').
      + destruct I' as (_ & (_ & _ & _ & ->) & _). apply memN_true. exact (alloc_orders_in _ _ Hord x Hx).
      + intros c s'' (Hc & I''). destruct c; [exact I''|split; [exact Hc|exact I'']|].
        destruct Hc as [Hc|Hc]; discriminate.
    - exact IA1. }
  eapply wp_conseq; [exact LOOP|].
  - intros c s2 (Hc & I2).
    assert (FIN : forall s3, inv_as b c0 s1 s3 -> @None err = None /\ as_post b c0 s s3).
    { intros s3 (H3 & F3 & P3 & R3). split; [reflexivity|]. split; [exact H3|].
      split; [exact (F_trans _ _ _ F1 F3)|]. split; [exact P3|]. intros q. now rewrite R3, R1. }
    destruct c; [| |destruct Hc as [Hc|Hc]; discriminate].
    + apply wp_bind. apply wp_get. destruct (ronly s2) eqn:RO.
      * apply wp_ret. now apply FIN.
      * apply wp_bind. eapply wp_conseq. apply (wp_fill_slots b c0 s1 (S (length (nodes s2))) s2 I2 RO).
        -- pose proof (ncount_le s2). lia.
        -- intros u s3 I3. apply wp_ret. now apply FIN.
    + apply wp_bind. apply wp_get. destruct (ronly s2) eqn:RO.
      * apply wp_ret. now apply FIN.
      * apply wp_bind. eapply wp_conseq. apply (wp_fill_slots b c0 s1 (S (length (nodes s2))) s2 I2 RO).
        -- pose proof (ncount_le s2). lia.
        -- intros u s3 I3. apply wp_ret. now apply FIN.
Qed.
