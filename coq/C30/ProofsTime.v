(* C30/ProofsTime.v — updateTime: k seconds of decay, peers whose reputation reaches 0 while
   not connected and old are forgotten. *)
From Coq Require Import NArith ZArith List Bool Lia.
From C30 Require Import Model ModelSpec ProofsArith ProofsLists ProofsInv ProofsFrame ProofsWp ProofsPrim.
Import ListNotations.
Local Open Scope Z_scope.

(* what no operation changes, and what updateTime / allocSlots leave alone *)
Definition F (s s' : pset) : Prop :=
  max_in s' = max_in s /\ max_out s' = max_out s /\ ronly s' = ronly s /\ reserved s' = reserved s.
Lemma F_refl s : F s s. Proof. repeat split. Qed.
Lemma F_trans a b c : F a b -> F b c -> F a c.
Proof. intros (A1 & A2 & A3 & A4) (B1 & B2 & B3 & B4). repeat split; congruence. Qed.

Lemma cfg_ok_F s s' : F s s' -> cfg_ok s -> cfg_ok s'.
Proof. intros (A & B & _) (C & D). unfold cfg_ok. rewrite A, B. now split. Qed.

Lemma H_set_rep b c0 s p n r o :
  H b c0 s -> find_node (nodes s) p = Some n -> in32 r ->
  (is_connected (n_st n) = true -> banned_threshold <= r) ->
  H b c0 (with_nodes s (set_node (nodes s) p (mkNode (n_st n) r o))).
Proof.
  intros (HG & C & HL) Fd R B. split; [|split].
  - now apply G_set_rep.
  - exact C.
  - intros Hb. apply L_set_rep; auto.
Qed.

Lemma H_forget b c0 s p n :
  H b c0 s -> find_node (nodes s) p = Some n -> is_connected (n_st n) = false ->
  H b c0 (snd (forget_peer_pure p s)) /\ fst (forget_peer_pure p s) = None.
Proof.
  intros (HG & C & HL) Fd NC. destruct (G_forget c0 s p n HG Fd NC) as (A & B). split; [|exact B].
  split; [exact A|split].
  - unfold forget_peer_pure. rewrite Fd. destruct (negb (n_rep n =? 0)); exact C.
  - intros Hb. apply (L_forget s p n); auto. exact (g_nodup _ _ HG).
Qed.

Lemma forget_frame p s : F s (snd (forget_peer_pure p s)) /\ pending (snd (forget_peer_pure p s)) = pending s
                         /\ msgs (snd (forget_peer_pure p s)) = msgs s.
Proof.
  unfold forget_peer_pure. destruct (find_node (nodes s) p); [|repeat split].
  destruct (negb (n_rep n =? 0)); repeat split.
Qed.
Lemma forget_find p s q : q <> p -> find_node (nodes (snd (forget_peer_pure p s))) q = find_node (nodes s) q.
Proof.
  intros Hq. apply N.eqb_neq in Hq. unfold forget_peer_pure. destruct (find_node (nodes s) p); [|reflexivity].
  destruct (negb (n_rep n =? 0)); cbn [snd with_nodes nodes].
  - now rewrite find_set, Hq.
  - now rewrite find_del, Hq.
Qed.

Definition tick_post (b : bool) (c0 : list N) (s : pset) (p : N) (s' : pset) : Prop :=
  H b c0 s' /\ F s s' /\ pending s' = pending s /\
  (forall q, rep_of s' q = if N.eqb q p then spec_tick (rep_of s p) else rep_of s q) /\
  (forall q, q <> p -> find_node (nodes s') q = find_node (nodes s) q).

Lemma wp_tick_peer b c0 s p n :
  H b c0 s -> find_node (nodes s) p = Some n ->
  wp (tick_peer p) (fun c s' => c = Next /\ tick_post b c0 s p s') s.
Proof.
  intros HH Fd. pose proof (H_G _ _ _ HH) as HG. pose proof (g_lk _ _ HG) as U.
  pose proof (g_rng _ _ HG p n Fd) as RG.
  unfold tick_peer. apply wp_bind. apply wp_tick; [exact U|].
  unfold update_reputation_by_tick_pure. rewrite Fd. cbn [fst snd].
  set (s1 := with_nodes s (set_node (nodes s) p (mkNode (n_st n) (rep_tick (n_rep n)) (n_old n)))).
  assert (H1 : H b c0 s1).
  { apply H_set_rep; auto. now apply rep_tick_range.
    intros C. apply rep_tick_not_banned; auto. exact (g_ban _ _ HG p n Fd C). }
  assert (R1 : forall q, rep_of s1 q = if N.eqb q p then spec_tick (rep_of s p) else rep_of s q).
  { intros q. unfold s1. rewrite rep_of_set. cbn [n_rep]. destruct (N.eqb q p); [|reflexivity].
    unfold rep_of at 1. rewrite Fd. now apply rep_tick_spec. }
  assert (N1 : forall q, q <> p -> find_node (nodes s1) q = find_node (nodes s) q).
  { intros q Hq. unfold s1. cbn [with_nodes nodes]. rewrite find_set. apply N.eqb_neq in Hq. now rewrite Hq. }
  assert (P1 : tick_post b c0 s p s1).
  { split; [exact H1|]. split; [repeat split|]. split; [reflexivity|]. split; assumption. }
  assert (U1 : lk s1 = Unlocked) by exact U.
  assert (Fd1 : find_node (nodes s1) p = Some (mkNode (n_st n) (rep_tick (n_rep n)) (n_old n))).
  { unfold s1. cbn [with_nodes nodes]. apply find_set_same. }
  destruct (rep_tick (n_rep n) =? 0) eqn:Z0; cbn [negb].
  2:{ apply wp_ret. split; [reflexivity|exact P1]. }
  apply wp_bind. apply wp_peer_status; [exact U1|].
  destruct (pstatus_eqb (status_of s1 p) SNotConnected) eqn:ST; cbn [negb].
  2:{ apply wp_ret. split; [reflexivity|exact P1]. }
  apply wp_bind. apply wp_last_old; [exact U1|]. unfold last_connected_old_pure. rewrite Fd1. cbn [fst n_st n_old].
  destruct (if mstate_eqb (n_st n) NotConnected then n_old n else false) eqn:OLD.
  2:{ apply wp_ret. split; [reflexivity|exact P1]. }
  apply wp_bind. apply wp_forget_peer; [exact U1|].
  assert (NC : is_connected (n_st (mkNode (n_st n) (rep_tick (n_rep n)) (n_old n))) = false).
  { cbn [n_st]. destruct (n_st n); try discriminate; reflexivity. }
  destruct (H_forget b c0 s1 p _ H1 Fd1 NC) as (H2 & E2). rewrite E2. apply wp_ret.
  split; [reflexivity|]. destruct (forget_frame p s1) as (F2 & PD & _).
  destruct P1 as (_ & F1 & PD1 & _).
  split; [exact H2|]. split; [exact (F_trans _ _ _ F1 F2)|]. split; [congruence|]. split.
  - intros q. rewrite rep_of_forget. apply R1.
  - intros q Hq. rewrite forget_find by exact Hq. now apply N1.
Qed.

Lemma memN_app p a b : memN p (a ++ b) = memN p a || memN p b.
Proof. unfold memN. apply existsb_app. Qed.

Lemma in_keys_find l p : In p (keys l) -> exists n, find_node l p = Some n.
Proof.
  intros Hin. destruct (find_node l p) eqn:E; [eauto|]. apply find_node_none in E. contradiction.
Qed.

Definition time_post (b : bool) (c0 : list N) (s : pset) (k : nat) (s' : pset) : Prop :=
  H b c0 s' /\ F s s' /\ pending s' = pending s /\
  (forall q, rep_of s' q = iter k spec_tick (rep_of s q)).

Lemma wp_tick_second b c0 s :
  H b c0 s ->
  wp (ps <- peers ;; for_each ps tick_peer) (fun c s' => c = Next /\ time_post b c0 s 1 s') s.
Proof.
  intros HH. pose proof (H_G _ _ _ HH) as HG. pose proof (g_lk _ _ HG) as U. pose proof (g_nodup _ _ HG) as ND.
  apply wp_bind. apply wp_peers; [exact U|]. fold (keys (nodes s)).
  set (J := fun (pre : list N) (s' : pset) =>
    H b c0 s' /\ F s s' /\ pending s' = pending s /\
    (forall q, rep_of s' q = if memN q pre then spec_tick (rep_of s q) else rep_of s q) /\
    (forall q, ~ In q pre -> find_node (nodes s') q = find_node (nodes s) q)).
  apply (wp_for_each_ix tick_peer J).
  - intros s' (H1 & F1 & P1 & R1 & _). split; [reflexivity|]. split; [exact H1|]. split; [exact F1|]. split; [exact P1|].
    intros q. cbn [iter]. rewrite R1. destruct (memN q (keys (nodes s))) eqn:M; [reflexivity|].
    apply memN_false in M. apply find_node_none in M. unfold rep_of. rewrite M. reflexivity.
  - intros pre x rest E s' (H1 & F1 & P1 & R1 & N1).
    assert (NX : ~ In x pre).
    { intros Hin. rewrite E in ND. apply NoDup_remove_2 in ND. apply ND. apply in_or_app. now left. }
    assert (IX : In x (keys (nodes s))) by (rewrite E; apply in_or_app; right; now left).
    destruct (in_keys_find _ _ IX) as (n & Fn).
    assert (Fn' : find_node (nodes s') x = Some n) by (rewrite N1; auto).
    eapply wp_conseq. apply (wp_tick_peer b c0 s' x n H1 Fn').
    intros c s'' (-> & H2 & F2 & P2 & R2 & N2). unfold J.
    split; [exact H2|]. split; [exact (F_trans _ _ _ F1 F2)|]. split; [congruence|]. split.
    + intros q. rewrite R2, memN_app. cbn [memN existsb]. rewrite orb_false_r.
      destruct (N.eqb q x) eqn:Q.
      * apply N.eqb_eq in Q. subst q. rewrite orb_true_r. rewrite R1.
        assert (memN x pre = false) as -> by now apply memN_false. reflexivity.
      * rewrite orb_false_r. apply R1.
    + intros q Hq. rewrite N2.
      * apply N1. intros Hin. apply Hq. apply in_or_app. now left.
      * intros ->. apply Hq. apply in_or_app. right. now left.
  - unfold J. split; [exact HH|]. split; [apply F_refl|]. split; [reflexivity|]. split; auto.
Qed.

Lemma iter_S {A} k (f : A -> A) x : iter (S k) f x = f (iter k f x).
Proof. revert x. induction k as [|k IH]; intros x; [reflexivity|]. cbn [iter] in *. now rewrite IH. Qed.

Lemma wp_tick_seconds b c0 k : forall s,
  H b c0 s -> wp (tick_seconds k) (fun e s' => e = None /\ time_post b c0 s k s') s.
Proof.
  induction k as [|k IH]; intros s HH; cbn [tick_seconds].
  - apply wp_ret. split; [reflexivity|]. split; [exact HH|]. split; [apply F_refl|]. split; [reflexivity|]. reflexivity.
  - (* the bind is associated as in the model: peers, then the loop, then the rest *)
    apply wp_bind. apply wp_peers; [exact (g_lk _ _ (H_G _ _ _ HH))|].
    apply wp_bind.
    pose proof (wp_tick_second b c0 s HH) as W.
    assert (W' : wp (for_each (map fst (nodes s)) tick_peer) (fun c s' => c = Next /\ time_post b c0 s 1 s') s).
    { intros r Hr. apply (W r). rewrite bind_flat. apply in_flat_map.
      exists (Ret (map fst (nodes s)) s). split; [|exact Hr].
      pose proof (g_lk _ _ (H_G _ _ _ HH)) as U. unfold peers. rewrite with_r_unlocked by exact U.
      unfold bind, pure, peers_pure, modify, ret. cbn. left. f_equal. destruct s; cbn in *. now subst. }
    eapply wp_conseq. exact W'.
    intros c s1 (-> & H1 & F1 & P1 & R1).
    eapply wp_conseq. apply (IH s1 H1).
    intros e s2 (-> & H2 & F2 & P2 & R2). split; [reflexivity|].
    split; [exact H2|]. split; [exact (F_trans _ _ _ F1 F2)|]. split; [congruence|].
    intros q. rewrite R2, R1. cbn [iter]. reflexivity.
Qed.

Definition ut_post (b : bool) (c0 : list N) (s : pset) (s' : pset) : Prop :=
  H b c0 s' /\ F s s' /\ pending s' = 0%N /\
  (forall q, rep_of s' q = iter (N.to_nat (pending s)) spec_tick (rep_of s q)).

Lemma H_with_pending b c0 s k : H b c0 s -> H b c0 (with_pending s k).
Proof.
  intros (HG & C & HL). split; [|split].
  - destruct HG as [gl gn gs gi go gb gr gro gv]. constructor; auto.
  - exact C.
  - exact HL.
Qed.

Lemma wp_update_time b c0 s :
  H b c0 s -> wp update_time (fun e s' => e = None /\ ut_post b c0 s s') s.
Proof.
  intros HH. unfold update_time. apply wp_bind. apply wp_get. apply wp_bind.
  apply (wp_modify (fun s => with_pending s 0)).
  eapply wp_conseq. apply (wp_tick_seconds b c0 (N.to_nat (pending s)) (with_pending s 0)).
  - now apply H_with_pending.
  - intros e s' (-> & H1 & F1 & P1 & R1). split; [reflexivity|].
    split; [exact H1|]. split; [exact F1|]. split; [exact P1|]. exact R1.
Qed.
