(* C30/ProofsSorted.v — the sortedPeers action.  The mirrored code (allocSlots) only uses the
   length of its answer; the handler harness observes the answer itself and checks it against
   ModelSpec.sorted_ok.  Here: a reference implementation (insertion sort of the connected peers by
   decreasing reputation) and the proof that it satisfies sorted_ok in every state whose node map
   has one entry per peer — the specification is satisfiable in every such state, and any answer
   that differs from the reference only in the order of equal reputations satisfies it as well. *)
From Coq Require Import NArith ZArith List Bool Lia Permutation.
From C30 Require Import Model ModelSpec ProofsLists.
Import ListNotations.
Local Open Scope Z_scope.

Definition conn_reps (s : pset) : list (N * Z) :=
  map (fun qn => (fst qn, n_rep (snd qn))) (filter (fun qn => is_connected (n_st (snd qn))) (nodes s)).
Fixpoint insert_desc (x : N * Z) (l : list (N * Z)) : list (N * Z) :=
  match l with
  | [] => [x]
  | y :: r => if snd y <? snd x then x :: y :: r else y :: insert_desc x r
  end.
Definition sort_desc (l : list (N * Z)) : list (N * Z) := fold_right insert_desc [] l.
Definition sorted_peers (s : pset) : list N := map fst (sort_desc (conn_reps s)).

Lemma insert_perm x l : Permutation (insert_desc x l) (x :: l).
Proof.
  induction l as [|y r IH]; cbn [insert_desc]; [reflexivity|].
  destruct (snd y <? snd x); [reflexivity|]. rewrite IH. apply perm_swap.
Qed.
Lemma sort_perm l : Permutation (sort_desc l) l.
Proof. induction l as [|x l IH]; cbn [sort_desc fold_right]; [reflexivity|]. fold (sort_desc l). rewrite insert_perm. now constructor. Qed.

Fixpoint desc (l : list (N * Z)) : Prop :=
  match l with
  | x :: ((y :: _) as r) => snd y <= snd x /\ desc r
  | _ => True
  end.
Lemma insert_desc_sorted x l : desc l -> desc (insert_desc x l).
Proof.
  induction l as [|y r IH]; cbn [insert_desc]; intros D; [exact I|].
  destruct (snd y <? snd x) eqn:E.
  - apply Z.ltb_lt in E. cbn [desc]. split; [lia|exact D].
  - apply Z.ltb_ge in E. destruct r as [|z r'].
    + cbn [insert_desc desc]. split; [exact E|exact I].
    + cbn [desc] in D. destruct D as (D1 & D2). specialize (IH D2). cbn [insert_desc] in *.
      destruct (snd z <? snd x); cbn [desc]; (split; [assumption|exact IH]).
Qed.
Lemma sort_sorted l : desc (sort_desc l).
Proof. induction l as [|x l IH]; cbn [sort_desc fold_right]; [exact I|]. now apply insert_desc_sorted. Qed.

Lemma nodupN_true l : NoDup l -> nodupN l = true.
Proof.
  induction 1 as [|x l NI ND IH]; cbn [nodupN]; [reflexivity|]. rewrite IH.
  assert (memN x l = false) as -> by now apply memN_false. reflexivity.
Qed.

Lemma conn_reps_fst s : map fst (conn_reps s) = connected_set s.
Proof. unfold conn_reps, connected_set. rewrite map_map. reflexivity. Qed.

Lemma nodup_connected s : NoDup (keys (nodes s)) -> NoDup (connected_set s).
Proof.
  unfold connected_set, keys. generalize (nodes s). intros l. induction l as [|(p & n) l IH]; cbn [map filter]; intros ND; [constructor|].
  inversion ND as [|? ? NI ND']; subst. destruct (is_connected (n_st (snd (p, n)))); cbn [map]; [|now apply IH].
  constructor; [|now apply IH]. intros Hin. apply NI. apply in_map_iff in Hin as (x & E & Hx).
  apply filter_In in Hx as (Hx & _). apply in_map_iff. now exists x.
Qed.

Lemma conn_reps_rep s p r : NoDup (keys (nodes s)) -> In (p, r) (conn_reps s) -> rep_of s p = r.
Proof.
  intros ND Hin. unfold conn_reps in Hin. apply in_map_iff in Hin as ((q & n) & E & Hx). cbn [fst snd] in E.
  injection E as -> <-. apply filter_In in Hx as (Hx & _). unfold rep_of. now rewrite (In_find_node _ _ _ ND Hx).
Qed.

Lemma nonincreasing_cons2 x y r : nonincreasing (x :: y :: r) = (y <=? x) && nonincreasing (y :: r).
Proof. reflexivity. Qed.

Lemma nonincreasing_desc s l : (forall p r, In (p, r) l -> rep_of s p = r) -> desc l ->
  nonincreasing (map (rep_of s) (map fst l)) = true.
Proof.
  induction l as [|(p & r) l IH]; intros R D; [reflexivity|]. destruct l as [|(q & t) l'].
  - reflexivity.
  - destruct D as (D1 & D2). cbn [snd] in D1.
    specialize (IH (fun a b H => R a b (or_intror H)) D2).
    change (map (rep_of s) (map fst ((p, r) :: (q, t) :: l')))
      with (rep_of s p :: rep_of s q :: map (rep_of s) (map fst l')).
    rewrite nonincreasing_cons2.
    change (rep_of s q :: map (rep_of s) (map fst l')) with (map (rep_of s) (map fst ((q, t) :: l'))).
    rewrite IH, andb_true_r. rewrite (R p r) by now left. rewrite (R q t) by (right; now left).
    now apply Z.leb_le.
Qed.

Theorem sorted_peers_ok s : NoDup (map fst (nodes s)) -> sorted_ok s (sorted_peers s) = true.
Proof.
  intros ND. fold (keys (nodes s)) in ND. unfold sorted_ok, sorted_peers.
  pose proof (sort_perm (conn_reps s)) as HP.
  assert (HP' : Permutation (map fst (sort_desc (conn_reps s))) (connected_set s)).
  { rewrite <- conn_reps_fst. now apply Permutation_map. }
  repeat (apply andb_true_iff; split).
  - apply nodupN_true. eapply Permutation_NoDup; [apply Permutation_sym; exact HP'|now apply nodup_connected].
  - apply forallb_forall. intros x Hx. apply memN_true. eapply Permutation_in; eassumption.
  - apply forallb_forall. intros x Hx. apply memN_true. eapply Permutation_in; [apply Permutation_sym; exact HP'|exact Hx].
  - apply nonincreasing_desc; [|apply sort_sorted].
    intros p r Hin. apply conn_reps_rep; [exact ND|]. eapply Permutation_in; eassumption.
Qed.
