(* C30/ProofsGen.v — ties to the Go source regenerated on every run (Gen.v): the constant the
   model uses and the lock discipline of PeersState / PeerSet that the model's with_w / with_r
   wrappers follow.  A change of a lock mode or of the constant breaks these obligations. *)
From Coq Require Import ZArith String List.
From Common Require Import Lock.
From C30 Require Import Model Gen.
Import ListNotations.
Local Open Scope string_scope.

Example gen_disconnect_change : Gen.disconnect_reputation_change = disconnect_change.
Proof. reflexivity. Qed.

(* the lock each PeersState method takes first, as modelled: with_w = LockExclusive, with_r =
   LockShared, unlocked helpers = LockNone; all released by defer *)
Definition model_peersstate_locks : list (string * lockmode * bool) :=
  [("addNoSlotNode", LockExclusive, true);
   ("addReputation", LockExclusive, true);
   ("disconnect", LockExclusive, true);
   ("forgetPeer", LockExclusive, true);
   ("getNode", LockShared, true);
   ("getSetLength", LockNone, false);
   ("hasFreeIncomingSlot", LockNone, false);
   ("hasFreeOutgoingSlot", LockNone, false);
   ("highestNotConnectedPeer", LockShared, true);
   ("insertPeer", LockExclusive, true);
   ("lastConnectedAndDiscovered", LockShared, true);
   ("peerStatus", LockShared, true);
   ("peers", LockShared, true);
   ("removeNoSlotNode", LockExclusive, true);
   ("sortedPeers", LockShared, true);
   ("tryAcceptIncoming", LockExclusive, true);
   ("tryOutgoing", LockExclusive, true);
   ("updateReputationByTick", LockExclusive, true)].
Example gen_peersstate_locks : Gen.peersstate_locks = model_peersstate_locks.
Proof. reflexivity. Qed.

(* PeerSet: its own mutex only in updateTime, reservedLock in add/removeReservedPeers (never
   nested, not modelled); incoming read-locks the PeersState directly *)
Definition model_peerset_locks : list (string * lockmode * bool) :=
  [("addPeer", LockNone, false);
   ("addReservedPeers", LockExclusive, true);
   ("allocSlots", LockNone, false);
   ("disconnect", LockNone, false);
   ("incoming", LockShared, false);
   ("listenActionAllocSlots", LockNone, false);
   ("removePeer", LockNone, false);
   ("removeReservedPeers", LockExclusive, true);
   ("reportPeer", LockNone, false);
   ("setReservedPeer", LockNone, false);
   ("start", LockNone, false);
   ("updateTime", LockExclusive, true)].
Example gen_peerset_locks : Gen.peerset_locks = model_peerset_locks.
Proof. reflexivity. Qed.
