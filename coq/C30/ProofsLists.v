(* C30/ProofsLists.v — association-list and counting lemmas for the node map. *)
From Coq Require Import NArith ZArith List Bool Lia Permutation.
From C30 Require Import Model ModelSpec.
Import ListNotations.

Definition keys (l : list (N * node)) : list N := map fst l.

Lemma memN_true p l : memN p l = true <-> In p l.
Proof.
  unfold memN. rewrite existsb_exists. split.
  - intros (x & Hx & E). apply N.eqb_eq in E. now subst.
  - intros H. exists p. split; [exact H|apply N.eqb_refl].
Qed.
Lemma memN_false p l : memN p l = false <-> ~ In p l.
Proof.
  rewrite <- memN_true. destruct (memN p l); split; intros H; congruence.
Qed.
Lemma memN_cons p q l : memN p (q :: l) = N.eqb p q || memN p l.
Proof. reflexivity. Qed.
Lemma memN_removeN p q l : memN p (removeN q l) = negb (N.eqb q p) && memN p l.
Proof.
  destruct (memN p (removeN q l)) eqn:E.
  - apply memN_true in E. unfold removeN in E. apply filter_In in E as (H1 & H2).
    symmetry. apply andb_true_iff. split; [exact H2|now apply memN_true].
  - symmetry. apply memN_false in E. destruct (N.eqb q p) eqn:Q; cbn; [reflexivity|].
    apply memN_false. intros H. apply E. unfold removeN. apply filter_In. split; [exact H|now rewrite Q].
Qed.

Lemma find_node_In l p n : find_node l p = Some n -> In (p, n) l.
Proof.
  induction l as [|[q m] l IH]; cbn; [discriminate|].
  destruct (N.eqb q p) eqn:E.
  - apply N.eqb_eq in E. intros [= ->]. subst. now left.
  - intros H. right. auto.
Qed.
Lemma In_find_node l p n : NoDup (keys l) -> In (p, n) l -> find_node l p = Some n.
Proof.
  induction l as [|[q m] l IH]; cbn; [tauto|]. intros ND [H|H].
  - inversion H; subst. now rewrite N.eqb_refl.
  - inversion ND as [|? ? Hq ND']; subst. destruct (N.eqb q p) eqn:E.
    + apply N.eqb_eq in E. subst. exfalso. apply Hq. unfold keys. apply in_map_iff. now exists (p, n).
    + auto.
Qed.
Lemma find_node_none l p : find_node l p = None <-> ~ In p (keys l).
Proof.
  induction l as [|[q m] l IH]; cbn; [tauto|]. destruct (N.eqb q p) eqn:E.
  - apply N.eqb_eq in E. split; [discriminate|]. intros H. exfalso. apply H. now left.
  - apply N.eqb_neq in E. rewrite IH. tauto.
Qed.

Lemma find_set_same l p n : find_node (set_node l p n) p = Some n.
Proof.
  induction l as [|[q m] l IH]; cbn.
  - now rewrite N.eqb_refl.
  - destruct (N.eqb q p) eqn:E; cbn; rewrite E; auto.
Qed.
Lemma find_set_other l p q n : q <> p -> find_node (set_node l p n) q = find_node l q.
Proof.
  intros Hq. induction l as [|[r m] l IH]; cbn.
  - destruct (N.eqb p q) eqn:E; [apply N.eqb_eq in E; congruence|reflexivity].
  - destruct (N.eqb r p) eqn:E; cbn.
    + apply N.eqb_eq in E. subst r. destruct (N.eqb p q) eqn:F; [apply N.eqb_eq in F; congruence|reflexivity].
    + destruct (N.eqb r q); auto.
Qed.
Lemma find_set l p q n : find_node (set_node l p n) q = if N.eqb q p then Some n else find_node l q.
Proof.
  destruct (N.eqb q p) eqn:E.
  - apply N.eqb_eq in E. subst. apply find_set_same.
  - apply N.eqb_neq in E. now apply find_set_other.
Qed.
Lemma find_del l p q : find_node (del_node l p) q = if N.eqb q p then None else find_node l q.
Proof.
  unfold del_node. induction l as [|[r m] l IH]; cbn [filter find_node fst].
  - now destruct (N.eqb q p).
  - destruct (N.eqb r p) eqn:E; cbn [negb find_node].
    + apply N.eqb_eq in E. subst r. rewrite IH. destruct (N.eqb q p) eqn:F; [reflexivity|].
      rewrite N.eqb_sym, F. reflexivity.
    + rewrite IH. destruct (N.eqb r q) eqn:F; [|reflexivity].
      apply N.eqb_eq in F. subst r. rewrite E. reflexivity.
Qed.

Lemma keys_set_present l p n m : find_node l p = Some m -> keys (set_node l p n) = keys l.
Proof.
  induction l as [|[q x] l IH]; cbn; [discriminate|].
  destruct (N.eqb q p) eqn:E; cbn; [reflexivity|]. intros H. f_equal. auto.
Qed.
Lemma keys_set_absent l p n : find_node l p = None -> keys (set_node l p n) = keys l ++ [p].
Proof.
  induction l as [|[q x] l IH]; cbn; [reflexivity|].
  destruct (N.eqb q p) eqn:E; cbn; [discriminate|]. intros H. f_equal. auto.
Qed.
Lemma nodup_set l p n : NoDup (keys l) -> NoDup (keys (set_node l p n)).
Proof.
  intros ND. destruct (find_node l p) eqn:F.
  - erewrite keys_set_present; eauto.
  - rewrite keys_set_absent by exact F. apply find_node_none in F.
    apply Permutation.Permutation_NoDup with (l := p :: keys l).
    + apply Permutation.Permutation_cons_append.
    + now constructor.
Qed.
Lemma nodup_del l p : NoDup (keys l) -> NoDup (keys (del_node l p)).
Proof.
  induction l as [|[q x] l IH]; cbn; [auto|]. intros ND. inversion ND as [|? ? Hq ND']; subst.
  destruct (N.eqb q p); cbn; [auto|]. constructor; [|auto].
  intros H. apply Hq. unfold keys, del_node in *. apply in_map_iff in H as ((a & b) & <- & H).
  apply filter_In in H as (H & _). apply in_map_iff. now exists (a, b).
Qed.

Lemma filter_all_id {A} (f : A -> bool) l : (forall x, In x l -> f x = true) -> filter f l = l.
Proof.
  induction l as [|a l IH]; cbn; [reflexivity|]. intros H. rewrite (H a) by now left. f_equal. apply IH. intros; apply H; now right.
Qed.

(* ---- counting ---- *)
Definition cnt (f : N -> node -> bool) (l : list (N * node)) : nat :=
  length (filter (fun qn => f (fst qn) (snd qn)) l).
Definition b2n (b : bool) : nat := if b then 1%nat else 0%nat.

Lemma cnt_cons f q m l : cnt f ((q, m) :: l) = (b2n (f q m) + cnt f l)%nat.
Proof. unfold cnt. cbn. destruct (f q m); reflexivity. Qed.

Lemma cnt_set_absent f l p n : find_node l p = None -> cnt f (set_node l p n) = (cnt f l + b2n (f p n))%nat.
Proof.
  induction l as [|[q x] l IH]; cbn [set_node find_node].
  - intros _. rewrite cnt_cons. unfold cnt. cbn. lia.
  - destruct (N.eqb q p); [discriminate|]. intros H. rewrite !cnt_cons, IH by exact H. lia.
Qed.
Lemma cnt_set_present f l p n m : find_node l p = Some m ->
  (cnt f (set_node l p n) + b2n (f p m) = cnt f l + b2n (f p n))%nat.
Proof.
  induction l as [|[q x] l IH]; cbn [set_node find_node]; [discriminate|].
  destruct (N.eqb q p) eqn:E.
  - apply N.eqb_eq in E. subst q. intros [= ->]. rewrite !cnt_cons. lia.
  - intros H. rewrite !cnt_cons. specialize (IH H). lia.
Qed.
Lemma cnt_del f l p m : NoDup (keys l) -> find_node l p = Some m ->
  (cnt f (del_node l p) + b2n (f p m) = cnt f l)%nat.
Proof.
  induction l as [|[q x] l IH]; cbn [del_node find_node filter fst]; [discriminate|].
  intros ND. inversion ND as [|? ? Hq ND']; subst. destruct (N.eqb q p) eqn:E; cbn [negb].
  - apply N.eqb_eq in E. subst q. intros [= ->]. rewrite cnt_cons.
    assert (D : filter (fun qn => negb (N.eqb (fst qn) p)) l = l).
    { apply filter_all_id. intros (a & b) Hab. cbn.
      destruct (N.eqb a p) eqn:F; [|reflexivity]. apply N.eqb_eq in F. subst a.
      exfalso. apply Hq. apply in_map_iff. now exists (p, b). }
    rewrite D. lia.
  - intros H. rewrite !cnt_cons. specialize (IH ND' H). unfold del_node in IH. lia.
Qed.
Lemma cnt_del_absent f l p : find_node l p = None -> cnt f (del_node l p) = cnt f l.
Proof.
  intros H. assert (D : del_node l p = l); [|now rewrite D]. unfold del_node. apply filter_all_id.
  intros (a & b) Hab. cbn. destruct (N.eqb a p) eqn:F; [|reflexivity]. apply N.eqb_eq in F. subst a.
  apply find_node_none in H. exfalso. apply H. apply in_map_iff. now exists (p, b).
Qed.

(* two predicates that agree except at key p *)
Lemma cnt_ext_absent f g l p : (forall q n, q <> p -> f q n = g q n) -> find_node l p = None -> cnt f l = cnt g l.
Proof.
  intros H. induction l as [|[q x] l IH]; cbn [find_node]; [reflexivity|].
  destruct (N.eqb q p) eqn:E; [discriminate|]. intros F. rewrite !cnt_cons, IH by exact F.
  apply N.eqb_neq in E. now rewrite H.
Qed.
Lemma cnt_ext_present f g l p m : (forall q n, q <> p -> f q n = g q n) -> NoDup (keys l) -> find_node l p = Some m ->
  (cnt f l + b2n (g p m) = cnt g l + b2n (f p m))%nat.
Proof.
  intros H. induction l as [|[q x] l IH]; cbn [find_node]; [discriminate|].
  intros ND. inversion ND as [|? ? Hq ND']; subst. destruct (N.eqb q p) eqn:E.
  - apply N.eqb_eq in E. subst q. intros [= ->]. rewrite !cnt_cons.
    rewrite (cnt_ext_absent f g l p H). lia. now apply find_node_none.
  - intros F. rewrite !cnt_cons. specialize (IH ND' F). apply N.eqb_neq in E. rewrite (H q x E). lia.
Qed.
Lemma cnt_ext f g l : (forall q n, f q n = g q n) -> cnt f l = cnt g l.
Proof.
  intros H. induction l as [|[q x] l IH]; [reflexivity|]. now rewrite !cnt_cons, IH, H.
Qed.
