(* C30/Model.v — executable model of dot/peerset (peerstate.go, peerset.go), definitions only.

   One set (index 0), as gossamer configures it.  Peers are numbers.  Mirrored function by
   function: PeersState.{getNode, peerStatus, peers, sortedPeers (only its length is used),
   updateReputationByTick, addReputation, highestNotConnectedPeer, hasFreeOutgoingSlot,
   hasFreeIncomingSlot, addNoSlotNode, removeNoSlotNode, disconnect, insertPeer,
   lastConnectedAndDiscovered, forgetPeer, tryOutgoing, tryAcceptIncoming} and
   PeerSet.{updateTime, reportPeer, allocSlots, addReservedPeers, removeReservedPeers,
   setReservedPeer, addPeer, removePeer, incoming, disconnect}, Reputation.add/sub,
   reputationTick.

   * uint32 counters and int32 reputations: the wraps are written out ([wrap32u], [wrap32]).
   * the PeersState RWMutex is modelled: a second Lock (or an RLock under Lock) on the same call
     chain is the outcome [Deadlock].
   * Go map iteration (the reserved set in allocSlots and setReservedPeer, ties in
     highestNotConnectedPeer) is nondeterminism: every function returns the list of all its
     possible results.
   * time: [pending] = whole seconds elapsed since latestTimeUpdate when the operation starts
     (the harness shifts latestTimeUpdate); node.lastConnected is abstracted to the boolean
     [n_old] = "lastConnected + forgetAfterTime compares below now" (the harness pins
     lastConnected to one of two marker instants, see props/C30/harness_test.go).

   Two variants: [fixed] mirrors the repaired code (fixes/C30-*.patch); [prefix] the pinned tree:
   reportPeer returns at the first peer that stays above the ban threshold, and
   PeersState.addReputation calls insertPeer while holding the write lock. *)
From Coq Require Import NArith ZArith List Bool.
Import ListNotations.
Local Open Scope Z_scope.

(* ---------------------------------------------------------------- numbers *)
Definition two32 : Z := 4294967296.
Definition max32 : Z := 2147483647.
Definition min32 : Z := -2147483648.
Definition wrap32 (z : Z) : Z := (z + 2147483648) mod two32 - 2147483648.     (* int32 *)
Definition wrap32u (n : N) : N := (n mod 4294967296)%N.                         (* uint32 *)
Definition u32_dec (n : N) : N := wrap32u (n + 4294967295).                     (* n-- *)
Definition u32_inc (n : N) : N := wrap32u (n + 1).                              (* n++ *)

Definition banned_threshold : Z := -1760936552.       (* 82 * (math.MinInt32 / 100) *)
Definition disconnect_change : Z := -256.

(* Reputation.add *)
Definition rep_add (r num : Z) : Z :=
  if 0 <? num then
    (if wrap32 (max32 - num) <? r then max32 else wrap32 (r + num))
  else if r <? wrap32 (min32 - num) then min32 else wrap32 (r + num).
(* Reputation.sub *)
Definition rep_sub (r num : Z) : Z :=
  if num <? 0 then
    (if wrap32 (max32 + num) <? r then max32 else wrap32 (r - num))
  else if r <? wrap32 (min32 + num) then min32 else wrap32 (r - num).
(* reputationTick *)
Definition rep_tick (r : Z) : Z :=
  let diff := Z.quot r 50 in
  let diff := if (diff =? 0) && (r <? 0) then -1 else if (diff =? 0) && (0 <? r) then 1 else diff in
  rep_sub r diff.

(* ---------------------------------------------------------------- state *)
Inductive mstate := NotMember | Ingoing | Outgoing | NotConnected.
Definition mstate_eqb (a b : mstate) : bool :=
  match a, b with
  | NotMember, NotMember | Ingoing, Ingoing | Outgoing, Outgoing | NotConnected, NotConnected => true
  | _, _ => false
  end.
Definition is_connected (m : mstate) : bool := match m with Ingoing | Outgoing => true | _ => false end.

Record node := mkNode { n_st : mstate; n_rep : Z; n_old : bool }.

Inductive lockst := Unlocked | WLocked | RLocked (n : nat).

Inductive status := MConnect | MDrop | MAccept | MReject.
Definition msg := (status * N)%type.

Record pset := mkPS {
  nodes : list (N * node);     (* PeersState.nodes *)
  num_in : N; num_out : N;     (* Info.numIn / numOut (uint32) *)
  max_in : N; max_out : N;
  noslot : list N;             (* Info.noSlotNodes *)
  lk : lockst;                 (* PeersState.RWMutex *)
  reserved : list N;           (* PeerSet.reservedNode *)
  ronly : bool;                (* PeerSet.isReservedOnly *)
  pending : N;                 (* seconds since latestTimeUpdate *)
  msgs : list msg              (* resultMsgCh, newest first *)
}.

Definition init_pset (maxin maxout : N) (ro : bool) : pset :=
  mkPS [] 0 0 maxin maxout [] Unlocked [] ro 0 [].

Definition memN (p : N) (l : list N) : bool := existsb (N.eqb p) l.
Definition removeN (p : N) (l : list N) : list N := filter (fun x => negb (N.eqb p x)) l.

Fixpoint find_node (l : list (N * node)) (p : N) : option node :=
  match l with
  | [] => None
  | (q, n) :: r => if N.eqb q p then Some n else find_node r p
  end.
Fixpoint set_node (l : list (N * node)) (p : N) (n : node) : list (N * node) :=
  match l with
  | [] => [(p, n)]
  | (q, m) :: r => if N.eqb q p then (q, n) :: r else (q, m) :: set_node r p n
  end.
Definition del_node (l : list (N * node)) (p : N) : list (N * node) :=
  filter (fun qn => negb (N.eqb (fst qn) p)) l.

(* field updates *)
Definition with_nodes (s : pset) (l : list (N * node)) : pset :=
  mkPS l (num_in s) (num_out s) (max_in s) (max_out s) (noslot s) (lk s) (reserved s) (ronly s) (pending s) (msgs s).
Definition with_in (s : pset) (x : N) : pset :=
  mkPS (nodes s) x (num_out s) (max_in s) (max_out s) (noslot s) (lk s) (reserved s) (ronly s) (pending s) (msgs s).
Definition with_out (s : pset) (x : N) : pset :=
  mkPS (nodes s) (num_in s) x (max_in s) (max_out s) (noslot s) (lk s) (reserved s) (ronly s) (pending s) (msgs s).
Definition with_noslot (s : pset) (l : list N) : pset :=
  mkPS (nodes s) (num_in s) (num_out s) (max_in s) (max_out s) l (lk s) (reserved s) (ronly s) (pending s) (msgs s).
Definition with_lk (s : pset) (l : lockst) : pset :=
  mkPS (nodes s) (num_in s) (num_out s) (max_in s) (max_out s) (noslot s) l (reserved s) (ronly s) (pending s) (msgs s).
Definition with_reserved (s : pset) (l : list N) : pset :=
  mkPS (nodes s) (num_in s) (num_out s) (max_in s) (max_out s) (noslot s) (lk s) l (ronly s) (pending s) (msgs s).
Definition with_pending (s : pset) (k : N) : pset :=
  mkPS (nodes s) (num_in s) (num_out s) (max_in s) (max_out s) (noslot s) (lk s) (reserved s) (ronly s) k (msgs s).
Definition with_msgs (s : pset) (l : list msg) : pset :=
  mkPS (nodes s) (num_in s) (num_out s) (max_in s) (max_out s) (noslot s) (lk s) (reserved s) (ronly s) (pending s) l.

(* ---------------------------------------------------------------- the monad *)
Inductive result (A : Type) :=
| Ret (a : A) (s : pset)
| Deadlock            (* a goroutine waits for a lock it holds itself *)
| Panicked            (* nil map entry dereferenced *)
| OutOfFuel.
Arguments Ret {A} a s.
Arguments Deadlock {A}.
Arguments Panicked {A}.
Arguments OutOfFuel {A}.

Definition M (A : Type) := pset -> list (result A).
Definition ret {A} (a : A) : M A := fun s => [Ret a s].
Definition bind {A B} (m : M A) (f : A -> M B) : M B := fun s =>
  match m s with
  | [Ret a s'] => f a s'        (* the deterministic case, kept apart so that it is a tail call *)
  | l => flat_map (fun r => match r with
                            | Ret a s' => f a s'
                            | Deadlock => [Deadlock] | Panicked => [Panicked] | OutOfFuel => [OutOfFuel]
                            end) l
  end.
Notation "x <- m ;; f" := (bind m (fun x => f)) (at level 61, m at next level, right associativity).
Notation "m ;;; f" := (bind m (fun _ => f)) (at level 61, right associativity).
Definition get : M pset := fun s => [Ret s s].
Definition put (s : pset) : M unit := fun _ => [Ret tt s].
Definition modify (f : pset -> pset) : M unit := fun s => [Ret tt (f s)].
Definition choose {A} (l : list A) : M A := fun s => map (fun a => Ret a s) l.
Definition panic {A} : M A := fun _ => [Panicked].
Definition pure {A} (f : pset -> A * pset) : M A := fun s => let (a, s') := f s in [Ret a s'].
Definition emit (st : status) (p : N) : M unit := modify (fun s => with_msgs s ((st, p) :: msgs s)).

(* ps.Lock(); defer ps.Unlock() *)
Definition with_w {A} (m : M A) : M A := fun s =>
  match lk s with
  | Unlocked => bind m (fun a => bind (modify (fun s' => with_lk s' Unlocked)) (fun _ => ret a)) (with_lk s WLocked)
  | _ => [Deadlock]
  end.
(* ps.RLock(); defer ps.RUnlock() *)
Definition with_r {A} (m : M A) : M A := fun s =>
  match lk s with
  | WLocked => [Deadlock]
  | Unlocked => bind m (fun a => bind (modify (fun s' => with_lk s' Unlocked)) (fun _ => ret a)) (with_lk s (RLocked 1))
  | RLocked n => bind m (fun a => bind (modify (fun s' => with_lk s' (RLocked n))) (fun _ => ret a)) (with_lk s (RLocked (S n)))
  end.

Inductive err :=
| ErrPeerDoesNotExist | ErrPeerDisconnected | ErrOutgoingSlotsUnavailable
| ErrIncomingSlotsUnavailable | ErrDisconnectNonConnected.

(* ---------------------------------------------------------------- PeersState *)
Inductive pstatus := SConnected | SNotConnected | SUnknown.
Definition pstatus_eqb (a b : pstatus) : bool :=
  match a, b with SConnected, SConnected | SNotConnected, SNotConnected | SUnknown, SUnknown => true | _, _ => false end.

Definition get_node_pure (p : N) (s : pset) : (option node) * pset := (find_node (nodes s) p, s).
Definition get_node (p : N) : M (option node) := with_r (pure (get_node_pure p)).

Definition status_of (s : pset) (p : N) : pstatus :=
  match find_node (nodes s) p with
  | None => SUnknown
  | Some n => match n_st n with
              | Ingoing | Outgoing => SConnected
              | NotConnected => SNotConnected
              | NotMember => SUnknown
              end
  end.
Definition peer_status_pure (p : N) (s : pset) : pstatus * pset := (status_of s p, s).
Definition peer_status (p : N) : M pstatus := with_r (pure (peer_status_pure p)).

Definition peers_pure (s : pset) : (list N) * pset := (map fst (nodes s), s).
Definition peers : M (list N) := with_r (pure peers_pure).

(* sortedPeers: only len(...) is used by the mirrored code *)
Definition connected_count_pure (s : pset) : nat * pset := (length (filter (fun qn => is_connected (n_st (snd qn))) (nodes s)), s).
Definition connected_count : M nat := with_r (pure connected_count_pure).

Definition update_reputation_by_tick_pure (p : N) (s : pset) : (option Z) * pset :=
    match find_node (nodes s) p with
    | None => (None, s)
    | Some n => let r := rep_tick (n_rep n) in
                (Some r, with_nodes s (set_node (nodes s) p (mkNode (n_st n) r (n_old n))))
    end.
Definition update_reputation_by_tick (p : N) : M (option Z) := with_w (pure (update_reputation_by_tick_pure p)).

Definition new_node : node := mkNode NotConnected 0 false.    (* newNode + state[set] = notConnected *)

Definition insert_node (s : pset) (p : N) : pset :=
  match find_node (nodes s) p with
  | Some _ => s
  | None => with_nodes s (set_node (nodes s) p new_node)
  end.
Definition insert_peer_pure (p : N) (s : pset) : unit * pset := (tt, insert_node s p).
Definition insert_peer (p : N) : M unit := with_w (pure (insert_peer_pure p)).

Record variant := mkVar { v_report_continue : bool; v_addrep_inline : bool }.
Definition fixed : variant := mkVar true true.
Definition prefix : variant := mkVar false false.

Definition add_rep_node (s : pset) (p : N) (delta : Z) : Z * pset :=
  match find_node (nodes s) p with
  | None => (0, s)     (* unreachable after insertion *)
  | Some n => let r := rep_add (n_rep n) delta in
              (r, with_nodes s (set_node (nodes s) p (mkNode (n_st n) r (n_old n))))
  end.

Definition add_reputation (v : variant) (p : N) (delta : Z) : M Z :=
  with_w (
    s <- get ;;
    (match find_node (nodes s) p with
     | Some _ => ret tt
     | None => if v_addrep_inline v then modify (fun s => insert_node s p)
               else insert_peer p        (* Lock under Lock *)
     end) ;;;
    pure (fun s => add_rep_node s p delta)).

(* highestNotConnectedPeer: `val >= maxRep` keeps the last maximal peer of the iteration *)
Definition not_connected_peers (s : pset) : list (N * node) :=
  filter (fun qn => mstate_eqb (n_st (snd qn)) NotConnected) (nodes s).
Definition max_rep (l : list (N * node)) : Z :=
  fold_right (fun qn acc => Z.max (n_rep (snd qn)) acc) min32 l.
Definition highest_candidates (s : pset) : list N :=
  let l := not_connected_peers s in
  map fst (filter (fun qn => n_rep (snd qn) =? max_rep l) l).
Definition highest_not_connected : M (option N) :=
  with_r (s <- get ;;
          match highest_candidates s with
          | [] => ret None
          | c => p <- choose c ;; ret (Some p)
          end).

Definition has_free_out (s : pset) : bool := (num_out s <? max_out s)%N.
Definition has_free_in (s : pset) : bool := (num_in s <? max_in s)%N.

Definition add_noslot_pure (p : N) (s : pset) : (option err) * pset :=
    if memN p (noslot s) then (None, s) else
    let s := with_noslot s (p :: noslot s) in
    match find_node (nodes s) p with
    | None => (Some ErrPeerDoesNotExist, s)
    | Some n => match n_st n with
                | Ingoing => (None, with_in s (u32_dec (num_in s)))
                | Outgoing => (None, with_out s (u32_dec (num_out s)))
                | _ => (None, s)
                end
    end.
Definition add_noslot (p : N) : M (option err) := with_w (pure (add_noslot_pure p)).

Definition remove_noslot_pure (p : N) (s : pset) : (option err) * pset :=
    if negb (memN p (noslot s)) then (None, s) else
    let s := with_noslot s (removeN p (noslot s)) in
    match find_node (nodes s) p with
    | None => (Some ErrPeerDoesNotExist, s)
    | Some n => match n_st n with
                | Ingoing => (None, with_in s (u32_inc (num_in s)))
                | Outgoing => (None, with_out s (u32_inc (num_out s)))
                | _ => (None, s)
                end
    end.
Definition remove_noslot (p : N) : M (option err) := with_w (pure (remove_noslot_pure p)).

Definition ps_disconnect_pure (p : N) (s : pset) : (option err) * pset :=
    match find_node (nodes s) p with
    | None => (Some ErrPeerDoesNotExist, s)
    | Some n =>
      let fin (s : pset) := (None, with_nodes s (set_node (nodes s) p (mkNode NotConnected (n_rep n) false))) in
      if memN p (noslot s) then fin s else
      match n_st n with
      | Ingoing => fin (with_in s (u32_dec (num_in s)))
      | Outgoing => fin (with_out s (u32_dec (num_out s)))
      | _ => (Some ErrPeerDisconnected, s)
      end
    end.
Definition ps_disconnect (p : N) : M (option err) := with_w (pure (ps_disconnect_pure p)).

(* lastConnectedAndDiscovered, reduced to the comparison updateTime makes with it *)
Definition last_connected_old_pure (p : N) (s : pset) : (option bool) * pset :=
    match find_node (nodes s) p with
    | None => (None, s)
    | Some n => (Some (if mstate_eqb (n_st n) NotConnected then n_old n else false), s)
    end.
Definition last_connected_old (p : N) : M (option bool) := with_r (pure (last_connected_old_pure p)).

Definition forget_peer_pure (p : N) (s : pset) : (option err) * pset :=
    match find_node (nodes s) p with
    | None => (Some ErrPeerDoesNotExist, s)
    | Some n =>
      if negb (n_rep n =? 0)
      then (None, with_nodes s (set_node (nodes s) p (mkNode NotMember (n_rep n) (n_old n))))
      else (None, with_nodes s (del_node (nodes s) p))      (* member of no set: removed *)
    end.
Definition forget_peer (p : N) : M (option err) := with_w (pure (forget_peer_pure p)).

Definition try_outgoing_pure (p : N) (s : pset) : (option err) * pset :=
    let ns := memN p (noslot s) in
    if negb (has_free_out s) && negb ns then (Some ErrOutgoingSlotsUnavailable, s) else
    match find_node (nodes s) p with
    | None => (Some ErrPeerDoesNotExist, s)
    | Some n =>
      let s := with_nodes s (set_node (nodes s) p (mkNode Outgoing (n_rep n) (n_old n))) in
      (None, if ns then s else with_out s (u32_inc (num_out s)))
    end.
Definition try_outgoing (p : N) : M (option err) := with_w (pure (try_outgoing_pure p)).

Definition try_accept_incoming_pure (p : N) (s : pset) : (option err) * pset :=
    let ns := memN p (noslot s) in
    if negb (has_free_in s) && negb ns then (Some ErrIncomingSlotsUnavailable, s) else
    match find_node (nodes s) p with
    | None => (Some ErrPeerDoesNotExist, s)
    | Some n =>
      let s := with_nodes s (set_node (nodes s) p (mkNode Ingoing (n_rep n) (n_old n))) in
      (None, if ns then s else with_in s (u32_inc (num_in s)))
    end.
Definition try_accept_incoming (p : N) : M (option err) := with_w (pure (try_accept_incoming_pure p)).

(* ---------------------------------------------------------------- loops *)
Inductive ctl := Next | Brk | Retn (e : option err).

(* for _, x := range l { body }  with continue / break / return *)
Fixpoint for_each {A} (l : list A) (body : A -> M ctl) : M ctl :=
  match l with
  | [] => ret Next
  | x :: r => c <- body x ;; match c with Next => for_each r body | _ => ret c end
  end.

Fixpoint insert_all {A} (x : A) (l : list A) : list (list A) :=
  match l with
  | [] => [[x]]
  | y :: r => (x :: y :: r) :: map (cons y) (insert_all x r)
  end.
Fixpoint perms {A} (l : list A) : list (list A) :=
  match l with
  | [] => [[]]
  | x :: r => flat_map (insert_all x) (perms r)
  end.

(* ---------------------------------------------------------------- PeerSet *)

(* one elapsed second of updateTime, for one peer *)
Definition tick_peer (p : N) : M ctl :=
  after <- update_reputation_by_tick p ;;
  match after with
  | None => ret (Retn (Some ErrPeerDoesNotExist))
  | Some after =>
    if negb (after =? 0) then ret Next else
    st <- peer_status p ;;
    if negb (pstatus_eqb st SNotConnected) then ret Next else
    o <- last_connected_old p ;;
    match o with
    | None => ret (Retn (Some ErrPeerDoesNotExist))
    | Some false => ret Next
    | Some true =>
      e <- forget_peer p ;;
      match e with Some e => ret (Retn (Some e)) | None => ret Next end
    end
  end.

Fixpoint tick_seconds (k : nat) : M (option err) :=
  match k with
  | O => ret None
  | S k' =>
    ps <- peers ;;
    c <- for_each ps tick_peer ;;
    match c with Retn e => ret e | _ => tick_seconds k' end
  end.

Definition update_time : M (option err) :=
  s <- get ;;
  modify (fun s => with_pending s 0) ;;;
  tick_seconds (N.to_nat (pending s)).

Definition reserved_body (p : N) : M ctl :=
  st <- peer_status p ;;
  match st with
  | SConnected => ret Next
  | _ =>
    (match st with SUnknown => insert_peer p | _ => ret tt end) ;;;
    n <- get_node p ;;
    match n with
    | None => ret (Retn (Some ErrPeerDoesNotExist))
    | Some n =>
      if n_rep n <? banned_threshold then ret Brk else
      e <- try_outgoing p ;;
      match e with
      | Some e => ret (Retn (Some e))
      | None => emit MConnect p ;;; ret Next
      end
    end
  end.

Fixpoint fill_slots (fuel : nat) : M unit :=
  match fuel with
  | O => fun _ => [OutOfFuel]
  | S f =>
    s <- get ;;
    if negb (has_free_out s) then ret tt else
    hp <- highest_not_connected ;;
    match hp with
    | None => ret tt
    | Some p =>
      s <- get ;;
      match find_node (nodes s) p with
      | None => panic
      | Some n =>
        if n_rep n <? banned_threshold then (connected_count ;;; ret tt) else
        e <- try_outgoing p ;;
        match e with
        | Some _ => ret tt
        | None => emit MConnect p ;;; fill_slots f
        end
      end
    end
  end.

(* `for reservePeer := range ps.reservedNode`: Go iterates the map in an unspecified order. Connected
   peers are skipped (`continue`) and the loop stops (`break`) at the first peer that is not
   connected and below the ban threshold, so all that matters of an iteration order is the
   sequence of its not-connected peers up to and including the first such peer: the possible
   orders are enumerated in that reduced form, without duplicates. *)
Definition breaker (s : pset) (p : N) : bool :=
  match find_node (nodes s) p with
  | Some n => negb (is_connected (n_st n)) && (n_rep n <? banned_threshold)
  | None => false
  end.
Fixpoint order_prefix (s : pset) (l : list N) : list N :=
  match l with
  | [] => []
  | p :: r => if breaker s p then [p] else p :: order_prefix s r
  end.
Definition alloc_orders (s : pset) : list (list N) :=
  nodup (list_eq_dec N.eq_dec)
        (map (order_prefix s)
             (perms (filter (fun p => negb (pstatus_eqb (status_of s p) SConnected)) (reserved s)))).

Definition alloc_slots : M (option err) :=
  e <- update_time ;;
  match e with
  | Some e => ret (Some e)
  | None =>
    s <- get ;;
    order <- choose (alloc_orders s) ;;
    c <- for_each order reserved_body ;;
    match c with
    | Retn e => ret e
    | _ =>
      s <- get ;;
      if ronly s then ret None else
      (fill_slots (S (length (nodes s))) ;;; ret None)
    end
  end.

Definition opt_ctl (e : option err) : ctl := match e with Some e => Retn (Some e) | None => Next end.
Definition ctl_err (c : ctl) : option err := match c with Retn e => e | _ => None end.

Definition add_reserved_peers (ps : list N) : M (option err) :=
  c <- for_each ps (fun p =>
    s <- get ;;
    if memN p (reserved s) then ret (Retn None) else
    insert_peer p ;;;
    modify (fun s => with_reserved s (p :: reserved s)) ;;;
    e <- add_noslot p ;;
    match e with
    | Some e => ret (Retn (Some e))
    | None => e <- alloc_slots ;; ret (opt_ctl e)
    end) ;;
  ret (ctl_err c).

Definition remove_reserved_peers (ps : list N) : M (option err) :=
  c <- for_each ps (fun p =>
    s <- get ;;
    if negb (memN p (reserved s)) then ret (Retn None) else
    modify (fun s => with_reserved s (removeN p (reserved s))) ;;;
    e <- remove_noslot p ;;
    match e with
    | Some e => ret (Retn (Some e))
    | None =>
      s <- get ;;
      if negb (ronly s) then ret (Retn None) else
      st <- peer_status p ;;
      match st with
      | SConnected =>
        e <- ps_disconnect p ;;
        match e with
        | Some e => ret (Retn (Some e))
        | None => emit MDrop p ;;; ret Next
        end
      | _ => ret Next
      end
    end) ;;
  ret (ctl_err c).

Definition set_reserved_peer (ps : list N) : M (option err) :=
  s <- get ;;
  let to_insert := filter (fun p => negb (memN p (reserved s))) ps in
  to_remove <- choose (perms (filter (fun p => negb (memN p ps)) (reserved s))) ;;
  e <- add_reserved_peers to_insert ;;
  match e with
  | Some e => ret (Some e)
  | None => remove_reserved_peers to_remove
  end.

Definition add_peer (ps : list N) : M (option err) :=
  c <- for_each ps (fun p =>
    st <- peer_status p ;;
    if negb (pstatus_eqb st SUnknown) then ret (Retn None) else
    insert_peer p ;;;
    e <- alloc_slots ;; ret (opt_ctl e)) ;;
  ret (ctl_err c).

Definition remove_peer (ps : list N) : M (option err) :=
  c <- for_each ps (fun p =>
    s <- get ;;
    if memN p (reserved s) then ret (Retn None) else
    st <- peer_status p ;;
    match st with
    | SConnected =>
      emit MDrop p ;;;
      e <- ps_disconnect p ;;
      match e with
      | Some e => ret (Retn (Some e))
      | None => e <- forget_peer p ;; ret (opt_ctl e)
      end
    | SNotConnected => e <- forget_peer p ;; ret (opt_ctl e)
    | SUnknown => ret Next
    end) ;;
  ret (ctl_err c).

Definition incoming (ps : list N) : M (option err) :=
  e <- update_time ;;
  match e with
  | Some e => ret (Some e)
  | None =>
    c <- for_each ps (fun p =>
      s <- get ;;
      if ronly s && negb (memN p (reserved s)) then (emit MReject p ;;; ret Next) else
      st <- peer_status p ;;
      match st with
      | SConnected => ret Next
      | _ =>
        (match st with
         | SNotConnected =>      (* nodes[pid].lastConnected[setID] = time.Now() *)
           s <- get ;;
           match find_node (nodes s) p with
           | None => panic
           | Some n => modify (fun s => with_nodes s (set_node (nodes s) p (mkNode (n_st n) (n_rep n) false)))
           end
         | _ => insert_peer p
         end) ;;;
        n <- get_node p ;;      (* state.RLock(); node, has := state.nodes[pid] *)
        let rep := match n with Some n => n_rep n | None => 0 end in
        if rep <? banned_threshold then (emit MReject p ;;; ret Next) else
        e <- try_accept_incoming p ;;
        match e with
        | Some _ => emit MReject p ;;; ret Next
        | None => emit MAccept p ;;; ret Next
        end
      end) ;;
    ret (ctl_err c)
  end.

Definition disconnect (refused : bool) (ps : list N) : M (option err) :=
  e <- update_time ;;
  match e with
  | Some e => ret (Some e)
  | None =>
    c <- for_each ps (fun p =>
      st <- peer_status p ;;
      if negb (pstatus_eqb st SConnected) then ret (Retn (Some ErrDisconnectNonConnected)) else
      s <- get ;;
      match find_node (nodes s) p with
      | None => panic
      | Some n =>
        modify (fun s => with_nodes s (set_node (nodes s) p
                           (mkNode (n_st n) (rep_add (n_rep n) disconnect_change) (n_old n)))) ;;;
        e <- ps_disconnect p ;;
        match e with
        | Some e => ret (Retn (Some e))
        | None =>
          emit MDrop p ;;;
          if refused then (e <- remove_peer [p] ;; ret (opt_ctl e)) else ret Next
        end
      end) ;;
    match c with
    | Retn e => ret e
    | _ => alloc_slots
    end
  end.

Definition report_peer (v : variant) (delta : Z) (ps : list N) : M (option err) :=
  e <- update_time ;;
  match e with
  | Some e => ret (Some e)
  | None =>
    c <- for_each ps (fun p =>
      rep <- add_reputation v p delta ;;
      if banned_threshold <=? rep then ret (if v_report_continue v then Next else Retn None) else
      st <- peer_status p ;;
      match st with
      | SConnected =>
        e <- ps_disconnect p ;;
        match e with
        | Some e => ret (Retn (Some e))
        | None => emit MDrop p ;;; e <- alloc_slots ;; ret (opt_ctl e)
        end
      | _ => ret Next
      end) ;;
    ret (ctl_err c)
  end.

(* ---------------------------------------------------------------- operations *)
Inductive op :=
| OAddReserved (ps : list N)
| ORemoveReserved (ps : list N)
| OSetReserved (ps : list N)
| OReport (delta : Z) (ps : list N)
| OAddPeer (ps : list N)
| ORemovePeer (ps : list N)
| OIncoming (ps : list N)
| ODisconnect (refused : bool) (ps : list N)
| OAllocSlots                      (* the periodic ticker *)
| OAge (ps : list N).              (* an hour passes for the lastConnected of these peers *)

Definition age_one (s : pset) (p : N) : pset :=
  match find_node (nodes s) p with
  | None => s
  | Some n => with_nodes s (set_node (nodes s) p (mkNode (n_st n) (n_rep n) true))
  end.
Definition age_peers (ps : list N) : M (option err) :=
  modify (fun s => fold_left age_one ps s) ;;; ret None.

Definition run_op (v : variant) (o : op) : M (option err) :=
  match o with
  | OAddReserved ps => add_reserved_peers ps
  | ORemoveReserved ps => remove_reserved_peers ps
  | OSetReserved ps => set_reserved_peer ps
  | OReport d ps => report_peer v d ps
  | OAddPeer ps => add_peer ps
  | ORemovePeer ps => remove_peer ps
  | OIncoming ps => incoming ps
  | ODisconnect r ps => disconnect r ps
  | OAllocSlots => alloc_slots
  | OAge ps => age_peers ps
  end.

(* one step: [k] seconds have elapsed since the last updateTime; messages start empty *)
Definition step (v : variant) (s : pset) (k : N) (o : op) : list (result (option err)) :=
  run_op v o (with_msgs (with_pending s k) []).
