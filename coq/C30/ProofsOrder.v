(* C30/ProofsOrder.v — the order in which one elapsed second of updateTime visits the peers does
   not matter.  The Go code iterates maps.Keys(ps.nodes) (an unspecified order, different at every
   second); the model visits the peers in the order of its association list.  Here: from an
   unlocked state, one visit [tick_peer p] is a function of the state that touches only the entry
   of p, two visits of different peers commute (as equalities of states), and therefore the loop
   over any permutation of the peers returns exactly what the loop over the model's order returns. *)
From Coq Require Import NArith ZArith List Bool Lia Permutation.
From C30 Require Import Model ProofsLists ProofsWp ProofsPrim.
Import ListNotations.
Local Open Scope Z_scope.

(* ---- a locked primitive with a pure, lock-blind body is a function, from an unlocked state ---- *)
Lemma with_w_pure_eq {A} (f : pset -> A * pset) s :
  lk s = Unlocked -> lk_blind f -> with_w (pure f) s = [Ret (fst (f s)) (snd (f s))].
Proof.
  intros U B. rewrite with_w_unlocked by exact U. unfold bind at 1, pure at 1. rewrite B.
  unfold bind, modify, ret. cbn [fst snd]. rewrite with_lk_twice, <- U, <- (lk_blind_lk f s B), with_lk_same.
  reflexivity.
Qed.
Lemma with_r_pure_eq {A} (f : pset -> A * pset) s :
  lk s = Unlocked -> lk_blind f -> with_r (pure f) s = [Ret (fst (f s)) (snd (f s))].
Proof.
  intros U B. rewrite with_r_unlocked by exact U. unfold bind at 1, pure at 1. rewrite B.
  unfold bind, modify, ret. cbn [fst snd]. rewrite with_lk_twice, <- U, <- (lk_blind_lk f s B), with_lk_same.
  reflexivity.
Qed.

Lemma bind_single {A B} (m : M A) (f : A -> M B) s a s' : m s = [Ret a s'] -> bind m f s = f a s'.
Proof. intros E. unfold bind. now rewrite E. Qed.

(* ---- one visit as a function ---- *)
Definition tick_node (n : node) : option node :=
  let r := rep_tick (n_rep n) in
  if (r =? 0) && mstate_eqb (n_st n) NotConnected && n_old n
  then None                                   (* forgotten: reputation 0 (so the entry is deleted) *)
  else Some (mkNode (n_st n) r (n_old n)).

Definition tick_fun (p : N) (s : pset) : pset :=
  match find_node (nodes s) p with
  | None => s
  | Some n =>
    match tick_node n with
    | Some n' => with_nodes s (set_node (nodes s) p n')
    | None => with_nodes s (del_node (nodes s) p)
    end
  end.

Lemma del_set_same l p n : del_node (set_node l p n) p = del_node l p.
Proof.
  induction l as [|(q & m) l IH]; cbn [set_node del_node filter fst].
  - now rewrite N.eqb_refl.
  - destruct (N.eqb q p) eqn:E; cbn [del_node filter fst]; rewrite E; cbn [negb]; [reflexivity|].
    f_equal. exact IH.
Qed.

Lemma tick_peer_eq p s n :
  lk s = Unlocked -> find_node (nodes s) p = Some n -> tick_peer p s = [Ret Next (tick_fun p s)].
Proof.
  intros U Fd. unfold tick_peer, tick_fun. rewrite Fd.
  rewrite (bind_single _ _ s _ _ (with_w_pure_eq _ s U (blind_tick p))).
  unfold update_reputation_by_tick_pure. rewrite Fd. cbn [fst snd].
  set (r := rep_tick (n_rep n)).
  set (s1 := with_nodes s (set_node (nodes s) p (mkNode (n_st n) r (n_old n)))).
  assert (U1 : lk s1 = Unlocked) by exact U.
  assert (Fd1 : find_node (nodes s1) p = Some (mkNode (n_st n) r (n_old n))) by apply find_set_same.
  unfold tick_node. fold r.
  destruct (r =? 0) eqn:Z0; cbn [negb andb]; [|reflexivity].
  rewrite (bind_single _ _ s1 _ _ (with_r_pure_eq _ s1 U1 (blind_peer_status p))).
  unfold peer_status_pure, status_of. rewrite Fd1. cbn [fst snd n_st].
  destruct (n_st n) eqn:ST; cbn [pstatus_eqb mstate_eqb negb andb]; try reflexivity.
  rewrite (bind_single _ _ s1 _ _ (with_r_pure_eq _ s1 U1 (blind_last_old p))).
  unfold last_connected_old_pure. rewrite Fd1. cbn [fst snd n_st n_old mstate_eqb].
  destruct (n_old n) eqn:OLD; [|reflexivity].
  rewrite (bind_single _ _ s1 _ _ (with_w_pure_eq _ s1 U1 (blind_forget p))).
  unfold forget_peer_pure. rewrite Fd1. cbn [fst snd n_rep].
  rewrite Z0. cbn [negb]. unfold ret. f_equal. f_equal.
  unfold s1. cbn [with_nodes nodes]. rewrite del_set_same. reflexivity.
Qed.

(* ---- frames of one visit ---- *)
Lemma tick_fun_lk p s : lk (tick_fun p s) = lk s.
Proof. unfold tick_fun. destruct (find_node (nodes s) p) as [n|]; [|reflexivity]. destruct (tick_node n); reflexivity. Qed.

Lemma tick_fun_find p s q : q <> p -> find_node (nodes (tick_fun p s)) q = find_node (nodes s) q.
Proof.
  intros Hq. apply N.eqb_neq in Hq. unfold tick_fun. destruct (find_node (nodes s) p) as [n|]; [|reflexivity].
  destruct (tick_node n); cbn [with_nodes nodes]; [rewrite find_set|rewrite find_del]; now rewrite Hq.
Qed.

Lemma tick_fun_find_same p s :
  find_node (nodes (tick_fun p s)) p = match find_node (nodes s) p with Some n => tick_node n | None => None end.
Proof.
  unfold tick_fun. destruct (find_node (nodes s) p) as [n|] eqn:Fd; [|exact Fd].
  destruct (tick_node n); cbn [with_nodes nodes]; [apply find_set_same|]. rewrite find_del. now rewrite N.eqb_refl.
Qed.

(* ---- updates of different keys commute on association lists ---- *)
Lemma set_set_comm l p q a b : p <> q -> find_node l p <> None -> find_node l q <> None ->
  set_node (set_node l p a) q b = set_node (set_node l q b) p a.
Proof.
  intros Hpq. induction l as [|(k & m) l IH]; cbn [find_node]; intros Hp Hq; [contradiction|].
  cbn [set_node]. destruct (N.eqb k p) eqn:Ep, (N.eqb k q) eqn:Eq.
  - apply N.eqb_eq in Ep, Eq. congruence.
  - cbn [set_node]. rewrite Eq, Ep. reflexivity.
  - cbn [set_node]. rewrite Ep, Eq. reflexivity.
  - cbn [set_node]. rewrite Ep, Eq. f_equal. apply IH; assumption.
Qed.
Lemma del_set_comm l p q a : p <> q -> find_node l p <> None ->
  del_node (set_node l p a) q = set_node (del_node l q) p a.
Proof.
  intros Hpq. induction l as [|(k & m) l IH]; cbn [find_node]; intros Hp; [contradiction|].
  cbn [set_node]. destruct (N.eqb k p) eqn:Ep.
  - apply N.eqb_eq in Ep. subst k. cbn [del_node filter fst].
    assert (N.eqb p q = false) as -> by now apply N.eqb_neq. cbn [negb set_node]. now rewrite N.eqb_refl.
  - cbn [del_node filter fst]. destruct (N.eqb k q) eqn:Eq; cbn [negb].
    + apply IH. exact Hp.
    + cbn [set_node]. rewrite Ep. f_equal. apply IH. exact Hp.
Qed.
Lemma del_del_comm l p q : del_node (del_node l p) q = del_node (del_node l q) p.
Proof.
  unfold del_node. induction l as [|(k & m) l IH]; cbn [filter fst]; [reflexivity|].
  destruct (N.eqb k p) eqn:Ep, (N.eqb k q) eqn:Eq; cbn [negb filter fst]; rewrite ?Ep, ?Eq; cbn [negb]; rewrite ?IH; reflexivity.
Qed.

Lemma with_nodes_nodes s l l' : with_nodes (with_nodes s l) l' = with_nodes s l'.
Proof. destruct s; reflexivity. Qed.

Lemma tick_fun_comm p q s : p <> q -> find_node (nodes s) p <> None -> find_node (nodes s) q <> None ->
  tick_fun p (tick_fun q s) = tick_fun q (tick_fun p s).
Proof.
  intros Hpq Hp Hq. assert (Hqp : q <> p) by congruence.
  unfold tick_fun at 1 3. rewrite (tick_fun_find q s p Hpq), (tick_fun_find p s q Hqp).
  destruct (find_node (nodes s) p) as [n|] eqn:Fp; [|contradiction].
  destruct (find_node (nodes s) q) as [m|] eqn:Fq; [|contradiction].
  unfold tick_fun. rewrite Fp, Fq.
  destruct (tick_node n) as [n'|], (tick_node m) as [m'|]; cbn [with_nodes nodes]; rewrite !with_nodes_nodes; f_equal.
  - apply set_set_comm; [congruence|rewrite Fq; discriminate|rewrite Fp; discriminate].
  - symmetry. apply del_set_comm; [exact Hpq|rewrite Fp; discriminate].
  - apply del_set_comm; [exact Hqp|rewrite Fq; discriminate].
  - apply del_del_comm.
Qed.

(* ---- the loop of one second ---- *)
Definition tick_all (l : list N) (s : pset) : pset := fold_left (fun s p => tick_fun p s) l s.

Definition present (l : list N) (s : pset) : Prop := forall p, In p l -> find_node (nodes s) p <> None.

Lemma present_tick p l s : ~ In p l -> present l s -> present l (tick_fun p s).
Proof. intros NI P q Hq. rewrite tick_fun_find; [now apply P|]. intros ->. contradiction. Qed.

Lemma for_each_tick_eq : forall l s,
  lk s = Unlocked -> NoDup l -> present l s -> for_each l tick_peer s = [Ret Next (tick_all l s)].
Proof.
  induction l as [|p l IH]; intros s U ND P; cbn [for_each tick_all fold_left]; [reflexivity|].
  destruct (find_node (nodes s) p) as [n|] eqn:Fd; [|exfalso; apply (P p); [now left|exact Fd]].
  rewrite (bind_single _ _ s _ _ (tick_peer_eq p s n U Fd)). inversion ND as [|? ? NI ND']; subst.
  apply IH; [now rewrite tick_fun_lk|exact ND'|]. apply present_tick; [exact NI|]. intros q Hq. apply P. now right.
Qed.

Lemma tick_all_perm l1 l2 : Permutation l1 l2 -> forall s, NoDup l1 -> present l1 s -> tick_all l1 s = tick_all l2 s.
Proof.
  induction 1 as [|x l l' HP IH|x y l|l l' l'' HP1 IH1 HP2 IH2]; intros s ND P; unfold tick_all in *; cbn [fold_left].
  - reflexivity.
  - inversion ND as [|? ? NI ND']; subst. apply IH; [exact ND'|].
    apply present_tick; [exact NI|]. intros q Hq. apply P. now right.
  - inversion ND as [|? ? NI ND']; subst. inversion ND' as [|? ? NI' ND'']; subst.
    f_equal. apply tick_fun_comm.
    + intros ->. apply NI. now left.
    + apply P. right. now left.
    + apply P. now left.
  - rewrite (IH1 s ND P). apply IH2.
    + eapply Permutation_NoDup; eassumption.
    + intros p Hp. apply P. eapply Permutation_in; [apply Permutation_sym; exact HP1|exact Hp].
Qed.

(* any order of visiting the known peers gives the result of the model's order *)
Theorem decay_order_irrelevant s l1 l2 :
  lk s = Unlocked -> NoDup l1 -> present l1 s -> Permutation l1 l2 ->
  for_each l1 tick_peer s = for_each l2 tick_peer s.
Proof.
  intros U ND P HP. rewrite (for_each_tick_eq l1 s U ND P).
  rewrite (for_each_tick_eq l2 s U).
  - now rewrite (tick_all_perm l1 l2 HP s ND P).
  - eapply Permutation_NoDup; eassumption.
  - intros p Hp. apply P. eapply Permutation_in; [apply Permutation_sym; exact HP|exact Hp].
Qed.

(* in particular for the peers of the state itself, as updateTime reads them *)
Corollary decay_order_irrelevant_peers s l :
  lk s = Unlocked -> NoDup (map fst (nodes s)) -> Permutation (map fst (nodes s)) l ->
  for_each l tick_peer s = for_each (map fst (nodes s)) tick_peer s.
Proof.
  intros U ND HP. symmetry. apply decay_order_irrelevant; auto.
  intros p Hp. fold (keys (nodes s)) in Hp. intros E. apply find_node_none in E. contradiction.
Qed.
