(* C14/ModelScale.v — the SCALE codec as the Polkadot specification defines it, as a
   type-directed reference encoder / strict decoder over a small universe of wire types;
   definitions only.  This is the *independent reference* of property C14: it is written from
   the specification (fixed-width little-endian integers, compact integers, Vec = compact
   length + items, Option = 0x00 | 0x01 item, enum = index byte + payload, struct =
   concatenation) and shares nothing with pkg/scale. *)
From Coq Require Import String.
From Common Require Import Bytes.
Local Open Scope N_scope.

(* names (of struct fields and enum variants) are byte strings; they never reach the wire *)
Definition name := list byte.
Definition nm (s : string) : name := list_byte_of_string s.

Inductive ty :=
| TUint (k : nat)                      (* k-byte little-endian unsigned integer *)
| TCompact                             (* Compact<u32> *)
| TFixed (n : nat)                     (* [u8; n] *)
| TBytes                               (* Vec<u8> *)
| TVec (t : ty)                        (* Vec<T> *)
| TOpt (t : ty)                        (* Option<T> *)
| TStruct (fs : list (name * ty))      (* tuple / struct *)
| TEnum (vs : list (N * (name * ty))). (* enum: index byte, payload *)

Inductive val :=
| VN (n : N)
| VB (b : list byte)
| VL (l : list val)
| VO (o : option val)
| VS (fs : list val)
| VE (idx : N) (v : val).

(* ---- compact integers below 2^32 ---- *)
Definition compact (n : N) : list byte :=
  if n <? 64 then le_bytes 1 (4 * n)
  else if n <? 16384 then le_bytes 2 (4 * n + 1)
  else if n <? 1073741824 then le_bytes 4 (4 * n + 2)
  else n2b 3 :: le_bytes 4 n.

(* strict: the shortest form only *)
Definition decode_compact (bs : list byte) : option (N * list byte) :=
  match bs with
  | [] => None
  | b :: r =>
    let m := N.land (b2n b) 3 in
    if m =? 0 then Some (N.shiftr (b2n b) 2, r)
    else if m =? 1 then
      if (length bs <? 2)%nat then None
      else let n := N.shiftr (le_val (firstn 2 bs)) 2 in
           if n <? 64 then None else Some (n, skipn 2 bs)
    else if m =? 2 then
      if (length bs <? 4)%nat then None
      else let n := N.shiftr (le_val (firstn 4 bs)) 2 in
           if n <? 16384 then None else Some (n, skipn 4 bs)
    else
      if negb (b2n b =? 3) then None
      else if (length r <? 4)%nat then None
      else let n := le_val (firstn 4 r) in
           if n <? 1073741824 then None else Some (n, skipn 4 r)
  end.

Definition lenN {A} (l : list A) : N := N.of_nat (length l).

Fixpoint lookup {A} (i : N) (vs : list (N * A)) : option A :=
  match vs with
  | [] => None
  | (j, a) :: vs' => if i =? j then Some a else lookup i vs'
  end.

(* ---- the reference encoder ---- *)
Fixpoint encode (t : ty) (v : val) {struct v} : list byte :=
  match t, v with
  | TUint k, VN n => le_bytes k n
  | TCompact, VN n => compact n
  | TFixed _, VB b => b
  | TBytes, VB b => compact (lenN b) ++ b
  | TVec t', VL l => compact (lenN l) ++ flat_map (encode t') l
  | TOpt _, VO None => [n2b 0]
  | TOpt t', VO (Some x) => n2b 1 :: encode t' x
  | TStruct fs, VS vs =>
    (fix go (fs : list (name * ty)) (vs : list val) {struct vs} : list byte :=
       match fs, vs with
       | (_, t') :: fs', x :: vs' => encode t' x ++ go fs' vs'
       | _, _ => []
       end) fs vs
  | TEnum cs, VE i x =>
    match lookup i cs with
    | Some (_, t') => n2b i :: encode t' x
    | None => []
    end
  | _, _ => []
  end.

(* ---- typing: which values a wire type has (with the integer ranges) ---- *)
Fixpoint has_type (t : ty) (v : val) {struct v} : bool :=
  match t, v with
  | TUint k, VN n => n <? 256 ^ N.of_nat k
  | TCompact, VN n => n <? 4294967296
  | TFixed k, VB b => (length b =? k)%nat
  | TBytes, VB b => lenN b <? 4294967296
  | TVec t', VL l => (lenN l <? 4294967296) && forallb (has_type t') l
  | TOpt _, VO None => true
  | TOpt t', VO (Some x) => has_type t' x
  | TStruct fs, VS vs =>
    (fix go (fs : list (name * ty)) (vs : list val) {struct vs} : bool :=
       match fs, vs with
       | [], [] => true
       | (_, t') :: fs', x :: vs' => has_type t' x && go fs' vs'
       | _, _ => false
       end) fs vs
  | TEnum cs, VE i x =>
    match lookup i cs with
    | Some (_, t') => has_type t' x
    | None => false
    end
  | _, _ => false
  end.

(* ---- well-formed wire types: enum indices fit a byte; Vec items occupy at least one byte
   (so that a length prefix can be checked against the remaining input) ---- *)
Fixpoint nonzero (t : ty) : bool :=
  match t with
  | TUint k => (0 <? k)%nat
  | TCompact => true
  | TFixed n => (0 <? n)%nat
  | TBytes => true
  | TVec _ => true
  | TOpt _ => true
  | TStruct fs => (fix go (fs : list (name * ty)) : bool :=
                     match fs with [] => false | (_, t') :: fs' => nonzero t' || go fs' end) fs
  | TEnum _ => true
  end.

Fixpoint wf_ty (t : ty) : bool :=
  match t with
  | TUint _ | TCompact | TFixed _ | TBytes => true
  | TVec t' => nonzero t' && wf_ty t'
  | TOpt t' => wf_ty t'
  | TStruct fs => (fix go (fs : list (name * ty)) : bool :=
                     match fs with [] => true | (_, t') :: fs' => wf_ty t' && go fs' end) fs
  | TEnum cs => (fix go (cs : list (N * (name * ty))) : bool :=
                   match cs with [] => true | (i, (_, t')) :: cs' => (i <? 256) && wf_ty t' && go cs' end) cs
  end.

(* ---- the strict decoder ---- *)
Definition take (n : nat) (bs : list byte) : option (list byte * list byte) :=
  if (length bs <? n)%nat then None else Some (firstn n bs, skipn n bs).

Fixpoint decode (t : ty) (bs : list byte) {struct t} : option (val * list byte) :=
  match t with
  | TUint k =>
    match take k bs with Some (h, r) => Some (VN (le_val h), r) | None => None end
  | TCompact =>
    match decode_compact bs with Some (n, r) => Some (VN n, r) | None => None end
  | TFixed n =>
    match take n bs with Some (h, r) => Some (VB h, r) | None => None end
  | TBytes =>
    match decode_compact bs with
    | Some (n, r) => if lenN r <? n then None
                     else match take (N.to_nat n) r with Some (h, r') => Some (VB h, r') | None => None end
    | None => None
    end
  | TVec t' =>
    match decode_compact bs with
    | Some (n, r) =>
      if lenN r <? n then None
      else
        match (fix loop (k : nat) (r : list byte) {struct k} : option (list val * list byte) :=
                 match k with
                 | O => Some ([], r)
                 | S k' =>
                   match decode t' r with
                   | Some (x, r') =>
                     match loop k' r' with
                     | Some (xs, r'') => Some (x :: xs, r'')
                     | None => None
                     end
                   | None => None
                   end
                 end) (N.to_nat n) r with
        | Some (xs, r') => Some (VL xs, r')
        | None => None
        end
    | None => None
    end
  | TOpt t' =>
    match bs with
    | [] => None
    | b :: r =>
      if b2n b =? 0 then Some (VO None, r)
      else if b2n b =? 1 then
        match decode t' r with Some (x, r') => Some (VO (Some x), r') | None => None end
      else None
    end
  | TStruct fs =>
    match (fix go (fs : list (name * ty)) (bs : list byte) {struct fs} : option (list val * list byte) :=
             match fs with
             | [] => Some ([], bs)
             | (_, t') :: fs' =>
               match decode t' bs with
               | Some (x, r) =>
                 match go fs' r with
                 | Some (xs, r') => Some (x :: xs, r')
                 | None => None
                 end
               | None => None
               end
             end) fs bs with
    | Some (xs, r) => Some (VS xs, r)
    | None => None
    end
  | TEnum cs =>
    match bs with
    | [] => None
    | b :: r =>
      (fix find (cs : list (N * (name * ty))) : option (val * list byte) :=
         match cs with
         | [] => None
         | (i, (_, t')) :: cs' =>
           if b2n b =? i then
             match decode t' r with Some (x, r') => Some (VE i x, r') | None => None end
           else find cs'
         end) cs
    end
  end.

(* decoding of a complete message: all input must be consumed *)
Definition decode_all (t : ty) (bs : list byte) : option val :=
  match decode t bs with Some (v, []) => Some v | _ => None end.
