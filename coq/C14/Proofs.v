(* C14/Proofs.v — the registry of wire types: every schema is well formed, so the codec
   theorems apply to each of them; the pinned tree's header schema misses a variant. *)
From Common Require Import Bytes Blake2b.
From C14 Require Export ModelScale ModelTypes ModelHeader ModelProto
  ProofsCompact ProofsScale ProofsHeader ProofsProto.
Local Open Scope N_scope.

Lemma registry_wf : forallb (fun p => wf_ty (snd p)) registry = true.
Proof. vm_compute. reflexivity. Qed.

Lemma registry_wf_in n t : In (n, t) registry -> wf_ty t = true.
Proof.
  intro H. pose proof registry_wf as W. rewrite forallb_forall in W. exact (W (n, t) H).
Qed.

Lemma registry_roundtrip n t : In (n, t) registry ->
  forall v, has_type t v = true -> decode_all t (encode t v) = Some v.
Proof. intros H v Hv. apply decode_all_encode; [exact (registry_wf_in n t H) | exact Hv]. Qed.

Lemma registry_roundtrip_stream n t : In (n, t) registry ->
  forall v rest, has_type t v = true -> decode t (encode t v ++ rest) = Some (v, rest).
Proof. intros H v rest Hv. apply decode_encode; [exact (registry_wf_in n t H) | exact Hv]. Qed.

Lemma registry_canonical n t : In (n, t) registry ->
  forall bs v, decode_all t bs = Some v -> bs = encode t v /\ has_type t v = true.
Proof. intros _ bs v. apply decode_all_canonical. Qed.

Lemma registry_injective n t : In (n, t) registry ->
  forall v w, has_type t v = true -> has_type t w = true -> encode t v = encode t w -> v = w.
Proof. intros H v w. apply encode_injective. exact (registry_wf_in n t H). Qed.

Lemma type_of_name_in n t : type_of_name n = Some t -> exists m, In (m, t) registry.
Proof.
  unfold type_of_name. generalize registry. induction l as [|[m u] l IH]; [discriminate|].
  cbn [find_type]. destruct (bytes_eqb n m).
  - intro E; injection E as ->. exists m. now left.
  - intro E. destruct (IH E) as [k Hk]. exists k. now right.
Qed.

(* a header carrying an `Other` digest item: a value of the specified header type whose
   encoding the pinned tree's DigestItem (no variant 0) cannot decode *)
Definition other_header : val :=
  VS [VB (zeros 32); VN 1; VB (zeros 32); VB (zeros 32); VL [VE 0 (VB [n2b 1; n2b 2; n2b 3])]].

Lemma other_header_prefix :
  has_type header other_header = true /\
  decode_all header (encode header other_header) = Some other_header /\
  decode_all header_prefix (encode header other_header) = None.
Proof. repeat split; vm_compute; reflexivity. Qed.

(* on values without an `Other` item the two schemas encode alike: shown on the level of the
   digest item type *)
Lemma digest_item_prefix_agrees i x :
  i <> 0 -> encode digest_item_prefix (VE i x) = encode digest_item (VE i x)
            /\ has_type digest_item_prefix (VE i x) = has_type digest_item (VE i x).
Proof.
  intro H. unfold digest_item, digest_item_prefix. cbn [encode has_type lookup].
  destruct (N.eqb_spec i 0); [congruence|]. split; reflexivity.
Qed.
