From C14 Require Import ModelScale ProofsCompact ProofsScale.
