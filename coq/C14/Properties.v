From C14 Require Import ModelScale Proofs.
