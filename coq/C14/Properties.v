(* C14/Properties.v — property C14: chain data structures encode as the specification defines.
   Only statements, each closed by `exact <lemma>`, with Print Assumptions beneath.

   The independent reference encoder is ModelScale.encode at the schemas of ModelTypes.v
   (written from the specification; [registry] lists them: Header, Digest, Body, BABE
   pre-digests, BABE and GRANDPA consensus digests, GRANDPA vote / signed vote / commit /
   justification / voters / equivocation proof / vote payload, the GRANDPA gossip messages,
   the primitives' authority list / scheduled change / commit / localized payload / vote
   message / signed message / generic header / justification with vote ancestries), the proto3
   model of ModelProto.v for block requests and responses, BLAKE2b-256 of Common.Blake2b for the
   header hash.  That the Go code computes these functions is the correspondence check. *)
From Common Require Import Bytes Outcome Blake2b.
From Coq Require Import Permutation.
From C14 Require Import Proofs ProofsPrim ProofsOrder ProofsWire.
Local Open Scope N_scope.

(* Every value of every wire type round-trips through its encoding (all values, all sizes) ... *)
Theorem C14_roundtrip : forall n t, In (n, t) registry ->
  forall v, has_type t v = true -> decode_all t (encode t v) = Some v.
Proof. exact registry_roundtrip. Qed.
Print Assumptions C14_roundtrip.

(* ... also as a prefix of a longer stream (a digest inside a header, a header inside a block) *)
Theorem C14_roundtrip_stream : forall n t, In (n, t) registry ->
  forall v rest, has_type t v = true -> decode t (encode t v ++ rest) = Some (v, rest).
Proof. exact registry_roundtrip_stream. Qed.
Print Assumptions C14_roundtrip_stream.

(* Canonical form: the reference decoder accepts exactly the reference encodings — a byte string
   has at most one reading and it is the encoding of that reading (shortest compact integers,
   0/1 option tags, known enum indices, no trailing bytes). *)
Theorem C14_canonical : forall n t, In (n, t) registry ->
  forall bs v, decode_all t bs = Some v -> bs = encode t v /\ has_type t v = true.
Proof. exact registry_canonical. Qed.
Print Assumptions C14_canonical.

(* Distinct values have distinct encodings. *)
Theorem C14_injective : forall n t, In (n, t) registry ->
  forall v w, has_type t v = true -> has_type t w = true -> encode t v = encode t w -> v = w.
Proof. exact registry_injective. Qed.
Print Assumptions C14_injective.

(* Spelled out for block headers (any digest: pre-runtime, consensus, seal, other,
   runtime-environment-updated items in any number and order) and block bodies. *)
Theorem C14_header_roundtrip : forall v, has_type header v = true ->
  decode_all header (encode header v) = Some v
  /\ (forall bs w, decode_all header bs = Some w -> bs = encode header w /\ has_type header w = true).
Proof.
  intros v Hv. split.
  - exact (registry_roundtrip _ header (or_introl eq_refl) v Hv).
  - exact (registry_canonical _ header (or_introl eq_refl)).
Qed.
Print Assumptions C14_header_roundtrip.

Theorem C14_body_roundtrip : forall exts, has_type body (VL (map VB exts)) = true ->
  decode_all body (encode body (VL (map VB exts))) = Some (VL (map VB exts)).
Proof.
  intros exts H. exact (registry_roundtrip _ body (or_intror (or_intror (or_introl eq_refl))) _ H).
Qed.
Print Assumptions C14_body_roundtrip.

(* The codec theorems for an arbitrary well-formed wire type (the registry is an instance). *)
Theorem C14_codec_roundtrip : forall t, wf_ty t = true -> forall v r, has_type t v = true ->
  decode t (encode t v ++ r) = Some (v, r).
Proof. exact decode_encode. Qed.
Print Assumptions C14_codec_roundtrip.

Theorem C14_codec_canonical : forall t bs v r, decode t bs = Some (v, r) ->
  bs = encode t v ++ r /\ has_type t v = true.
Proof. exact decode_canonical. Qed.
Print Assumptions C14_codec_canonical.

(* A header's hash is BLAKE2b-256 of its encoding: for a header that has not been hashed before
   (new, or just decoded), and more generally whenever the cached hash is not stale; asking
   again gives the same answer. *)
Theorem C14_header_hash : forall v,
  fst (header_hash (fresh v)) = blake2b_256 (encode header v).
Proof. exact header_hash_fresh. Qed.
Print Assumptions C14_header_hash.

Theorem C14_header_hash_partial : forall h, stale h = false ->
  fst (header_hash h) = blake2b_256 (encode header (hval h))
  /\ fst (header_hash (snd (header_hash h))) = fst (header_hash h)
  /\ stale (snd (header_hash h)) = false.
Proof.
  intros h H. split; [exact (header_hash_not_stale h H)|].
  split; [exact (header_hash_again h) | exact (header_hash_keeps_fresh h H)].
Qed.
Print Assumptions C14_header_hash_partial.

(* A header decoded from the wire hashes to BLAKE2b-256 of exactly the bytes received (the
   decoder accepts canonical encodings only, and the hash is that of the re-encoding). *)
Theorem C14_header_hash_decoded : forall bs v, decode_all header bs = Some v ->
  fst (header_hash (fresh v)) = blake2b_256 bs.
Proof. exact header_hash_decoded. Qed.
Print Assumptions C14_header_hash_decoded.

(* full statement, violated by the code (finding header-hash-stale-cache):
     forall h, fst (header_hash h) = blake2b_256 (encode header (hval h)).
   Header.Hash() caches its result in the header and assignments to the exported fields do not
   reset the cache: *)
Theorem C14_header_hash_stale_refuted :
  exists v v', has_type header v = true /\ has_type header v' = true /\
    let h := set_fields (snd (header_hash (fresh v))) v' in
    stale h = true /\ fst (header_hash h) <> blake2b_256 (encode header (hval h)).
Proof.
  exists (witness_v 1), (witness_v 2).
  destruct stale_witness as (A & B & C & D). repeat split; assumption.
Qed.
Print Assumptions C14_header_hash_stale_refuted.

(* The DigestItem of the pinned tree had no `Other` variant (index 0): a header of the specified
   type carrying one could not be decoded (fix: fixes/C14-digest-other-variant.patch; the model
   [header] mirrors the repaired type, [header_prefix] the old one). *)
Theorem C14_other_digest_prefix_refuted :
  exists v, has_type header v = true
         /\ decode_all header (encode header v) = Some v
         /\ decode_all header_prefix (encode header v) = None.
Proof. exists other_header. exact other_header_prefix. Qed.
Print Assumptions C14_other_digest_prefix_refuted.

(* Block requests round-trip through the protobuf encoding, in the field order protobuf-go emits
   and in field-number order (field order is not significant on the wire). *)
Theorem C14_request_roundtrip : forall r, request_ok r = true ->
  decode_request (encode_request r) = Ok r /\ decode_request (encode_request_sorted r) = Ok r.
Proof. exact request_roundtrip. Qed.
Print Assumptions C14_request_roundtrip.

(* ... and in any other order of the fields: proto3 parsers must accept every order, and
   implementations differ in the order they emit. *)
Theorem C14_request_any_order : forall r fs, request_ok r = true ->
  Permutation (req_fields r) fs -> decode_request (enc_fields fs) = Ok r.
Proof. exact request_any_order. Qed.
Print Assumptions C14_request_any_order.

(* ... and from ANY byte string the protobuf parser accepts ([parse]: varint, length-delimited,
   64-bit and 32-bit fields; unknown field numbers and known numbers with another wire type are
   kept and then skipped by the accessors) whose occurrences of the fields 1, 5, 6 and of the
   oneof members 2/3 are, per field, those of the request: other field orders, unknown fields of
   any wire type anywhere, non-minimal varints.  (Groups, wire types 3/4, are refused by [parse].) *)
Theorem C14_request_any_wire : forall r bs fs, request_ok r = true ->
  parse bs = Some fs -> req_equiv fs (req_fields r) -> decode_request bs = Ok r.
Proof. exact request_any_wire. Qed.
Print Assumptions C14_request_any_wire.

(* Block responses round-trip up to what proto3 can express: an empty body / receipt / message
   queue arrives as an absent one (normalise); hash, header, extrinsics, justification —
   including the empty justification — arrive unchanged. *)
Theorem C14_response_roundtrip : forall ds, forallb block_data_ok ds = true ->
  decode_response (encode_response ds) = Ok (map normalise ds).
Proof. exact response_roundtrip. Qed.
Print Assumptions C14_response_roundtrip.

(* The same for responses: the blocks (field 1) in their order, each block data message in any
   accepted encoding that keeps, per field number 1..6 (bytes) and 7 (varint), the occurrences of
   the canonical encoding (in particular the body items, field 3, in their order); unknown
   fields anywhere at both levels. *)
Theorem C14_block_data_any_wire : forall d m fs, block_data_ok d = true ->
  parse m = Some fs -> bd_equiv fs (bd_fields d) -> decode_block_data m = Ok (normalise d).
Proof. exact block_data_any_wire. Qed.
Print Assumptions C14_block_data_any_wire.

Theorem C14_response_any_wire : forall bs fs ds,
  parse bs = Some fs -> blocks_of (all_bytes 1 fs) ds -> decode_response bs = Ok (map normalise ds).
Proof. exact response_any_wire. Qed.
Print Assumptions C14_response_any_wire.

(* The primitives' generic header (internal/primitives/runtime/generic.Header, used for the
   vote ancestries of GrandpaJustification): pkg/scale encodes its digest items without their
   variant index ([encode_untagged], finding generic-header-digest-untagged).  On headers
   without digest items that is the reference encoding, and the hash is BLAKE2b-256 of it; the
   same for a justification none of whose headers carries a digest item. *)
Theorem C14_generic_header_partial : forall v,
  has_type prim_header v = true -> has_digest_items v = false ->
  encode_untagged v = encode prim_header v /\ prim_header_hash v = blake2b_256 (encode prim_header v).
Proof. intros v Ht Hd. split; [exact (untagged_no_items v Ht Hd) | exact (prim_hash_no_items v Ht Hd)]. Qed.
Print Assumptions C14_generic_header_partial.

Theorem C14_generic_justification_partial : forall v,
  has_type prim_justification v = true -> just_has_digest_items v = false ->
  encode_just_untagged v = encode prim_justification v.
Proof. exact just_untagged_no_items. Qed.
Print Assumptions C14_generic_justification_partial.

(* full statement, violated by the code: forall v, has_type prim_header v = true ->
     encode_untagged v = encode prim_header v.
   Witness: the digest [Other 0x09]; the bytes the code produces are not even decodable as a
   header. *)
Theorem C14_generic_header_digest_refuted :
  exists v, has_type prim_header v = true /\ has_digest_items v = true
         /\ decode_all prim_header (encode prim_header v) = Some v
         /\ encode_untagged v <> encode prim_header v
         /\ decode_all prim_header (encode_untagged v) = None.
Proof. exists untagged_witness. exact untagged_witness_spec. Qed.
Print Assumptions C14_generic_header_digest_refuted.

(* Decoding what the network sends (the reference encoding) into the generic header / into the
   primitives' justification (client DecodeJustification): the value comes back when no header
   carries a digest item; the decoder crashes exactly on the encodings of values inside the
   finding's guard (and there is such a value). *)
Theorem C14_generic_decode_partial : forall v,
  (has_type prim_header v = true -> has_digest_items v = false ->
     decode_generic_header (encode prim_header v) = Ok v) /\
  (has_type prim_justification v = true -> just_has_digest_items v = false ->
     decode_generic_just (encode prim_justification v) = Ok v).
Proof. intro v. split; [exact (decode_generic_header_ok v) | exact (decode_generic_just_ok v)]. Qed.
Print Assumptions C14_generic_decode_partial.

Theorem C14_generic_decode_crash_iff_guard : forall bs,
  (decode_generic_header bs = Panic <->
     exists v, decode_all prim_header bs = Some v /\ has_digest_items v = true) /\
  (decode_generic_just bs = Panic <->
     exists v, decode_all prim_justification bs = Some v /\ just_has_digest_items v = true).
Proof. intro bs. split; [exact (decode_generic_header_panic bs) | exact (decode_generic_just_panic bs)]. Qed.
Print Assumptions C14_generic_decode_crash_iff_guard.

Theorem C14_generic_decode_refuted :
  exists v, has_type prim_header v = true /\ decode_generic_header (encode prim_header v) = Panic.
Proof. exists untagged_witness. split; [exact (proj1 untagged_witness_spec) | exact decode_generic_witness]. Qed.
Print Assumptions C14_generic_decode_refuted.

(* ---- non-vacuity ---- *)
(* the Polkadot genesis header: its reference encoding hashes to the chain's genesis hash
   0x91b171bb158e2d3848fa23a9f1c25182fb8e20313b2c1eb49219da7a70ce90c3 *)
Definition hexb (l : list N) : list byte := map n2b l.
Example C14_polkadot_genesis_hash :
  let state_root := hexb [41;208;217;114;205;39;203;197;17;233;88;159;203;122;69;6;
                          213;235;106;158;141;242;5;240;4;114;229;171;53;74;78;23] in
  let ext_root := hexb [3;23;10;46;117;151;183;183;227;216;76;5;57;29;19;154;
                        98;177;87;231;135;134;216;192;130;242;157;207;76;17;19;20] in
  let v := VS [VB (zeros 32); VN 0; VB state_root; VB ext_root; VL []] in
  has_type header v = true /\
  map b2n (fst (header_hash (fresh v))) =
    [145;177;113;187;21;142;45;56;72;250;35;169;241;194;81;130;
     251;142;32;49;59;44;30;180;146;25;218;122;112;206;144;195].
Proof. vm_compute. split; reflexivity. Qed.

(* a header with one digest item of each kind round-trips; its encoding starts with the parent
   hash and carries the five variant indices *)
Example C14_header_all_digest_kinds :
  let pay := VS [VB (hexb [66;65;66;69]); VB (hexb [1;2])] in
  let v := VS [VB (zeros 32); VN 16384; VB (zeros 32); VB (zeros 32);
               VL [VE 6 pay; VE 4 pay; VE 0 (VB (hexb [9])); VE 8 (VS []); VE 5 pay]] in
  has_type header v = true /\ decode_all header (encode header v) = Some v /\
  map b2n (skipn 32 (firstn 36 (encode header v))) = [2;0;1;0] /\
  length (encode header v) = (32 + 4 + 32 + 32 + 1 + 3 * (1 + 4 + 1 + 2) + (1 + 1 + 1) + 1)%nat.
Proof. vm_compute. repeat split; reflexivity. Qed.

Example C14_request_nonvacuous :
  let r := mk_req 19 (FromNumber 1000) 1 (Some 128) in
  request_ok r = true /\
  map b2n (encode_request_sorted r) = [8;128;128;128;152;1; 26;4;232;3;0;0; 40;1; 48;128;1].
Proof. vm_compute. split; reflexivity. Qed.

Example C14_response_nonvacuous :
  let d := mk_bd (zeros 32) None (Some [hexb [1;2;3]]) (Some []) None (Some []) in
  block_data_ok d = true /\ normalise d <> d /\
  decode_response (encode_response [d]) = Ok [normalise d].
Proof. vm_compute. repeat split; try reflexivity. discriminate. Qed.

(* the primitives' vote message / signed message and a justification with one ancestry header *)
Example C14_prim_types_nonvacuous :
  let tgt := VS [VB (zeros 32); VN 7] in
  let sm := VS [VE 1 tgt; VB (zeros 64); VB (zeros 32)] in
  let hd := VS [VB (zeros 32); VN 6; VB (zeros 32); VB (zeros 32); VL []] in
  let j := VS [VN 3; VS [VB (zeros 32); VN 7; VL [VS [tgt; VB (zeros 64); VB (zeros 32)]]]; VL [hd]] in
  (exists n, In (n, prim_signed_message) registry) /\
  (exists n, In (n, prim_justification) registry) /\
  has_type prim_signed_message sm = true /\
  map b2n (firstn 2 (encode prim_signed_message sm)) = [1; 0] /\
  decode_all prim_signed_message (encode prim_signed_message sm) = Some sm /\
  has_type prim_justification j = true /\ just_has_digest_items j = false /\
  decode_all prim_justification (encode prim_justification j) = Some j /\
  encode_just_untagged j = encode prim_justification j.
Proof.
  cbv zeta. split; [eexists; do 19 right; left; reflexivity|].
  split; [eexists; do 21 right; left; reflexivity|].
  vm_compute. repeat split; reflexivity.
Qed.

(* a request with its fields in an order neither protobuf-go nor field-number order produces *)
Example C14_request_order_nonvacuous :
  let r := mk_req 19 (FromNumber 1000) 1 (Some 128) in
  let fs := [(3, WBytes (le_bytes 4 1000)); (6, WVarint 128); (1, WVarint (19 * 16777216)); (5, WVarint 1)] in
  Permutation (req_fields r) fs /\ decode_request (enc_fields fs) = Ok r.
Proof.
  split; [|vm_compute; reflexivity].
  cbv [req_fields req_from_field rq_data rq_from rq_dir rq_max]. cbn [N.mul N.eqb Pos.mul Pos.eqb app].
  set (a1 := (1, WVarint _)). set (a5 := (5, WVarint _)). set (a6 := (6, WVarint _)).
  match goal with |- Permutation _ (?x :: _) => set (a3 := x) end.
  change [a3; a6; a1; a5] with ([a3; a6] ++ a1 :: [a5]).
  apply Permutation_cons_app. cbn [app].
  change [a3; a6; a5] with ([a3; a6] ++ a5 :: []).
  apply Permutation_cons_app. cbn [app].
  replace (N.min 1000 u32max) with 1000 by reflexivity.
  apply perm_swap.
Qed.

(* a request as another implementation might write it: oneof member first, an unknown 64-bit
   field, an unknown varint field, field 1 carried as length-delimited (skipped) before the real
   one, an unknown 32-bit field, a non-minimal varint for max_blocks *)
Example C14_request_foreign_wire :
  let r := mk_req 19 (FromNumber 1000) 1 (Some 128) in
  let bs := hexb [26;4;232;3;0;0;  73;1;2;3;4;5;6;7;8;  120;5;  10;1;0;  8;128;128;128;152;1;
                  173;1;9;9;9;9;  40;1;  48;128;129;0] in
  match parse bs with
  | Some fs => req_equiv fs (req_fields r) /\ length fs = 8%nat /\ decode_request bs = Ok r
  | None => False
  end.
Proof. vm_compute. repeat split; reflexivity. Qed.

(* a response with an unknown field before the block, the block data fields reversed and an
   unknown 32-bit field inside *)
Example C14_response_foreign_wire :
  let d := mk_bd (zeros 32) None (Some [hexb [1;2;3]; hexb [4]]) (Some (hexb [7])) None (Some []) in
  let inner := enc_fields [(7, WVarint 1); (9, WFixed32 (zeros 4)); (4, WBytes (hexb [7]));
                           (3, WBytes (hexb [12;1;2;3])); (3, WBytes (hexb [4;4])); (1, WBytes (zeros 32))] in
  let bs := enc_fields [(2, WVarint 5); (1, WBytes inner)] in
  block_data_ok d = true /\ bs <> encode_response [d] /\ decode_response bs = Ok [normalise d].
Proof. vm_compute. repeat split; try reflexivity. discriminate. Qed.
