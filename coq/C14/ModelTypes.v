(* C14/ModelTypes.v — the wire types of property C14 as schemas of the universe of
   ModelScale.v, written from the Polkadot specification (block format, digests, BABE and
   GRANDPA consensus messages) / the Substrate type definitions it refers to; definitions only.
   Field and variant names are those of the Go types (they tie a trace value to a field; they
   never reach the wire).  [registry] maps the type names used in traces to schemas. *)
From Coq Require Import String.
From Common Require Import Bytes.
From C14 Require Import ModelScale.
Local Open Scope N_scope.
Local Open Scope string_scope.

Definition fd (s : string) (t : ty) : name * ty := (nm s, t).
Definition cs (i : N) (s : string) (t : ty) : N * (name * ty) := (i, (nm s, t)).

Definition u8 := TUint 1.
Definition u32 := TUint 4.
Definition u64 := TUint 8.
Definition h256 := TFixed 32.
Definition sig64 := TFixed 64.

(* ---- block header and digest (spec: Block Format; Substrate generic::Header, DigestItem) ---- *)
Definition engine_payload : ty := Eval vm_compute in (TStruct [fd "ConsensusEngineID" (TFixed 4); fd "Data" TBytes]).

Definition digest_item : ty := Eval vm_compute in (TEnum [ cs 0 "OtherDigest" TBytes;
          cs 4 "ConsensusDigest" engine_payload;
          cs 5 "SealDigest" engine_payload;
          cs 6 "PreRuntimeDigest" engine_payload;
          cs 8 "RuntimeEnvironmentUpdated" (TStruct []) ]).

(* the DigestItem of the pinned tree: no variant 0 *)
Definition digest_item_prefix : ty := Eval vm_compute in (TEnum [ cs 4 "ConsensusDigest" engine_payload;
          cs 5 "SealDigest" engine_payload;
          cs 6 "PreRuntimeDigest" engine_payload;
          cs 8 "RuntimeEnvironmentUpdated" (TStruct []) ]).

Definition header_of (item : ty) : ty :=
  TStruct [ fd "ParentHash" h256; fd "Number" TCompact; fd "StateRoot" h256;
            fd "ExtrinsicsRoot" h256; fd "Digest" (TVec item) ].
Definition header : ty := Eval vm_compute in (header_of digest_item).
Definition header_prefix : ty := Eval vm_compute in (header_of digest_item_prefix).

Definition digest : ty := Eval vm_compute in (TVec digest_item).

(* block body: Vec<Extrinsic>, an extrinsic being an opaque Vec<u8> *)
Definition body : ty := Eval vm_compute in (TVec TBytes).

(* ---- BABE pre-runtime digests (spec: BABE block header digest; sp_consensus_babe::PreDigest) ---- *)
Definition babe_primary : ty := Eval vm_compute in (TStruct [ fd "AuthorityIndex" u32; fd "SlotNumber" u64; fd "VRFOutput" h256; fd "VRFProof" sig64 ]).
Definition babe_secondary_plain : ty := Eval vm_compute in (TStruct [ fd "AuthorityIndex" u32; fd "SlotNumber" u64 ]).
Definition babe_secondary_vrf : ty := Eval vm_compute in (TStruct [ fd "AuthorityIndex" u32; fd "SlotNumber" u64; fd "VrfOutput" h256; fd "VrfProof" sig64 ]).
Definition babe_pre_digest : ty := Eval vm_compute in (TEnum [ cs 1 "BabePrimaryPreDigest" babe_primary;
          cs 2 "BabeSecondaryPlainPreDigest" babe_secondary_plain;
          cs 3 "BabeSecondaryVRFPreDigest" babe_secondary_vrf ]).

(* ---- BABE consensus messages (sp_consensus_babe::ConsensusLog) ---- *)
Definition authority_raw : ty := Eval vm_compute in (TStruct [ fd "Key" h256; fd "Weight" u64 ]).
Definition next_epoch_data : ty := Eval vm_compute in (TStruct [ fd "Authorities" (TVec authority_raw); fd "Randomness" h256 ]).
Definition babe_on_disabled : ty := Eval vm_compute in (TStruct [ fd "ID" u32 ]).
Definition next_config_v1 : ty := Eval vm_compute in (TStruct [ fd "C1" u64; fd "C2" u64; fd "SecondarySlots" u8 ]).
Definition versioned_next_config : ty := Eval vm_compute in (TEnum [ cs 1 "NextConfigDataV1" next_config_v1 ]).
Definition babe_consensus_digest : ty := Eval vm_compute in (TEnum [ cs 1 "NextEpochData" next_epoch_data;
          cs 2 "BABEOnDisabled" babe_on_disabled;
          cs 3 "VersionedNextConfigData" versioned_next_config ]).

(* ---- GRANDPA consensus messages (sp_consensus_grandpa::ConsensusLog) ---- *)
Definition grandpa_authority_raw : ty := Eval vm_compute in (TStruct [ fd "Key" h256; fd "ID" u64 ]).
Definition grandpa_scheduled_change : ty := Eval vm_compute in (TStruct [ fd "Auths" (TVec grandpa_authority_raw); fd "Delay" u32 ]).
Definition grandpa_forced_change : ty := Eval vm_compute in (TStruct [ fd "BestFinalizedBlock" u32; fd "Auths" (TVec grandpa_authority_raw); fd "Delay" u32 ]).
Definition grandpa_on_disabled : ty := Eval vm_compute in (TStruct [ fd "ID" u64 ]).
Definition grandpa_pause : ty := Eval vm_compute in (TStruct [ fd "Delay" u32 ]).
Definition grandpa_resume : ty := Eval vm_compute in (TStruct [ fd "Delay" u32 ]).
Definition grandpa_consensus_digest : ty := Eval vm_compute in (TEnum [ cs 1 "GrandpaScheduledChange" grandpa_scheduled_change;
          cs 2 "GrandpaForcedChange" grandpa_forced_change;
          cs 3 "GrandpaOnDisabled" grandpa_on_disabled;
          cs 4 "GrandpaPause" grandpa_pause;
          cs 5 "GrandpaResume" grandpa_resume ]).

(* ---- GRANDPA votes, commits, justifications (spec: GRANDPA messages) ---- *)
Definition vote : ty := Eval vm_compute in (TStruct [ fd "Hash" h256; fd "Number" u32 ]).
Definition signed_vote : ty := Eval vm_compute in (TStruct [ fd "Vote" vote; fd "Signature" sig64; fd "AuthorityID" h256 ]).
Definition commit : ty := Eval vm_compute in (TStruct [ fd "Hash" h256; fd "Number" u32; fd "Precommits" (TVec signed_vote) ]).
Definition justification : ty := Eval vm_compute in (TStruct [ fd "Round" u64; fd "Commit" commit ]).
Definition grandpa_voters : ty := Eval vm_compute in (TVec (TStruct [ fd "Key" h256; fd "ID" u64 ])).

Definition equivocation : ty := Eval vm_compute in (TStruct [ fd "RoundNumber" u64; fd "ID" h256; fd "FirstVote" vote; fd "FirstSignature" sig64;
            fd "SecondVote" vote; fd "SecondSignature" sig64 ]).
Definition equivocation_enum : ty := Eval vm_compute in (TEnum [ cs 0 "PreVote" equivocation; cs 1 "PreCommit" equivocation ]).
Definition equivocation_proof : ty := Eval vm_compute in (TStruct [ fd "SetID" u64; fd "Equivocation" equivocation_enum ]).

(* the signed payload of a vote: (message, round, set id) *)
Definition full_vote : ty := Eval vm_compute in (TStruct [ fd "Stage" u8; fd "Vote" vote; fd "Round" u64; fd "SetID" u64 ]).

(* ---- GRANDPA gossip messages (lib/grandpa/message.go) ---- *)
Definition signed_message : ty := Eval vm_compute in (TStruct [ fd "Stage" u8; fd "BlockHash" h256; fd "Number" u32; fd "Signature" sig64;
            fd "AuthorityID" h256 ]).
Definition vote_message : ty := Eval vm_compute in (TStruct [ fd "Round" u64; fd "SetID" u64; fd "Message" signed_message ]).
Definition auth_data : ty := Eval vm_compute in (TStruct [ fd "Signature" sig64; fd "AuthorityID" h256 ]).
Definition commit_message : ty := Eval vm_compute in (TStruct [ fd "Round" u64; fd "SetID" u64; fd "Vote" vote;
            fd "Precommits" (TVec vote); fd "AuthData" (TVec auth_data) ]).
Definition neighbour_v1 : ty := Eval vm_compute in (TStruct [ fd "Round" u64; fd "SetID" u64; fd "Number" u32 ]).
Definition versioned_neighbour : ty := Eval vm_compute in (TEnum [ cs 1 "NeighbourPacketV1" neighbour_v1 ]).
Definition catch_up_request : ty := Eval vm_compute in (TStruct [ fd "Round" u64; fd "SetID" u64 ]).
Definition catch_up_response : ty := Eval vm_compute in (TStruct [ fd "SetID" u64; fd "Round" u64;
            fd "PreVoteJustification" (TVec signed_vote);
            fd "PreCommitJustification" (TVec signed_vote);
            fd "Hash" h256; fd "Number" u32 ]).
Definition grandpa_message : ty := Eval vm_compute in (TEnum [ cs 0 "VoteMessage" vote_message;
          cs 1 "CommitMessage" commit_message;
          cs 2 "VersionedNeighbourPacket" versioned_neighbour;
          cs 3 "CatchUpRequest" catch_up_request;
          cs 4 "CatchUpResponse" catch_up_response ]).

(* ---- internal/primitives/consensus/grandpa (block number u32, hash H256) ---- *)
Definition authority_id_weight : ty := Eval vm_compute in (TStruct [ fd "AuthorityID" h256; fd "AuthorityWeight" u64 ]).
Definition authority_list : ty := Eval vm_compute in (TVec authority_id_weight).
Definition prim_scheduled_change : ty := Eval vm_compute in (TStruct [ fd "NextAuthorities" authority_list; fd "Delay" u32 ]).
Definition prim_precommit : ty := Eval vm_compute in (TStruct [ fd "TargetHash" h256; fd "TargetNumber" u32 ]).
Definition prim_signed_precommit : ty := Eval vm_compute in (TStruct [ fd "Precommit" prim_precommit; fd "Signature" sig64; fd "ID" h256 ]).
Definition prim_commit : ty := Eval vm_compute in (TStruct [ fd "TargetHash" h256; fd "TargetNumber" u32; fd "Precommits" (TVec prim_signed_precommit) ]).
(* finality-grandpa Message: 0 prevote, 1 precommit, 2 primary propose; localized payload =
   (message, round, set id) *)
Definition prim_message : ty := Eval vm_compute in (TEnum [ cs 0 "Prevote" prim_precommit; cs 1 "Precommit" prim_precommit;
          cs 2 "PrimaryPropose" prim_precommit ]).
Definition localized_payload : ty := Eval vm_compute in (TStruct [ fd "Message" prim_message; fd "RoundNumber" u64; fd "SetID" u64 ]).

(* finality-grandpa SignedMessage as instantiated by the primitives (SignedMessage[H, N]) *)
Definition prim_signed_message : ty := Eval vm_compute in (TStruct [ fd "Message" prim_message; fd "Signature" sig64; fd "ID" h256 ]).

(* Substrate's generic::Header as internal/primitives/runtime/generic.Header holds it (the wire
   type is [header]; the names are those of internal/primitives/runtime's digest items) and
   sp_consensus_grandpa::GrandpaJustification { round, commit, votes_ancestries: Vec<Header> } *)
Definition prim_engine_payload : ty := Eval vm_compute in (TStruct [fd "ConsensusEngineID" (TFixed 4); fd "Bytes" TBytes]).
Definition prim_digest_item : ty := Eval vm_compute in (TEnum [ cs 0 "Other" TBytes;
          cs 4 "Consensus" prim_engine_payload;
          cs 5 "Seal" prim_engine_payload;
          cs 6 "PreRuntime" prim_engine_payload;
          cs 8 "RuntimeEnvironmentUpdated" (TStruct []) ]).
Definition prim_header : ty := Eval vm_compute in (header_of prim_digest_item).
Definition prim_justification : ty := Eval vm_compute in (TStruct [ fd "Round" u64; fd "Commit" prim_commit; fd "VoteAncestries" (TVec prim_header) ]).

(* finality-grandpa CompactCommit and CatchUp (Substrate's wire forms of a commit and of a
   catch-up), instantiated as the primitives instantiate Commit *)
Definition prim_auth_data : ty := Eval vm_compute in (TStruct [ fd "Signature" sig64; fd "ID" h256 ]).
Definition prim_compact_commit : ty := Eval vm_compute in (TStruct [ fd "TargetHash" h256; fd "TargetNumber" u32;
            fd "Precommits" (TVec prim_precommit); fd "AuthData" (TVec prim_auth_data) ]).
Definition prim_signed_prevote : ty := Eval vm_compute in (TStruct [ fd "Prevote" prim_precommit; fd "Signature" sig64; fd "ID" h256 ]).
Definition prim_catch_up : ty := Eval vm_compute in (TStruct [ fd "RoundNumber" u64; fd "Prevotes" (TVec prim_signed_prevote);
            fd "Precommits" (TVec prim_signed_precommit); fd "BaseHash" h256; fd "BaseNumber" u32 ]).

Definition registry : list (name * ty) := Eval vm_compute in ([ fd "Header" header; fd "Digest" digest; fd "Body" body;
    fd "BabeDigest" babe_pre_digest;
    fd "BabeConsensusDigest" babe_consensus_digest;
    fd "GrandpaConsensusDigest" grandpa_consensus_digest;
    fd "GrandpaVote" vote; fd "GrandpaSignedVote" signed_vote;
    fd "Commit" commit; fd "Justification" justification;
    fd "GrandpaVoters" grandpa_voters;
    fd "GrandpaEquivocationProof" equivocation_proof;
    fd "FullVote" full_vote;
    fd "GrandpaMessage" grandpa_message;
    fd "AuthorityList" authority_list;
    fd "PrimScheduledChange" prim_scheduled_change;
    fd "PrimCommit" prim_commit;
    fd "LocalizedPayload" localized_payload;
    fd "PrimMessage" prim_message;
    fd "PrimSignedMessage" prim_signed_message;
    fd "PrimHeader" prim_header;
    fd "PrimJustification" prim_justification;
    fd "PrimCompactCommit" prim_compact_commit;
    fd "PrimCatchUp" prim_catch_up ]).

Fixpoint find_type (n : name) (r : list (name * ty)) : option ty :=
  match r with
  | [] => None
  | (m, t) :: r' => if bytes_eqb n m then Some t else find_type n r'
  end.
Definition type_of_name (n : name) : option ty := find_type n registry.
