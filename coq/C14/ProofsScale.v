(* C14/ProofsScale.v — the reference codec round-trips and its decoder accepts canonical
   encodings only, for every wire type of the universe (induction over the type). *)
From Coq Require Import ZifyN ZifyNat ZifyBool.
From Common Require Import Bytes.
From C14 Require Import ModelScale ProofsCompact.
Local Open Scope N_scope.

(* ---- induction principle for the nested type ---- *)
Section TyInd.
  Variable P : ty -> Prop.
  Hypothesis HUint : forall k, P (TUint k).
  Hypothesis HCompact : P TCompact.
  Hypothesis HFixed : forall n, P (TFixed n).
  Hypothesis HBytes : P TBytes.
  Hypothesis HVec : forall t, P t -> P (TVec t).
  Hypothesis HOpt : forall t, P t -> P (TOpt t).
  Hypothesis HStruct : forall fs, Forall (fun p => P (snd p)) fs -> P (TStruct fs).
  Hypothesis HEnum : forall cs, Forall (fun p => P (snd (snd p))) cs -> P (TEnum cs).

  Fixpoint ty_ind' (t : ty) : P t :=
    match t with
    | TUint k => HUint k
    | TCompact => HCompact
    | TFixed n => HFixed n
    | TBytes => HBytes
    | TVec t' => HVec t' (ty_ind' t')
    | TOpt t' => HOpt t' (ty_ind' t')
    | TStruct fs =>
      HStruct fs ((fix go (fs : list (name * ty)) : Forall (fun p => P (snd p)) fs :=
                     match fs with
                     | [] => Forall_nil _
                     | p :: fs' => Forall_cons p (ty_ind' (snd p)) (go fs')
                     end) fs)
    | TEnum cs =>
      HEnum cs ((fix go (cs : list (N * (name * ty))) : Forall (fun p => P (snd (snd p))) cs :=
                   match cs with
                   | [] => Forall_nil _
                   | p :: cs' => Forall_cons p (ty_ind' (snd (snd p))) (go cs')
                   end) cs)
    end.
End TyInd.

(* ---- the inner loops as top-level functions ---- *)
Fixpoint encode_fields (fs : list (name * ty)) (vs : list val) : list byte :=
  match fs, vs with
  | (_, t') :: fs', x :: vs' => encode t' x ++ encode_fields fs' vs'
  | _, _ => []
  end.
Lemma encode_struct fs vs : encode (TStruct fs) (VS vs) = encode_fields fs vs.
Proof.
  revert fs; induction vs as [|x vs IH]; intros [|[n t] fs]; try reflexivity.
  cbn [encode_fields]. rewrite <- IH. reflexivity.
Qed.

Fixpoint has_type_fields (fs : list (name * ty)) (vs : list val) : bool :=
  match fs, vs with
  | [], [] => true
  | (_, t') :: fs', x :: vs' => has_type t' x && has_type_fields fs' vs'
  | _, _ => false
  end.
Lemma has_type_struct fs vs : has_type (TStruct fs) (VS vs) = has_type_fields fs vs.
Proof.
  revert fs; induction vs as [|x vs IH]; intros [|[n t] fs]; try reflexivity.
  cbn [has_type_fields]. rewrite <- IH. reflexivity.
Qed.

Fixpoint decode_fields (fs : list (name * ty)) (bs : list byte) : option (list val * list byte) :=
  match fs with
  | [] => Some ([], bs)
  | (_, t') :: fs' =>
    match decode t' bs with
    | Some (x, r) =>
      match decode_fields fs' r with
      | Some (xs, r') => Some (x :: xs, r')
      | None => None
      end
    | None => None
    end
  end.
Lemma decode_struct fs bs :
  decode (TStruct fs) bs =
  match decode_fields fs bs with Some (xs, r) => Some (VS xs, r) | None => None end.
Proof.
  cbn [decode].
  match goal with |- match ?f fs bs with _ => _ end = _ =>
    assert (E : forall fs bs, f fs bs = decode_fields fs bs) end.
  { clear. induction fs as [|[n t] fs IH]; intro bs; [reflexivity|].
    simpl. destruct (decode t bs) as [[x r]|]; [|reflexivity].
    rewrite IH. reflexivity. }
  rewrite E. reflexivity.
Qed.

Fixpoint decode_loop (t : ty) (k : nat) (r : list byte) : option (list val * list byte) :=
  match k with
  | O => Some ([], r)
  | S k' =>
    match decode t r with
    | Some (x, r') =>
      match decode_loop t k' r' with
      | Some (xs, r'') => Some (x :: xs, r'')
      | None => None
      end
    | None => None
    end
  end.
Lemma decode_vec t bs :
  decode (TVec t) bs =
  match decode_compact bs with
  | Some (n, r) =>
    if lenN r <? n then None
    else match decode_loop t (N.to_nat n) r with
         | Some (xs, r') => Some (VL xs, r')
         | None => None
         end
  | None => None
  end.
Proof.
  cbn [decode]. destruct (decode_compact bs) as [[n r]|]; [|reflexivity].
  destruct (lenN r <? n); [reflexivity|].
  match goal with |- match ?f (N.to_nat n) r with _ => _ end = _ =>
    assert (E : forall k r, f k r = decode_loop t k r) end.
  { clear. induction k as [|k IH]; intro r; [reflexivity|].
    simpl. destruct (decode t r) as [[x r']|]; [|reflexivity].
    rewrite IH. reflexivity. }
  rewrite E. reflexivity.
Qed.

Fixpoint decode_find (b : N) (r : list byte) (cs : list (N * (name * ty))) : option (val * list byte) :=
  match cs with
  | [] => None
  | (i, (_, t')) :: cs' =>
    if b =? i then
      match decode t' r with Some (x, r') => Some (VE i x, r') | None => None end
    else decode_find b r cs'
  end.
Lemma decode_enum cs b r : decode (TEnum cs) (b :: r) = decode_find (b2n b) r cs.
Proof.
  cbn [decode]. induction cs as [|[i [n t]] cs IH]; [reflexivity|].
  simpl. destruct (b2n b =? i); [reflexivity | apply IH].
Qed.

Fixpoint nonzero_fields (fs : list (name * ty)) : bool :=
  match fs with [] => false | (_, t') :: fs' => nonzero t' || nonzero_fields fs' end.
Lemma nonzero_struct fs : nonzero (TStruct fs) = nonzero_fields fs.
Proof. cbn [nonzero]. induction fs as [|[n t] fs IH]; [reflexivity|]. cbn [nonzero_fields]. now rewrite IH. Qed.

Fixpoint wf_fields (fs : list (name * ty)) : bool :=
  match fs with [] => true | (_, t') :: fs' => wf_ty t' && wf_fields fs' end.
Lemma wf_struct fs : wf_ty (TStruct fs) = wf_fields fs.
Proof. cbn [wf_ty]. induction fs as [|[n t] fs IH]; [reflexivity|]. cbn [wf_fields]. now rewrite IH. Qed.

Fixpoint wf_cases (cs : list (N * (name * ty))) : bool :=
  match cs with [] => true | (i, (_, t')) :: cs' => (i <? 256) && wf_ty t' && wf_cases cs' end.
Lemma wf_enum cs : wf_ty (TEnum cs) = wf_cases cs.
Proof. cbn [wf_ty]. induction cs as [|[i [n t]] cs IH]; [reflexivity|]. cbn [wf_cases]. now rewrite IH. Qed.

(* ---- basic facts ---- *)
Lemma take_app (a r : list byte) : take (length a) (a ++ r) = Some (a, r).
Proof.
  unfold take. rewrite app_length.
  destruct (Nat.ltb_spec (length a + length r) (length a)); [lia|].
  now rewrite firstn_app_exact, skipn_app_exact.
Qed.

Lemma take_inv n bs h r : take n bs = Some (h, r) -> bs = h ++ r /\ length h = n.
Proof.
  unfold take. destruct (Nat.ltb_spec (length bs) n) as [|L]; [discriminate|].
  intro H; injection H as <- <-. split; [symmetry; apply firstn_skipn|].
  rewrite firstn_length. lia.
Qed.

Lemma lenN_app {A} (a b : list A) : lenN (a ++ b) = lenN a + lenN b.
Proof. unfold lenN. rewrite app_length. lia. Qed.

Lemma pow256_pos k : 0 < 256 ^ N.of_nat k.
Proof. apply N.neq_0_lt_0. apply N.pow_nonzero. lia. Qed.

(* an item of a non-zero-size type occupies at least one byte *)
Lemma encode_nonzero : forall t, nonzero t = true -> forall v, has_type t v = true ->
  (1 <= length (encode t v))%nat.
Proof.
  induction t as [k| |n| |t IH|t IH|fs IH|cs IH] using ty_ind'; intros Hnz v Hv.
  - destruct v; try discriminate. cbn [nonzero] in Hnz. apply Nat.ltb_lt in Hnz.
    cbn [encode]. rewrite le_bytes_length. lia.
  - destruct v; try discriminate. cbn [encode]. apply compact_length_pos.
  - destruct v; try discriminate. cbn [nonzero has_type encode] in *. apply Nat.ltb_lt in Hnz.
    apply Nat.eqb_eq in Hv. lia.
  - destruct v; try discriminate. cbn [encode]. rewrite app_length. pose proof (compact_length_pos (lenN b)). lia.
  - destruct v; try discriminate. cbn [encode]. rewrite app_length. pose proof (compact_length_pos (lenN l)). lia.
  - destruct v as [| | |[x|]| |]; try discriminate; cbn [encode length]; lia.
  - destruct v as [| | | |vs|]; try discriminate.
    rewrite encode_struct. rewrite has_type_struct in Hv. rewrite nonzero_struct in Hnz.
    revert vs Hv. induction IH as [|[n t] fs Ht _ IHfs]; intros vs Hv; [discriminate|].
    destruct vs as [|x vs]; [discriminate|].
    cbn [has_type_fields] in Hv. apply andb_prop in Hv as [Hx Hvs].
    cbn [encode_fields]. rewrite app_length.
    cbn [nonzero_fields] in Hnz. apply orb_prop in Hnz as [Hz|Hz].
    + specialize (Ht Hz x Hx). cbn [snd] in Ht. lia.
    + specialize (IHfs Hz vs Hvs). lia.
  - destruct v as [| | | | |i x]; try discriminate.
    cbn [has_type encode] in *. destruct (lookup i cs) as [[n t]|]; [|discriminate].
    cbn [length]. lia.
Qed.

Lemma flat_map_length_ge t l :
  nonzero t = true -> forallb (has_type t) l = true ->
  (length l <= length (flat_map (encode t) l))%nat.
Proof.
  intros Hnz. induction l as [|x l IH]; intro H; [cbn; lia|].
  cbn [forallb] in H. apply andb_prop in H as [Hx Hl].
  cbn [flat_map length]. rewrite app_length.
  pose proof (encode_nonzero t Hnz x Hx). specialize (IH Hl). lia.
Qed.

Lemma lookup_in {A} i (cs : list (N * A)) a : lookup i cs = Some a -> In (i, a) cs.
Proof.
  induction cs as [|[j b] cs IH]; [discriminate|]. cbn [lookup].
  destruct (N.eqb_spec i j) as [->|]; intro H.
  - injection H as ->. now left.
  - right. now apply IH.
Qed.

Lemma wf_cases_in cs i n t : wf_cases cs = true -> In (i, (n, t)) cs -> i < 256 /\ wf_ty t = true.
Proof.
  induction cs as [|[j [m u]] cs IH]; [intros _ []|].
  cbn [wf_cases]. intro H. apply andb_prop in H as [H Hcs]. apply andb_prop in H as [Hi Hu].
  intros [E|Hin].
  - injection E as -> -> ->. split; [lia | assumption].
  - now apply IH.
Qed.

Lemma decode_find_lookup cs i r :
  decode_find i r cs =
  match lookup i cs with
  | Some (_, t') => match decode t' r with Some (x, r') => Some (VE i x, r') | None => None end
  | None => None
  end.
Proof.
  induction cs as [|[j [m u]] cs IH]; [reflexivity|].
  cbn [decode_find lookup]. destruct (N.eqb_spec i j) as [->|]; [reflexivity | apply IH].
Qed.

(* ---- round trip ---- *)
Theorem decode_encode : forall t, wf_ty t = true -> forall v r, has_type t v = true ->
  decode t (encode t v ++ r) = Some (v, r).
Proof.
  induction t as [k| |n| |t IH|t IH|fs IH|cs IH] using ty_ind'; intros Hwf v r Hv.
  - (* TUint *)
    destruct v as [x| | | | |]; try discriminate. cbn [has_type encode decode] in *.
    rewrite <- (le_bytes_length k x) at 1. rewrite take_app.
    rewrite le_val_le_bytes_small by lia. reflexivity.
  - (* TCompact *)
    destruct v as [x| | | | |]; try discriminate. cbn [has_type encode decode] in *.
    rewrite decode_compact_compact by lia. reflexivity.
  - (* TFixed *)
    destruct v as [|b| | | |]; try discriminate. cbn [has_type encode decode] in *.
    apply Nat.eqb_eq in Hv. subst n. now rewrite take_app.
  - (* TBytes *)
    destruct v as [|b| | | |]; try discriminate. cbn [has_type encode decode] in *.
    rewrite <- app_assoc, decode_compact_compact by lia.
    rewrite lenN_app. destruct (N.ltb_spec (lenN b + lenN r) (lenN b)); [lia|].
    unfold lenN at 1. rewrite Nat2N.id, take_app. reflexivity.
  - (* TVec *)
    destruct v as [| |l| | |]; try discriminate.
    cbn [wf_ty] in Hwf. apply andb_prop in Hwf as [Hnz Hwf].
    cbn [has_type] in Hv. apply andb_prop in Hv as [Hlen Hl].
    rewrite decode_vec. cbn [encode].
    rewrite <- app_assoc, decode_compact_compact by lia.
    pose proof (flat_map_length_ge t l Hnz Hl) as Hge.
    rewrite lenN_app. unfold lenN at 1 3.
    destruct (N.ltb_spec (N.of_nat (length (flat_map (encode t) l)) + lenN r) (N.of_nat (length l))) as [Hlt|Hlt]; [lia|].
    clear Hlt. unfold lenN. rewrite Nat2N.id.
    assert (Hloop : decode_loop t (length l) (flat_map (encode t) l ++ r) = Some (l, r)).
    { clear Hlen Hge. induction l as [|x l IHl]; [reflexivity|].
      cbn [forallb] in Hl. apply andb_prop in Hl as [Hx Hl].
      cbn [length flat_map decode_loop]. rewrite <- app_assoc, (IH Hwf x _ Hx), (IHl Hl). reflexivity. }
    rewrite Hloop. reflexivity.
  - (* TOpt *)
    cbn [wf_ty] in Hwf.
    destruct v as [| | |[x|]| |]; try discriminate; cbn [has_type encode decode app] in *.
    + rewrite b2n_n2b_small by lia. cbn [N.eqb Pos.eqb]. rewrite (IH Hwf x r Hv). reflexivity.
    + rewrite b2n_n2b_small by lia. reflexivity.
  - (* TStruct *)
    destruct v as [| | | |vs|]; try discriminate.
    rewrite decode_struct, encode_struct. rewrite has_type_struct in Hv. rewrite wf_struct in Hwf.
    assert (H : decode_fields fs (encode_fields fs vs ++ r) = Some (vs, r)).
    { revert vs Hv Hwf. induction IH as [|[n t] fs Ht _ IHfs]; intros vs Hv Hwf.
      - destruct vs; [reflexivity | discriminate].
      - destruct vs as [|x vs]; [discriminate|].
        cbn [has_type_fields] in Hv. apply andb_prop in Hv as [Hx Hvs].
        cbn [wf_fields] in Hwf. apply andb_prop in Hwf as [Hwt Hwfs].
        cbn [encode_fields decode_fields]. rewrite <- app_assoc.
        cbn [snd] in Ht. rewrite (Ht Hwt x _ Hx), (IHfs vs Hvs Hwfs). reflexivity. }
    rewrite H. reflexivity.
  - (* TEnum *)
    destruct v as [| | | | |i x]; try discriminate.
    rewrite wf_enum in Hwf. cbn [has_type encode] in *.
    destruct (lookup i cs) as [[n t]|] eqn:El; [|discriminate].
    pose proof (lookup_in _ _ _ El) as Hin.
    destruct (wf_cases_in _ _ _ _ Hwf Hin) as [Hi Hwt].
    cbn [app]. rewrite decode_enum, b2n_n2b_small by assumption.
    rewrite decode_find_lookup, El.
    rewrite Forall_forall in IH. specialize (IH _ Hin). cbn [snd] in IH.
    rewrite (IH Hwt x r Hv). reflexivity.
Qed.

(* ---- canonical form: the decoder accepts exactly the encoder's output ---- *)
Theorem decode_canonical : forall t bs v r, decode t bs = Some (v, r) ->
  bs = encode t v ++ r /\ has_type t v = true.
Proof.
  induction t as [k| |n| |t IH|t IH|fs IH|cs IH] using ty_ind'; intros bs v r H.
  - (* TUint *)
    cbn [decode] in H. destruct (take k bs) as [[h r']|] eqn:Et; [|discriminate].
    injection H as <- <-. apply take_inv in Et as [-> L].
    cbn [encode has_type]. rewrite <- L, le_bytes_le_val. split; [reflexivity|].
    pose proof (le_val_lt h). lia.
  - (* TCompact *)
    cbn [decode] in H. destruct (decode_compact bs) as [[x r']|] eqn:Ec; [|discriminate].
    injection H as <- <-. apply decode_compact_canonical in Ec as [-> L].
    cbn [encode has_type]. split; [reflexivity | lia].
  - (* TFixed *)
    cbn [decode] in H. destruct (take n bs) as [[h r']|] eqn:Et; [|discriminate].
    injection H as <- <-. apply take_inv in Et as [-> L].
    cbn [encode has_type]. split; [reflexivity | now apply Nat.eqb_eq].
  - (* TBytes *)
    cbn [decode] in H. destruct (decode_compact bs) as [[x r']|] eqn:Ec; [|discriminate].
    destruct (lenN r' <? x); [discriminate|].
    destruct (take (N.to_nat x) r') as [[h r'']|] eqn:Et; [|discriminate].
    injection H as <- <-. apply decode_compact_canonical in Ec as [-> Lx].
    apply take_inv in Et as [-> L].
    cbn [encode has_type]. unfold lenN. rewrite L, N2Nat.id, <- app_assoc. split; [reflexivity | lia].
  - (* TVec *)
    rewrite decode_vec in H. destruct (decode_compact bs) as [[x r']|] eqn:Ec; [|discriminate].
    destruct (lenN r' <? x); [discriminate|].
    destruct (decode_loop t (N.to_nat x) r') as [[xs r'']|] eqn:El; [|discriminate].
    injection H as <- <-. apply decode_compact_canonical in Ec as [-> Lx].
    assert (Hl : forall k r0 xs r1, decode_loop t k r0 = Some (xs, r1) ->
                 r0 = flat_map (encode t) xs ++ r1 /\ forallb (has_type t) xs = true /\ length xs = k).
    { induction k as [|k IHk]; intros r0 ys r1 Hk.
      - injection Hk as <- <-. auto.
      - cbn [decode_loop] in Hk. destruct (decode t r0) as [[y r2]|] eqn:Ey; [|discriminate].
        destruct (decode_loop t k r2) as [[ys' r3]|] eqn:Eys; [|discriminate].
        injection Hk as <- <-. apply IH in Ey as [-> Hy]. apply IHk in Eys as (-> & Hys & Lk).
        cbn [flat_map forallb length]. rewrite Hy, Hys, Lk, <- app_assoc. auto. }
    apply Hl in El as (-> & Hxs & Lk).
    cbn [encode has_type]. unfold lenN. rewrite Lk, N2Nat.id, Hxs, <- app_assoc.
    split; [reflexivity|]. destruct (N.ltb_spec x 4294967296); [reflexivity | lia].
  - (* TOpt *)
    cbn [decode] in H. destruct bs as [|b t']; [discriminate|].
    destruct (N.eqb_spec (b2n b) 0) as [E0|_].
    + injection H as <- <-. cbn [encode has_type app]. rewrite <- E0, n2b_b2n. auto.
    + destruct (N.eqb_spec (b2n b) 1) as [E1|_]; [|discriminate].
      destruct (decode t t') as [[x r']|] eqn:Ex; [|discriminate].
      injection H as <- <-. apply IH in Ex as [-> Hx].
      cbn [encode has_type app]. rewrite <- E1, n2b_b2n. auto.
  - (* TStruct *)
    rewrite decode_struct in H. destruct (decode_fields fs bs) as [[xs r']|] eqn:Ef; [|discriminate].
    injection H as <- <-. rewrite encode_struct, has_type_struct.
    revert bs xs Ef. induction IH as [|[n t] fs Ht _ IHfs]; intros bs xs Ef.
    + injection Ef as <- <-. auto.
    + cbn [decode_fields] in Ef. destruct (decode t bs) as [[x r0]|] eqn:Ex; [|discriminate].
      destruct (decode_fields fs r0) as [[ys r1]|] eqn:Eys; [|discriminate].
      injection Ef as <- <-. cbn [snd] in Ht. apply Ht in Ex as [-> Hx].
      apply IHfs in Eys as [-> Hys].
      cbn [encode_fields has_type_fields]. rewrite Hx, Hys, <- app_assoc. auto.
  - (* TEnum *)
    destruct bs as [|b t']; [discriminate|]. rewrite decode_enum, decode_find_lookup in H.
    destruct (lookup (b2n b) cs) as [[n t]|] eqn:El; [|discriminate].
    destruct (decode t t') as [[x r']|] eqn:Ex; [|discriminate].
    injection H as <- <-. pose proof (lookup_in _ _ _ El) as Hin.
    rewrite Forall_forall in IH. specialize (IH _ Hin). cbn [snd] in IH.
    apply IH in Ex as [-> Hx].
    cbn [encode has_type]. rewrite El, n2b_b2n. auto.
Qed.

(* two consequences used by the property statements *)
Corollary decode_all_encode t v :
  wf_ty t = true -> has_type t v = true -> decode_all t (encode t v) = Some v.
Proof.
  intros Hw Hv. unfold decode_all. rewrite <- (app_nil_r (encode t v)), (decode_encode t Hw v [] Hv).
  reflexivity.
Qed.

Corollary decode_all_canonical t bs v :
  decode_all t bs = Some v -> bs = encode t v /\ has_type t v = true.
Proof.
  unfold decode_all. destruct (decode t bs) as [[x [|]]|] eqn:E; try discriminate.
  intro H; injection H as <-. apply decode_canonical in E as [-> Hx]. now rewrite app_nil_r.
Qed.

(* injectivity of the encoding on well-typed values: distinct values have distinct encodings *)
Corollary encode_injective t v w :
  wf_ty t = true -> has_type t v = true -> has_type t w = true ->
  encode t v = encode t w -> v = w.
Proof.
  intros Hw Hv Hw' E.
  pose proof (decode_all_encode t v Hw Hv) as A. pose proof (decode_all_encode t w Hw Hw') as B.
  rewrite E in A. congruence.
Qed.
