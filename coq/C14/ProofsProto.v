(* C14/ProofsProto.v — the proto3 model: varints and field lists round-trip; BlockRequest and
   BlockResponse messages decode to what was encoded (up to what the wire can express). *)
From Coq Require Import ZifyN ZifyNat ZifyBool.
From Common Require Import Bytes Outcome.
From C14 Require Import ModelScale ModelTypes ModelProto ProofsCompact ProofsScale.
Local Open Scope N_scope.

(* ---- varints ---- *)
Lemma varint_fuel_nonempty f n : varint_fuel (S f) n <> [].
Proof. cbn [varint_fuel]. destruct (n <? 128); discriminate. Qed.

Lemma decode_varint_fuel_ok f : forall n r, n < 128 ^ N.of_nat (S f) ->
  decode_varint_fuel (S f) (varint_fuel (S f) n ++ r) = Some (n, r).
Proof.
  induction f as [|f IH]; intros n r Hn.
  - change (128 ^ N.of_nat 1) with 128 in Hn.
    cbn [varint_fuel decode_varint_fuel].
    destruct (N.ltb_spec n 128); [|lia].
    cbn [app]. rewrite b2n_n2b_small by lia.
    destruct (N.ltb_spec n 128); [reflexivity | lia].
  - remember (S f) as g. cbn [varint_fuel decode_varint_fuel].
    destruct (N.ltb_spec n 128) as [Hs|Hb].
    + cbn [app]. rewrite b2n_n2b_small by lia.
      destruct (N.ltb_spec n 128); [reflexivity | lia].
    + cbn [app]. assert (Hm : n mod 128 + 128 < 256) by (pose proof (N.mod_lt n 128); lia).
      rewrite b2n_n2b_small by exact Hm.
      destruct (N.ltb_spec (n mod 128 + 128) 128); [lia|].
      subst g. rewrite IH.
      * f_equal. f_equal. pose proof (N.div_mod n 128). lia.
      * rewrite Nat2N.inj_succ, N.pow_succ_r' in Hn.
        apply N.div_lt_upper_bound; lia.
Qed.

Definition vmax : N := 18446744073709551616.   (* 2^64 *)

Lemma decode_varint_ok n r : n < vmax -> decode_varint (varint n ++ r) = Some (n, r).
Proof.
  intro H. unfold decode_varint, varint. apply decode_varint_fuel_ok.
  unfold vmax in H. change (128 ^ N.of_nat 10) with 1180591620717411303424. lia.
Qed.

Lemma varint_nonempty n : varint n <> [].
Proof. apply varint_fuel_nonempty. Qed.

Lemma varint_length_pos n : (1 <= length (varint n))%nat.
Proof. pose proof (varint_nonempty n). destruct (varint n); [congruence | cbn; lia]. Qed.

(* ---- field lists ---- *)
Definition field_ok (f : field) : bool :=
  match f with
  | (num, WVarint v) => (0 <? num) && (num <? 536870912) && (v <? vmax)
  | (num, WBytes b) => (0 <? num) && (num <? 536870912) && (lenN b <? vmax)
  | (num, WFixed64 b) => (0 <? num) && (num <? 536870912) && (length b =? 8)%nat
  | (num, WFixed32 b) => (0 <? num) && (num <? 536870912) && (length b =? 4)%nat
  end.

Lemma enc_field_length_pos f : (1 <= length (enc_field f))%nat.
Proof.
  destruct f as [num [v|b|b|b]]; cbn [enc_field]; rewrite app_length.
  - pose proof (varint_length_pos (8 * num)). lia.
  - pose proof (varint_length_pos (8 * num + 2)). lia.
  - pose proof (varint_length_pos (8 * num + 1)). lia.
  - pose proof (varint_length_pos (8 * num + 5)). lia.
Qed.

Lemma enc_fields_length fs : (length fs <= length (enc_fields fs))%nat.
Proof.
  induction fs as [|f fs IH]; [cbn; lia|].
  unfold enc_fields in *. cbn [flat_map length]. rewrite app_length.
  pose proof (enc_field_length_pos f). lia.
Qed.

Lemma parse_fields_ok : forall fs fuel, (length fs < fuel)%nat ->
  forallb field_ok fs = true -> parse_fields fuel (enc_fields fs) = Some fs.
Proof.
  induction fs as [|f fs IH]; intros fuel Hf Hok.
  - destruct fuel; [cbn in Hf; lia | reflexivity].
  - destruct fuel as [|fuel]; [cbn in Hf; lia|].
    cbn [forallb] in Hok. apply andb_prop in Hok as [Hfo Hok].
    cbn [length] in Hf. assert (Hf' : (length fs < fuel)%nat) by lia.
    specialize (IH fuel Hf' Hok).
    unfold enc_fields in *. cbn [flat_map parse_fields].
    destruct (enc_field f ++ flat_map enc_field fs) as [|b0 t0] eqn:Ebs.
    { pose proof (enc_field_length_pos f) as L. apply (f_equal (@length byte)) in Ebs.
      rewrite app_length in Ebs. cbn in Ebs. lia. }
    rewrite <- Ebs. clear Ebs b0 t0.
    assert (Hnum : forall num, 0 < num -> num < 536870912 -> (num =? 0) || (536870912 <=? num) = false).
    { intros num A B. destruct (N.eqb_spec num 0); [lia|]. destruct (N.leb_spec 536870912 num); [lia | reflexivity]. }
    destruct f as [num [v|b|b|b]]; cbn [field_ok enc_field] in *.
    + apply andb_prop in Hfo as [Hfo Hv]. apply andb_prop in Hfo as [Hn0 Hn1].
      rewrite <- !app_assoc, decode_varint_ok by (unfold vmax; lia).
      replace (8 * num / 8) with num by lia. replace ((8 * num) mod 8) with 0 by lia.
      rewrite Hnum by lia. cbn [N.eqb].
      rewrite decode_varint_ok by lia. rewrite IH. reflexivity.
    + apply andb_prop in Hfo as [Hfo Hv]. apply andb_prop in Hfo as [Hn0 Hn1].
      rewrite <- !app_assoc, decode_varint_ok by (unfold vmax; lia).
      replace ((8 * num + 2) / 8) with num by lia. replace ((8 * num + 2) mod 8) with 2 by lia.
      rewrite Hnum by lia. cbn [N.eqb Pos.eqb].
      rewrite decode_varint_ok by lia.
      rewrite lenN_app. destruct (N.ltb_spec (lenN b + lenN (flat_map enc_field fs)) (lenN b)); [lia|].
      unfold lenN at 1 2. rewrite Nat2N.id, firstn_app_exact, skipn_app_exact, IH. reflexivity.
    + apply andb_prop in Hfo as [Hfo Hv]. apply andb_prop in Hfo as [Hn0 Hn1]. apply Nat.eqb_eq in Hv.
      rewrite <- !app_assoc, decode_varint_ok by (unfold vmax; lia).
      replace ((8 * num + 1) / 8) with num by lia. replace ((8 * num + 1) mod 8) with 1 by lia.
      rewrite Hnum by lia. cbn [N.eqb Pos.eqb].
      rewrite app_length, Hv. cbn [Nat.ltb Nat.leb plus].
      rewrite <- Hv, firstn_app_exact, skipn_app_exact, IH. reflexivity.
    + apply andb_prop in Hfo as [Hfo Hv]. apply andb_prop in Hfo as [Hn0 Hn1]. apply Nat.eqb_eq in Hv.
      rewrite <- !app_assoc, decode_varint_ok by (unfold vmax; lia).
      replace ((8 * num + 5) / 8) with num by lia. replace ((8 * num + 5) mod 8) with 5 by lia.
      rewrite Hnum by lia. cbn [N.eqb Pos.eqb].
      rewrite app_length, Hv. cbn [Nat.ltb Nat.leb plus].
      rewrite <- Hv, firstn_app_exact, skipn_app_exact, IH. reflexivity.
Qed.

Lemma parse_ok fs : forallb field_ok fs = true -> parse (enc_fields fs) = Some fs.
Proof.
  intro H. unfold parse. apply parse_fields_ok; [|exact H].
  pose proof (enc_fields_length fs). lia.
Qed.

(* ---- accessors over concatenations ---- *)
Lemma last_varint_app k a b acc : last_varint k (a ++ b) acc = last_varint k b (last_varint k a acc).
Proof.
  revert acc; induction a as [|[j w] a IH]; intro acc; [reflexivity|]. destruct w; cbn [app last_varint]; apply IH.
Qed.
Lemma last_bytes_app k a b acc : last_bytes k (a ++ b) acc = last_bytes k b (last_bytes k a acc).
Proof.
  revert acc; induction a as [|[j w] a IH]; intro acc; [reflexivity|]. destruct w; cbn [app last_bytes]; apply IH.
Qed.
Lemma all_bytes_app k a b : all_bytes k (a ++ b) = all_bytes k a ++ all_bytes k b.
Proof.
  induction a as [|[j w] a IH]; [reflexivity|]. destruct w; cbn [app all_bytes]; try apply IH.
  destruct (j =? k); [cbn [app]; f_equal|]; apply IH.
Qed.
Lemma last_from_app a b acc : last_from (a ++ b) acc = last_from b (last_from a acc).
Proof.
  revert acc; induction a as [|[j w] a IH]; intro acc; [reflexivity|]. destruct w; cbn [app last_from]; apply IH.
Qed.

(* ---- BlockRequest ---- *)
Lemma to_hash_32 h : length h = 32%nat -> to_hash h = h.
Proof.
  intro L. unfold to_hash. rewrite L. cbn [Nat.ltb Nat.leb]. unfold pad_front. rewrite L. reflexivity.
Qed.

Lemma req_fields_ok r : request_ok r = true -> forallb field_ok (req_fields r) = true.
Proof.
  unfold request_ok, req_fields, req_from_field, u32max. intro H.
  apply andb_prop in H as [H Hm]. apply andb_prop in H as [H Hf]. apply andb_prop in H as [Hd Hdir].
  rewrite !forallb_app.
  destruct (rq_data r * 16777216 =? 0); destruct (rq_dir r =? 0);
    destruct (rq_max r) as [m|]; try destruct (m =? 0); destruct (rq_from r) as [h|n];
    cbn [forallb field_ok andb]; unfold vmax, lenN;
    repeat (apply andb_true_intro; split); try reflexivity; try rewrite le_bytes_length; try lia.
Qed.

Lemma req_fields_sorted_ok r : request_ok r = true -> forallb field_ok (req_fields_sorted r) = true.
Proof.
  unfold request_ok, req_fields_sorted, req_from_field, u32max. intro H.
  apply andb_prop in H as [H Hm]. apply andb_prop in H as [H Hf]. apply andb_prop in H as [Hd Hdir].
  rewrite !forallb_app.
  destruct (rq_data r * 16777216 =? 0); destruct (rq_dir r =? 0);
    destruct (rq_max r) as [m|]; try destruct (m =? 0); destruct (rq_from r) as [h|n];
    cbn [forallb field_ok andb]; unfold vmax, lenN;
    repeat (apply andb_true_intro; split); try reflexivity; try rewrite le_bytes_length; try lia.
Qed.

(* interpretation of a request's field list, in either order *)
Definition interp_request (fs : list field) : outcome block_request :=
  let fields := last_varint 1 fs 0 mod 4294967296 in
  let dir := last_varint 5 fs 0 mod 256 in
  let mx := last_varint 6 fs 0 mod 4294967296 in
  match last_from fs None with
  | None => Err 2
  | Some (k, b) =>
    let from := if k =? 2 then Some (FromHash (to_hash b))
                else if (length b =? 4)%nat then Some (FromNumber (le_val b)) else None in
    match from with
    | None => Err 3
    | Some fb => Ok (mk_req ((fields / 16777216) mod 256) fb dir (if mx =? 0 then None else Some mx))
    end
  end.

Lemma decode_request_interp bs fs : parse bs = Some fs -> decode_request bs = interp_request fs.
Proof. intro H. unfold decode_request. rewrite H. reflexivity. Qed.

Lemma interp_request_fields r :
  request_ok r = true ->
  interp_request (req_fields r) = Ok r /\ interp_request (req_fields_sorted r) = Ok r.
Proof.
  destruct r as [d fb dir mx]. unfold request_ok, u32max. cbn [rq_data rq_from rq_dir rq_max].
  intro H. apply andb_prop in H as [H Hm]. apply andb_prop in H as [H Hf]. apply andb_prop in H as [Hd Hdir].
  assert (Hfrom : forall acc, last_from (req_from_field (mk_req d fb dir mx)) acc =
            Some (match fb with FromHash h => (2, h) | FromNumber n => (3, le_bytes 4 (N.min n 4294967295)) end)).
  { intro acc. unfold req_from_field, u32max. cbn [rq_from]. destruct fb; reflexivity. }
  assert (Hfv : forall k acc, last_varint k (req_from_field (mk_req d fb dir mx)) acc = acc).
  { intros k acc. unfold req_from_field. cbn [rq_from]. destruct fb; reflexivity. }
  set (F1 := if d * 16777216 =? 0 then [] else [(1, WVarint (d * 16777216))] : list field).
  set (F5 := if dir =? 0 then [] else [(5, WVarint dir)] : list field).
  set (F6 := match mx with Some m => if m =? 0 then [] else [(6, WVarint m)] | None => [] end : list field).
  assert (V1 : forall acc, last_varint 1 F1 acc = if d * 16777216 =? 0 then acc else d * 16777216)
    by (intro; unfold F1; destruct (d * 16777216 =? 0); reflexivity).
  assert (V1o : forall k acc, k <> 1 -> last_varint k F1 acc = acc).
  { intros k acc Hk. unfold F1. destruct (d * 16777216 =? 0); [reflexivity|]. cbn [last_varint].
    destruct (N.eqb_spec 1 k); [congruence | reflexivity]. }
  assert (V5 : forall acc, last_varint 5 F5 acc = if dir =? 0 then acc else dir)
    by (intro; unfold F5; destruct (dir =? 0); reflexivity).
  assert (V5o : forall k acc, k <> 5 -> last_varint k F5 acc = acc).
  { intros k acc Hk. unfold F5. destruct (dir =? 0); [reflexivity|]. cbn [last_varint].
    destruct (N.eqb_spec 5 k); [congruence | reflexivity]. }
  assert (V6 : forall acc, last_varint 6 F6 acc = match mx with Some m => if m =? 0 then acc else m | None => acc end).
  { intro. unfold F6. destruct mx as [m|]; [destruct (m =? 0)|]; reflexivity. }
  assert (V6o : forall k acc, k <> 6 -> last_varint k F6 acc = acc).
  { intros k acc Hk. unfold F6. destruct mx as [m|]; [destruct (m =? 0)|]; try reflexivity. cbn [last_varint].
    destruct (N.eqb_spec 6 k); [congruence | reflexivity]. }
  assert (L1 : forall acc, last_from F1 acc = acc) by (intro; unfold F1; destruct (d * 16777216 =? 0); reflexivity).
  assert (L5 : forall acc, last_from F5 acc = acc) by (intro; unfold F5; destruct (dir =? 0); reflexivity).
  assert (L6 : forall acc, last_from F6 acc = acc).
  { intro. unfold F6. destruct mx as [m|]; [destruct (m =? 0)|]; reflexivity. }
  (* the result, given the accessor values *)
  assert (R : forall fs,
     last_varint 1 fs 0 = (if d * 16777216 =? 0 then 0 else d * 16777216) ->
     last_varint 5 fs 0 = (if dir =? 0 then 0 else dir) ->
     last_varint 6 fs 0 = (match mx with Some m => if m =? 0 then 0 else m | None => 0 end) ->
     last_from fs None = Some (match fb with FromHash h => (2, h) | FromNumber n => (3, le_bytes 4 (N.min n 4294967295)) end) ->
     interp_request fs = Ok (mk_req d fb dir mx)).
  { intros fs E1 E5 E6 EF. unfold interp_request. rewrite E1, E5, E6, EF.
    assert (Ed : (if d * 16777216 =? 0 then 0 else d * 16777216) = d * 16777216)
      by (destruct (N.eqb_spec (d * 16777216) 0); lia).
    assert (Edir : (if dir =? 0 then 0 else dir) = dir) by (destruct (N.eqb_spec dir 0); lia).
    rewrite Ed, Edir.
    assert (Emx : (let v := match mx with Some m => if m =? 0 then 0 else m | None => 0 end mod 4294967296 in
                   if v =? 0 then None else Some v) = mx).
    { destruct mx as [m|]; [|reflexivity]. apply andb_prop in Hm as [Hm0 Hm1].
      destruct (N.eqb_spec m 0); [lia|]. cbv zeta. rewrite N.mod_small by lia.
      destruct (N.eqb_spec m 0); [lia | reflexivity]. }
    cbv zeta in Emx. rewrite Emx.
    replace ((d * 16777216) mod 4294967296 / 16777216 mod 256) with d
      by (rewrite (N.mod_small (d * 16777216)) by lia; rewrite N.div_mul by lia; rewrite N.mod_small; lia).
    rewrite (N.mod_small dir) by lia.
    destruct fb as [h|n].
    - cbn [N.eqb Pos.eqb]. apply Nat.eqb_eq in Hf. rewrite to_hash_32 by exact Hf. reflexivity.
    - cbn [N.eqb Pos.eqb]. rewrite le_bytes_length. cbn [Nat.eqb].
      rewrite le_val_le_bytes_small by (rewrite pow256_4; lia).
      replace (N.min n 4294967295) with n by lia. reflexivity. }
  split; apply R.
  - unfold req_fields. cbn [rq_data rq_dir rq_max]. fold F1 F5 F6.
    rewrite !last_varint_app, Hfv, V6o, V5o, V1 by lia. reflexivity.
  - unfold req_fields. cbn [rq_data rq_dir rq_max]. fold F1 F5 F6.
    rewrite !last_varint_app, Hfv, V6o, V5, V1o by lia. reflexivity.
  - unfold req_fields. cbn [rq_data rq_dir rq_max]. fold F1 F5 F6.
    rewrite !last_varint_app, Hfv, V6, V5o, V1o by lia. reflexivity.
  - unfold req_fields. cbn [rq_data rq_dir rq_max]. fold F1 F5 F6.
    rewrite !last_from_app, Hfrom. reflexivity.
  - unfold req_fields_sorted. cbn [rq_data rq_dir rq_max]. fold F1 F5 F6.
    rewrite !last_varint_app, V6o, V5o, Hfv, V1 by lia. reflexivity.
  - unfold req_fields_sorted. cbn [rq_data rq_dir rq_max]. fold F1 F5 F6.
    rewrite !last_varint_app, V6o, V5, Hfv, V1o by lia. reflexivity.
  - unfold req_fields_sorted. cbn [rq_data rq_dir rq_max]. fold F1 F5 F6.
    rewrite !last_varint_app, V6, V5o, Hfv, V1o by lia. reflexivity.
  - unfold req_fields_sorted. cbn [rq_data rq_dir rq_max]. fold F1 F5 F6.
    rewrite !last_from_app, L6, L5, Hfrom. reflexivity.
Qed.

Theorem request_roundtrip r :
  request_ok r = true ->
  decode_request (encode_request r) = Ok r /\ decode_request (encode_request_sorted r) = Ok r.
Proof.
  intro H. destruct (interp_request_fields r H) as [A B]. unfold encode_request, encode_request_sorted. split.
  - rewrite (decode_request_interp _ _ (parse_ok _ (req_fields_ok r H))). exact A.
  - rewrite (decode_request_interp _ _ (parse_ok _ (req_fields_sorted_ok r H))). exact B.
Qed.

(* ---- BlockResponse ---- *)
Lemma last_bytes_opt_same j o acc :
  last_bytes j (opt_bytes_field j o) acc = match norm_opt o with Some x => Some x | None => acc end.
Proof.
  destruct o as [[|x r]|]; cbn [opt_bytes_field norm_opt last_bytes]; try reflexivity.
  now rewrite N.eqb_refl.
Qed.
Lemma last_bytes_opt_other k j o acc : j <> k -> last_bytes k (opt_bytes_field j o) acc = acc.
Proof.
  intro H. destruct o as [[|x r]|]; cbn [opt_bytes_field last_bytes]; try reflexivity.
  destruct (N.eqb_spec j k); [congruence | reflexivity].
Qed.
Lemma last_varint_opt k j o acc : last_varint k (opt_bytes_field j o) acc = acc.
Proof. destruct o as [[|x r]|]; reflexivity. Qed.
Lemma all_bytes_opt_other k j o : j <> k -> all_bytes k (opt_bytes_field j o) = [].
Proof.
  intro H. destruct o as [[|x r]|]; cbn [opt_bytes_field all_bytes]; try reflexivity.
  destruct (N.eqb_spec j k); [congruence | reflexivity].
Qed.

Definition body_fields (o : option (list (list byte))) : list field :=
  match o with
  | Some exts => map (fun e => (3, WBytes (encode TBytes (VB e)))) exts
  | None => []
  end.
Definition just_fields (o : option (list byte)) : list field :=
  match o with
  | Some [] => [(7, WVarint 1)]
  | Some j => [(6, WBytes j)]
  | None => []
  end.

Lemma bd_fields_eq d :
  bd_fields d = opt_bytes_field 1 (Some (bd_hash d)) ++
                opt_bytes_field 2 (option_map (encode header) (bd_header d)) ++
                body_fields (bd_body d) ++ opt_bytes_field 4 (bd_receipt d) ++
                opt_bytes_field 5 (bd_mq d) ++ just_fields (bd_just d).
Proof. reflexivity. Qed.

Lemma last_bytes_body k o acc : k <> 3 -> last_bytes k (body_fields o) acc = acc.
Proof.
  intro H. destruct o as [exts|]; [|reflexivity]. cbn [body_fields].
  revert acc; induction exts as [|e exts IH]; intro acc; [reflexivity|].
  cbn [map last_bytes]. destruct (N.eqb_spec 3 k); [congruence | apply IH].
Qed.
Lemma last_varint_body k o acc : last_varint k (body_fields o) acc = acc.
Proof.
  destruct o as [exts|]; [|reflexivity]. cbn [body_fields].
  revert acc; induction exts as [|e exts IH]; intro acc; [reflexivity | apply IH].
Qed.
Lemma all_bytes_body o :
  all_bytes 3 (body_fields o) =
  match o with Some exts => map (fun e => encode TBytes (VB e)) exts | None => [] end.
Proof.
  destruct o as [exts|]; [|reflexivity]. cbn [body_fields].
  induction exts as [|e exts IH]; [reflexivity|]. cbn [map all_bytes]. cbn [N.eqb Pos.eqb]. now rewrite IH.
Qed.

Lemma last_bytes_just6 o acc :
  last_bytes 6 (just_fields o) acc = match o with Some (x :: r) => Some (x :: r) | _ => acc end.
Proof. destruct o as [[|x r]|]; reflexivity. Qed.
Lemma last_bytes_just_other k o acc : k <> 6 -> last_bytes k (just_fields o) acc = acc.
Proof.
  intro H. destruct o as [[|x r]|]; cbn [just_fields last_bytes]; try reflexivity.
  destruct (N.eqb_spec 6 k); [congruence | reflexivity].
Qed.
Lemma last_varint_just7 o acc :
  last_varint 7 (just_fields o) acc = match o with Some [] => 1 | _ => acc end.
Proof. destruct o as [[|x r]|]; reflexivity. Qed.
Lemma all_bytes_just3 o : all_bytes 3 (just_fields o) = [].
Proof. destruct o as [[|x r]|]; reflexivity. Qed.

Lemma header_nonzero : nonzero header = true. Proof. reflexivity. Qed.
Lemma header_wf : wf_ty header = true. Proof. vm_compute. reflexivity. Qed.
Lemma body_wf : wf_ty body = true. Proof. vm_compute. reflexivity. Qed.

Lemma vals_bytes_map exts : vals_bytes (VL (map VB exts)) = Some exts.
Proof.
  cbn [vals_bytes]. induction exts as [|e exts IH]; [reflexivity|].
  cbn [map fold_right]. rewrite IH. reflexivity.
Qed.

Lemma compact_length_le n : (length (compact n) <= 5)%nat.
Proof.
  unfold compact. destruct (n <? 64); [cbn; lia|]. destruct (n <? 16384); [cbn; lia|].
  destruct (n <? 1073741824); cbn [length]; rewrite ?le_bytes_length; lia.
Qed.

Lemma forallb_map {A B} (f : B -> bool) (g : A -> B) l : forallb f (map g l) = forallb (fun x => f (g x)) l.
Proof. induction l as [|x l IH]; [reflexivity|]. cbn. now rewrite IH. Qed.

Lemma bd_fields_ok d : block_data_ok d = true -> forallb field_ok (bd_fields d) = true.
Proof.
  unfold block_data_ok, size_max. intro H.
  apply andb_prop in H as [H _].
  apply andb_prop in H as [H Hj]. apply andb_prop in H as [H Hm]. apply andb_prop in H as [H Hr].
  apply andb_prop in H as [H Hb]. apply andb_prop in H as [Hh Hhd].
  assert (Ho : forall j o, 0 < j -> j < 8 -> (match o with Some b => lenN b <? vmax | None => true end) = true ->
               forallb field_ok (opt_bytes_field j o) = true).
  { intros j o J0 J8 Hl. destruct o as [[|x r]|]; try reflexivity.
    cbn [opt_bytes_field forallb field_ok]. rewrite Hl.
    destruct (N.ltb_spec 0 j); [|lia]. destruct (N.ltb_spec j 536870912); [reflexivity | lia]. }
  rewrite bd_fields_eq, !forallb_app.
  repeat (apply andb_true_intro; split).
  - apply Ho; [lia | lia |]. apply Nat.eqb_eq in Hh. unfold lenN, vmax. rewrite Hh. reflexivity.
  - apply Ho; [lia | lia |]. destruct (bd_header d) as [v|]; [|reflexivity]. cbn [option_map].
    apply andb_prop in Hhd as [_ Hl]. exact Hl.
  - destruct (bd_body d) as [exts|]; [|reflexivity]. cbn [body_fields].
    cbn [has_type] in Hb. apply andb_prop in Hb as [_ Hb]. rewrite forallb_map in Hb.
    rewrite forallb_map. rewrite forallb_forall in *. intros e He. specialize (Hb e He).
    cbn [has_type] in Hb. cbn [field_ok encode]. cbn [N.ltb N.compare Pos.compare Pos.compare_cont].
    unfold lenN in *. rewrite app_length. pose proof (compact_length_le (N.of_nat (length e))).
    unfold vmax. cbn [andb]. destruct (N.ltb_spec (N.of_nat (length (compact (N.of_nat (length e))) + length e)) 18446744073709551616); [reflexivity | lia].
  - apply Ho; [lia | lia | exact Hr].
  - apply Ho; [lia | lia | exact Hm].
  - destruct (bd_just d) as [[|x r]|]; try reflexivity.
    cbn [just_fields forallb field_ok]. unfold vmax. rewrite Hj. reflexivity.
Qed.

Lemma encode_body_items exts :
  compact (lenN (map (fun e => encode TBytes (VB e)) exts)) ++ concat (map (fun e => encode TBytes (VB e)) exts)
  = encode body (VL (map VB exts)).
Proof.
  change body with (TVec TBytes). cbn [encode]. unfold lenN. rewrite !map_length. f_equal.
  induction exts as [|e exts IH]; [reflexivity|]. cbn [map concat flat_map]. now rewrite IH.
Qed.

Lemma decode_block_data_ok d :
  block_data_ok d = true -> decode_block_data (enc_fields (bd_fields d)) = Ok (normalise d).
Proof.
  intro Hok. unfold decode_block_data. rewrite (parse_ok _ (bd_fields_ok d Hok)).
  unfold block_data_ok in Hok.
  apply andb_prop in Hok as [H _].
  apply andb_prop in H as [H Hj]. apply andb_prop in H as [H Hm]. apply andb_prop in H as [H Hr].
  apply andb_prop in H as [H Hb]. apply andb_prop in H as [Hh Hhd].
  apply Nat.eqb_eq in Hh.
  rewrite bd_fields_eq.
  (* hash *)
  assert (E1 : last_bytes 1 (opt_bytes_field 1 (Some (bd_hash d)) ++
                opt_bytes_field 2 (option_map (encode header) (bd_header d)) ++
                body_fields (bd_body d) ++ opt_bytes_field 4 (bd_receipt d) ++
                opt_bytes_field 5 (bd_mq d) ++ just_fields (bd_just d)) None = Some (bd_hash d)).
  { rewrite !last_bytes_app, last_bytes_just_other, (last_bytes_opt_other 1 5), (last_bytes_opt_other 1 4),
      last_bytes_body, (last_bytes_opt_other 1 2), last_bytes_opt_same by lia.
    destruct (bd_hash d); [discriminate | reflexivity]. }
  assert (E2 : last_bytes 2 (opt_bytes_field 1 (Some (bd_hash d)) ++
                opt_bytes_field 2 (option_map (encode header) (bd_header d)) ++
                body_fields (bd_body d) ++ opt_bytes_field 4 (bd_receipt d) ++
                opt_bytes_field 5 (bd_mq d) ++ just_fields (bd_just d)) None
               = norm_opt (option_map (encode header) (bd_header d))).
  { rewrite !last_bytes_app, last_bytes_just_other, (last_bytes_opt_other 2 5), (last_bytes_opt_other 2 4),
      last_bytes_body, last_bytes_opt_same, (last_bytes_opt_other 2 1) by lia.
    destruct (norm_opt (option_map (encode header) (bd_header d))); reflexivity. }
  assert (E3 : all_bytes 3 (opt_bytes_field 1 (Some (bd_hash d)) ++
                opt_bytes_field 2 (option_map (encode header) (bd_header d)) ++
                body_fields (bd_body d) ++ opt_bytes_field 4 (bd_receipt d) ++
                opt_bytes_field 5 (bd_mq d) ++ just_fields (bd_just d))
               = match bd_body d with Some exts => map (fun e => encode TBytes (VB e)) exts | None => [] end).
  { rewrite !all_bytes_app, all_bytes_just3, (all_bytes_opt_other 3 5), (all_bytes_opt_other 3 4),
      (all_bytes_opt_other 3 2), (all_bytes_opt_other 3 1), all_bytes_body by lia.
    cbn [app]. now rewrite app_nil_r. }
  assert (E4 : last_bytes 4 (opt_bytes_field 1 (Some (bd_hash d)) ++
                opt_bytes_field 2 (option_map (encode header) (bd_header d)) ++
                body_fields (bd_body d) ++ opt_bytes_field 4 (bd_receipt d) ++
                opt_bytes_field 5 (bd_mq d) ++ just_fields (bd_just d)) None = norm_opt (bd_receipt d)).
  { rewrite !last_bytes_app, last_bytes_just_other, (last_bytes_opt_other 4 5), last_bytes_opt_same,
      last_bytes_body, (last_bytes_opt_other 4 2), (last_bytes_opt_other 4 1) by lia.
    destruct (norm_opt (bd_receipt d)); reflexivity. }
  assert (E5 : last_bytes 5 (opt_bytes_field 1 (Some (bd_hash d)) ++
                opt_bytes_field 2 (option_map (encode header) (bd_header d)) ++
                body_fields (bd_body d) ++ opt_bytes_field 4 (bd_receipt d) ++
                opt_bytes_field 5 (bd_mq d) ++ just_fields (bd_just d)) None = norm_opt (bd_mq d)).
  { rewrite !last_bytes_app, last_bytes_just_other, last_bytes_opt_same, (last_bytes_opt_other 5 4),
      last_bytes_body, (last_bytes_opt_other 5 2), (last_bytes_opt_other 5 1) by lia.
    destruct (norm_opt (bd_mq d)); reflexivity. }
  assert (E6 : last_bytes 6 (opt_bytes_field 1 (Some (bd_hash d)) ++
                opt_bytes_field 2 (option_map (encode header) (bd_header d)) ++
                body_fields (bd_body d) ++ opt_bytes_field 4 (bd_receipt d) ++
                opt_bytes_field 5 (bd_mq d) ++ just_fields (bd_just d)) None
               = match bd_just d with Some (x :: r) => Some (x :: r) | _ => None end).
  { rewrite !last_bytes_app, last_bytes_just6, (last_bytes_opt_other 6 5), (last_bytes_opt_other 6 4),
      last_bytes_body, (last_bytes_opt_other 6 2), (last_bytes_opt_other 6 1) by lia. reflexivity. }
  assert (E7 : last_varint 7 (opt_bytes_field 1 (Some (bd_hash d)) ++
                opt_bytes_field 2 (option_map (encode header) (bd_header d)) ++
                body_fields (bd_body d) ++ opt_bytes_field 4 (bd_receipt d) ++
                opt_bytes_field 5 (bd_mq d) ++ just_fields (bd_just d)) 0
               = match bd_just d with Some [] => 1 | _ => 0 end).
  { rewrite !last_varint_app, last_varint_just7, !last_varint_opt, last_varint_body, ?last_varint_opt.
    reflexivity. }
  rewrite E1, E2, E3, E4, E5, E6, E7. clear E1 E2 E3 E4 E5 E6 E7.
  rewrite to_hash_32 by exact Hh.
  (* header *)
  assert (Hhdr : match norm_opt (option_map (encode header) (bd_header d)) with
                 | None => Ok None
                 | Some b => match decode header b with Some (v, _) => Ok (Some v) | None => Err 4 end
                 end = Ok (bd_header d)).
  { destruct (bd_header d) as [v|]; [|reflexivity]. cbn [option_map].
    apply andb_prop in Hhd as [Hv _].
    pose proof (encode_nonzero header header_nonzero v Hv) as Hne.
    destruct (encode header v) as [|x r] eqn:Ee; [cbn in Hne; lia|]. cbn [norm_opt]. rewrite <- Ee.
    rewrite <- (app_nil_r (encode header v)), (decode_encode header header_wf v [] Hv). reflexivity. }
  rewrite Hhdr.
  (* body *)
  assert (Hbody : match (match bd_body d with Some exts => map (fun e => encode TBytes (VB e)) exts | None => [] end) with
                  | [] => Ok None
                  | items => match decode body (compact (lenN items) ++ concat items) with
                             | Some (v, _) => match vals_bytes v with Some l => Ok (Some l) | None => Err 5 end
                             | None => Err 5
                             end
                  end = Ok (norm_opt (bd_body d))).
  { destruct (bd_body d) as [[|e exts]|]; try reflexivity.
    remember (e :: exts) as l. assert (Hl : map (fun e0 => encode TBytes (VB e0)) l <> []) by (subst l; discriminate).
    destruct (map (fun e0 => encode TBytes (VB e0)) l) as [|i items] eqn:Em; [congruence|].
    rewrite <- Em. cbv zeta. rewrite encode_body_items.
    rewrite <- (app_nil_r (encode body (VL (map VB l)))), (decode_encode body body_wf _ [] Hb).
    rewrite vals_bytes_map. subst l. reflexivity. }
  cbv zeta in Hbody |- *. rewrite Hbody.
  unfold normalise. f_equal. f_equal.
  destruct (bd_just d) as [[|x r]|]; reflexivity.
Qed.

Lemma all_bytes_blocks (ms : list (list byte)) :
  all_bytes 1 (map (fun m => (1, WBytes m)) ms) = ms.
Proof. induction ms as [|m ms IH]; [reflexivity|]. cbn [map all_bytes N.eqb Pos.eqb]. now rewrite IH. Qed.

Theorem response_roundtrip ds :
  forallb block_data_ok ds = true ->
  decode_response (encode_response ds) = Ok (map normalise ds).
Proof.
  intro H. unfold decode_response, encode_response.
  assert (Hf : forallb field_ok (map (fun d => (1, WBytes (enc_fields (bd_fields d)))) ds) = true).
  { rewrite forallb_map. rewrite forallb_forall in *. intros d Hd. specialize (H d Hd).
    unfold block_data_ok in H. apply andb_prop in H as [_ Hl]. cbn [field_ok]. unfold vmax, size_max in *.
    rewrite Hl. reflexivity. }
  rewrite (parse_ok _ Hf).
  rewrite <- (map_map (fun d => enc_fields (bd_fields d)) (fun m => (1, WBytes m))), all_bytes_blocks, map_map.
  induction ds as [|d ds IH]; [reflexivity|].
  cbn [forallb] in H. apply andb_prop in H as [Hd Hds].
  cbn [map sequence]. rewrite (decode_block_data_ok d Hd), IH; [reflexivity | exact Hds |].
  cbn [map forallb] in Hf. apply andb_prop in Hf as [_ Hf]. exact Hf.
Qed.
