(* C14/ProofsHeader.v — Header.Hash(): correct on a header without a stale cache. *)
From Common Require Import Bytes Blake2b.
From C14 Require Import ModelScale ModelTypes ModelHeader.

Lemma bytes_eqb_refl a : bytes_eqb a a = true.
Proof. destruct (bytes_eqb_spec a a); congruence. Qed.

Lemma header_hash_fresh v : fst (header_hash (fresh v)) = spec_hash v.
Proof. unfold header_hash, fresh. cbn [hcache hval]. rewrite bytes_eqb_refl. reflexivity. Qed.

Lemma header_hash_not_stale h : stale h = false -> fst (header_hash h) = spec_hash (hval h).
Proof.
  unfold stale, header_hash. destruct (bytes_eqb (hcache h) zero32) eqn:Z; [reflexivity|].
  cbn [negb andb fst]. destruct (bytes_eqb_spec (hcache h) (spec_hash (hval h))); [auto | discriminate].
Qed.

(* calling Hash() again returns the same hash, and never makes a header stale *)
Lemma header_hash_again h :
  fst (header_hash (snd (header_hash h))) = fst (header_hash h).
Proof.
  unfold header_hash. destruct (bytes_eqb (hcache h) zero32) eqn:Z; cbn [fst snd hcache hval].
  - destruct (bytes_eqb (blake2b_256 (encode header (hval h))) zero32); reflexivity.
  - rewrite Z. reflexivity.
Qed.

Lemma header_hash_keeps_fresh h : stale h = false -> stale (snd (header_hash h)) = false.
Proof.
  intro H. unfold header_hash. destruct (bytes_eqb (hcache h) zero32) eqn:Z; cbn [snd]; [|exact H].
  unfold stale. cbn [hcache hval]. unfold spec_hash. rewrite bytes_eqb_refl. cbn. apply andb_false_r.
Qed.

(* the witness: a header is hashed, then its Number is assigned *)
Definition witness_v (num : N) : val :=
  VS [VB (zeros 32); VN num; VB (zeros 32); VB (zeros 32); VL []].

Lemma stale_witness :
  let h := set_fields (snd (header_hash (fresh (witness_v 1)))) (witness_v 2) in
  has_type header (witness_v 1) = true /\ has_type header (witness_v 2) = true /\
  stale h = true /\ fst (header_hash h) <> spec_hash (hval h).
Proof.
  cbv zeta. repeat split; try (vm_compute; reflexivity).
  vm_compute. discriminate.
Qed.
