(* C14/ProofsCompact.v — compact integers: round trip and canonical form. *)
From Coq Require Import ZifyN ZifyNat ZifyBool.
From Common Require Import Bytes.
From C14 Require Import ModelScale.
Local Open Scope N_scope.

Lemma land3 x : N.land x 3 = x mod 4.
Proof. change 3 with (N.ones 2). now rewrite N.land_ones. Qed.
Lemma shr2 x : N.shiftr x 2 = x / 4.
Proof. now rewrite N.shiftr_div_pow2. Qed.

Lemma firstn_app_exact {A} (a b : list A) : firstn (length a) (a ++ b) = a.
Proof. rewrite <- (Nat.add_0_r (length a)), firstn_app_2. cbn. apply app_nil_r. Qed.
Lemma skipn_app_exact {A} (a b : list A) : skipn (length a) (a ++ b) = b.
Proof. rewrite skipn_app, skipn_all, Nat.sub_diag. reflexivity. Qed.

Lemma firstn_le_bytes k x (r : list byte) : firstn k (le_bytes k x ++ r) = le_bytes k x.
Proof. rewrite <- (le_bytes_length k x) at 1. apply firstn_app_exact. Qed.
Lemma skipn_le_bytes k x (r : list byte) : skipn k (le_bytes k x ++ r) = r.
Proof. rewrite <- (le_bytes_length k x) at 1. apply skipn_app_exact. Qed.

Lemma pow256_2 : 256 ^ N.of_nat 2 = 65536. Proof. reflexivity. Qed.
Lemma pow256_4 : 256 ^ N.of_nat 4 = 4294967296. Proof. reflexivity. Qed.
Lemma pow256_1 : 256 ^ N.of_nat 1 = 256. Proof. reflexivity. Qed.

(* the first byte of a little-endian encoding carries the value modulo 256 *)
Lemma le_bytes_head k x : exists rest, le_bytes (S k) x = n2b x :: rest /\ length rest = k.
Proof. cbn [le_bytes]. eexists; split; [reflexivity | apply le_bytes_length]. Qed.

Lemma compact_nonempty n : compact n <> [].
Proof.
  unfold compact. destruct (n <? 64); [cbn; discriminate|].
  destruct (n <? 16384); [cbn; discriminate|].
  destruct (n <? 1073741824); cbn; discriminate.
Qed.

Lemma compact_length_pos n : (1 <= length (compact n))%nat.
Proof. pose proof (compact_nonempty n). destruct (compact n); [congruence | cbn; lia]. Qed.

Lemma decode_compact_compact n r :
  n < 4294967296 -> decode_compact (compact n ++ r) = Some (n, r).
Proof.
  intro Hn. unfold compact.
  destruct (N.ltb_spec n 64) as [H0|H0].
  { cbn [le_bytes app]. unfold decode_compact.
    rewrite land3, b2n_n2b_small by lia.
    replace ((4 * n) mod 4) with 0 by lia. cbn [N.eqb Pos.eqb].
    rewrite shr2. f_equal. f_equal. lia. }
  destruct (N.ltb_spec n 16384) as [H1|H1].
  { destruct (le_bytes_head 1 (4 * n + 1)) as (rest & E & L).
    assert (Hbs : le_bytes 2 (4 * n + 1) ++ r = n2b (4 * n + 1) :: (rest ++ r)) by (rewrite E; reflexivity).
    unfold decode_compact. rewrite Hbs.
    rewrite land3, b2n_n2b.
    replace (((4 * n + 1) mod 256) mod 4) with 1 by lia. cbn [N.eqb Pos.eqb].
    assert (Hl : (length (le_bytes 2 (4 * n + 1) ++ r) <? 2)%nat = false).
    { rewrite app_length, le_bytes_length. destruct (Nat.ltb_spec (2 + length r) 2); [lia | reflexivity]. }
    rewrite <- Hbs.
    rewrite Hl, firstn_le_bytes, skipn_le_bytes, le_val_le_bytes_small by (rewrite pow256_2; lia).
    rewrite shr2. replace ((4 * n + 1) / 4) with n by lia.
    destruct (N.ltb_spec n 64); [lia | reflexivity]. }
  destruct (N.ltb_spec n 1073741824) as [H2|H2].
  { destruct (le_bytes_head 3 (4 * n + 2)) as (rest & E & L).
    assert (Hbs : le_bytes 4 (4 * n + 2) ++ r = n2b (4 * n + 2) :: (rest ++ r)) by (rewrite E; reflexivity).
    unfold decode_compact. rewrite Hbs.
    rewrite land3, b2n_n2b.
    replace (((4 * n + 2) mod 256) mod 4) with 2 by lia. cbn [N.eqb Pos.eqb].
    assert (Hl : (length (le_bytes 4 (4 * n + 2) ++ r) <? 4)%nat = false).
    { rewrite app_length, le_bytes_length. destruct (Nat.ltb_spec (4 + length r) 4); [lia | reflexivity]. }
    rewrite <- Hbs.
    rewrite Hl, firstn_le_bytes, skipn_le_bytes, le_val_le_bytes_small by (rewrite pow256_4; lia).
    rewrite shr2. replace ((4 * n + 2) / 4) with n by lia.
    destruct (N.ltb_spec n 16384); [lia | reflexivity]. }
  { cbn [app]. unfold decode_compact.
    rewrite land3, b2n_n2b_small by lia. cbn [N.modulo N.eqb negb].
    change (3 mod 4 =? 0) with false. change (3 mod 4 =? 1) with false. change (3 mod 4 =? 2) with false.
    cbn [negb].
    assert (Hl : (length (le_bytes 4 n ++ r) <? 4)%nat = false).
    { rewrite app_length, le_bytes_length. destruct (Nat.ltb_spec (4 + length r) 4); [lia | reflexivity]. }
    rewrite Hl, firstn_le_bytes, skipn_le_bytes, le_val_le_bytes_small by (rewrite pow256_4; lia).
    destruct (N.ltb_spec n 1073741824); [lia | reflexivity]. }
Qed.

Lemma le_val_firstn_mod4 k (b : byte) (r : list byte) :
  le_val (firstn (S k) (b :: r)) mod 4 = b2n b mod 4.
Proof. cbn [firstn le_val]. lia. Qed.

Lemma le_val_firstn_lt k (bs : list byte) : le_val (firstn k bs) < 256 ^ N.of_nat k.
Proof.
  pose proof (le_val_lt (firstn k bs)) as H. rewrite firstn_length in H.
  eapply N.lt_le_trans; [exact H|]. apply N.pow_le_mono_r; lia.
Qed.

Lemma le_bytes_firstn k (bs : list byte) :
  (k <= length bs)%nat -> le_bytes k (le_val (firstn k bs)) = firstn k bs.
Proof.
  intro H. rewrite <- (le_bytes_le_val (firstn k bs)) at 2. rewrite firstn_length.
  replace (Nat.min k (length bs)) with k by lia. reflexivity.
Qed.

Lemma decode_compact_canonical bs n r :
  decode_compact bs = Some (n, r) -> bs = compact n ++ r /\ n < 4294967296.
Proof.
  unfold decode_compact. destruct bs as [|b t]; [discriminate|].
  cbv zeta. rewrite land3, !shr2. pose proof (b2n_lt b) as Hb.
  destruct (N.eqb_spec (b2n b mod 4) 0) as [M0|M0].
  { intro H; injection H as <- <-. unfold compact.
    destruct (N.ltb_spec (b2n b / 4) 64); [|lia].
    cbn [le_bytes app]. replace (4 * (b2n b / 4)) with (b2n b) by lia.
    rewrite n2b_b2n. split; [reflexivity | lia]. }
  destruct (N.eqb_spec (b2n b mod 4) 1) as [M1|M1].
  { destruct (Nat.ltb_spec (length (b :: t)) 2) as [|L]; [discriminate|].
    set (x := le_val (firstn 2 (b :: t))).
    assert (Hx4 : x mod 4 = 1) by (unfold x; rewrite le_val_firstn_mod4; exact M1).
    assert (Hxlt : x < 65536) by (unfold x; rewrite <- pow256_2; apply le_val_firstn_lt).
    destruct (N.ltb_spec (x / 4) 64) as [|G]; [discriminate|].
    intro H; injection H as <- <-. unfold compact.
    destruct (N.ltb_spec (x / 4) 64); [lia|].
    destruct (N.ltb_spec (x / 4) 16384); [|lia].
    replace (4 * (x / 4) + 1) with x by lia. unfold x.
    rewrite le_bytes_firstn by exact L. rewrite firstn_skipn. split; [reflexivity | lia]. }
  destruct (N.eqb_spec (b2n b mod 4) 2) as [M2|M2].
  { destruct (Nat.ltb_spec (length (b :: t)) 4) as [|L]; [discriminate|].
    set (x := le_val (firstn 4 (b :: t))).
    assert (Hx4 : x mod 4 = 2) by (unfold x; rewrite le_val_firstn_mod4; exact M2).
    assert (Hxlt : x < 4294967296) by (unfold x; rewrite <- pow256_4; apply le_val_firstn_lt).
    destruct (N.ltb_spec (x / 4) 16384) as [|G]; [discriminate|].
    intro H; injection H as <- <-. unfold compact.
    destruct (N.ltb_spec (x / 4) 64); [lia|].
    destruct (N.ltb_spec (x / 4) 16384); [lia|].
    destruct (N.ltb_spec (x / 4) 1073741824); [|lia].
    replace (4 * (x / 4) + 2) with x by lia. unfold x.
    rewrite le_bytes_firstn by exact L. rewrite firstn_skipn. split; [reflexivity | lia]. }
  destruct (N.eqb_spec (b2n b) 3) as [E3|]; cbn [negb]; [|discriminate].
  destruct (Nat.ltb_spec (length t) 4) as [|L]; [discriminate|].
  set (x := le_val (firstn 4 t)).
  assert (Hxlt : x < 4294967296) by (unfold x; rewrite <- pow256_4; apply le_val_firstn_lt).
  destruct (N.ltb_spec x 1073741824) as [|G]; [discriminate|].
  intro H; injection H as <- <-. unfold compact.
  destruct (N.ltb_spec x 64); [lia|].
  destruct (N.ltb_spec x 16384); [lia|].
  destruct (N.ltb_spec x 1073741824); [lia|].
  unfold x. rewrite le_bytes_firstn by exact L. cbn [app]. rewrite firstn_skipn, <- E3, n2b_b2n.
  split; [reflexivity | lia].
Qed.
