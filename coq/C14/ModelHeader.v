(* C14/ModelHeader.v — dot/types/header.go: Header.Hash() with its cache; definitions only.
   A header is its value (of wire type ModelTypes.header) plus the unexported `hash` field;
   the zero hash means "not computed yet".  Assigning to a field leaves the cache alone. *)
From Common Require Import Bytes Outcome Blake2b.
From C14 Require Import ModelScale ModelTypes.

Record hdr := mk_hdr { hval : val; hcache : list byte }.

Definition zero32 : list byte := zeros 32.

(* NewEmptyHeader() followed by assignments / scale.Unmarshal: no cached hash *)
Definition fresh (v : val) : hdr := mk_hdr v zero32.

(* bh.Hash(): returns the hash and the header with the cache filled *)
Definition header_hash (h : hdr) : list byte * hdr :=
  if bytes_eqb (hcache h) zero32 then
    let x := blake2b_256 (encode header (hval h)) in (x, mk_hdr (hval h) x)
  else (hcache h, h).

(* assignment to exported fields (header.Digest = ..., header.Number = ...) *)
Definition set_fields (h : hdr) (v' : val) : hdr := mk_hdr v' (hcache h).

(* the specified hash of a header: BLAKE2b-256 of its encoding *)
Definition spec_hash (v : val) : list byte := blake2b_256 (encode header v).

(* finding guard "header-hash-stale-cache": the header holds a cached hash that is not the hash
   of its current fields *)
Definition stale (h : hdr) : bool :=
  negb (bytes_eqb (hcache h) zero32) && negb (bytes_eqb (hcache h) (spec_hash (hval h))).

(* ---- internal/primitives/runtime/generic.Header ----
   Its Digest is runtime.Digest { Logs []DigestItem } with `type DigestItem any` (the source
   says "TODO: implement this as scale.VaryingDataType"): pkg/scale encodes each item as its
   dynamic Go value, i.e. WITHOUT the variant index byte.  [encode_untagged] is that encoding
   (finding generic-header-digest-untagged); it is the reference encoding exactly when the
   digest is empty.  There is no cache: Hash() hashes the encoding on every call. *)
Definition untag_item (it : val) : list byte :=
  match it with
  | VE i x => match lookup i (match prim_digest_item with TEnum cs => cs | _ => [] end) with
              | Some (_, t) => encode t x
              | None => []
              end
  | _ => []
  end.
Definition encode_untagged (v : val) : list byte :=
  match v with
  | VS [p; n; s; e; VL items] =>
    encode h256 p ++ encode TCompact n ++ encode h256 s ++ encode h256 e ++
    compact (lenN items) ++ flat_map untag_item items
  | _ => []
  end.
(* guard of the finding: the header carries at least one digest item *)
Definition has_digest_items (v : val) : bool :=
  match v with
  | VS [_; _; _; _; VL (_ :: _)] => true
  | _ => false
  end.
Definition prim_header_hash (v : val) : list byte := blake2b_256 (encode_untagged v).

(* a justification: its headers encoded the same way *)
Definition encode_just_untagged (v : val) : list byte :=
  match v with
  | VS [r; c; VL hs] =>
    encode u64 r ++ encode prim_commit c ++ compact (lenN hs) ++ flat_map encode_untagged hs
  | _ => []
  end.
Definition just_has_digest_items (v : val) : bool :=
  match v with
  | VS [_; _; VL hs] => existsb has_digest_items hs
  | _ => false
  end.

(* ---- decoding what the network sends (the reference encoding) into the generic types ----
   scale.Unmarshal into generic.Header / the client's DecodeJustification: the digest is decoded
   into runtime.Digest{Logs []DigestItem} with `DigestItem any`; pkg/scale dereferences a nil
   pointer on the first item (same finding, same guard).  Without digest items the value comes
   back.  (Input that is not a reference encoding: no claim, modelled as an error.) *)
Definition decode_generic_header (bs : list byte) : outcome val :=
  match decode_all prim_header bs with
  | Some v => if has_digest_items v then Panic else Ok v
  | None => Err 1
  end.
Definition decode_generic_just (bs : list byte) : outcome val :=
  match decode_all prim_justification bs with
  | Some v => if just_has_digest_items v then Panic else Ok v
  | None => Err 1
  end.
