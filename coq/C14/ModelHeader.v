(* C14/ModelHeader.v — dot/types/header.go: Header.Hash() with its cache; definitions only.
   A header is its value (of wire type ModelTypes.header) plus the unexported `hash` field;
   the zero hash means "not computed yet".  Assigning to a field leaves the cache alone. *)
From Common Require Import Bytes Blake2b.
From C14 Require Import ModelScale ModelTypes.

Record hdr := mk_hdr { hval : val; hcache : list byte }.

Definition zero32 : list byte := zeros 32.

(* NewEmptyHeader() followed by assignments / scale.Unmarshal: no cached hash *)
Definition fresh (v : val) : hdr := mk_hdr v zero32.

(* bh.Hash(): returns the hash and the header with the cache filled *)
Definition header_hash (h : hdr) : list byte * hdr :=
  if bytes_eqb (hcache h) zero32 then
    let x := blake2b_256 (encode header (hval h)) in (x, mk_hdr (hval h) x)
  else (hcache h, h).

(* assignment to exported fields (header.Digest = ..., header.Number = ...) *)
Definition set_fields (h : hdr) (v' : val) : hdr := mk_hdr v' (hcache h).

(* the specified hash of a header: BLAKE2b-256 of its encoding *)
Definition spec_hash (v : val) : list byte := blake2b_256 (encode header v).

(* finding guard "header-hash-stale-cache": the header holds a cached hash that is not the hash
   of its current fields *)
Definition stale (h : hdr) : bool :=
  negb (bytes_eqb (hcache h) zero32) && negb (bytes_eqb (hcache h) (spec_hash (hval h))).
