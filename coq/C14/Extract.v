From Coq Require Import Extraction ExtrOcamlBasic.
From Common Require Import Bytes Outcome Blake2b Drv.
From C14 Require Import ModelScale ModelTypes ModelHeader ModelProto.
Extraction "model.ml" drv_b2n drv_n2b drv_z_of_n drv_n_of_z drv_nat_of_n drv_n_of_nat
  encode decode decode_all has_type wf_ty compact type_of_name registry header header_prefix body
  fresh header_hash set_fields spec_hash stale bytes_eqb blake2b_256
  encode_untagged has_digest_items prim_header_hash encode_just_untagged just_has_digest_items
  parse enc_fields req_fields bd_fields decode_generic_header decode_generic_just prim_header prim_justification
  encode_request encode_request_sorted decode_request request_ok encode_response decode_response normalise block_data_ok.
