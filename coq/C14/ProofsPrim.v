(* C14/ProofsPrim.v — the primitives' generic header and GRANDPA justification: the encoding
   pkg/scale produces for runtime.Digest (items without their variant index) is the reference
   encoding exactly on headers without digest items; the hash of a decoded header. *)
From Common Require Import Bytes Outcome Blake2b.
From C14 Require Import Proofs.
Local Open Scope N_scope.

(* shape of a typed header value *)
Lemma prim_header_shape v : has_type prim_header v = true ->
  exists p n s e items, v = VS [p; n; s; e; VL items].
Proof.
  unfold prim_header. destruct v as [| | | |fs|]; try discriminate.
  destruct fs as [|p [|n [|s [|e [|d [|x fs]]]]]]; cbn [has_type]; intro H;
    repeat (apply andb_prop in H as [? H]); try discriminate.
  destruct d as [| |items| | |]; try discriminate. eauto 6.
Qed.

Lemma untagged_no_items v : has_type prim_header v = true -> has_digest_items v = false ->
  encode_untagged v = encode prim_header v.
Proof.
  intros Ht Hd. destruct (prim_header_shape v Ht) as (p & n & s & e & items & ->).
  destruct items as [|x items]; [|discriminate].
  unfold prim_header. cbn [encode_untagged encode flat_map lenN length]. rewrite !app_nil_r. reflexivity.
Qed.

Lemma prim_hash_no_items v : has_type prim_header v = true -> has_digest_items v = false ->
  prim_header_hash v = blake2b_256 (encode prim_header v).
Proof. intros Ht Hd. unfold prim_header_hash. now rewrite untagged_no_items. Qed.

(* the witness of the finding: a header with the single digest item Other 0x09 *)
Definition untagged_witness : val :=
  VS [VB (zeros 32); VN 5; VB (zeros 32); VB (zeros 32); VL [VE 0 (VB [n2b 9])]].

Lemma untagged_witness_spec :
  has_type prim_header untagged_witness = true /\
  has_digest_items untagged_witness = true /\
  decode_all prim_header (encode prim_header untagged_witness) = Some untagged_witness /\
  encode_untagged untagged_witness <> encode prim_header untagged_witness /\
  decode_all prim_header (encode_untagged untagged_witness) = None.
Proof.
  repeat split; try (vm_compute; reflexivity). vm_compute. discriminate.
Qed.

(* justifications *)
Lemma flat_map_ext_in {A B} (f g : A -> list B) l :
  (forall x, In x l -> f x = g x) -> flat_map f l = flat_map g l.
Proof.
  induction l as [|a l IH]; intro H; [reflexivity|]. cbn [flat_map].
  rewrite (H a (or_introl eq_refl)), IH; [reflexivity|]. intros x Hx. apply H. now right.
Qed.

Lemma just_untagged_no_items v : has_type prim_justification v = true -> just_has_digest_items v = false ->
  encode_just_untagged v = encode prim_justification v.
Proof.
  unfold prim_justification. destruct v as [| | | |fs|]; try discriminate.
  destruct fs as [|r [|c [|hs [|x fs]]]]; cbn [has_type]; intro H;
    repeat (apply andb_prop in H as [? H]); try discriminate.
  destruct hs as [| |hs| | |]; try discriminate.
  intro Hd. cbn [just_has_digest_items] in Hd.
  match goal with H : has_type (TVec _) (VL hs) = true |- _ => cbn [has_type] in H; apply andb_prop in H as [_ Hall] end.
  rewrite forallb_forall in Hall.
  cbn [encode_just_untagged encode]. rewrite app_nil_r.
  f_equal. f_equal. f_equal.
  apply flat_map_ext_in. intros h Hh.
  apply untagged_no_items; [exact (Hall h Hh)|].
  destruct (has_digest_items h) eqn:E; [|reflexivity].
  assert (existsb has_digest_items hs = true) by (apply existsb_exists; eauto). congruence.
Qed.

(* ---- decoding the reference encoding into the generic types ---- *)
Lemma prim_header_wf : wf_ty prim_header = true. Proof. vm_compute. reflexivity. Qed.
Lemma prim_just_wf : wf_ty prim_justification = true. Proof. vm_compute. reflexivity. Qed.

Lemma decode_generic_header_ok v : has_type prim_header v = true -> has_digest_items v = false ->
  decode_generic_header (encode prim_header v) = Ok v.
Proof.
  intros Ht Hd. unfold decode_generic_header.
  rewrite (decode_all_encode prim_header v prim_header_wf Ht), Hd. reflexivity.
Qed.
Lemma decode_generic_just_ok v : has_type prim_justification v = true -> just_has_digest_items v = false ->
  decode_generic_just (encode prim_justification v) = Ok v.
Proof.
  intros Ht Hd. unfold decode_generic_just.
  rewrite (decode_all_encode prim_justification v prim_just_wf Ht), Hd. reflexivity.
Qed.
(* the crash is exactly the guard *)
Lemma decode_generic_header_panic bs :
  decode_generic_header bs = Panic <->
  exists v, decode_all prim_header bs = Some v /\ has_digest_items v = true.
Proof.
  unfold decode_generic_header. split.
  - destruct (decode_all prim_header bs) as [v|]; [|discriminate].
    destruct (has_digest_items v) eqn:E; [eauto | discriminate].
  - intros (v & -> & ->). reflexivity.
Qed.
Lemma decode_generic_just_panic bs :
  decode_generic_just bs = Panic <->
  exists v, decode_all prim_justification bs = Some v /\ just_has_digest_items v = true.
Proof.
  unfold decode_generic_just. split.
  - destruct (decode_all prim_justification bs) as [v|]; [|discriminate].
    destruct (just_has_digest_items v) eqn:E; [eauto | discriminate].
  - intros (v & -> & ->). reflexivity.
Qed.
Lemma decode_generic_witness : decode_generic_header (encode prim_header untagged_witness) = Panic.
Proof. vm_compute. reflexivity. Qed.

(* a header decoded from the wire hashes to BLAKE2b-256 of the received bytes *)
Lemma header_hash_decoded bs v : decode_all header bs = Some v ->
  fst (header_hash (fresh v)) = blake2b_256 bs.
Proof.
  intro H. destruct (registry_canonical _ header (or_introl eq_refl) bs v H) as [-> _].
  apply header_hash_fresh.
Qed.
