(* C14/ProofsWire.v — block requests and responses decode to the same message from ANY wire
   encoding protobuf accepts for it: fields of different numbers in any order, unknown fields of
   any wire type (varint, length-delimited, 64-bit, 32-bit) anywhere, known numbers carried with
   another wire type (skipped).  What must be preserved is, per known field number, the sequence
   of its occurrences (for the oneof of a request: of the occurrences of its two members).
   (The messages have no repeated scalar fields, so packed encoding does not arise.) *)
From Common Require Import Bytes Outcome.
From C14 Require Import Proofs.
Local Open Scope N_scope.

(* ---- per-number projections of a field list ---- *)
Fixpoint varints (k : N) (fs : list field) : list N :=
  match fs with
  | [] => []
  | (j, WVarint v) :: r => if j =? k then v :: varints k r else varints k r
  | _ :: r => varints k r
  end.
Fixpoint froms (fs : list field) : list (N * list byte) :=
  match fs with
  | [] => []
  | (j, WBytes b) :: r => if (j =? 2) || (j =? 3) then (j, b) :: froms r else froms r
  | _ :: r => froms r
  end.

Lemma last_varint_proj k fs : forall acc,
  last_varint k fs acc = fold_left (fun _ v => v) (varints k fs) acc.
Proof.
  induction fs as [|[j w] fs IH]; intro acc; [reflexivity|].
  destruct w; cbn [last_varint varints]; try apply IH.
  destruct (j =? k); cbn [fold_left]; apply IH.
Qed.
Lemma last_bytes_proj k fs : forall acc,
  last_bytes k fs acc = fold_left (fun _ b => Some b) (all_bytes k fs) acc.
Proof.
  induction fs as [|[j w] fs IH]; intro acc; [reflexivity|].
  destruct w; cbn [last_bytes all_bytes]; try apply IH.
  destruct (j =? k); cbn [fold_left]; apply IH.
Qed.
Lemma last_from_proj fs : forall acc,
  last_from fs acc = fold_left (fun _ x => Some x) (froms fs) acc.
Proof.
  induction fs as [|[j w] fs IH]; intro acc; [reflexivity|].
  destruct w; cbn [last_from froms]; try apply IH.
  destruct ((j =? 2) || (j =? 3)); cbn [fold_left]; apply IH.
Qed.

(* ---- requests ---- *)
Definition req_equiv (fs fs' : list field) : Prop :=
  varints 1 fs = varints 1 fs' /\ varints 5 fs = varints 5 fs' /\ varints 6 fs = varints 6 fs' /\
  froms fs = froms fs'.

Lemma interp_request_equiv fs fs' : req_equiv fs fs' -> interp_request fs = interp_request fs'.
Proof.
  intros (E1 & E5 & E6 & EF). unfold interp_request.
  rewrite !last_varint_proj, last_from_proj, E1, E5, E6, EF, <- !last_varint_proj, <- last_from_proj.
  reflexivity.
Qed.

Theorem request_any_wire r bs fs :
  request_ok r = true -> parse bs = Some fs -> req_equiv fs (req_fields r) ->
  decode_request bs = Ok r.
Proof.
  intros H Hp He.
  rewrite (decode_request_interp _ _ Hp), (interp_request_equiv _ _ He).
  exact (proj1 (interp_request_fields r H)).
Qed.

(* in particular the canonical writer's output for any such field list *)
Corollary request_any_fields r fs :
  request_ok r = true -> forallb field_ok fs = true -> req_equiv fs (req_fields r) ->
  decode_request (enc_fields fs) = Ok r.
Proof. intros H Hok He. exact (request_any_wire r _ fs H (parse_ok _ Hok) He). Qed.

(* a permutation of fields that occupy distinct slots preserves the projections, so
   C14_request_any_order is an instance; here only the decoded results are related *)

(* ---- block data ---- *)
Definition interp_block_data (fs : list field) : outcome block_data :=
    let hash := to_hash (match last_bytes 1 fs None with Some b => b | None => [] end) in
    let hdr := match last_bytes 2 fs None with
               | None => Ok None
               | Some b => match decode header b with
                           | Some (v, _) => Ok (Some v)
                           | None => Err 4
                           end
               end in
    let bdy := match all_bytes 3 fs with
               | [] => Ok None
               | items =>
                 match decode body (compact (lenN items) ++ concat items) with
                 | Some (v, _) => match vals_bytes v with Some l => Ok (Some l) | None => Err 5 end
                 | None => Err 5
                 end
               end in
    let just := match last_bytes 6 fs None with
                | Some j => Some j
                | None => if last_varint 7 fs 0 =? 0 then None else Some []
                end in
    match hdr, bdy with
    | Ok h, Ok b => Ok (mk_bd hash h b (last_bytes 4 fs None) (last_bytes 5 fs None) just)
    | Err c, _ => Err c
    | _, Err c => Err c
    | _, _ => Err 9
    end.

Lemma decode_block_data_interp m fs : parse m = Some fs -> decode_block_data m = interp_block_data fs.
Proof. intro H. unfold decode_block_data. rewrite H. reflexivity. Qed.

Lemma interp_bd_fields d : block_data_ok d = true -> interp_block_data (bd_fields d) = Ok (normalise d).
Proof.
  intro H. rewrite <- (decode_block_data_interp _ _ (parse_ok _ (bd_fields_ok d H))).
  now apply decode_block_data_ok.
Qed.

Definition bd_equiv (fs fs' : list field) : Prop :=
  all_bytes 1 fs = all_bytes 1 fs' /\ all_bytes 2 fs = all_bytes 2 fs' /\ all_bytes 3 fs = all_bytes 3 fs' /\
  all_bytes 4 fs = all_bytes 4 fs' /\ all_bytes 5 fs = all_bytes 5 fs' /\ all_bytes 6 fs = all_bytes 6 fs' /\
  varints 7 fs = varints 7 fs'.

Lemma interp_bd_equiv fs fs' : bd_equiv fs fs' -> interp_block_data fs = interp_block_data fs'.
Proof.
  intros (E1 & E2 & E3 & E4 & E5 & E6 & E7). unfold interp_block_data.
  rewrite !last_bytes_proj, last_varint_proj, E1, E2, E3, E4, E5, E6, E7,
    <- !last_bytes_proj, <- last_varint_proj.
  reflexivity.
Qed.

Theorem block_data_any_wire d m fs :
  block_data_ok d = true -> parse m = Some fs -> bd_equiv fs (bd_fields d) ->
  decode_block_data m = Ok (normalise d).
Proof.
  intros H Hp He.
  rewrite (decode_block_data_interp _ _ Hp), (interp_bd_equiv _ _ He).
  now apply interp_bd_fields.
Qed.

(* ---- responses: the blocks in order, each in any accepted encoding; unknown fields between ---- *)
Inductive blocks_of : list (list byte) -> list block_data -> Prop :=
| blocks_nil : blocks_of [] []
| blocks_cons m d ms ds gs :
    parse m = Some gs -> bd_equiv gs (bd_fields d) ->
    block_data_ok d = true -> blocks_of ms ds -> blocks_of (m :: ms) (d :: ds).

Theorem response_any_wire bs fs ds :
  parse bs = Some fs -> blocks_of (all_bytes 1 fs) ds ->
  decode_response bs = Ok (map normalise ds).
Proof.
  intros Hp Hb. unfold decode_response. rewrite Hp.
  induction Hb as [|m d ms ds gs Hg He Hd _ IH]; [reflexivity|].
  cbn [map sequence]. rewrite (block_data_any_wire d m gs Hd Hg He), IH. reflexivity.
Qed.

(* the canonical encoding is one of them *)
Lemma blocks_of_canonical ds : forallb block_data_ok ds = true ->
  blocks_of (map (fun d => enc_fields (bd_fields d)) ds) ds.
Proof.
  induction ds as [|d ds IH]; intro H; [constructor|].
  cbn [forallb] in H. apply andb_prop in H as [Hd Hds].
  cbn [map]. econstructor; [apply parse_ok; now apply bd_fields_ok | | exact Hd | now apply IH].
  repeat split.
Qed.
