(* C14/ProofsOrder.v — a block request decodes to the same message whatever the order of its
   fields on the wire (proto3 field order is not significant; protobuf-go, prost and others
   emit different orders). *)
From Coq Require Import Permutation.
From Common Require Import Bytes Outcome.
From C14 Require Import Proofs.
Local Open Scope N_scope.

(* the slot a field occupies in a BlockRequest: the oneof members 2 and 3 share one *)
Definition slot (f : field) : N := if fst f =? 3 then 2 else fst f.

Lemma slot_key_eq (x y : field) : fst x = fst y -> slot x = slot y.
Proof. unfold slot. now intros ->. Qed.

Lemma last_varint_perm k fs fs' : Permutation fs fs' -> NoDup (map slot fs) ->
  forall acc, last_varint k fs acc = last_varint k fs' acc.
Proof.
  induction 1 as [|x l l' HP IH|x y l|l l' l'' HP1 IH1 HP2 IH2]; intros ND acc.
  - reflexivity.
  - cbn [map] in ND. apply NoDup_cons_iff in ND as [_ ND].
    destruct x as [kx []]; cbn [last_varint]; apply IH; assumption.
  - cbn [map] in ND. apply NoDup_cons_iff in ND as [Hn _].
    assert (Hk : fst y <> fst x).
    { intro E. apply Hn. left. symmetry. now apply slot_key_eq. }
    destruct x as [kx []], y as [ky []]; cbn [last_varint fst] in *; try reflexivity.
    destruct (N.eqb_spec kx k), (N.eqb_spec ky k); try reflexivity. congruence.
  - rewrite IH1 by assumption. apply IH2.
    apply (Permutation_NoDup (Permutation_map slot HP1) ND).
Qed.

Lemma last_from_perm fs fs' : Permutation fs fs' -> NoDup (map slot fs) ->
  forall acc, last_from fs acc = last_from fs' acc.
Proof.
  induction 1 as [|x l l' HP IH|x y l|l l' l'' HP1 IH1 HP2 IH2]; intros ND acc.
  - reflexivity.
  - cbn [map] in ND. apply NoDup_cons_iff in ND as [_ ND].
    destruct x as [kx []]; cbn [last_from]; apply IH; assumption.
  - cbn [map] in ND. apply NoDup_cons_iff in ND as [Hn _].
    assert (Hs : slot y <> slot x) by (intro E; apply Hn; left; now symmetry).
    destruct x as [kx []], y as [ky []]; cbn [last_from] in *; try reflexivity.
    unfold slot in Hs. cbn [fst] in Hs.
    destruct (N.eqb_spec kx 2), (N.eqb_spec kx 3), (N.eqb_spec ky 2), (N.eqb_spec ky 3);
      cbn [orb]; try reflexivity; subst; cbn in Hs; congruence.
  - rewrite IH1 by assumption. apply IH2.
    apply (Permutation_NoDup (Permutation_map slot HP1) ND).
Qed.

Lemma interp_request_perm fs fs' : Permutation fs fs' -> NoDup (map slot fs) ->
  interp_request fs = interp_request fs'.
Proof.
  intros HP ND. unfold interp_request.
  rewrite !(last_varint_perm _ _ _ HP ND), (last_from_perm _ _ HP ND). reflexivity.
Qed.

Lemma req_fields_nodup r : NoDup (map slot (req_fields r)).
Proof.
  unfold req_fields, req_from_field.
  destruct (rq_data r * 16777216 =? 0); destruct (rq_dir r =? 0);
    destruct (rq_max r) as [m|]; try destruct (m =? 0); destruct (rq_from r) as [h|n];
    cbn [app map slot fst N.eqb Pos.eqb];
    repeat (apply NoDup_cons; [cbn [In]; intuition discriminate|]); apply NoDup_nil.
Qed.

Lemma forallb_perm {A} (f : A -> bool) l l' : Permutation l l' -> forallb f l = true -> forallb f l' = true.
Proof.
  intros HP H. rewrite forallb_forall in *. intros x Hx. apply H.
  apply (Permutation_in _ (Permutation_sym HP) Hx).
Qed.

Theorem request_any_order r fs :
  request_ok r = true -> Permutation (req_fields r) fs -> decode_request (enc_fields fs) = Ok r.
Proof.
  intros H HP.
  rewrite (decode_request_interp _ _ (parse_ok _ (forallb_perm _ _ _ HP (req_fields_ok r H)))).
  rewrite <- (interp_request_perm _ _ HP (req_fields_nodup r)).
  exact (proj1 (interp_request_fields r H)).
Qed.
