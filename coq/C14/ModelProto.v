(* C14/ModelProto.v — proto3 wire format for exactly the messages of
   dot/network/proto/api.v1.proto that carry block requests and responses (BlockRequest,
   BlockResponse, BlockData), and dot/network/messages/block.go's mapping between them and
   BlockRequestMessage / BlockResponseMessage; definitions only.
   Wire format (protobuf encoding specification): a message is a sequence of fields, each a
   varint key (field_number << 3 | wire_type) followed by a varint (wire type 0) or a
   length-delimited byte string (wire type 2); proto3 scalar fields at their default value are
   not emitted; fields are emitted in field-number order. *)
From Common Require Import Bytes Outcome.
From C14 Require Import ModelScale ModelTypes.
Local Open Scope N_scope.

(* ---- varints (base 128, little-endian groups, at most 10 bytes for 64 bits) ---- *)
Fixpoint varint_fuel (fuel : nat) (n : N) : list byte :=
  match fuel with
  | O => []
  | S f => if n <? 128 then [n2b n]
           else n2b (n mod 128 + 128) :: varint_fuel f (n / 128)
  end.
Definition varint (n : N) : list byte := varint_fuel 10 n.

Fixpoint decode_varint_fuel (fuel : nat) (bs : list byte) : option (N * list byte) :=
  match fuel with
  | O => None
  | S f =>
    match bs with
    | [] => None
    | b :: r =>
      if b2n b <? 128 then Some (b2n b, r)
      else match decode_varint_fuel f r with
           | Some (m, r') => Some (b2n b - 128 + 128 * m, r')
           | None => None
           end
    end
  end.
Definition decode_varint (bs : list byte) : option (N * list byte) := decode_varint_fuel 10 bs.

(* ---- fields ---- *)
(* wire types 0 (varint), 2 (length-delimited), 1 (64-bit) and 5 (32-bit).  The messages here have
   no fixed-width fields, but a parser must skip such fields when another implementation sends
   them (as unknown fields); groups (wire types 3/4, deprecated) are not modelled: [parse] refuses
   them, protobuf-go skips a well-formed unknown group. *)
Inductive wval := WVarint (n : N) | WBytes (b : list byte) | WFixed64 (b : list byte) | WFixed32 (b : list byte).
Definition field : Type := N * wval.

Definition enc_field (f : field) : list byte :=
  match f with
  | (num, WVarint v) => varint (8 * num) ++ varint v
  | (num, WBytes b) => varint (8 * num + 2) ++ varint (lenN b) ++ b
  | (num, WFixed64 b) => varint (8 * num + 1) ++ b
  | (num, WFixed32 b) => varint (8 * num + 5) ++ b
  end.
Definition enc_fields (fs : list field) : list byte := flat_map enc_field fs.

(* every field is kept, known or not; the accessors below pick the known ones by number and wire
   type, so unknown fields and known numbers with another wire type are skipped, as protobuf-go
   does *)
Fixpoint parse_fields (fuel : nat) (bs : list byte) : option (list field) :=
  match fuel with
  | O => None
  | S f =>
    match bs with
    | [] => Some []
    | _ =>
      match decode_varint bs with
      | None => None
      | Some (key, r) =>
        let num := key / 8 in
        let wt := key mod 8 in
        if (num =? 0) || (536870912 <=? num) then None   (* valid field numbers: 1 .. 2^29-1 *)
        else if wt =? 0 then
          match decode_varint r with
          | Some (v, r') =>
            match parse_fields f r' with Some fs => Some ((num, WVarint v) :: fs) | None => None end
          | None => None
          end
        else if wt =? 2 then
          match decode_varint r with
          | Some (len, r') =>
            if lenN r' <? len then None
            else match parse_fields f (skipn (N.to_nat len) r') with
                 | Some fs => Some ((num, WBytes (firstn (N.to_nat len) r')) :: fs)
                 | None => None
                 end
          | None => None
          end
        else if wt =? 1 then
          if (length r <? 8)%nat then None
          else match parse_fields f (skipn 8 r) with
               | Some fs => Some ((num, WFixed64 (firstn 8 r)) :: fs)
               | None => None
               end
        else if wt =? 5 then
          if (length r <? 4)%nat then None
          else match parse_fields f (skipn 4 r) with
               | Some fs => Some ((num, WFixed32 (firstn 4 r)) :: fs)
               | None => None
               end
        else None
      end
    end
  end.
Definition parse (bs : list byte) : option (list field) := parse_fields (S (length bs)) bs.

(* accessors with protobuf semantics: the last occurrence of a scalar field wins, repeated
   fields accumulate, unknown fields are skipped *)
Fixpoint last_varint (num : N) (fs : list field) (acc : N) : N :=
  match fs with
  | [] => acc
  | (k, WVarint v) :: r => last_varint num r (if k =? num then v else acc)
  | _ :: r => last_varint num r acc
  end.
Fixpoint last_bytes (num : N) (fs : list field) (acc : option (list byte)) : option (list byte) :=
  match fs with
  | [] => acc
  | (k, WBytes b) :: r => last_bytes num r (if k =? num then Some b else acc)
  | _ :: r => last_bytes num r acc
  end.
Fixpoint all_bytes (num : N) (fs : list field) : list (list byte) :=
  match fs with
  | [] => []
  | (k, WBytes b) :: r => if k =? num then b :: all_bytes num r else all_bytes num r
  | _ :: r => all_bytes num r
  end.

(* common.BytesToHash: right-aligned in 32 bytes, the last 32 bytes of a longer input *)
Definition to_hash (b : list byte) : list byte :=
  if (32 <? length b)%nat then skipn (length b - 32) b else pad_front 32 b.

(* ---- BlockRequestMessage ---- *)
Inductive from_block := FromHash (h : list byte) | FromNumber (n : N).
Record block_request := mk_req {
  rq_data : N;            (* RequestedData byte *)
  rq_from : from_block;
  rq_dir : N;             (* Direction byte *)
  rq_max : option N }.    (* Max *uint32 *)

Definition u32max : N := 4294967295.

(* the fields in field-number order (what the protobuf encoding guide recommends) ... *)
Definition req_from_field (r : block_request) : list field :=
  match rq_from r with
  | FromHash h => [(2, WBytes h)]
  | FromNumber n => [(3, WBytes (le_bytes 4 (N.min n u32max)))]
  end.
Definition req_fields_sorted (r : block_request) : list field :=
  (if rq_data r * 16777216 =? 0 then [] else [(1, WVarint (rq_data r * 16777216))]) ++
  req_from_field r ++
  (if rq_dir r =? 0 then [] else [(5, WVarint (rq_dir r))]) ++
  (match rq_max r with
   | Some m => if m =? 0 then [] else [(6, WVarint m)]
   | None => []
   end).
(* ... and in the order google.golang.org/protobuf emits them: the member of a oneof after all
   other fields.  Field order is not significant on the wire (parsers must accept any order),
   so both are encodings of the same message; [decode_request] is order-insensitive. *)
Definition req_fields (r : block_request) : list field :=
  (if rq_data r * 16777216 =? 0 then [] else [(1, WVarint (rq_data r * 16777216))]) ++
  (if rq_dir r =? 0 then [] else [(5, WVarint (rq_dir r))]) ++
  (match rq_max r with
   | Some m => if m =? 0 then [] else [(6, WVarint m)]
   | None => []
   end) ++
  req_from_field r.
Definition encode_request_sorted (r : block_request) : list byte := enc_fields (req_fields_sorted r).
Definition encode_request (r : block_request) : list byte := enc_fields (req_fields r).

(* BlockRequestMessage.Decode; the oneof keeps the member that came last *)
Fixpoint last_from (fs : list field) (acc : option (N * list byte)) : option (N * list byte) :=
  match fs with
  | [] => acc
  | (k, WBytes b) :: r => last_from r (if (k =? 2) || (k =? 3) then Some (k, b) else acc)
  | _ :: r => last_from r acc
  end.

Definition decode_request (bs : list byte) : outcome block_request :=
  match parse bs with
  | None => Err 1
  | Some fs =>
    let fields := last_varint 1 fs 0 mod 4294967296 in     (* uint32 field *)
    let dir := last_varint 5 fs 0 mod 256 in               (* byte(msg.Direction) *)
    let mx := last_varint 6 fs 0 mod 4294967296 in
    match last_from fs None with
    | None => Err 2
    | Some (k, b) =>
      let from := if k =? 2 then Some (FromHash (to_hash b))
                  else if (length b =? 4)%nat then Some (FromNumber (le_val b)) else None in
      match from with
      | None => Err 3
      | Some fb => Ok (mk_req ((fields / 16777216) mod 256) fb dir (if mx =? 0 then None else Some mx))
      end
    end
  end.

(* requests within the message's domain: byte fields are bytes, a number is a u32 block number,
   a hash has 32 bytes, Max is a non-zero u32 when present (0 means "unspecified" on the wire) *)
Definition request_ok (r : block_request) : bool :=
  (rq_data r <? 256) && (rq_dir r <? 256) &&
  (match rq_from r with FromHash h => (length h =? 32)%nat | FromNumber n => n <=? u32max end) &&
  (match rq_max r with Some m => (0 <? m) && (m <=? u32max) | None => true end).

(* ---- BlockResponseMessage ---- *)
Record block_data := mk_bd {
  bd_hash : list byte;
  bd_header : option val;                 (* a value of wire type [header] *)
  bd_body : option (list (list byte));    (* extrinsics *)
  bd_receipt : option (list byte);
  bd_mq : option (list byte);
  bd_just : option (list byte) }.

Definition opt_bytes_field (num : N) (o : option (list byte)) : list field :=
  match o with
  | Some (x :: r) => [(num, WBytes (x :: r))]
  | _ => []
  end.

Definition bd_fields (d : block_data) : list field :=
  opt_bytes_field 1 (Some (bd_hash d)) ++
  opt_bytes_field 2 (option_map (encode header) (bd_header d)) ++
  (match bd_body d with
   | Some exts => map (fun e => (3, WBytes (encode TBytes (VB e)))) exts
   | None => []
   end) ++
  opt_bytes_field 4 (bd_receipt d) ++
  opt_bytes_field 5 (bd_mq d) ++
  (match bd_just d with
   | Some [] => [(7, WVarint 1)]
   | Some j => [(6, WBytes j)]
   | None => []
   end).

Definition encode_response (ds : list block_data) : list byte :=
  enc_fields (map (fun d => (1, WBytes (enc_fields (bd_fields d)))) ds).

Definition vals_bytes (v : val) : option (list (list byte)) :=
  match v with
  | VL l => fold_right (fun x acc => match x, acc with VB b, Some r => Some (b :: r) | _, _ => None end) (Some []) l
  | _ => None
  end.

(* protobufToBlockData *)
Definition decode_block_data (m : list byte) : outcome block_data :=
  match parse m with
  | None => Err 1
  | Some fs =>
    let hash := to_hash (match last_bytes 1 fs None with Some b => b | None => [] end) in
    let hdr := match last_bytes 2 fs None with
               | None => Ok None
               | Some b => match decode header b with     (* scale.Unmarshal: trailing bytes ignored *)
                           | Some (v, _) => Ok (Some v)
                           | None => Err 4
                           end
               end in
    let bdy := match all_bytes 3 fs with
               | [] => Ok None
               | items =>
                 (* NewBodyFromEncodedBytes: compact count, the items concatenated, decoded as
                    Vec<Vec<u8>> *)
                 match decode body (compact (lenN items) ++ concat items) with
                 | Some (v, _) => match vals_bytes v with Some l => Ok (Some l) | None => Err 5 end
                 | None => Err 5
                 end
               end in
    let just := match last_bytes 6 fs None with
                | Some j => Some j
                | None => if last_varint 7 fs 0 =? 0 then None else Some []
                end in
    match hdr, bdy with
    | Ok h, Ok b => Ok (mk_bd hash h b (last_bytes 4 fs None) (last_bytes 5 fs None) just)
    | Err c, _ => Err c
    | _, Err c => Err c
    | _, _ => Err 9
    end
  end.

Fixpoint sequence {A} (l : list (outcome A)) : outcome (list A) :=
  match l with
  | [] => Ok []
  | x :: r => match x, sequence r with
              | Ok a, Ok s => Ok (a :: s)
              | Err c, _ => Err c
              | _, Err c => Err c
              | _, _ => Err 9
              end
  end.

Definition decode_response (bs : list byte) : outcome (list block_data) :=
  match parse bs with
  | None => Err 1
  | Some fs => sequence (map decode_block_data (all_bytes 1 fs))
  end.

(* what survives the wire: proto3 cannot tell an empty body / receipt / message queue from an
   absent one (only the justification has the is_empty_justification flag) *)
Definition norm_opt {A} (o : option (list A)) : option (list A) :=
  match o with Some [] => None | _ => o end.
Definition normalise (d : block_data) : block_data :=
  mk_bd (bd_hash d) (bd_header d) (norm_opt (bd_body d)) (norm_opt (bd_receipt d))
        (norm_opt (bd_mq d)) (bd_just d).

(* block data within the message's domain: a 32-byte hash, well-typed header and extrinsics,
   and sizes that fit a protobuf length prefix (64 bits) *)
Definition size_max : N := 18446744073709551616.
Definition block_data_ok (d : block_data) : bool :=
  (length (bd_hash d) =? 32)%nat &&
  (match bd_header d with
   | Some v => has_type header v && (lenN (encode header v) <? size_max)
   | None => true
   end) &&
  (match bd_body d with Some exts => has_type body (VL (map VB exts)) | None => true end) &&
  (match bd_receipt d with Some b => lenN b <? size_max | None => true end) &&
  (match bd_mq d with Some b => lenN b <? size_max | None => true end) &&
  (match bd_just d with Some b => lenN b <? size_max | None => true end) &&
  (lenN (enc_fields (bd_fields d)) <? size_max).
