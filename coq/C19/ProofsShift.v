(* C19/ProofsShift.v — the verdict does not depend on the magnitude of the block numbers.
   Adding any constant k to every block number of a justification (the numbers of the precommits,
   of the ancestry headers, of the commit target and of the finalized target) leaves the outcome
   of ValidateCommit and of the justification verification unchanged: the repaired code only
   compares numbers with each other and adds a depth to the base number.  In particular a
   justification whose numbers need 64 bits has the verdict of the same justification moved into
   the 32-bit range, and vice versa.  No hypothesis on the inputs. *)
From Coq Require Import List NArith Bool Lia ZifyN ZifyNat ZifyBool.
From C19 Require Import Model.
Import ListNotations.
Local Open Scope N_scope.

Definition sh_pc (k : N) (p : precommit) : precommit :=
  mkPc (p_hash p) (p_num p + k) (p_id p) (p_sig p) (p_ok p).
Definition sh_hdr (k : N) (h : hdr) : hdr := mkHdr (h_hash h) (h_parent h) (h_num h + k).
Definition sh_mult (k : N) (x : mult) : mult :=
  match x with
  | Single a => Single (sh_pc k a)
  | Equivocated a b => Equivocated (sh_pc k a) (sh_pc k b)
  end.
Definition sh_votes (k : N) (m : list (N * mult)) : list (N * mult) :=
  map (fun e => (fst e, sh_mult k (snd e))) m.
Definition sh_tally (k : N) (t : tally) : tally := mkTally (sh_votes k (t_votes t)) (t_dup t) (t_eqv t).

Section Shift.
Variable k : N.
Notation shp := (sh_pc k).
Notation shh := (sh_hdr k).

(* ---- the chain ---- *)
Lemma find_hdr_sh hs h : find_hdr (map shh hs) h = option_map shh (find_hdr hs h).
Proof.
  induction hs as [|x r IH]; cbn; [reflexivity|].
  destruct (h_hash x =? h); [reflexivity | exact IH].
Qed.

Lemma ancestry_fuel_sh hs base : forall fuel cur acc,
  ancestry_fuel fuel (map shh hs) base cur acc = ancestry_fuel fuel hs base cur acc.
Proof.
  induction fuel as [|f IH]; intros cur acc; cbn [ancestry_fuel].
  - reflexivity.
  - destruct (cur =? base); [reflexivity|]. rewrite find_hdr_sh.
    destruct (find_hdr hs cur) as [x|]; cbn [option_map]; [|reflexivity]. apply IH.
Qed.

Lemma ancestry_sh hs base blk : ancestry (map shh hs) base blk = ancestry hs base blk.
Proof. unfold ancestry. rewrite map_length. apply ancestry_fuel_sh. Qed.

Lemma is_eq_or_desc_sh hs base blk : is_eq_or_desc (map shh hs) base blk = is_eq_or_desc hs base blk.
Proof. unfold is_eq_or_desc. now rewrite ancestry_sh. Qed.

Lemma child_towards_sh hs b t : child_towards (map shh hs) b t = child_towards hs b t.
Proof. unfold child_towards. now rewrite ancestry_sh. Qed.

(* ---- precommits ---- *)
Lemma same_vote_sig_sh a b : same_vote_sig (shp a) (shp b) = same_vote_sig a b.
Proof.
  unfold same_vote_sig, sh_pc. cbn.
  replace (p_num a + k =? p_num b + k) with (p_num a =? p_num b); [reflexivity|].
  destruct (N.eqb_spec (p_num a) (p_num b)), (N.eqb_spec (p_num a + k) (p_num b + k)); try reflexivity; lia.
Qed.

Lemma filter_members_sh vs ps :
  filter (fun p => vs_contains vs (p_id p)) (map shp ps)
  = map shp (filter (fun p => vs_contains vs (p_id p)) ps).
Proof.
  induction ps as [|p r IH]; cbn; [reflexivity|].
  destruct (vs_contains vs (p_id p)); cbn; now rewrite IH.
Qed.

Lemma first_min_sh ps : forall best, first_min (shp best) (map shp ps) = shp (first_min best ps).
Proof.
  induction ps as [|p r IH]; intros best; cbn [first_min map]; [reflexivity|].
  replace (p_num (shp p) <? p_num (shp best)) with (p_num p <? p_num best).
  - destruct (p_num p <? p_num best); apply IH.
  - cbn. destruct (N.ltb_spec (p_num p) (p_num best)), (N.ltb_spec (p_num p + k) (p_num best + k));
      try reflexivity; lia.
Qed.

Lemma last_min_sh ps : forall best, last_min (shp best) (map shp ps) = shp (last_min best ps).
Proof.
  induction ps as [|p r IH]; intros best; cbn [last_min map]; [reflexivity|].
  replace (p_num (shp p) <=? p_num (shp best)) with (p_num p <=? p_num best).
  - destruct (p_num p <=? p_num best); apply IH.
  - cbn. destruct (N.leb_spec (p_num p) (p_num best)), (N.leb_spec (p_num p + k) (p_num best + k));
      try reflexivity; lia.
Qed.

(* ---- the vote tracker ---- *)
Lemma mt_get_sh id m : mt_get id (sh_votes k m) = option_map (sh_mult k) (mt_get id m).
Proof.
  induction m as [|[i x] r IH]; cbn; [reflexivity|].
  destruct (id =? i); [reflexivity | exact IH].
Qed.
Lemma mt_set_sh id x m : mt_set id (sh_mult k x) (sh_votes k m) = sh_votes k (mt_set id x m).
Proof.
  induction m as [|[i y] r IH]; cbn; [reflexivity|].
  destruct (id =? i); cbn; [reflexivity|]. f_equal. exact IH.
Qed.

Lemma import1_sh t p : import1 (sh_tally k t) (shp p) = sh_tally k (import1 t p).
Proof.
  unfold import1. cbn [sh_tally t_votes t_dup t_eqv]. replace (p_id (shp p)) with (p_id p) by reflexivity.
  rewrite mt_get_sh. destruct (mt_get (p_id p) (t_votes t)) as [[a|a b]|]; cbn [option_map sh_mult].
  - rewrite same_vote_sig_sh. destruct (same_vote_sig a p); [reflexivity|].
    unfold sh_tally. cbn [t_votes t_dup t_eqv]. f_equal.
    exact (mt_set_sh (p_id p) (Equivocated a p) (t_votes t)).
  - rewrite !same_vote_sig_sh. destruct (same_vote_sig a p || same_vote_sig b p); reflexivity.
  - unfold sh_tally. cbn [t_votes t_dup t_eqv]. f_equal.
    exact (mt_set_sh (p_id p) (Single p) (t_votes t)).
Qed.

Lemma import_all_sh ps : import_all (map shp ps) = sh_tally k (import_all ps).
Proof.
  unfold import_all.
  assert (G : forall t, fold_left import1 (map shp ps) (sh_tally k t) = sh_tally k (fold_left import1 ps t)).
  { induction ps as [|p r IH]; intros t; cbn [fold_left map]; [reflexivity|].
    rewrite import1_sh. apply IH. }
  exact (G (mkTally [] 0 0)).
Qed.

(* ---- the GHOST specification ---- *)
Lemma vote_weight_sh vs hs b e :
  vote_weight vs (map shh hs) b (fst e, sh_mult k (snd e)) = vote_weight vs hs b e.
Proof.
  unfold vote_weight. cbn [fst snd]. destruct (snd e) as [a|a c]; cbn [sh_mult].
  - replace (p_hash (shp a)) with (p_hash a) by reflexivity. now rewrite is_eq_or_desc_sh.
  - reflexivity.
Qed.
Lemma block_weight_sh vs hs votes b :
  block_weight vs (map shh hs) (sh_votes k votes) b = block_weight vs hs votes b.
Proof.
  unfold block_weight, sh_votes. induction votes as [|e r IH]; cbn [map fold_right]; [reflexivity|].
  now rewrite vote_weight_sh, IH.
Qed.
Lemma current_weight_sh vs votes : current_weight vs (sh_votes k votes) = current_weight vs votes.
Proof.
  unfold current_weight, sh_votes. induction votes as [|e r IH]; cbn [map fold_right fst]; [reflexivity|].
  now rewrite IH.
Qed.
Lemma first_target_sh x : first_target (sh_mult k x) = first_target x.
Proof. destruct x; reflexivity. Qed.
Lemma children_sh hs votes b : children (map shh hs) (sh_votes k votes) b = children hs votes b.
Proof.
  unfold children. f_equal. unfold sh_votes.
  induction votes as [|e r IH]; cbn [map flat_map]; [reflexivity|].
  cbn [snd]. now rewrite first_target_sh, child_towards_sh, IH.
Qed.

Lemma ghost_descend_sh vs hs votes : forall fuel cur depth,
  ghost_descend fuel vs (map shh hs) (sh_votes k votes) cur depth = ghost_descend fuel vs hs votes cur depth.
Proof.
  induction fuel as [|f IH]; intros cur depth; cbn [ghost_descend]; [reflexivity|].
  rewrite children_sh.
  assert (E : filter (fun c => vs_threshold vs <=? block_weight vs (map shh hs) (sh_votes k votes) c)
                     (children hs votes cur)
              = filter (fun c => vs_threshold vs <=? block_weight vs hs votes c) (children hs votes cur)).
  { apply filter_ext. intros c. now rewrite block_weight_sh. }
  rewrite E.
  destruct (filter (fun c => vs_threshold vs <=? block_weight vs hs votes c) (children hs votes cur))
    as [|c [|c' r]]; [reflexivity | apply IH | reflexivity].
Qed.

Lemma precommit_ghost_sh vs hs votes base :
  precommit_ghost vs (map shh hs) (sh_votes k votes) base = precommit_ghost vs hs votes base.
Proof.
  unfold precommit_ghost. rewrite current_weight_sh, block_weight_sh, map_length.
  destruct (_ <? _); [reflexivity|]. destruct (_ <? _); [reflexivity|]. apply ghost_descend_sh.
Qed.

(* ---- ValidateCommit ---- *)
Lemma forallb_desc_sh hs base ps :
  forallb (fun p => is_eq_or_desc (map shh hs) base (p_hash p)) (map shp ps)
  = forallb (fun p => is_eq_or_desc hs base (p_hash p)) ps.
Proof.
  induction ps as [|p r IH]; cbn [map forallb]; [reflexivity|].
  replace (p_hash (shp p)) with (p_hash p) by reflexivity. now rewrite is_eq_or_desc_sh, IH.
Qed.

Lemma eqb_add_cancel a b : (a + k =? b + k) = (a =? b).
Proof. destruct (N.eqb_spec a b), (N.eqb_spec (a + k) (b + k)); try reflexivity; lia. Qed.

Lemma validate_with_base_sh vs hs thash tnum all valid_ps base :
  validate_with_base vs (map shh hs) thash (tnum + k) (map shp all) (map shp valid_ps) (shp base)
  = validate_with_base vs hs thash tnum all valid_ps base.
Proof.
  unfold validate_with_base. rewrite !map_length.
  replace (p_hash (shp base)) with (p_hash base) by reflexivity.
  rewrite forallb_desc_sh. destruct (negb _); [reflexivity|].
  rewrite import_all_sh. cbn [sh_tally t_votes t_dup t_eqv]. rewrite precommit_ghost_sh.
  destruct (precommit_ghost vs hs (t_votes (import_all valid_ps)) (p_hash base)) as [|g d|]; try reflexivity.
  replace (p_num (shp base) + d =? tnum + k) with (p_num base + d =? tnum); [reflexivity|].
  cbn. replace (p_num base + k + d) with (p_num base + d + k) by lia. now rewrite eqb_add_cancel.
Qed.

Lemma validate_commit_sh vs hs thash tnum ps :
  validate_commit vs (map shh hs) thash (tnum + k) (map shp ps) = validate_commit vs hs thash tnum ps.
Proof.
  unfold validate_commit. rewrite filter_members_sh.
  destruct (filter (fun p => vs_contains vs (p_id p)) ps) as [|p0 r] eqn:F; cbn [map].
  - now rewrite map_length.
  - rewrite first_min_sh. change (shp p0 :: map shp r) with (map shp (p0 :: r)).
    apply validate_with_base_sh.
Qed.

(* ---- verifyWithVoterSet ---- *)
Lemma visit_sh hs base ps : forall visited,
  visit (map shh hs) base (map shp ps) visited = visit hs base ps visited.
Proof.
  induction ps as [|p r IH]; intros visited; cbn [visit map]; [reflexivity|].
  replace (p_ok (shp p)) with (p_ok p) by reflexivity.
  replace (p_hash (shp p)) with (p_hash p) by reflexivity.
  destruct (negb (p_ok p)); [reflexivity|]. destruct (base =? p_hash p); [apply IH|].
  rewrite ancestry_sh. destruct (ancestry hs base (p_hash p)); [apply IH | reflexivity].
Qed.

Lemma map_hash_sh hs : map h_hash (map shh hs) = map h_hash hs.
Proof. rewrite map_map. apply map_ext. reflexivity. Qed.

Lemma verify_with_voter_set_sh vs hs thash tnum ps :
  verify_with_voter_set vs (map shh hs) thash (tnum + k) (map shp ps)
  = verify_with_voter_set vs hs thash tnum ps.
Proof.
  unfold verify_with_voter_set. rewrite validate_commit_sh.
  destruct (validate_commit vs hs thash tnum ps) as [r|]; [|reflexivity].
  destruct (negb (r_valid r)); [reflexivity|].
  destruct ps as [|p0 rest]; cbn [map]; [reflexivity|].
  rewrite last_min_sh. replace (p_hash (shp (last_min p0 rest))) with (p_hash (last_min p0 rest)) by reflexivity.
  change (shp p0 :: map shp rest) with (map shp (p0 :: rest)).
  rewrite visit_sh, map_hash_sh. reflexivity.
Qed.

Lemma verify_finalizes_sh vs hs fhash fnum thash tnum ps :
  verify_finalizes vs (map shh hs) fhash (fnum + k) thash (tnum + k) (map shp ps)
  = verify_finalizes vs hs fhash fnum thash tnum ps.
Proof.
  unfold verify_finalizes. rewrite eqb_add_cancel, verify_with_voter_set_sh. reflexivity.
Qed.

End Shift.

(* the accepted witness of Properties.v moved by 2^32: same verdict *)
Example shift_witness :
  let k := 4294967296 in
  verify_finalizes (mkVS [(0, 1); (1, 1); (2, 1)] 3 3) (map (sh_hdr k) [mkHdr 2 1 7]) 1 (6 + k) 1 (6 + k)
    (map (sh_pc k) [mkPc 2 7 0 0 true; mkPc 1 6 1 0 true; mkPc 1 6 2 0 true]) = JOk.
Proof. vm_compute. reflexivity. Qed.
