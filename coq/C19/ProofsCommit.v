(* C19/ProofsCommit.v — soundness of ValidateCommit / verifyWithVoterSet: what an accepted
   justification guarantees. *)
From Coq Require Import List NArith ZArith Bool Lia Permutation ZifyN ZifyNat ZifyBool.
From C19 Require Import Model ProofsVoterSet.
Import ListNotations.
Local Open Scope N_scope.

(* ---------- nodupN ---------- *)
Lemma existsb_eqb_In x l : existsb (N.eqb x) l = true <-> In x l.
Proof.
  rewrite existsb_exists. split.
  - intros [y [Hy E]]. apply N.eqb_eq in E. now subst.
  - intros H. exists x. split; [assumption | apply N.eqb_refl].
Qed.
Lemma In_nodupN x l : In x (nodupN l) <-> In x l.
Proof.
  induction l as [|a r IH]; cbn; [tauto|].
  destruct (existsb (N.eqb a) r) eqn:E.
  - apply existsb_eqb_In in E. rewrite IH. split; [auto|]. intros [<-|?]; assumption.
  - cbn. rewrite IH. tauto.
Qed.
Lemma NoDup_nodupN l : NoDup (nodupN l).
Proof.
  induction l as [|a r IH]; cbn; [constructor|].
  destruct (existsb (N.eqb a) r) eqn:E; [assumption|].
  constructor; [|assumption]. rewrite In_nodupN. intros H. apply existsb_eqb_In in H. congruence.
Qed.

Lemma NoDup_app_intro {A} (l1 l2 : list A) :
  NoDup l1 -> NoDup l2 -> (forall x, In x l1 -> In x l2 -> False) -> NoDup (l1 ++ l2).
Proof.
  induction l1 as [|a l1 IH]; cbn; intros N1 N2 D; [assumption|].
  inversion N1; subst. constructor.
  - rewrite in_app_iff. intros [?|?]; [contradiction | eapply D; eauto].
  - apply IH; auto. intros x ? ?. eapply D; eauto.
Qed.

(* ---------- the vote tracker ---------- *)
Definition mhead (x : mult) : precommit := match x with Single a => a | Equivocated a _ => a end.
Definition is_eq (x : mult) : bool := match x with Single _ => false | Equivocated _ _ => true end.

Lemma mt_get_set id' id x m :
  mt_get id' (mt_set id x m) = if id' =? id then Some x else mt_get id' m.
Proof.
  induction m as [|[k y] r IH]; cbn.
  - destruct (id' =? id); reflexivity.
  - destruct (N.eqb_spec id k).
    + subst. cbn. destruct (N.eqb_spec id' k); reflexivity.
    + cbn. destruct (N.eqb_spec id' k).
      * subst. destruct (N.eqb_spec k id); [congruence | reflexivity].
      * apply IH.
Qed.

Lemma keys_mt_set id x m :
  map fst (mt_set id x m) = if existsb (N.eqb id) (map fst m) then map fst m else map fst m ++ [id].
Proof.
  induction m as [|[k y] r IH]; cbn; [reflexivity|].
  destruct (N.eqb_spec id k); cbn.
  - subst. reflexivity.
  - rewrite IH. destruct (existsb (N.eqb id) (map fst r)); reflexivity.
Qed.

Lemma mt_get_None_keys id m : mt_get id m = None <-> ~ In id (map fst m).
Proof.
  induction m as [|[k y] r IH]; cbn; [tauto|].
  destruct (N.eqb_spec id k).
  - subst. split; [discriminate | intros H; exfalso; apply H; now left].
  - rewrite IH. split; [intros H [E|Hin]; [congruence | contradiction] | intros H Hin; apply H; now right].
Qed.

Lemma import1_keys t p :
  NoDup (map fst (t_votes t)) ->
  NoDup (map fst (t_votes (import1 t p))) /\
  (forall id, In id (map fst (t_votes (import1 t p))) <-> In id (map fst (t_votes t)) \/ id = p_id p).
Proof.
  intros ND. unfold import1.
  destruct (mt_get (p_id p) (t_votes t)) as [x|] eqn:G.
  - assert (Hin : In (p_id p) (map fst (t_votes t))).
    { destruct (in_dec N.eq_dec (p_id p) (map fst (t_votes t))); [assumption|].
      apply mt_get_None_keys in n. congruence. }
    assert (Hk : forall y, map fst (mt_set (p_id p) y (t_votes t)) = map fst (t_votes t)).
    { intros y. rewrite keys_mt_set. apply existsb_eqb_In in Hin. now rewrite Hin. }
    destruct x as [a|a b].
    + destruct (same_vote_sig a p); cbn [t_votes]; rewrite ?Hk; (split; [assumption|]);
        intros id; split; auto; intros [?| ->]; auto.
    + destruct (same_vote_sig a p || same_vote_sig b p); cbn [t_votes]; (split; [assumption|]);
        intros id; split; auto; intros [?| ->]; auto.
  - apply mt_get_None_keys in G. cbn [t_votes]. rewrite keys_mt_set.
    destruct (existsb (N.eqb (p_id p)) (map fst (t_votes t))) eqn:E; [apply existsb_eqb_In in E; contradiction|].
    split.
    + apply NoDup_app_intro; [assumption | constructor; [intros []|constructor] |].
      intros x H1 [<-|[]]. contradiction.
    + intros id. rewrite in_app_iff. cbn. intuition.
Qed.

(* the tally after importing [ps] from state [t], per voter *)
Lemma import_fold ps : forall t id,
  match mt_get id (t_votes t) with
  | None =>
    match votes_of id ps with
    | [] => mt_get id (t_votes (fold_left import1 ps t)) = None
    | a :: r => exists x, mt_get id (t_votes (fold_left import1 ps t)) = Some x /\ mhead x = a
                          /\ is_eq x = negb (forallb (same_vote_sig a) r)
    end
  | Some x0 =>
    exists x, mt_get id (t_votes (fold_left import1 ps t)) = Some x /\ mhead x = mhead x0
              /\ is_eq x = is_eq x0 || negb (forallb (same_vote_sig (mhead x0)) (votes_of id ps))
  end.
Proof.
  induction ps as [|p r IH]; intros t id.
  - cbn. destruct (mt_get id (t_votes t)) as [x0|]; [|reflexivity].
    exists x0. rewrite orb_false_r. auto.
  - cbn [fold_left]. specialize (IH (import1 t p) id).
    unfold votes_of in *. cbn [filter].
    destruct (N.eqb_spec (p_id p) id) as [E|NE].
    + (* p is a vote of id *)
      subst id. unfold import1 in IH |- *.
      destruct (mt_get (p_id p) (t_votes t)) as [x0|] eqn:G.
      * destruct x0 as [a|a b].
        -- destruct (same_vote_sig a p) eqn:S; cbn [t_votes] in IH.
           ++ rewrite G in IH. destruct IH as [x [H1 [H2 H3]]]. exists x. cbn [forallb mhead is_eq] in *.
              rewrite S. auto.
           ++ rewrite mt_get_set, N.eqb_refl in IH. destruct IH as [x [H1 [H2 H3]]].
              exists x. cbn [forallb mhead is_eq] in *. rewrite S. cbn. auto.
        -- destruct (same_vote_sig a p || same_vote_sig b p); cbn [t_votes] in IH; rewrite G in IH;
             destruct IH as [x [H1 [H2 H3]]]; exists x; cbn [mhead is_eq] in *; auto.
      * cbn [t_votes] in IH. rewrite mt_get_set, N.eqb_refl in IH.
        destruct IH as [x [H1 [H2 H3]]]. exists x. cbn [mhead is_eq] in *. auto.
    + (* p belongs to another voter: the entry of id is untouched by this step *)
      assert (Hsame : mt_get id (t_votes (import1 t p)) = mt_get id (t_votes t)).
      { unfold import1. destruct (mt_get (p_id p) (t_votes t)) as [[a|a b]|]; cbn [t_votes].
        - destruct (same_vote_sig a p); cbn [t_votes]; [reflexivity|].
          rewrite mt_get_set. destruct (N.eqb_spec id (p_id p)); [congruence | reflexivity].
        - destruct (same_vote_sig a p || same_vote_sig b p); reflexivity.
        - rewrite mt_get_set. destruct (N.eqb_spec id (p_id p)); [congruence | reflexivity]. }
      rewrite Hsame in IH. exact IH.
Qed.

Lemma import_all_get ms id :
  match votes_of id ms with
  | [] => mt_get id (t_votes (import_all ms)) = None
  | a :: r => exists x, mt_get id (t_votes (import_all ms)) = Some x /\ mhead x = a
                        /\ is_eq x = is_equivocator id ms
  end.
Proof.
  pose proof (import_fold ms (mkTally [] 0 0) id) as H. cbn [t_votes mt_get] in H.
  unfold import_all, is_equivocator. destruct (votes_of id ms) as [|a r]; exact H.
Qed.

Lemma import_all_keys ms :
  NoDup (map fst (t_votes (import_all ms))) /\
  forall id, In id (map fst (t_votes (import_all ms))) <-> In id (map p_id ms).
Proof.
  unfold import_all.
  assert (G : forall ps t, NoDup (map fst (t_votes t)) ->
     NoDup (map fst (t_votes (fold_left import1 ps t))) /\
     forall id, In id (map fst (t_votes (fold_left import1 ps t))) <-> In id (map fst (t_votes t)) \/ In id (map p_id ps)).
  { induction ps as [|p r IH]; intros t ND; cbn [fold_left].
    - split; [assumption|]. intros id. cbn. tauto.
    - destruct (import1_keys t p ND) as [ND' K]. destruct (IH _ ND') as [ND'' K'].
      split; [assumption|]. intros id. rewrite K', K. cbn. intuition. }
  destruct (G ms (mkTally [] 0 0)) as [ND K]; [constructor|].
  split; [assumption|]. intros id. rewrite K. cbn. tauto.
Qed.

(* ---------- the weight the model compares with the threshold is the specification's ---------- *)
Section Weight.
Variable vs : voterset.
Variable hs : list hdr.

Lemma votes_of_nil id ms : votes_of id ms = [] <-> ~ In id (map p_id ms).
Proof.
  unfold votes_of. induction ms as [|p r IH]; cbn; [tauto|].
  destruct (N.eqb_spec (p_id p) id).
  - split; [discriminate | intros H; exfalso; apply H; now left].
  - rewrite IH. split; [intros H [E|Hin]; [congruence|contradiction] | intros H Hin; apply H; now right].
Qed.

Definition entry_weight (votes : list (N * mult)) (b id : N) : N :=
  match mt_get id votes with Some x => vote_weight vs hs b (id, x) | None => 0 end.

Lemma entry_weight_skip k x r b l :
  ~ In k l ->
  fold_right (fun id acc => entry_weight ((k, x) :: r) b id + acc) 0 l
  = fold_right (fun id acc => entry_weight r b id + acc) 0 l.
Proof.
  induction l as [|k' l IH]; intros Hnin; [reflexivity|].
  cbn [fold_right]. rewrite IH by (intros H; apply Hnin; now right). f_equal.
  unfold entry_weight. cbn [mt_get]. destruct (N.eqb_spec k' k); [|reflexivity].
  subst. exfalso. apply Hnin. now left.
Qed.

Lemma block_weight_keys votes b :
  NoDup (map fst votes) ->
  block_weight vs hs votes b = fold_right (fun id acc => entry_weight votes b id + acc) 0 (map fst votes).
Proof.
  unfold block_weight. induction votes as [|[k x] r IH]; intros ND; [reflexivity|].
  cbn [map fst fold_right]. inversion ND as [|? ? Hnin ND']; subst.
  rewrite IH by assumption. rewrite entry_weight_skip by assumption.
  f_equal. unfold entry_weight. cbn [mt_get]. rewrite N.eqb_refl. reflexivity.
Qed.

Lemma fold_weight_perm (g : N -> N) l l' :
  Permutation l l' -> fold_right (fun id acc => g id + acc) 0 l = fold_right (fun id acc => g id + acc) 0 l'.
Proof. induction 1; cbn; lia. Qed.

Lemma entry_weight_backs ms b id :
  In id (map p_id ms) -> entry_weight (t_votes (import_all ms)) b id = backs vs hs ms b id.
Proof.
  intros Hin. pose proof (import_all_get ms id) as H. unfold entry_weight, backs.
  destruct (votes_of id ms) as [|a r] eqn:V.
  - apply votes_of_nil in V. contradiction.
  - destruct H as [x [G [Hh He]]]. rewrite G. unfold vote_weight. cbn [fst snd].
    destruct x as [a'|a' b']; cbn [mhead is_eq] in *; subst; rewrite <- He; reflexivity.
Qed.

Lemma block_weight_spec ms b :
  block_weight vs hs (t_votes (import_all ms)) b = spec_weight vs hs ms b.
Proof.
  destruct (import_all_keys ms) as [ND K].
  rewrite block_weight_keys by assumption. unfold spec_weight, voter_ids.
  rewrite (fold_weight_perm (entry_weight (t_votes (import_all ms)) b) _ (nodupN (map p_id ms))).
  - assert (Hall : forall id, In id (nodupN (map p_id ms)) -> In id (map p_id ms)) by (intros id; apply In_nodupN).
    induction (nodupN (map p_id ms)) as [|id l IH]; [reflexivity|].
    cbn [fold_right]. rewrite IH by (intros; apply Hall; now right).
    rewrite entry_weight_backs by (apply Hall; now left). reflexivity.
  - apply NoDup_Permutation; [assumption | apply NoDup_nodupN|].
    intros id. rewrite K, In_nodupN. tauto.
Qed.

(* ---------- the descent only passes through blocks that have threshold weight ---------- *)
Lemma ghost_descend_weight votes : forall fuel cur d g d',
  vs_threshold vs <= block_weight vs hs votes cur ->
  ghost_descend fuel vs hs votes cur d = GBlock g d' ->
  vs_threshold vs <= block_weight vs hs votes g.
Proof.
  induction fuel as [|f IH]; intros cur d g d' W H; cbn [ghost_descend] in H.
  - discriminate.
  - destruct (filter _ (children hs votes cur)) as [|c [|c' r]] eqn:F.
    + inversion H; subst. assumption.
    + apply (IH c (d + 1) g d'); [|assumption].
      assert (Hin : In c (filter (fun c => vs_threshold vs <=? block_weight vs hs votes c) (children hs votes cur)))
        by (rewrite F; now left).
      apply filter_In in Hin. destruct Hin as [_ Hw]. now apply N.leb_le in Hw.
    + discriminate.
Qed.

Lemma precommit_ghost_weight votes base g d :
  precommit_ghost vs hs votes base = GBlock g d -> vs_threshold vs <= block_weight vs hs votes g.
Proof.
  unfold precommit_ghost. destruct (current_weight vs votes <? vs_threshold vs); [discriminate|].
  destruct (N.ltb_spec (block_weight vs hs votes base) (vs_threshold vs)); [discriminate|].
  apply ghost_descend_weight. assumption.
Qed.

(* a commit that ValidateCommit declares valid has threshold weight, by distinct set members
   (equivocators once), on the target or its descendants, and all its members' precommits are on
   the chain of the lowest one *)
Lemma validate_commit_sound thash tnum ps r :
  validate_commit vs hs thash tnum ps = VOk r -> r_valid r = true ->
  vs_threshold vs <= spec_weight vs hs (members vs ps) thash
  /\ exists p0 rest, members vs ps = p0 :: rest
       /\ forallb (fun p => is_eq_or_desc hs (p_hash (first_min p0 rest)) (p_hash p)) (members vs ps) = true.
Proof.
  unfold validate_commit. fold (members vs ps).
  destruct (members vs ps) as [|p0 rest] eqn:M.
  - intros H V. inversion H; subst. discriminate.
  - unfold validate_with_base.
    destruct (forallb _ (p0 :: rest)) eqn:FA; cbn [negb].
    + destruct (precommit_ghost vs hs (t_votes (import_all (p0 :: rest))) (p_hash (first_min p0 rest)))
        as [|g d|] eqn:G; intros H V; inversion H; subst; cbn [r_valid] in V; try discriminate.
      apply andb_true_iff in V. destruct V as [V1 _]. apply N.eqb_eq in V1. subst g.
      apply precommit_ghost_weight in G. rewrite block_weight_spec in G.
      split; [assumption|]. exists p0, rest. split; [reflexivity | assumption].
    + intros H V. inversion H; subst. discriminate.
Qed.

End Weight.

(* ---------- verifyWithVoterSet ---------- *)
Lemma visit_ok hs base : forall ps visited out,
  visit hs base ps visited = inr out ->
  forall p, In p ps -> p_ok p = true /\ is_eq_or_desc hs base (p_hash p) = true.
Proof.
  induction ps as [|q r IH]; intros visited out H p Hin; [destruct Hin|].
  cbn [visit] in H. destruct (p_ok q) eqn:OK; cbn [negb] in H; [|discriminate].
  destruct (N.eqb_spec base (p_hash q)).
  - destruct Hin as [<-|Hin]; [|eapply IH; eauto].
    split; [assumption|]. unfold is_eq_or_desc, ancestry. cbn [ancestry_fuel].
    rewrite <- e, N.eqb_refl. reflexivity.
  - destruct (ancestry hs base (p_hash q)) as [route|] eqn:A; [|discriminate].
    destruct Hin as [<-|Hin]; [|eapply IH; eauto].
    split; [assumption|]. unfold is_eq_or_desc. now rewrite A.
Qed.

Lemma verify_finalizes_sound vs hs fhash fnum thash tnum ps :
  verify_finalizes vs hs fhash fnum thash tnum ps = JOk ->
  fhash = thash /\ fnum = tnum
  /\ (exists r, validate_commit vs hs thash tnum ps = VOk r /\ r_valid r = true)
  /\ (forall p, In p ps -> p_ok p = true)
  /\ exists p0 rest, ps = p0 :: rest
       /\ forall p, In p ps -> is_eq_or_desc hs (p_hash (last_min p0 rest)) (p_hash p) = true.
Proof.
  unfold verify_finalizes.
  destruct ((fhash =? thash) && (fnum =? tnum)) eqn:T; cbn [negb]; [|discriminate].
  apply andb_true_iff in T. destruct T as [T1 T2]. apply N.eqb_eq in T1, T2.
  unfold verify_with_voter_set.
  destruct (validate_commit vs hs thash tnum ps) as [r|] eqn:VC; [|discriminate].
  destruct (r_valid r) eqn:V; cbn [negb]; [|discriminate].
  destruct ps as [|p0 rest]; [discriminate|].
  destruct (visit hs (p_hash (last_min p0 rest)) (p0 :: rest) []) as [e|visited] eqn:VI; [discriminate|].
  intros _. repeat split; auto.
  - exists r. auto.
  - intros p Hin. exact (proj1 (visit_ok _ _ _ _ _ VI p Hin)).
  - exists p0, rest. split; [reflexivity|]. intros p Hin. exact (proj2 (visit_ok _ _ _ _ _ VI p Hin)).
Qed.

(* ---------- witnesses for the pinned tree ---------- *)
(* chain 0 <- 1 <- 2 (numbers 5, 6, 7); three voters of weight 1; the header of block 2 and 1 *)
Definition w_vs : voterset := mkVS [(0, 1); (1, 1); (2, 1)] 3 3.
Definition w_hs : list hdr := [mkHdr 2 1 7; mkHdr 1 0 6].
(* precommits listed highest first: 2, 1, 1 *)
Definition w_pcs : list precommit :=
  [mkPc 2 7 0 0 true; mkPc 1 6 1 0 true; mkPc 1 6 2 0 true].

Lemma width_witness :
  validate_commit_prefix 32 w_vs w_hs 1 6 w_pcs = PV (VOk (mkVR false 3 0 0 0))
  /\ validate_commit_prefix 64 w_vs w_hs 1 6 w_pcs = PV (VOk (mkVR true 3 0 0 0))
  /\ validate_commit_prefix 32 w_vs w_hs 1 6 (rev w_pcs) = PV (VOk (mkVR true 3 0 0 0))
  /\ validate_commit w_vs w_hs 1 6 w_pcs = VOk (mkVR true 3 0 0 0)
  /\ validate_commit w_vs w_hs 1 6 (rev w_pcs) = VOk (mkVR true 3 0 0 0)
  /\ commit_valid_spec w_vs w_hs 1 6 w_pcs = true.
Proof. vm_compute. repeat split; reflexivity. Qed.

(* a justification accepted by the model: all signatures valid, the header of block 2 only *)
Lemma good_witness :
  verify_finalizes w_vs [mkHdr 2 1 7] 1 6 1 6 w_pcs = JOk
  /\ justification_valid_spec w_vs [mkHdr 2 1 7] 1 6 1 6 w_pcs = true
  /\ verify_finalizes w_vs w_hs 1 6 1 6 w_pcs = JErr JUnused
  /\ justification_valid_spec w_vs w_hs 1 6 1 6 w_pcs = false.
Proof. vm_compute. repeat split; reflexivity. Qed.

(* one voter of full weight equivocating between the target and its child: the verdict of the
   model (as of the implementation) depends on which vote is listed first *)
Definition w_vs1 : voterset := mkVS [(0, 1)] 1 1.
Lemma order_witness :
  let a := mkPc 0 5 0 0 true in let b := mkPc 1 6 0 0 true in
  validate_commit w_vs1 [mkHdr 1 0 6] 0 5 [a; b] = VOk (mkVR true 2 0 1 0)
  /\ validate_commit w_vs1 [mkHdr 1 0 6] 0 5 [b; a] = VOk (mkVR false 2 0 1 0)
  /\ excess_equivocation w_vs1 [a; b] = true.
Proof. vm_compute. repeat split; reflexivity. Qed.
