(* C19/ProofsWidth.v — third round: width independence as a theorem about wrapped arithmetic.
   For block numbers consistent with the supplied headers (the property's "precommit sets over
   generated block trees") that fit w bits, the w-bit code ([validate_commit_w w]: the GHOST number
   is base + depth modulo 2^w) computes exactly what the unbounded model computes: the sum never
   wraps, because the GHOST is an ancestor of (or is) a precommit target, whose number fits w bits.
   Hence the verdicts at 32 and at 64 bits coincide.  Without consistency the sum CAN wrap at one
   width only ([width_wrap_witness]). *)
From Coq Require Import List NArith Bool Lia ZifyN ZifyNat ZifyBool.
From C19 Require Import Model ProofsChain ProofsIff.
Import ListNotations.
Local Open Scope N_scope.

Section Width.
Variable vs : voterset.
Variable hs : list hdr.
Variable num : N -> N.
Hypothesis wf : forall x, In x hs -> num (h_hash x) = num (h_parent x) + 1.

(* the GHOST is the start of the descent or an ancestor-or-equal of a vote target; its depth is
   the difference of the numbers *)
Lemma descend_below ms : forall fuel cur d g d',
  ghost_descend fuel vs hs (t_votes (import_all ms)) cur d = GBlock g d' ->
  d' = d + (num g - num cur) /\ num cur <= num g
  /\ (g = cur \/ exists p, In p ms /\ desc hs g (p_hash p)).
Proof.
  induction fuel as [|f IH]; intros cur d g d' H; cbn [ghost_descend] in H; [discriminate|].
  destruct (filter (fun c => vs_threshold vs <=? block_weight vs hs (t_votes (import_all ms)) c)
                   (children hs (t_votes (import_all ms)) cur)) as [|c [|c' r]] eqn:F; [| |discriminate].
  - inversion H; subst. split; [lia|]. split; [lia|]. now left.
  - assert (Hin : In c (filter (fun c => vs_threshold vs <=? block_weight vs hs (t_votes (import_all ms)) c)
                               (children hs (t_votes (import_all ms)) cur))) by (rewrite F; now left).
    apply filter_In in Hin. destruct Hin as [Hc _].
    destruct (children_child hs num wf ms _ _ Hc) as [D [Nc [p [Hp Ct]]]].
    destruct (IH _ _ _ _ H) as [E' [Le' B']].
    split; [lia|]. split; [lia|]. right.
    destruct B' as [->|B']; [|exact B'].
    exists p. split; [assumption|].
    apply (child_towards_spec hs num wf) in Ct. destruct Ct as [_ [_ [_ [Dc _]]]]. exact Dc.
Qed.

Lemma validate_commit_w_eq w thash tnum ps :
  (forall p, In p ps -> p_num p = num (p_hash p)) ->
  (forall p, In p ps -> p_num p < 2 ^ w) ->
  validate_commit_w w vs hs thash tnum ps = validate_commit vs hs thash tnum ps.
Proof.
  intros Hnum Hfit. unfold validate_commit_w, validate_commit.
  assert (Hms : forall p, In p (filter (fun p => vs_contains vs (p_id p)) ps) -> In p ps)
    by (intros p Hp; apply filter_In in Hp; tauto).
  destruct (filter (fun p => vs_contains vs (p_id p)) ps) as [|p0 rest] eqn:M; [reflexivity|].
  set (ms := p0 :: rest) in *. set (base := first_min p0 rest).
  assert (Hbase : In base ms) by (apply first_min_In).
  unfold validate_with_base_w, validate_with_base.
  destruct (negb (forallb (fun p => is_eq_or_desc hs (p_hash base) (p_hash p)) ms)); [reflexivity|].
  destruct (precommit_ghost vs hs (t_votes (import_all ms)) (p_hash base)) as [|g d|] eqn:G; try reflexivity.
  assert (Gd : ghost_descend (S (length hs)) vs hs (t_votes (import_all ms)) (p_hash base) 0 = GBlock g d).
  { unfold precommit_ghost in G.
    destruct (current_weight vs (t_votes (import_all ms)) <? vs_threshold vs); [discriminate|].
    destruct (block_weight vs hs (t_votes (import_all ms)) (p_hash base) <? vs_threshold vs); [discriminate|].
    exact G. }
  destruct (descend_below ms _ _ _ _ _ Gd) as [Ed [Le B]].
  assert (Nb : p_num base = num (p_hash base)) by (apply Hnum, Hms, Hbase).
  assert (Fit : p_num base + d < 2 ^ w).
  { destruct B as [->|[p [Hp Dp]]].
    - replace d with 0 by lia. rewrite N.add_0_r. apply Hfit, Hms, Hbase.
    - pose proof (desc_num_le hs num wf _ _ Dp) as Lp.
      pose proof (Hfit p (Hms p Hp)) as Fp. rewrite (Hnum p (Hms p Hp)) in Fp. lia. }
  unfold wrap. rewrite (N.mod_small _ _ Fit). reflexivity.
Qed.

Lemma verify_finalizes_w_eq w fhash fnum thash tnum ps :
  (forall p, In p ps -> p_num p = num (p_hash p)) ->
  (forall p, In p ps -> p_num p < 2 ^ w) ->
  verify_finalizes_w w vs hs fhash fnum thash tnum ps = verify_finalizes vs hs fhash fnum thash tnum ps.
Proof.
  intros Hnum Hfit. unfold verify_finalizes_w, verify_finalizes, verify_with_voter_set_w, verify_with_voter_set.
  rewrite (validate_commit_w_eq w thash tnum ps Hnum Hfit). reflexivity.
Qed.
End Width.

(* the consistency hypothesis is needed (in this model): base block 0 numbered 2^32 - 1 and its child
   block 1 CLAIMING the number 2^32 - 1 too (voter 1, weight 3 of 4, votes for it); the GHOST is block 1
   at depth 1, its number base + 1 wraps to 0 at 32 bits and is 2^32 at 64 bits: a commit for
   (block 1, number 0) is valid at width 32 only *)
Definition ww_vs : voterset := mkVS [(0, 1); (1, 3)] 4 3.
Definition ww_ps : list precommit := [mkPc 0 4294967295 0 0 true; mkPc 1 4294967295 1 0 true].
Lemma width_wrap_witness :
  validate_commit_w 32 ww_vs [mkHdr 1 0 0] 1 0 ww_ps = VOk (mkVR true 2 0 0 0)
  /\ validate_commit_w 64 ww_vs [mkHdr 1 0 0] 1 0 ww_ps = VOk (mkVR false 2 0 0 0)
  /\ (forall p, In p ww_ps -> p_num p < 2 ^ 32).
Proof.
  split; [vm_compute; reflexivity|]. split; [vm_compute; reflexivity|].
  intros p [<-|[<-|[]]]; vm_compute; reflexivity.
Qed.
