(* C19/ProofsVoterSet.v — NewVoterSet and threshold. *)
From Coq Require Import List NArith ZArith Bool Lia Permutation ZifyN ZifyNat ZifyBool.
From C19 Require Import Model.
Import ListNotations.
Local Open Scope N_scope.

(* ---------- threshold: the least weight that is more than two thirds ---------- *)
Lemma threshold_supermajority total w :
  1 <= total -> (threshold total <= w <-> 2 * total < 3 * w).
Proof.
  intros H. unfold threshold.
  pose proof (N.div_mod' (total - 1) 3). pose proof (N.mod_lt (total - 1) 3). lia.
Qed.

Lemma threshold_bounds total :
  1 <= total -> 2 * total < 3 * threshold total /\ 3 * (threshold total - 1) <= 2 * total
                /\ 1 <= threshold total <= total.
Proof.
  intros H. unfold threshold.
  pose proof (N.div_mod' (total - 1) 3). pose proof (N.mod_lt (total - 1) 3). lia.
Qed.

(* ---------- the association list ---------- *)
Definition wt (id : N) (m : list (N * N)) : N := match vs_get id m with Some w => w | None => 0 end.

Definition above (k : N) (m : list (N * N)) : Prop := forall k' w, In (k', w) m -> k < k'.

Lemma ascending_cons a w r : ascending ((a, w) :: r) = true <-> ascending r = true /\ above a r.
Proof.
  revert a w. induction r as [|[b wb] r IH]; intros a w.
  - cbn. split; [intros _; split; [reflexivity | intros ? ? []] | reflexivity].
  - change (ascending ((a, w) :: (b, wb) :: r)) with ((a <? b) && ascending ((b, wb) :: r)).
    rewrite andb_true_iff, N.ltb_lt. split.
    + intros [Hab Hr]. split; [assumption|]. intros k' w' [E|Hin].
      * inversion E; subst. assumption.
      * apply IH in Hr. destruct Hr as [_ Hb]. specialize (Hb _ _ Hin). lia.
    + intros [Hr Hab]. split; [|assumption]. apply (Hab b wb). now left.
Qed.

Lemma vs_get_above id m : above id m -> vs_get id m = None.
Proof.
  induction m as [|[k w] r IH]; intros H; cbn; [reflexivity|].
  destruct (N.eqb_spec id k).
  - subst. specialize (H k w (or_introl eq_refl)). lia.
  - apply IH. intros k' w' Hin. apply (H k' w'). now right.
Qed.

Lemma vs_get_In id w m : ascending m = true -> In (id, w) m -> vs_get id m = Some w.
Proof.
  induction m as [|[k w0] r IH]; intros A Hin; [destruct Hin|].
  apply ascending_cons in A. destruct A as [Ar Ab]. cbn. destruct Hin as [E|Hin].
  - inversion E; subst. now rewrite N.eqb_refl.
  - destruct (N.eqb_spec id k).
    + subst. specialize (Ab _ _ Hin). lia.
    + now apply IH.
Qed.

Lemma vs_get_Some_In id w m : vs_get id m = Some w -> In (id, w) m.
Proof.
  induction m as [|[k w0] r IH]; cbn; [discriminate|].
  destruct (N.eqb_spec id k).
  - intros E. inversion E; subst. now left.
  - intros E. right. now apply IH.
Qed.

Lemma vs_get_set id' id w m :
  ascending m = true ->
  vs_get id' (vs_set id w m) = if id' =? id then Some w else vs_get id' m.
Proof.
  induction m as [|[k w0] r IH]; intros A.
  - cbn. destruct (id' =? id); reflexivity.
  - apply ascending_cons in A. destruct A as [Ar Ab]. cbn [vs_set].
    destruct (N.eqb_spec id k).
    + subst. cbn. destruct (N.eqb_spec id' k); reflexivity.
    + destruct (N.ltb_spec id k).
      * cbn. destruct (N.eqb_spec id' id); [reflexivity|]. reflexivity.
      * cbn. destruct (N.eqb_spec id' k).
        -- subst. destruct (N.eqb_spec k id); [lia | reflexivity].
        -- now apply IH.
Qed.

Lemma In_vs_set k' w' id w m :
  In (k', w') (vs_set id w m) -> (k' = id /\ w' = w) \/ In (k', w') m.
Proof.
  induction m as [|[k w0] r IH]; cbn.
  - intros [E|[]]. inversion E. auto.
  - destruct (id =? k) eqn:E1.
    + apply N.eqb_eq in E1. subst. intros [E|H]; [inversion E; auto | right; now right].
    + destruct (id <? k).
      * intros [E|H]; [inversion E; auto | right; assumption].
      * intros [E|H]; [right; now left|]. destruct (IH H) as [?|?]; [now left | right; now right].
Qed.

Lemma ascending_set id w m : ascending m = true -> ascending (vs_set id w m) = true.
Proof.
  induction m as [|[k w0] r IH]; intros A; [reflexivity|].
  pose proof A as A0. apply ascending_cons in A. destruct A as [Ar Ab]. cbn [vs_set].
  destruct (N.eqb_spec id k).
  - apply ascending_cons. split; assumption.
  - destruct (N.ltb_spec id k).
    + apply ascending_cons. split; [assumption|]. intros k' w' [E|Hin].
      * inversion E; subst. assumption.
      * specialize (Ab _ _ Hin). lia.
    + apply ascending_cons. split; [now apply IH|]. intros k' w' Hin.
      apply In_vs_set in Hin. destruct Hin as [[-> _]|Hin]; [lia | now apply (Ab k' w')].
Qed.

Definition nonzero (m : list (N * N)) : Prop := forall k w, In (k, w) m -> w <> 0.

Lemma nonzero_set id w m : w <> 0 -> nonzero m -> nonzero (vs_set id w m).
Proof.
  intros Hw Hm k' w' Hin. apply In_vs_set in Hin. destruct Hin as [[_ ->]|Hin]; [assumption | now apply (Hm k')].
Qed.

(* ---------- the loop ---------- *)
Lemma sum_for_cons id a r :
  sum_for id (a :: r) = (if fst a =? id then snd a else 0) + sum_for id r.
Proof. unfold sum_for. cbn. destruct (fst a =? id); lia. Qed.

Lemma vs_fold_some ws : forall total m total' m',
  vs_fold true ws total m = Some (total', m') ->
  total < two64 -> ascending m = true -> nonzero m ->
  total' = total + sum_all ws /\ total' < two64 /\ ascending m' = true /\ nonzero m'
  /\ forall id, wt id m' = wt id m + sum_for id ws.
Proof.
  induction ws as [|[id w] r IH]; intros total m total' m' H T A Z.
  - cbn in H. inversion H; subst. cbn. repeat split; auto; try lia.
  - cbn [vs_fold] in H. unfold sum_all in *. cbn [fold_right snd]. fold (sum_all r) in *.
    destruct (N.eqb_spec w 0).
    + subst. destruct (IH _ _ _ _ H T A Z) as [E1 [E2 [E3 [E4 E5]]]].
      repeat split; auto; try lia. intros id'. rewrite E5, sum_for_cons. cbn. destruct (id =? id'); lia.
    + destruct (N.leb_spec two64 (total + w)); [discriminate|].
      destruct (vs_get id m) as [w0|] eqn:G.
      * assert (Z' : nonzero (vs_set id (w0 + w) m)) by (apply nonzero_set; [lia | assumption]).
        destruct (IH _ _ _ _ H H0 (ascending_set _ _ _ A) Z') as [E1 [E2 [E3 [E4 E5]]]].
        repeat split; auto; try lia. intros id'. rewrite E5, sum_for_cons. cbn [fst snd].
        unfold wt. rewrite vs_get_set by assumption.
        rewrite (N.eqb_sym id id'). destruct (N.eqb_spec id' id); [subst; rewrite G|]; lia.
      * assert (Z' : nonzero (vs_set id w m)) by (apply nonzero_set; assumption).
        destruct (IH _ _ _ _ H H0 (ascending_set _ _ _ A) Z') as [E1 [E2 [E3 [E4 E5]]]].
        repeat split; auto; try lia. intros id'. rewrite E5, sum_for_cons. cbn [fst snd].
        unfold wt. rewrite vs_get_set by assumption.
        rewrite (N.eqb_sym id id'). destruct (N.eqb_spec id' id); [subst; rewrite G|]; lia.
Qed.

Lemma vs_fold_none ws : forall total m,
  vs_fold true ws total m = None -> two64 <= total + sum_all ws.
Proof.
  induction ws as [|[id w] r IH]; intros total m H; [discriminate|].
  cbn [vs_fold] in H. unfold sum_all in *. cbn [fold_right snd]. fold (sum_all r) in *.
  destruct (N.eqb_spec w 0); [subst; specialize (IH _ _ H); lia|].
  destruct (N.leb_spec two64 (total + w)); [lia|].
  destruct (vs_get id m); specialize (IH _ _ H); lia.
Qed.

Lemma sum_for_le_all id ws : sum_for id ws <= sum_all ws.
Proof.
  induction ws as [|a r IH]; [cbn; lia|]. rewrite sum_for_cons. unfold sum_all in *. cbn [fold_right].
  destruct (fst a =? id); lia.
Qed.

Lemma sum_all_zero ws : sum_all ws = 0 -> forall id, sum_for id ws = 0.
Proof. intros H id. pose proof (sum_for_le_all id ws). lia. Qed.

(* the repaired NewVoterSet satisfies its specification on every weight list *)
Lemma voter_set_spec_some ws m :
  m <> [] -> sum_all ws < two64 -> ascending m = true -> nonzero m ->
  (forall id, wt id m = sum_for id ws) ->
  voter_set_spec ws (Some (mkVS m (sum_all ws) (threshold (sum_all ws)))) = true.
Proof.
  intros Hne E2 E3 E4 W.
  assert (NZ : sum_all ws <> 0).
  { intros Hz. pose proof (sum_all_zero _ Hz) as Hall.
    destruct m as [|[k0 w0] m0]; [congruence|].
    specialize (W k0). rewrite Hall in W. unfold wt in W.
    rewrite (vs_get_In k0 w0) in W by (auto; now left). specialize (E4 k0 w0 (or_introl eq_refl)). lia. }
  destruct (threshold_bounds (sum_all ws)) as [B1 [B2 B3]]; [lia|].
  unfold voter_set_spec. cbn [vs_total vs_threshold vs_voters].
  repeat (apply andb_true_iff; split); try (apply N.ltb_lt; lia); try (apply N.leb_le; lia).
  - apply negb_true_iff, N.eqb_neq. assumption.
  - apply N.eqb_refl.
  - assumption.
  - apply forallb_forall. intros [k w] Hin. cbn [fst snd].
    pose proof (vs_get_In _ _ _ E3 Hin) as G. specialize (W k). unfold wt in W. rewrite G in W.
    apply andb_true_iff. split.
    + apply negb_true_iff, N.eqb_neq. now apply (E4 k).
    + now apply N.eqb_eq.
  - apply forallb_forall. intros [k w] _. cbn [fst]. apply orb_true_iff.
    destruct (N.eqb_spec (sum_for k ws) 0); [now left | right].
    unfold vs_contains. cbn [vs_voters]. specialize (W k). unfold wt in W.
    destruct (vs_get k m); [reflexivity | lia].
Qed.

Lemma new_voter_set_spec ws : voter_set_spec ws (new_voter_set ws) = true.
Proof.
  unfold new_voter_set, new_voter_set_gen.
  destruct (vs_fold true ws 0 []) as [[total m]|] eqn:F.
  - assert (T0 : 0 < two64) by (unfold two64; lia).
    assert (Z0 : nonzero []) by (intros ? ? []).
    destruct (vs_fold_some _ _ _ _ _ F T0 eq_refl Z0) as [E1 [E2 [E3 [E4 E5]]]].
    rewrite N.add_0_l in E1. subst total.
    assert (W : forall id, wt id m = sum_for id ws) by (intros id; rewrite E5; unfold wt; cbn; lia).
    destruct m as [|p l].
    + (* empty map: every id has weight 0, so the total is 0 *)
      cbn. apply orb_true_iff. left. apply N.eqb_eq.
      assert (H : forall id, sum_for id ws = 0) by (intros id; rewrite <- W; reflexivity).
      clear -H. induction ws as [|[id w] r IH]; [reflexivity|].
      unfold sum_all. cbn [fold_right snd]. fold (sum_all r).
      assert (w = 0). { specialize (H id). rewrite sum_for_cons in H. cbn in H. rewrite N.eqb_refl in H. lia. }
      subst. rewrite IH; [reflexivity|]. intros id'. specialize (H id'). rewrite sum_for_cons in H. lia.
    + apply voter_set_spec_some; auto. discriminate.
  - cbn. apply orb_true_iff. right. apply N.leb_le. apply vs_fold_none in F. lia.
Qed.

(* ---------- order of the weights is irrelevant ---------- *)
Lemma sum_for_perm id ws ws' : Permutation ws ws' -> sum_for id ws = sum_for id ws'.
Proof.
  induction 1; try reflexivity.
  - rewrite !sum_for_cons. lia.
  - rewrite !sum_for_cons. lia.
  - congruence.
Qed.
Lemma sum_all_perm ws ws' : Permutation ws ws' -> sum_all ws = sum_all ws'.
Proof.
  unfold sum_all. induction 1; cbn; try lia.
Qed.

Lemma ascending_ext m1 : forall m2,
  ascending m1 = true -> ascending m2 = true -> nonzero m1 -> nonzero m2 ->
  (forall id, wt id m1 = wt id m2) -> m1 = m2.
Proof.
  induction m1 as [|[k1 w1] r1 IH]; intros m2 A1 A2 Z1 Z2 H.
  - destruct m2 as [|[k2 w2] r2]; [reflexivity|]. exfalso.
    specialize (H k2). unfold wt in H. cbn in H. rewrite N.eqb_refl in H.
    specialize (Z2 k2 w2 (or_introl eq_refl)). lia.
  - destruct m2 as [|[k2 w2] r2].
    + exfalso. specialize (H k1). unfold wt in H. cbn in H. rewrite N.eqb_refl in H.
      specialize (Z1 k1 w1 (or_introl eq_refl)). lia.
    + apply ascending_cons in A1. destruct A1 as [A1 B1].
      apply ascending_cons in A2. destruct A2 as [A2 B2].
      assert (Hk : k1 = k2).
      { destruct (N.lt_trichotomy k1 k2) as [L|[E|L]]; [|assumption|]; exfalso.
        - specialize (H k1). unfold wt in H. cbn in H. rewrite N.eqb_refl in H.
          destruct (N.eqb_spec k1 k2); [lia|].
          rewrite vs_get_above in H by (intros k' w' Hin; specialize (B2 _ _ Hin); lia).
          specialize (Z1 k1 w1 (or_introl eq_refl)). lia.
        - specialize (H k2). unfold wt in H. cbn in H. rewrite N.eqb_refl in H.
          destruct (N.eqb_spec k2 k1); [lia|].
          rewrite vs_get_above in H by (intros k' w' Hin; specialize (B1 _ _ Hin); lia).
          specialize (Z2 k2 w2 (or_introl eq_refl)). lia. }
      subst k2.
      assert (Hw : w1 = w2).
      { specialize (H k1). unfold wt in H. cbn in H. rewrite N.eqb_refl in H. assumption. }
      subst w2. f_equal. apply IH; auto.
      * intros k w Hin. apply (Z1 k). now right.
      * intros k w Hin. apply (Z2 k). now right.
      * intros id. specialize (H id). unfold wt in *. cbn in H.
        destruct (N.eqb_spec id k1); [|assumption].
        subst. rewrite !vs_get_above by assumption. reflexivity.
Qed.

Lemma new_voter_set_perm ws ws' : Permutation ws ws' -> new_voter_set ws = new_voter_set ws'.
Proof.
  intros P. unfold new_voter_set, new_voter_set_gen.
  assert (T0 : 0 < two64) by (unfold two64; lia).
  assert (Z0 : nonzero []) by (intros ? ? []).
  destruct (vs_fold true ws 0 []) as [[t1 m1]|] eqn:F1; destruct (vs_fold true ws' 0 []) as [[t2 m2]|] eqn:F2.
  - destruct (vs_fold_some _ _ _ _ _ F1 T0 eq_refl Z0) as [E1 [_ [A1 [N1 W1]]]].
    destruct (vs_fold_some _ _ _ _ _ F2 T0 eq_refl Z0) as [E2 [_ [A2 [N2 W2]]]].
    assert (Ht : t1 = t2) by (rewrite E1, E2, (sum_all_perm _ _ P); reflexivity).
    assert (Hm : m1 = m2).
    { apply ascending_ext; auto. intros id. rewrite W1, W2, (sum_for_perm id _ _ P). reflexivity. }
    clear - Ht Hm. rewrite Ht, Hm. reflexivity.
  - exfalso. destruct (vs_fold_some _ _ _ _ _ F1 T0 eq_refl Z0) as [E1 [L1 _]].
    apply vs_fold_none in F2. rewrite (sum_all_perm _ _ P) in E1. lia.
  - exfalso. destruct (vs_fold_some _ _ _ _ _ F2 T0 eq_refl Z0) as [E1 [L1 _]].
    apply vs_fold_none in F1. rewrite (sum_all_perm _ _ P) in F1. lia.
  - reflexivity.
Qed.

(* the pinned tree: a repeated id's weight is overwritten *)
Lemma new_voter_set_prefix_witness :
  let ws := [(0, 1); (0, 2); (1, 1)] in
  voter_set_spec ws (new_voter_set_prefix ws) = false
  /\ new_voter_set_prefix ws = Some (mkVS [(0, 2); (1, 1)] 4 3)
  /\ new_voter_set ws = Some (mkVS [(0, 3); (1, 1)] 4 3)
  /\ new_voter_set_prefix [(0, 2); (0, 1); (1, 1)] = Some (mkVS [(0, 1); (1, 1)] 4 3).
Proof. vm_compute. auto. Qed.

(* what the specification says about a produced voter set, in Prop form *)
Lemma sum_for_nonzero_In id ws : sum_for id ws <> 0 -> exists w, In (id, w) ws.
Proof.
  induction ws as [|[k w] r IH]; [cbn; congruence|].
  rewrite sum_for_cons. cbn [fst snd]. destruct (N.eqb_spec k id).
  - subst. intros _. exists w. now left.
  - intros H. destruct IH as [w' Hin]; [lia|]. exists w'. now right.
Qed.

Lemma new_voter_set_some ws vs :
  new_voter_set ws = Some vs ->
  vs_total vs = sum_all ws /\ 1 <= vs_total vs < two64
  /\ 2 * vs_total vs < 3 * vs_threshold vs /\ 3 * (vs_threshold vs - 1) <= 2 * vs_total vs
  /\ (forall id, vs_weight vs id = sum_for id ws)
  /\ (forall id, vs_contains vs id = negb (sum_for id ws =? 0)).
Proof.
  intros E. pose proof (new_voter_set_spec ws) as S. rewrite E in S. unfold voter_set_spec in S.
  repeat (apply andb_true_iff in S; destruct S as [S ?]).
  apply negb_true_iff, N.eqb_neq in S. apply N.ltb_lt in H5, H3. apply N.eqb_eq in H4. apply N.leb_le in H2.
  rewrite forallb_forall in H0, H.
  assert (W : forall id, vs_weight vs id = sum_for id ws).
  { intros id. unfold vs_weight. destruct (vs_get id (vs_voters vs)) as [w|] eqn:G.
    - apply vs_get_Some_In in G. specialize (H0 _ G). cbn [fst snd] in H0.
      apply andb_true_iff in H0. destruct H0 as [_ H0]. now apply N.eqb_eq in H0.
    - destruct (N.eq_dec (sum_for id ws) 0) as [Z|NZ]; [now rewrite Z|].
      destruct (sum_for_nonzero_In _ _ NZ) as [w Hin]. specialize (H _ Hin). cbn [fst] in H.
      apply orb_true_iff in H. destruct H as [H|H]; [apply N.eqb_eq in H; contradiction|].
      unfold vs_contains in H. rewrite G in H. discriminate. }
  repeat split; try lia; auto.
  intros id. specialize (W id). unfold vs_contains, vs_weight in *.
  destruct (vs_get id (vs_voters vs)) as [w|] eqn:G.
  - apply vs_get_Some_In in G. specialize (H0 _ G). cbn [fst snd] in H0.
    apply andb_true_iff in H0. destruct H0 as [H0 _]. apply negb_true_iff, N.eqb_neq in H0.
    symmetry. apply negb_true_iff, N.eqb_neq. lia.
  - symmetry. apply negb_false_iff, N.eqb_eq. lia.
Qed.
