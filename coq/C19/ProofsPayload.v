(* C19/ProofsPayload.v — third round: "valid signatures for the given round and set" about BYTES.
   CheckMessageSignature verifies over NewLocalizedPayload(round, setID, Message{precommit}) =
   [vote_payload nw stage_precommit hash number round setid], nw = 4 (uint32) or 8 (uint64)
   (GrandpaPayload/Payload.v; compared with the implementation's encoder on every run, the
   harnesses sign and verify over hand-built bytes). *)
From Coq Require Import List NArith Bool Lia.
From Common Require Import Bytes.
From GrandpaPayload Require Import Payload.
From C19 Require Import Model ProofsVoterSet ProofsCommit ProofsJust.
Import ListNotations.
Local Open Scope N_scope.

Definition precommit_payload (hb : N -> list byte) (nw : nat) (round setid : N) (p : precommit) : list byte :=
  vote_payload nw stage_precommit (hb (p_hash p)) (p_num p) round setid.

(* every verdict bit is the verdict of [sigv] (ed25519, external) on those bytes *)
Definition well_signed (sigv : N -> list byte -> N -> bool) (hb : N -> list byte) (nw : nat)
  (round setid : N) (ps : list precommit) : Prop :=
  forall p, In p ps -> p_ok p = sigv (p_id p) (precommit_payload hb nw round setid p) (p_sig p).

Lemma accept_signed_bytes sigv hb nw round setid ws vs hs fhash fnum thash tnum ps :
  well_signed sigv hb nw round setid ps ->
  new_voter_set ws = Some vs ->
  verify_finalizes vs hs fhash fnum thash tnum ps = JOk ->
  (forall p, In p ps -> sigv (p_id p) (precommit_payload hb nw round setid p) (p_sig p) = true)
  /\ 2 * sum_all ws < 3 * spec_weight vs hs (members vs ps) thash.
Proof.
  intros W E H.
  destruct (verify_finalizes_sound _ _ _ _ _ _ _ H) as [_ [_ [[r [H3 H4]] [H5 _]]]].
  split.
  - intros p Hin. rewrite <- (W p Hin). now apply H5.
  - destruct (validate_commit_sound _ _ _ _ _ _ H3 H4) as [Wt _].
    destruct (new_voter_set_some _ _ E) as [T [_ [B _]]]. rewrite <- T.
    apply N.lt_le_trans with (3 * vs_threshold vs); [exact B|]. apply N.mul_le_mono_l. exact Wt.
Qed.

Lemma precommit_payload_determines hb nw round setid p st h n r i :
  length (hb (p_hash p)) = length h -> st < 256 ->
  p_num p < 256 ^ N.of_nat nw -> n < 256 ^ N.of_nat nw ->
  round < 256 ^ N.of_nat 8 -> r < 256 ^ N.of_nat 8 -> setid < 256 ^ N.of_nat 8 -> i < 256 ^ N.of_nat 8 ->
  precommit_payload hb nw round setid p = vote_payload nw st h n r i ->
  st = stage_precommit /\ h = hb (p_hash p) /\ n = p_num p /\ r = round /\ i = setid.
Proof.
  intros Lh Hs Hn Hn' Hr Hr' Hi Hi' E. unfold precommit_payload in E.
  assert (S1 : stage_precommit < 256) by (unfold stage_precommit; lia).
  destruct (vote_payload_inj nw _ _ _ _ _ _ _ _ _ _ Lh S1 Hs Hn Hn' Hr Hr' Hi Hi' E) as [A [B [C [D F]]]].
  repeat split; congruence.
Qed.
