(* C19/ProofsMain.v — the verdict does not depend on the precommit order. *)
From Coq Require Import List NArith ZArith Bool Lia Permutation.
From C19 Require Import Model ProofsVoterSet ProofsChain ProofsCommit ProofsIff ProofsJust ProofsOrder ProofsNoAmb.
Import ListNotations.
Local Open Scope N_scope.

Lemma verify_finalizes_order_free vs hs num fhash fnum thash tnum ps ps' r r' :
  (forall x, In x hs -> num (h_hash x) = num (h_parent x) + 1) ->
  vs_total vs < 2 * vs_threshold vs ->
  (forall p, In p ps -> p_num p = num (p_hash p)) ->
  excess_equivocation vs ps = false ->
  Permutation ps ps' ->
  validate_commit vs hs thash tnum ps = VOk r ->
  validate_commit vs hs thash tnum ps' = VOk r' ->
  r_valid r = r_valid r'
  /\ (verify_finalizes vs hs fhash fnum thash tnum ps = JOk <->
      verify_finalizes vs hs fhash fnum thash tnum ps' = JOk).
Proof.
  intros wf Hvs Hn Hex P V V'.
  assert (Hn' : forall p, In p ps' -> p_num p = num (p_hash p))
    by (intros p Hp; apply Hn; eapply Permutation_in; [apply Permutation_sym|]; eauto).
  assert (Hex' : excess_equivocation vs ps' = false) by (now rewrite <- (excess_equivocation_perm vs _ _ P)).
  split.
  - rewrite (validate_commit_iff vs hs num wf Hvs _ _ _ _ Hn Hex V),
            (validate_commit_iff vs hs num wf Hvs _ _ _ _ Hn' Hex' V').
    apply (commit_valid_spec_perm vs hs num wf); assumption.
  - rewrite (verify_finalizes_iff vs hs num fhash fnum thash tnum ps r wf Hvs Hn Hex V),
            (verify_finalizes_iff vs hs num fhash fnum thash tnum ps' r' wf Hvs Hn' Hex' V'),
            (justification_valid_spec_perm vs hs num wf fhash fnum thash tnum ps ps' Hn P).
    reflexivity.
Qed.

(* a voter set made by NewVoterSet is sane in the sense the theorems need *)
Lemma new_voter_set_sane ws vs : new_voter_set ws = Some vs -> vs_total vs < 2 * vs_threshold vs.
Proof. intros E. destruct (new_voter_set_some _ _ E) as [_ [_ [B _]]]. lia. Qed.

(* ---------- for voter sets made by NewVoterSet: no side condition on the descent ---------- *)
Theorem accept_iff_new_voter_set ws vs hs num fhash fnum thash tnum ps :
  new_voter_set ws = Some vs ->
  (forall x, In x hs -> num (h_hash x) = num (h_parent x) + 1) ->
  (forall p, In p ps -> p_num p = num (p_hash p)) ->
  excess_equivocation vs ps = false ->
  (verify_finalizes vs hs fhash fnum thash tnum ps = JOk <->
   justification_valid_spec vs hs fhash fnum thash tnum ps = true).
Proof.
  intros E wf Hn Hex.
  destruct (new_voter_set_some _ _ E) as [_ [_ [B _]]].
  destruct (validate_commit_total vs hs num thash tnum ps wf B (new_voter_set_bounded _ _ E) Hex) as [r V].
  exact (verify_finalizes_iff vs hs num fhash fnum thash tnum ps r wf (new_voter_set_sane _ _ E) Hn Hex V).
Qed.

Theorem order_free_new_voter_set ws vs hs num fhash fnum thash tnum ps ps' :
  new_voter_set ws = Some vs ->
  (forall x, In x hs -> num (h_hash x) = num (h_parent x) + 1) ->
  (forall p, In p ps -> p_num p = num (p_hash p)) ->
  excess_equivocation vs ps = false ->
  Permutation ps ps' ->
  (verify_finalizes vs hs fhash fnum thash tnum ps = JOk <->
   verify_finalizes vs hs fhash fnum thash tnum ps' = JOk).
Proof.
  intros E wf Hn Hex P.
  assert (Hn' : forall p, In p ps' -> p_num p = num (p_hash p))
    by (intros p Hp; apply Hn; eapply Permutation_in; [apply Permutation_sym|]; eauto).
  assert (Hex' : excess_equivocation vs ps' = false) by (now rewrite <- (excess_equivocation_perm vs _ _ P)).
  rewrite (accept_iff_new_voter_set ws vs hs num fhash fnum thash tnum ps E wf Hn Hex),
          (accept_iff_new_voter_set ws vs hs num fhash fnum thash tnum ps' E wf Hn' Hex'),
          (justification_valid_spec_perm vs hs num wf fhash fnum thash tnum ps ps' Hn P).
  reflexivity.
Qed.
