(* C19/ProofsOrder.v — the specification predicates do not depend on the order of the precommits
   (block numbers consistent with the headers). *)
From Coq Require Import List NArith ZArith Bool Lia Permutation ZifyN ZifyNat ZifyBool.
From C19 Require Import Model ProofsVoterSet ProofsChain ProofsCommit ProofsIff.
Import ListNotations.
Local Open Scope N_scope.

Lemma filter_perm {A} (f : A -> bool) l l' : Permutation l l' -> Permutation (filter f l) (filter f l').
Proof.
  induction 1; cbn; try constructor.
  - destruct (f x); [now constructor | assumption].
  - destruct (f x), (f y); try apply perm_swap; try apply Permutation_refl.
  - eapply Permutation_trans; eauto.
Qed.

Lemma forallb_perm {A} (f : A -> bool) l l' : Permutation l l' -> forallb f l = forallb f l'.
Proof.
  intros P. destruct (forallb f l) eqn:E1; symmetry.
  - rewrite forallb_forall in *. intros x Hx. apply E1. eapply Permutation_in; [apply Permutation_sym|]; eauto.
  - apply not_true_iff_false. intros E2. rewrite <- not_true_iff_false in E1. apply E1.
    rewrite forallb_forall in *. intros x Hx. apply E2. eapply Permutation_in; eauto.
Qed.

Lemma forallb_ext' {A} (f g : A -> bool) l : (forall x, f x = g x) -> forallb f l = forallb g l.
Proof. intros H. induction l as [|a r IH]; cbn; [reflexivity|]. now rewrite H, IH. Qed.

Lemma existsb_perm {A} (f : A -> bool) l l' : Permutation l l' -> existsb f l = existsb f l'.
Proof.
  intros P. destruct (existsb f l) eqn:E1; symmetry.
  - apply existsb_exists in E1. destruct E1 as [x [Hx Hf]]. apply existsb_exists. exists x.
    split; [eapply Permutation_in; eauto | assumption].
  - apply not_true_iff_false. intros E2. rewrite <- not_true_iff_false in E1. apply E1.
    apply existsb_exists in E2. destruct E2 as [x [Hx Hf]]. apply existsb_exists. exists x.
    split; [eapply Permutation_in; [apply Permutation_sym|]; eauto | assumption].
Qed.

(* ---------- same_vote_sig is an equivalence ---------- *)
Lemma svs_refl a : same_vote_sig a a = true.
Proof. unfold same_vote_sig. now rewrite !N.eqb_refl. Qed.
Lemma svs_sym a b : same_vote_sig a b = true -> same_vote_sig b a = true.
Proof. unfold same_vote_sig. rewrite !andb_true_iff, !N.eqb_eq. intuition congruence. Qed.
Lemma svs_trans a b c : same_vote_sig a b = true -> same_vote_sig b c = true -> same_vote_sig a c = true.
Proof. unfold same_vote_sig. rewrite !andb_true_iff, !N.eqb_eq. intuition congruence. Qed.

Definition all_same (l : list precommit) : Prop := forall x y, In x l -> In y l -> same_vote_sig x y = true.

Lemma is_equivocator_all_same id ms : is_equivocator id ms = false <-> all_same (votes_of id ms).
Proof.
  unfold is_equivocator. destruct (votes_of id ms) as [|a r].
  - split; [intros _ x y [] | reflexivity].
  - rewrite negb_false_iff, forallb_forall. split.
    + intros H x y Hx Hy.
      assert (Ha : forall z, In z (a :: r) -> same_vote_sig a z = true)
        by (intros z [<-|Hz]; [apply svs_refl | now apply H]).
      eapply svs_trans; [apply svs_sym, Ha, Hx | apply Ha, Hy].
    + intros H x Hx. apply H; [now left | now right].
Qed.

Section Order.
Variable vs : voterset.
Variable hs : list hdr.
Variable num : N -> N.
Hypothesis wf : forall x, In x hs -> num (h_hash x) = num (h_parent x) + 1.

Lemma votes_of_perm id ms ms' : Permutation ms ms' -> Permutation (votes_of id ms) (votes_of id ms').
Proof. apply filter_perm. Qed.

Lemma is_equivocator_perm id ms ms' : Permutation ms ms' -> is_equivocator id ms = is_equivocator id ms'.
Proof.
  intros P. pose proof (votes_of_perm id _ _ P) as PV.
  destruct (is_equivocator id ms) eqn:E1; destruct (is_equivocator id ms') eqn:E2; try reflexivity; exfalso.
  - apply is_equivocator_all_same in E2. rewrite <- not_false_iff_true in E1. apply E1.
    apply is_equivocator_all_same. intros x y Hx Hy. apply E2; eapply Permutation_in; eauto.
  - apply is_equivocator_all_same in E1. rewrite <- not_false_iff_true in E2. apply E2.
    apply is_equivocator_all_same. intros x y Hx Hy.
    apply E1; (eapply Permutation_in; [apply Permutation_sym|]; eauto).
Qed.

Lemma backs_perm ms ms' b id : Permutation ms ms' -> backs vs hs ms b id = backs vs hs ms' b id.
Proof.
  intros P. unfold backs. rewrite <- (is_equivocator_perm id _ _ P).
  destruct (is_equivocator id ms) eqn:E; [reflexivity|].
  pose proof (votes_of_perm id _ _ P) as PV.
  apply is_equivocator_all_same in E.
  destruct (votes_of id ms) as [|a r] eqn:V1; destruct (votes_of id ms') as [|a' r'] eqn:V2; try reflexivity.
  - apply Permutation_nil in PV. discriminate.
  - apply Permutation_sym, Permutation_nil in PV. discriminate.
  - assert (Ha' : In a' (a :: r)) by (eapply Permutation_in; [apply Permutation_sym; exact PV | now left]).
    assert (S : same_vote_sig a a' = true) by (apply E; [now left | assumption]).
    apply same_vote_sig_hash in S. now rewrite S.
Qed.

Lemma voter_ids_perm ms ms' : Permutation ms ms' -> Permutation (voter_ids ms) (voter_ids ms').
Proof.
  intros P. unfold voter_ids. apply NoDup_Permutation; try apply NoDup_nodupN.
  intros x. rewrite !In_nodupN. split; intros H.
  - eapply Permutation_in; [apply Permutation_map; exact P | assumption].
  - eapply Permutation_in; [apply Permutation_map, Permutation_sym; exact P | assumption].
Qed.

Lemma spec_weight_perm ms ms' b : Permutation ms ms' -> spec_weight vs hs ms b = spec_weight vs hs ms' b.
Proof.
  intros P. unfold spec_weight.
  rewrite (fold_weight_perm (backs vs hs ms b) _ _ (voter_ids_perm _ _ P)).
  induction (voter_ids ms') as [|id l IH]; cbn; [reflexivity|].
  rewrite IH, (backs_perm _ _ b id P). reflexivity.
Qed.

Lemma equivocating_weight_perm ps ps' : Permutation ps ps' ->
  equivocating_weight vs ps = equivocating_weight vs ps'.
Proof.
  intros P. unfold equivocating_weight. pose proof (filter_perm (fun p => vs_contains vs (p_id p)) _ _ P) as PM.
  fold (members vs ps) in *. fold (members vs ps') in *.
  rewrite (fold_weight_perm (fun id => if is_equivocator id (members vs ps) then vs_weight vs id else 0) _ _
             (voter_ids_perm _ _ PM)).
  induction (voter_ids (members vs ps')) as [|id l IH]; cbn; [reflexivity|].
  rewrite IH, (is_equivocator_perm id _ _ PM). reflexivity.
Qed.

Lemma excess_equivocation_perm ps ps' : Permutation ps ps' ->
  excess_equivocation vs ps = excess_equivocation vs ps'.
Proof. intros P. unfold excess_equivocation. now rewrite (equivocating_weight_perm _ _ P). Qed.

(* ---------- the lowest precommit ---------- *)
Lemma first_min_min rest : forall p0 p, In p (p0 :: rest) -> p_num (first_min p0 rest) <= p_num p.
Proof.
  induction rest as [|q r IH]; intros p0 p Hin; cbn [first_min].
  - destruct Hin as [<-|[]]. lia.
  - destruct (N.ltb_spec (p_num q) (p_num p0)).
    + destruct Hin as [<-|Hin]; [pose proof (IH q q (or_introl eq_refl)); lia | now apply IH].
    + destruct Hin as [<-|[<-|Hin]].
      * apply IH. now left.
      * pose proof (IH p0 p0 (or_introl eq_refl)). lia.
      * apply IH. now right.
Qed.

Lemma last_min_In rest : forall p0, In (last_min p0 rest) (p0 :: rest).
Proof.
  induction rest as [|q r IH]; intros p0; cbn [last_min]; [now left|].
  destruct (p_num q <=? p_num p0).
  - destruct (IH q) as [E|Hin]; [right; left; exact E | right; right; exact Hin].
  - destruct (IH p0) as [E|Hin]; [left; exact E | right; right; exact Hin].
Qed.

Lemma last_min_min rest : forall p0 p, In p (p0 :: rest) -> p_num (last_min p0 rest) <= p_num p.
Proof.
  induction rest as [|q r IH]; intros p0 p Hin; cbn [last_min].
  - destruct Hin as [<-|[]]. lia.
  - destruct (N.leb_spec (p_num q) (p_num p0)).
    + destruct Hin as [<-|Hin]; [pose proof (IH q q (or_introl eq_refl)); lia | now apply IH].
    + destruct Hin as [<-|[<-|Hin]].
      * apply IH. now left.
      * pose proof (IH p0 p0 (or_introl eq_refl)). lia.
      * apply IH. now right.
Qed.

(* two lowest elements of permuted lists, all of whose blocks descend from the first one's block,
   are for the same block *)
Lemma lowest_same_hash (l l' : list precommit) (b b' : precommit) :
  (forall p, In p l -> p_num p = num (p_hash p)) ->
  Permutation l l' -> In b l -> In b' l' ->
  (forall p, In p l -> p_num b <= p_num p) -> (forall p, In p l' -> p_num b' <= p_num p) ->
  forallb (fun p => is_eq_or_desc hs (p_hash b) (p_hash p)) l = true ->
  p_hash b' = p_hash b.
Proof.
  intros Hn P Hb Hb' M M' FA.
  assert (Hb'l : In b' l) by (eapply Permutation_in; [apply Permutation_sym|]; eauto).
  assert (Hbl' : In b l') by (eapply Permutation_in; eauto).
  rewrite forallb_forall in FA. pose proof (FA _ Hb'l) as D. apply (is_eq_or_desc_iff hs) in D.
  apply (desc_same_num hs num wf _ _ D).
  rewrite <- (Hn _ Hb), <- (Hn _ Hb'l). pose proof (M _ Hb'l). pose proof (M' _ Hbl'). lia.
Qed.

Lemma desc_all_perm_base (l l' : list precommit) (b b' : precommit) :
  (forall p, In p l -> p_num p = num (p_hash p)) ->
  Permutation l l' -> In b l -> In b' l' ->
  (forall p, In p l -> p_num b <= p_num p) -> (forall p, In p l' -> p_num b' <= p_num p) ->
  forallb (fun p => is_eq_or_desc hs (p_hash b) (p_hash p)) l
  = forallb (fun p => is_eq_or_desc hs (p_hash b') (p_hash p)) l'.
Proof.
  intros Hn P Hb Hb' M M'.
  assert (Hn' : forall p, In p l' -> p_num p = num (p_hash p))
    by (intros p Hp; apply Hn; eapply Permutation_in; [apply Permutation_sym|]; eauto).
  destruct (forallb (fun p => is_eq_or_desc hs (p_hash b) (p_hash p)) l) eqn:E1.
  - rewrite (lowest_same_hash l l' b b' Hn P Hb Hb' M M' E1).
    rewrite <- (forallb_perm _ _ _ P). now rewrite E1.
  - destruct (forallb (fun p => is_eq_or_desc hs (p_hash b') (p_hash p)) l') eqn:E2; [|reflexivity].
    rewrite (lowest_same_hash l' l b' b Hn' (Permutation_sym P) Hb' Hb M' M E2) in E1.
    rewrite (forallb_perm _ _ _ P) in E1. congruence.
Qed.

(* ---------- ValidateCommit's specification ---------- *)
Lemma commit_valid_spec_perm thash tnum ps ps' :
  (forall p, In p ps -> p_num p = num (p_hash p)) ->
  Permutation ps ps' ->
  commit_valid_spec vs hs thash tnum ps = commit_valid_spec vs hs thash tnum ps'.
Proof.
  intros Hn P. unfold commit_valid_spec.
  pose proof (filter_perm (fun p => vs_contains vs (p_id p)) _ _ P) as PM.
  fold (members vs ps) in *. fold (members vs ps') in *.
  assert (Hnm : forall p, In p (members vs ps) -> p_num p = num (p_hash p))
    by (intros p Hp; apply Hn; apply filter_In in Hp; tauto).
  destruct (members vs ps) as [|p0 rest] eqn:M1; destruct (members vs ps') as [|q0 rest'] eqn:M2.
  - reflexivity.
  - apply Permutation_nil in PM. discriminate.
  - apply Permutation_sym, Permutation_nil in PM. discriminate.
  - set (ms := p0 :: rest) in *. set (ms' := q0 :: rest') in *.
    set (b := first_min p0 rest). set (b' := first_min q0 rest').
    pose proof (desc_all_perm_base ms ms' b b' Hnm PM (first_min_In rest p0) (first_min_In rest' q0)
                  (first_min_min rest p0) (first_min_min rest' q0)) as EA.
    rewrite <- EA.
    destruct (forallb (fun p => is_eq_or_desc hs (p_hash b) (p_hash p)) ms) eqn:FA; [|reflexivity].
    cbn [andb].
    assert (Eh : p_hash b' = p_hash b)
      by (apply (lowest_same_hash ms ms' b b' Hnm PM (first_min_In rest p0) (first_min_In rest' q0)
                   (first_min_min rest p0) (first_min_min rest' q0) FA)).
    assert (En : p_num b' = p_num b).
    { rewrite (Hnm b (first_min_In rest p0)).
      assert (In b' ms) by (eapply Permutation_in; [apply Permutation_sym; exact PM | apply first_min_In]).
      rewrite (Hnm b' H), Eh. reflexivity. }
    rewrite Eh, En, <- (spec_weight_perm _ _ thash PM).
    f_equal.
    rewrite (forallb_perm _ _ _ PM). apply forallb_ext'. intros p.
    destruct (child_towards hs thash (p_hash p)); [|reflexivity].
    now rewrite (spec_weight_perm _ _ n PM).
Qed.

(* ---------- the ancestry part ---------- *)
Lemma ancestry_spec_perm ps ps' :
  (forall p, In p ps -> p_num p = num (p_hash p)) ->
  Permutation ps ps' -> ancestry_spec hs ps = ancestry_spec hs ps'.
Proof.
  intros Hn P. unfold ancestry_spec.
  destruct ps as [|p0 rest]; destruct ps' as [|q0 rest'].
  - reflexivity.
  - apply Permutation_nil in P. discriminate.
  - apply Permutation_sym, Permutation_nil in P. discriminate.
  - set (l := p0 :: rest) in *. set (l' := q0 :: rest') in *.
    set (b := last_min p0 rest). set (b' := last_min q0 rest').
    pose proof (desc_all_perm_base l l' b b' Hn P (last_min_In rest p0) (last_min_In rest' q0)
                  (last_min_min rest p0) (last_min_min rest' q0)) as EA.
    rewrite <- EA.
    destruct (forallb (fun p => is_eq_or_desc hs (p_hash b) (p_hash p)) l) eqn:FA; [|reflexivity].
    cbn [andb].
    assert (Eh : p_hash b' = p_hash b)
      by (apply (lowest_same_hash l l' b b' Hn P (last_min_In rest p0) (last_min_In rest' q0)
                   (last_min_min rest p0) (last_min_min rest' q0) FA)).
    rewrite Eh. f_equal.
    + apply forallb_ext'. intros h. apply existsb_perm. exact P.
    + apply forallb_perm. exact P.
Qed.

Lemma justification_valid_spec_perm fhash fnum thash tnum ps ps' :
  (forall p, In p ps -> p_num p = num (p_hash p)) ->
  Permutation ps ps' ->
  justification_valid_spec vs hs fhash fnum thash tnum ps
  = justification_valid_spec vs hs fhash fnum thash tnum ps'.
Proof.
  intros Hn P. unfold justification_valid_spec.
  rewrite (commit_valid_spec_perm thash tnum _ _ Hn P), (forallb_perm p_ok _ _ P),
    (ancestry_spec_perm _ _ Hn P). reflexivity.
Qed.

End Order.
