(* C19/Model.v — executable model of GRANDPA justification verification (definitions only).

   Mirrors:
     NewVoterSet, threshold, VoterSet.Contains/Get          pkg/finality-grandpa/voter_set.go
     ValidateCommit                                          pkg/finality-grandpa/lib.go
     voteTracker.addVote (vote multiplicity)                 pkg/finality-grandpa/round.go
     newAncestryChain, Ancestry, IsEqualOrDescendantOf,
     verifyWithVoterSet, DecodeGrandpaJustificationVerifyFinalizes (after decoding)
                                                             internal/client/consensus/grandpa/justification.go
   The vote graph under Round (importPrecommit / PrecommitGHOST) is NOT mirrored: it is replaced
   by its specification [precommit_ghost] (weights with equivocators counted on every block,
   descent from the base through the unique child that still has threshold weight); inputs on
   which that descent is not unique are reported as [GAmbiguous].

   Block hashes, voter ids and signatures are labels in N (equal labels iff equal bytes); the
   ed25519 verdict of every precommit is the input bit [p_ok].

   [new_voter_set] and [validate_commit] mirror the code after fixes/C19-voterset-duplicate-weights.patch
   and fixes/C19-commit-base-sort.patch; [new_voter_set_prefix] and [validate_commit_prefix w]
   (w = the bit width of block numbers) are the pinned tree, kept for the refutation witnesses. *)
From Coq Require Import List NArith ZArith Bool.
Import ListNotations.
Local Open Scope N_scope.

(* ---------- voter sets ---------- *)
Record voterset := mkVS {
  vs_voters : list (N * N);     (* (id, weight), ascending ids: position = index *)
  vs_total : N;
  vs_threshold : N
}.

Definition two64 : N := 18446744073709551616.

(* threshold(totalWeight): faulty = (total - 1) / 3; total - faulty   (total >= 1) *)
Definition threshold (total : N) : N := total - (total - 1) / 3.

(* btree.Map keyed by id, kept as an ascending association list *)
Fixpoint vs_get (id : N) (m : list (N * N)) : option N :=
  match m with
  | [] => None
  | (k, w) :: r => if id =? k then Some w else vs_get id r
  end.
Fixpoint vs_set (id w : N) (m : list (N * N)) : list (N * N) :=
  match m with
  | [] => [(id, w)]
  | (k, w') :: r =>
    if id =? k then (k, w) :: r
    else if id <? k then (id, w) :: (k, w') :: r
    else (k, w') :: vs_set id w r
  end.

(* the loop of NewVoterSet; [sum] selects the repaired (accumulate) or the pinned (overwrite)
   treatment of a repeated id; None = the total overflowed uint64 *)
Fixpoint vs_fold (sum : bool) (ws : list (N * N)) (total : N) (m : list (N * N))
  : option (N * list (N * N)) :=
  match ws with
  | [] => Some (total, m)
  | (id, w) :: r =>
    if w =? 0 then vs_fold sum r total m else
    if two64 <=? total + w then None else
    match vs_get id m with
    | None => vs_fold sum r (total + w) (vs_set id w m)
    | Some w0 => vs_fold sum r (total + w) (vs_set id (if sum then w0 + w else w) m)
    end
  end.
Definition new_voter_set_gen (sum : bool) (ws : list (N * N)) : option voterset :=
  match vs_fold sum ws 0 [] with
  | None => None
  | Some (_, []) => None
  | Some (total, m) => Some (mkVS m total (threshold total))
  end.
Definition new_voter_set := new_voter_set_gen true.
Definition new_voter_set_prefix := new_voter_set_gen false.

Definition vs_contains (vs : voterset) (id : N) : bool :=
  match vs_get id (vs_voters vs) with Some _ => true | None => false end.
Definition vs_weight (vs : voterset) (id : N) : N :=
  match vs_get id (vs_voters vs) with Some w => w | None => 0 end.

(* ---------- the chain given by the ancestry headers ---------- *)
Record hdr := mkHdr { h_hash : N; h_parent : N; h_num : N }.

Fixpoint find_hdr (hs : list hdr) (h : N) : option hdr :=
  match hs with
  | [] => None
  | x :: r => if h_hash x =? h then Some x else find_hdr r h
  end.

(* ancestryChain.Ancestry(base, block): the hashes from block's parent down to, excluding, base;
   None = errBlockNotDescendentOfBase.  Fuel = number of headers + 1: header hashes commit to the
   parent hash, so a real walk never visits a header twice. *)
Fixpoint ancestry_fuel (fuel : nat) (hs : list hdr) (base cur : N) (acc : list N) : option (list N) :=
  if cur =? base then Some (removelast (rev acc)) else
  match fuel with
  | O => None
  | S f =>
    match find_hdr hs cur with
    | None => None
    | Some x => ancestry_fuel f hs base (h_parent x) (h_parent x :: acc)
    end
  end.
Definition ancestry (hs : list hdr) (base blk : N) : option (list N) :=
  ancestry_fuel (S (length hs)) hs base blk [].
Definition is_eq_or_desc (hs : list hdr) (base blk : N) : bool :=
  match ancestry hs base blk with Some _ => true | None => false end.

(* ---------- precommits ---------- *)
Record precommit := mkPc {
  p_hash : N; p_num : N;     (* Precommit.TargetHash / TargetNumber *)
  p_id : N;                  (* signer *)
  p_sig : N;                 (* signature label *)
  p_ok : bool                (* CheckMessageSignature verdict for (round, setID) *)
}.
Definition same_vote_sig (a b : precommit) : bool :=
  (p_hash a =? p_hash b) && (p_num a =? p_num b) && (p_sig a =? p_sig b).

(* voteTracker: the multiplicity of the votes of one voter *)
Inductive mult := Single (a : precommit) | Equivocated (a b : precommit).
Fixpoint mt_get (id : N) (m : list (N * mult)) : option mult :=
  match m with
  | [] => None
  | (k, x) :: r => if id =? k then Some x else mt_get id r
  end.
Fixpoint mt_set (id : N) (x : mult) (m : list (N * mult)) : list (N * mult) :=
  match m with
  | [] => [(id, x)]
  | (k, y) :: r => if id =? k then (k, x) :: r else (k, y) :: mt_set id x r
  end.

Record tally := mkTally {
  t_votes : list (N * mult);
  t_dup : N;            (* numDuplicatedPrecommits *)
  t_eqv : N             (* numEquivocations *)
}.
(* the import loop of ValidateCommit (addVote + the switch on importResult) *)
Definition import1 (t : tally) (p : precommit) : tally :=
  match mt_get (p_id p) (t_votes t) with
  | None => mkTally (mt_set (p_id p) (Single p) (t_votes t)) (t_dup t) (t_eqv t)
  | Some (Single a) =>
    if same_vote_sig a p then mkTally (t_votes t) (t_dup t + 1) (t_eqv t)
    else mkTally (mt_set (p_id p) (Equivocated a p) (t_votes t)) (t_dup t) (t_eqv t + 1)
  | Some (Equivocated a b) =>
    if same_vote_sig a p || same_vote_sig b p then mkTally (t_votes t) (t_dup t + 1) (t_eqv t)
    else t
  end.
Definition import_all (ps : list precommit) : tally := fold_left import1 ps (mkTally [] 0 0).

(* ---------- specification of Round.PrecommitGHOST over the imported votes ---------- *)
(* weight of block b: voters whose single vote is on b or a descendant, and every equivocator *)
Definition vote_weight (vs : voterset) (hs : list hdr) (b : N) (e : N * mult) : N :=
  match snd e with
  | Single a => if is_eq_or_desc hs b (p_hash a) then vs_weight vs (fst e) else 0
  | Equivocated _ _ => vs_weight vs (fst e)
  end.
Definition block_weight (vs : voterset) (hs : list hdr) (votes : list (N * mult)) (b : N) : N :=
  fold_right (fun e acc => vote_weight vs hs b e + acc) 0 votes.
Definition current_weight (vs : voterset) (votes : list (N * mult)) : N :=
  fold_right (fun e acc => vs_weight vs (fst e) + acc) 0 votes.

(* the child of b on the way to the vote target t (t a strict descendant of b) *)
Definition child_towards (hs : list hdr) (b t : N) : option N :=
  if b =? t then None else
  match ancestry hs b t with
  | None => None
  | Some [] => Some t
  | Some route => Some (last route t)
  end.
Definition first_target (x : mult) : N := match x with Single a => p_hash a | Equivocated a _ => p_hash a end.
Fixpoint nodupN (l : list N) : list N :=
  match l with
  | [] => []
  | x :: r => if existsb (N.eqb x) r then nodupN r else x :: nodupN r
  end.
Definition children (hs : list hdr) (votes : list (N * mult)) (b : N) : list N :=
  nodupN (flat_map (fun e => match child_towards hs b (first_target (snd e)) with
                             | Some c => [c] | None => [] end) votes).

Inductive ghost := GNone | GBlock (h : N) (depth : N) | GAmbiguous.
Fixpoint ghost_descend (fuel : nat) (vs : voterset) (hs : list hdr) (votes : list (N * mult))
  (cur : N) (depth : N) : ghost :=
  match fuel with
  | O => GAmbiguous      (* not reached: every step consumes a different header *)
  | S f =>
    match filter (fun c => vs_threshold vs <=? block_weight vs hs votes c) (children hs votes cur) with
    | [] => GBlock cur depth
    | [c] => ghost_descend f vs hs votes c (depth + 1)
    | _ => GAmbiguous
    end
  end.
Definition precommit_ghost (vs : voterset) (hs : list hdr) (votes : list (N * mult)) (base : N) : ghost :=
  if current_weight vs votes <? vs_threshold vs then GNone else
  if block_weight vs hs votes base <? vs_threshold vs then GNone else
  ghost_descend (S (length hs)) vs hs votes base 0.

(* ---------- ValidateCommit ---------- *)
Record vresult := mkVR {
  r_valid : bool; r_num : N; r_dup : N; r_eqv : N; r_inv : N
}.
Inductive voutcome := VOk (r : vresult) | VAmbiguous.

(* the repaired base selection: the first precommit with the lowest target number *)
Fixpoint first_min (best : precommit) (ps : list precommit) : precommit :=
  match ps with
  | [] => best
  | p :: r => if p_num p <? p_num best then first_min p r else first_min best r
  end.

Definition validate_with_base (vs : voterset) (hs : list hdr) (thash tnum : N)
  (all valid_ps : list precommit) (base : precommit) : voutcome :=
  let n := N.of_nat (length all) in
  let inv := N.of_nat (length all - length valid_ps) in
  if negb (forallb (fun p => is_eq_or_desc hs (p_hash base) (p_hash p)) valid_ps)
  then VOk (mkVR false n 0 0 inv) else
  let t := import_all valid_ps in
  match precommit_ghost vs hs (t_votes t) (p_hash base) with
  | GAmbiguous => VAmbiguous
  | GNone => VOk (mkVR false n (t_dup t) (t_eqv t) inv)
  | GBlock g d =>
    VOk (mkVR ((g =? thash) && (p_num base + d =? tnum)) n (t_dup t) (t_eqv t) inv)
  end.

Definition validate_commit (vs : voterset) (hs : list hdr) (thash tnum : N) (ps : list precommit)
  : voutcome :=
  let valid_ps := filter (fun p => vs_contains vs (p_id p)) ps in
  match valid_ps with
  | [] => VOk (mkVR false (N.of_nat (length ps)) 0 0 (N.of_nat (length ps)))
  | p0 :: r => validate_with_base vs hs thash tnum ps valid_ps (first_min p0 r)
  end.

(* ---- the pinned tree: slices.SortFunc(targets, int(a.Number - b.Number)) at width w.
   For at most 12 elements SortFunc is insertion sort; longer inputs are outside this model. *)
Definition cmp_prefix (w : N) (a b : N) : Z :=
  let d := (a + 2 ^ w - b mod 2 ^ w) mod 2 ^ w in
  if w =? 64 then (if d <? 2 ^ 63 then Z.of_N d else Z.of_N d - Z.of_N (2 ^ 64))
  else Z.of_N d.
(* insert x into the already sorted (reversed walk) prefix: data[j] moves left while cmp < 0 *)
Fixpoint insert_left (w : N) (x : precommit) (rev_sorted : list precommit) : list precommit :=
  match rev_sorted with
  | [] => [x]
  | y :: r => if (cmp_prefix w (p_num x) (p_num y) <? 0)%Z then y :: insert_left w x r else x :: y :: r
  end.
(* rev_sorted holds data[0..i) in reverse order *)
Definition insertion_sort_rev (w : N) (ps : list precommit) : list precommit :=
  fold_left (fun acc x => insert_left w x acc) ps [].
Definition base_prefix (w : N) (ps : list precommit) : option precommit :=
  match rev (insertion_sort_rev w ps) with [] => None | b :: _ => Some b end.

Inductive voutcome_prefix := PV (o : voutcome) | PUnmodelled.
Definition validate_commit_prefix (w : N) (vs : voterset) (hs : list hdr) (thash tnum : N)
  (ps : list precommit) : voutcome_prefix :=
  let valid_ps := filter (fun p => vs_contains vs (p_id p)) ps in
  if (12 <? length valid_ps)%nat then PUnmodelled else
  match base_prefix w valid_ps with
  | None => PV (VOk (mkVR false (N.of_nat (length ps)) 0 0 (N.of_nat (length ps))))
  | Some b => PV (validate_with_base vs hs thash tnum ps valid_ps b)
  end.

(* ---------- verifyWithVoterSet / DecodeGrandpaJustificationVerifyFinalizes ---------- *)
Inductive jerr := JTarget | JCommit | JSig | JAncestry | JUnused.
Inductive joutcome := JOk | JErr (e : jerr) | JAmbiguous.

(* the precommit with the lowest number, the LAST one among equals (`<=`) *)
Fixpoint last_min (best : precommit) (ps : list precommit) : precommit :=
  match ps with
  | [] => best
  | p :: r => if p_num p <=? p_num best then last_min p r else last_min best r
  end.

Definition set_add (x : N) (l : list N) : list N := if existsb (N.eqb x) l then l else x :: l.
Definition subset (a b : list N) : bool := forallb (fun x => existsb (N.eqb x) b) a.

Fixpoint visit (hs : list hdr) (base : N) (ps : list precommit) (visited : list N)
  : jerr + list N :=
  match ps with
  | [] => inr visited
  | p :: r =>
    if negb (p_ok p) then inl JSig else
    if base =? p_hash p then visit hs base r visited else
    match ancestry hs base (p_hash p) with
    | None => inl JAncestry
    | Some route => visit hs base r (fold_left (fun acc h => set_add h acc) route (set_add (p_hash p) visited))
    end
  end.

Definition verify_with_voter_set (vs : voterset) (hs : list hdr) (thash tnum : N) (ps : list precommit)
  : joutcome :=
  match validate_commit vs hs thash tnum ps with
  | VAmbiguous => JAmbiguous
  | VOk r =>
    if negb (r_valid r) then JErr JCommit else
    match ps with
    | [] => JErr JCommit      (* unreachable: a valid commit has precommits *)
    | p0 :: rest =>
      let base := p_hash (last_min p0 rest) in
      match visit hs base ps [] with
      | inl e => JErr e
      | inr visited =>
        let hashes := nodupN (map h_hash hs) in
        if negb (Nat.eqb (length visited) (length hashes)) then JErr JUnused else
        if subset visited hashes && subset hashes visited then JOk else JErr JUnused
      end
    end
  end.

(* finalizedTarget = (fhash, fnum) is compared with the decoded commit target first *)
Definition verify_finalizes (vs : voterset) (hs : list hdr) (fhash fnum thash tnum : N)
  (ps : list precommit) : joutcome :=
  if negb ((fhash =? thash) && (fnum =? tnum)) then JErr JTarget
  else verify_with_voter_set vs hs thash tnum ps.

(* ---------- a generated block tree, for the driver and the witnesses ----------
   blocks 0..len: block i+1 has parent [nth i parents]; block 0 has number [base] and an
   unknown parent (label 0xffff) *)
Definition tree_parent (parents : list N) (b : N) : N :=
  if b =? 0 then 65535 else nth (N.to_nat (b - 1)) parents 65535.
Fixpoint tree_depth (fuel : nat) (parents : list N) (b : N) : N :=
  match fuel with
  | O => 0
  | S f => if b =? 0 then 0 else 1 + tree_depth f parents (tree_parent parents b)
  end.
Definition tree_num (base : N) (parents : list N) (b : N) : N :=
  base + tree_depth (S (length parents)) parents b.
Definition tree_hdr (base : N) (parents : list N) (b : N) : hdr :=
  mkHdr b (tree_parent parents b) (tree_num base parents b).

(* ---------- specification (the property text), order-free by construction ---------- *)
(* NewVoterSet: every id has the sum of its weights; ids without weight are absent; the total is
   the sum of all weights and must fit uint64; the threshold is the least weight that is more than
   two thirds of the total *)
Definition sum_for (id : N) (ws : list (N * N)) : N :=
  fold_right (fun iw acc => if fst iw =? id then snd iw + acc else acc) 0 ws.
Definition sum_all (ws : list (N * N)) : N := fold_right (fun iw acc => snd iw + acc) 0 ws.
Fixpoint ascending (l : list (N * N)) : bool :=
  match l with
  | (a, _) :: (((b, _) :: _) as r) => (a <? b) && ascending r
  | _ => true
  end.
Definition voter_set_spec (ws : list (N * N)) (o : option voterset) : bool :=
  match o with
  | None => (sum_all ws =? 0) || (two64 <=? sum_all ws)
  | Some vs =>
    negb (sum_all ws =? 0) && (sum_all ws <? two64)
    && (vs_total vs =? sum_all ws)
    && (2 * vs_total vs <? 3 * vs_threshold vs) && (3 * (vs_threshold vs - 1) <=? 2 * vs_total vs)
    && ascending (vs_voters vs)
    && forallb (fun iw => negb (snd iw =? 0) && (snd iw =? sum_for (fst iw) ws)) (vs_voters vs)
    && forallb (fun iw => (sum_for (fst iw) ws =? 0) || vs_contains vs (fst iw)) ws
  end.

(* the precommits of set members *)
Definition members (vs : voterset) (ps : list precommit) : list precommit :=
  filter (fun p => vs_contains vs (p_id p)) ps.
Definition votes_of (id : N) (ps : list precommit) : list precommit :=
  filter (fun p => p_id p =? id) ps.
(* a voter with two different (vote, signature) pairs *)
Definition is_equivocator (id : N) (ps : list precommit) : bool :=
  match votes_of id ps with
  | [] => false
  | a :: r => negb (forallb (same_vote_sig a) r)
  end.
Definition voter_ids (ps : list precommit) : list N := nodupN (map p_id ps).
(* the weight of voter [id] behind block [b] *)
Definition backs (vs : voterset) (hs : list hdr) (ps : list precommit) (b id : N) : N :=
  if is_equivocator id ps then vs_weight vs id else
  match votes_of id ps with
  | a :: _ => if is_eq_or_desc hs b (p_hash a) then vs_weight vs id else 0
  | [] => 0
  end.
Definition spec_weight (vs : voterset) (hs : list hdr) (ps : list precommit) (b : N) : N :=
  fold_right (fun id acc => backs vs hs ps b id + acc) 0 (voter_ids ps).
Definition lowest_num (ps : list precommit) : N :=
  match ps with [] => 0 | p :: r => p_num (first_min p r) end.
Definition distance (hs : list hdr) (a b : N) : option N :=
  if a =? b then Some 0 else
  match ancestry hs a b with Some route => Some (N.of_nat (S (length route))) | None => None end.

(* "the precommits of set members reach supermajority weight on the target or its descendants,
   every one of them is on the chain of the lowest one, and the precommit GHOST is the target" *)
Definition commit_valid_spec (vs : voterset) (hs : list hdr) (thash tnum : N) (ps : list precommit) : bool :=
  let ms := members vs ps in
  match ms with
  | [] => false
  | p0 :: r =>
    let base := first_min p0 r in
    forallb (fun p => is_eq_or_desc hs (p_hash base) (p_hash p)) ms
    && (vs_threshold vs <=? spec_weight vs hs ms thash)
    && match distance hs (p_hash base) thash with
       | Some d => p_num base + d =? tnum
       | None => false
       end
    && forallb (fun p => match child_towards hs thash (p_hash p) with
                         | Some c => spec_weight vs hs ms c <? vs_threshold vs
                         | None => true
                         end) ms
  end.

(* two different blocks, neither above the other, both with threshold weight: the precommit GHOST
   is not determined by the votes (possible only when equivocators outweigh the tolerated faults) *)
Definition ghost_ambiguous (vs : voterset) (hs : list hdr) (ps : list precommit) : bool :=
  let ms := members vs ps in
  existsb (fun p => existsb (fun q =>
     negb (is_eq_or_desc hs (p_hash p) (p_hash q)) && negb (is_eq_or_desc hs (p_hash q) (p_hash p))
     && (vs_threshold vs <=? spec_weight vs hs ms (p_hash p))
     && (vs_threshold vs <=? spec_weight vs hs ms (p_hash q))) ms) ms.

(* the ancestry headers connect every precommit to the lowest one, none unused; every signature
   is valid *)
Definition ancestry_spec (hs : list hdr) (ps : list precommit) : bool :=
  match ps with
  | [] => false
  | p0 :: r =>
    let base := p_hash (last_min p0 r) in
    forallb (fun p => is_eq_or_desc hs base (p_hash p)) ps
    && forallb (fun h => existsb (fun p => negb (h_hash h =? base) && is_eq_or_desc hs (h_hash h) (p_hash p)
                                           && is_eq_or_desc hs base (h_hash h)) ps) hs
    && forallb (fun p => (p_hash p =? base) || match find_hdr hs (p_hash p) with Some _ => true | None => false end) ps
  end.
Definition justification_valid_spec (vs : voterset) (hs : list hdr) (fhash fnum thash tnum : N)
  (ps : list precommit) : bool :=
  (fhash =? thash) && (fnum =? tnum)
  && commit_valid_spec vs hs thash tnum ps
  && forallb p_ok ps
  && ancestry_spec hs ps.

(* more equivocating weight than the protocol tolerates (total - threshold): the class of the
   recorded finding commit-order-dependent-under-excess-equivocation *)
Definition equivocating_weight (vs : voterset) (ps : list precommit) : N :=
  let ms := members vs ps in
  fold_right (fun id acc => (if is_equivocator id ms then vs_weight vs id else 0) + acc) 0 (voter_ids ms).
Definition excess_equivocation (vs : voterset) (ps : list precommit) : bool :=
  vs_total vs - vs_threshold vs <? equivocating_weight vs ps.

(* ---------- third round: Service.VerifyBlockJustification (lib/grandpa/message_handler.go) ----------
   The entry point of block import: the authority list of the set becomes a voter set with weight 1
   per entry (a repeated authority is summed); block numbers inside a justification are uint32 while
   the finalized number is a Go uint.  Mirrors the code after
   fixes/C19-verify-block-justification-empty-authority-set.patch (NewVoterSet = nil is an error) and
   fixes/C19-verify-block-justification-number-width.patch (a finalized number beyond 2^32 - 1 is an
   error); [verify_block_justification_prefix] is the tree before them: `*voters` on nil panics and
   `uint32(finalizedNumber)` compares modulo 2^32. *)
Definition two32 : N := 4294967296.
Inductive boutcome := BNoVoters | BOut (o : joutcome) | BPanic.
Definition unit_weights (auths : list N) : list (N * N) := map (fun a => (a, 1)) auths.

Definition verify_block_justification (auths : list N) (hs : list hdr) (fhash fnum thash tnum : N)
  (ps : list precommit) : boutcome :=
  match new_voter_set (unit_weights auths) with
  | None => BNoVoters
  | Some vs =>
    if two32 <=? fnum then BOut (JErr JTarget)
    else BOut (verify_finalizes vs hs fhash fnum thash tnum ps)
  end.

Definition verify_block_justification_prefix (auths : list N) (hs : list hdr) (fhash fnum thash tnum : N)
  (ps : list precommit) : boutcome :=
  match new_voter_set (unit_weights auths) with
  | None => BPanic
  | Some vs => BOut (verify_finalizes vs hs fhash (fnum mod two32) thash tnum ps)
  end.

(* ---------- third round: the explicit width of block numbers ----------
   Block numbers are Go values of an unsigned type of w bits (w = 32 on the block-import path,
   64 in the generic tests).  The repaired code compares numbers (`<`, `<=`, `==`: the same on
   equal values at every width) and the vote graph ADDS an offset to the base number to obtain the
   number of the GHOST (`baseNumber + offset`), which wraps at 2^w.  [validate_commit_w w] is
   [validate_commit] with that addition done modulo 2^w; inputs are numbers below 2^w. *)
Definition wrap (w n : N) : N := n mod 2 ^ w.

Definition validate_with_base_w (w : N) (vs : voterset) (hs : list hdr) (thash tnum : N)
  (all valid_ps : list precommit) (base : precommit) : voutcome :=
  let n := N.of_nat (length all) in
  let inv := N.of_nat (length all - length valid_ps) in
  if negb (forallb (fun p => is_eq_or_desc hs (p_hash base) (p_hash p)) valid_ps)
  then VOk (mkVR false n 0 0 inv) else
  let t := import_all valid_ps in
  match precommit_ghost vs hs (t_votes t) (p_hash base) with
  | GAmbiguous => VAmbiguous
  | GNone => VOk (mkVR false n (t_dup t) (t_eqv t) inv)
  | GBlock g d =>
    VOk (mkVR ((g =? thash) && (wrap w (p_num base + d) =? tnum)) n (t_dup t) (t_eqv t) inv)
  end.

Definition validate_commit_w (w : N) (vs : voterset) (hs : list hdr) (thash tnum : N) (ps : list precommit)
  : voutcome :=
  let valid_ps := filter (fun p => vs_contains vs (p_id p)) ps in
  match valid_ps with
  | [] => VOk (mkVR false (N.of_nat (length ps)) 0 0 (N.of_nat (length ps)))
  | p0 :: r => validate_with_base_w w vs hs thash tnum ps valid_ps (first_min p0 r)
  end.

Definition verify_with_voter_set_w (w : N) (vs : voterset) (hs : list hdr) (thash tnum : N)
  (ps : list precommit) : joutcome :=
  match validate_commit_w w vs hs thash tnum ps with
  | VAmbiguous => JAmbiguous
  | VOk r =>
    if negb (r_valid r) then JErr JCommit else
    match ps with
    | [] => JErr JCommit
    | p0 :: rest =>
      let base := p_hash (last_min p0 rest) in
      match visit hs base ps [] with
      | inl e => JErr e
      | inr visited =>
        let hashes := nodupN (map h_hash hs) in
        if negb (Nat.eqb (length visited) (length hashes)) then JErr JUnused else
        if subset visited hashes && subset hashes visited then JOk else JErr JUnused
      end
    end
  end.

Definition verify_finalizes_w (w : N) (vs : voterset) (hs : list hdr) (fhash fnum thash tnum : N)
  (ps : list precommit) : joutcome :=
  if negb ((fhash =? thash) && (fnum =? tnum)) then JErr JTarget
  else verify_with_voter_set_w w vs hs thash tnum ps.
