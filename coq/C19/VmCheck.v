(* C19/VmCheck.v — boolean checks evaluated with vm_compute on a sample of the traced cases
   (bin/check `vm_sample`): the model's answers are recomputed INSIDE Coq and compared with the
   implementation's observables, cross-checking the extraction and the OCaml driver.
   Definitions only. *)
From Coq Require Import List NArith Bool.
From C19 Require Import Model.
Import ListNotations.
Local Open Scope N_scope.

Fixpoint pairs_eqb (a b : list (N * N)) : bool :=
  match a, b with
  | [], [] => true
  | (i, w) :: r, (j, v) :: s => (i =? j) && (w =? v) && pairs_eqb r s
  | _, _ => false
  end.
Definition voterset_eqb (a b : option voterset) : bool :=
  match a, b with
  | None, None => true
  | Some x, Some y => pairs_eqb (vs_voters x) (vs_voters y) && (vs_total x =? vs_total y)
                      && (vs_threshold x =? vs_threshold y)
  | _, _ => false
  end.

(* `vs` cases: every listed order of the weight list with the observed voter set *)
Definition vm_vs (runs : list (list (N * N) * option voterset)) : bool :=
  forallb (fun r => voterset_eqb (new_voter_set (fst r)) (snd r) && voter_set_spec (fst r) (snd r)) runs.

(* observed CommitValidationResult: valid, numPrecommits, duplicated, equivocations, invalid voters *)
Definition vr_eqb (o : voutcome) (e : bool * N * N * N * N) : bool :=
  let '(v, n, d, q, i) := e in
  match o with
  | VAmbiguous => true
  | VOk r => Bool.eqb (r_valid r) v && (r_num r =? n) && (r_dup r =? d) && (r_eqv r =? q) && (r_inv r =? i)
  end.

(* `vc` / `vg` cases: every listed order of the precommits with the observed result; outside the
   recorded excess-equivocation class the observed verdict must also be the specification's *)
Definition vm_vc (ws : list (N * N)) (base : N) (parents headers : list N) (thash tnum : N)
  (runs : list (list precommit * (bool * N * N * N * N))) : bool :=
  match new_voter_set ws with
  | None => false
  | Some vs =>
    let hs := map (tree_hdr base parents) headers in
    forallb (fun r =>
      vr_eqb (validate_commit vs hs thash tnum (fst r)) (snd r)
      && (excess_equivocation vs (fst r)
          || Bool.eqb (commit_valid_spec vs hs thash tnum (fst r)) (fst (fst (fst (fst (snd r))))))) runs
  end.
