(* C19/ProofsJust.v — verifyWithVoterSet / DecodeGrandpaJustificationVerifyFinalizes accept exactly
   the justifications that satisfy [justification_valid_spec]. *)
From Coq Require Import List NArith ZArith Bool Lia Permutation ZifyN ZifyNat ZifyBool.
From C19 Require Import Model ProofsVoterSet ProofsChain ProofsCommit ProofsIff.
Import ListNotations.
Local Open Scope N_scope.

Section Just.
Variable hs : list hdr.
Variable num : N -> N.
Hypothesis wf : forall x, In x hs -> num (h_hash x) = num (h_parent x) + 1.

Notation desc := (desc hs).

(* the blocks of the walk from t up to base, base excluded *)
Definition between (base t b : N) : Prop := b <> base /\ desc b t /\ desc base b.

Lemma walk_between base t r : walk hs base t r ->
  forall b, In b (removelast (t :: r)) <-> between base t b.
Proof.
  induction 1 as [|cur x r Hne Hf Hw IH]; intros b.
  - cbn. split; [intros [] |]. intros [B1 [B2 B3]]. apply B1. eapply desc_antisym; eauto.
  - change (removelast (cur :: h_parent x :: r)) with (cur :: removelast (h_parent x :: r)).
    cbn [In]. rewrite IH. unfold between. split.
    + intros [<-|[B1 [B2 B3]]].
      * split; [assumption|]. split; [apply desc_refl|]. exists (h_parent x :: r). now constructor.
      * split; [assumption|]. split; [|assumption].
        destruct (N.eq_dec cur b) as [->|NE]; [apply desc_refl|]. eapply desc_step; eauto.
    + intros [B1 [B2 B3]]. destruct (N.eq_dec cur b) as [E|NE]; [now left | right].
      split; [assumption|]. split; [|assumption].
      destruct (desc_inv hs _ _ B2) as [E|[x' [Hf' D']]]; [congruence|].
      rewrite Hf in Hf'. inversion Hf'; subst. assumption.
Qed.

Lemma In_set_add x y l : In x (set_add y l) <-> x = y \/ In x l.
Proof.
  unfold set_add. destruct (existsb (N.eqb y) l) eqn:E.
  - apply existsb_eqb_In in E. split; [auto|]. intros [->|?]; assumption.
  - cbn. split; intros [?|?]; auto.
Qed.
Lemma NoDup_set_add y l : NoDup l -> NoDup (set_add y l).
Proof.
  intros H. unfold set_add. destruct (existsb (N.eqb y) l) eqn:E; [assumption|].
  constructor; [|assumption]. intros Hin. apply existsb_eqb_In in Hin. congruence.
Qed.
Lemma fold_set_add route : forall l,
  (forall x, In x (fold_left (fun acc h => set_add h acc) route l) <-> In x route \/ In x l)
  /\ (NoDup l -> NoDup (fold_left (fun acc h => set_add h acc) route l)).
Proof.
  induction route as [|a r IH]; intros l; cbn [fold_left].
  - split; [intros x; cbn; tauto | auto].
  - destruct (IH (set_add a l)) as [I1 I2]. split.
    + intros x. rewrite I1, In_set_add. cbn. intuition (subst; auto).
    + intros H. apply I2. now apply NoDup_set_add.
Qed.

(* the visiting loop of verifyWithVoterSet *)
Lemma visit_spec base : forall ps v0 v,
  visit hs base ps v0 = inr v ->
  (forall p, In p ps -> p_ok p = true /\ desc base (p_hash p))
  /\ (forall b, In b v <-> In b v0 \/ exists p, In p ps /\ between base (p_hash p) b)
  /\ (NoDup v0 -> NoDup v).
Proof.
  induction ps as [|q r IH]; intros v0 v H; cbn [visit] in H.
  - inversion H; subst. split; [intros p []|]. split; [|auto].
    intros b. split; [auto|]. intros [?|[p [[] _]]]. assumption.
  - destruct (p_ok q) eqn:OK; cbn [negb] in H; [|discriminate].
    destruct (N.eqb_spec base (p_hash q)) as [E|NE].
    + destruct (IH _ _ H) as [I1 [I2 I3]]. split; [|split; [|assumption]].
      * intros p [<-|Hin]; [|now apply I1]. split; [assumption|]. rewrite <- E. apply desc_refl.
      * intros b. rewrite I2. split.
        -- intros [?|[p [Hp Hb]]]; [now left | right]. exists p. split; [now right | assumption].
        -- intros [?|[p [[<-|Hp] Hb]]]; [now left | | right; eauto].
           exfalso. destruct Hb as [B1 [B2 B3]]. rewrite <- E in B2. apply B1. eapply desc_antisym; eauto.
    + destruct (ancestry hs base (p_hash q)) as [route|] eqn:A; [|discriminate].
      apply (ancestry_walk hs) in A. destruct A as [rr [Wk ->]].
      assert (Hrr : rr <> []) by (intros ->; inversion Wk; congruence).
      assert (Hbl : forall b, In b (removelast rr) \/ b = p_hash q <-> between base (p_hash q) b).
      { intros b. rewrite <- (walk_between _ _ _ Wk).
        destruct rr as [|y rr']; [congruence|].
        change (removelast (p_hash q :: y :: rr')) with (p_hash q :: removelast (y :: rr')). cbn [In].
        split; [intros [?|<-]; auto | intros [<-|?]; auto]. }
      destruct (IH _ _ H) as [I1 [I2 I3]].
      destruct (fold_set_add (removelast rr) (set_add (p_hash q) v0)) as [F1 F2].
      split; [|split].
      * intros p [<-|Hin]; [|now apply I1]. split; [assumption | now exists rr].
      * intros b. rewrite I2, F1, In_set_add. split.
        -- intros [[Hr|[->|Hv]]|[p [Hp Hb]]].
           ++ right. exists q. split; [now left|]. apply Hbl. now left.
           ++ right. exists q. split; [now left|]. apply Hbl. now right.
           ++ now left.
           ++ right. exists p. split; [now right | assumption].
        -- intros [Hv|[p [[<-|Hp] Hb]]].
           ++ left. right. now right.
           ++ apply Hbl in Hb. destruct Hb as [Hr| ->]; [left; now left | left; right; now left].
           ++ right. eauto.
      * intros ND. apply I3, F2. now apply NoDup_set_add.
Qed.

Lemma visit_total base : forall ps v0,
  (forall p, In p ps -> p_ok p = true /\ desc base (p_hash p)) ->
  exists v, visit hs base ps v0 = inr v.
Proof.
  induction ps as [|q r IH]; intros v0 H; cbn [visit]; [eauto|].
  destruct (H q (or_introl eq_refl)) as [OK D]. rewrite OK. cbn [negb].
  destruct (N.eqb_spec base (p_hash q)); [apply IH; intros p Hp; apply H; now right|].
  destruct D as [rr Wk].
  assert (A : ancestry hs base (p_hash q) = Some (removelast rr)) by (apply (ancestry_walk hs); eauto).
  rewrite A. apply IH. intros p Hp. apply H. now right.
Qed.

Lemma subset_incl a b : subset a b = true <-> incl a b.
Proof.
  unfold subset, incl. rewrite forallb_forall. split; intros H x Hx; specialize (H x Hx).
  - now apply existsb_eqb_In.
  - now apply existsb_eqb_In.
Qed.

(* the part of verifyWithVoterSet after ValidateCommit *)
Definition ancestry_part (ps : list precommit) : bool :=
  match ps with
  | [] => false
  | p0 :: rest =>
    match visit hs (p_hash (last_min p0 rest)) ps [] with
    | inl _ => false
    | inr visited =>
      let hashes := nodupN (map h_hash hs) in
      Nat.eqb (length visited) (length hashes) && subset visited hashes && subset hashes visited
    end
  end.

Lemma ancestry_part_spec ps : ancestry_part ps = forallb p_ok ps && ancestry_spec hs ps.
Proof.
  unfold ancestry_part, ancestry_spec. destruct ps as [|p0 rest]; [reflexivity|].
  set (ps := p0 :: rest). set (base := p_hash (last_min p0 rest)).
  destruct (visit hs base ps []) as [e|v] eqn:VI.
  - (* the loop failed: a bad signature or a precommit off the base's chain *)
    symmetry. apply not_true_iff_false. intros S.
    apply andb_true_iff in S. destruct S as [S1 S2].
    apply andb_true_iff in S2. destruct S2 as [S2 _]. apply andb_true_iff in S2. destruct S2 as [S2 _].
    rewrite forallb_forall in S1, S2.
    destruct (visit_total base ps []) as [v Hv]; [|congruence].
    intros p Hp. split; [now apply S1|]. apply (is_eq_or_desc_iff hs). now apply S2.
  - destruct (visit_spec _ _ _ _ VI) as [V1 [V2 V3]]. specialize (V3 (NoDup_nil _)).
    assert (Hok : forallb p_ok ps = true) by (apply forallb_forall; intros p Hp; now apply V1).
    assert (Hde : forallb (fun p => is_eq_or_desc hs base (p_hash p)) ps = true).
    { apply forallb_forall. intros p Hp. apply (is_eq_or_desc_iff hs). now apply V1. }
    assert (Hhd : forallb (fun p => (p_hash p =? base) || match find_hdr hs (p_hash p) with Some _ => true | None => false end) ps = true).
    { apply forallb_forall. intros p Hp. destruct (N.eqb_spec (p_hash p) base); [reflexivity|]. cbn.
      destruct (V1 p Hp) as [_ D]. destruct (desc_inv hs _ _ D) as [?|[x [Hx _]]]; [contradiction|]. now rewrite Hx. }
    rewrite Hok, Hde, Hhd. cbn [andb]. rewrite andb_true_r.
    (* visited is always inside the header hashes *)
    assert (Hsub : subset v (nodupN (map h_hash hs)) = true).
    { apply subset_incl. intros b Hb. apply V2 in Hb. destruct Hb as [[]|[p [Hp [B1 [B2 B3]]]]].
      apply In_nodupN. destruct (desc_inv hs _ _ B3) as [?|[x [Hx _]]]; [contradiction|].
      eapply find_hdr_In; eauto. }
    rewrite Hsub, andb_true_r.
    destruct (forallb (fun h => existsb (fun p => negb (h_hash h =? base) && is_eq_or_desc hs (h_hash h) (p_hash p)
                                                    && is_eq_or_desc hs base (h_hash h)) ps) hs) eqn:FH.
    + (* every header is used: the sets are equal, hence equally long *)
      assert (Hsup : incl (nodupN (map h_hash hs)) v).
      { intros b Hb. apply In_nodupN, in_map_iff in Hb. destruct Hb as [h [<- Hh]].
        rewrite forallb_forall in FH. specialize (FH h Hh). apply existsb_exists in FH.
        destruct FH as [p [Hp Hc]]. apply andb_true_iff in Hc. destruct Hc as [Hc C3].
        apply andb_true_iff in Hc. destruct Hc as [C1 C2].
        apply negb_true_iff, N.eqb_neq in C1. apply (is_eq_or_desc_iff hs) in C2, C3.
        apply V2. right. exists p. split; [assumption|]. split; auto. }
      apply subset_incl in Hsub.
      assert (L1 : (length v <= length (nodupN (map h_hash hs)))%nat) by (apply NoDup_incl_length; assumption).
      assert (L2 : (length (nodupN (map h_hash hs)) <= length v)%nat)
        by (apply NoDup_incl_length; [apply NoDup_nodupN | assumption]).
      apply andb_true_iff. split; [apply Nat.eqb_eq; lia | now apply subset_incl].
    + (* an unused header *)
      apply andb_false_iff. right. apply not_true_iff_false. intros S. apply subset_incl in S.
      rewrite <- not_true_iff_false in FH. apply FH. apply forallb_forall. intros h Hh.
      assert (Hin : In (h_hash h) v) by (apply S, In_nodupN, in_map, Hh).
      apply V2 in Hin. destruct Hin as [[]|[p [Hp [B1 [B2 B3]]]]].
      apply existsb_exists. exists p. split; [assumption|].
      apply andb_true_iff. split; [apply andb_true_iff; split|].
      * apply negb_true_iff, N.eqb_neq. assumption.
      * now apply (is_eq_or_desc_iff hs).
      * now apply (is_eq_or_desc_iff hs).
Qed.

End Just.

(* ---------- the whole verdict ---------- *)
Theorem verify_finalizes_iff vs hs num fhash fnum thash tnum ps r :
  (forall x, In x hs -> num (h_hash x) = num (h_parent x) + 1) ->
  vs_total vs < 2 * vs_threshold vs ->
  (forall p, In p ps -> p_num p = num (p_hash p)) ->
  excess_equivocation vs ps = false ->
  validate_commit vs hs thash tnum ps = VOk r ->
  (verify_finalizes vs hs fhash fnum thash tnum ps = JOk <->
   justification_valid_spec vs hs fhash fnum thash tnum ps = true).
Proof.
  intros wf Hvs Hnum Hex VC.
  pose proof (validate_commit_iff vs hs num wf Hvs thash tnum ps r Hnum Hex VC) as Hv.
  unfold verify_finalizes, justification_valid_spec.
  destruct ((fhash =? thash) && (fnum =? tnum)) eqn:T; cbn [negb andb].
  2:{ split; discriminate. }
  unfold verify_with_voter_set. rewrite VC, Hv.
  destruct (commit_valid_spec vs hs thash tnum ps) eqn:CS; cbn [negb andb].
  2:{ split; discriminate. }
  pose proof (ancestry_part_spec hs num wf ps) as AP. unfold ancestry_part in AP.
  destruct ps as [|p0 rest].
  - cbn in CS. discriminate.
  - rewrite <- AP.
    destruct (visit hs (p_hash (last_min p0 rest)) (p0 :: rest) []) as [e|v]; [split; discriminate|].
    destruct (Nat.eqb (length v) (length (nodupN (map h_hash hs)))); cbn [negb andb]; [|split; discriminate].
    destruct (subset v (nodupN (map h_hash hs))); cbn [andb]; [|split; discriminate].
    destruct (subset (nodupN (map h_hash hs)) v); split; (reflexivity || discriminate).
Qed.
