From Coq Require Import Extraction ExtrOcamlBasic.
From Common Require Import Bytes Drv.
From GrandpaPayload Require Import Payload.
From C19 Require Import Model.
Extraction "model.ml" drv_b2n drv_n2b drv_z_of_n drv_n_of_z drv_nat_of_n drv_n_of_nat
  mkVS mkHdr mkPc new_voter_set new_voter_set_prefix voter_set_spec vs_contains vs_weight
  validate_commit validate_commit_prefix verify_with_voter_set verify_finalizes
  commit_valid_spec ghost_ambiguous ancestry_spec justification_valid_spec
  members is_equivocator voter_ids spec_weight excess_equivocation equivocating_weight tree_hdr tree_num is_eq_or_desc
  verify_block_justification verify_block_justification_prefix unit_weights vote_payload validate_commit_w verify_finalizes_w.
