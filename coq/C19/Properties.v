(* C19/Properties.v — property C19: justification verification accepts exactly valid justifications.
   Statements only, each closed by `exact <lemma>`, with Print Assumptions beneath.

   Vocabulary (C19/Model.v): [new_voter_set] = NewVoterSet, [validate_commit] = ValidateCommit,
   [verify_finalizes] = DecodeGrandpaJustificationVerifyFinalizes after decoding (target check +
   verifyWithVoterSet), as repaired by fixes/C19-voterset-duplicate-weights.patch and
   fixes/C19-commit-base-sort.patch; the Round / vote graph is replaced by its specification
   [precommit_ghost] (C20's subject).  [members vs ps] = the precommits of set members;
   [spec_weight vs hs ms b] = the summed weight of the DISTINCT voters with a precommit on b or a
   descendant of b (per the supplied headers), an equivocator (two different (vote, signature)
   pairs) counted once on every block.  [justification_valid_spec] is the property text: target
   matches, every signature valid, the members' precommits all descend from the lowest one, reach
   threshold (= more than two thirds) weight on the target or its descendants, no child of the
   target does (the precommit GHOST is the target), and the headers are exactly the blocks between
   the precommit targets and the lowest one.

   Hypotheses of the iff / order theorems, all part of the property's quantifier or of the recorded
   finding: [wf] block numbers are consistent with the headers' parent links and the precommits
   carry the numbers of their blocks ("precommit sets over generated block trees");
   [excess_equivocation = false]: the equivocating weight is within total - threshold (outside it
   the verdict of the code depends on the precommit order: C19_order_excess_refuted, finding
   commit-order-dependent-under-excess-equivocation); the GHOST descent of the model is not
   ambiguous ([validate_commit = VOk _]), which is PROVED for every voter set made by NewVoterSet
   within the equivocation bound (C19_verdict_total), so C19_accept_iff_new_voter_set and
   C19_order_free_new_voter_set carry no such side condition.  Block-number width: the repaired code only compares numbers and
   adds a depth to the base number, the model has no width parameter; the pinned tree's
   width-dependent comparator is kept as [validate_commit_prefix w] (C19_width_prefix_refuted). *)
From Coq Require Import List NArith ZArith Bool Permutation.
From C19 Require Import Model ProofsVoterSet ProofsChain ProofsCommit ProofsIff ProofsJust ProofsOrder ProofsNoAmb ProofsMain ProofsShift ProofsBlock ProofsPayload ProofsWidth.
From Common Require Import Bytes.
From GrandpaPayload Require Import Payload.
Import ListNotations.
Local Open Scope N_scope.

(* threshold(total) is exactly "more than two thirds" *)
Theorem C19_threshold_supermajority : forall total w,
  1 <= total -> (threshold total <= w <-> 2 * total < 3 * w).
Proof. exact threshold_supermajority. Qed.
Print Assumptions C19_threshold_supermajority.

(* NewVoterSet on every weight list: a voter listed several times has its weights summed, zero
   weights and an overflowing total are handled as specified, ids ascend, the threshold is the
   least supermajority weight *)
Theorem C19_voter_set_spec : forall ws, voter_set_spec ws (new_voter_set ws) = true.
Proof. exact new_voter_set_spec. Qed.
Print Assumptions C19_voter_set_spec.

Theorem C19_dup_weights_sum : forall ws vs,
  new_voter_set ws = Some vs ->
  vs_total vs = sum_all ws /\ 1 <= vs_total vs < two64
  /\ 2 * vs_total vs < 3 * vs_threshold vs /\ 3 * (vs_threshold vs - 1) <= 2 * vs_total vs
  /\ (forall id, vs_weight vs id = sum_for id ws)
  /\ (forall id, vs_contains vs id = negb (sum_for id ws =? 0)).
Proof. exact new_voter_set_some. Qed.
Print Assumptions C19_dup_weights_sum.

Theorem C19_voter_set_order_free : forall ws ws',
  Permutation ws ws' -> new_voter_set ws = new_voter_set ws'.
Proof. exact new_voter_set_perm. Qed.
Print Assumptions C19_voter_set_order_free.

(* the pinned tree overwrote the weight of a repeated id: [(a,1),(a,2),(b,1)] gave a weight 2
   with total 4, and the result depended on the order of the list *)
Theorem C19_voter_set_prefix_refuted : exists ws ws',
  voter_set_spec ws (new_voter_set_prefix ws) = false
  /\ Permutation ws ws' /\ new_voter_set_prefix ws <> new_voter_set_prefix ws'.
Proof.
  exists [(0, 1); (0, 2); (1, 1)], [(0, 2); (0, 1); (1, 1)].
  destruct new_voter_set_prefix_witness as [H1 [H2 [_ H4]]].
  split; [exact H1|]. split; [apply perm_swap|]. rewrite H2, H4. discriminate.
Qed.
Print Assumptions C19_voter_set_prefix_refuted.

(* ValidateCommit: a commit declared valid has threshold weight of distinct set members on the
   target or its descendants, and every member precommit is on the chain of the lowest one *)
Theorem C19_valid_commit_sound : forall vs hs thash tnum ps r,
  validate_commit vs hs thash tnum ps = VOk r -> r_valid r = true ->
  vs_threshold vs <= spec_weight vs hs (members vs ps) thash
  /\ exists p0 rest, members vs ps = p0 :: rest
       /\ forallb (fun p => is_eq_or_desc hs (p_hash (first_min p0 rest)) (p_hash p)) (members vs ps) = true.
Proof. exact validate_commit_sound. Qed.
Print Assumptions C19_valid_commit_sound.

(* an accepted justification, for a voter set made by NewVoterSet from any weight list: the
   finalized target is the commit target, every listed signature is valid, MORE THAN TWO THIRDS of
   the total weight (repeated ids summed) stands on the target or its descendants, and every
   precommit is connected by the supplied headers to the lowest one *)
Theorem C19_accept_sound : forall ws vs hs fhash fnum thash tnum ps,
  new_voter_set ws = Some vs ->
  verify_finalizes vs hs fhash fnum thash tnum ps = JOk ->
  fhash = thash /\ fnum = tnum
  /\ (forall p, In p ps -> p_ok p = true)
  /\ 2 * sum_all ws < 3 * spec_weight vs hs (members vs ps) thash
  /\ exists p0 rest, ps = p0 :: rest
       /\ forall p, In p ps -> is_eq_or_desc hs (p_hash (last_min p0 rest)) (p_hash p) = true.
Proof.
  intros ws vs hs fhash fnum thash tnum ps E H.
  destruct (verify_finalizes_sound _ _ _ _ _ _ _ H) as [H1 [H2 [[r [H3 H4]] [H5 H6]]]].
  destruct (validate_commit_sound _ _ _ _ _ _ H3 H4) as [W _].
  destruct (new_voter_set_some _ _ E) as [T [_ [B _]]].
  repeat split; auto. rewrite <- T.
  apply N.lt_le_trans with (3 * vs_threshold vs); [exact B|].
  apply N.mul_le_mono_l. exact W.
Qed.
Print Assumptions C19_accept_sound.

(* ValidateCommit declares a commit valid EXACTLY when the order-free specification holds *)
Theorem C19_commit_iff : forall vs hs num thash tnum ps r,
  (forall x, In x hs -> num (h_hash x) = num (h_parent x) + 1) ->
  vs_total vs < 2 * vs_threshold vs ->
  (forall p, In p ps -> p_num p = num (p_hash p)) ->
  excess_equivocation vs ps = false ->
  validate_commit vs hs thash tnum ps = VOk r ->
  r_valid r = commit_valid_spec vs hs thash tnum ps.
Proof.
  intros vs hs num thash tnum ps r wf Hvs. exact (validate_commit_iff vs hs num wf Hvs thash tnum ps r).
Qed.
Print Assumptions C19_commit_iff.

(* THE PROPERTY: a justification is accepted iff it is valid *)
Theorem C19_accept_iff : forall vs hs num fhash fnum thash tnum ps r,
  (forall x, In x hs -> num (h_hash x) = num (h_parent x) + 1) ->
  vs_total vs < 2 * vs_threshold vs ->
  (forall p, In p ps -> p_num p = num (p_hash p)) ->
  excess_equivocation vs ps = false ->
  validate_commit vs hs thash tnum ps = VOk r ->
  (verify_finalizes vs hs fhash fnum thash tnum ps = JOk <->
   justification_valid_spec vs hs fhash fnum thash tnum ps = true).
Proof. exact verify_finalizes_iff. Qed.
Print Assumptions C19_accept_iff.

(* the specification does not depend on the order of the precommits *)
Theorem C19_spec_order_free : forall vs hs num fhash fnum thash tnum ps ps',
  (forall x, In x hs -> num (h_hash x) = num (h_parent x) + 1) ->
  (forall p, In p ps -> p_num p = num (p_hash p)) ->
  Permutation ps ps' ->
  commit_valid_spec vs hs thash tnum ps = commit_valid_spec vs hs thash tnum ps'
  /\ justification_valid_spec vs hs fhash fnum thash tnum ps
     = justification_valid_spec vs hs fhash fnum thash tnum ps'.
Proof.
  intros vs hs num fhash fnum thash tnum ps ps' wf Hn P. split.
  - exact (commit_valid_spec_perm vs hs num wf thash tnum ps ps' Hn P).
  - exact (justification_valid_spec_perm vs hs num wf fhash fnum thash tnum ps ps' Hn P).
Qed.
Print Assumptions C19_spec_order_free.

(* hence neither does the verdict *)
Theorem C19_order_free : forall vs hs num fhash fnum thash tnum ps ps' r r',
  (forall x, In x hs -> num (h_hash x) = num (h_parent x) + 1) ->
  vs_total vs < 2 * vs_threshold vs ->
  (forall p, In p ps -> p_num p = num (p_hash p)) ->
  excess_equivocation vs ps = false ->
  Permutation ps ps' ->
  validate_commit vs hs thash tnum ps = VOk r ->
  validate_commit vs hs thash tnum ps' = VOk r' ->
  r_valid r = r_valid r'
  /\ (verify_finalizes vs hs fhash fnum thash tnum ps = JOk <->
      verify_finalizes vs hs fhash fnum thash tnum ps' = JOk).
Proof. exact verify_finalizes_order_free. Qed.
Print Assumptions C19_order_free.

(* THE PROPERTY for voter sets made by NewVoterSet from any weight list (repeated ids summed):
   accepted iff valid, and independent of the precommit order; the only side conditions are the
   consistent numbering and the equivocation bound of the recorded finding (the descent of the
   model is proved unambiguous there: C19_verdict_total) *)
Theorem C19_accept_iff_new_voter_set : forall ws vs hs num fhash fnum thash tnum ps,
  new_voter_set ws = Some vs ->
  (forall x, In x hs -> num (h_hash x) = num (h_parent x) + 1) ->
  (forall p, In p ps -> p_num p = num (p_hash p)) ->
  excess_equivocation vs ps = false ->
  (verify_finalizes vs hs fhash fnum thash tnum ps = JOk <->
   justification_valid_spec vs hs fhash fnum thash tnum ps = true).
Proof. exact accept_iff_new_voter_set. Qed.
Print Assumptions C19_accept_iff_new_voter_set.

Theorem C19_order_free_new_voter_set : forall ws vs hs num fhash fnum thash tnum ps ps',
  new_voter_set ws = Some vs ->
  (forall x, In x hs -> num (h_hash x) = num (h_parent x) + 1) ->
  (forall p, In p ps -> p_num p = num (p_hash p)) ->
  excess_equivocation vs ps = false ->
  Permutation ps ps' ->
  (verify_finalizes vs hs fhash fnum thash tnum ps = JOk <->
   verify_finalizes vs hs fhash fnum thash tnum ps' = JOk).
Proof. exact order_free_new_voter_set. Qed.
Print Assumptions C19_order_free_new_voter_set.

Theorem C19_verdict_total : forall vs hs num thash tnum ps,
  (forall x, In x hs -> num (h_hash x) = num (h_parent x) + 1) ->
  2 * vs_total vs < 3 * vs_threshold vs -> weights_bounded vs ->
  excess_equivocation vs ps = false ->
  exists r, validate_commit vs hs thash tnum ps = VOk r.
Proof. exact validate_commit_total. Qed.
Print Assumptions C19_verdict_total.

(* every voter set made by NewVoterSet satisfies the sanity hypothesis above *)
Theorem C19_voter_set_sane : forall ws vs,
  new_voter_set ws = Some vs -> vs_total vs < 2 * vs_threshold vs.
Proof. exact new_voter_set_sane. Qed.
Print Assumptions C19_voter_set_sane.

(* the pinned tree: the comparator `int(a.Number - b.Number)` is never negative for uint32, so
   the base was the first listed target, not the lowest: the same commit was valid at uint64 and
   invalid at uint32, and at uint32 valid in another precommit order *)
Theorem C19_width_prefix_refuted : exists vs hs thash tnum ps,
  validate_commit_prefix 32 vs hs thash tnum ps <> validate_commit_prefix 64 vs hs thash tnum ps
  /\ validate_commit_prefix 32 vs hs thash tnum ps <> validate_commit_prefix 32 vs hs thash tnum (rev ps)
  /\ validate_commit vs hs thash tnum ps = validate_commit vs hs thash tnum (rev ps)
  /\ commit_valid_spec vs hs thash tnum ps = true.
Proof.
  exists w_vs, w_hs, 1, 6, w_pcs. destruct width_witness as [H1 [H2 [H3 [H4 [H5 H6]]]]].
  rewrite H1, H2, H3, H4, H5. repeat split; try discriminate; auto.
Qed.
Print Assumptions C19_width_prefix_refuted.

(* the recorded finding: with equivocating weight above total - threshold the verdict of the
   (repaired) code depends on which of an equivocator's votes is listed first *)
Theorem C19_order_excess_refuted : exists vs hs thash tnum ps ps',
  Permutation ps ps' /\ excess_equivocation vs ps = true
  /\ validate_commit vs hs thash tnum ps <> validate_commit vs hs thash tnum ps'.
Proof.
  exists w_vs1, [mkHdr 1 0 6], 0, 5, [mkPc 0 5 0 0 true; mkPc 1 6 0 0 true],
         [mkPc 1 6 0 0 true; mkPc 0 5 0 0 true].
  destruct order_witness as [H1 [H2 H3]].
  split; [apply perm_swap|]. split; [exact H3|]. rewrite H1, H2. discriminate.
Qed.
Print Assumptions C19_order_excess_refuted.

(* non-vacuity: an accepted justification (three voters, precommits on the target and its child,
   the child's header) and the same one rejected for an unused header *)
Example C19_nonvacuous :
  verify_finalizes w_vs [mkHdr 2 1 7] 1 6 1 6 w_pcs = JOk
  /\ justification_valid_spec w_vs [mkHdr 2 1 7] 1 6 1 6 w_pcs = true
  /\ verify_finalizes w_vs w_hs 1 6 1 6 w_pcs = JErr JUnused.
Proof. destruct good_witness as [H1 [H2 [H3 _]]]. auto. Qed.

(* non-vacuity of the hypotheses of C19_accept_iff / C19_order_free: they hold of the accepted
   justification above with the numbering b |-> b + 5 *)
Example C19_iff_nonvacuous :
  let num := fun b => b + 5 in
  (forall x, In x [mkHdr 2 1 7] -> num (h_hash x) = num (h_parent x) + 1)
  /\ vs_total w_vs < 2 * vs_threshold w_vs
  /\ (forall p, In p w_pcs -> p_num p = num (p_hash p))
  /\ excess_equivocation w_vs w_pcs = false
  /\ validate_commit w_vs [mkHdr 2 1 7] 1 6 w_pcs = VOk (mkVR true 3 0 0 0)
  /\ verify_finalizes w_vs [mkHdr 2 1 7] 1 6 1 6 w_pcs = JOk.
Proof.
  cbv zeta. split; [|split; [|split; [|split; [|split]]]].
  - intros x [<-|[]]. reflexivity.
  - reflexivity.
  - intros p [<-|[<-|[<-|[]]]]; reflexivity.
  - reflexivity.
  - reflexivity.
  - reflexivity.
Qed.

(* ======================= second round (audit) =======================
   "The verdict does not depend on the integer width of block numbers": the repaired code only
   compares block numbers with each other and adds a depth to the base number, so the verdict is
   invariant under adding ANY constant k to every block number of the justification (precommits,
   ancestry headers, commit target, finalized target).  A justification whose numbers need 64 bits
   therefore has the verdict of the same justification moved below 2^32 and vice versa.  No
   hypothesis on the inputs (arbitrary voter set, headers, precommits, also inconsistent ones).
   (The pinned tree's comparator is NOT shift invariant at width 32: C19_width_prefix_refuted.) *)
Theorem C19_number_shift_free : forall k vs hs fhash fnum thash tnum ps,
  validate_commit vs (map (sh_hdr k) hs) thash (tnum + k) (map (sh_pc k) ps)
    = validate_commit vs hs thash tnum ps
  /\ verify_finalizes vs (map (sh_hdr k) hs) fhash (fnum + k) thash (tnum + k) (map (sh_pc k) ps)
     = verify_finalizes vs hs fhash fnum thash tnum ps.
Proof.
  intros k vs hs fhash fnum thash tnum ps. split.
  - exact (validate_commit_sh k vs hs thash tnum ps).
  - exact (verify_finalizes_sh k vs hs fhash fnum thash tnum ps).
Qed.
Print Assumptions C19_number_shift_free.

(* non-vacuity: the accepted witness moved by 2^32 is accepted *)
Example C19_shift_nonvacuous :
  let k := 4294967296 in
  verify_finalizes w_vs (map (sh_hdr k) [mkHdr 2 1 7]) 1 (6 + k) 1 (6 + k) (map (sh_pc k) w_pcs) = JOk.
Proof. vm_compute. reflexivity. Qed.

(* ======================= third round =======================
   Service.VerifyBlockJustification, the entry point of block import ([verify_block_justification],
   as repaired by fixes/C19-verify-block-justification-empty-authority-set.patch and
   fixes/C19-verify-block-justification-number-width.patch): the authority list becomes a voter set
   with weight 1 per ENTRY; numbers inside the justification are uint32, the finalized number is a
   Go uint.  "All voter sets": an authority list that yields no voter set (the empty list) is a
   voter set for which NO justification is valid: the verdict is a rejection, never a panic. *)
Theorem C19_block_no_voter_set_rejected : forall auths hs fhash fnum thash tnum ps,
  (verify_block_justification auths hs fhash fnum thash tnum ps = BNoVoters <->
   auths = [] \/ two64 <= N.of_nat (length auths))
  /\ verify_block_justification auths hs fhash fnum thash tnum ps <> BPanic.
Proof.
  intros. split; [apply block_no_voters | apply block_never_panics].
Qed.
Print Assumptions C19_block_no_voter_set_rejected.

(* accepted iff the list yields a voter set, the finalized number fits 32 bits (so it is compared
   as a number, not modulo 2^32) and the justification is valid for that voter set, in which an
   authority weighs as often as it is listed *)
Theorem C19_block_accept_iff : forall auths hs num fhash fnum thash tnum ps,
  (forall x, In x hs -> num (h_hash x) = num (h_parent x) + 1) ->
  (forall p, In p ps -> p_num p = num (p_hash p)) ->
  (forall vs, new_voter_set (unit_weights auths) = Some vs -> excess_equivocation vs ps = false) ->
  (verify_block_justification auths hs fhash fnum thash tnum ps = BOut JOk <->
   exists vs, new_voter_set (unit_weights auths) = Some vs /\ fnum < two32
              /\ (forall id, vs_weight vs id = N.of_nat (length (filter (N.eqb id) auths)))
              /\ justification_valid_spec vs hs fhash fnum thash tnum ps = true).
Proof. exact block_accept_iff_spec. Qed.
Print Assumptions C19_block_accept_iff.

(* the tree before the repairs: the empty authority list made the entry point panic (nil voter set
   dereferenced), and a finalized number 2^32 + 6 was accepted for a justification of block number 6 *)
Theorem C19_block_prefix_refuted :
  (exists hs fhash fnum thash tnum ps,
     verify_block_justification_prefix [] hs fhash fnum thash tnum ps = BPanic)
  /\ (exists auths hs fhash fnum thash tnum ps,
        verify_block_justification_prefix auths hs fhash fnum thash tnum ps = BOut JOk
        /\ fnum <> tnum
        /\ verify_block_justification auths hs fhash fnum thash tnum ps = BOut (JErr JTarget)).
Proof.
  destruct block_prefix_witness as [H1 [_ [H3 [H4 _]]]]. split.
  - exists wb_hs, 1, 6, 1, 6, wb_pcs. exact H1.
  - exists [0; 1; 2], wb_hs, 1, (6 + two32), 1, 6, wb_pcs. split; [exact H3|]. split; [discriminate | exact H4].
Qed.
Print Assumptions C19_block_prefix_refuted.

(* non-vacuity: accepted with three authorities; with authority 0 listed twice two precommits
   suffice (weight 2 + 1 of total 3), with three single authorities they do not *)
Example C19_block_nonvacuous :
  verify_block_justification [0; 1; 2] wb_hs 1 6 1 6 wb_pcs = BOut JOk
  /\ verify_block_justification [0; 0; 1] wb_hs 1 6 1 6 [mkPc 2 7 0 0 true; mkPc 1 6 1 0 true] = BOut JOk
  /\ verify_block_justification [0; 1; 2] wb_hs 1 6 1 6 [mkPc 2 7 0 0 true; mkPc 1 6 1 0 true] = BOut (JErr JCommit)
  /\ verify_block_justification [] wb_hs 1 6 1 6 wb_pcs = BNoVoters.
Proof. destruct block_prefix_witness as [_ [H2 [_ [_ [H5 [H6 H7]]]]]]. auto. Qed.

(* "Valid signatures for the given round and set", about bytes.  [sigv id bytes sig] is the signature
   verdict on a byte string (ed25519: C29), [hb] the bytes of a block hash, nw = 4 (uint32 numbers)
   or 8 (uint64).  If every verdict bit is [sigv] on the localized payload
   1 ++ hash ++ number(nw LE) ++ round(8 LE) ++ set id(8 LE) ([well_signed], the situation of the
   real code; the encoder is compared with these bytes on every run), an accepted justification has
   EVERY listed signature verifying over the precommit payload for THE GIVEN ROUND AND SET, and more
   than two thirds of the summed weight behind the target. *)
Theorem C19_accept_signed_bytes : forall sigv hb nw round setid ws vs hs fhash fnum thash tnum ps,
  well_signed sigv hb nw round setid ps ->
  new_voter_set ws = Some vs ->
  verify_finalizes vs hs fhash fnum thash tnum ps = JOk ->
  (forall p, In p ps -> sigv (p_id p) (precommit_payload hb nw round setid p) (p_sig p) = true)
  /\ 2 * sum_all ws < 3 * spec_weight vs hs (members vs ps) thash.
Proof. exact accept_signed_bytes. Qed.
Print Assumptions C19_accept_signed_bytes.

Theorem C19_payload_determines_round_and_set : forall hb nw round setid p st h n r i,
  length (hb (p_hash p)) = length h -> st < 256 ->
  p_num p < 256 ^ N.of_nat nw -> n < 256 ^ N.of_nat nw ->
  round < 256 ^ N.of_nat 8 -> r < 256 ^ N.of_nat 8 -> setid < 256 ^ N.of_nat 8 -> i < 256 ^ N.of_nat 8 ->
  precommit_payload hb nw round setid p = vote_payload nw st h n r i ->
  st = stage_precommit /\ h = hb (p_hash p) /\ n = p_num p /\ r = round /\ i = setid.
Proof. exact precommit_payload_determines. Qed.
Print Assumptions C19_payload_determines_round_and_set.

(* Width independence as a theorem about WRAPPED arithmetic.  [validate_commit_w w] /
   [verify_finalizes_w w]: the code at number width w, the GHOST number computed as base + depth
   modulo 2^w.  For block numbers consistent with the supplied headers that fit w bits the w-bit
   code computes exactly the unbounded model (the sum never wraps: the GHOST is an ancestor of a
   precommit target), hence numbers that fit 32 bits get the same verdict at 32 and 64 bits, and
   every theorem above about [verify_finalizes] is a theorem about both widths. *)
Theorem C19_width_free : forall w vs hs num fhash fnum thash tnum ps,
  (forall x, In x hs -> num (h_hash x) = num (h_parent x) + 1) ->
  (forall p, In p ps -> p_num p = num (p_hash p)) ->
  (forall p, In p ps -> p_num p < 2 ^ w) ->
  validate_commit_w w vs hs thash tnum ps = validate_commit vs hs thash tnum ps
  /\ verify_finalizes_w w vs hs fhash fnum thash tnum ps = verify_finalizes vs hs fhash fnum thash tnum ps.
Proof.
  intros w vs hs num fhash fnum thash tnum ps H1 H2 H3. split.
  - exact (validate_commit_w_eq vs hs num H1 w thash tnum ps H2 H3).
  - exact (verify_finalizes_w_eq vs hs num H1 w fhash fnum thash tnum ps H2 H3).
Qed.
Print Assumptions C19_width_free.

Theorem C19_width_32_64 : forall vs hs num fhash fnum thash tnum ps,
  (forall x, In x hs -> num (h_hash x) = num (h_parent x) + 1) ->
  (forall p, In p ps -> p_num p = num (p_hash p)) ->
  (forall p, In p ps -> p_num p < 2 ^ 32) ->
  verify_finalizes_w 32 vs hs fhash fnum thash tnum ps = verify_finalizes_w 64 vs hs fhash fnum thash tnum ps.
Proof.
  intros vs hs num fhash fnum thash tnum ps H1 H2 H3.
  rewrite (verify_finalizes_w_eq vs hs num H1 32 fhash fnum thash tnum ps H2 H3).
  symmetry. apply (verify_finalizes_w_eq vs hs num H1 64 fhash fnum thash tnum ps H2).
  intros p Hp. apply N.lt_trans with (2 ^ 32); [now apply H3 | reflexivity].
Qed.
Print Assumptions C19_width_32_64.

(* the consistency hypothesis cannot be dropped in this model: with a child that claims its
   parent's number 2^32 - 1 the sum wraps at 32 bits only *)
Theorem C19_width_needs_consistency : exists vs hs thash tnum ps,
  (forall p, In p ps -> p_num p < 2 ^ 32)
  /\ validate_commit_w 32 vs hs thash tnum ps <> validate_commit_w 64 vs hs thash tnum ps.
Proof.
  exists ww_vs, [mkHdr 1 0 0], 1, 0, ww_ps. destruct width_wrap_witness as [H1 [H2 H3]].
  split; [exact H3|]. rewrite H1, H2. discriminate.
Qed.
Print Assumptions C19_width_needs_consistency.

(* non-vacuity of C19_width_free: the accepted witness moved to the top of the 32-bit range
   (numbers 2^32 - 2 and 2^32 - 1) is accepted at width 32 *)
Example C19_width_nonvacuous :
  let k := 4294967288 in
  verify_finalizes_w 32 w_vs (map (sh_hdr k) [mkHdr 2 1 7]) 1 (6 + k) 1 (6 + k) (map (sh_pc k) w_pcs) = JOk
  /\ forallb (fun p => p_num p <? 2 ^ 32) (map (sh_pc k) w_pcs) = true
  /\ existsb (fun p => p_num p =? 2 ^ 32 - 1) (map (sh_pc k) w_pcs) = true.
Proof. vm_compute. repeat split; reflexivity. Qed.
