From C19 Require Import Model.
