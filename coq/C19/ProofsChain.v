(* C19/ProofsChain.v — theory of the chain given by the ancestry headers:
   [ancestry] (ancestryChain.Ancestry) as an inductive walk, independence of the fuel,
   reflexivity / transitivity of [is_eq_or_desc], uniqueness of paths, children. *)
From Coq Require Import List NArith ZArith Bool Lia Permutation ZifyN ZifyNat ZifyBool.
From C19 Require Import Model.
Import ListNotations.
Local Open Scope N_scope.

Section Chain.
Variable hs : list hdr.

(* walk base cur r: from cur, following parent links, r lists the blocks reached; the walk stops
   the first time it is at base *)
Inductive walk (base : N) : N -> list N -> Prop :=
| walk_nil : walk base base []
| walk_cons cur x r : cur <> base -> find_hdr hs cur = Some x -> walk base (h_parent x) r ->
                      walk base cur (h_parent x :: r).

Lemma walk_det base cur r1 : walk base cur r1 -> forall r2, walk base cur r2 -> r1 = r2.
Proof.
  induction 1 as [|cur x r Hne Hf Hw IH]; intros r2 W2.
  - inversion W2; subst; [reflexivity | congruence].
  - inversion W2; subst; [congruence|].
    rewrite Hf in H0. inversion H0; subst. f_equal. now apply IH.
Qed.

Lemma walk_last base cur r : walk base cur r -> r <> [] -> last r base = base.
Proof.
  induction 1 as [|cur x r Hne Hf Hw IH]; [congruence|]. intros _.
  destruct r as [|y r']; [inversion Hw; subst; reflexivity|].
  change (last (h_parent x :: y :: r') base) with (last (y :: r') base). apply IH. discriminate.
Qed.

(* every block of a walk (the start included) except the final base has a header *)
Lemma walk_In_hdr base cur r : walk base cur r -> forall b, In b (removelast (cur :: r)) ->
  exists x, find_hdr hs b = Some x.
Proof.
  induction 1 as [|cur x r Hne Hf Hw IH]; intros b Hin; [destruct Hin|].
  change (removelast (cur :: h_parent x :: r)) with (cur :: removelast (h_parent x :: r)) in Hin.
  destruct Hin as [<-|Hin]; [eauto | now apply IH].
Qed.

Lemma walk_suffix base cur r : walk base cur r -> forall b r1 r2, r = r1 ++ b :: r2 -> walk base b r2.
Proof.
  induction 1 as [|cur x r Hne Hf Hw IH]; intros b r1 r2 E.
  - destruct r1; discriminate.
  - destruct r1 as [|a r1]; cbn in E; inversion E; subst.
    + assumption.
    + eapply IH. reflexivity.
Qed.

(* the blocks of a walk are pairwise different *)
Lemma walk_NoDup base cur r : walk base cur r -> NoDup (cur :: r).
Proof.
  intros W. induction W as [|cur x r Hne Hf Hw IH]; [constructor; [intros []|constructor]|].
  constructor; [|assumption].
  intros Hin. destruct Hin as [E|Hin].
  - (* the parent is cur itself: the walk from cur would be its own strict suffix *)
    rewrite E in Hw. pose proof (walk_cons base cur x r Hne Hf) as W2.
    rewrite E in W2. specialize (W2 Hw).
    pose proof (walk_det _ _ _ Hw _ W2) as Er.
    apply (f_equal (@length N)) in Er. cbn in Er. lia.
  - apply in_split in Hin. destruct Hin as [r1 [r2 Er]].
    pose proof (walk_suffix _ _ _ Hw _ _ _ Er) as Wc.
    pose proof (walk_cons base cur x r Hne Hf Hw) as W2.
    pose proof (walk_det _ _ _ Wc _ W2) as E2.
    apply (f_equal (@length N)) in E2. rewrite Er in E2. cbn in E2. rewrite app_length in E2. cbn in E2. lia.
Qed.

Lemma find_hdr_In b x : find_hdr hs b = Some x -> In b (map h_hash hs).
Proof.
  induction hs as [|y l IH]; cbn; [discriminate|].
  destruct (N.eqb_spec (h_hash y) b); [intros _; now left | intros H; right; now apply IH].
Qed.

Lemma walk_length base cur r : walk base cur r -> (length r <= length hs)%nat.
Proof.
  intros W.
  assert (L : (length (removelast (cur :: r)) <= length (map h_hash hs))%nat).
  { apply NoDup_incl_length.
    - pose proof (walk_NoDup _ _ _ W) as ND.
      assert (G : forall l : list N, NoDup l -> NoDup (removelast l)).
      { induction l as [|a [|b l'] IHl]; intros H; cbn; try constructor.
        - inversion H; subst. intros Hin. apply H2. clear -Hin.
          change (In a (removelast (b :: l'))) in Hin.
          revert Hin. generalize (b :: l'). induction l as [|c [|d l''] IHl]; cbn; intros Hin; auto.
          destruct Hin as [->|Hin]; [now left | right; now apply IHl].
        - apply IHl. now inversion H. }
      now apply G.
    - intros b Hin. destruct (walk_In_hdr _ _ _ W b Hin) as [x Hx]. eapply find_hdr_In; eauto. }
  rewrite map_length in L.
  assert (length (removelast (cur :: r)) = length r).
  { clear. revert cur. induction r as [|a r IH]; intros cur; [reflexivity|].
    change (removelast (cur :: a :: r)) with (cur :: removelast (a :: r)). cbn [length]. now rewrite IH. }
  lia.
Qed.

(* ---------- the fuelled function computes the walk ---------- *)
Lemma ancestry_fuel_walk fuel : forall base cur acc r,
  walk base cur r -> (length r <= fuel)%nat ->
  ancestry_fuel fuel hs base cur acc = Some (removelast (rev acc ++ r)).
Proof.
  induction fuel as [|f IH]; intros base cur acc r W L.
  - destruct r; [|cbn in L; lia]. inversion W; subst. cbn. rewrite N.eqb_refl, app_nil_r. reflexivity.
  - inversion W; subst.
    + cbn. rewrite N.eqb_refl, app_nil_r. reflexivity.
    + cbn [ancestry_fuel]. destruct (N.eqb_spec cur base); [contradiction|].
      rewrite H0. rewrite (IH base (h_parent x) (h_parent x :: acc) r0 H1) by (cbn in L; lia).
      cbn [rev]. rewrite <- app_assoc. reflexivity.
Qed.

Lemma ancestry_fuel_some fuel : forall base cur acc route,
  ancestry_fuel fuel hs base cur acc = Some route -> exists r, walk base cur r.
Proof.
  induction fuel as [|f IH]; intros base cur acc route H; cbn [ancestry_fuel] in H.
  - destruct (N.eqb_spec cur base); [subst; exists []; constructor | discriminate].
  - destruct (N.eqb_spec cur base); [subst; exists []; constructor|].
    destruct (find_hdr hs cur) as [x|] eqn:F; [|discriminate].
    destruct (IH _ _ _ _ H) as [r W]. exists (h_parent x :: r). now constructor.
Qed.

Lemma ancestry_walk base blk route :
  ancestry hs base blk = Some route <-> exists r, walk base blk r /\ route = removelast r.
Proof.
  unfold ancestry. split.
  - intros H. destruct (ancestry_fuel_some _ _ _ _ _ H) as [r W]. exists r. split; [assumption|].
    rewrite (ancestry_fuel_walk _ _ _ [] _ W) in H by (pose proof (walk_length _ _ _ W); lia).
    cbn in H. congruence.
  - intros [r [W ->]]. rewrite (ancestry_fuel_walk _ _ _ [] _ W) by (pose proof (walk_length _ _ _ W); lia).
    reflexivity.
Qed.

Definition desc (base blk : N) : Prop := exists r, walk base blk r.

Lemma is_eq_or_desc_iff base blk : is_eq_or_desc hs base blk = true <-> desc base blk.
Proof.
  unfold is_eq_or_desc, desc. destruct (ancestry hs base blk) as [route|] eqn:A.
  - apply ancestry_walk in A. destruct A as [r [W _]]. split; eauto.
  - split; [discriminate|]. intros [r W].
    assert (ancestry hs base blk = Some (removelast r)) by (apply ancestry_walk; eauto). congruence.
Qed.

Lemma desc_refl b : desc b b.
Proof. exists []. constructor. Qed.

Lemma desc_trans b c t : desc c t -> desc b c -> desc b t.
Proof.
  intros [r W] Hbc. induction W as [|cur x r Hne Hf Hw IH]; [assumption|].
  destruct (N.eq_dec cur b) as [->|Hnb]; [apply desc_refl|].
  destruct IH as [r' W']. exists (h_parent x :: r'). now constructor.
Qed.

Lemma desc_step b cur x : cur <> b -> find_hdr hs cur = Some x -> desc b (h_parent x) -> desc b cur.
Proof. intros Hne Hf [r W]. exists (h_parent x :: r). now constructor. Qed.

Lemma desc_inv b cur : desc b cur -> cur = b \/ exists x, find_hdr hs cur = Some x /\ desc b (h_parent x).
Proof.
  intros [r W]. inversion W; subst; [now left | right]. exists x. split; [assumption|]. now exists r0.
Qed.

Lemma find_hdr_spec b x : find_hdr hs b = Some x -> In x hs /\ h_hash x = b.
Proof.
  induction hs as [|y l IH]; cbn; [discriminate|].
  destruct (N.eqb_spec (h_hash y) b).
  - intros E. inversion E; subst. split; [now left | reflexivity].
  - intros H. destruct (IH H) as [? ?]. split; [now right | assumption].
Qed.

(* ---------- a numbering of the blocks: header numbers are consistent with the parent links ---------- *)
Variable num : N -> N.
Hypothesis wf : forall x, In x hs -> num (h_hash x) = num (h_parent x) + 1.

Lemma find_hdr_num b x : find_hdr hs b = Some x -> num b = num (h_parent x) + 1.
Proof. intros H. destruct (find_hdr_spec _ _ H) as [Hin <-]. now apply wf. Qed.

Lemma walk_num base cur r : walk base cur r -> num cur = num base + N.of_nat (length r).
Proof.
  induction 1 as [|cur x r Hne Hf Hw IH]; [cbn; lia|].
  rewrite (find_hdr_num _ _ Hf), IH. cbn [length]. lia.
Qed.

Lemma desc_num_le b t : desc b t -> num b <= num t.
Proof. intros [r W]. rewrite (walk_num _ _ _ W). lia. Qed.

Lemma desc_same_num b t : desc b t -> num b = num t -> t = b.
Proof.
  intros [r W] E. rewrite (walk_num _ _ _ W) in E. destruct r; [inversion W; reflexivity | cbn in E; lia].
Qed.

Lemma desc_antisym a b : desc a b -> desc b a -> a = b.
Proof.
  intros H1 H2. pose proof (desc_num_le _ _ H1). pose proof (desc_num_le _ _ H2).
  symmetry. apply desc_same_num; [assumption | lia].
Qed.

(* two ancestors of one block are comparable: the walk up from t is a single line *)
Lemma desc_line a b t : desc a t -> desc b t -> desc a b \/ desc b a.
Proof.
  intros [r W] Hb. induction W as [|cur x r Hne Hf Hw IH]; [now right|].
  destruct (desc_inv _ _ Hb) as [->|[x' [Hf' Hb']]].
  - left. exists (h_parent x :: r). now constructor.
  - rewrite Hf in Hf'. inversion Hf'; subst x'. now apply IH.
Qed.

(* ---------- children ---------- *)
(* c is the child of b on the way up from t *)
Definition child_of (b t c : N) : Prop :=
  c <> b /\ desc c t /\ exists x, find_hdr hs c = Some x /\ h_parent x = b.

Lemma last_default_irrel (A : Type) (l : list A) (d1 d2 : A) : l <> [] -> last l d1 = last l d2.
Proof.
  induction l as [|a [|b l'] IH]; intros H; [congruence | reflexivity|].
  change (last (b :: l') d1 = last (b :: l') d2). apply IH. discriminate.
Qed.

Lemma removelast_app_last (A : Type) (l : list A) (a : A) : removelast (l ++ [a]) = l.
Proof. apply removelast_last. Qed.

Lemma walk_child b t r : walk b t r -> t <> b ->
  exists c, child_of b t c /\ c = last (removelast r) t.
Proof.
  induction 1 as [|cur x r Hne Hf Hw IH]; [congruence|]. intros _.
  destruct (N.eq_dec (h_parent x) b) as [E|NE].
  - (* cur is the child *)
    rewrite E in Hw. inversion Hw; subst; [|congruence].
    exists cur. split; [|reflexivity]. split; [assumption|]. split; [apply desc_refl|]. eauto.
  - destruct (IH NE) as [c [[C1 [C2 C3]] C4]]. exists c. split.
    + split; [assumption|]. split; [|assumption]. eapply desc_step; eauto.
      intros ->. (* cur = c would make c its own strict descendant *)
      destruct C2 as [r2 W2]. pose proof (walk_num _ _ _ W2) as N2.
      rewrite (find_hdr_num _ _ Hf) in N2. lia.
    + rewrite C4. destruct r as [|y r0]; [inversion Hw; congruence|].
      change (removelast (h_parent x :: y :: r0)) with (h_parent x :: removelast (y :: r0)).
      destruct (removelast (y :: r0)) as [|z l] eqn:R; [reflexivity|].
      change (last (h_parent x :: z :: l) cur) with (last (z :: l) cur).
      apply last_default_irrel. discriminate.
Qed.

Lemma child_towards_spec b t c :
  child_towards hs b t = Some c <-> t <> b /\ desc b t /\ child_of b t c.
Proof.
  unfold child_towards. destruct (N.eqb_spec b t) as [E|NE].
  - subst. split; [discriminate | intros [H _]; congruence].
  - destruct (ancestry hs b t) as [route|] eqn:A.
    + apply ancestry_walk in A. destruct A as [r [W ->]].
      destruct (walk_child _ _ _ W (not_eq_sym NE)) as [c0 [Hc0 Ec0]].
      assert (Hval : match removelast r with [] => Some t | _ :: _ => Some (last (removelast r) t) end = Some c0).
      { rewrite Ec0. destruct (removelast r); reflexivity. }
      rewrite Hval. split.
      * intros E. inversion E; subst c. split; [auto|]. split; [now exists r | assumption].
      * intros [_ [_ Hc]]. f_equal.
        (* uniqueness of the child *)
        destruct Hc0 as [A1 [A2 [x1 [A3 A4]]]]. destruct Hc as [B1 [B2 [x2 [B3 B4]]]].
        destruct (desc_line _ _ _ A2 B2) as [D|D].
        -- (* c descends from c0 *)
           destruct (desc_inv _ _ D) as [->|[x [Hx Dx]]]; [reflexivity|].
           rewrite B3 in Hx. inversion Hx; subst x. rewrite B4 in Dx.
           pose proof (desc_num_le _ _ Dx). rewrite (find_hdr_num _ _ A3), A4 in H. lia.
        -- destruct (desc_inv _ _ D) as [->|[x [Hx Dx]]]; [reflexivity|].
           rewrite A3 in Hx. inversion Hx; subst x. rewrite A4 in Dx.
           pose proof (desc_num_le _ _ Dx). rewrite (find_hdr_num _ _ B3), B4 in H. lia.
    + split; [discriminate|]. intros [_ [[r W] _]].
      assert (ancestry hs b t = Some (removelast r)) by (apply ancestry_walk; eauto). congruence.
Qed.

Lemma child_of_unique b t c c' : child_of b t c -> child_of b t c' -> c = c'.
Proof.
  intros [A1 [A2 [x1 [A3 A4]]]] [B1 [B2 [x2 [B3 B4]]]].
  destruct (desc_line _ _ _ A2 B2) as [D|D].
  - destruct (desc_inv _ _ D) as [->|[x [Hx Dx]]]; [reflexivity|].
    rewrite B3 in Hx. inversion Hx; subst x. rewrite B4 in Dx.
    pose proof (desc_num_le _ _ Dx). rewrite (find_hdr_num _ _ A3), A4 in H. lia.
  - destruct (desc_inv _ _ D) as [->|[x [Hx Dx]]]; [reflexivity|].
    rewrite A3 in Hx. inversion Hx; subst x. rewrite A4 in Dx.
    pose proof (desc_num_le _ _ Dx). rewrite (find_hdr_num _ _ B3), B4 in H. lia.
Qed.

(* the child towards t is also the child towards anything above... below t *)
Lemma child_of_desc b t t' c : child_of b t c -> desc t t' -> child_of b t' c.
Proof.
  intros [A1 [A2 A3]] D. split; [assumption|]. split; [|assumption]. eapply desc_trans; eauto.
Qed.

Lemma child_of_num b t c : child_of b t c -> num c = num b + 1.
Proof. intros [_ [_ [x [F P]]]]. rewrite (find_hdr_num _ _ F), P. reflexivity. Qed.

Lemma child_of_desc_b b t c : child_of b t c -> desc b c.
Proof.
  intros [A1 [_ [x [F P]]]]. eapply desc_step; eauto. rewrite P. apply desc_refl.
Qed.

(* a strict descendant t of b has a child of b below it *)
Lemma desc_child b t : desc b t -> t <> b -> exists c, child_of b t c.
Proof. intros [r W] Hne. destruct (walk_child _ _ _ W Hne) as [c [Hc _]]. eauto. Qed.

(* distance *)
Lemma distance_spec a b d :
  distance hs a b = Some d <-> exists r, walk a b r /\ d = N.of_nat (length r).
Proof.
  unfold distance. destruct (N.eqb_spec a b) as [->|NE].
  - split.
    + intros E. inversion E. exists []. split; [constructor | reflexivity].
    + intros [r [W ->]]. inversion W; subst; [reflexivity | congruence].
  - destruct (ancestry hs a b) as [route|] eqn:A.
    + apply ancestry_walk in A. destruct A as [r [W ->]].
      assert (L : S (length (removelast r)) = length r).
      { destruct r as [|y r']; [inversion W; congruence|].
        clear. revert y. induction r' as [|z r' IH]; intros y; [reflexivity|].
        change (removelast (y :: z :: r')) with (y :: removelast (z :: r')). cbn [length]. now rewrite IH. }
      rewrite L. split.
      * intros E. inversion E. eauto.
      * intros [r2 [W2 ->]]. now rewrite (walk_det _ _ _ W _ W2).
    + split; [discriminate|]. intros [r [W _]].
      assert (ancestry hs a b = Some (removelast r)) by (apply ancestry_walk; eauto). congruence.
Qed.

Lemma distance_num a b d : distance hs a b = Some d -> num b = num a + d.
Proof. intros H. apply distance_spec in H. destruct H as [r [W ->]]. now apply walk_num. Qed.

Lemma desc_distance a b : desc a b -> distance hs a b = Some (num b - num a).
Proof.
  intros [r W]. apply distance_spec. exists r. split; [assumption|].
  rewrite (walk_num _ _ _ W). lia.
Qed.

End Chain.
