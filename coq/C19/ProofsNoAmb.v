(* C19/ProofsNoAmb.v — within the tolerated equivocating weight the GHOST descent is never
   ambiguous (and never runs out of fuel): ValidateCommit's model always gives a verdict. *)
From Coq Require Import List NArith ZArith Bool Lia Permutation ZifyN ZifyNat ZifyBool.
From C19 Require Import Model ProofsVoterSet ProofsChain ProofsCommit ProofsIff.
Import ListNotations.
Local Open Scope N_scope.

(* the weights of distinct voters never add up to more than the total *)
Definition weights_bounded (vs : voterset) : Prop :=
  forall l, NoDup l -> fold_right (fun id acc => vs_weight vs id + acc) 0 l <= vs_total vs.

Lemma sum_for_list_le ws : forall l, NoDup l ->
  fold_right (fun id acc => sum_for id ws + acc) 0 l <= sum_all ws.
Proof.
  induction ws as [|[k w] r IH]; intros l ND.
  - induction l as [|a l IHl]; cbn; [lia|]. inversion ND; subst. specialize (IHl H2). cbn in *. lia.
  - assert (E : fold_right (fun id acc => sum_for id ((k, w) :: r) + acc) 0 l
                = (if existsb (N.eqb k) l then w else 0) + fold_right (fun id acc => sum_for id r + acc) 0 l).
    { clear IH. induction l as [|a l IHl]; [reflexivity|]. inversion ND; subst.
      cbn [fold_right existsb]. rewrite (IHl H2), sum_for_cons. cbn [fst snd].
      destruct (N.eqb_spec k a).
      - subst. assert (existsb (N.eqb a) l = false).
        { apply not_true_iff_false. intros H. apply existsb_eqb_In in H. contradiction. }
        rewrite H. cbn. lia.
      - cbn. lia. }
    rewrite E. specialize (IH l ND). unfold sum_all in *. cbn [fold_right snd].
    destruct (existsb (N.eqb k) l); lia.
Qed.

Lemma new_voter_set_bounded ws vs : new_voter_set ws = Some vs -> weights_bounded vs.
Proof.
  intros E l ND. destruct (new_voter_set_some _ _ E) as [T [_ [_ [_ [W _]]]]].
  rewrite T. pose proof (sum_for_list_le ws l ND) as H.
  assert (fold_right (fun id acc => vs_weight vs id + acc) 0 l = fold_right (fun id acc => sum_for id ws + acc) 0 l).
  { clear -W. induction l as [|a l IH]; cbn; [reflexivity|]. now rewrite W, IH. }
  lia.
Qed.

Section NoAmb.
Variable vs : voterset.
Variable hs : list hdr.
Variable num : N -> N.
Hypothesis wf : forall x, In x hs -> num (h_hash x) = num (h_parent x) + 1.
Hypothesis Hthr : 2 * vs_total vs < 3 * vs_threshold vs.
Hypothesis Hbound : weights_bounded vs.
Variable ms : list precommit.
Hypothesis Hex : fold_right (fun id acc => (if is_equivocator id ms then vs_weight vs id else 0) + acc) 0 (voter_ids ms)
                 <= vs_total vs - vs_threshold vs.

Notation desc := (desc hs).
Notation W := (spec_weight vs hs).
Let votes := t_votes (import_all ms).

(* two different children of one block have disjoint subtrees *)
Lemma children_disjoint cur c1 c2 h :
  In c1 (children hs votes cur) -> In c2 (children hs votes cur) -> c1 <> c2 ->
  desc c1 h -> desc c2 h -> False.
Proof.
  intros H1 H2 NE D1 D2.
  destruct (children_child hs num wf ms _ _ H1) as [_ [N1 _]].
  destruct (children_child hs num wf ms _ _ H2) as [_ [N2 _]].
  destruct (desc_line hs _ _ _ D1 D2) as [D|D].
  - apply NE. symmetry. apply (desc_same_num hs num wf _ _ D). lia.
  - apply NE. apply (desc_same_num hs num wf _ _ D). lia.
Qed.

Lemma backs_two cur c1 c2 id :
  In c1 (children hs votes cur) -> In c2 (children hs votes cur) -> c1 <> c2 ->
  backs vs hs ms c1 id + backs vs hs ms c2 id
  <= vs_weight vs id + (if is_equivocator id ms then vs_weight vs id else 0).
Proof.
  intros H1 H2 NE. unfold backs. destruct (is_equivocator id ms); [lia|].
  destruct (votes_of id ms) as [|a r]; [lia|].
  destruct (is_eq_or_desc hs c1 (p_hash a)) eqn:E1; destruct (is_eq_or_desc hs c2 (p_hash a)) eqn:E2; try lia.
  exfalso. apply (is_eq_or_desc_iff hs) in E1, E2. exact (children_disjoint cur c1 c2 (p_hash a) H1 H2 NE E1 E2).
Qed.

Lemma two_children_weight cur c1 c2 :
  In c1 (children hs votes cur) -> In c2 (children hs votes cur) -> c1 <> c2 ->
  W ms c1 + W ms c2 <= vs_total vs + (vs_total vs - vs_threshold vs).
Proof.
  intros H1 H2 NE.
  assert (G : forall l,
              fold_right (fun id acc => backs vs hs ms c1 id + acc) 0 l
              + fold_right (fun id acc => backs vs hs ms c2 id + acc) 0 l <=
              fold_right (fun id acc => vs_weight vs id + acc) 0 l
              + fold_right (fun id acc => (if is_equivocator id ms then vs_weight vs id else 0) + acc) 0 l).
  { induction l as [|id l IH]; cbn; [lia|].
    pose proof (backs_two cur c1 c2 id H1 H2 NE). lia. }
  pose proof (G (voter_ids ms)) as S. unfold spec_weight.
  pose proof (Hbound (voter_ids ms) (NoDup_nodupN _)). lia.
Qed.

Lemma filter_at_most_one cur :
  match filter (fun c => vs_threshold vs <=? block_weight vs hs votes c) (children hs votes cur) with
  | _ :: _ :: _ => False
  | _ => True
  end.
Proof.
  destruct (filter _ (children hs votes cur)) as [|c1 [|c2 r]] eqn:F; auto.
  assert (I1 : In c1 (filter (fun c => vs_threshold vs <=? block_weight vs hs votes c) (children hs votes cur)))
    by (rewrite F; now left).
  assert (I2 : In c2 (filter (fun c => vs_threshold vs <=? block_weight vs hs votes c) (children hs votes cur)))
    by (rewrite F; right; now left).
  apply filter_In in I1, I2. destruct I1 as [C1 Q1], I2 as [C2 Q2].
  apply N.leb_le in Q1, Q2. unfold votes in Q1, Q2. rewrite block_weight_spec in Q1, Q2.
  assert (NE : c1 <> c2).
  { assert (ND : NoDup (filter (fun c => vs_threshold vs <=? block_weight vs hs votes c) (children hs votes cur)))
      by (apply NoDup_filter; unfold children; apply NoDup_nodupN).
    rewrite F in ND. inversion ND; subst. intros ->. apply H1. now left. }
  pose proof (two_children_weight cur c1 c2 C1 C2 NE). lia.
Qed.

Lemma descend_not_ambiguous base : forall fuel cur d,
  desc base cur ->
  (S (length hs) <= fuel + N.to_nat (num cur - num base))%nat ->
  ghost_descend fuel vs hs votes cur d <> GAmbiguous.
Proof.
  induction fuel as [|f IH]; intros cur d D L.
  - exfalso. destruct D as [r Wk]. pose proof (walk_length hs _ _ _ Wk).
    pose proof (walk_num hs num wf _ _ _ Wk). lia.
  - cbn [ghost_descend]. pose proof (filter_at_most_one cur) as F1.
    destruct (filter (fun c => vs_threshold vs <=? block_weight vs hs votes c) (children hs votes cur))
      as [|c [|c' r]] eqn:F; [discriminate| |contradiction].
    assert (Hin : In c (filter (fun c => vs_threshold vs <=? block_weight vs hs votes c) (children hs votes cur)))
      by (rewrite F; now left).
    apply filter_In in Hin. destruct Hin as [Hc _].
    destruct (children_child hs num wf ms _ _ Hc) as [Dc [Nc _]].
    apply IH; [eapply desc_trans; eauto|].
    pose proof (desc_num_le hs num wf _ _ D). lia.
Qed.

Lemma precommit_ghost_not_ambiguous base : precommit_ghost vs hs votes base <> GAmbiguous.
Proof.
  unfold precommit_ghost. destruct (current_weight vs votes <? vs_threshold vs); [discriminate|].
  destruct (block_weight vs hs votes base <? vs_threshold vs); [discriminate|].
  apply (descend_not_ambiguous base); [apply desc_refl | lia].
Qed.

End NoAmb.

(* ValidateCommit's model always has a verdict within the tolerated equivocating weight *)
Theorem validate_commit_total vs hs num thash tnum ps :
  (forall x, In x hs -> num (h_hash x) = num (h_parent x) + 1) ->
  2 * vs_total vs < 3 * vs_threshold vs -> weights_bounded vs ->
  excess_equivocation vs ps = false ->
  exists r, validate_commit vs hs thash tnum ps = VOk r.
Proof.
  intros wf Hthr Hb Hex. unfold validate_commit. fold (members vs ps).
  assert (Hex' : fold_right (fun id acc => (if is_equivocator id (members vs ps) then vs_weight vs id else 0) + acc) 0
                   (voter_ids (members vs ps)) <= vs_total vs - vs_threshold vs).
  { unfold excess_equivocation, equivocating_weight in Hex. apply N.ltb_ge in Hex. exact Hex. }
  destruct (members vs ps) as [|p0 rest]; [eauto|].
  unfold validate_with_base. destruct (negb _); [eauto|].
  pose proof (precommit_ghost_not_ambiguous vs hs num wf Hthr Hb (p0 :: rest) Hex' (p_hash (first_min p0 rest))) as NA.
  destruct (precommit_ghost vs hs (t_votes (import_all (p0 :: rest))) (p_hash (first_min p0 rest))); eauto.
  contradiction.
Qed.
