(* C19/ProofsIff.v — ValidateCommit declares a commit valid exactly when the order-free
   specification [commit_valid_spec] holds (block numbers consistent with the headers, equivocating
   weight within the tolerated faults, GHOST descent not ambiguous). *)
From Coq Require Import List NArith ZArith Bool Lia Permutation ZifyN ZifyNat ZifyBool.
From C19 Require Import Model ProofsVoterSet ProofsChain ProofsCommit.
Import ListNotations.
Local Open Scope N_scope.

Section Iff.
Variable vs : voterset.
Variable hs : list hdr.
Variable num : N -> N.
Hypothesis wf : forall x, In x hs -> num (h_hash x) = num (h_parent x) + 1.
(* a sane voter set: the threshold is more than half of the total (NewVoterSet: more than 2/3) *)
Hypothesis Hvs : vs_total vs < 2 * vs_threshold vs.

Notation desc := (desc hs).
Notation W := (spec_weight vs hs).

Lemma eod_desc a b : is_eq_or_desc hs a b = true <-> desc a b.
Proof. apply is_eq_or_desc_iff. Qed.

(* ---------- weights ---------- *)
Lemma backs_mono ms a b id : desc a b -> backs vs hs ms b id <= backs vs hs ms a id.
Proof.
  intros D. unfold backs. destruct (is_equivocator id ms); [lia|].
  destruct (votes_of id ms) as [|p r]; [lia|].
  destruct (is_eq_or_desc hs b (p_hash p)) eqn:E; [|lia].
  apply eod_desc in E. assert (E' : desc a (p_hash p)) by (eapply desc_trans; eauto).
  apply eod_desc in E'. rewrite E'. lia.
Qed.

Lemma weight_mono ms a b : desc a b -> W ms b <= W ms a.
Proof.
  intros D. unfold spec_weight. induction (voter_ids ms) as [|id l IH]; cbn; [lia|].
  pose proof (backs_mono ms a b id D). lia.
Qed.

Lemma weight_only_equivocators ms b :
  (forall id, In id (voter_ids ms) -> is_equivocator id ms = false -> backs vs hs ms b id = 0) ->
  W ms b = fold_right (fun id acc => (if is_equivocator id ms then vs_weight vs id else 0) + acc) 0 (voter_ids ms).
Proof.
  unfold spec_weight. induction (voter_ids ms) as [|id l IH]; intros H; cbn; [reflexivity|].
  rewrite IH by (intros id' Hin; apply H; now right). f_equal.
  destruct (is_equivocator id ms) eqn:E.
  - unfold backs. now rewrite E.
  - apply H; [now left | assumption].
Qed.

Lemma block_le_current votes b : block_weight vs hs votes b <= current_weight vs votes.
Proof.
  unfold block_weight, current_weight. induction votes as [|e r IH]; cbn; [lia|].
  assert (vote_weight vs hs b e <= vs_weight vs (fst e)).
  { unfold vote_weight. destruct (snd e); [destruct (is_eq_or_desc _ _ _)|]; lia. }
  lia.
Qed.

(* ---------- the imported votes ---------- *)
Lemma mt_get_In id x m : NoDup (map fst m) -> In (id, x) m -> mt_get id m = Some x.
Proof.
  induction m as [|[k y] r IH]; intros ND Hin; [destruct Hin|].
  cbn in ND. inversion ND; subst. cbn. destruct Hin as [E|Hin].
  - inversion E; subst. now rewrite N.eqb_refl.
  - destruct (N.eqb_spec id k).
    + subst. exfalso. apply H1. apply (in_map fst) in Hin. exact Hin.
    + now apply IH.
Qed.

Lemma mt_get_Some_In id x m : mt_get id m = Some x -> In (id, x) m.
Proof.
  induction m as [|[k y] r IH]; cbn; [discriminate|].
  destruct (N.eqb_spec id k); [intros E; inversion E; subst; now left | intros H; right; now apply IH].
Qed.

Lemma first_target_mhead x : first_target x = p_hash (mhead x).
Proof. destruct x; reflexivity. Qed.

Lemma votes_of_In id ms p : In p (votes_of id ms) <-> In p ms /\ p_id p = id.
Proof. unfold votes_of. rewrite filter_In, N.eqb_eq. tauto. Qed.

(* an entry of the tally: its first vote is the voter's first member precommit *)
Lemma tally_entry ms id x :
  In (id, x) (t_votes (import_all ms)) ->
  exists r, votes_of id ms = mhead x :: r /\ is_eq x = is_equivocator id ms.
Proof.
  intros Hin. destruct (import_all_keys ms) as [ND _].
  pose proof (mt_get_In _ _ _ ND Hin) as G. pose proof (import_all_get ms id) as H.
  destruct (votes_of id ms) as [|a r]; [congruence|].
  destruct H as [x' [G' [Hh He]]]. rewrite G in G'. inversion G'; subst x'. exists r. now rewrite Hh.
Qed.

Lemma tally_has ms id : In id (map p_id ms) -> exists x, In (id, x) (t_votes (import_all ms)).
Proof.
  intros Hin. pose proof (import_all_get ms id) as H.
  destruct (votes_of id ms) as [|a r] eqn:V.
  - apply votes_of_nil in V. contradiction.
  - destruct H as [x [G _]]. exists x. now apply mt_get_Some_In.
Qed.

Lemma same_vote_sig_hash a p : same_vote_sig a p = true -> p_hash p = p_hash a.
Proof.
  unfold same_vote_sig. rewrite !andb_true_iff, !N.eqb_eq. intros [[H _] _]. congruence.
Qed.

(* all votes of a non-equivocator are for the block of its first vote *)
Lemma non_equivocator_hash ms id a r p :
  votes_of id ms = a :: r -> is_equivocator id ms = false -> In p ms -> p_id p = id ->
  p_hash p = p_hash a.
Proof.
  intros V E Hin Hid. unfold is_equivocator in E. rewrite V in E. apply negb_false_iff in E.
  assert (Hp : In p (a :: r)) by (rewrite <- V; apply votes_of_In; auto).
  destruct Hp as [<-|Hp]; [reflexivity|].
  rewrite forallb_forall in E. now apply same_vote_sig_hash, E.
Qed.

(* ---------- children ---------- *)
Lemma In_children votes cur c :
  In c (children hs votes cur) <->
  exists e, In e votes /\ child_towards hs cur (first_target (snd e)) = Some c.
Proof.
  unfold children. rewrite In_nodupN, in_flat_map. split.
  - intros [e [He Hc]]. exists e. split; [assumption|].
    destruct (child_towards hs cur (first_target (snd e))) as [c'|]; [|destruct Hc].
    destruct Hc as [->|[]]. reflexivity.
  - intros [e [He Hc]]. exists e. split; [assumption|]. rewrite Hc. now left.
Qed.

(* ---------- the descent ---------- *)
Section Descent.
Variable ms : list precommit.
Let votes := t_votes (import_all ms).
Let thr := vs_threshold vs.

Lemma bw_spec b : block_weight vs hs votes b = W ms b.
Proof. apply block_weight_spec. Qed.

(* a child reached from a first vote: one step down *)
Lemma children_child cur c :
  In c (children hs votes cur) -> desc cur c /\ num c = num cur + 1 /\
  exists p, In p ms /\ child_towards hs cur (p_hash p) = Some c.
Proof.
  intros H. apply In_children in H. destruct H as [[id x] [He Hc]]. cbn [snd] in Hc.
  rewrite first_target_mhead in Hc.
  pose proof Hc as Hc'. apply (child_towards_spec hs num wf) in Hc'. destruct Hc' as [_ [_ Hco]].
  split; [eapply child_of_desc_b; eauto|]. split; [eapply child_of_num; eauto|].
  destruct (tally_entry _ _ _ He) as [r [V _]]. exists (mhead x). split; [|assumption].
  assert (In (mhead x) (votes_of id ms)) by (rewrite V; now left).
  apply votes_of_In in H. tauto.
Qed.

Lemma descend_sound : forall fuel cur d g d',
  ghost_descend fuel vs hs votes cur d = GBlock g d' ->
  desc cur g /\ d' = d + (num g - num cur)
  /\ (forall c, In c (children hs votes g) -> W ms c < thr).
Proof.
  induction fuel as [|f IH]; intros cur d g d' H; cbn [ghost_descend] in H; [discriminate|].
  destruct (filter (fun c => vs_threshold vs <=? block_weight vs hs votes c) (children hs votes cur))
    as [|c [|c' r]] eqn:F; [| |discriminate].
  - inversion H; subst. split; [apply desc_refl|]. split; [lia|].
    intros c Hc. destruct (N.ltb_spec (W ms c) thr) as [L|L]; [assumption|exfalso].
    assert (Hin : In c (filter (fun c => vs_threshold vs <=? block_weight vs hs votes c) (children hs votes g))).
    { apply filter_In. split; [assumption|]. apply N.leb_le. rewrite bw_spec. exact L. }
    rewrite F in Hin. destruct Hin.
  - assert (Hin : In c (filter (fun c => vs_threshold vs <=? block_weight vs hs votes c) (children hs votes cur)))
      by (rewrite F; now left).
    apply filter_In in Hin. destruct Hin as [Hc _].
    destruct (children_child _ _ Hc) as [D [Nc _]].
    destruct (IH _ _ _ _ H) as [D' [E' C']].
    split; [eapply desc_trans; eauto|]. split; [|assumption].
    pose proof (desc_num_le hs num wf _ _ D'). lia.
Qed.

(* the equivocating weight is below the threshold *)
Hypothesis Hex : fold_right (fun id acc => (if is_equivocator id ms then vs_weight vs id else 0) + acc) 0 (voter_ids ms)
                 <= vs_total vs - vs_threshold vs.

Lemma exists_single_under b :
  thr <= W ms b ->
  exists id a r, In id (voter_ids ms) /\ votes_of id ms = a :: r /\ is_equivocator id ms = false
                 /\ desc b (p_hash a).
Proof.
  intros Hw.
  destruct (existsb (fun id => negb (is_equivocator id ms) && negb (backs vs hs ms b id =? 0)) (voter_ids ms)) eqn:E.
  - apply existsb_exists in E. destruct E as [id [Hin H]]. apply andb_true_iff in H. destruct H as [H1 H2].
    apply negb_true_iff in H1. apply negb_true_iff, N.eqb_neq in H2.
    unfold backs in H2. rewrite H1 in H2. destruct (votes_of id ms) as [|a r] eqn:V; [congruence|].
    destruct (is_eq_or_desc hs b (p_hash a)) eqn:D; [|congruence].
    exists id, a, r. repeat split; auto. now apply eod_desc.
  - exfalso. assert (Hz : forall id, In id (voter_ids ms) -> is_equivocator id ms = false -> backs vs hs ms b id = 0).
    { intros id Hin He. rewrite <- not_true_iff_false in E. destruct (N.eq_dec (backs vs hs ms b id) 0); [assumption|].
      exfalso. apply E. apply existsb_exists. exists id. split; [assumption|].
      rewrite He. cbn. apply negb_true_iff, N.eqb_neq. assumption. }
    rewrite (weight_only_equivocators _ _ Hz) in Hw. unfold thr in *. lia.
Qed.

Lemma descend_complete thash :
  thr <= W ms thash ->
  (forall c, In c (children hs votes thash) -> W ms c < thr) ->
  forall fuel cur d g d',
  desc cur thash ->
  ghost_descend fuel vs hs votes cur d = GBlock g d' -> g = thash.
Proof.
  intros Hw Hch. induction fuel as [|f IH]; intros cur d g d' D H; cbn [ghost_descend] in H; [discriminate|].
  destruct (N.eq_dec cur thash) as [->|Hne].
  - (* at the target: no child qualifies *)
    destruct (filter (fun c => vs_threshold vs <=? block_weight vs hs votes c) (children hs votes thash))
      as [|c l] eqn:F.
    + now inversion H.
    + exfalso. assert (Hin : In c (filter (fun c => vs_threshold vs <=? block_weight vs hs votes c) (children hs votes thash)))
        by (rewrite F; now left).
      apply filter_In in Hin. destruct Hin as [Hc Hq]. apply N.leb_le in Hq. rewrite bw_spec in Hq.
      specialize (Hch _ Hc). unfold thr in *. lia.
  - (* above the target: the child towards the target qualifies, and it is the only one *)
    destruct (desc_child hs num wf _ _ D (not_eq_sym Hne)) as [cs Hcs].
    destruct (exists_single_under _ Hw) as [id [a [r [Hid [V [He Da]]]]]].
    assert (Hcs_a : child_of hs cur (p_hash a) cs) by (eapply child_of_desc; eauto).
    assert (Hne_a : p_hash a <> cur).
    { intros E. rewrite E in Da. apply Hne. symmetry. eapply desc_antisym; eauto. }
    assert (Hct : child_towards hs cur (p_hash a) = Some cs).
    { apply (child_towards_spec hs num wf). split; [assumption|]. split; [eapply desc_trans; eauto | assumption]. }
    assert (Hin_c : In cs (children hs votes cur)).
    { apply In_children. unfold voter_ids in Hid. apply (proj1 (In_nodupN _ _)) in Hid.
      destruct (tally_has _ _ Hid) as [x Hx]. exists (id, x). split; [assumption|]. cbn [snd].
      destruct (tally_entry _ _ _ Hx) as [r' [V' _]]. rewrite V in V'.
      assert (Ea : a = mhead x) by (inversion V'; reflexivity).
      rewrite first_target_mhead, <- Ea. exact Hct. }
    assert (Hq : vs_threshold vs <= W ms cs).
    { destruct Hcs as [_ [Dcs _]]. pose proof (weight_mono ms _ _ Dcs). unfold thr in *. lia. }
    assert (Hin_f : In cs (filter (fun c => vs_threshold vs <=? block_weight vs hs votes c) (children hs votes cur))).
    { apply filter_In. split; [assumption|]. apply N.leb_le. now rewrite bw_spec. }
    destruct (filter (fun c => vs_threshold vs <=? block_weight vs hs votes c) (children hs votes cur))
      as [|c [|c' l]] eqn:F; [destruct Hin_f | | discriminate].
    destruct Hin_f as [->|[]].
    eapply IH; [|exact H]. now destruct Hcs as [_ [Dcs _]].
Qed.

End Descent.

Lemma first_min_In rest : forall p0, In (first_min p0 rest) (p0 :: rest).
Proof.
  induction rest as [|q r IH]; intros p0; cbn [first_min]; [now left|].
  destruct (p_num q <? p_num p0).
  - destruct (IH q) as [E|Hin]; [right; left; exact E | right; right; exact Hin].
  - destruct (IH p0) as [E|Hin]; [left; exact E | right; right; exact Hin].
Qed.

Lemma Gnone_impossible : forall fuel vs0 hs0 votes cur d, ghost_descend fuel vs0 hs0 votes cur d = GNone -> False.
Proof.
  induction fuel as [|f IH]; intros vs0 hs0 votes cur d H; cbn [ghost_descend] in H; [discriminate|].
  destruct (filter _ _) as [|c [|c' r]]; try discriminate. eapply IH; eauto.
Qed.

(* ---------- ValidateCommit = the specification ---------- *)
Theorem validate_commit_iff thash tnum ps r :
  (forall p, In p ps -> p_num p = num (p_hash p)) ->
  excess_equivocation vs ps = false ->
  validate_commit vs hs thash tnum ps = VOk r ->
  r_valid r = commit_valid_spec vs hs thash tnum ps.
Proof.
  intros Hnum Hex. unfold validate_commit, commit_valid_spec. fold (members vs ps).
  assert (Hex' : fold_right (fun id acc => (if is_equivocator id (members vs ps) then vs_weight vs id else 0) + acc) 0
                   (voter_ids (members vs ps)) <= vs_total vs - vs_threshold vs).
  { unfold excess_equivocation, equivocating_weight in Hex. apply N.ltb_ge in Hex. exact Hex. }
  assert (Hms : forall p, In p (members vs ps) -> In p ps) by (intros p Hp; apply filter_In in Hp; tauto).
  destruct (members vs ps) as [|p0 rest] eqn:M.
  - intros H. inversion H. reflexivity.
  - set (ms := p0 :: rest) in *. set (base := first_min p0 rest).
    assert (Hbase : In base ms) by (apply first_min_In).
    assert (Nbase : p_num base = num (p_hash base)) by (apply Hnum, Hms, Hbase).
    unfold validate_with_base.
    destruct (forallb (fun p => is_eq_or_desc hs (p_hash base) (p_hash p)) ms) eqn:FA; cbn [negb andb].
    2:{ intros H. inversion H. reflexivity. }
    destruct (precommit_ghost vs hs (t_votes (import_all ms)) (p_hash base)) as [|g d|] eqn:G;
      intros H; inversion H; subst r; clear H; cbn [r_valid].
    + (* no GHOST: the base itself lacks the weight, so does the target *)
      symmetry. apply not_true_iff_false. intros S.
      apply andb_true_iff in S. destruct S as [S S4].
      apply andb_true_iff in S. destruct S as [S2 S3].
      apply N.leb_le in S2.
      destruct (distance hs (p_hash base) thash) as [dd|] eqn:Di; [|discriminate].
      apply (distance_spec hs) in Di. destruct Di as [rr [Wk _]].
      assert (D : desc (p_hash base) thash) by (now exists rr).
      pose proof (weight_mono ms _ _ D) as Mo.
      pose proof (block_le_current (t_votes (import_all ms)) (p_hash base)) as BC.
      rewrite block_weight_spec in BC.
      unfold precommit_ghost in G. rewrite block_weight_spec in G.
      destruct (current_weight vs (t_votes (import_all ms)) <? vs_threshold vs) eqn:E1.
      * apply N.ltb_lt in E1. lia.
      * destruct (W ms (p_hash base) <? vs_threshold vs) eqn:E2.
        -- apply N.ltb_lt in E2. lia.
        -- apply N.ltb_ge in E2. exact (Gnone_impossible _ _ _ _ _ _ G).
    + (* a GHOST g at depth d *)
      assert (Gd : ghost_descend (S (length hs)) vs hs (t_votes (import_all ms)) (p_hash base) 0 = GBlock g d).
      { unfold precommit_ghost in G.
        destruct (current_weight vs (t_votes (import_all ms)) <? vs_threshold vs); [discriminate|].
        destruct (block_weight vs hs (t_votes (import_all ms)) (p_hash base) <? vs_threshold vs); [discriminate|].
        exact G. }
      pose proof (precommit_ghost_weight _ _ _ _ _ _ G) as Wg. rewrite block_weight_spec in Wg.
      destruct (descend_sound ms _ _ _ _ _ Gd) as [Dg [Ed Cg]].
      pose proof (desc_num_le hs num wf _ _ Dg) as Ng.
      destruct ((g =? thash) && (p_num base + d =? tnum)) eqn:V.
      * (* declared valid: the specification holds *)
        apply andb_true_iff in V. destruct V as [V1 V2]. apply N.eqb_eq in V1, V2. subst g.
        symmetry. apply andb_true_iff; split; [apply andb_true_iff; split|].
        -- apply N.leb_le. exact Wg.
        -- rewrite (desc_distance hs num wf _ _ Dg). apply N.eqb_eq. lia.
        -- apply forallb_forall. intros p Hp.
           destruct (child_towards hs thash (p_hash p)) as [c|] eqn:Ct; [|reflexivity].
           apply N.ltb_lt.
           destruct (in_dec N.eq_dec c (children hs (t_votes (import_all ms)) thash)) as [Hin|Hnin];
             [now apply Cg|].
           (* c is not below any first vote: only equivocators stand on it *)
           assert (Hz : forall id, In id (voter_ids ms) -> is_equivocator id ms = false -> backs vs hs ms c id = 0).
           { intros id Hid He. unfold backs. rewrite He. destruct (votes_of id ms) as [|a r'] eqn:Vo; [reflexivity|].
             destruct (is_eq_or_desc hs c (p_hash a)) eqn:Dc; [|reflexivity]. exfalso. apply Hnin.
             apply eod_desc in Dc. apply (child_towards_spec hs num wf) in Ct. destruct Ct as [_ [_ Cc]].
             apply In_children. unfold voter_ids in Hid. apply (proj1 (In_nodupN _ _)) in Hid.
             destruct (tally_has _ _ Hid) as [x Hx]. exists (id, x). split; [assumption|]. cbn [snd].
             destruct (tally_entry _ _ _ Hx) as [r'' [V' _]]. rewrite Vo in V'.
             assert (Ea : a = mhead x) by (inversion V'; reflexivity).
             rewrite first_target_mhead, <- Ea.
             apply (child_towards_spec hs num wf).
             destruct Cc as [C1 [C2 C3]].
             assert (Da : desc thash (p_hash a)).
             { eapply desc_trans; [exact Dc|]. eapply child_of_desc_b. split; eauto. }
             split; [|split; [exact Da|]].
             - intros E. rewrite E in Dc. destruct C3 as [xx [Fx Px]].
               pose proof (desc_num_le hs num wf _ _ Dc). rewrite (find_hdr_num hs num wf _ _ Fx), Px in H. lia.
             - split; [assumption|]. split; [assumption|]. assumption. }
           rewrite (weight_only_equivocators _ _ Hz). lia.
      * (* declared invalid: the specification fails, or the descent would have ended at the target *)
        symmetry. apply not_true_iff_false. intros S.
        apply andb_true_iff in S. destruct S as [S S4].
        apply andb_true_iff in S. destruct S as [S2 S3].
        apply N.leb_le in S2.
        destruct (distance hs (p_hash base) thash) as [dd|] eqn:Di; [|discriminate].
        apply N.eqb_eq in S3.
        pose proof (distance_num hs num wf _ _ _ Di) as Nd.
        apply (distance_spec hs) in Di. destruct Di as [rr [Wk _]].
        assert (D : desc (p_hash base) thash) by (now exists rr).
        assert (Hch : forall c, In c (children hs (t_votes (import_all ms)) thash) -> W ms c < vs_threshold vs).
        { intros c Hc. destruct (children_child ms _ _ Hc) as [_ [_ [p [Hp Ct]]]].
          rewrite forallb_forall in S4. specialize (S4 p Hp). rewrite Ct in S4. now apply N.ltb_lt in S4. }
        pose proof (descend_complete ms Hex' thash S2 Hch _ _ _ _ _ D Gd) as Eg. subst g.
        apply andb_false_iff in V. destruct V as [V|V].
        -- rewrite N.eqb_refl in V. discriminate.
        -- apply N.eqb_neq in V. lia.
Qed.

End Iff.
