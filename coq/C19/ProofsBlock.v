(* C19/ProofsBlock.v — Service.VerifyBlockJustification (third round): an authority list that
   yields no voter set is REJECTED (never a panic, never an acceptance); a finalized number that
   does not fit 32 bits is rejected; otherwise the verdict is that of verify_finalizes. *)
From Coq Require Import List NArith Bool Lia ZifyN ZifyNat ZifyBool.
From C19 Require Import Model ProofsVoterSet ProofsMain.
Import ListNotations.
Local Open Scope N_scope.

Lemma sum_all_unit auths : sum_all (unit_weights auths) = N.of_nat (length auths).
Proof.
  unfold unit_weights, sum_all. induction auths as [|a r IH]; cbn [map fold_right length snd]; [reflexivity|].
  rewrite IH. lia.
Qed.

Lemma sum_for_unit id auths :
  sum_for id (unit_weights auths) = N.of_nat (length (filter (N.eqb id) auths)).
Proof.
  unfold unit_weights, sum_for. induction auths as [|a r IH]; cbn [map fold_right filter fst snd]; [reflexivity|].
  rewrite IH. rewrite (N.eqb_sym a id). destruct (id =? a); cbn [length]; lia.
Qed.

(* no voter set exactly for the empty list (or an absurdly long one: 2^64 entries) *)
Lemma unit_voter_set_none auths :
  new_voter_set (unit_weights auths) = None <-> auths = [] \/ two64 <= N.of_nat (length auths).
Proof.
  pose proof (new_voter_set_spec (unit_weights auths)) as S.
  destruct (new_voter_set (unit_weights auths)) as [vs|] eqn:E.
  - split; [discriminate|]. intros H. exfalso.
    destruct (new_voter_set_some _ _ E) as [T [[L U] _]]. rewrite T, sum_all_unit in *.
    destruct H as [->|H]; cbn in *; lia.
  - split; [|reflexivity]. intros _. unfold voter_set_spec in S. rewrite sum_all_unit in S.
    apply orb_true_iff in S. destruct S as [S|S].
    + left. apply N.eqb_eq in S. destruct auths; [reflexivity | cbn in S; lia].
    + right. now apply N.leb_le.
Qed.

Lemma block_no_voters auths hs fhash fnum thash tnum ps :
  verify_block_justification auths hs fhash fnum thash tnum ps = BNoVoters <->
  auths = [] \/ two64 <= N.of_nat (length auths).
Proof.
  rewrite <- unit_voter_set_none. unfold verify_block_justification.
  destruct (new_voter_set (unit_weights auths)).
  - destruct (two32 <=? fnum); split; discriminate.
  - tauto.
Qed.

Lemma block_never_panics auths hs fhash fnum thash tnum ps :
  verify_block_justification auths hs fhash fnum thash tnum ps <> BPanic.
Proof.
  unfold verify_block_justification. destruct (new_voter_set _); [|discriminate].
  destruct (two32 <=? fnum); discriminate.
Qed.

Lemma block_accept_iff auths hs fhash fnum thash tnum ps :
  verify_block_justification auths hs fhash fnum thash tnum ps = BOut JOk <->
  exists vs, new_voter_set (unit_weights auths) = Some vs /\ fnum < two32
             /\ verify_finalizes vs hs fhash fnum thash tnum ps = JOk.
Proof.
  unfold verify_block_justification. destruct (new_voter_set (unit_weights auths)) as [vs|].
  - destruct (N.leb_spec two32 fnum) as [Hge|Hlt0].
    + split; [discriminate|]. intros [vs' [_ [Hlt _]]]. lia.
    + split.
      * intros Hv. exists vs. split; [reflexivity|]. split; [assumption|]. congruence.
      * intros [vs' [E [_ V]]]. inversion E; subst. now rewrite V.
  - split; [discriminate|]. intros [vs' [? _]]. discriminate.
Qed.

(* THE PROPERTY on the block-import entry point: accepted iff the authority list yields a voter set
   (weight of an authority = the number of times it is listed) and the justification is valid for it *)
Lemma block_accept_iff_spec auths hs num fhash fnum thash tnum ps :
  (forall x, In x hs -> num (h_hash x) = num (h_parent x) + 1) ->
  (forall p, In p ps -> p_num p = num (p_hash p)) ->
  (forall vs, new_voter_set (unit_weights auths) = Some vs -> excess_equivocation vs ps = false) ->
  (verify_block_justification auths hs fhash fnum thash tnum ps = BOut JOk <->
   exists vs, new_voter_set (unit_weights auths) = Some vs /\ fnum < two32
              /\ (forall id, vs_weight vs id = N.of_nat (length (filter (N.eqb id) auths)))
              /\ justification_valid_spec vs hs fhash fnum thash tnum ps = true).
Proof.
  intros H1 H2 H3. rewrite block_accept_iff. split.
  - intros [vs [E [L V]]]. exists vs. split; [assumption|]. split; [assumption|]. split.
    + intros id. destruct (new_voter_set_some _ _ E) as [_ [_ [_ [_ [W _]]]]]. rewrite W. apply sum_for_unit.
    + apply (accept_iff_new_voter_set _ vs hs num fhash fnum thash tnum ps E H1 H2 (H3 vs E)). exact V.
  - intros [vs [E [L [_ S]]]]. exists vs. split; [assumption|]. split; [assumption|].
    apply (accept_iff_new_voter_set _ vs hs num fhash fnum thash tnum ps E H1 H2 (H3 vs E)). exact S.
Qed.

(* ---- the tree before the two repairs ---- *)
Definition wb_hs : list hdr := [mkHdr 2 1 7].
Definition wb_pcs : list precommit := [mkPc 2 7 0 0 true; mkPc 1 6 1 0 true; mkPc 1 6 2 0 true].
Lemma block_prefix_witness :
  verify_block_justification_prefix [] wb_hs 1 6 1 6 wb_pcs = BPanic
  /\ verify_block_justification [] wb_hs 1 6 1 6 wb_pcs = BNoVoters
  /\ verify_block_justification_prefix [0; 1; 2] wb_hs 1 (6 + two32) 1 6 wb_pcs = BOut JOk
  /\ verify_block_justification [0; 1; 2] wb_hs 1 (6 + two32) 1 6 wb_pcs = BOut (JErr JTarget)
  /\ verify_block_justification [0; 1; 2] wb_hs 1 6 1 6 wb_pcs = BOut JOk
  /\ verify_block_justification [0; 0; 1] wb_hs 1 6 1 6 [mkPc 2 7 0 0 true; mkPc 1 6 1 0 true] = BOut JOk
  /\ verify_block_justification [0; 1; 2] wb_hs 1 6 1 6 [mkPc 2 7 0 0 true; mkPc 1 6 1 0 true] = BOut (JErr JCommit).
Proof. vm_compute. repeat split; reflexivity. Qed.
