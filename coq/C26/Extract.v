From Coq Require Import Extraction ExtrOcamlBasic.
From Common Require Import Bytes Drv Outcome.
From C26 Require Import Model ModelSkip.
Extraction "model.ml" drv_b2n drv_n2b drv_z_of_n drv_n_of_z drv_nat_of_n drv_n_of_nat
  fixed prefix mkest wf epoch_of announce_epoch announce_config get_epoch_data get_config
  enough_fuel spec_epoch_data spec_config announced on_chain alookup depth valid_hdr genesis_id
  get_skipped_epoch_data get_skipped_config x_init x_announce_epoch x_announce_config x_restart update_skipped.
