(* C26/ModelSkip.v -- second-round additions to the model of dot/state/epoch.go (definitions only):
     - nextEpochMap.RetrieveAndUpdate, GetSkippedEpochDataRaw, GetSkippedConfigData (the lookups
       used when an epoch was skipped: the definitions announced for the skipped epoch are
       re-keyed to the current epoch, in the database or in the in-memory map);
     - the persisted copies of the two in-memory maps (setBABENextEpochDataInDB /
       setBABENextConfigData) and a restart (NewEpochState -> restoreMapFromDisk).
   `fs` = fixes/C26-skipped-config-fallback.patch applied (GetSkippedConfigData falls back to the
   earlier epochs on errHashNotInMemory, as GetConfigData does since 7b4ee8a1f). *)
From Coq Require Import NArith List Bool Arith.
From Common Require Import Outcome.
From C26 Require Import Model.
Import ListNotations.
Local Open Scope N_scope.

Definition with_ned (s : est) (m : emap) : est := mkest (e_tree s) (e_len s) m (ncd s) (dbe s) (dbc s).
Definition with_ncd (s : est) (m : emap) : est := mkest (e_tree s) (e_len s) (ned s) m (dbe s) (dbc s).
Definition with_dbe (s : est) (d : list (N * N)) : est := mkest (e_tree s) (e_len s) (ned s) (ncd s) d (dbc s).
Definition with_dbc (s : est) (d : list (N * N)) : est := mkest (e_tree s) (e_len s) (ned s) (ncd s) (dbe s) d.

(* delete(oldEpochHashes, hash) *)
Definition remove_inner (l : list (nat * N)) (b : nat) : list (nat * N) :=
  filter (fun bd => negb (Nat.eqb (fst bd) b)) l.
(* nem[e] = l *)
Fixpoint set_outer (m : emap) (e : N) (l : list (nat * N)) : emap :=
  match m with
  | [] => [(e, l)]
  | (e', l') :: r => if e' =? e then (e, l) :: r else (e', l') :: set_outer r e l
  end.

(* the map after moving entry bd from epoch olde to epoch newe (an emptied inner map stays) *)
Definition move_entry (m : emap) (entries : list (nat * N)) (olde newe : N) (bd : nat * N) : emap :=
  let m1 := set_outer m olde (remove_inner entries (fst bd)) in
  let dst := match alookup m1 newe with Some x => x | None => [] end in
  set_outer m1 newe (put_inner dst (fst bd) (snd bd)).

(* nextEpochMap.RetrieveAndUpdate(oldEpoch, newEpoch, header): every admissible
   (moved entry, resulting map) -- Go's map iteration order decides when several entries match *)
Definition retrieve_update (v : variant) (fuel : nat) (t : tree) (m : emap) (olde newe : N) (h : hdr)
  : outcome (list ((nat * N) * emap)) :=
  match alookup m olde with
  | None => Err e_epoch_not_in_memory
  | Some entries =>
    obind (find_anc v fuel t entries h h)
          (fun l => Ok (map (fun bd => (bd, move_entry m entries olde newe bd)) l))
  end.

(* updateEpochDefinitionKey: batch Del(old key); Put(new key, raw) *)
Definition db_move (d : list (N * N)) (olde newe : N) : option (N * list (N * N)) :=
  match alookup d olde with
  | None => None
  | Some x => Some (x, (newe, x) :: filter (fun kv => negb (fst kv =? olde) && negb (fst kv =? newe)) d)
  end.

(* GetSkippedEpochDataRaw(skippedEpoch, currentEpoch, header): (payload, state afterwards) *)
Definition get_skipped_epoch_data (v : variant) (fuel : nat) (s : est) (se ce : N) (h : hdr)
  : outcome (list (N * est)) :=
  if se =? 0 then Ok [(genesis_id, s)] else
  match db_move (dbe s) se ce with
  | Some (d, dbe') => Ok [(d, with_dbe s dbe')]
  | None =>
    obind (retrieve_update v fuel (e_tree s) (ned s) se ce h)
          (fun l => Ok (map (fun x => (snd (fst x), with_ned s (snd x))) l))
  end.

(* GetSkippedConfigData(skippedEpoch, currentEpoch, header) *)
Definition get_skipped_config (v : variant) (fs : bool) (fuel : nat) (s : est) (se ce : N) (h : hdr)
  : outcome (list (N * est)) :=
  if se =? 0 then Ok [(genesis_id, s)] else
  match db_move (dbc s) se ce with
  | Some (d, dbc') => Ok [(d, with_dbc s dbc')]
  | None =>
    match retrieve_update v fuel (e_tree s) (ncd s) se ce h with
    | Ok l => Ok (map (fun x => (snd (fst x), with_ncd s (snd x))) l)
    | Err c =>
      if Nat.eqb c e_epoch_not_in_memory || (fs && Nat.eqb c e_hash_not_in_memory)
      then obind (get_config v fuel s (se - 1) h) (fun l => Ok (map (fun d => (d, s)) l))
      else Err c
    | Panic => Panic
    | OutOfFuel => OutOfFuel
    end
  end.

(* UpdateSkippedEpochDefinitions(skippedEpoch, currentEpoch, header) (core.Service.HandleBlockImport
   for a block that skips an epoch): re-keys the epoch data, then the configuration.  The epoch
   data part is modelled only when the skipped epoch's data is in the database: otherwise the Go
   code runs into `RLock nextEpochDataLock / defer RUnlock nextConfigDataLock` (fatal error), which
   is Panic here and never exercised.  `fu` = fixes/C26-update-skipped-config-fallback.patch:
   a configuration announced on another fork only is treated like "none announced". *)
Definition update_skipped (v : variant) (fu : bool) (fuel : nat) (s : est) (se ce : N) (h : hdr)
  : outcome (list est) :=
  if se =? 0 then Ok [s] else
  match db_move (dbe s) se ce with
  | None => Panic
  | Some (_, dbe') =>
    let s1 := with_dbe s dbe' in
    match db_move (dbc s1) se ce with
    | Some (_, dbc') => Ok [with_dbc s1 dbc']
    | None =>
      match retrieve_update v fuel (e_tree s1) (ncd s1) se ce h with
      | Ok l => Ok (map (fun x => with_ncd s1 (snd x)) l)
      | Err c => if Nat.eqb c e_epoch_not_in_memory || (fu && Nat.eqb c e_hash_not_in_memory)
                 then Ok [s1] else Err c
      | Panic => Panic
      | OutOfFuel => OutOfFuel
      end
    end
  end.

(* ---- persisted copies of the in-memory maps, restart ---- *)
Record xst := mkxst { x_s : est; x_de : emap; x_dc : emap }.
Definition x_init (t : tree) (elen : N) (dbe0 dbc0 : list (N * N)) : xst :=
  mkxst (mkest t elen [] [] dbe0 dbc0) [] [].
Definition target_epoch (s : est) (b : nat) : N := epoch_of (e_tree s) (e_len s) (Imp b) + 1.
Definition x_announce_epoch (x : xst) (b : nat) (d : N) : xst :=
  mkxst (announce_epoch (x_s x) b d) (put_outer (x_de x) (target_epoch (x_s x) b) b d) (x_dc x).
Definition x_announce_config (x : xst) (b : nat) (d : N) : xst :=
  mkxst (announce_config (x_s x) b d) (x_de x) (put_outer (x_dc x) (target_epoch (x_s x) b) b d).
(* NewEpochState on the same database: both maps are rebuilt from their persisted copies *)
Definition x_restart (x : xst) : xst :=
  mkxst (with_ncd (with_ned (x_s x) (x_de x)) (x_dc x)) (x_de x) (x_dc x).
Definition synced (x : xst) : Prop := ned (x_s x) = x_de x /\ ncd (x_s x) = x_dc x.

(* ---- booleans for the vm_compute cross-check ---- *)
Definition out_eqb (a b : outcome (list N)) : bool :=
  match a, b with
  | Ok l1, Ok l2 => (Nat.eqb (length l1) (length l2)) && forallb (fun x => existsb (N.eqb x) l2) l1
  | Err c1, Err c2 => Nat.eqb c1 c2
  | Panic, Panic => true
  | OutOfFuel, OutOfFuel => true
  | _, _ => false
  end.
(* the implementation answered `ok d` / an error of class c *)
Definition answer_ok (r : outcome (list N)) (d : N) : bool :=
  match r with Ok l => existsb (N.eqb d) l | _ => false end.
Definition answer_err (r : outcome (list N)) (c : nat) : bool :=
  match r with Err c' => Nat.eqb c c' | _ => false end.

(* ---------- vm_compute cross-check of the extraction (bin/check vm_sample) ----------
   One whole case (tree, announcements, database entries, query sequence) is re-run inside Coq and
   compared with the implementation's observables. *)
Inductive vq :=
| VQe (natural : bool) (e : N) (h : hdr)     (* GetEpochDataRaw; natural: e was observed as GetEpochForBlock(h) *)
| VQc (natural : bool) (e : N) (h : hdr)     (* GetConfigData *)
| VQg (h : hdr)                               (* GetEpochForBlock *)
| VQE (se ce : N) (h : hdr)                   (* GetSkippedEpochDataRaw *)
| VQC (se ce : N) (h : hdr)                   (* GetSkippedConfigData *)
| VQR.                                        (* restart *)
Inductive vo :=
| VOok (d : N) | VOerr (c : nat) | VOep (e : N)
| VOokm (d : N) (m : emap) | VOerrm (c : nat) (m : emap)
| VOr (me mc : emap).

Definition inner_sub (a b : list (nat * N)) : bool :=
  forallb (fun x => existsb (fun y => Nat.eqb (fst x) (fst y) && (snd x =? snd y)) b) a.
Definition inner_eqb (a b : list (nat * N)) : bool :=
  Nat.eqb (length a) (length b) && inner_sub a b && inner_sub b a.
Definition emap_eqb (a b : emap) : bool :=
  Nat.eqb (length a) (length b)
  && forallb (fun el => match alookup b (fst el) with Some l => inner_eqb (snd el) l | None => false end) a.
Definition res_match (r : outcome (list N)) (o : vo) : bool :=
  match o with VOok d => answer_ok r d | VOerr c => answer_err r c | _ => false end.

Fixpoint vm_run (fuel : nat) (x : xst) (qs : list (vq * vo)) : bool :=
  match qs with
  | [] => true
  | (q, o) :: r =>
    let s := x_s x in
    match q with
    | VQg h => match o with VOep e => (epoch_of (e_tree s) (e_len s) h =? e) && vm_run fuel x r | _ => false end
    | VQe nat e h =>
      (negb nat || (epoch_of (e_tree s) (e_len s) h =? e)) && res_match (get_epoch_data fixed fuel s e h) o && vm_run fuel x r
    | VQc nat e h =>
      (negb nat || (epoch_of (e_tree s) (e_len s) h =? e)) && res_match (get_config fixed fuel s e h) o && vm_run fuel x r
    | VQR => match o with
             | VOr me mc => let x' := x_restart x in
                            emap_eqb (ned (x_s x')) me && emap_eqb (ncd (x_s x')) mc && vm_run fuel x' r
             | _ => false
             end
    | VQE se ce h =>
      match get_skipped_epoch_data fixed fuel s se ce h, o with
      | Ok alts, VOokm d m =>
        match find (fun a : N * est => (fst a =? d) && emap_eqb (ned (snd a)) m) alts with
        | Some a => vm_run fuel (mkxst (snd a) (x_de x) (x_dc x)) r
        | None => false
        end
      | Err c', VOerrm c m => Nat.eqb c c' && emap_eqb (ned s) m && vm_run fuel x r
      | _, _ => false
      end
    | VQC se ce h =>
      match get_skipped_config fixed true fuel s se ce h, o with
      | Ok alts, VOokm d m =>
        match find (fun a : N * est => (fst a =? d) && emap_eqb (ncd (snd a)) m) alts with
        | Some a => vm_run fuel (mkxst (snd a) (x_de x) (x_dc x)) r
        | None => false
        end
      | Err c', VOerrm c m => Nat.eqb c c' && emap_eqb (ncd s) m && vm_run fuel x r
      | _, _ => false
      end
    end
  end.

(* anns: (true = NextEpochData / false = NextConfigData, announcing block, payload) in handling order *)
Definition vm_case (t : tree) (elen : N) (anns : list (bool * nat * N)) (dbe0 dbc0 : list (N * N))
  (me mc : emap) (qs : list (vq * vo)) : bool :=
  wf t &&
  let x := fold_left (fun x a => match a with
                                 | (true, b, d) => x_announce_epoch x b d
                                 | (false, b, d) => x_announce_config x b d
                                 end) anns (x_init t elen dbe0 dbc0) in
  emap_eqb (ned (x_s x)) me && emap_eqb (ncd (x_s x)) mc && vm_run (enough_fuel t) x qs.
